#!/usr/bin/env python3
"""Regenerates MANIFEST.json from the table below (kept in one place so it stays valid)."""
import json, os
V = os.path.dirname(os.path.dirname(os.path.abspath(__file__)))
BASE = "cd /repo && GOFLAGS=-mod=mod GOPROXY=off GOSUMDB=off GOTOOLCHAIN=local go test -vet=off -count=1 -json -timeout 25m ./..."
TB = ("Coq 8.16.1 kernel + VM (vm_compute); axioms as listed per theorem by Print Assumptions in the evidence file; "
      "hand-written Gallina model tied to /repo by the per-run correspondence check (Go harness built with -tags verif); "
      "external code as oracles (DESIGN.md 2.3, 4)")
CLAIMED = {
 "C19": ("proof", "Theorems for every weight vector and every draw (Properties/C19.v): entry i is chosen by exactly w_i of the total draws, zero weights never, positive always reachable, lookup beyond the total fails. The model (Model/Weights.v, the actual bisection) is compared with the real find/choose on every run, with the draw behind each choose() learnt by re-seeding math/rand and every draw value covered for totals <= 96.", "5 C19", "Coq proof (induction over the scale + counting lemma) + vm_compute correspondence against the real code"),
}
CLAIMED["C07"] = ("proof", "Theorems for every NumOps instance (Properties/C07.v): every reachable history (any sequence of add/remove/update/close/reopen) has 100 slots, newest first, no gaps; AddFlight is exactly 'stable sorted insert, keep newest 100' and refuses exactly a flight older than all 100; Update/EndTrip/ReopenTrip change markers only and never a traveller's trip end; remove after add restores a non-full history. The model (actual bisection, copy semantics, oldestChange bookkeeping) is compared with the real TripHistory after every step of generated scripts under the C07 projection (flight data + order of all 100 slots, traveller trip-end indices), with a Go ordered-list oracle as monitor.", "5 C07", "Coq proof (ordering invariant by induction over operations, refinement to sorted insert) + vm_compute correspondence")
CLAIMED["C05"] = ("proof", "Theorems for every NumOps instance (Properties/C05.v): for every reachable history, every parameter set and every update time, a successful Update leaves nobody mid-trip whose marker-defined open trip started more than TripLength whole days ago or holds FlightsInTrip flights (loop invariant relating the tracked tripState to the markers + window lemma for startOfTrip); an ended trip is a no-op for Update and stays ended over any number of later updates. The model is compared with the real TripHistory after every step (full state hash incl. markers and oldestChange, MidTrip, tripStartEndLength, startOfTrip), and Go monitors state both halves of C05 on the real code.", "5 C05", "Coq proof (loop invariant over the update fold, induction over operations) + vm_compute correspondence")
CLAIMED["C01"] = ("proof", "Theorems for every NumOps instance, i.e. bit-exact for float64 (Properties/C01.v): over every sequence of engine operations the balance of every stored traveller is the sequential sum of the ghost unbounded ledger and the stored window is its newest 100 entries; an accepted check-in appends exactly -d_i and (taxi != 0) -taxi per flight in order when debiting and nothing otherwise; the daily update appends at most the share; an erroring submission stores nothing; under commutative/associative addition the sum is order-independent. The engine model (real check-in loop, transact, correction options) is compared with the real Engine on LevelDB after every operation under the C01 projection; a Go monitor keeps its own unbounded ledger (bitwise).", "5 C01", "Coq proof (ledger invariant by induction over engine operations) + vm_compute correspondence")
CLAIMED["C02"] = ("proof", "Theorems for every NumOps instance (Properties/C02.v): a one-flight check-in returns EGROUNDED iff not mid-trip, balance not >= 0 and no kept promise whose refreshed clearance is reached (also at the engine API on the stored or fresh record); mid-trip / never flown / zero balance / due kept promise are never refused; errors store nothing; an in-order multi-flight submission is refused only at its first flight. The unconditional multi-flight statement is refuted by a machine-checked witness (known finding). Correspondence: the result code of every check-in in generated engine histories; Go monitor recomputes 'grounded' from the record read just before each call.", "5 C02", "Coq proof (decision lemma, induction over the submitted flights) + vm_compute correspondence")
CLAIMED["C03"] = ("proof", "Theorems for every NumOps instance (Properties/C03.v): in every reachable engine state with a permitted thread setting, a daily update stores for every traveller exactly its own updated record, the share is (DailyTotal + cycled correction iff the option is on)/max(MinGrounded, previously credited) or 0, each traveller who is not mid-trip once the trip rules are applied and has a negative balance gets exactly one share and nobody else's balance changes, a trip closed in the same update by keeping a promise is not credited, and the reported and carried grounded count is the number credited. Correspondence under the C03 projection (share bits, grounded count, all balances after every update) on populations of 2-40 travellers over several days; Go monitor recomputes formula and credit set.", "5 C03", "Coq proof (per-traveller decision lemma + partition/permutation argument over the worker slices, induction over operations) + vm_compute correspondence")
CLAIMED["C04"] = ("proof", "Theorems (Properties/C04.v): for all 256 thread bytes, the accepted ones cut worker ranges that cover each of the 16 shards exactly once with no more workers than channel slots (finite sweep by vm_compute lifted with forallb_forall); the workers' slices are a permutation of the snapshot for any key distribution; stored records, carried state, share and integer totals are functions of state and time alone; any interleaving of the write lists and any arrival order of statistics give the same table and integer totals; the float distance total is order-independent only under ring laws (known finding on the real code). Correspondence: the same database image updated from identical copies at Threads=0,1,2,4,8,16 with crowded and empty shards, compared with each other and with the model. PARTIAL: freedom from Go data races cannot be exhibited by a Gallina model; the proved footprint argument (workers share only immutable inputs, write distinct keys) is supported by 'go test -race' over the same driver in the thorough tier.", "5 C04", "Coq proof (finite sweep + permutation/partition lemmas) + vm_compute correspondence across six thread settings")
CLAIMED["C09"] = ("proof", "Theorems for every NumOps instance and EVERY predictor (an arbitrary record of functions; Properties/C09.v): an accepted proposal against a consistent book yields a book with ten slots, ordered by trip start, non-overlapping, every clearance no later than the next trip's start, stack indices within 0..max; all previously made promises keep trip dates and distances, only slot 10 may be dropped and only if its trip has ended; chains of brought-forward promises (ghost flag) never outgrow the stack index, hence the maximum; lifted to every sequence of proposals by induction. The model (actual bisection, insertion, restack cascade) is compared with the real Promises.propose/make on scripted predictors (offset, failing, rate-based, failing backfill, changing versions): result codes and a hash of all ten slots and all fields; Go monitor states the invariant on every accepted proposal.", "5 C09", "Coq proof (restack loop invariant with exception set, chain lemma, induction over proposals) + vm_compute correspondence")
CLAIMED["C10"] = ("proof", "Theorems (Properties/C10.v): the refusal table of Propose (promises disabled, no flights, start in the past, non-positive distance, overlap with any promised trip - using the C09 invariant -, no room, beyond the horizon), Make applies iff the predictor version equals the version at issue and then installs exactly the proposed promises leaving the rest of the record alone, a failed Make changes nothing, and the version moves exactly when the stored fit moves (both predictors) and never backwards. Purity of proposing is the type of the model function; it is tied to the code by digesting every table and the administrator state before and after every real Propose (monitor) and by the correspondence (C10 projection: all Propose/Make results, proposal hashes, books, administrator state).", "5 C10", "Coq proof (decision lemmas, version lemmas) + vm_compute correspondence + before/after digests of the real store")
CLAIMED["C17"] = ("proof", "Theorems (Properties/C17.v; every NumOps with '0 > 0 is false'): one update reports exactly the 'departed in the preceding 24 hours' statistics of the re-evaluated window; under the daily discipline (the preceding day's flights lie below oldestChange, which check-ins of the current day are proved to maintain and a successful update re-establishes) it reports exactly the flights that departed in the preceding 24 hours - count and distances oldest first - including midnight and 23:59:59 departures; each flight counts at one and only one day start; totals are sums over travellers each visited once. The traveller-closes-then-flies-again case is exhibited as an observation outside the quantifier. Correspondence under the C17 projection (flights, travellers, distance bits of every update) on strictly daily engine histories; Go monitor tallies accepted flights itself.", "5 C17", "Coq proof (fold statistics lemma, window coverage, discipline invariant) + vm_compute correspondence")
PENDING = {}
props = [json.loads(l) for l in open(os.path.join(V, "properties.jsonl"))]
checks, na = [], []
for p in props:
    i = p["id"]
    if i in CLAIMED:
        cat, text, ref, tech = CLAIMED[i]
        checks.append({
            "property_id": i,
            "quick_cmd": "bin/check %s quick" % i,
            "thorough_cmd": "bin/check %s thorough" % i,
            "evidence_file": "/verif/evidence/%s.json" % i,
            "replay_cmd_template": "bin/check %s --replay {path}" % i,
            "engine": "coq-model+go-harness",
            "level_claimed": {"category": cat, "text": text, "design_ref": "DESIGN.md section " + ref},
            "level_note": TB,
            "technique": tech,
        })
    else:
        na.append({"property_id": i, "reason": PENDING.get(i, "not claimed yet: model, theorems and correspondence for this property are still under construction (see DESIGN.md section 5)")})
m = {
 "version": 1,
 "setup_cmd": "bin/setup",
 "hooks": {
  "guard": "verif",
  "enable": "go build -tags verif (add-only files pkg/flap/verif_hooks.go, pkg/model/verif_hooks.go)",
  "baseline_off_cmd": BASE,
  "source_commits": [l.strip() for l in open(os.path.join(V, "hook_commits.txt")) if l.strip()],
  "add_only": True,
 },
 "engines": [{"name": "coq-model+go-harness", "path": "/verif/bin/check",
              "serves_properties": [c["property_id"] for c in checks],
              "kind_free_text": "Coq 8.16.1 development (coq/) with per-property theorem files; Go harness (harness/) driving the real code and emitting cases_*.v evaluated by vm_compute; Python driver"}],
 "checks": checks,
 "notes": "bin/check <id> quick|thorough; VERIF_SEED honoured; known findings in known_findings.json; replays under replays/",
 "not_applicable": na,
}
json.dump(m, open(os.path.join(V, "MANIFEST.json"), "w"), indent=1)
print("claimed", len(checks), "pending", len(na))
