#!/usr/bin/env python3
"""Writes /verif/seeded/<name>/meta.json (and copies the author's README) for every seeded change:
which property, what it needs to manifest, what was run to confirm it and which checks caught it."""
import json, os, re, sys, glob, shutil
V = "/verif"
NOTES = json.load(open(os.path.join(V, "seeded", "notes.json"))) if os.path.exists(os.path.join(V, "seeded", "notes.json")) else {}
for d in sorted(glob.glob(os.path.join(V, "seeded", "C*_*m[12]"))):
    name = os.path.basename(d)
    prop, mn = name.split("_")
    res = json.load(open(os.path.join(d, "result.json")))
    readme_src = "/tmp/mut_%s/out/README.md" % prop
    if mn.startswith("r2"):          # second round of seeded changes
        mn = mn[2:]
        readme_src = "/tmp/mut2_%s/out/README.md" % prop
    elif mn.startswith("r6"):        # sixth round
        mn = mn[2:]
        readme_src = "/tmp/r6/out/%s/README.md" % prop
    elif mn.startswith("r5"):        # fifth mini-round (C20, the simulation's planner code): C20_r5<agent letter>m<k>
        readme_src = "/tmp/r5/out_%s%s/README.md" % (prop, mn[2])
        mn = mn[3:]
    elif mn.startswith("r4"):        # fourth round
        mn = mn[2:]
        readme_src = "/tmp/r4/out_%s/README.md" % prop
    elif mn.startswith("r3"):        # third round
        mn = mn[2:]
        readme_src = "/tmp/mut3_%s/out/README.md" % prop
    readme_dst = os.path.join(d, "AUTHOR_README.md")
    if os.path.exists(readme_src):
        shutil.copy(readme_src, readme_dst)
    text = open(readme_dst).read() if os.path.exists(readme_dst) else ""
    # the section about this change: from a heading / paragraph naming mN to the next one naming the other change
    other = "m2" if mn == "m1" else "m1"
    sec = ""
    m = re.search(r"(?im)^(#+\s*|\*\*)?\s*%s\b" % mn, text)
    if m:
        rest = text[m.start():]
        m2 = re.search(r"(?im)^(#+\s*|\*\*)\s*%s\b" % other, rest[5:])
        sec = rest[: m2.start() + 5] if m2 else rest
    needs = [l.strip(" *-") for l in sec.splitlines() if re.search(r"(?i)\bneeds?\b|to manifest|manifests? (on|when|only)", l)]
    detected = [p for p, c in res.get("checks", {}).items() if c.get("exit") == 1]
    meta = {
        "name": name,
        "property": prop,
        "patch": "patch.diff",
        "demonstration": "demo_test.go (copied to the package directory named in its header as zz_demo_test.go; passes on the unchanged tree, fails with the change)",
        "needs_to_manifest": needs[:6] if needs else ["see AUTHOR_README.md"],
        "author_description": sec.strip()[:3000],
        "confirmed_by": res.get("ran", []) + ["applies cleanly: %s" % res.get("applies"), "builds with and without -tags verif: %s" % res.get("builds"),
                         "pinned suite unchanged (79 stable tests): %s" % res.get("baseline_kept"),
                         "demonstration passes unchanged / fails changed: %s / %s" % (res.get("demo_passes_unchanged"), res.get("demo_fails_changed"))],
        "checks_run_against_it": {p: {"exit": c.get("exit"), "violations": c.get("violations"), "summary": c.get("summary")} for p, c in res.get("checks", {}).items()},
        "detected_by": detected,
        "own_property_check_detects_it": prop in detected,
        "note": NOTES.get(name, ""),
    }
    json.dump(meta, open(os.path.join(d, "meta.json"), "w"), indent=1)
    print(name, "detected_by", detected, "needs", len(needs))
