(** Replays Promises-level scripts (propose / make with scripted predictors) against the model. *)
From Coq Require Import ZArith List Bool Floats Uint63.
From Flap Require Import Model.Num Model.NumF Model.Promises Run.RunTH Run.RunEngine.
Import ListNotations.
Open Scope Z_scope.

(** scripted predictor: mode 0: start+off; 1: error; 2: start + int64(distance/rate) *)
Record spred := mkSP { sp_mode : Z; sp_off : Z; sp_rate : Z; sp_bferr : bool; sp_version : Z }.
Definition pred_of (s : spred) : predictor NumF :=
  mkPred (N:=NumF)
    (fun (d : float) sd =>
       if sp_mode s =? 1 then None
       else if sp_mode s =? 2 then Some (sd + to_int64 (d / fl (sp_rate s))%float)
       else Some (sd + sp_off s))
    (fun a b => if sp_bferr s then None else Some (fl (sp_rate s) * of_int (b - a))%float)
    (sp_version s).

Inductive pop :=
| PPropose (ts te : Z) (dist trav : Z) (now : Z) (sp : spred) (mx : Z) (res : Z) (hash : Z)
| PMake (sp : spred) (res : Z)
| PCheckBook (hash : Z).

Record pstate := mkPS { ps_book : book NumF; ps_last : option (proposal NumF) }.

Definition p_step (s : pstate) (o : pop) : pstate * bool :=
  match o with
  | PPropose ts te d tr now sp mx res hash =>
      match propose (ps_book s) ts te (fl d) (fl tr) now (pred_of sp) mx with
      | inl pp => (mkPS (ps_book s) (Some pp), (res =? 0) && (hash_proposal pp =? hash))
      | inr e => (s, res =? perr_code e)
      end
  | PMake sp res =>
      match ps_last s with
      | None => (s, false)
      | Some pp => match make (ps_book s) pp (pred_of sp) with
                   | inl b => (mkPS b (ps_last s), res =? 0)
                   | inr e => (s, res =? perr_code e)
                   end
      end
  | PCheckBook hash => (s, Uint63.to_Z (hash_book 7%uint63 (ps_book s)) =? hash)
  end.

Fixpoint p_run (s : pstate) (k : nat) (ops : list pop) : list nat :=
  match ops with
  | [] => []
  | o :: t => let '(s', ok) := p_step s o in if ok then p_run s' (S k) t else k :: p_run s' (S k) t
  end.

Fixpoint p_mismatches (k : nat) (cases : list (list pop)) : list (nat * nat) :=
  match cases with
  | [] => []
  | c :: t => map (fun j => (k, j)) (p_run (mkPS empty_book None) 0 c) ++ p_mismatches (S k) t
  end.
