(** Replays harness scripts for flap.TripHistory against the model, on the float instance. *)
From Coq Require Import ZArith List Bool Floats Uint63.
From Flap Require Import Model.Num Model.NumF Model.TripHistory.
Import ListNotations.
Open Scope Z_scope.

(** state hashes use native 63-bit arithmetic (wrapping), so that hashing 100 slots per step is cheap *)
Definition imix (h x : int) : int := (h * 1000003 + x)%uint63.
Definition zmix (h : int) (x : Z) : int := imix h (Uint63.of_Z x).
Definition hash_float (h : int) (d : float) : int :=
  match classify d with
  | PZero => imix h 1 | NZero => imix h 2 | PInf => imix h 3 | NInf => imix h 4 | FloatClass.NaN => imix h 5
  | _ => let '(m, e) := frshiftexp d in
         imix (imix (imix h (normfr_mantissa m)) e) (if PrimFloat.ltb d 0%float then 7 else 8)%uint63
  end.

Definition flightZ := (Z * Z * Z * Z * Z * Z)%type.   (* et code, start, end, from, to, distance bits *)

Definition ftype_of_code (c : Z) : ftype :=
  if c =? 1 then JEnd else if c =? 2 then TEnd else if c =? 3 then TTEnd else if c =? 4 then Reopen else Fl.

Definition flight_of (z : flightZ) : flight NumF :=
  let '(e, s, en, fr, to, d) := z in
  mkFlight (N:=NumF) (ftype_of_code e) s en fr to (of_bits d).
Definition flight_to (f : flight NumF) : flightZ :=
  (ftype_code (et f), fstart f, fend f, ffrom f, fto f, to_bits (fdist f)).

Definition flight_is_empty (f : flight NumF) : bool :=
  ftype_eqb (et f) Fl && (fstart f =? 0) && (fend f =? 0) && (ffrom f =? 0) && (fto f =? 0) &&
  match classify (fdist f) with PZero => true | _ => false end.
Definition hash_flight (h : int) (f : flight NumF) : int :=
  if flight_is_empty f then imix h 11 else
  hash_float (zmix (zmix (zmix (zmix (zmix h (ftype_code (et f))) (fstart f)) (fend f)) (ffrom f)) (fto f)) (fdist f).
Definition hash_hist (h : hist NumF) : Z :=
  Uint63.to_Z (zmix (fold_left hash_flight (entries h) 7%uint63) (Z.of_nat (oc h))).

Definition hash_flight_noet (h : int) (f : flight NumF) : int :=
  if flight_is_empty (set_et f Fl) then imix h 11 else
  hash_float (zmix (zmix (zmix (zmix h (fstart f)) (fend f)) (ffrom f)) (fto f)) (fdist f).
Definition hash_hist_noet (h : hist NumF) : Z := Uint63.to_Z (fold_left hash_flight_noet (entries h) 7%uint63).
Fixpoint tte_indices (l : list (flight NumF)) (i : Z) : list Z :=
  match l with
  | [] => []
  | f :: t => if ftype_eqb (et f) TTEnd then i :: tte_indices t (i + 1) else tte_indices t (i + 1)
  end.

Definition flightZ_eqb (a b : flightZ) : bool :=
  let '(a1,a2,a3,a4,a5,a6) := a in let '(b1,b2,b3,b4,b5,b6) := b in
  (a1 =? b1) && (a2 =? b2) && (a3 =? b3) && (a4 =? b4) && (a5 =? b5) && (a6 =? b6).
Fixpoint list_eqb {A} (e : A -> A -> bool) (a b : list A) : bool :=
  match a, b with [], [] => true | x :: a', y :: b' => e x y && list_eqb e a' b' | _, _ => false end.

Definition th_err_code (e : th_err) : Z :=
  match e with
  | EFlightTooOld => 1 | EFlightNotFound => 2 | EEmptyHistory => 3 | ENotTripEnd => 4
  | ENotStartOfDay => 5 | ENoChange => 6 | EInvalidArg => 7 | CrashIndexOutOfRange => 8
  end.

Inductive thop :=
| TAdd (f : flightZ) (res : Z)
| TRemove (f : flightZ) (res : Z)
| TRemoveAt (i : Z) (res : Z)                  (* remove whatever flight sits at index i *)
| TCheckHashNoEt (h : Z)                       (* flight data and order only, markers projected away *)
| TCheckTTE (ixs : list Z)                     (* indices carrying the traveller-trip-end marker *)
| TUpdate (p : thparams) (now : Z) (res : Z) (dy : Z) (fy : Z)
| TEnd (res : Z)
| TReopen (res : Z)
| TCheckHash (h : Z)
| TCheckDump (fs : list flightZ) (oc : Z)       (* slots 0..k-1 given, all later slots empty *)
| TCheckMid (b : bool)
| TCheckTSEL (st en d : Z)
| TCheckSOT (j res : Z).

Definition is_empty_flight (f : flight NumF) : bool := flight_is_empty f.

Definition th_step (h : hist NumF) (o : thop) : hist NumF * bool :=
  match o with
  | TAdd f res => match add_flight h (flight_of f) with
                  | inl h' => (h', res =? 0) | inr e => (h, res =? th_err_code e) end
  | TRemove f res => match remove_flight h (flight_of f) with
                  | inl h' => (h', res =? 0) | inr e => (h, res =? th_err_code e) end
  | TRemoveAt i res => match remove_flight h (getf (entries h) (Z.to_nat i)) with
                  | inl h' => (h', res =? 0) | inr e => (h, res =? th_err_code e) end
  | TCheckHashNoEt x => (h, hash_hist_noet h =? x)
  | TCheckTTE ixs => (h, list_eqb Z.eqb (tte_indices (entries h) 0) ixs)
  | TUpdate p now res dy fy =>
      match update h p now with
      | inl (h', d, n) => (h', (res =? 0) && (to_bits d =? dy) && (n =? fy))
      | inr e => (h, (res =? th_err_code e) && (dy =? 0) && (fy =? 0))
      end
  | TEnd res => match end_trip_op h with inl h' => (h', res =? 0) | inr e => (h, res =? th_err_code e) end
  | TReopen res => match reopen_trip_op h with inl h' => (h', res =? 0) | inr e => (h, res =? th_err_code e) end
  | TCheckHash x => (h, hash_hist h =? x)
  | TCheckDump fs o' =>
      let k := length fs in
      (h, list_eqb flightZ_eqb (map flight_to (firstn k (entries h))) fs &&
          forallb is_empty_flight (skipn k (entries h)) &&
          (Z.of_nat (oc h) =? o') && Nat.eqb (length (entries h)) MaxFlights)
  | TCheckMid b => (h, Bool.eqb (mid_trip h) b)
  | TCheckTSEL st en d => let '(a, b, c) := trip_start_end_length h in
                          (h, (a =? st) && (b =? en) && (to_bits c =? d))
  | TCheckSOT j res => (h, start_of_trip (entries h) (Z.to_nat j) =? res)
  end.

Fixpoint th_run (h : hist NumF) (k : nat) (ops : list thop) : list nat :=
  match ops with
  | [] => []
  | o :: t => let '(h', ok) := th_step h o in
              if ok then th_run h' (S k) t else k :: th_run h' (S k) t
  end.

Fixpoint th_mismatches (k : nat) (cases : list (list thop)) : list (nat * nat) :=
  match cases with
  | [] => []
  | c :: t => map (fun j => (k, j)) (th_run empty_hist 0 c) ++ th_mismatches (S k) t
  end.
