(** Replays stand-alone predictor scripts against the model, bit for bit. *)
From Coq Require Import ZArith List Bool Floats.
From Flap Require Import Model.Num Model.NumF Model.Promises Model.Predictor Run.RunTH Run.RunEngine.
Import ListNotations.
Open Scope Z_scope.

Inductive rpop :=
| RNewLinear (maxpoints window : Z) (ok : bool)
| RNewPoly (maxpoints window degree : Z) (ok : bool)
| RAdd (day : Z) (y : Z) (fit : list Z)
| RPredict (d : Z) (start : Z) (res : option Z)            (* None = the call returned an error *)
| RBackfilled (s e : Z) (res : option Z)
| RState (ys win : list Z) (consts : list Z) (pv : Z).     (* linear: consts = [c; m] *)

Definition optz_eqb (a b : option Z) : bool :=
  match a, b with Some x, Some y => x =? y | None, None => true | _, _ => false end.

Definition rp_step (p : pred_state NumF) (o : rpop) : pred_state NumF * bool :=
  match o with
  | RNewLinear mp w ok =>
      match new_bestfit (N:=NumF) mp w with Some b => (PLinear b, ok) | None => (PNone, negb ok) end
  | RNewPoly mp w deg ok =>
      match new_polyfit (N:=NumF) mp w deg with Some q => (PPoly q, ok) | None => (PNone, negb ok) end
  | RAdd day y fit => (pred_add p day (fl y) (map fl fit), true)
  | RPredict d start res =>
      (p, match p with
          | PLinear b => optz_eqb (bf_predict b (fl d) start) res
          | PPoly q => match pf_predict q (fl d) start with
                       | Some (LDone z) => optz_eqb (Some z) res
                       | Some (LOutOfFuel _ _) => false
                       | None => optz_eqb None res end
          | PNone => false end)
  | RBackfilled s e res =>
      (p, match p with
          | PLinear b => optz_eqb (option_map to_bits (bf_backfilled b s e)) res
          | PPoly q => optz_eqb (option_map to_bits (pf_backfilled q s e)) res
          | PNone => false end)
  | RState ys win consts pv =>
      (p, match p with
          | PLinear b => zlist_eqb (map to_bits (sm_ys (bf_sm b))) ys && zlist_eqb (map to_bits (sm_win (bf_sm b))) win &&
                         zlist_eqb [to_bits (bf_c b); to_bits (bf_m b)] consts && (bf_pv b =? pv)
          | PPoly q => zlist_eqb (map to_bits (sm_ys (pf_sm q))) ys && zlist_eqb (map to_bits (sm_win (pf_sm q))) win &&
                       zlist_eqb (map to_bits (pf_consts q)) consts && (pf_pv q =? pv)
          | PNone => false end)
  end.

Fixpoint rp_run (p : pred_state NumF) (k : nat) (ops : list rpop) : list nat :=
  match ops with
  | [] => []
  | o :: t => let '(p', ok) := rp_step p o in if ok then rp_run p' (S k) t else k :: rp_run p' (S k) t
  end.

Fixpoint rp_mismatches (k : nat) (cases : list (list rpop)) : list (nat * nat) :=
  match cases with
  | [] => []
  | c :: t => map (fun j => (k, j)) (rp_run PNone 0 c) ++ rp_mismatches (S k) t
  end.
