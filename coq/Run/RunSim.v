(** Replays the real-planner histories of C20 (harness stream A': the REAL promisesPlanner / journeyPlanner code
    on a real engine) a second time, through the population model Model/Sim.v: the script is cut into days at
    its daily updates, the inputs of each day are read off it (the QR oracle, the planning calls with the day
    chosen, the airports and the departure second the real buildFlight drew, the draws of the returns planned
    that day, the parameters stored at the end of the day), [sim_day] is run, and
      (kind 2) the engine operations [sim_day] performs - kinds, record keys, times and the flights checked in -
               must be the operations of the script in the same order, and the record of every traveller at the end
               of the day must hash to what the harness read from the REAL travellers table at that point;
      (kind 3) when the hypotheses of C20_simulated_population_is_never_refused hold for the day (decided by
               [pop_day_okb]) no check-in of the day may have been refused by the real engine. *)
From Coq Require Import ZArith List Bool Arith.
From Flap Require Import Model.Num Model.NumF Model.TripHistory Model.Promises Model.Predictor Model.Engine Model.Bot Model.Sim
  Proofs.SimP Run.RunTH Run.RunEngine Run.RunProtocol.
Import ListNotations.
Open Scope Z_scope.

(** the airports table as far as the script shows it *)
Definition dist_table := list (Z * Z * Z).   (* from, to, distance bits *)
Fixpoint dist_lookup (t : dist_table) (a b : Z) : K NumF :=
  match t with
  | [] => fl 0
  | (x, y, d) :: r => if (x =? a) && (y =? b) then fl d else dist_lookup r a b
  end.
Fixpoint dist_of_script (ops : list eop) : dist_table :=
  match ops with
  | [] => []
  | EBotPlan _ _ _ _ from to dout din _ :: r => (from, to, dout) :: (to, from, din) :: dist_of_script r
  | _ :: r => dist_of_script r
  end.

Fixpoint find_bots (ops : list eop) : option (list Z) :=
  match ops with
  | [] => None
  | EBots ks :: _ => Some ks
  | _ :: r => find_bots r
  end.

(** the script cut at its daily updates: the operations before the first update, then one segment per update *)
Fixpoint cut_days (ops : list eop) (cur : list eop) (acc : list (list eop)) : list (list eop) :=
  match ops with
  | [] => rev (rev cur :: acc)
  | EBots [] :: _ => rev (rev cur :: acc)   (* what follows (a closing update without the day's check-ins) is not a simulated day *)
  | (EUpdate _ _ _ _ _ as o) :: r => cut_days r [o] (rev cur :: acc)
  | o :: r => cut_days r (o :: cur) acc
  end.

Fixpoint index_of (k : Z) (ks : list Z) (i : nat) : option nat :=
  match ks with
  | [] => None
  | x :: r => if x =? k then Some i else index_of k r (S i)
  end.

(** the planning calls of a day: an EBotPlan, with the departure second and the duration taken from the
    ECheckOutbound that follows it when the trip was planned *)
Fixpoint next_outbound (r : list eop) : Z * Z :=
  match r with
  | [] => (0, 1)
  | ECheckOutbound d f _ _ _ :: _ => let g := flight_of f in (fstart g - d * SecondsInDay, fend g - fstart g)
  | EBotPlan _ _ _ _ _ _ _ _ _ :: _ | ESubmitB _ _ _ _ :: _ | EUpdate _ _ _ _ _ :: _ => (0, 1)
  | _ :: t => next_outbound t
  end.

Fixpoint calls_of (ks : list Z) (seg : list eop) : list (nat * plan_choice NumF) :=
  match seg with
  | [] => []
  | EBotPlan k _ day len from to _ _ _ :: r =>
      let '(rr, dur) := next_outbound r in
      match index_of k ks 0 with
      | Some i => (i, mkChoice (N:=NumF) len day from to (fl 0) rr dur) :: calls_of ks r
      | None => calls_of ks r
      end
  | _ :: r => calls_of ks r
  end.

(** the draws of the returns planned on a day: the ECheckInbound that follows the ESubmitB of an accepted outbound *)
Fixpoint returns_of (seg : list eop) : list (Z * (Z * Z)) :=
  match seg with
  | [] => []
  | ESubmitB k _ _ _ :: ((ECheckInbound outf len inf _ :: _) as r) =>
      let g := flight_of inf in
      let sod := inbound_day_start (mkJourney true (flight_of outf) len) in
      (k, (fstart g - sod, fend g - fstart g)) :: returns_of r
  | _ :: r => returns_of r
  end.
Fixpoint ret_lookup (t : list (Z * (Z * Z))) (k : Z) : Z * Z :=
  match t with [] => (0, 1) | (x, v) :: r => if x =? k then v else ret_lookup r k end.

Fixpoint debit_of (seg : list eop) : bool :=
  match seg with [] => true | ESubmitB _ _ d _ :: _ => d | _ :: r => debit_of r end.
Fixpoint params_of (seg : list eop) : option (params NumF) :=
  match seg with [] => None | ESetParams p _ :: _ => Some p | _ :: r => params_of r end.

Definition day_of_seg (ks : list Z) (seg : list eop) : option (Z * pop_day NumF) :=
  match seg with
  | EUpdate now fit _ _ _ :: r =>
      let rets := returns_of r in
      Some (now, mkPopDay (N:=NumF) (map fl fit) (debit_of r) (calls_of ks r)
                   (fun k => fst (ret_lookup rets k)) (fun k => snd (ret_lookup rets k)) (params_of r))
  | _ => None
  end.

(** what is compared: kind of operation, record key, time, flight *)
Inductive shape := ShUpdate (now : Z) | ShPlan (k now : Z) | ShCheckin (k : Z) (f : flightZ) (debit : bool) | ShParams.
Definition shape_eqb (a b : shape) : bool :=
  match a, b with
  | ShUpdate x, ShUpdate y => x =? y
  | ShPlan k x, ShPlan k' y => (k =? k') && (x =? y)
  | ShCheckin k f d, ShCheckin k' f' d' => (k =? k') && flightZ_eqb f f' && Bool.eqb d d'
  | ShParams, ShParams => true
  | _, _ => false
  end.
Definition shape_of_sop (x : sop NumF) : shape :=
  match x with
  | SUpdate now _ => ShUpdate now
  | SPlan k _ _ now => ShPlan k now
  | SCheckin k f _ d => ShCheckin k (flight_to f) d
  | SSetParams _ => ShParams
  end.
Fixpoint shapes_of_seg (seg : list eop) : list shape :=
  match seg with
  | [] => []
  | EUpdate now _ _ _ _ :: r => ShUpdate now :: shapes_of_seg r
  | EBotPlan k now _ _ _ _ _ _ _ :: r => ShPlan k now :: shapes_of_seg r
  | ESubmitB k f d _ :: r => ShCheckin k f d :: shapes_of_seg r
  | ESetParams _ _ :: r => ShParams :: shapes_of_seg r
  | _ :: r => shapes_of_seg r
  end.

(** the last record hash the harness read for each traveller during the day *)
Fixpoint last_checks (seg : list eop) (acc : list (Z * (bool * Z))) : list (Z * (bool * Z)) :=
  match seg with
  | [] => acc
  | ECheckTrav k present hash :: r => last_checks r ((k, (present, hash)) :: filter (fun kv => negb (fst kv =? k)) acc)
  | _ :: r => last_checks r acc
  end.
Definition check_ok (e : engine NumF) (kv : Z * (bool * Z)) : bool :=
  let '(k, (present, hash)) := kv in
  match tget (e_table e) k with
  | Some t => present && (hash_trav t =? hash)
  | None => negb present
  end.

Fixpoint any_refused (seg : list eop) : bool :=
  match seg with [] => false | ESubmitB _ _ _ acc :: r => negb acc || any_refused r | _ :: r => any_refused r end.

(** the hypotheses on the configuration: more than two flights per trip, promises on, a chain limit of at least one *)
Definition rules_okb (p : params NumF) : bool :=
  (2 <? pFlightsInTrip p) && negb (pAlgo p =? 0) && (0 <=? pFlightInterval p) && (1 <=? pMaxStack p).

(** codes: 1 = the operations differ, 2 = a record differs at the end of the day, 3 = a check-in refused although
    the hypotheses of the population theorem hold, 4 = the segment does not start with an update *)
Fixpoint sim_days (dist : Z -> Z -> K NumF) (ks : list Z) (s : sim NumF) (n : nat) (segs : list (list eop)) : list (nat * nat) :=
  match segs with
  | [] => []
  | seg :: r =>
      match day_of_seg ks seg with
      | None => [(n, 4%nat)]
      | Some (now, pd) =>
          let d := now / SecondsInDay in
          let p := a_params (e_admin (s_eng s)) in
          let hyp := rules_okb p && pop_day_okb (pMaxStack p) dist (th_params p) d s pd in
          let '(s', xs) := sim_day dist d s pd in
          (if list_eqb shape_eqb (map shape_of_sop xs) (shapes_of_seg seg) then [] else [(n, 1%nat)]) ++
          (if forallb (check_ok (s_eng s')) (last_checks seg []) then [] else [(n, 2%nat)]) ++
          (if hyp && any_refused seg then [(n, 3%nat)] else []) ++
          sim_days dist ks s' (S n) r
      end
  end.

(** how many days of a history satisfy the hypotheses of the population theorem *)
Fixpoint sim_hyp_days (dist : Z -> Z -> K NumF) (ks : list Z) (s : sim NumF) (segs : list (list eop)) : nat * nat :=
  match segs with
  | [] => (0, 0)%nat
  | seg :: r =>
      match day_of_seg ks seg with
      | None => (0, 0)%nat
      | Some (now, pd) =>
          let d := now / SecondsInDay in
          let p := a_params (e_admin (s_eng s)) in
          let hyp := rules_okb p && pop_day_okb (pMaxStack p) dist (th_params p) d s pd in
          let '(a, b) := sim_hyp_days dist ks (fst (sim_day dist d s pd)) r in
          ((if hyp then S a else a), S b)
      end
  end.

Definition sim_case (ops : list eop) : list (nat * nat) :=
  match find_bots ops with
  | None => []
  | Some ks =>
      match cut_days ops [] [] with
      | [] => []
      | pre :: segs =>
          let e0 := r_eng (fold_left (fun s o => fst (e_step s o)) pre (mkR empty_engine [])) in
          sim_days (dist_lookup (dist_of_script ops)) ks (mkSim e0 (map (fun k => mkSBot (N:=NumF) k []) ks)) 0 segs
      end
  end.

Definition sim_case_hyp (ops : list eop) : nat * nat :=
  match find_bots ops with
  | None => (0, 0)%nat
  | Some ks =>
      match cut_days ops [] [] with
      | [] => (0, 0)%nat
      | pre :: segs =>
          let e0 := r_eng (fold_left (fun s o => fst (e_step s o)) pre (mkR empty_engine [])) in
          sim_hyp_days (dist_lookup (dist_of_script ops)) ks (mkSim e0 (map (fun k => mkSBot (N:=NumF) k []) ks)) segs
      end
  end.

(** (case, day, kind) with kind 2.. = 1 + code above, appended to the mismatches of Run/RunProtocol.v *)
Fixpoint sim_mismatches (k : nat) (cases : list (list eop)) : list (nat * nat * nat) :=
  match cases with
  | [] => []
  | c :: t => map (fun dc => (k, fst dc, S (snd dc))) (sim_case c) ++ sim_mismatches (S k) t
  end.

Definition eps_mismatches (k : nat) (cases : list (list eop)) : list (nat * nat * nat) :=
  ep_mismatches k cases ++ sim_mismatches k cases.

Fixpoint sim_hyp_total (cases : list (list eop)) : nat * nat :=
  match cases with
  | [] => (0, 0)%nat
  | c :: t => let '(a, b) := sim_case_hyp c in let '(x, y) := sim_hyp_total t in ((a + x)%nat, (b + y)%nat)
  end.
