(** Replays traveller-bot protocol histories (harness stream of C20) against the model like
    [Run.RunEngine], and in addition decides, operation by operation, the discipline under which
    the whole-history theorem of C20 applies ([conformsb], per traveller, against the model's state
    just before the operation).  A history in which every operation conforms is one the theorem covers. *)
From Coq Require Import ZArith List Bool Floats.
From Flap Require Import Model.Num Model.NumF Model.TripHistory Model.Promises Model.Predictor Model.Engine Model.Bot
  Run.RunTH Run.RunEngine Proofs.UpdateAllP Proofs.HistoryP Proofs.HistoryEngineP.
Import ListNotations.
Open Scope Z_scope.

(** per-traveller clocks: the time of the last operation on each record (0 before the first) *)
Definition clocks := list (Z * Z).
Fixpoint clk_get (c : clocks) (k : Z) : Z :=
  match c with [] => 0 | (k', v) :: r => if k =? k' then v else clk_get r k end.

(** does the operation follow the discipline (for every traveller it touches)?  second component: the clocks after it *)
Definition key_okb (k : Z) : bool := (0 <=? k) && (k <? 2 ^ 160).

Definition op_conformsb (c : clocks) (e : engine NumF) (o : eop) : bool * clocks :=
  let a := e_admin e in
  let p := a_params a in
  match o with
  | ESubmit k [f] now debit _ =>
      (key_okb k && conformsb (pMaxStack p) (clk_get c k) (get_create e k now) (ECheckin (flight_of f) now (a_pc a) p debit), (k, now) :: c)
  | ESubmit k _ now _ _ => (false, (k, now) :: c)            (* the bot checks in one flight at a time *)
  | RunEngine.EPropose k fs te now _ _ _ =>
      match plan_args e (map flight_of fs) te now with
      | inl (ts, te', d, tr) =>
          (key_okb k && conformsb (pMaxStack p) (clk_get c k) (get_create e k now) (EPlan ts te' d tr now (as_predictor (a_pred a))), (k, now) :: c)
      | inr _ => (true, c)
      end
  | RunEngine.EUpdate now _ _ _ _ =>
      ((now mod SecondsInDay =? 0) &&
       forallb (fun kt => conformsb (pMaxStack p) (clk_get c (fst kt)) (snd kt) (HistoryP.EUpdate p (share_of e) now)) (e_table e),
       map (fun kt => (fst kt, now)) (e_table e) ++ c)
  | ESubmitB k f debit _ =>
      let g := flight_of f in
      (key_okb k && conformsb (pMaxStack p) (clk_get c k) (get_create e k (fstart g)) (ECheckin g (fstart g) (a_pc a) p debit), (k, fstart g) :: c)
  | EBotPlan k now day len from to dout din _ =>
      (* the day the weights chose is one of the days prepareWeights offers, and the planning of the two
         flights whenWillWeFly hands to Propose follows the discipline *)
      let offered := existsb (Z.eqb day) (prepare_days (t_book (get_create e k now)) (day_of now) len (pMaxDays p)) in
      match plan_args e (bot_planned_flights (N:=NumF) (day * SecondsInDay) len from to (fl dout) (fl din)) 0 now with
      | inl (ts, te', d, tr) =>
          (offered && key_okb k && (0 <? day) &&
           conformsb (pMaxStack p) (clk_get c k) (get_create e k now) (EPlan ts te' d tr now (as_predictor (a_pred a))), (k, now) :: c)
      | inr _ => (offered, c)
      end
  | EEndTrip _ _ | EReopen _ _ => (false, c)                  (* the bot never closes or reopens a trip itself *)
  | _ => (true, c)
  end.

(** replay: indices of operations whose result differs from the code's, and of operations that do not conform *)
Fixpoint ep_run (s : rstate) (c : clocks) (k : nat) (ops : list eop) : list nat * list nat :=
  match ops with
  | [] => ([], [])
  | o :: t =>
      let '(cf, c') := op_conformsb c (r_eng s) o in
      let '(s', ok) := e_step s o in
      let '(mm, nc) := ep_run s' c' (S k) t in
      (if ok then mm else k :: mm, if cf then nc else k :: nc)
  end.

(** (case, operation, kind): kind 0 = result differs from the code, kind 1 = operation outside the discipline *)
Fixpoint ep_mismatches (k : nat) (cases : list (list eop)) : list (nat * nat * nat) :=
  match cases with
  | [] => []
  | c :: t =>
      let '(mm, nc) := ep_run (mkR empty_engine []) [] 0 c in
      map (fun j => (k, j, 0%nat)) mm ++ map (fun j => (k, j, 1%nat)) nc ++ ep_mismatches (S k) t
  end.
