(** Replays database-wrapper scripts (real goleveldb underneath) against the model. *)
From Coq Require Import ZArith List Bool.
From Flap Require Import Model.DB.
Import ListNotations.
Open Scope Z_scope.

Fixpoint bl_eqb (a b : list Z) : bool :=
  match a, b with [] , [] => true | x :: a', y :: b' => (x =? y) && bl_eqb a' b' | _, _ => false end.
Fixpoint kv_eqb (a b : kvmap) : bool :=
  match a, b with
  | [], [] => true
  | (k, v) :: a', (k2, v2) :: b' => bl_eqb k k2 && bl_eqb v v2 && kv_eqb a' b'
  | _, _ => false
  end.

Definition err_code (e : dberr) : Z :=
  match e with ETableExists => 1 | ETableNotFound => 2 | EInvalidName => 3 | EKeyNotFound => 4 | EClosed => 5 | ECrashDivZero => 6 end.

(** handles, snapshots and batches are referred to by the slot number the harness gave them *)
Inductive dop :=
| DCreate (n : bstr) (slot : Z) (res : Z)
| DOpen (n : bstr) (slot : Z) (res : Z)
| DClose (n : bstr) (res : Z)
| DDrop (n : bstr) (res : Z)
| DRelease
| DPut (slot : Z) (k v : bstr) (res : Z)
| DDelete (slot : Z) (k : bstr) (res : Z)
| DGet (slot : Z) (k : bstr) (res : Z) (v : bstr)
| DIter (slot : Z) (p : bstr) (res : Z) (kvs : kvmap)
| DSnap (slot : Z) (sslot : Z) (res : Z)
| DSnapGet (sslot : Z) (k : bstr) (res : Z) (v : bstr)
| DSnapIter (sslot : Z) (p : bstr) (res : Z) (kvs : kvmap)
| DBatch (slot : Z) (bslot : Z) (size : Z)
| DBatchPut (bslot : Z) (k v : bstr) (res : Z)
| DBatchDelete (bslot : Z) (k : bstr) (res : Z)
| DBatchRelease (bslot : Z) (res : Z).

Record dstate := mkDS { d_db : dbstate; d_handles : list (Z * handle); d_snaps : list (Z * Z); d_batches : list (Z * Z) }.

Definition oerr (r : option dberr) : Z := match r with None => 0 | Some e => err_code e end.
Definition no_handle : handle := ([], -1).

Definition hof (s : dstate) (slot : Z) : handle := match zlookup (d_handles s) slot with Some h => h | None => no_handle end.
Definition sof (s : dstate) (slot : Z) : Z := match zlookup (d_snaps s) slot with Some i => i | None => -1 end.
Definition bof (s : dstate) (slot : Z) : Z := match zlookup (d_batches s) slot with Some i => i | None => -1 end.

Definition d_step (s : dstate) (o : dop) : dstate * bool :=
  let db := d_db s in
  match o with
  | DCreate n slot res =>
      match create_table db n with
      | (db', inl h) => (mkDS db' (zset (d_handles s) slot h) (d_snaps s) (d_batches s), res =? 0)
      | (db', inr e) => (mkDS db' (d_handles s) (d_snaps s) (d_batches s), res =? err_code e)
      end
  | DOpen n slot res =>
      match open_table db n with
      | (db', inl h) => (mkDS db' (zset (d_handles s) slot h) (d_snaps s) (d_batches s), res =? 0)
      | (db', inr e) => (mkDS db' (d_handles s) (d_snaps s) (d_batches s), res =? err_code e)
      end
  | DClose n res => let '(db', r) := close_table db n in (mkDS db' (d_handles s) (d_snaps s) (d_batches s), res =? oerr r)
  | DDrop n res => let '(db', r) := drop_table db n in (mkDS db' (d_handles s) (d_snaps s) (d_batches s), res =? oerr r)
  | DRelease => (mkDS (release_db db) (d_handles s) (d_snaps s) (d_batches s), true)
  | DPut slot k v res => let '(db', r) := table_put db (hof s slot) k v in (mkDS db' (d_handles s) (d_snaps s) (d_batches s), res =? oerr r)
  | DDelete slot k res => let '(db', r) := table_delete db (hof s slot) k in (mkDS db' (d_handles s) (d_snaps s) (d_batches s), res =? oerr r)
  | DGet slot k res v =>
      (s, match table_get db (hof s slot) k with inl v' => (res =? 0) && bl_eqb v v' | inr e => res =? err_code e end)
  | DIter slot p res kvs =>
      (s, match table_iter db (hof s slot) p with inl m => (res =? 0) && kv_eqb m kvs | inr e => res =? err_code e end)
  | DSnap slot sslot res =>
      match take_snapshot db (hof s slot) with
      | (db', inl id) => (mkDS db' (d_handles s) (zset (d_snaps s) sslot id) (d_batches s), res =? 0)
      | (db', inr e) => (mkDS db' (d_handles s) (d_snaps s) (d_batches s), res =? err_code e)
      end
  | DSnapGet sslot k res v =>
      (s, match snap_get db (sof s sslot) k with inl v' => (res =? 0) && bl_eqb v v' | inr e => res =? err_code e end)
  | DSnapIter sslot p res kvs =>
      (s, match snap_iter db (sof s sslot) p with inl m => (res =? 0) && kv_eqb m kvs | inr e => res =? err_code e end)
  | DBatch slot bslot size =>
      let '(db', id) := make_batch db (hof s slot) size in (mkDS db' (d_handles s) (d_snaps s) (zset (d_batches s) bslot id), true)
  | DBatchPut bslot k v res => let '(db', r) := batch_put db (bof s bslot) k v in (mkDS db' (d_handles s) (d_snaps s) (d_batches s), res =? oerr r)
  | DBatchDelete bslot k res => let '(db', r) := batch_delete db (bof s bslot) k in (mkDS db' (d_handles s) (d_snaps s) (d_batches s), res =? oerr r)
  | DBatchRelease bslot res => let '(db', r) := batch_release db (bof s bslot) in (mkDS db' (d_handles s) (d_snaps s) (d_batches s), res =? oerr r)
  end.

Fixpoint d_run (s : dstate) (k : nat) (ops : list dop) : list nat :=
  match ops with
  | [] => []
  | o :: t => let '(s', ok) := d_step s o in if ok then d_run s' (S k) t else k :: d_run s' (S k) t
  end.

Fixpoint d_mismatches (k : nat) (cases : list (list dop)) : list (nat * nat) :=
  match cases with
  | [] => []
  | c :: t => map (fun j => (k, j)) (d_run (mkDS db0 [] [] []) 0 c) ++ d_mismatches (S k) t
  end.
