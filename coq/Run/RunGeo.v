(** Bit-for-bit comparison of the distance port with the code. *)
From Coq Require Import ZArith List Bool Floats.
From Flap Require Import Model.NumF Model.Geo.
Import ListNotations.
Open Scope Z_scope.

Inductive gcase :=
| GDist (lat1 lon1 lat2 lon2 : Z) (res : option Z)     (* coordinate bits; Some distance bits / None = rejected *)
| GCos (x : Z) (res : Z)
| GAsin (x : Z) (res : Z)
| GNewFlight (start end_ : Z) (ok : bool).

(** same float: bit for bit, any NaN equal to any NaN *)
Definition same_bits (x : float) (r : Z) : bool :=
  if PrimFloat.is_nan x then PrimFloat.is_nan (of_bits r) else to_bits x =? r.

Definition gcheck (c : gcase) : bool :=
  match c with
  | GDist a b c d res =>
      match distance (of_bits a) (of_bits b) (of_bits c) (of_bits d), res with
      | Some x, Some r => same_bits x r
      | None, None => true
      | _, _ => false
      end
  | GCos x r => same_bits (go_cos (of_bits x)) r
  | GAsin x r => same_bits (go_asin (of_bits x)) r
  | GNewFlight s e ok => Bool.eqb (new_flight_ok s e) ok
  end.

Fixpoint g_run (k : nat) (ops : list gcase) : list nat :=
  match ops with
  | [] => []
  | c :: t => if gcheck c then g_run (S k) t else k :: g_run (S k) t
  end.

Fixpoint gg_mismatches (k : nat) (cases : list (list gcase)) : list (nat * nat) :=
  match cases with
  | [] => []
  | c :: t => map (fun j => (k, j)) (g_run 0 c) ++ gg_mismatches (S k) t
  end.
