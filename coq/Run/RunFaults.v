(** Compares the error-propagation skeleton with what the real operations report under injected faults. *)
From Coq Require Import List Bool Arith.
From Flap Require Import Model.Faults.
Import ListNotations.

Definition sch_of (faults : list nat) : schedule := fun n => existsb (Nat.eqb n) faults.

Inductive fcase :=
| FSubmit (faults : list nat) (obs_ok : bool)
| FMake (faults : list nat) (current : bool) (obs_ok : bool)
| FSave (faults : list nat) (has_predictor : bool) (obs_ok : bool)
| FUpdate (ws : list (list nat)) (faults : list nat) (obs_ok : bool).

Definition fcheck (c : fcase) : bool :=
  match c with
  | FSubmit f o => Bool.eqb (ok (submit_f (sch_of f) 0)) o
  | FMake f cur o => Bool.eqb (ok (make_f (sch_of f) 0 cur)) o
  | FSave f hp o => Bool.eqb (ok (save_f (sch_of f) 0 hp)) o
  | FUpdate ws f o => Bool.eqb (ok (update_f (sch_of f) 0 ws)) o
  end.

Fixpoint f_mismatches (k : nat) (cases : list fcase) : list (nat * nat) :=
  match cases with
  | [] => []
  | c :: t => (if fcheck c then [] else [(k, 0)]) ++ f_mismatches (S k) t
  end.
