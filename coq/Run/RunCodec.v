(** Byte-exact comparison of the codec model with the code: the Go To() output of a value must equal
    the model's encoding of its wire value, and decoding those bytes must give the value back. *)
From Coq Require Import ZArith List Bool.
From Flap Require Import Model.Codec.
Import ListNotations.
Open Scope Z_scope.

Fixpoint zl_eqb (a b : list Z) : bool :=
  match a, b with [], [] => true | x :: a', y :: b' => (x =? y) && zl_eqb a' b' | _, _ => false end.

(** a value round-trips against observed bytes: enc v = bs, and dec bs consumes everything and
    re-encodes to the same bytes (enc is injective on well-formed values by the round-trip theorem) *)
Definition agree {A} (enc : A -> bytes) (dec : decoder A) (v : A) (bs : bytes) : bool :=
  zl_eqb (enc v) bs &&
  match dec bs with Some (v', []) => zl_eqb (enc v') bs | _ => false end.

Inductive ccase :=
| CFlight (v : wflight) (bs : bytes)
| CHist (v : whist) (bs : bytes)
| CPromise (v : wpromise) (bs : bytes)
| CPromises (v : list wpromise) (bs : bytes)
| CTx (v : wtx) (bs : bytes)
| CTxs (v : list wtx) (bs : bytes)
| CTraveller (v : wtraveller) (bs : bytes)
| CSmooth (v : wsmooth) (bs : bytes)
| CBestfit (v : wbestfit) (bs : bytes)
| CPolyfit (v : wpolyfit) (bs : bytes)
| CCorrection (v : wcorrection) (bs : bytes)
| CBackfill (v : Z) (bs : bytes)
| CAirport (v : wairport) (bs : bytes)
| CJourney (v : wjourney) (bs : bytes)
| CPlannerDay (v : list wjourney) (bs : bytes)
| CModelState (v : wmodelstate) (bs : bytes).

Definition ccheck (c : ccase) : bool :=
  match c with
  | CFlight v bs => agree enc_flight dec_flight v bs
  | CHist v bs => agree enc_hist dec_hist v bs
  | CPromise v bs => agree enc_promise dec_promise v bs
  | CPromises v bs => agree enc_promises dec_promises v bs
  | CTx v bs => agree enc_tx dec_tx v bs
  | CTxs v bs => agree enc_txs dec_txs v bs
  | CTraveller v bs => agree enc_traveller dec_traveller v bs
  | CSmooth v bs => agree enc_smooth dec_smooth v bs
  | CBestfit v bs => agree enc_bestfit dec_bestfit v bs
  | CPolyfit v bs => agree enc_polyfit dec_polyfit v bs
  | CCorrection v bs => agree enc_correction dec_correction v bs
  | CBackfill v bs => agree enc_backfill dec_backfill v bs
  | CAirport v bs => agree enc_airport dec_airport v bs
  | CJourney v bs => agree enc_journey dec_journey v bs
  | CPlannerDay v bs => agree enc_plannerday dec_plannerday v bs
  | CModelState v bs => agree enc_modelstate dec_modelstate v bs
  end.

Fixpoint c_mismatches (k : nat) (cases : list ccase) : list (nat * nat) :=
  match cases with
  | [] => []
  | c :: t => (if ccheck c then [] else [(k, 0%nat)]) ++ c_mismatches (S k) t
  end.
