(** Replays harness scripts for pkg/model/weights.go against the model. *)
From Coq Require Import ZArith List Bool.
From Flap Require Import Model.Weights.
Import ListNotations.
Open Scope Z_scope.

Inductive wop :=
| WAdd (w : Z)
| WAddIdx (i w : Z)
| WAddMul (w n : Z)
| WReset
| WFind (v : Z) (obs : option Z)           (* observed: Some index / None = EWEIGHTNOTFOUND *)
| WChoose (r : Z) (obs : Z)                (* observed: index, -1 = ENOWEIGHTSDEFINED, -2 = EWEIGHTNOTFOUND *)
| WTop (obs : option Z)
| WScale (obs : list (Z * Z))
(* CountriesAirportsRoutes.chooseTrip on a stored country: one weight vector per airport (the country's
   own scale holds their totals), the two underlying draws, observed airport and route index *)
| WTrip (aws : list (list Z)) (r1 r2 : Z) (obs_ap obs_rt : Z).

Definition opt_eqb (a b : option Z) : bool :=
  match a, b with Some x, Some y => Z.eqb x y | None, None => true | _, _ => false end.

Fixpoint scale_eqb (a b : list (Z*Z)) : bool :=
  match a, b with
  | [], [] => true
  | (i,w)::a', (j,v)::b' => Z.eqb i j && Z.eqb w v && scale_eqb a' b'
  | _, _ => false
  end.

Definition choose_code (c : choose_result) : Z :=
  match c with ChNoWeights => -1 | ChNotFound => -2 | ChIndex i => i end.

(** one step: new state and whether the observation agrees *)
Definition wstep (s : scale) (o : wop) : scale * bool :=
  match o with
  | WAdd w => (add s w, true)
  | WAddIdx i w => (add_index_weight s i w, true)
  | WAddMul w n => (add_multiple s w n, true)
  | WReset => ([], true)
  | WFind v obs => (s, opt_eqb (find s v) obs)
  | WChoose r obs => (s, Z.eqb (choose_code (choose s r)) obs)
  | WTop obs => (s, opt_eqb (top_weight s) obs)
  | WScale obs => (s, scale_eqb s obs)
  | WTrip aws r1 r2 oa ort =>
      (s, match choose (of_weights (map (fun ws => fold_left Z.add ws 0) aws)) r1 with
          | ChIndex a => Z.eqb a oa && Z.eqb (choose_code (choose (of_weights (nth (Z.to_nat a) aws [])) r2)) ort
          | c => Z.eqb (choose_code c) oa
          end)
  end.

Fixpoint wrun (s : scale) (k : nat) (ops : list wop) : list nat :=
  match ops with
  | [] => []
  | o :: t => let '(s', ok) := wstep s o in
              if ok then wrun s' (S k) t else k :: wrun s' (S k) t
  end.

(** mismatches: (case number, step number) of every disagreeing observation *)
Fixpoint wmismatches (k : nat) (cases : list (list wop)) : list (nat * nat) :=
  match cases with
  | [] => []
  | c :: t => map (fun j => (k, j)) (wrun [] 0 c) ++ wmismatches (S k) t
  end.
