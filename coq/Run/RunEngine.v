(** Replays engine-level harness scripts against the model on the float instance. *)
From Coq Require Import ZArith List Bool Floats Uint63.
From Flap Require Import Model.Num Model.NumF Model.TripHistory Model.Promises Model.Predictor Model.Engine Model.Bot Model.Persist Run.RunTH.
Import ListNotations.
Open Scope Z_scope.

Definition fl (bits : Z) : float := of_bits bits.

(** ---- hashes (mirrored in harness/enginehash.go) ---- *)
Definition hash_floats (h : int) (l : list float) : int :=
  fold_left hash_float l (zmix h (Z.of_nat (length l))).

Definition tx_is_empty (x : tx NumF) : bool :=
  (tx_date x =? 0) && (tx_type x =? 0) && match classify (tx_dist x) with PZero => true | _ => false end.
Definition hash_tx (h : int) (x : tx NumF) : int :=
  if tx_is_empty x then imix h 13 else zmix (hash_float (zmix h (tx_date x)) (tx_dist x)) (tx_type x).

Definition is_pzero (f : float) : bool := match classify f with PZero => true | _ => false end.
Definition promise_is_empty (p : promise NumF) : bool :=
  (p_ts p =? 0) && (p_te p =? 0) && (p_clear p =? 0) && (p_stack p =? 0) &&
  is_pzero (p_dist p) && is_pzero (p_trav p) && is_pzero (p_carried p).
Definition hash_promise (h : int) (p : promise NumF) : int :=
  if promise_is_empty p then imix h 17 else
  hash_float (zmix (zmix (hash_float (hash_float (zmix (zmix h (p_ts p)) (p_te p)) (p_dist p)) (p_trav p)) (p_clear p))
                   (p_stack p mod 256)) (p_carried p).
Definition hash_book (h : int) (b : book NumF) : int := fold_left hash_promise b h.

Definition hash_trav (t : traveller NumF) : Z :=
  let h := zmix 7%uint63 (t_created t) in
  let h := zmix (fold_left hash_flight (entries (t_hist t)) h) (Z.of_nat (oc (t_hist t))) in
  let h := fold_left hash_tx (t_txs t) h in
  let h := hash_book h (t_book t) in
  let h := hash_promise h (t_kept t) in
  Uint63.to_Z (hash_float h (t_balance t)).

Definition hash_table (tb : table NumF) : Z :=
  Uint63.to_Z (fold_left (fun h kt => zmix (zmix h (fst kt mod 2^62)) (hash_trav (snd kt))) tb 7%uint63).

Definition hash_smooth (h : int) (s : smooth NumF) : int :=
  hash_floats (hash_floats (zmix (zmix h (sm_wsize s)) (sm_max s)) (sm_ys s)) (sm_win s).

Definition hash_pred (h : int) (p : pred_state NumF) : int :=
  match p with
  | PNone => imix h 19
  | PLinear b => zmix (hash_float (hash_float (hash_smooth (imix h 23) (bf_sm b)) (bf_m b)) (bf_c b)) (bf_pv b)
  | PPoly q => zmix (hash_floats (zmix (hash_smooth (imix h 29) (pf_sm q)) (pf_pv q)) (pf_consts q)) (pf_degree q)
  end.

Definition hash_params (h : int) (p : params NumF) : int :=
  let h := zmix (zmix (zmix h (pTripLength p)) (pFlightsInTrip p)) (pFlightInterval p) in
  let h := zmix (hash_float h (pDailyTotal p)) (pMinGrounded p) in
  let h := zmix (zmix (zmix (zmix h (pAlgo p)) (pMaxPoints p)) (pMaxDays p)) (pMaxStack p) in
  let h := zmix (zmix (zmix h (pSmoothWindow p)) (pCorrWindow p)) (pDegree p) in
  zmix (hash_float h (pTaxi p)) (pThreads p).

Definition hash_admin (a : admin NumF) : Z :=
  let h := hash_params 7%uint63 (a_params a) in
  let h := hash_pred h (a_pred a) in
  let pc := a_pc a in
  let h := hash_float (hash_smooth (hash_float (hash_smooth h (pc_bac_sm pc)) (pc_bac pc)) (pc_cd_sm pc)) (pc_cd pc) in
  let h := hash_float h (pc_bac_per_km pc) in
  Uint63.to_Z (zmix h (a_grounded a)).

Definition hash_proposal (pp : proposal NumF) : Z :=
  Uint63.to_Z (zmix (hash_book 7%uint63 (pp_entries pp)) (pp_version pp)).

(** ---- script ---- *)
Definition mkP (tl fit fi dt mg algo mp md ms sw cw deg taxi th : Z) : params NumF :=
  mkParams (N:=NumF) tl fit fi (fl dt) mg algo mp md ms sw cw deg (fl taxi) th.

(** observed statistics of an update *)
Record statsZ := mkStatsZ {
  z_grounded : Z; z_travellers : Z; z_distance : Z; z_flights : Z; z_share : Z;
  z_cdd : list Z; z_cdays : list Z; z_points : list Z; z_consts : list Z }.

Inductive eop :=
| ESetParams (p : params NumF) (res : Z)
| ESubmit (key : Z) (fs : list flightZ) (now : Z) (debit : bool) (res : Z)
| EUpdate (now : Z) (fit : list Z) (res : Z) (mask : Z) (st : statsZ)   (* mask: which statistics are compared *)
| EPropose (key : Z) (fs : list flightZ) (trip_end now : Z) (res : Z) (slot : nat) (hash : Z)
| EMake (key : Z) (slot : nat) (now : Z) (res : Z)
| EEndTrip (key : Z) (ok : bool)
| EReopen (key : Z) (ok : bool)
| ECheckTrav (key : Z) (present : bool) (hash : Z)
| ECheckBalance (key : Z) (bits : Z)
| ECheckLedger (key : Z) (hash : Z)            (* balance + stored transactions *)
| ECheckBook (key : Z) (hash : Z)              (* promises *)
| ECheckKept (key : Z) (hash : Z) (mid : bool) (* kept promise + mid-trip flag *)
| ECheckHist (key : Z) (hash : Z) (mid : bool) (* stored trip history (all slots, markers, oldest change) + mid-trip flag *)
| ECheckFlights (key : Z) (hash : Z)           (* flight data and order of the stored trip history, markers projected away *)
| ECheckAdmin (hash : Z)
| ECheckTable (hash : Z)
| ERestart
| ESave                                       (* remember the current state ... *)
| ERestore                                    (* ... and return to it (the harness ran a copy of the database) *)
(* the traveller-bot protocol of pkg/model run for real (promisesPlanner / journeyPlanner): *)
| ECheckPlanDays (key today len total : Z) (days : list Z)   (* the days prepareWeights offers *)
| EBotPlan (key now day len from to dout din : Z) (res : Z)  (* whenWillWeFly with the weights choosing [day] *)
| ESubmitB (key : Z) (f : flightZ) (debit : bool) (accepted : bool)  (* one journey of submitFlights *)
| ECheckOutbound (day : Z) (f : flightZ) (from to dist : Z)   (* the flight planTrip built for [day] *)
| ECheckInbound (outf : flightZ) (len : Z) (inf : flightZ) (din : Z)    (* the return planInbound built; din = distance of the way back *)
| EBots (keys : list Z).   (* the traveller-bots of the history in the journey planner's order (Run/RunSim.v); no operation *)

Definition perr_code (e : perr) : Z :=
  match e with
  | EInvalidArgument => 2 | ENoRoom => 11 | EInternal => 12 | EOverlapPrev => 13 | EOverlapNext => 14
  | EExceededStack => 15 | EProposalExpired => 16 | EPromiseDoesntMatch => 17 | EPromiseNotFound => 18
  end.
Definition eng_err_code (e : eng_err) : Z :=
  match e with
  | EGrounded => 1 | EInvalidArg => 2 | EFlightTooOldE => 3 | EPromisesNotEnabled => 4
  | ETripTooFarAhead => 5 | EInvalidParams => 6 | EPromise pe => perr_code pe | ECrash => 98
  end.
Definition res_code (r : option eng_err) : Z := match r with None => 0 | Some e => eng_err_code e end.

Definition zlist_eqb (a b : list Z) : bool := list_eqb Z.eqb a b.

(** mask bits: 1 grounded, 2 travellers, 4 distance, 8 flights, 16 share, 32 cleared deltas, 64 fit report *)
Definition stats_ok (mask : Z) (s : ustats NumF) (z : statsZ) : bool :=
  let on b := Z.testbit mask b in
  (negb (on 0) || (us_grounded s =? z_grounded z)) &&
  (negb (on 1) || (us_travellers s =? z_travellers z)) &&
  (negb (on 2) || (to_bits (us_distance s) =? z_distance z)) &&
  (negb (on 3) || (us_flights s =? z_flights z)) &&
  (negb (on 4) || (to_bits (us_share s) =? z_share z)) &&
  (negb (on 5) || (zlist_eqb (map to_bits (us_cdd s)) (z_cdd z) && zlist_eqb (us_cdays s) (z_cdays z))) &&
  (negb (on 6) || (zlist_eqb (map to_bits (us_points s)) (z_points z) && zlist_eqb (map to_bits (us_consts s)) (z_consts z))).

Definition hash_ledger (t : traveller NumF) : Z :=
  Uint63.to_Z (hash_float (fold_left hash_tx (t_txs t) 7%uint63) (t_balance t)).
Definition hash_book_of (t : traveller NumF) : Z := Uint63.to_Z (hash_book 7%uint63 (t_book t)).
Definition hash_kept (t : traveller NumF) : Z := Uint63.to_Z (hash_promise 7%uint63 (t_kept t)).

Record rstate := mkR0 { r_eng : engine NumF; r_slots : list (nat * proposal NumF); r_saved : option (engine NumF) }.
Definition mkR (e : engine NumF) (sl : list (nat * proposal NumF)) : rstate := mkR0 e sl None.

Fixpoint slot_get (l : list (nat * proposal NumF)) (k : nat) : option (proposal NumF) :=
  match l with [] => None | (k', p) :: r => if Nat.eqb k k' then Some p else slot_get r k end.

Definition empty_admin : admin NumF :=
  {| a_params := mkP 0 0 0 0 0 0 0 0 0 0 0 0 0 0; a_pred := PNone; a_pc := empty_pc; a_grounded := 0 |}.
Definition empty_engine : engine NumF := {| e_admin := empty_admin; e_table := [] |}.

Definition e_step (s : rstate) (o : eop) : rstate * bool :=
  let e := r_eng s in
  match o with
  | ESetParams p res =>
      match set_params (e_admin e) p with
      | inl a => (mkR0 {| e_admin := a; e_table := e_table e |} (r_slots s) (r_saved s), res =? 0)
      | inr er => (s, res =? eng_err_code er)
      end
  | ESubmit k fs now debit res =>
      let '(e', r) := submit_flights e k (map flight_of fs) now debit in
      (mkR0 e' (r_slots s) (r_saved s), res =? res_code r)
  | EUpdate now fit res mask st =>
      let '(e', us, r) := update_all e now (map fl fit) in
      (mkR0 e' (r_slots s) (r_saved s), (res =? res_code r) && (match r with None => stats_ok mask us st | Some _ => true end))
  | EPropose k fs te now res slot hash =>
      match engine_propose e k (map flight_of fs) te now with
      | PrOk pp => (mkR0 e ((slot, pp) :: r_slots s) (r_saved s), (res =? 0) && (hash_proposal pp =? hash))
      | PrErr er => (s, res =? eng_err_code er)
      | PrHang => (s, res =? 97)
      end
  | EMake k slot now res =>
      match slot_get (r_slots s) slot with
      | None => (s, false)
      | Some pp => let '(e', r) := engine_make e k pp now in (mkR0 e' (r_slots s) (r_saved s), res =? res_code r)
      end
  | EEndTrip k ok => let '(e', b) := engine_end_trip e k in (mkR0 e' (r_slots s) (r_saved s), Bool.eqb b ok)
  | EReopen k ok => let '(e', b) := engine_reopen_trip e k in (mkR0 e' (r_slots s) (r_saved s), Bool.eqb b ok)
  | ECheckTrav k present hash =>
      match tget (e_table e) k with
      | Some t => (s, present && (hash_trav t =? hash))
      | None => (s, negb present)
      end
  | ECheckBalance k bits =>
      match tget (e_table e) k with
      | Some t => (s, to_bits (t_balance t) =? bits)
      | None => (s, false)
      end
  | ECheckLedger k hash =>
      match tget (e_table e) k with Some t => (s, hash_ledger t =? hash) | None => (s, false) end
  | ECheckBook k hash =>
      match tget (e_table e) k with Some t => (s, hash_book_of t =? hash) | None => (s, false) end
  | ECheckKept k hash mid =>
      match tget (e_table e) k with
      | Some t => (s, (hash_kept t =? hash) && Bool.eqb (mid_trip (t_hist t)) mid)
      | None => (s, false) end
  | ECheckHist k hash mid =>
      match tget (e_table e) k with
      | Some t => (s, (hash_hist (t_hist t) =? hash) && Bool.eqb (mid_trip (t_hist t)) mid)
      | None => (s, false) end
  | ECheckFlights k hash =>
      match tget (e_table e) k with Some t => (s, hash_hist_noet (t_hist t) =? hash) | None => (s, false) end
  | ECheckAdmin hash => (s, hash_admin (e_admin e) =? hash)
  | ECheckTable hash => (s, hash_table (e_table e) =? hash)
  | ERestart => (mkR0 (restart (N:=NumF) to_bits of_bits e) (r_slots s) (r_saved s), true)   (* really encodes and decodes *)
  | ESave => (mkR0 e (r_slots s) (Some e), true)
  | ERestore => match r_saved s with Some e0 => (mkR0 e0 (r_slots s) (r_saved s), true) | None => (s, false) end
  | ECheckPlanDays k today len total days =>
      (s, zlist_eqb (prepare_days (t_book (get_create e k 0)) today len total) days)
  | EBotPlan k now day len from to dout din res =>
      let '(e', r) := bot_plan e k now day len from to (fl dout) (fl din) in
      (mkR0 e' (r_slots s) (r_saved s), res =? r)
  | ESubmitB k f debit accepted =>
      let '(e', r) := submit_flights e k [flight_of f] (fstart (flight_of f)) debit in
      (mkR0 e' (r_slots s) (r_saved s), Bool.eqb (res_code r =? 0) accepted)
  | ECheckOutbound day f from to dist =>
      let g := flight_of f in
      let sod := day * SecondsInDay in
      let dur := fend g - fstart g in
      (s, draw_ok (fstart g - sod) dur && flightZ_eqb f (flight_to (build_flight (N:=NumF) sod (fstart g - sod) dur from to (fl dist))))
  | ECheckInbound outf len inf din =>
      let o := flight_of outf in let g := flight_of inf in
      let sod := inbound_day_start (mkJourney true o len) in
      let dur := fend g - fstart g in
      (s, draw_ok (fstart g - sod) dur &&
          flightZ_eqb inf (flight_to (build_flight (N:=NumF) sod (fstart g - sod) dur (fto o) (ffrom o) (fl din))))
  | EBots _ => (s, true)
  end.

Fixpoint e_run (s : rstate) (k : nat) (ops : list eop) : list nat :=
  match ops with
  | [] => []
  | o :: t => let '(s', ok) := e_step s o in if ok then e_run s' (S k) t else k :: e_run s' (S k) t
  end.

Fixpoint e_mismatches (k : nat) (cases : list (list eop)) : list (nat * nat) :=
  match cases with
  | [] => []
  | c :: t => map (fun j => (k, j)) (e_run (mkR empty_engine []) 0 c) ++ e_mismatches (S k) t
  end.
