(** Go's [sort.Search(n, f)]: the bisection itself, not its specification.
    [h := int(uint(i+j) >> 1); if !f(h) { i = h+1 } else { j = h }]. *)
From Coq Require Import Arith.

Fixpoint bsearch (fuel : nat) (f : nat -> bool) (i j : nat) : nat :=
  match fuel with
  | O => i
  | S k => if Nat.ltb i j then
             let h := Nat.div2 (i + j) in
             if f h then bsearch k f i h else bsearch k f (S h) j
           else i
  end.

(** fuel [S n] is more than the loop can use ([j - i] strictly decreases). *)
Definition search (n : nat) (f : nat -> bool) : nat := bsearch (S n) f 0 n.
