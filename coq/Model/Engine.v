(** Model of pkg/flap/travellers.go, transactions.go, promisescorrection.go, administrator.go and
    engine.go: traveller records, the ledger, the administrator state and the engine operations
    (SubmitFlights, UpdateTripsAndBackfill, Propose, Make, SetParams).  The travellers table is a
    list sorted by the (SHA1) key, which the harness supplies as a number. *)
From Coq Require Import ZArith List Bool Arith.
From Flap Require Import Model.Num Model.Search Model.TripHistory Model.Promises Model.Predictor.
Import ListNotations.
Open Scope Z_scope.

Definition MaxTransactions : nat := 100.
(** transaction types *)
Definition TTFlight : Z := 0.
Definition TTTaxiOverhead : Z := 1.
Definition TTDailyShare : Z := 2.
Definition TTBalanceAdjustment : Z := 3.
(** option bits of PromisesAlgo *)
Definition pamCorrectBalances : Z := 16.
Definition pamCorrectDailyTotal : Z := 32.
Definition pamCorrectPromiseDistance : Z := 64.
Definition paMask : Z := 15.
Definition has_bit (algo bit : Z) : bool := Z.land algo bit =? bit.

Section WithNum.
Context {N : NumOps}.
Local Notation K := (K N).
Local Notation flight := (flight N).
Local Notation hist := (hist N).
Local Notation promise := (promise N).
Local Notation book := (book N).

Record tx := mkTx { tx_date : Z; tx_dist : K; tx_type : Z }.
Definition empty_tx : tx := {| tx_date := 0; tx_dist := k0 N; tx_type := 0 |}.

Record traveller := mkTrav {
  t_created : Z;
  t_hist : hist;
  t_txs : list tx;            (* the stored 100-entry window, newest first *)
  t_book : book;
  t_kept : promise;
  t_balance : K;
  t_ledger : list tx          (* ghost: every transaction ever applied, newest first (never read) *)
}.

Definition new_traveller (now : Z) : traveller :=
  {| t_created := now; t_hist := empty_hist; t_txs := repeat empty_tx MaxTransactions;
     t_book := empty_book; t_kept := empty_promise; t_balance := k0 N; t_ledger := [] |}.

Definition set_hist (t : traveller) (h : hist) : traveller :=
  {| t_created := t_created t; t_hist := h; t_txs := t_txs t; t_book := t_book t; t_kept := t_kept t;
     t_balance := t_balance t; t_ledger := t_ledger t |}.
Definition set_kept (t : traveller) (p : promise) : traveller :=
  {| t_created := t_created t; t_hist := t_hist t; t_txs := t_txs t; t_book := t_book t; t_kept := p;
     t_balance := t_balance t; t_ledger := t_ledger t |}.
Definition set_book (t : traveller) (b : book) : traveller :=
  {| t_created := t_created t; t_hist := t_hist t; t_txs := t_txs t; t_book := b; t_kept := t_kept t;
     t_balance := t_balance t; t_ledger := t_ledger t |}.

(** Traveller.transact: the only writer of the balance *)
Definition transact (t : traveller) (amount : K) (now : Z) (tt : Z) : traveller :=
  let x := {| tx_date := now; tx_dist := amount; tx_type := tt |} in
  {| t_created := t_created t; t_hist := t_hist t;
     t_txs := firstn MaxTransactions (x :: t_txs t);
     t_book := t_book t; t_kept := t_kept t;
     t_balance := kadd N (t_balance t) amount;
     t_ledger := x :: t_ledger t |}.

Inductive clearance := CRGrounded | CRMidTrip | CRKeptPromise | CRInCredit.

(** Traveller.Cleared (with the repair: a failed match keeps the stored clearance) *)
Definition cleared (t : traveller) (now : Z) : clearance * traveller :=
  let t1 := if p_clear (t_kept t) =? 0 then t
            else match match_promise (t_book t) (t_kept t) with
                 | Some c => set_kept t (set_clear (t_kept t) c)
                 | None => t
                 end in
  let cr := if mid_trip (t_hist t1) then CRMidTrip
            else if (0 <? p_clear (t_kept t1)) && (p_clear (t_kept t1) <=? now) then CRKeptPromise
            else if kleb N (k0 N) (t_balance t1) then CRInCredit
            else CRGrounded in
  (cr, t1).

Inductive eng_err :=
| EGrounded | EInvalidArg | EFlightTooOldE | EPromisesNotEnabled | ETripTooFarAhead
| EPromise (e : perr) | EInvalidParams | ECrash.

(** Traveller.submitFlight: new traveller, balance at clearance, promised distance *)
Definition submit_flight (t : traveller) (f : flight) (now : Z) (taxi : K) (debit : bool)
  : (traveller * K * K) + eng_err :=
  let '(cr, t1) := cleared t now in
  match cr with
  | CRGrounded => inr EGrounded
  | _ =>
    match add_flight (t_hist t1) f with
    | inr _ => inr EFlightTooOldE
    | inl h' =>
      let t2 := set_hist t1 h' in
      let bac := t_balance t2 in
      let pd := p_dist (t_kept t2) in
      let t3 := if debit
                then let t' := transact t2 (kopp N (fdist f)) now TTFlight in
                     if kneb N taxi (k0 N) then transact t' (kopp N taxi) now TTTaxiOverhead else t'
                else t2 in
      match cr with
      | CRKeptPromise => inl (set_kept t3 empty_promise, bac, pd)
      | _ => inl (t3, k0 N, k0 N)
      end
    end
  end.

(** Traveller.keep *)
Definition keep_promise (t : traveller) : traveller * bool :=
  if mid_trip (t_hist t) then
    let '(st, en, d) := trip_start_end_length (t_hist t) in
    match keep (t_book t) st en d with
    | inl p => match end_trip_op (t_hist t) with
               | inl h' => (set_kept (set_hist t h') p, true)
               | inr _ => (t, false)
               end
    | inr _ => (t, false)
    end
  else (t, false).

(** ---------- administrator ---------- *)
Record params := mkParams {
  pTripLength : Z; pFlightsInTrip : Z; pFlightInterval : Z; pDailyTotal : K; pMinGrounded : Z;
  pAlgo : Z; pMaxPoints : Z; pMaxDays : Z; pMaxStack : Z; pSmoothWindow : Z; pCorrWindow : Z; pDegree : Z;
  pTaxi : K; pThreads : Z }.

Definition th_params (p : params) : thparams :=
  {| TripLength := pTripLength p; FlightsInTrip := pFlightsInTrip p; FlightInterval := pFlightInterval p;
     Algo := pAlgo p |}.

Record pcstate := mkPC {
  pc_bac_sm : smooth N; pc_bac : K; pc_cd_sm : smooth N; pc_cd : K; pc_bac_per_km : K }.
Definition empty_pc : pcstate :=
  {| pc_bac_sm := empty_smooth; pc_bac := k0 N; pc_cd_sm := empty_smooth; pc_cd := k0 N; pc_bac_per_km := k0 N |}.

(** promisesCorrection.cycle *)
Definition pc_cycle (s : pcstate) (window : Z) : pcstate * K :=
  let w := if window <? 1 then 1 else window in
  let init sm := if sm_wsize sm =? 0 then {| sm_wsize := w; sm_max := 1; sm_ys := []; sm_win := [] |} else sm in
  let bsm := add_y (init (pc_bac_sm s)) (pc_bac s) in
  let csm := add_y (init (pc_cd_sm s)) (pc_cd s) in
  let cd0 := hd (k0 N) (sm_ys csm) in
  let per := if kltb N (k0 N) cd0 then kdiv N (pc_bac s) cd0 else pc_bac_per_km s in
  ({| pc_bac_sm := bsm; pc_bac := k0 N; pc_cd_sm := csm; pc_cd := k0 N; pc_bac_per_km := per |},
   hd (k0 N) (sm_ys bsm)).

(** promisesCorrection.change *)
Definition pc_change (s : pcstate) (bac pd : K) : pcstate :=
  {| pc_bac_sm := pc_bac_sm s; pc_bac := kadd N (pc_bac s) bac; pc_cd_sm := pc_cd_sm s;
     pc_cd := kadd N (pc_cd s) pd; pc_bac_per_km := pc_bac_per_km s |}.

Record admin := mkAdmin { a_params : params; a_pred : pred_state N; a_pc : pcstate; a_grounded : Z }.

Definition popcount_byte (n : Z) : Z :=
  fold_left (fun acc i => if Z.testbit n (Z.of_nat i) then acc + 1 else acc) (seq 0 8) 0.

(** the validity test of SetParams *)
Definition valid_params (p : params) : bool :=
  negb (Z.of_nat MaxFlights <? pFlightsInTrip p * 2) &&
  negb (pTripLength p <? pFlightInterval p * 2) &&
  negb (negb (pAlgo p =? 0) && (pMaxPoints p <? 2)) &&
  negb ((1 <? popcount_byte (pThreads p)) || (16 <? pThreads p)).

(** createPredictor: a new predictor for algorithm 1 or 2, none otherwise (with the repair: selecting
    "no promises" removes the installed predictor; [old] is kept as an argument for reference only) *)
Definition create_predictor (old : pred_state N) (p : params) : pred_state N :=
  let a := Z.land (pAlgo p) paMask in
  if a =? 1 then match new_bestfit (pMaxPoints p) (pSmoothWindow p) with Some b => PLinear b | None => PNone end
  else if a =? 2 then match new_polyfit (pMaxPoints p) (pSmoothWindow p) (pDegree p) with Some q => PPoly q | None => PNone end
  else PNone.

Definition set_params (a : admin) (p : params) : admin + eng_err :=
  if valid_params p then
    inl {| a_params := p;
           a_pred := if pAlgo p =? pAlgo (a_params a) then a_pred a else create_predictor (a_pred a) p;
           a_pc := a_pc a; a_grounded := a_grounded a |}
  else inr EInvalidParams.

(** ---------- the travellers table: association list sorted by key ---------- *)
Definition table := list (Z * traveller).

Fixpoint tget (tb : table) (k : Z) : option traveller :=
  match tb with
  | [] => None
  | (k', t) :: r => if k =? k' then Some t else tget r k
  end.
Fixpoint tput (tb : table) (k : Z) (t : traveller) : table :=
  match tb with
  | [] => [(k, t)]
  | (k', t') :: r => if k =? k' then (k, t) :: r else if k <? k' then (k, t) :: (k', t') :: r
                     else (k', t') :: tput r k t
  end.

Record engine := mkEngine { e_admin : admin; e_table : table }.

Definition get_create (e : engine) (k : Z) (now : Z) : traveller :=
  match tget (e_table e) k with Some t => t | None => new_traveller now end.

(** a further flight of a submission whose first flight has been accepted (with the repair: clearance
    is decided once per check-in, at its first flight): added and debited, no clearance test *)
Definition follow_on_flight (t : traveller) (f : flight) (now : Z) (taxi : K) (debit : bool)
  : (traveller * K * K) + eng_err :=
  match add_flight (t_hist t) f with
  | inr _ => inr EFlightTooOldE
  | inl h' =>
    let t2 := set_hist t h' in
    let t3 := if debit
              then let t' := transact t2 (kopp N (fdist f)) now TTFlight in
                   if kneb N taxi (k0 N) then transact t' (kopp N taxi) now TTTaxiOverhead else t'
              else t2 in
    inl (t3, k0 N, k0 N)
  end.

Definition checkin_one (first : bool) (t : traveller) (f : flight) (now : Z) (taxi : K) (debit : bool)
  : (traveller * K * K) + eng_err :=
  if first then submit_flight t f now taxi debit else follow_on_flight t f now taxi debit.

(** Engine.SubmitFlights: the loop over the submitted flights *)
Fixpoint submit_loop_from (first : bool) (t : traveller) (pc : pcstate) (fs : list flight) (now : Z) (p : params) (debit : bool)
  : (traveller * pcstate) + eng_err :=
  match fs with
  | [] => inl (t, pc)
  | f :: r =>
    match checkin_one first t f now (pTaxi p) debit with
    | inr e => inr e
    | inl (t1, bac, pd) =>
      let pc1 := pc_change pc bac pd in
      let t2 := if has_bit (pAlgo p) pamCorrectBalances && kltb N bac (k0 N)
                then transact t1 (kopp N bac) now TTBalanceAdjustment else t1 in
      submit_loop_from false t2 pc1 r now p debit
    end
  end.
Definition submit_loop := submit_loop_from true.

Definition with_pc (a : admin) (pc : pcstate) : admin :=
  {| a_params := a_params a; a_pred := a_pred a; a_pc := pc; a_grounded := a_grounded a |}.

(** Note: the correction accumulators are updated flight by flight, so a submission refused at its
    second flight has already changed them for the first (they are administrator state, not the
    traveller record). *)
Fixpoint submit_pc_prefix_from (first : bool) (t : traveller) (pc : pcstate) (fs : list flight) (now : Z) (p : params) (debit : bool)
  : pcstate :=
  match fs with
  | [] => pc
  | f :: r =>
    match checkin_one first t f now (pTaxi p) debit with
    | inr _ => pc
    | inl (t1, bac, pd) =>
      let pc1 := pc_change pc bac pd in
      let t2 := if has_bit (pAlgo p) pamCorrectBalances && kltb N bac (k0 N)
                then transact t1 (kopp N bac) now TTBalanceAdjustment else t1 in
      submit_pc_prefix_from false t2 pc1 r now p debit
    end
  end.
Definition submit_pc_prefix := submit_pc_prefix_from true.

Definition submit_flights (e : engine) (k : Z) (fs : list flight) (now : Z) (debit : bool) : engine * option eng_err :=
  match fs with
  | [] => (e, Some EInvalidArg)
  | _ =>
    let a := e_admin e in
    let t := get_create e k now in
    match submit_loop t (a_pc a) fs now (a_params a) debit with
    | inr err => ({| e_admin := with_pc a (submit_pc_prefix t (a_pc a) fs now (a_params a) debit);
                     e_table := e_table e |}, Some err)
    | inl (t', pc') => ({| e_admin := with_pc a pc'; e_table := tput (e_table e) k t' |}, None)
    end
  end.

(** ---------- the daily update ---------- *)
Record ustats := mkStats {
  us_grounded : Z; us_travellers : Z; us_distance : K; us_flights : Z; us_share : K;
  us_cdd : list K;                 (* ClearedDistanceDeltas *)
  us_cdays : list Z;               (* ClearedDaysDeltas *)
  us_points : list K; us_consts : list K;
  us_pdist : list K }.             (* prefixDistance: yesterday's distance per key prefix (16 shards) *)

Definition NShards : nat := 16.
Definition stats0 : ustats :=
  {| us_grounded := 0; us_travellers := 0; us_distance := k0 N; us_flights := 0; us_share := k0 N;
     us_cdd := []; us_cdays := []; us_points := []; us_consts := []; us_pdist := repeat (k0 N) NShards |}.

(** l[i] += d *)
Definition bump (l : list K) (i : nat) (d : K) : list K :=
  firstn i l ++ match skipn i l with [] => [] | v :: r => kadd N v d :: r end.

(** what the loop body of updateSomeTravellers does to one traveller: new record (None = not written) and
    the contribution to the worker's statistics *)
Record contrib := mkContrib {
  c_grounded : bool; c_dist : option (K * Z);   (* distanceYesterday > 0: (distance, flights) *)
  c_cdd : option K; c_cday : option Z }.

Definition update_traveller (t : traveller) (p : params) (share : K) (now : Z) : option traveller * contrib :=
  let '(t1, changed1, cd) :=
      match update (t_hist t) (th_params p) now with
      | inl (h', dy, fy) => (set_hist t h', true, if kltb N (k0 N) dy then Some (dy, fy) else None)
      | inr _ => (t, false, None)
      end in
  let now_days := to_epoch_days now false in
  let clear_days := to_epoch_days (p_clear (t_kept t1)) false in
  let report := (0 <? p_clear (t_kept t1)) && (p_stack (t_kept t1) =? 0) in
  let cdd := if report && (now_days =? clear_days) then Some (t_balance t1) else None in
  let cday := if report && kleb N (k0 N) (kadd N (t_balance t1) share) then Some (now_days - clear_days) else None in
  let grounded := negb (mid_trip (t_hist t1)) && kltb N (t_balance t1) (k0 N) in
  let t2 := if grounded then transact t1 share now TTDailyShare else t1 in
  let '(t3, kept) := keep_promise t2 in
  let changed := changed1 || grounded || kept in
  (if changed then Some t3 else None,
   {| c_grounded := grounded; c_dist := cd; c_cdd := cdd; c_cday := cday |}).

Definition add_contrib (s : ustats) (shard : Z) (c : contrib) : ustats :=
  {| us_grounded := if c_grounded c then us_grounded s + 1 else us_grounded s;
     us_travellers := match c_dist c with Some _ => us_travellers s + 1 | None => us_travellers s end;
     us_distance := us_distance s;
     us_flights := match c_dist c with Some (_, f) => us_flights s + f | None => us_flights s end;
     us_share := us_share s;
     us_cdd := match c_cdd c with Some x => us_cdd s ++ [x] | None => us_cdd s end;
     us_cdays := match c_cday c with Some x => us_cdays s ++ [x] | None => us_cdays s end;
     us_points := us_points s; us_consts := us_consts s;
     us_pdist := match c_dist c with Some (d, _) => bump (us_pdist s) (Z.to_nat shard) d | None => us_pdist s end |}.

(** key shard: the first hex digit of the 40-digit key *)
Definition shard_of (k : Z) : Z := k / 2 ^ 156.

(** one worker over a list of snapshot records: new records to write and its statistics *)
Fixpoint update_some (recs : table) (p : params) (share : K) (now : Z) (writes : table) (s : ustats)
  : table * ustats :=
  match recs with
  | [] => (writes, s)
  | (k, t) :: r =>
    let '(w, c) := update_traveller t p share now in
    update_some r p share now (match w with Some t' => writes ++ [(k, t')] | None => writes end) (add_contrib s (shard_of k) c)
  end.

(** merging a worker's statistics into the total (the channel loop of UpdateTripsAndBackfill) *)
Definition merge_stats (ut elem : ustats) : ustats :=
  {| us_grounded := us_grounded ut + us_grounded elem;
     us_travellers := us_travellers ut + us_travellers elem;
     us_distance := us_distance ut;
     us_flights := us_flights ut + us_flights elem;
     us_share := us_share ut;
     us_cdd := us_cdd ut ++ us_cdd elem; us_cdays := us_cdays ut ++ us_cdays elem;
     us_points := us_points ut; us_consts := us_consts ut;
     (* each prefix is handled by exactly one worker: take its total (if d != 0 { total[i] = d }) *)
     us_pdist := map (fun ab => if keqb N (snd ab) (k0 N) then fst ab else snd ab) (combine (us_pdist ut) (us_pdist elem)) |}.

(** the reported distance: the per-prefix totals added in prefix order *)
Definition finish_stats (ut : ustats) : ustats :=
  {| us_grounded := us_grounded ut; us_travellers := us_travellers ut;
     us_distance := fold_left (kadd N) (us_pdist ut) (us_distance ut);
     us_flights := us_flights ut; us_share := us_share ut; us_cdd := us_cdd ut; us_cdays := us_cdays ut;
     us_points := us_points ut; us_consts := us_consts ut; us_pdist := us_pdist ut |}.

(** the worker ranges cut by the code's own loop: delta = 16/threads; for i = 0; i < 16; i += delta *)
Fixpoint worker_ranges (fuel : nat) (i delta : Z) : list (Z * Z) :=
  match fuel with
  | O => []
  | S k => if i <? 16 then (i, i + delta - 1) :: worker_ranges k (i + delta) delta else []
  end.
Definition ranges_of_threads (threads : Z) : list (Z * Z) :=
  let th := if threads =? 0 then 1 else threads in
  worker_ranges 17 0 (16 / th).

Definition in_range (r : Z * Z) (k : Z) : bool := (fst r <=? shard_of k) && (shard_of k <=? snd r).

(** UpdateTripsAndBackfill with the workers run one after the other in range order (the order in which
    results are merged is a schedule; see Proofs for independence).  [fit] is the QR oracle. *)
Definition update_all (e : engine) (now : Z) (fit : list K) : engine * ustats * option eng_err :=
  let a := e_admin e in
  let p := a_params a in
  if negb (now mod SecondsInDay =? 0) then (e, stats0, Some EInvalidArg) else
  let '(pc1, pcv) := if has_bit (pAlgo p) pamCorrectDailyTotal then pc_cycle (a_pc a) (pCorrWindow p)
                     else (a_pc a, k0 N) in
  let backfillers := let a1 := kofZ N (pMinGrounded p) in let a2 := kofZ N (a_grounded a) in
                     if kltb N a1 a2 then a2 else a1 in
  let '(share, pred1) :=
      if kltb N (k0 N) backfillers then
        let sh := kdiv N (kadd N (pDailyTotal p) pcv) backfillers in
        (sh, if valid_predictor (a_pred a) then pred_add (a_pred a) (to_epoch_days now false) sh fit else a_pred a)
      else (k0 N, a_pred a) in
  let report := if kltb N (k0 N) backfillers && valid_predictor (a_pred a) then pred_report pred1 else ([], []) in
  let ut0 := {| us_grounded := 0; us_travellers := 0; us_distance := k0 N; us_flights := 0; us_share := share;
                us_cdd := []; us_cdays := []; us_points := fst report; us_consts := snd report;
                us_pdist := repeat (k0 N) NShards |} in
  let snapshot := e_table e in
  let results := map (fun r => update_some (filter (fun kt => in_range r (fst kt)) snapshot) p share now [] stats0)
                     (ranges_of_threads (pThreads p)) in
  let table' := fold_left (fun tb wr => fold_left (fun tb kt => tput tb (fst kt) (snd kt)) (fst wr) tb) results (e_table e) in
  let ut := finish_stats (fold_left (fun ut wr => merge_stats ut (snd wr)) results ut0) in
  ({| e_admin := {| a_params := p; a_pred := pred1; a_pc := pc1; a_grounded := us_grounded ut |};
      e_table := table' |}, ut, None).

(** ---------- promises at engine level ---------- *)
Fixpoint insert_newest_first (x : flight) (l : list flight) : list flight :=
  match l with
  | [] => [x]
  | y :: t => if fstart y <? fstart x then x :: y :: t else y :: insert_newest_first x t
  end.
(** sort.SliceStable by Start descending *)
Definition newest_first (fs : list flight) : list flight :=
  fold_left (fun acc f => insert_newest_first f acc) fs [].

Definition max_epoch : Z := two64 - 1.

Inductive propose_result := PrOk (pp : proposal N) | PrErr (e : eng_err) | PrHang.

Definition engine_propose (e : engine) (k : Z) (fs : list flight) (trip_end now : Z) : propose_result :=
  match fs with
  | [] => PrErr EInvalidArg
  | _ =>
    let a := e_admin e in
    let p := a_params a in
    if negb (valid_predictor (a_pred a)) then PrErr EPromisesNotEnabled else
    let distance := fold_left (fun d f => kadd N d (kadd N (fdist f) (pTaxi p))) fs (k0 N) in
    let ts := fold_left (fun m f => Z.min m (fstart f)) fs max_epoch in
    let te := fold_left (fun m f => Z.max m (fend f)) fs trip_end in
    let travelled := fold_left (fun d f => kadd N d (fdist f)) (newest_first fs) (k0 N) in
    if pMaxDays p <? to_epoch_days ts true - to_epoch_days now false then PrErr ETripTooFarAhead else
    let distance := if has_bit (pAlgo p) pamCorrectPromiseDistance
                    then ksub N distance (kmul N (pc_bac_per_km (a_pc a)) distance) else distance in
    match propose (t_book (get_create e k now)) ts te distance travelled now (as_predictor (a_pred a)) (pMaxStack p) with
    | inl pp => PrOk pp
    | inr err => PrErr (EPromise err)
    end
  end.

Definition engine_make (e : engine) (k : Z) (pp : proposal N) (now : Z) : engine * option eng_err :=
  let a := e_admin e in
  if negb (valid_predictor (a_pred a)) then (e, Some EPromisesNotEnabled) else
  let t := get_create e k now in
  match make (t_book t) pp (as_predictor (a_pred a)) with
  | inl b => ({| e_admin := a; e_table := tput (e_table e) k (set_book t b) |}, None)
  | inr err => (e, Some (EPromise err))
  end.

(** the front end's close / reopen: GetTraveller, EndTrip/ReopenTrip, PutTraveller *)
Definition engine_end_trip (e : engine) (k : Z) : engine * bool :=
  match tget (e_table e) k with
  | Some t => match end_trip_op (t_hist t) with
              | inl h => ({| e_admin := e_admin e; e_table := tput (e_table e) k (set_hist t h) |}, true)
              | inr _ => (e, false) end
  | None => (e, false)
  end.
Definition engine_reopen_trip (e : engine) (k : Z) : engine * bool :=
  match tget (e_table e) k with
  | Some t => match reopen_trip_op (t_hist t) with
              | inl h => ({| e_admin := e_admin e; e_table := tput (e_table e) k (set_hist t h) |}, true)
              | inr _ => (e, false) end
  | None => (e, false)
  end.

End WithNum.
Arguments tx : clear implicits.
Arguments traveller : clear implicits.
Arguments params : clear implicits.
Arguments pcstate : clear implicits.
Arguments admin : clear implicits.
Arguments engine : clear implicits.
Arguments table : clear implicits.
Arguments ustats : clear implicits.
Arguments contrib : clear implicits.
