(** Model of pkg/model/weights.go.  A scale is a list of entries (I, W) with W the
    cumulative weight; [weight] is int64 in Go, modelled as unbounded Z (the sums of
    route/airport weights in a simulation stay far below 2^63). *)
From Coq Require Import ZArith List.
From Flap Require Import Model.Search.
Import ListNotations.
Open Scope Z_scope.

Definition entry := (Z * Z)%type.          (* (I, W) *)
Definition scale := list entry.

Definition last_w (s : scale) : Z := snd (last s (0, 0)).

(** addIndexWeight *)
Definition add_index_weight (s : scale) (i w : Z) : scale :=
  match s with
  | [] => [(i, w)]
  | _ => s ++ [(i, last_w s + w)]
  end.

(** add *)
Definition add (s : scale) (w : Z) : scale := add_index_weight s (Z.of_nat (length s)) w.

(** addMultiple: does nothing when multiples < 1 *)
Definition add_multiple (s : scale) (w : Z) (multiples : Z) : scale :=
  Nat.iter (Z.to_nat multiples) (fun s => add s w) s.

Definition of_weights (ws : list Z) : scale := fold_left add ws [].

(** find: index of the first entry whose cumulative weight is >= w *)
Definition find (s : scale) (w : Z) : option Z :=
  let i := search (length s) (fun i => Z.leb w (snd (nth i s (0, 0)))) in
  if Nat.ltb i (length s) then Some (fst (nth i s (0, 0))) else None.

(** topWeight *)
Definition top_weight (s : scale) : option Z :=
  match s with [] => None | _ => Some (last_w s) end.

Inductive choose_result := ChNoWeights | ChNotFound | ChIndex (i : Z).

(** choose with the underlying draw [r] (rand.Int63n(top), so 0 <= r < top) explicit.
    Int63n panics for top <= 0; top = 0 is filtered before, top < 0 is [ChPanic]-free
    here because weights are non-negative in every caller (hypothesis of the theorems). *)
Definition choose (s : scale) (r : Z) : choose_result :=
  match top_weight s with
  | None => ChNoWeights
  | Some tw => if Z.eqb tw 0 then ChNotFound
               else match find s (r + 1) with Some i => ChIndex i | None => ChNotFound end
  end.
