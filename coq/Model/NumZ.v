(** An exact instance (integers), used to show the law layers are inhabited and to state
    "equals the sum" theorems non-vacuously.  Distances in whole metres, say. *)
From Coq Require Import ZArith.
From Flap Require Import Model.Num.
Open Scope Z_scope.
Definition NumZ : NumOps := {|
  K := Z; k0 := 0; kadd := Z.add; ksub := Z.sub; kmul := Z.mul; kdiv := Z.div; kopp := Z.opp;
  kltb := Z.ltb; kleb := Z.leb; keqb := Z.eqb; kofZ := fun z => z; ksqrt := Z.sqrt;
  kceilZ := fun z => z; ktruncZ := fun z => z; kmaxfloat := 2^1024; kpowi := fun x n => x ^ Z.of_nat n;
  kround10 := fun z => z;
|}.
