(** Error-propagation skeleton of the operations that talk to the store (pkg/flap/engine.go,
    travellers.go, administrator.go): every store call consumes the next entry of a fault schedule
    ([sch n = true]: the n-th call fails).  What is modelled is which failures each operation reports
    and which effects it has handed to the store when it reports success. *)
From Coq Require Import List Bool Arith.
Import ListNotations.

Definition schedule := nat -> bool.

(** result of an operation: reported success?, number of effects (records) handed over and durable,
    next schedule position *)
Record outcome := mkOut { ok : bool; handed : nat; next : nat }.

(** SubmitFlights: Get (with the repair: a failed read that is not "no such record" is reported), then
    Put of the updated record *)
Definition submit_f (sch : schedule) (i : nat) : outcome :=
  if sch i then {| ok := false; handed := 0; next := S i |} else
  let put_fails := sch (S i) in
  {| ok := negb put_fails; handed := if put_fails then 0 else 1; next := S (S i) |}.

(** Make: Get (same), version check, Put (whose error is returned) *)
Definition make_f (sch : schedule) (i : nat) (current : bool) : outcome :=
  if sch i then {| ok := false; handed := 0; next := S i |} else
  if current then
    let put_fails := sch (S i) in {| ok := negb put_fails; handed := if put_fails then 0 else 1; next := S (S i) |}
  else {| ok := false; handed := 0; next := S i |}.

(** Administrator.Save: up to four Puts (the predictor only when one is installed), stops at the first failure *)
Fixpoint puts_f (sch : schedule) (i n : nat) : outcome :=
  match n with
  | O => {| ok := true; handed := 0; next := i |}
  | S k => if sch i then {| ok := false; handed := 0; next := S i |}
           else let r := puts_f sch (S i) k in {| ok := ok r; handed := S (handed r); next := next r |}
  end.
Definition save_f (sch : schedule) (i : nat) (has_predictor : bool) : outcome :=
  puts_f sch i (if has_predictor then 4 else 3).

(** one key prefix of one update worker: NewIterator, one batch Put per changed traveller (which
    may itself flush every 10000 records), iterator error check *)
Definition prefix_f (sch : schedule) (i : nat) (changed : nat) : outcome :=
  if sch i then {| ok := false; handed := 0; next := S i |}              (* NewIterator failed *)
  else let r := puts_f sch (S i) changed in
       if ok r then
         if sch (next r) then {| ok := false; handed := handed r; next := S (next r) |}   (* iteration error *)
         else {| ok := true; handed := handed r; next := S (next r) |}
       else r.

Fixpoint prefixes_f (sch : schedule) (i : nat) (ps : list nat) : outcome :=
  match ps with
  | [] => {| ok := true; handed := 0; next := i |}
  | c :: r => let a := prefix_f sch i c in
              if ok a then let b := prefixes_f sch (next a) r in
                           {| ok := ok b; handed := handed a + handed b; next := next b |}
              else a
  end.

(** one worker: MakeBatch, its prefixes, and the deferred Release (final flush), whose failure is
    reported unless an earlier one already is; records are durable only when the flush succeeds *)
Definition worker_f (sch : schedule) (i : nat) (ps : list nat) : outcome :=
  if sch i then {| ok := false; handed := 0; next := S i |}              (* MakeBatch failed *)
  else let r := prefixes_f sch (S i) ps in
       let flush_fails := sch (next r) in
       {| ok := ok r && negb flush_fails; handed := if flush_fails then 0 else handed r; next := S (next r) |}.

Fixpoint workers_f (sch : schedule) (i : nat) (ws : list (list nat)) : outcome :=
  match ws with
  | [] => {| ok := true; handed := 0; next := i |}
  | w :: r => let a := worker_f sch i w in
              let b := workers_f sch (next a) r in        (* the other workers run regardless *)
              {| ok := ok a && ok b; handed := handed a + handed b; next := next b |}
  end.

(** UpdateTripsAndBackfill: TakeSnapshot, then the workers (run here one after the other) *)
Definition update_f (sch : schedule) (i : nat) (ws : list (list nat)) : outcome :=
  if sch i then {| ok := false; handed := 0; next := S i |}
  else workers_f sch (S i) ws.

Definition total_changed (ws : list (list nat)) : nat := fold_right (fun w acc => fold_right Nat.add 0 w + acc) 0 ws.
