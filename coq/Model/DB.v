(** Model of pkg/db/leveldb.go: the LevelDB wrapper (directory of tables, handle cache, batch flush
    rule, prefix iteration, snapshots) over an ordered map per table - LevelDB itself is the oracle
    that provides the ordered map. Keys and values are byte strings (lists of numbers 0..255). *)
From Coq Require Import ZArith List Bool Arith.
Import ListNotations.
Open Scope Z_scope.

Definition bstr := list Z.

(** bytewise lexicographic comparison (LevelDB's default comparer) *)
Fixpoint bcmp (a b : bstr) : comparison :=
  match a, b with
  | [], [] => Eq
  | [], _ => Lt
  | _, [] => Gt
  | x :: a', y :: b' => match Z.compare x y with Eq => bcmp a' b' | c => c end
  end.
Definition beqb (a b : bstr) : bool := match bcmp a b with Eq => true | _ => false end.

Fixpoint is_prefix (p k : bstr) : bool :=
  match p, k with
  | [], _ => true
  | _, [] => false
  | x :: p', y :: k' => (x =? y) && is_prefix p' k'
  end.

(** an ordered map as a list sorted by key *)
Definition kvmap := list (bstr * bstr).

Fixpoint mput (m : kvmap) (k v : bstr) : kvmap :=
  match m with
  | [] => [(k, v)]
  | (k', v') :: r => match bcmp k k' with
                     | Eq => (k, v) :: r
                     | Lt => (k, v) :: (k', v') :: r
                     | Gt => (k', v') :: mput r k v
                     end
  end.
Fixpoint mget (m : kvmap) (k : bstr) : option bstr :=
  match m with
  | [] => None
  | (k', v') :: r => if beqb k k' then Some v' else mget r k
  end.
Fixpoint mdel (m : kvmap) (k : bstr) : kvmap :=
  match m with
  | [] => []
  | (k', v') :: r => if beqb k k' then r else (k', v') :: mdel r k
  end.
Definition miter (m : kvmap) (prefix : bstr) : kvmap := filter (fun kv => is_prefix prefix (fst kv)) m.

(** ---- the wrapper ---- *)
Inductive dberr := ETableExists | ETableNotFound | EInvalidName | EKeyNotFound | EClosed | ECrashDivZero.

(** a table handle is (name, generation): closing and reopening gives a new generation; operations on
    an old one fail (goleveldb: "leveldb: closed") *)
Definition handle := (bstr * Z)%type.

Inductive wop := WPut (k v : bstr) | WDel (k : bstr).

Record batch := mkBatch { b_handle : handle; b_size : Z; b_pending : list wop }.

Record dbstate := mkDB {
  disk : list (bstr * kvmap);          (* tables that exist on disk *)
  opened : list handle;                (* the handle cache: open tables *)
  gen : Z;                             (* next generation number *)
  snaps : list (Z * kvmap);            (* snapshot id -> frozen contents *)
  batches : list (Z * batch);          (* batch id -> batch *)
  next_id : Z;
  shells : list bstr                   (* empty directories left behind by failed OpenTable calls
                                          (leveldb.OpenFile creates the directory before it fails) *)
}.
Definition db0 : dbstate := {| disk := []; opened := []; gen := 0; snaps := []; batches := []; next_id := 0; shells := [] |}.

Fixpoint alookup {A} (l : list (bstr * A)) (n : bstr) : option A :=
  match l with [] => None | (n', x) :: r => if beqb n n' then Some x else alookup r n end.
Fixpoint aset {A} (l : list (bstr * A)) (n : bstr) (x : A) : list (bstr * A) :=
  match l with [] => [(n, x)] | (n', y) :: r => if beqb n n' then (n, x) :: r else (n', y) :: aset r n x end.
Fixpoint aremove {A} (l : list (bstr * A)) (n : bstr) : list (bstr * A) :=
  match l with [] => [] | (n', y) :: r => if beqb n n' then r else (n', y) :: aremove r n end.
Fixpoint zlookup {A} (l : list (Z * A)) (i : Z) : option A :=
  match l with [] => None | (j, x) :: r => if i =? j then Some x else zlookup r i end.
Fixpoint zset {A} (l : list (Z * A)) (i : Z) (x : A) : list (Z * A) :=
  match l with [] => [(i, x)] | (j, y) :: r => if i =? j then (i, x) :: r else (j, y) :: zset r i x end.

Definition handle_open (s : dbstate) (h : handle) : bool :=
  existsb (fun h' => beqb (fst h) (fst h') && (snd h =? snd h')) (opened s).
Definition open_handle_of (s : dbstate) (n : bstr) : option handle :=
  find (fun h' => beqb n (fst h')) (opened s).

Definition set_disk (s : dbstate) (d : list (bstr * kvmap)) : dbstate :=
  {| disk := d; opened := opened s; gen := gen s; snaps := snaps s; batches := batches s; next_id := next_id s; shells := shells s |}.
Definition set_opened (s : dbstate) (o : list handle) (g : Z) : dbstate :=
  {| disk := disk s; opened := o; gen := g; snaps := snaps s; batches := batches s; next_id := next_id s; shells := shells s |}.
Definition set_shells (s : dbstate) (l : list bstr) : dbstate :=
  {| disk := disk s; opened := opened s; gen := gen s; snaps := snaps s; batches := batches s; next_id := next_id s; shells := l |}.
Definition has_shell (s : dbstate) (n : bstr) : bool := existsb (beqb n) (shells s).
Definition without_shell (s : dbstate) (n : bstr) : list bstr := filter (fun x => negb (beqb n x)) (shells s).

(** CreateTable *)
Definition create_table (s : dbstate) (n : bstr) : dbstate * (handle + dberr) :=
  match open_handle_of s n with
  | Some _ => (s, inr ETableExists)
  | None => match alookup (disk s) n with
            | Some _ => (s, inr ETableExists)
            | None => let h := (n, gen s) in
                      (set_shells (set_opened (set_disk s (aset (disk s) n [])) (h :: opened s) (gen s + 1)) (without_shell s n), inl h)
            end
  end.

(** OpenTable: the cached handle if open, otherwise a new one *)
Definition open_table (s : dbstate) (n : bstr) : dbstate * (handle + dberr) :=
  match open_handle_of s n with
  | Some h => (s, inl h)
  | None => match alookup (disk s) n with
            | Some _ => let h := (n, gen s) in (set_opened s (h :: opened s) (gen s + 1), inl h)
            | None => (set_shells s (n :: without_shell s n), inr ETableNotFound)   (* leaves an empty directory *)
            end
  end.

Definition drop_handle (o : list handle) (n : bstr) : list handle := filter (fun h => negb (beqb n (fst h))) o.

(** CloseTable (with the repair: the closed handle leaves the cache) *)
Definition close_table (s : dbstate) (n : bstr) : dbstate * option dberr :=
  match open_handle_of s n with
  | Some _ => (set_opened s (drop_handle (opened s) n) (gen s), None)
  | None => (s, Some ETableNotFound)
  end.

(** DropTable (with the repair: an open handle is closed and forgotten first) *)
Definition drop_table (s : dbstate) (n : bstr) : dbstate * option dberr :=
  match n with
  | [] => (s, Some EInvalidName)
  | _ => match alookup (disk s) n with
         | None => if has_shell s n then (set_shells s (without_shell s n), None)   (* removes the empty directory *)
                   else (s, Some ETableNotFound)
         | Some _ => (set_shells (set_opened (set_disk s (aremove (disk s) n)) (drop_handle (opened s) n) (gen s)) (without_shell s n), None)
         end
  end.

(** Release: closes every open table *)
Definition release_db (s : dbstate) : dbstate := set_opened s [] (gen s).

Definition table_of (s : dbstate) (h : handle) : option kvmap :=
  if handle_open s h then alookup (disk s) (fst h) else None.

Definition apply_wop (m : kvmap) (o : wop) : kvmap :=
  match o with WPut k v => mput m k v | WDel k => mdel m k end.

Definition write_table (s : dbstate) (h : handle) (ops : list wop) : dbstate * option dberr :=
  match table_of s h with
  | Some m => (set_disk s (aset (disk s) (fst h) (fold_left apply_wop ops m)), None)
  | None => (s, Some EClosed)
  end.

Definition table_put s h k v := write_table s h [WPut k v].
Definition table_delete s h k := write_table s h [WDel k].
Definition table_get (s : dbstate) (h : handle) (k : bstr) : bstr + dberr :=
  match table_of s h with
  | Some m => match mget m k with Some v => inl v | None => inr EKeyNotFound end
  | None => inr EClosed
  end.
Definition table_iter (s : dbstate) (h : handle) (prefix : bstr) : kvmap + dberr :=
  match table_of s h with Some m => inl (miter m prefix) | None => inr EClosed end.

(** TakeSnapshot: freezes the current contents under a fresh id *)
Definition take_snapshot (s : dbstate) (h : handle) : dbstate * (Z + dberr) :=
  match table_of s h with
  | Some m => ({| disk := disk s; opened := opened s; gen := gen s; snaps := (next_id s, m) :: snaps s;
                  batches := batches s; next_id := next_id s + 1; shells := shells s |}, inl (next_id s))
  | None => (s, inr EClosed)
  end.
Definition snap_get (s : dbstate) (id : Z) (k : bstr) : bstr + dberr :=
  match zlookup (snaps s) id with
  | Some m => match mget m k with Some v => inl v | None => inr EKeyNotFound end
  | None => inr EClosed
  end.
Definition snap_iter (s : dbstate) (id : Z) (prefix : bstr) : kvmap + dberr :=
  match zlookup (snaps s) id with Some m => inl (miter m prefix) | None => inr EClosed end.

(** MakeBatch / batch Put / Delete / Release: flush when the number of pending records is a multiple
    of the batch size (size 0: integer division by zero on the first record) and on release *)
Definition make_batch (s : dbstate) (h : handle) (size : Z) : dbstate * Z :=
  ({| disk := disk s; opened := opened s; gen := gen s; snaps := snaps s;
      batches := (next_id s, {| b_handle := h; b_size := size; b_pending := [] |}) :: batches s;
      next_id := next_id s + 1; shells := shells s |}, next_id s).

Definition set_batch (s : dbstate) (id : Z) (b : batch) : dbstate :=
  {| disk := disk s; opened := opened s; gen := gen s; snaps := snaps s; batches := zset (batches s) id b; next_id := next_id s; shells := shells s |}.

Definition batch_write (s : dbstate) (id : Z) (o : option wop) (flush : bool) : dbstate * option dberr :=
  match zlookup (batches s) id with
  | None => (s, Some EClosed)
  | Some b =>
    let pend := match o with Some x => b_pending b ++ [x] | None => b_pending b end in
    if negb flush && (b_size b =? 0) then (s, Some ECrashDivZero) else
    if flush || (Z.of_nat (length pend) mod b_size b =? 0) then
      match write_table s (b_handle b) pend with
      | (s', None) => (set_batch s' id {| b_handle := b_handle b; b_size := b_size b; b_pending := [] |}, None)
      | (s', Some e) => (set_batch s' id {| b_handle := b_handle b; b_size := b_size b; b_pending := [] |}, Some e)
      end
    else (set_batch s id {| b_handle := b_handle b; b_size := b_size b; b_pending := pend |}, None)
  end.
Definition batch_put s id k v := batch_write s id (Some (WPut k v)) false.
Definition batch_delete s id k := batch_write s id (Some (WDel k)) false.
Definition batch_release s id := batch_write s id None true.
