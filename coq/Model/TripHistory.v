(** Model of pkg/flap/triphistory.go: Flight, TripHistory (AddFlight, RemoveFlight, startOfTrip,
    tripStartEndLength, Update with its tripState, EndTrip, ReopenTrip, MidTrip).
    Fixed arrays are lists of length 100 (newest first, empty slots have Start = 0). *)
From Coq Require Import ZArith List Bool Arith.
From Flap Require Import Model.Num Model.Search.
Import ListNotations.
Open Scope Z_scope.

Inductive ftype := Fl | JEnd | TEnd | TTEnd | Reopen.   (* etFlight .. etTripReopen = 0..4 *)
Definition ftype_eqb a b :=
  match a, b with Fl,Fl | JEnd,JEnd | TEnd,TEnd | TTEnd,TTEnd | Reopen,Reopen => true | _,_ => false end.
Definition ftype_code (t : ftype) : Z := match t with Fl => 0 | JEnd => 1 | TEnd => 2 | TTEnd => 3 | Reopen => 4 end.

Definition SecondsInDay : Z := 86400.
Definition MaxFlights : nat := 100.

(** daysBetween: whole days from t1 to t2, 0 if t2 < t1 *)
Definition days_between (t1 t2 : Z) : Z := if t2 <? t1 then 0 else (t2 - t1) / SecondsInDay.

(** the parameters Update reads *)
Record thparams := { TripLength : Z; FlightsInTrip : Z; FlightInterval : Z; Algo : Z }.

Section WithNum.
Context {N : NumOps}.
Local Notation K := (K N).

Record flight := mkFlight { et : ftype; fstart : Z; fend : Z; ffrom : Z; fto : Z; fdist : K }.
Definition set_et (f : flight) (t : ftype) : flight :=
  {| et := t; fstart := fstart f; fend := fend f; ffrom := ffrom f; fto := fto f; fdist := fdist f |}.
Definition empty_flight : flight := {| et := Fl; fstart := 0; fend := 0; ffrom := 0; fto := 0; fdist := k0 N |}.

(** Go's struct equality [entries[i] != *f] (floats by ==) *)
Definition flight_eqb (a b : flight) : bool :=
  ftype_eqb (et a) (et b) && (fstart a =? fstart b) && (fend a =? fend b) &&
  (ffrom a =? ffrom b) && (fto a =? fto b) && keqb N (fdist a) (fdist b).

Record hist := mkHist { entries : list flight; oc : nat }.    (* oc = oldestChange *)
Definition getf (l : list flight) (i : nat) : flight := nth i l empty_flight.
Definition empty_hist : hist := {| entries := repeat empty_flight MaxFlights; oc := 0 |}.

Definition is_end (f : flight) : bool := match et f with TEnd | TTEnd => true | _ => false end.
Definition hempty (h : hist) : bool := fstart (getf (entries h) 0) =? 0.

(** MidTrip *)
Definition mid_trip (h : hist) : bool := hempty h || negb (is_end (getf (entries h) 0)).

(** index at which AddFlight/RemoveFlight start: first i with f.Start >= entries[i].Start *)
Definition older_index (l : list flight) (f : flight) : nat :=
  search MaxFlights (fun i => fstart (getf l i) <=? fstart f).

Inductive th_err := EFlightTooOld | EFlightNotFound | EEmptyHistory | ENotTripEnd | ENotStartOfDay
                  | ENoChange | EInvalidArg | CrashIndexOutOfRange.

(** AddFlight *)
Definition add_flight (h : hist) (f : flight) : hist + th_err :=
  let l := entries h in
  let i := older_index l f in
  if Nat.leb MaxFlights i then inr EFlightTooOld else
  let l' := firstn i l ++ f :: firstn (MaxFlights - 1 - i) (skipn i l) in
  inl {| entries := l';
         oc := if Nat.ltb (oc h) i then i
               else if Nat.ltb (oc h) (MaxFlights - 1) then S (oc h) else oc h |}.

(** the forward scan of RemoveFlight; running off the array is a Go index-out-of-range panic *)
Fixpoint remove_scan (fuel : nat) (l : list flight) (f : flight) (i : nat) : option nat :=
  match fuel with
  | O => None
  | S k => if Nat.leb MaxFlights i then None
           else if negb (flight_eqb (getf l i) f) && (fstart (getf l i) =? fstart f)
                then remove_scan k l f (S i) else Some i
  end.

(** RemoveFlight (with the repair of slot 99: the vacated last slot is cleared) *)
Definition remove_flight (h : hist) (f : flight) : hist + th_err :=
  let l := entries h in
  let i0 := older_index l f in
  if Nat.leb MaxFlights i0 then inr EFlightNotFound else
  match remove_scan (S MaxFlights) l f i0 with
  | None => inr CrashIndexOutOfRange
  | Some i =>
    if negb (flight_eqb (getf l i) f) then inr EFlightNotFound else
    let l' := firstn i l ++ skipn (S i) l ++ [empty_flight] in
    inl {| entries := l'; oc := if Nat.leb (oc h) i then i else pred (oc h) |}
  end.

(** startOfTrip j: scan i = j.. while i < 100 and Start <> 0; a trip end at i gives i-1; exit gives i-1 *)
Fixpoint sot_scan (fuel : nat) (l : list flight) (i : nat) : Z :=
  match fuel with
  | O => Z.of_nat i - 1
  | S k => if Nat.ltb i MaxFlights && negb (fstart (getf l i) =? 0)
           then if is_end (getf l i) then Z.of_nat i - 1 else sot_scan k l (S i)
           else Z.of_nat i - 1
  end.
Definition start_of_trip (l : list flight) (j : nat) : Z := sot_scan (S MaxFlights) l j.

(** tripStartEndLength: walk newest-first while in the open trip, summing distances in that order *)
Fixpoint tsel_scan (l : list flight) (d : K) (st : Z) : K * Z :=
  match l with
  | [] => (d, st)
  | f :: t => if negb (fstart f =? 0) && negb (is_end f)
              then tsel_scan t (kadd N d (fdist f)) (fstart f) else (d, st)
  end.
Definition trip_start_end_length (h : hist) : Z * Z * K :=
  let '(d, st) := tsel_scan (entries h) (k0 N) 0 in
  if kltb N (k0 N) d then (st, fend (getf (entries h) 0), d) else (0, 0, k0 N).

(** tripState *)
Record tstate := mkTS { journeys : Z; reopened : bool; flights : Z; tstart : Z; visited : option (list Z) }.
Definition ts0 : tstate := {| journeys := 0; reopened := false; flights := 0; tstart := 0; visited := None |}.
Definition set_visited (s : tstate) (v : option (list Z)) : tstate :=
  {| journeys := journeys s; reopened := reopened s; flights := flights s; tstart := tstart s; visited := v |}.

Definition end_trip (s : tstate) (f : flight) (respect : bool) : tstate * flight :=
  if respect && reopened s then (s, f)
  else (ts0, match et f with TTEnd => f | _ => set_et f TEnd end).

Definition end_journey (s : tstate) (f : flight) : tstate * flight :=
  match et f with
  | Reopen | TTEnd => (s, f)
  | _ => ({| journeys := journeys s + 1; reopened := reopened s; flights := flights s;
             tstart := tstart s; visited := None |}, set_et f JEnd)
  end.

Definition mem (x : Z) (l : list Z) : bool := existsb (Z.eqb x) l.

Definition update_journey (s : tstate) (f : flight) (now : Z) (p : thparams) (last : bool) : tstate * flight :=
  let s1 := if negb last && match visited s with None => true | Some _ => false end
            then set_visited s (Some []) else s in
  let '(s2, f2) := match visited s1 with
    | None => (s1, f)
    | Some v => if mem (fto f) v then end_journey s1 f
                else (set_visited s1 (Some (fto f :: ffrom f :: v)), f)
    end in
  if FlightInterval p <=? days_between (fend f2) now then end_journey s2 f2 else (s2, f2).

Definition update_trip (s : tstate) (f : flight) (now : Z) (p : thparams) : tstate * flight :=
  let s1 := if tstart s =? 0
            then {| journeys := journeys s; reopened := reopened s; flights := flights s;
                    tstart := fstart f; visited := visited s |} else s in
  let '(s2, f2) := if (journeys s1 =? 2) && (Algo p =? 0) then end_trip s1 f true else (s1, f) in
  let '(s3, f3) := if TripLength p <? days_between (tstart s2) now then end_trip s2 f2 false else (s2, f2) in
  if FlightsInTrip p <=? flights s3 then end_trip s3 f3 false else (s3, f3).

(** Flight.yesterday *)
Definition yesterday (f : flight) (now : Z) : K :=
  if (fstart f <? now) && (now - fstart f <=? SecondsInDay) then fdist f else k0 N.

Definition next_entry (s : tstate) (f : flight) : tstate :=
  {| journeys := journeys s; reopened := reopened s || ftype_eqb (et f) Reopen; flights := flights s + 1;
     tstart := tstart s; visited := visited s |}.

(** accumulator of the loop: state, rewritten flights (newest first), distanceYesterday, flightsYesterday *)
Definition uacc := (tstate * list flight * K * Z)%type.

Definition add_stats (f : flight) (now : Z) (dy : K) (fy : Z) : K * Z :=
  let d := yesterday f now in
  if kltb N (k0 N) d then (kadd N dy d, fy + 1) else (dy, fy).

(** one iteration of [for i := j; i > 0; i--]: [fn] = (entries[i], entries[i-1].Start) *)
Definition step_mid (p : thparams) (now : Z) (acc : uacc) (fn : flight * Z) : uacc :=
  let '(s, out, dy, fy) := acc in
  let '(f, nowthen) := fn in
  let s1 := next_entry s f in
  match et f with
  | TTEnd => let '(s2, f2) := end_trip s1 f false in (s2, f2 :: out, dy, fy)   (* continue: no stats *)
  | _ => let '(s2, f2) := update_journey s1 f nowthen p false in
         let '(s3, f3) := update_trip s2 f2 nowthen p in
         let '(dy', fy') := add_stats f3 now dy fy in
         (s3, f3 :: out, dy', fy')
  end.

(** the window choice: index j from which the history is re-evaluated (may be -1) *)
Definition window_start (h : hist) : Z :=
  let l := entries h in
  let j0 := start_of_trip l (oc h) in
  if Nat.ltb 0 (oc h) && negb (j0 =? Z.of_nat MaxFlights - 1) &&
     negb (fstart (getf l (Z.to_nat (j0 + 1))) =? 0)
  then start_of_trip l (Z.to_nat (j0 + 1)) else j0.

(** Update: result history, distanceYesterday, flightsYesterday *)
Definition update (h : hist) (p : thparams) (now : Z) : (hist * K * Z) + th_err :=
  let l := entries h in
  if hempty h then inr EEmptyHistory else
  if negb (now mod SecondsInDay =? 0) then inr ENotStartOfDay else
  if Nat.eqb (oc h) 0 && is_end (getf l 0) then inr ENoChange else
  let j := window_start h in
  let jn := Z.to_nat j in                      (* j = -1 behaves like j = 0: the loop body never runs *)
  let win := firstn (S jn) l in                (* entries 0..j *)
  let rest := skipn (S jn) l in
  let olderfirst := rev win in                 (* entries j, j-1, .., 0 *)
  let mids := removelast olderfirst in         (* entries j..1 *)
  let nows := map fstart (tl olderfirst) in    (* Start of entries j-1..0 *)
  let '(s, out, dy, fy) := fold_left (step_mid p now) (combine mids nows) (ts0, [], k0 N, 0) in
  let f0 := getf l 0 in
  let s1 := next_entry s f0 in
  let '(s2, f2) := update_journey s1 f0 now p true in
  let '(s3, f3) := update_trip s2 f2 now p in
  let '(dy', fy') := add_stats f3 now dy fy in
  inl ({| entries := f3 :: out ++ rest; oc := 0 |}, dy', fy').

(** EndTrip / ReopenTrip *)
Definition set_head_et (h : hist) (t : ftype) : hist :=
  match entries h with
  | [] => h
  | f :: r => {| entries := set_et f t :: r; oc := oc h |}
  end.
Definition end_trip_op (h : hist) : hist + th_err :=
  if hempty h then inr EEmptyHistory else inl (set_head_et h TTEnd).
Definition reopen_trip_op (h : hist) : hist + th_err :=
  if hempty h then inr EEmptyHistory else
  if negb (is_end (getf (entries h) 0)) then inr ENotTripEnd else inl (set_head_et h Reopen).

End WithNum.
Arguments flight : clear implicits.
Arguments hist : clear implicits.
