(** Model of pkg/flap/promises.go: Promise, Promises (propose, make, keep, match, restack,
    updateStackEntry).  The predictor is a record of functions about which nothing is assumed. *)
From Coq Require Import ZArith List Bool Arith.
From Flap Require Import Model.Num Model.Search Model.TripHistory.
Import ListNotations.
Open Scope Z_scope.

Definition MaxPromises : nat := 10.
Definition two64 : Z := 2 ^ 64.

(** EpochTime.toEpochDays(roundup) — uint64 arithmetic, result reinterpreted as int64 days *)
Definition to_epoch_days (t : Z) (roundup : bool) : Z :=
  if roundup then ((t + (SecondsInDay - 1)) mod two64) / SecondsInDay else t / SecondsInDay.
(** epochDays.toEpochTime(): EpochTime(days) * 86400 in uint64 *)
Definition days_to_time (d : Z) : Z := ((d mod two64) * SecondsInDay) mod two64.

Section WithNum.
Context {N : NumOps}.
Local Notation K := (K N).

(** [p_bf] is ghost state (never read by any operation, not stored, not compared with the code):
    "this promise's clearance date has been brought forward to let the next trip start". *)
Record promise := mkPromise {
  p_ts : Z; p_te : Z; p_dist : K; p_trav : K; p_clear : Z; p_stack : Z; p_carried : K; p_bf : bool }.
Definition empty_promise : promise :=
  {| p_ts := 0; p_te := 0; p_dist := k0 N; p_trav := k0 N; p_clear := 0; p_stack := 0; p_carried := k0 N; p_bf := false |}.
(** a clearance date set by prediction (not brought forward) *)
Definition set_clear (p : promise) (c : Z) : promise :=
  {| p_ts := p_ts p; p_te := p_te p; p_dist := p_dist p; p_trav := p_trav p; p_clear := c;
     p_stack := p_stack p; p_carried := p_carried p; p_bf := false |}.
(** a clearance date brought forward to the start of the next trip *)
Definition set_clear_bf (p : promise) (c : Z) : promise :=
  {| p_ts := p_ts p; p_te := p_te p; p_dist := p_dist p; p_trav := p_trav p; p_clear := c;
     p_stack := p_stack p; p_carried := p_carried p; p_bf := true |}.
Definition set_stack (p : promise) (s : Z) : promise :=
  {| p_ts := p_ts p; p_te := p_te p; p_dist := p_dist p; p_trav := p_trav p; p_clear := p_clear p;
     p_stack := s; p_carried := p_carried p; p_bf := p_bf p |}.
Definition set_carried (p : promise) (c : K) : promise :=
  {| p_ts := p_ts p; p_te := p_te p; p_dist := p_dist p; p_trav := p_trav p; p_clear := p_clear p;
     p_stack := p_stack p; p_carried := c; p_bf := p_bf p |}.
Definition tobackfill (p : promise) : K := kadd N (p_dist p) (p_carried p).

Definition book := list promise.                    (* 10 entries, newest trip first *)
Definition empty_book : book := repeat empty_promise MaxPromises.
Definition getp (b : book) (i : nat) : promise := nth i b empty_promise.
Fixpoint setp (b : book) (i : nat) (p : promise) : book :=     (* entries[i] = p *)
  match b, i with
  | [], _ => []
  | _ :: r, O => p :: r
  | x :: r, S j => x :: setp r j p
  end.

(** what the code asks of a predictor; [None] = the call returned an error *)
Record predictor := mkPred {
  pr_predict : K -> Z -> option Z;       (* predict(distance, startDay) *)
  pr_backfilled : Z -> Z -> option K;    (* backfilled(startDay, endDay) *)
  pr_version : Z }.

Inductive perr := EInvalidArgument | ENoRoom | EInternal | EOverlapPrev | EOverlapNext
                | EExceededStack | EProposalExpired | EPromiseDoesntMatch | EPromiseNotFound.

Record proposal := mkProposal { pp_entries : book; pp_version : Z }.

(** updateStackEntry i (1 <= i <= 9) *)
Definition update_stack_entry (b : book) (i : nat) (pr : predictor) (max_stack : Z) : book + perr :=
  if Nat.eqb i 0 || Nat.ltb (MaxPromises - 1) i then inr EInvalidArgument else
  let cd := to_epoch_days (p_ts (getp b (i - 1))) false in
  let b1 := setp b i (set_clear_bf (getp b i) (days_to_time cd)) in
  let chk := if Nat.ltb i (MaxPromises - 1)
             then if max_stack <=? p_stack (getp b1 (i + 1)) then None else Some (p_stack (getp b1 (i + 1)))
             else Some 0 in
  match chk with
  | None => inr EExceededStack
  | Some last_index =>
    let b2 := setp b1 i (set_stack (getp b1 i) (last_index + 1)) in
    let pi := getp b2 i in
    let distdone := match pr_backfilled pr (to_epoch_days (p_te pi) true + 1) (to_epoch_days (p_clear pi) false) with
                    | Some d => d | None => k0 N end in
    let b3 := setp b2 (i - 1) (set_carried (getp b2 (i - 1)) (ksub N (tobackfill pi) distdone)) in
    let pn := getp b3 (i - 1) in
    let clearance := match pr_predict pr (tobackfill pn) (to_epoch_days (p_te pn) true + 1) with
                     | Some c => c | None => to_epoch_days (p_te pn) false + 1 end in
    inl (setp b3 (i - 1) (set_clear pn (days_to_time clearance)))
  end.

(** the downward loop of restack: for j := i; j > 0 && entries[j].Clearance >= entries[j-1].TripStart; j-- *)
Fixpoint restack_loop (fuel : nat) (b : book) (j : nat) (pr : predictor) (max_stack : Z) : book + perr :=
  match fuel with
  | O => inl b
  | S k => if Nat.ltb 0 j && (p_ts (getp b (j - 1)) <=? p_clear (getp b j))
           then match update_stack_entry b j pr max_stack with
                | inl b' => restack_loop k b' (j - 1) pr max_stack
                | inr e => inr e end
           else inl b
  end.

Definition restack (b : book) (i : nat) (pr : predictor) (max_stack : Z) : book + perr :=
  let r1 := if Nat.ltb i (MaxPromises - 1) && (p_ts (getp b i) <=? p_clear (getp b (i + 1)))
            then update_stack_entry b (i + 1) pr max_stack else inl b in
  match r1 with
  | inl b1 => restack_loop (S MaxPromises) b1 i pr max_stack
  | inr e => inr e
  end.

(** Promises.propose (with the repairs: the oldest promise is droppable once its trip has ended
    and its clearance date has passed) *)
Definition propose (b : book) (ts te : Z) (distance travelled : K) (now : Z) (pr : predictor) (max_stack : Z)
  : proposal + perr :=
  if te <=? ts then inr EInvalidArgument else
  if kleb N distance (k0 N) then inr EInvalidArgument else
  if ts <? now then inr EInvalidArgument else
  if ts =? 0 then inr EInvalidArgument else
  let oldest := getp b (MaxPromises - 1) in
  if ((now <=? p_te oldest) || (now <=? p_clear oldest)) && (0 <? p_ts oldest) then inr ENoRoom else
  let clearance := match pr_predict pr distance (to_epoch_days te true) with
                   | Some c => c | None => to_epoch_days te false + 1 end in
  let p := {| p_ts := ts; p_te := te; p_dist := distance; p_trav := travelled;
              p_clear := days_to_time clearance; p_stack := 0; p_carried := k0 N; p_bf := false |} in
  let i := search MaxPromises (fun i => p_ts (getp b i) <=? ts) in
  if Nat.leb MaxPromises i then inr EInternal else
  if ts <=? p_te (getp b i) then inr EOverlapPrev else
  if Nat.ltb 0 i && (p_ts (getp b (i - 1)) <=? te) then inr EOverlapNext else
  let b' := firstn i b ++ p :: firstn (MaxPromises - 1 - i) (skipn i b) in
  match restack b' i pr max_stack with
  | inl b'' => inl {| pp_entries := b''; pp_version := pr_version pr |}
  | inr e => inr e
  end.

(** Promises.make *)
Definition make (b : book) (pp : proposal) (pr : predictor) : book + perr :=
  if pr_version pr =? pp_version pp then inl (pp_entries pp) else inr EProposalExpired.

(** number of promises as the iterators see it: sort.Search(10, TripStart == 0) *)
Definition book_count (b : book) : nat := search MaxPromises (fun i => p_ts (getp b i) =? 0).

(** Promises.keep: oldest to newest *)
Fixpoint keep_scan (b : book) (idx : nat) (ts te : Z) (d : K) : option promise :=
  match idx with
  | O => None
  | S k => let p := getp b k in
           if ts <? p_ts p then keep_scan b k ts te d
           else if (te <=? p_te p) && keqb N (p_trav p) d then Some p
           else keep_scan b k ts te d
  end.
Definition keep (b : book) (ts te : Z) (d : K) : promise + perr :=
  if keqb N d (k0 N) then inr EInvalidArgument else
  match keep_scan b (book_count b) ts te d with Some p => inl p | None => inr EPromiseDoesntMatch end.

(** Promises.match: current clearance of the entry equal to p in start, end and distance *)
Definition match_promise (b : book) (p : promise) : option Z :=
  let i := search MaxPromises (fun i => p_ts (getp b i) <=? p_ts p) in
  if Nat.ltb i MaxPromises && (p_ts (getp b i) =? p_ts p) && (p_te (getp b i) =? p_te p) &&
     keqb N (p_dist (getp b i)) (p_dist p)
  then Some (p_clear (getp b i)) else None.

End WithNum.
Arguments promise : clear implicits.
Arguments book : clear implicits.
Arguments predictor : clear implicits.
Arguments proposal : clear implicits.
