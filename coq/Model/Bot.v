(** Model of the traveller-bot protocol of pkg/model (the simulation): promisesplanner.go
    (prepareWeights: the days a trip may start on; whenWillWeFly: the two planned flights handed to
    Engine.Propose, then Engine.Make), journeyplanner.go (planTrip / buildFlight: the outbound flight;
    planInbound: the day of the return flight; submitFlights: one check-in per planned journey, the
    return planned when the outbound is accepted) and the order of a day in Engine.modelDay
    (daily update, then planning, then check-ins).
    Random draws (the day chosen by the weights, the second at which a flight leaves) and the airports'
    distance are inputs; everything the code computes from them is modelled. *)
From Coq Require Import ZArith List Bool Arith.
From Flap Require Import Model.Num Model.Search Model.TripHistory Model.Promises Model.Predictor Model.Engine.
Import ListNotations.
Open Scope Z_scope.

(** lo, lo+1, ..., hi-1 *)
Definition zrange (lo hi : Z) : list Z := map (fun i => lo + Z.of_nat i) (seq 0 (Z.to_nat (hi - lo))).

Definition day_of (t : Z) : Z := t / SecondsInDay.

Section WithNum.
Context {N : NumOps}.
Local Notation K := (K N).
Local Notation flight := (flight N).
Local Notation promise := (promise N).
Local Notation book := (book N).
Local Notation traveller := (traveller N).
Local Notation params := (params N).
Local Notation engine := (engine N).

(** ---------- promisesPlanner.prepareWeights: which days are offered ---------- *)
(** one promise of the loop "for it.Next()" (oldest promise first); state: current day, days offered so far *)
Definition prep_step (len : Z) (st : Z * list Z) (p : promise) : Z * list Z :=
  let '(cd, acc) := st in
  let sp := day_of (p_ts p) - (len - 1) in
  let '(cd1, acc1) := if cd <? sp then (sp, acc ++ zrange cd sp) else (cd, acc) in
  let ep := day_of (p_te p) + 1 in
  (if cd1 <? ep then ep else cd1, acc1).

(** Promises.NewIterator: from the oldest promise to the newest *)
Definition promises_oldest_first (b : book) : list promise := rev (firstn (book_count b) b).

(** the indices added to the scale before the final "not planning" entry: [today] = the current day,
    [len] = the length of the trip in days, [total] = FlapParams.Promises.MaxDays *)
Definition prepare_days (b : book) (today len total : Z) : list Z :=
  let '(cd, acc) := fold_left (prep_step len) (promises_oldest_first b) (today, []) in
  acc ++ zrange cd (today + (total - len) + 1).

(** ---------- promisesPlanner.whenWillWeFly: the planned flights ---------- *)
(** [sds] = start of the chosen day in seconds; the first flight leaves at the first second of that day,
    the second lands at the last second of the day [len] days later *)
Definition bot_planned_flights (sds len from to : Z) (d_out d_in : K) : list flight :=
  let ede := sds + len * SecondsInDay in
  [ {| et := Fl; fstart := sds; fend := sds + 1; ffrom := from; fto := to; fdist := d_out |};
    {| et := Fl; fstart := ede + (SecondsInDay - 2); fend := ede + SecondsInDay - 1; ffrom := to; fto := from; fdist := d_in |} ].

(** result codes of whenWillWeFly as the harness numbers them *)
Definition BotPlanned : Z := 0.
Definition BotNoSpace : Z := 1.        (* ENOSPACEFORTRIP: Propose refused *)
Definition BotMakeFailed : Z := 2.     (* Make returned an error *)
Definition BotInvalidFlight : Z := 3.  (* NewFlight refused the planned flights (day 0) *)

(** Propose for the planned flights, then Make *)
Definition bot_plan (e : engine) (k : Z) (now day len from to : Z) (d_out d_in : K) : engine * Z :=
  let sds := day * SecondsInDay in
  if sds <=? 0 then (e, BotInvalidFlight) else
  match engine_propose e k (bot_planned_flights sds len from to d_out d_in) 0 now with
  | PrOk pp => match engine_make e k pp now with
               | (e', None) => (e', BotPlanned)
               | (_, Some _) => (e, BotMakeFailed)
               end
  | _ => (e, BotNoSpace)
  end.

(** ---------- journeyPlanner ---------- *)
Record journey := mkJourney { j_out : bool; j_flight : flight; j_len : Z }.

(** buildFlight: a flight leaving [r] seconds into the day and lasting [dur] seconds; the code draws
    r from [0, 86400 - dur - 1) so that the flight lands within the day *)
Definition build_flight (start_of_day r dur from to : Z) (d : K) : flight :=
  {| et := Fl; fstart := start_of_day + r; fend := start_of_day + r + dur; ffrom := from; fto := to; fdist := d |}.
Definition draw_ok (r dur : Z) : bool := (0 <=? r) && (r <? SecondsInDay - dur - 1) && (0 <? dur).

(** planInbound: the day the return leaves on *)
Definition inbound_day_start (out : journey) : Z :=
  let s := fstart (j_flight out) in (s - s mod SecondsInDay) + j_len out * SecondsInDay.

(** ---------- what drives one traveller-bot on one day ---------- *)
(** [c_dist] = the distance to backfill that Engine.Propose computes for the two planned flights (sum of
    distance and taxi overhead, less the configured correction): the protocol does not depend on it.
    The distance of a flight is looked up from the airports table by NewFlight: a function of the
    two airport codes, given to the day loop as [dist]. *)
Record plan_choice := mkChoice {
  c_len : Z; c_day : Z; c_from : Z; c_to : Z; c_dist : K; c_r : Z; c_dur : Z }.

Record day_input := mkDay {
  di_params : params; di_share : K; di_pc : pcstate N; di_debit : bool; di_pred : predictor N;
  di_plan : option plan_choice;       (* Some: areWePlanning said yes and the weights chose c_day *)
  di_rin : Z; di_durin : Z }.         (* the draw and the duration of a return flight planned today *)

Record bot := mkBot { b_trav : traveller; b_pend : list journey }.

Definition jday (j : journey) : Z := day_of (fstart (j_flight j)).
Definition journey_today (d : Z) (j : journey) : bool := jday j =? d.

(** the distance travelled that Engine.Propose computes for the planned flights: newest flight first *)
Definition bot_travelled (d_out d_in : K) : K := kadd N (kadd N (k0 N) d_in) d_out.

End WithNum.
Arguments journey : clear implicits.
Arguments plan_choice : clear implicits.
Arguments day_input : clear implicits.
Arguments bot : clear implicits.
