(** Model of the great-circle distance of pkg/flap/triphistory.go (LatLon.Valid, degPos, haversine,
    LatLon.Distance, NewFlight's argument checks) on binary64, operation by operation, including
    Go's pure-Go math.Cos (Cephes polynomial with three-part pi/4 reduction, arguments below 2^29)
    and math.Asin (via satan / xatan).  Constants are given as the bit patterns the Go compiler uses. *)
From Coq Require Import ZArith Floats Bool.
From Flap Require Import Model.NumF.
Open Scope float_scope.

Definition sin0 : float := of_bits 4460209587652500685.
Definition sin1 : float := of_bits 13716528389658582877.
Definition sin2 : float := of_bits 4523617212962785441.
Definition sin3 : float := of_bits 13774824197404483331.
Definition sin4 : float := of_bits 4575957461383575504.
Definition sin5 : float := of_bits 13818544856648471880.
Definition cos0 : float := of_bits 13666448263388469915.
Definition cos1 : float := of_bits 4477121864728985349.
Definition cos2 : float := of_bits 13732177093698800582.
Definition cos3 : float := of_bits 4537941361668146421.
Definition cos4 : float := of_bits 13787419979223748497.
Definition cos5 : float := of_bits 4586165620538955083.
Definition PI4A : float := of_bits 4605249456957292544.
Definition PI4B : float := of_bits 4495793288086814720.
Definition PI4C : float := of_bits 4388835458085048688.
Definition fourOverPi : float := of_bits 4608412980311869571.
Definition cPi : float := of_bits 4614256656552045848.
Definition cPiO2 : float := of_bits 4609753056924675352.
Definition cPiO4 : float := of_bits 4605249457297304856.
Definition aP0 : float := of_bits 13829429103926125972.
Definition aP1 : float := of_bits 13848613196940411002.
Definition aP2 : float := of_bits 13858350711815275123.
Definition aP3 : float := of_bits 13861719834326579749.
Definition aP4 : float := of_bits 13857635882265799822.
Definition aQ0 : float := of_bits 4627690253511319612.
Definition aQ1 : float := of_bits 4640010388282866213.
Definition aQ2 : float := of_bits 4646322940342877755.
Definition aQ3 : float := of_bits 4647246694406179306.
Definition aQ4 : float := of_bits 4641049159275471596.
Definition Morebits : float := of_bits 4364452196894661639.
Definition halfMorebits : float := of_bits 4359948597267291143.
Definition Tan3pio8 : float := of_bits 4612618744449965542.
Definition twoREarth : float := of_bits 4668232582029954253.
Definition c180 : float := of_bits 4640537203540230144.
Definition c066 : float := of_bits 4604119971053405471.
Definition c07 : float := of_bits 4604480259023595110.
Definition c90 : float := of_bits 4636033603912859648.

Definition fabs (x : float) : float := PrimFloat.abs x.

(** math.Cos for finite |x| < 2^29 *)
Definition go_cos (x0 : float) : float :=
  let x := fabs x0 in
  let j0 := to_int64 (x * fourOverPi) in
  let y0 := of_int j0 in
  let '(j1, y) := if Z.odd j0 then ((j0 + 1)%Z, y0 + 1) else (j0, y0) in
  let j2 := Z.land j1 7 in
  let z := ((x - y * PI4A) - y * PI4B) - y * PI4C in
  let '(j3, sign1) := if (3 <? j2)%Z then ((j2 - 4)%Z, true) else (j2, false) in
  let sign := if (1 <? j3)%Z then negb sign1 else sign1 in
  let zz := z * z in
  let r := if ((j3 =? 1) || (j3 =? 2))%Z
           then z + z * zz * ((((((sin0 * zz) + sin1) * zz + sin2) * zz + sin3) * zz + sin4) * zz + sin5)
           else 1 - 0.5 * zz + zz * zz * ((((((cos0 * zz) + cos1) * zz + cos2) * zz + cos3) * zz + cos4) * zz + cos5) in
  if sign then - r else r.

Definition xatan (x : float) : float :=
  let z := x * x in
  let z := z * ((((aP0 * z + aP1) * z + aP2) * z + aP3) * z + aP4) / (((((z + aQ0) * z + aQ1) * z + aQ2) * z + aQ3) * z + aQ4) in
  x * z + x.

Definition satan (x : float) : float :=
  if PrimFloat.leb x c066 then xatan x
  else if PrimFloat.ltb Tan3pio8 x then cPiO2 - xatan (1 / x) + Morebits
  else cPiO4 + xatan ((x - 1) / (x + 1)) + halfMorebits.

(** math.Asin *)
Definition go_asin (x0 : float) : float :=
  if PrimFloat.eqb x0 0 then x0 else
  let sign := PrimFloat.ltb x0 0 in
  let x := if sign then - x0 else x0 in
  if PrimFloat.ltb 1 x then nan else
  let temp := PrimFloat.sqrt (1 - x * x) in
  let temp := if PrimFloat.ltb c07 x then cPiO2 - satan (temp / x) else satan (x / temp) in
  if sign then - temp else temp.

(** LatLon.Valid *)
Definition valid_latlon (lat lon : float) : bool :=
  PrimFloat.leb (fabs lat) c90 && PrimFloat.leb (fabs lon) c180.

Definition deg_rad (d : float) : float := d * cPi / c180.
Definition haversine (a : float) : float := 0.5 * (1 - go_cos a).

(** LatLon.Distance: None = EINVALIDARGUMENT *)
Definition distance (lat1 lon1 lat2 lon2 : float) : option float :=
  if valid_latlon lat1 lon1 && valid_latlon lat2 lon2 then
    let p1 := deg_rad lat1 in let l1 := deg_rad lon1 in
    let p2 := deg_rad lat2 in let l2 := deg_rad lon2 in
    Some (twoREarth * go_asin (PrimFloat.sqrt (haversine (p2 - p1) + go_cos p1 * go_cos p2 * haversine (l2 - l1))))
  else None.

(** NewFlight's argument checks (uint64 times): start must be after time zero, end after start *)
Definition new_flight_ok (start end_ : Z) : bool := (0 <? start)%Z && (start <? end_)%Z.
