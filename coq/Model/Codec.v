(** Byte-level model of the hand-written codecs (encoding/binary, little endian) of pkg/flap and
    pkg/model.  Values on the wire: integers as Z (unsigned or two's complement signed of a fixed
    width), float64 as their 64-bit pattern (a Z in [0, 2^64)), fixed byte arrays as one number. *)
From Coq Require Import ZArith List Bool Arith.
Import ListNotations.
Open Scope Z_scope.

Definition bytes := list Z.

(** n bytes, little endian, of x mod 256^n *)
Fixpoint le (n : nat) (x : Z) : bytes :=
  match n with O => [] | S k => (x mod 256) :: le k (x / 256) end.
Fixpoint unle (bs : bytes) : Z :=
  match bs with [] => 0 | b :: r => b + 256 * unle r end.

Definition take (n : nat) (bs : bytes) : option (bytes * bytes) :=
  if Nat.leb n (length bs) then Some (firstn n bs, skipn n bs) else None.

(** decoders return the value and the remaining bytes *)
Definition decoder (A : Type) := bytes -> option (A * bytes).

Definition dec_u (n : nat) : decoder Z :=
  fun bs => match take n bs with Some (h, r) => Some (unle h, r) | None => None end.
Definition enc_u (n : nat) (x : Z) : bytes := le n x.

(** signed two's complement of n bytes *)
Definition enc_s (n : nat) (x : Z) : bytes := le n (x mod 256 ^ Z.of_nat n).
Definition dec_s (n : nat) : decoder Z :=
  fun bs => match dec_u n bs with
            | Some (v, r) => Some (if v <? 256 ^ Z.of_nat n / 2 then v else v - 256 ^ Z.of_nat n, r)
            | None => None end.

Definition enc_pair {A B} (ea : A -> bytes) (eb : B -> bytes) (p : A * B) : bytes := ea (fst p) ++ eb (snd p).
Definition dec_pair {A B} (da : decoder A) (db : decoder B) : decoder (A * B) :=
  fun bs => match da bs with
            | Some (a, r) => match db r with Some (b, r') => Some ((a, b), r') | None => None end
            | None => None end.

Definition enc_map {A B} (g : B -> A) (ea : A -> bytes) (b : B) : bytes := ea (g b).
Definition dec_map {A B} (f : A -> B) (da : decoder A) : decoder B :=
  fun bs => match da bs with Some (a, r) => Some (f a, r) | None => None end.

(** n elements, no count *)
Fixpoint enc_seq {A} (ea : A -> bytes) (l : list A) : bytes :=
  match l with [] => [] | x :: r => ea x ++ enc_seq ea r end.
Fixpoint dec_seq {A} (da : decoder A) (n : nat) : decoder (list A) :=
  fun bs => match n with
            | O => Some ([], bs)
            | S k => match da bs with
                     | Some (a, r) => match dec_seq da k r with Some (l, r') => Some (a :: l, r') | None => None end
                     | None => None end
            end.

(** int32 count followed by the elements *)
Definition enc_list32 {A} (ea : A -> bytes) (l : list A) : bytes :=
  enc_s 4 (Z.of_nat (length l)) ++ enc_seq ea l.
Definition dec_list32 {A} (da : decoder A) : decoder (list A) :=
  fun bs => match dec_s 4 bs with
            | Some (n, r) => dec_seq da (Z.to_nat n) r     (* a negative count reads nothing *)
            | None => None end.

(** ---- the records (wire values as nested tuples) ---- *)

(** Flight: et int8, Start u64, End u64, FromAirport [4]byte, ToAirport [4]byte, Distance f64 *)
Definition wflight := (Z * (Z * (Z * (Z * (Z * Z)))))%type.
Definition enc_flight : wflight -> bytes :=
  enc_pair (enc_s 1) (enc_pair (enc_u 8) (enc_pair (enc_u 8) (enc_pair (enc_u 4) (enc_pair (enc_u 4) (enc_u 8))))).
Definition dec_flight : decoder wflight :=
  dec_pair (dec_s 1) (dec_pair (dec_u 8) (dec_pair (dec_u 8) (dec_pair (dec_u 4) (dec_pair (dec_u 4) (dec_u 8))))).

(** TripHistory: int32 n, n flights, oldestChange int8 *)
Definition whist := (list wflight * Z)%type.
Definition enc_hist : whist -> bytes := enc_pair (enc_list32 enc_flight) (enc_s 1).
Definition dec_hist : decoder whist := dec_pair (dec_list32 dec_flight) (dec_s 1).

(** Promise: TripStart u64, TripEnd u64, Distance f64, Travelled f64, Clearance u64, StackIndex int8, CarriedOver f64 *)
Definition wpromise := (Z * (Z * (Z * (Z * (Z * (Z * Z))))))%type.
Definition enc_promise : wpromise -> bytes :=
  enc_pair (enc_u 8) (enc_pair (enc_u 8) (enc_pair (enc_u 8) (enc_pair (enc_u 8) (enc_pair (enc_u 8) (enc_pair (enc_s 1) (enc_u 8)))))).
Definition dec_promise : decoder wpromise :=
  dec_pair (dec_u 8) (dec_pair (dec_u 8) (dec_pair (dec_u 8) (dec_pair (dec_u 8) (dec_pair (dec_u 8) (dec_pair (dec_s 1) (dec_u 8)))))).
Definition enc_promises : list wpromise -> bytes := enc_list32 enc_promise.
Definition dec_promises : decoder (list wpromise) := dec_list32 dec_promise.

(** Transaction: Date u64, Distance f64, TT u8 *)
Definition wtx := (Z * (Z * Z))%type.
Definition enc_tx : wtx -> bytes := enc_pair (enc_u 8) (enc_pair (enc_u 8) (enc_u 1)).
Definition dec_tx : decoder wtx := dec_pair (dec_u 8) (dec_pair (dec_u 8) (dec_u 1)).
Definition enc_txs : list wtx -> bytes := enc_list32 enc_tx.
Definition dec_txs : decoder (list wtx) := dec_list32 dec_tx.

(** Traveller: version u8, Created u64, passport number [9]byte, issuer [3]byte, history, promises,
    transactions, kept promise, balance f64 *)
Definition wtraveller := (Z * (Z * (Z * (Z * (whist * (list wpromise * (list wtx * (wpromise * Z))))))))%type.
Definition enc_traveller : wtraveller -> bytes :=
  enc_pair (enc_u 1) (enc_pair (enc_u 8) (enc_pair (enc_u 9) (enc_pair (enc_u 3)
    (enc_pair enc_hist (enc_pair enc_promises (enc_pair enc_txs (enc_pair enc_promise (enc_u 8)))))))).
Definition dec_traveller : decoder wtraveller :=
  dec_pair (dec_u 1) (dec_pair (dec_u 8) (dec_pair (dec_u 9) (dec_pair (dec_u 3)
    (dec_pair dec_hist (dec_pair dec_promises (dec_pair dec_txs (dec_pair dec_promise (dec_u 8)))))))).

(** SmoothYs: windowSize int32, maxYs int32, ys (int32 n + f64s), window (int32 n + f64s) *)
Definition wsmooth := (Z * (Z * (list Z * list Z)))%type.
Definition enc_smooth : wsmooth -> bytes :=
  enc_pair (enc_s 4) (enc_pair (enc_s 4) (enc_pair (enc_list32 (enc_u 8)) (enc_list32 (enc_u 8)))).
Definition dec_smooth : decoder wsmooth :=
  dec_pair (dec_s 4) (dec_pair (dec_s 4) (dec_pair (dec_list32 (dec_u 8)) (dec_list32 (dec_u 8)))).

(** bestFit: SmoothYs, m f64, c f64, pv u64 *)
Definition wbestfit := (wsmooth * (Z * (Z * Z)))%type.
Definition enc_bestfit : wbestfit -> bytes := enc_pair enc_smooth (enc_pair (enc_u 8) (enc_pair (enc_u 8) (enc_u 8))).
Definition dec_bestfit : decoder wbestfit := dec_pair dec_smooth (dec_pair (dec_u 8) (dec_pair (dec_u 8) (dec_u 8))).

(** polyBestFit: SmoothYs, pv u64, consts (int32 n + f64s), degree u32 *)
Definition wpolyfit := (wsmooth * (Z * (list Z * Z)))%type.
Definition enc_polyfit : wpolyfit -> bytes := enc_pair enc_smooth (enc_pair (enc_u 8) (enc_pair (enc_list32 (enc_u 8)) (enc_u 4))).
Definition dec_polyfit : decoder wpolyfit := dec_pair dec_smooth (dec_pair (dec_u 8) (dec_pair (dec_list32 (dec_u 8)) (dec_u 4))).

(** promisesCorrection: bacSmoothed, balanceAtClearance f64, cdSmoothed, clearedDistance f64, bacPerKm f64 *)
Definition wcorrection := (wsmooth * (Z * (wsmooth * (Z * Z))))%type.
Definition enc_correction : wcorrection -> bytes :=
  enc_pair enc_smooth (enc_pair (enc_u 8) (enc_pair enc_smooth (enc_pair (enc_u 8) (enc_u 8)))).
Definition dec_correction : decoder wcorrection :=
  dec_pair dec_smooth (dec_pair (dec_u 8) (dec_pair dec_smooth (dec_pair (dec_u 8) (dec_u 8)))).

(** backfillState: totalGrounded u64 *)
Definition enc_backfill : Z -> bytes := enc_u 8.
Definition dec_backfill : decoder Z := dec_u 8.

(** Airport: Loc.Lat f64, Loc.Lon f64 (the code is the key) *)
Definition wairport := (Z * Z)%type.
Definition enc_airport : wairport -> bytes := enc_pair (enc_u 8) (enc_u 8).
Definition dec_airport : decoder wairport := dec_pair (dec_u 8) (dec_u 8).

(** model.journey: flight, jt u8, length int64;  plannerDay: int32 n + journeys *)
Definition wjourney := (wflight * (Z * Z))%type.
Definition enc_journey : wjourney -> bytes := enc_pair enc_flight (enc_pair (enc_u 1) (enc_s 8)).
Definition dec_journey : decoder wjourney := dec_pair dec_flight (dec_pair (dec_u 1) (dec_s 8)).
Definition enc_plannerday : list wjourney -> bytes := enc_list32 enc_journey.
Definition dec_plannerday : decoder (list wjourney) := dec_list32 dec_journey.

(** model.modelState: totalDayOne f64, startDate u64, travellersForMinGrounded f64, totalTravellersCurrent u64 *)
Definition wmodelstate := (Z * (Z * (Z * Z)))%type.
Definition enc_modelstate : wmodelstate -> bytes := enc_pair (enc_u 8) (enc_pair (enc_u 8) (enc_pair (enc_u 8) (enc_u 8))).
Definition dec_modelstate : decoder wmodelstate := dec_pair (dec_u 8) (dec_pair (dec_u 8) (dec_pair (dec_u 8) (dec_u 8))).

(** ---- fixed arrays with a sentinel: what To() writes of an array and what From() rebuilds ---- *)
From Flap Require Import Model.Search.

(** To(): n := sort.Search(len, key(entries[i]) == 0); the first n entries are written *)
Definition cut_at_sentinel {A} (key : A -> Z) (d : A) (arr : list A) : list A :=
  firstn (search (length arr) (fun i => key (nth i arr d) =? 0)) arr.
(** From() into a fresh (all-zero) array *)
Definition refill {A} (d : A) (n : nat) (l : list A) : list A := l ++ repeat d (n - length l).
