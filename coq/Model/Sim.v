(** Model of one simulated day of pkg/model for the WHOLE population of traveller-bots on one flap engine
    (Engine.modelDay): the daily update (fe.UpdateTripsAndBackfill), then TravellerBots.planTrips - every
    planning call of every worker goroutine, in whatever order the scheduler runs them: promisesPlanner's
    offered days, Engine.Propose and Engine.Make for the two planned flights, journeyPlanner.planTrip -, then
    journeyPlanner.submitFlights - the day's journeys of every bot in the iterator's order, one
    Engine.SubmitFlights per journey at the flight's start, the return planned when an outbound is accepted -
    and finally the Administrator.SetParams with which modelDay stores the next day's Daily Total.
    The result is the list of engine operations performed (an engine history of Proofs/HistoryEngineP.v) and
    the new state.  Random draws, the airports' distances and the QR oracle of the polynomial predictor are
    inputs.  Also: the way doPlanTrips spreads the bots of a band over the planning threads. *)
From Coq Require Import ZArith List Bool Arith.
From Flap Require Import Model.Num Model.Search Model.TripHistory Model.Promises Model.Predictor Model.Engine Model.Bot.
Import ListNotations.
Open Scope Z_scope.

(** ---------- doPlanTrips: which bots a planning thread visits ---------- *)
(** "for j := offset; j < numInstances; j += threads": at most [fuel] iterations *)
Fixpoint worker_bots (fuel : nat) (j n threads : Z) : list Z :=
  match fuel with
  | O => []
  | S f => if j <? n then j :: worker_bots f (j + threads) n threads else []
  end.
(** planTrips starts workers offset = 0 .. threads-1, each with step = threads *)
Definition planned_bots (n threads : Z) : list (list Z) :=
  map (fun off => worker_bots (Z.to_nat n) off n threads) (zrange 0 threads).

Section WithNum.
Context {N : NumOps}.
Local Notation K := (K N).
Local Notation flight := (flight N).
Local Notation engine := (engine N).
Local Notation params := (params N).
Local Notation journey := (journey N).
Local Notation plan_choice := (plan_choice N).

(** the airports table seen through NewFlight *)
Variable dist : Z -> Z -> K.

(** engine operations as Proofs/HistoryEngineP.v names them *)
Inductive sop :=
| SCheckin (k : Z) (f : flight) (now : Z) (debit : bool)
| SPlan (k : Z) (fs : list flight) (trip_end now : Z)
| SUpdate (now : Z) (fit : list K)
| SSetParams (p : params).

Definition sop_apply (e : engine) (x : sop) : engine :=
  match x with
  | SCheckin k f now debit => fst (submit_flights e k [f] now debit)
  | SPlan k fs te now =>
      match engine_propose e k fs te now with
      | PrOk pp => fst (engine_make e k pp now)
      | _ => e
      end
  | SUpdate now fit => fst (fst (update_all e now fit))
  | SSetParams p =>
      match set_params (e_admin e) p with
      | inl a => {| e_admin := a; e_table := e_table e |}
      | inr _ => e
      end
  end.

(** a traveller-bot: the key of its record in the travellers table and its planned journeys *)
Record sbot := mkSBot { sb_key : Z; sb_pend : list journey }.

Definition s_out_journey (c : plan_choice) : journey :=
  mkJourney true (build_flight (c_day c * SecondsInDay) (c_r c) (c_dur c) (c_from c) (c_to c) (dist (c_from c) (c_to c))) (c_len c).
Definition s_in_journey (j : journey) (r dur : Z) : journey :=
  let f := j_flight j in
  mkJourney false (build_flight (inbound_day_start j) r dur (fto f) (ffrom f) (dist (fto f) (ffrom f))) (j_len j).

(** the flights whenWillWeFly hands to Engine.Propose *)
Definition s_plan_flights (c : plan_choice) : list flight :=
  bot_planned_flights (c_day c * SecondsInDay) (c_len c) (c_from c) (c_to c)
                      (dist (c_from c) (c_to c)) (dist (c_to c) (c_from c)).

(** one planning call: the bot with key [k] and journeys [pend], the trip length, day (among those offered) and
    airports of [c] *)
Definition sim_plan_bot (d : Z) (e : engine) (b : sbot) (c : plan_choice) : engine * sbot * list sop :=
  let now := d * SecondsInDay in
  let k := sb_key b in
  if existsb (Z.eqb (c_day c)) (prepare_days (t_book (get_create e k now)) d (c_len c) (pMaxDays (a_params (e_admin e))))
  then
    let fs := s_plan_flights c in
    let ok := match engine_propose e k fs 0 now with
              | PrOk pp => match snd (engine_make e k pp now) with None => true | Some _ => false end
              | _ => false
              end in
    (sop_apply e (SPlan k fs 0 now),
     mkSBot k (if ok then sb_pend b ++ [s_out_journey c] else sb_pend b), [SPlan k fs 0 now])
  else (e, b, []).

Fixpoint set_nth {A} (l : list A) (i : nat) (x : A) : list A :=
  match l, i with
  | [], _ => []
  | _ :: r, O => x :: r
  | y :: r, S i' => y :: set_nth r i' x
  end.

(** planTrips: the planning calls of all workers in the order they happened to run: (index of the bot, choice) *)
Fixpoint sim_plans (d : Z) (e : engine) (bots : list sbot) (calls : list (nat * plan_choice)) : engine * list sbot * list sop :=
  match calls with
  | [] => (e, bots, [])
  | (i, c) :: r =>
      match nth_error bots i with
      | None => sim_plans d e bots r
      | Some b =>
          let '(e1, b1, xs1) := sim_plan_bot d e b c in
          let '(e2, bots2, xs2) := sim_plans d e1 (set_nth bots i b1) r in
          (e2, bots2, xs1 ++ xs2)
      end
  end.

(** submitFlights for the journeys of one bot that leave today, in the order they were planned *)
Fixpoint sim_submit_journeys (e : engine) (k : Z) (today : list journey) (debit : bool) (rin durin : Z)
  : engine * list journey * list sop :=
  match today with
  | [] => (e, [], [])
  | j :: r =>
      let f := j_flight j in
      let x := SCheckin k f (fstart f) debit in
      let ok := match snd (submit_flights e k [f] (fstart f) debit) with None => true | Some _ => false end in
      let newj := if ok && j_out j then [s_in_journey j rin durin] else [] in
      let '(e2, more, xs) := sim_submit_journeys (sop_apply e x) k r debit rin durin in
      (e2, newj ++ more, x :: xs)
  end.

(** ... for every bot, in the order of the journey planner's iterator (the order of the list) *)
Fixpoint sim_submit (d : Z) (e : engine) (bots : list sbot) (debit : bool) (rin durin : Z -> Z)
  : engine * list sbot * list sop :=
  match bots with
  | [] => (e, [], [])
  | b :: r =>
      let k := sb_key b in
      let '(e1, newj, xs1) := sim_submit_journeys e k (filter (journey_today d) (sb_pend b)) debit (rin k) (durin k) in
      let '(e2, r', xs2) := sim_submit d e1 r debit rin durin in
      (e2, mkSBot k (sb_pend b ++ newj) :: r', xs1 ++ xs2)
  end.

Record pop_day := mkPopDay {
  pd_fit : list K;                        (* the QR oracle of the polynomial predictor for this update *)
  pd_debit : bool;                        (* false during the trial days *)
  pd_calls : list (nat * plan_choice);    (* the planning calls of the day, in the order they ran *)
  pd_rin : Z -> Z; pd_durin : Z -> Z;     (* departure second and duration of a return planned today, by bot key *)
  pd_params : option params }.            (* the parameters modelDay stores at the end of the day *)

Record sim := mkSim { s_eng : engine; s_bots : list sbot }.

Definition sim_day (d : Z) (s : sim) (pd : pop_day) : sim * list sop :=
  let now := d * SecondsInDay in
  let x1 := SUpdate now (pd_fit pd) in
  let e1 := sop_apply (s_eng s) x1 in
  let '(e2, bots2, xs2) := sim_plans d e1 (s_bots s) (pd_calls pd) in
  let '(e3, bots3, xs3) := sim_submit d e2 bots2 (pd_debit pd) (pd_rin pd) (pd_durin pd) in
  let '(e4, xs4) := match pd_params pd with
                    | Some p => (sop_apply e3 (SSetParams p), [SSetParams p])
                    | None => (e3, [])
                    end in
  (mkSim e4 bots3, x1 :: xs2 ++ xs3 ++ xs4).

Fixpoint sim_run (d : Z) (s : sim) (days : list pop_day) : list sop :=
  match days with
  | [] => []
  | pd :: r => let '(s', xs) := sim_day d s pd in xs ++ sim_run (d + 1) s' r
  end.

End WithNum.
Arguments sop : clear implicits.
Arguments sbot : clear implicits.
Arguments pop_day : clear implicits.
Arguments sim : clear implicits.
