(** Model of pkg/flap/smoothed.go, bestfit.go and polybestfit.go (everything except the QR
    fit of the polynomial predictor, whose result enters as data). *)
From Coq Require Import ZArith List Bool Arith.
From Flap Require Import Model.Num Model.Promises.
Import ListNotations.
Open Scope Z_scope.

Section WithNum.
Context {N : NumOps}.
Local Notation K := (K N).

Record smooth := mkSmooth { sm_wsize : Z; sm_max : Z; sm_ys : list K; sm_win : list K }.
Definition empty_smooth : smooth := {| sm_wsize := 0; sm_max := 0; sm_ys := []; sm_win := [] |}.

Definition ksum (l : list K) : K := fold_left (kadd N) l (k0 N).
Definition kmean (l : list K) : K := kdiv N (ksum l) (kofZ N (Z.of_nat (length l))).

(** SmoothYs.AddY *)
Definition add_y (s : smooth) (v : K) : smooth :=
  let win := (if Z.of_nat (length (sm_win s)) =? sm_wsize s then tl (sm_win s) else sm_win s) ++ [v] in
  let ys := (if Z.of_nat (length (sm_ys s)) =? sm_max s then tl (sm_ys s) else sm_ys s) ++ [kmean win] in
  {| sm_wsize := sm_wsize s; sm_max := sm_max s; sm_ys := ys; sm_win := win |}.

(** SetWindows(maxYs, windowSize): None when maxYs < 2 *)
Definition set_windows (max_ys wsize : Z) : option smooth :=
  if max_ys <? 2 then None
  else Some {| sm_wsize := if wsize <? 1 then 1 else wsize; sm_max := max_ys; sm_ys := []; sm_win := [] |}.

Definition last_y (s : smooth) : K := last (sm_ys s) (k0 N).

(** ---------- linear best fit ---------- *)
Record bestfit := mkBF { bf_sm : smooth; bf_m : K; bf_c : K; bf_pv : Z }.

Definition new_bestfit (max_points smooth_window : Z) : option bestfit :=
  match set_windows max_points smooth_window with
  | None => None
  | Some s => Some {| bf_sm := s; bf_m := k0 N; bf_c := kopp N (kofZ N 1); bf_pv := 0 |}
  end.

(** the four running sums of calculateLine *)
Fixpoint line_sums (ys : list K) (xorigin : Z) (x : Z) (acc : K * K * K * K) : K * K * K * K :=
  match ys with
  | [] => acc
  | y :: t =>
    let '(ySum, xSum, xxSum, xySum) := acc in
    let realx := kadd N (kofZ N xorigin) (kofZ N x) in
    line_sums t xorigin (x + 1)
      (kadd N ySum y, kadd N xSum realx, kadd N xxSum (kmul N realx realx), kadd N xySum (kmul N realx y))
  end.

Definition calculate_line (b : bestfit) (xmax : Z) : bestfit :=
  let ys := sm_ys (bf_sm b) in
  if (length ys <? 2)%nat then b else
  let xorigin := xmax - (Z.of_nat (length ys) - 1) in
  let '(ySum, xSum, xxSum, xySum) := line_sums ys xorigin 0 (k0 N, k0 N, k0 N, k0 N) in
  let n := kofZ N (Z.of_nat (length ys)) in
  let den := ksub N (kmul N n xxSum) (kmul N xSum xSum) in
  let c := kdiv N (ksub N (kmul N ySum xxSum) (kmul N xSum xySum)) den in
  let m := kdiv N (ksub N (kmul N n xySum) (kmul N xSum ySum)) den in
  if kneb N (bf_c b) c || kneb N (bf_m b) m
  then {| bf_sm := bf_sm b; bf_m := m; bf_c := c; bf_pv := bf_pv b + 1 |}
  else b.

Definition bf_add (b : bestfit) (x : Z) (y : K) : bestfit :=
  calculate_line {| bf_sm := add_y (bf_sm b) y; bf_m := bf_m b; bf_c := bf_c b; bf_pv := bf_pv b |} x.

Definition bf_calc_y (b : bestfit) (x : K) : K := kadd N (kmul N x (bf_m b)) (bf_c b).
Definition two : K := kofZ N 2.
Definition bf_integral (b : bestfit) (d : K) : K :=
  kadd N (kmul N (kmul N (kdiv N (bf_m b) two) d) d) (kmul N (bf_c b) d).

(** qr: real roots of a x^2 + b x + c, as the Go code computes them *)
Definition qr (a b c : K) : list K :=
  let d := ksub N (kmul N b b) (kmul N (kmul N (kofZ N 4) a) c) in
  if keqb N d (k0 N) then [kdiv N (kopp N b) (kmul N two a)]
  else if kltb N (k0 N) d then
    let d' := if kltb N b (k0 N) then ksub N (ksqrt N d) b else ksub N (kopp N (ksqrt N d)) b in
    [kdiv N d' (kmul N two a); kdiv N (kmul N two c) d']
  else [].

(** the last day whose start an int64 number of seconds can hold: MaxInt64 / SecondsInDay *)
Definition max_day : Z := 9223372036854775807 / 86400.

Definition bf_predict (b : bestfit) (balance : K) (start : Z) : option Z :=
  if kltb N (bf_c b) (k0 N) then None else
  let fs := kofZ N start in
  let is := bf_integral b fs in
  let ends := qr (kdiv N (bf_m b) two) (bf_c b) (kopp N (kadd N balance is)) in
  let choice := fold_left (fun ch cand =>
                  if kltb N fs cand && kltb N cand ch && kltb N (k0 N) (bf_calc_y b cand) then cand else ch)
                  ends (kmaxfloat N) in
  let choice := if keqb N choice (kmaxfloat N)
                then match sm_ys (bf_sm b) with
                     | [] => choice
                     | _ => kadd N fs (kdiv N balance (last_y (bf_sm b)))
                     end
                else choice in
  (* with the repair: no valid prediction unless the estimate is a representable day (this also
     excludes MaxFloat64, infinities and NaN - a zero last share makes the estimate infinite) *)
  if kltb N choice (kofZ N max_day) then Some (kceilZ N choice) else None.

Definition bf_backfilled (b : bestfit) (start end_ : Z) : option K :=
  if kltb N (bf_c b) (k0 N) then None else
  let d1 := kofZ N start in let d2 := kofZ N end_ in
  if kltb N (bf_calc_y b d1) (k0 N) || kltb N (bf_calc_y b d2) (k0 N)
  then Some (kmul N (kofZ N (end_ - start)) (last_y (bf_sm b)))
  else Some (ksub N (bf_integral b d2) (bf_integral b d1)).

(** ---------- polynomial best fit ---------- *)
Record polyfit := mkPF { pf_sm : smooth; pf_pv : Z; pf_consts : list K; pf_degree : Z }.

Definition new_polyfit (max_points smooth_window degree : Z) : option polyfit :=
  match set_windows max_points smooth_window with
  | None => None
  | Some s => Some {| pf_sm := s; pf_pv := 0; pf_consts := []; pf_degree := degree |}
  end.

Fixpoint klist_eqb (a b : list K) : bool :=
  match a, b with
  | [], [] => true
  | x :: a', y :: b' => keqb N x y && klist_eqb a' b'
  | _, _ => false
  end.

(** add: [fit] is what gonum's QR solve + Round(.,10) returned for the new window (an oracle);
    the version/constant bookkeeping around it is the code's *)
Definition pf_add (p : polyfit) (y : K) (fit : list K) : polyfit :=
  let s := add_y (pf_sm p) y in
  if pf_degree p <? Z.of_nat (length (sm_ys s)) then
    if klist_eqb fit (pf_consts p)
    then {| pf_sm := s; pf_pv := pf_pv p; pf_consts := pf_consts p; pf_degree := pf_degree p |}
    else {| pf_sm := s; pf_pv := pf_pv p + 1; pf_consts := fit; pf_degree := pf_degree p |}
  else {| pf_sm := s; pf_pv := pf_pv p; pf_consts := pf_consts p; pf_degree := pf_degree p |}.

Fixpoint poly_eval (cs : list K) (x : K) (i : nat) (t : K) : K :=
  match cs with
  | [] => t
  | v :: r => poly_eval r x (S i) (kadd N t (kmul N (kpowi N x i) v))
  end.

(** predictY: None when no constants or the curve is negative *)
Definition pf_predict_y (p : polyfit) (x : Z) : option K :=
  match pf_consts p with
  | [] => None
  | cs => let t := poly_eval cs (kofZ N x) 0 (k0 N) in if kltb N t (k0 N) then None else Some t
  end.

(** [LOutOfFuel cd r]: the fuel ran out with the search at day [cd] and [r] still to clear *)
Inductive loop_result := LDone (z : Z) | LOutOfFuel (cd : Z) (r : K).

Fixpoint pf_predict_loop (fuel : nat) (p : polyfit) (d : K) (sd cd : Z) (r : K) : loop_result :=
  match fuel with
  | O => LOutOfFuel cd r
  | S k =>
    if kltb N (k0 N) r then
      match pf_predict_y p cd with
      | Some dd => if kltb N (k0 N) dd then pf_predict_loop k p d sd (cd + 1) (ksub N r dd)
                   else LDone (sd + ktruncZ N (kdiv N d (last_y (pf_sm p))))
      | None => LDone (sd + ktruncZ N (kdiv N d (last_y (pf_sm p))))
      end
    else LDone cd
  end.

(** the loop run block by block ([blocks] blocks of [block] steps), so that evaluating it costs
    only the steps actually taken; equal to [pf_predict_loop (blocks * block)] (PredictorP.pf_predict_blocks_eq) *)
Fixpoint pf_predict_blocks (blocks block : nat) (p : polyfit) (d : K) (sd cd : Z) (r : K) : loop_result :=
  match blocks with
  | O => LOutOfFuel cd r
  | S k => match pf_predict_loop block p d sd cd r with
           | LDone z => LDone z
           | LOutOfFuel cd' r' => pf_predict_blocks k block p d sd cd' r'
           end
  end.

Definition predict_block : nat := 4096.
Definition predict_blocks : nat := 4096.
(** 2^24 days: more than 45,000 years *)
Definition predict_fuel : nat := predict_blocks * predict_block.

(** predict; [Some None] never occurs: result is None (error), or a day, or out of fuel (= a hang) *)
Definition pf_predict (p : polyfit) (d : K) (sd : Z) : option loop_result :=
  match sm_ys (pf_sm p) with
  | [] => None
  | _ => Some (pf_predict_blocks predict_blocks predict_block p d sd sd d)
  end.

Fixpoint pf_backfilled_loop (n : nat) (p : polyfit) (d : Z) (t : K) : option K :=
  match n with
  | O => Some t
  | S k => match pf_predict_y p d with
           | Some dd => pf_backfilled_loop k p (d + 1) (kadd N t dd)
           | None => None
           end
  end.

Definition pf_backfilled (p : polyfit) (sd ed : Z) : option K :=
  match sm_ys (pf_sm p) with
  | [] => None
  | _ => match pf_backfilled_loop (Z.to_nat (ed - sd)) p (sd + 1) (k0 N) with
         | Some t => Some t
         | None => Some (kmul N (kofZ N (ed - sd)) (last_y (pf_sm p)))
         end
  end.

(** ---------- the administrator's predictor ---------- *)
Inductive pred_state := PNone | PLinear (b : bestfit) | PPoly (p : polyfit).

Definition valid_predictor (p : pred_state) : bool := match p with PNone => false | _ => true end.

Definition pred_version (p : pred_state) : Z :=
  match p with PNone => 0 | PLinear b => bf_pv b | PPoly q => pf_pv q end.

(** the predictor as Promises.propose sees it; out of fuel is reported as [None] here and
    separately detected by [pred_hangs] *)
Definition as_predictor (p : pred_state) : predictor N :=
  match p with
  | PNone => {| pr_predict := fun _ _ => None; pr_backfilled := fun _ _ => None; pr_version := 0 |}
  | PLinear b => {| pr_predict := bf_predict b; pr_backfilled := bf_backfilled b; pr_version := bf_pv b |}
  | PPoly q => {| pr_predict := fun d sd => match pf_predict q d sd with
                                           | Some (LDone z) => Some z | _ => None end;
                  pr_backfilled := pf_backfilled q; pr_version := pf_pv q |}
  end.

Definition pred_add (p : pred_state) (x : Z) (y : K) (fit : list K) : pred_state :=
  match p with
  | PNone => PNone
  | PLinear b => PLinear (bf_add b x y)
  | PPoly q => PPoly (pf_add q y fit)
  end.

(** state(): points and constants reported in the update statistics *)
Definition pred_report (p : pred_state) : list K * list K :=
  match p with
  | PNone => ([], [])
  | PLinear b => if (length (sm_ys (bf_sm b)) <? 2)%nat then ([], []) else (sm_ys (bf_sm b), [bf_c b; bf_m b])
  | PPoly q => match pf_consts q with [] => ([], []) | cs => (sm_ys (pf_sm q), cs) end
  end.

End WithNum.
Arguments smooth : clear implicits.
Arguments bestfit : clear implicits.
Arguments polyfit : clear implicits.
Arguments pred_state : clear implicits.
