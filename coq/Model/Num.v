(** The number type of the model is a parameter (DESIGN.md 2.2).  [NumOps] carries the
    operations the Go code applies to [Kilometres]/[float64]; no laws are assumed here. *)
From Coq Require Import ZArith.

Record NumOps := mkNum {
  K : Type;
  k0 : K;
  kadd : K -> K -> K;
  ksub : K -> K -> K;
  kmul : K -> K -> K;
  kdiv : K -> K -> K;
  kopp : K -> K;
  kltb : K -> K -> bool;      (* x < y  *)
  kleb : K -> K -> bool;      (* x <= y *)
  keqb : K -> K -> bool;      (* x == y (Go's ==: NaN differs from itself, -0 == +0) *)
  kofZ : Z -> K;              (* float64(int) *)
  ksqrt : K -> K;
  kceilZ : K -> Z;            (* int64(math.Ceil x) with Go/amd64 out-of-range behaviour *)
  ktruncZ : K -> Z;           (* int64(x) *)
  kmaxfloat : K;              (* math.MaxFloat64 *)
  kpowi : K -> nat -> K;      (* math.Pow(x, float64(i)) for the small integer exponents the code uses *)
  kround10 : K -> K;          (* gonum scalar.Round(x, 10) *)
}.

Declare Scope K_scope.
Delimit Scope K_scope with K.
Notation "x + y" := (kadd _ x y) : K_scope.
Notation "x - y" := (ksub _ x y) : K_scope.
Notation "x * y" := (kmul _ x y) : K_scope.
Notation "x / y" := (kdiv _ x y) : K_scope.
Notation "- x" := (kopp _ x) : K_scope.
Notation "x <? y" := (kltb _ x y) : K_scope.
Notation "x <=? y" := (kleb _ x y) : K_scope.
Notation "x =? y" := (keqb _ x y) : K_scope.

Definition kgtb (N : NumOps) (x y : K N) : bool := kltb N y x.   (* x > y *)
Definition kgeb (N : NumOps) (x y : K N) : bool := kleb N y x.   (* x >= y *)
Definition kneb (N : NumOps) (x y : K N) : bool := negb (keqb N x y).
