(** The float instance: Coq primitive floats = IEEE binary64, round to nearest even, evaluated
    natively by vm_compute.  Go on amd64 (GOAMD64=v1) performs + - * / sqrt as single
    correctly-rounded binary64 operations, so this instance is compared with the code bit for bit. *)
From Coq Require Import ZArith Floats Uint63 Bool.
From Flap Require Import Model.Num.
Open Scope bool_scope.
Open Scope Z_scope.

Definition of_bits (z : Z) : float :=
  let s := Z.testbit z 63 in
  let e := Z.land (Z.shiftr z 52) 0x7FF in
  let m := Z.land z 0xFFFFFFFFFFFFF in
  let mag :=
    if e =? 0x7FF then (if m =? 0 then infinity else nan)
    else if e =? 0 then Z.ldexp (of_uint63 (of_Z m)) (-1074)
    else Z.ldexp (of_uint63 (of_Z (m + 0x10000000000000))) (e - 1075) in
  if s then PrimFloat.opp mag else mag.

(** NaN payloads are not observable in Coq; every NaN prints as the canonical quiet NaN. *)
Definition nan_bits : Z := 0x7FF8000000000001.
Definition to_bits (f : float) : Z :=
  match Prim2SF f with
  | S754_zero s => if s then 0x8000000000000000 else 0
  | S754_infinity s => if s then 0xFFF0000000000000 else 0x7FF0000000000000
  | S754_nan => nan_bits
  | S754_finite s m e =>
      let sb := if s then 0x8000000000000000 else 0 in
      if Z.pos m <? 0x10000000000000 then sb + Z.pos m
      else sb + (e + 1075) * 0x10000000000000 + (Z.pos m - 0x10000000000000)
  end.

(** Go: int64(f) truncates toward zero; on amd64 CVTTSD2SQ yields MinInt64 for NaN and out of range *)
Definition min_int64 : Z := -0x8000000000000000.
Definition to_int64 (f : float) : Z :=
  match Prim2SF f with
  | S754_zero _ => 0
  | S754_finite s m e =>
      let v := if 0 <=? e then Z.shiftl (Z.pos m) e else Z.shiftr (Z.pos m) (- e) in
      let v := if s then - v else v in
      if (v <? min_int64) || (0x7FFFFFFFFFFFFFFF <? v) then min_int64 else v
  | _ => min_int64
  end.

(** float64(int64 z): correctly rounded; of_uint63 is exact rounding for 0 <= z < 2^63 *)
Definition of_int (z : Z) : float :=
  if z <? 0 then PrimFloat.opp (of_uint63 (of_Z (- z))) else of_uint63 (of_Z z).

Definition two52 : float := Z.ldexp 1%float 52.
(** math.Ceil *)
Definition fceil (x : float) : float :=
  if PrimFloat.ltb (PrimFloat.abs x) two52 then
    if PrimFloat.leb 0%float x then
      let t := ((x + two52) - two52)%float in if PrimFloat.ltb t x then (t + 1)%float else t
    else
      let t := ((x - two52) + two52)%float in
      let r := if PrimFloat.ltb t x then (t + 1)%float else t in
      (* Ceil(-0.5) = -0: keep the sign of zero *)
      if PrimFloat.eqb r 0%float then (-0)%float else r
  else x.
(** math.Floor / Trunc (for Modf in Pow, Round) *)
Definition ffloor (x : float) : float := PrimFloat.opp (fceil (PrimFloat.opp x)).
Definition ftrunc (x : float) : float := if PrimFloat.ltb x 0%float then fceil x else ffloor x.

Definition max_float : float := of_bits 0x7FEFFFFFFFFFFFFF.

(** math.Pow(x, i) for i = 0..: Go's algorithm for integral y >= 0 and finite x > 0:
    frexp x, repeated squaring of the mantissa, ldexp.  Special cases used by the code: y = 0 -> 1,
    y = 1 -> x. *)
Fixpoint pow_loop (fuel : nat) (i : Z) (x1 : float) (xe : Z) (a1 : float) (ae : Z) : float * Z :=
  match fuel with
  | O => (a1, ae)
  | S k =>
    if i =? 0 then (a1, ae) else
    let '(a1, ae) := if Z.odd i then ((a1 * x1)%float, ae + xe) else (a1, ae) in
    let x1 := (x1 * x1)%float in
    let xe := 2 * xe in
    let '(x1, xe) := if PrimFloat.ltb x1 0.5%float then ((x1 + x1)%float, xe - 1) else (x1, xe) in
    pow_loop k (Z.shiftr i 1) x1 xe a1 ae
  end.
Definition fpowi (x : float) (n : nat) : float :=
  match n with
  | O => 1%float
  | S O => x
  | _ =>
    let '(m, e) := Z.frexp x in    (* x = m * 2^e, 0.5 <= |m| < 1 *)
    let '(a1, ae) := pow_loop 64 (Z.of_nat n) m e 1%float 0 in
    Z.ldexp a1 ae
  end.

(** gonum scalar.Round(x, 10): [pow := math.Pow(10, 10); intermed := x * pow; if IsInf(intermed) return x;
    if x < 0 { x = Ceil(intermed - 0.5) } else { x = Floor(intermed + 0.5) }; if x == 0 return 0; return x / pow] *)
Definition ten10 : float := 10000000000%float.
Definition fround10 (x : float) : float :=
  if PrimFloat.eqb x 0%float then 0%float else
  let im := (x * ten10)%float in
  if PrimFloat.eqb (PrimFloat.abs im) infinity then x else
  let r := if PrimFloat.ltb x 0%float then fceil (im - 0.5)%float else ffloor (im + 0.5)%float in
  if PrimFloat.eqb r 0%float then 0%float else (r / ten10)%float.

Definition NumF : NumOps := {|
  K := float; k0 := 0%float;
  kadd := PrimFloat.add; ksub := PrimFloat.sub; kmul := PrimFloat.mul; kdiv := PrimFloat.div;
  kopp := PrimFloat.opp; kltb := PrimFloat.ltb; kleb := PrimFloat.leb; keqb := PrimFloat.eqb;
  kofZ := of_int; ksqrt := PrimFloat.sqrt;
  kceilZ := fun x => to_int64 (fceil x); ktruncZ := to_int64;
  kmaxfloat := max_float; kpowi := fpowi; kround10 := fround10;
|}.
