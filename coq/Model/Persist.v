(** Model of Administrator.Save / Load (pkg/flap/administrator.go): what is written for the predictor,
    the correction state and the grounded count, and how a restarted engine rebuilds them.  The float
    <-> 64-bit-pattern casts enter as section variables ([kbits], [kofbits]); FlapParams are gob-encoded
    (an oracle: stored and read back as they are). *)
From Coq Require Import ZArith List Bool.
From Flap Require Import Model.Num Model.Promises Model.Predictor Model.Engine Model.Codec.
Import ListNotations.
Open Scope Z_scope.

Section WithNum.
Context {N : NumOps}.
Variable kbits : K N -> Z.        (* math.Float64bits *)
Variable kofbits : Z -> K N.      (* math.Float64frombits *)

Definition smooth_to_wire (s : smooth N) : wsmooth :=
  (sm_wsize s, (sm_max s, (map kbits (sm_ys s), map kbits (sm_win s)))).
Definition smooth_of_wire (w : wsmooth) : smooth N :=
  let '(ws, (mx, (ys, win))) := w in
  {| sm_wsize := ws; sm_max := mx; sm_ys := map kofbits ys; sm_win := map kofbits win |}.

Definition bestfit_to_wire (b : bestfit N) : wbestfit :=
  (smooth_to_wire (bf_sm b), (kbits (bf_m b), (kbits (bf_c b), bf_pv b))).
Definition bestfit_of_wire (w : wbestfit) : bestfit N :=
  let '(sm, (m, (c, pv))) := w in
  {| bf_sm := smooth_of_wire sm; bf_m := kofbits m; bf_c := kofbits c; bf_pv := pv |}.

Definition polyfit_to_wire (p : polyfit N) : wpolyfit :=
  (smooth_to_wire (pf_sm p), (pf_pv p, (map kbits (pf_consts p), pf_degree p))).
Definition polyfit_of_wire (w : wpolyfit) : polyfit N :=
  let '(sm, (pv, (cs, deg))) := w in
  {| pf_sm := smooth_of_wire sm; pf_pv := pv; pf_consts := map kofbits cs; pf_degree := deg |}.

Definition pc_to_wire (s : pcstate N) : wcorrection :=
  (smooth_to_wire (pc_bac_sm s), (kbits (pc_bac s), (smooth_to_wire (pc_cd_sm s), (kbits (pc_cd s), kbits (pc_bac_per_km s))))).
Definition pc_of_wire (w : wcorrection) : pcstate N :=
  let '(b, (bac, (c, (cd, per)))) := w in
  {| pc_bac_sm := smooth_of_wire b; pc_bac := kofbits bac; pc_cd_sm := smooth_of_wire c; pc_cd := kofbits cd;
     pc_bac_per_km := kofbits per |}.

(** what Save hands to the table: the parameters, the predictor record (only when a predictor is
    installed), the correction record and the grounded count, each as the bytes of its codec *)
Record saved := mkSaved {
  sv_params : params N;
  sv_pred : option bytes;
  sv_pc : bytes;
  sv_grounded : bytes }.

Definition save_admin (a : admin N) : saved :=
  {| sv_params := a_params a;
     sv_pred := match a_pred a with
                | PNone => None
                | PLinear b => Some (enc_bestfit (bestfit_to_wire b))
                | PPoly q => Some (enc_polyfit (polyfit_to_wire q))
                end;
     sv_pc := enc_correction (pc_to_wire (a_pc a));
     sv_grounded := enc_backfill (a_grounded a) |}.

(** Load: parameters first, then a predictor of the configured kind is created and, if that worked,
    overwritten with the stored record; then correction and grounded count.  Records that are missing
    or do not decode leave the freshly created values. *)
Definition load_admin (sv : saved) : admin N :=
  let p := sv_params sv in
  let fresh := create_predictor PNone p in
  let pred :=
      match fresh, sv_pred sv with
      | PLinear b, Some bs => match dec_bestfit bs with
                              | Some (w, _) => let b' := bestfit_of_wire w in
                                               (* From appends to the fresh (empty) slices and overwrites the scalars *)
                                               PLinear b'
                              | None => PLinear b end
      | PPoly q, Some bs => match dec_polyfit bs with
                            | Some (w, _) => PPoly (polyfit_of_wire w)
                            | None => PPoly q end
      | f, _ => f
      end in
  {| a_params := p; a_pred := pred;
     a_pc := match dec_correction (sv_pc sv) with Some (w, _) => pc_of_wire w | None => empty_pc end;
     a_grounded := match dec_backfill (sv_grounded sv) with Some (g, _) => g | None => 0 end |}.

(** closing and reopening the engine *)
Definition restart (e : engine N) : engine N :=
  {| e_admin := load_admin (save_admin (e_admin e)); e_table := e_table e |}.

End WithNum.
