(** C06 — Out-and-back itineraries are split into journeys and closed on the right day.
    Itinerary: outbound legs A ++ [x], return legs B ++ [y] (oldest first).  The hypotheses of the
    property are [out_and_back]: legs of a journey follow each other within the flight interval and
    revisit no airport of that journey, the stay (landing of x to the first return departure) is at
    least the interval, the flights so far fit both trip limits.  Markers on arrival may be anything
    Update is allowed to rewrite (flight / journey end), so the statements apply to every daily update
    during and after the itinerary, not only to a first evaluation.

    Proved for every NumOps instance, every leg count, every time and every parameter set:
    - after an Update at [now] on a history whose open trip is the itinerary, the stored markers are:
      every outbound leg but the last and every return leg but the last unchanged, the last outbound
      leg a journey end, the final leg [final_mark] - i.e. with promises off a trip end exactly when
      [now] is at least the interval after the final landing (or a limit is exceeded), with promises
      on a journey end from that day and a trip end exactly when the trip length is exceeded;
    - while only outbound legs have been reported nothing is marked except the newest leg once the
      interval has passed since it landed.
    The whole calendar is covered by induction over the days ([C06_every_day]): flights reported in
    order and before they depart, one update per day going forward, the trip within its length limit
    while legs are still to come.  After every daily update the history holds exactly [expected]: while
    only outbound legs are reported, those legs (the newest one marked once the interval has passed
    since it landed - which, by the gap hypothesis, can only happen to the last outbound leg); once
    the return has begun, the last outbound leg as a journey end, the return legs, and the newest one
    as [final_mark] says; after the trip has been closed nothing changes any more.
    [C06_only_these_markers] states the first clause of the property for every day. *)
From Coq Require Import ZArith List Bool.
From Flap Require Import Model.Num Model.NumZ Model.TripHistory Proofs.THOrder Proofs.ItineraryP Proofs.ItineraryDaysP.
Import ListNotations.
Open Scope Z_scope.

Theorem C06_update_on_complete_itinerary :
  forall (N : NumOps) (h : hist N) p now A x B y rest,
  out_and_back p A x B y ->
  entries h = rev (itinerary A x B y) ++ rest -> length (entries h) = MaxFlights ->
  (forall f, In f (itinerary A x B y) -> fstart f <> 0 /\ et f <> TEnd) ->
  stop_at rest -> (oc h <= length (itinerary A x B y))%nat -> now mod SecondsInDay = 0 ->
  exists dy fy, update h p now =
    inl ({| entries := final_mark p now (first_start A x) y :: rev B ++ set_et x JEnd :: rev A ++ rest; oc := 0 |}, dy, fy).
Proof. exact @update_out_and_back. Qed.
Print Assumptions C06_update_on_complete_itinerary.

Theorem C06_trip_closed_exactly_when :
  forall (N : NumOps) p now st (y : flight N), et y = Fl \/ et y = JEnd ->
  is_end (final_mark p now st y) =
    if Algo p =? 0 then (FlightInterval p <=? days_between (fend y) now) || (TripLength p <? days_between st now)
    else TripLength p <? days_between st now.
Proof. exact @final_mark_is_end. Qed.
Print Assumptions C06_trip_closed_exactly_when.

Theorem C06_update_while_outbound :
  forall (N : NumOps) (h : hist N) p now A x rest,
  outbound_only p now A x ->
  entries h = rev (A ++ [x]) ++ rest -> length (entries h) = MaxFlights ->
  (forall f, In f (A ++ [x]) -> fstart f <> 0 /\ et f <> TEnd) ->
  stop_at rest -> (oc h <= length (A ++ [x]))%nat -> now mod SecondsInDay = 0 ->
  exists dy fy, update h p now = inl ({| entries := newest_mark p now x :: rev A ++ rest; oc := 0 |}, dy, fy).
Proof. exact @update_outbound. Qed.
Print Assumptions C06_update_while_outbound.

(** the day-by-day statement.  [run h todo days]: each day first reports the next flights of [todo], then
    runs the daily update; [days_ok]: the calendar hypotheses; [Good done todo now h]: [h] holds
    [expected now done] followed by the older flights, is ordered, and has no pending changes *)
Theorem C06_every_day :
  forall (N : NumOps) p (A : list (flight N)) x B y rest0,
  out_and_back p A x B y -> fresh (itinerary A x B y) -> asc_from 1 (itinerary A x B y) ->
  (length (itinerary A x B y) < MaxFlights)%nat -> stop_at rest0 -> length rest0 = MaxFlights ->
  (forall f, In f (itinerary A x B y) -> fstart (getf rest0 0) <= fstart f) ->
  forall days done todo now (h : hist N),
  Good p A x B y rest0 done todo now h -> days_ok p A x done todo now days ->
  let '(done', todo', now') := progress done todo now days in
  Good p A x B y rest0 done' todo' now' (run p h todo days).
Proof. exact @run_good. Qed.
Print Assumptions C06_every_day.

Theorem C06_before_the_first_flight :
  forall (N : NumOps) p (A : list (flight N)) x B y rest0,
  out_and_back p A x B y -> fresh (itinerary A x B y) -> asc_from 1 (itinerary A x B y) ->
  (length (itinerary A x B y) < MaxFlights)%nat -> length rest0 = MaxFlights ->
  (forall f, In f (itinerary A x B y) -> fstart (getf rest0 0) <= fstart f) ->
  forall h0 : hist N, ordered h0 -> entries h0 = rest0 -> oc h0 = 0%nat ->
  Good p A x B y rest0 [] (itinerary A x B y) 0 h0.
Proof. exact @good_start. Qed.
Print Assumptions C06_before_the_first_flight.

Theorem C06_only_these_markers :
  forall (N : NumOps) p (A : list (flight N)) x B y rest0,
  out_and_back p A x B y -> fresh (itinerary A x B y) ->
  forall done todo now (h : hist N),
  Good p A x B y rest0 done todo now h ->
  exists stored, entries h = stored ++ rest_of rest0 done /\ expected p A x B y now done stored /\
    forall f, In f stored ->
      et f = Fl \/ (f = set_et x JEnd) \/ (todo = [] /\ f = final_mark p now (first_start A x) y).
Proof. exact @markers_every_day. Qed.
Print Assumptions C06_only_these_markers.

(** non-vacuity: a 2+2-leg itinerary at realistic epoch seconds meets the hypotheses *)
Definition ex_leg (s e a b : Z) : flight NumZ := mkFlight (N:=NumZ) Fl s e a b 500.
Example C06_hypotheses_hold_somewhere :
  out_and_back {| TripLength := 30; FlightsInTrip := 10; FlightInterval := 2; Algo := 0 |}
    [ex_leg 1580000000 1580010000 1 2] (ex_leg 1580020000 1580030000 2 3)
    [ex_leg 1580400000 1580410000 3 2] (ex_leg 1580420000 1580430000 2 1).
Proof. unfold out_and_back. cbn. repeat split; auto; try discriminate; try (left; reflexivity); try (intros C; discriminate C). Qed.
