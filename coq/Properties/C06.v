(** C06 — Out-and-back itineraries are split into journeys and closed on the right day.
    Itinerary: outbound legs A ++ [x], return legs B ++ [y] (oldest first).  The hypotheses of the
    property are [out_and_back]: legs of a journey follow each other within the flight interval and
    revisit no airport of that journey, the stay (landing of x to the first return departure) is at
    least the interval, the flights so far fit both trip limits.  Markers on arrival may be anything
    Update is allowed to rewrite (flight / journey end), so the statements apply to every daily update
    during and after the itinerary, not only to a first evaluation.

    Proved for every NumOps instance, every leg count, every time and every parameter set:
    - after an Update at [now] on a history whose open trip is the itinerary, the stored markers are:
      every outbound leg but the last and every return leg but the last unchanged, the last outbound
      leg a journey end, the final leg [final_mark] - i.e. with promises off a trip end exactly when
      [now] is at least the interval after the final landing (or a limit is exceeded), with promises
      on a journey end from that day and a trip end exactly when the trip length is exceeded;
    - while only outbound legs have been reported nothing is marked except the newest leg once the
      interval has passed since it landed.
    PARTIAL in one respect: the statements are about one Update on a history of the stated shape
    (which AddFlight of in-order flights and the previous Update produce: C07 theorems and the
    correspondence); the induction over the whole day-by-day sequence of check-ins and updates is
    exercised by the harness (every day of every generated itinerary, model and real code) rather
    than proved. *)
From Coq Require Import ZArith List Bool.
From Flap Require Import Model.Num Model.NumZ Model.TripHistory Proofs.ItineraryP.
Import ListNotations.
Open Scope Z_scope.

Theorem C06_update_on_complete_itinerary :
  forall (N : NumOps) (h : hist N) p now A x B y rest,
  out_and_back p A x B y ->
  entries h = rev (itinerary A x B y) ++ rest -> length (entries h) = MaxFlights ->
  (forall f, In f (itinerary A x B y) -> fstart f <> 0 /\ et f <> TEnd) ->
  stop_at rest -> (oc h <= length (itinerary A x B y))%nat -> now mod SecondsInDay = 0 ->
  exists dy fy, update h p now =
    inl ({| entries := final_mark p now (first_start A x) y :: rev B ++ set_et x JEnd :: rev A ++ rest; oc := 0 |}, dy, fy).
Proof. exact @update_out_and_back. Qed.
Print Assumptions C06_update_on_complete_itinerary.

Theorem C06_trip_closed_exactly_when :
  forall (N : NumOps) p now st (y : flight N), et y = Fl \/ et y = JEnd ->
  is_end (final_mark p now st y) =
    if Algo p =? 0 then (FlightInterval p <=? days_between (fend y) now) || (TripLength p <? days_between st now)
    else TripLength p <? days_between st now.
Proof. exact @final_mark_is_end. Qed.
Print Assumptions C06_trip_closed_exactly_when.

Theorem C06_update_while_outbound :
  forall (N : NumOps) (h : hist N) p now A x rest,
  outbound_only p now A x ->
  entries h = rev (A ++ [x]) ++ rest -> length (entries h) = MaxFlights ->
  (forall f, In f (A ++ [x]) -> fstart f <> 0 /\ et f <> TEnd) ->
  stop_at rest -> (oc h <= length (A ++ [x]))%nat -> now mod SecondsInDay = 0 ->
  exists dy fy, update h p now = inl ({| entries := newest_mark p now x :: rev A ++ rest; oc := 0 |}, dy, fy).
Proof. exact @update_outbound. Qed.
Print Assumptions C06_update_while_outbound.

(** non-vacuity: a 2+2-leg itinerary at realistic epoch seconds meets the hypotheses *)
Definition ex_leg (s e a b : Z) : flight NumZ := mkFlight (N:=NumZ) Fl s e a b 500.
Example C06_hypotheses_hold_somewhere :
  out_and_back {| TripLength := 30; FlightsInTrip := 10; FlightInterval := 2; Algo := 0 |}
    [ex_leg 1580000000 1580010000 1 2] (ex_leg 1580020000 1580030000 2 3)
    [ex_leg 1580400000 1580410000 3 2] (ex_leg 1580420000 1580430000 2 1).
Proof. unfold out_and_back. cbn. repeat split; auto; try discriminate; try (left; reflexivity); try (intros C; discriminate C). Qed.
