(** C14 — A storage failure is never reported as success.
    Statements only; proofs in Proofs/FaultsP.v.  The model is the error-propagation skeleton of the
    operations (Model/Faults.v): each store call consumes the next entry of an ARBITRARY fault
    schedule - not just single or double faults. *)
From Coq Require Import List.
From Flap Require Import Model.Faults Proofs.FaultsP.
Import ListNotations.

Theorem C14_checkin_success_means_record_stored : forall sch i,
  ok (submit_f sch i) = true -> handed (submit_f sch i) = 1.
Proof. exact submit_ok_means_stored. Qed.
Print Assumptions C14_checkin_success_means_record_stored.

Theorem C14_make_success_means_promises_stored : forall sch i current,
  ok (make_f sch i current) = true -> handed (make_f sch i current) = 1.
Proof. exact make_ok_means_stored. Qed.
Print Assumptions C14_make_success_means_promises_stored.

Theorem C14_save_success_means_all_records_stored : forall sch i hp,
  ok (save_f sch i hp) = true -> handed (save_f sch i hp) = if hp then 4 else 3.
Proof. exact save_ok_means_all_stored. Qed.
Print Assumptions C14_save_success_means_all_records_stored.

(** the daily update, any number of workers, prefixes and changed travellers, any fault schedule *)
Theorem C14_update_success_means_every_change_stored : forall sch i ws,
  ok (update_f sch i ws) = true -> handed (update_f sch i ws) = total_changed ws.
Proof. exact update_ok_means_everything_stored. Qed.
Print Assumptions C14_update_success_means_every_change_stored.

Theorem C14_every_write_fault_is_reported : forall sch n i, ok (puts_f sch i n) = positions_ok sch i n.
Proof. exact puts_fault_reported. Qed.
Print Assumptions C14_every_write_fault_is_reported.

(** The read side (with the repair: getCreateTraveller tells "no such record" from a failed read): a
    failed read of the traveller record is reported by a check-in and by Make, and so is a failed
    write after a successful read. *)
Theorem C14_checkin_read_or_write_fault_is_reported : forall sch i,
  sch i = true \/ sch (S i) = true -> ok (submit_f sch i) = false.
Proof. exact checkin_fault_reported. Qed.
Print Assumptions C14_checkin_read_or_write_fault_is_reported.

Theorem C14_make_read_or_write_fault_is_reported : forall sch i current,
  sch i = true \/ sch (S i) = true -> ok (make_f sch i current) = false.
Proof. exact make_fault_reported. Qed.
Print Assumptions C14_make_read_or_write_fault_is_reported.

Example C14_nonvacuous :
  (* two workers, three prefixes, five changed records; a fault at the second worker's flush *)
  let ws := [[2; 0]; [3]] in
  ok (update_f (fun _ => false) 0 ws) = true /\ handed (update_f (fun _ => false) 0 ws) = 5 /\
  ok (update_f (fun n => Nat.eqb n 15) 0 ws) = false /\ handed (update_f (fun n => Nat.eqb n 15) 0 ws) = 2.
Proof. vm_compute. auto. Qed.
