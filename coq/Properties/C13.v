(** C13 — Every persisted record decodes to the value that was encoded.
    Statements only; proofs in Proofs/CodecP.v.  [rt enc dec ok] := for every value satisfying ok and
    every following byte string r, dec (enc v ++ r) = Some (v, r).  The ok predicates say only that
    each field is within the range of its Go type (all 64-bit patterns for floats, all byte contents
    for codes and passports, 0..2^31-1 elements for counted lists). *)
From Coq Require Import ZArith List Lia.
From Flap Require Import Model.Codec Proofs.CodecP.
Import ListNotations.
Open Scope Z_scope.

Theorem C13_flight : rt enc_flight dec_flight ok_flight.                     Proof. exact rt_flight. Qed.
Print Assumptions C13_flight.
Theorem C13_trip_history : rt enc_hist dec_hist ok_hist.                     Proof. exact rt_hist. Qed.
Print Assumptions C13_trip_history.
Theorem C13_promise : rt enc_promise dec_promise ok_promise.                 Proof. exact rt_promise. Qed.
Print Assumptions C13_promise.
Theorem C13_promises : rt enc_promises dec_promises (ok_list ok_promise).    Proof. exact rt_promises. Qed.
Print Assumptions C13_promises.
Theorem C13_transaction : rt enc_tx dec_tx ok_tx.                            Proof. exact rt_tx. Qed.
Print Assumptions C13_transaction.
Theorem C13_transactions : rt enc_txs dec_txs (ok_list ok_tx).               Proof. exact rt_txs. Qed.
Print Assumptions C13_transactions.
Theorem C13_traveller : rt enc_traveller dec_traveller ok_traveller.         Proof. exact rt_traveller. Qed.
Print Assumptions C13_traveller.
Theorem C13_smoothed_window : rt enc_smooth dec_smooth ok_smooth.            Proof. exact rt_smooth. Qed.
Print Assumptions C13_smoothed_window.
(** ... and the hypothesis [ok_smooth] (both window sizes fit a signed 32-bit field) cannot be dropped:
    SetParams accepts MaxPoints up to 2^32-1 and smoothing windows up to 2^63-1 (known finding F18) *)
Theorem C13_smoothed_window_beyond_int32_refuted :
  exists w : wsmooth, dec_smooth (enc_smooth w) <> Some (w, []).
Proof. exists (4294967299, (2147483648, ([], []))). vm_compute. discriminate. Qed.
Print Assumptions C13_smoothed_window_beyond_int32_refuted.
Theorem C13_linear_predictor : rt enc_bestfit dec_bestfit ok_bestfit.        Proof. exact rt_bestfit. Qed.
Print Assumptions C13_linear_predictor.
Theorem C13_polynomial_predictor : rt enc_polyfit dec_polyfit ok_polyfit.    Proof. exact rt_polyfit. Qed.
Print Assumptions C13_polynomial_predictor.
Theorem C13_correction_state : rt enc_correction dec_correction ok_correction.  Proof. exact rt_correction. Qed.
Print Assumptions C13_correction_state.
Theorem C13_grounded_count : rt enc_backfill dec_backfill (U 8).             Proof. exact rt_backfill. Qed.
Print Assumptions C13_grounded_count.
Theorem C13_airport : rt enc_airport dec_airport ok_airport.                 Proof. exact rt_airport. Qed.
Print Assumptions C13_airport.
Theorem C13_journey : rt enc_journey dec_journey ok_journey.                 Proof. exact rt_journey. Qed.
Print Assumptions C13_journey.
Theorem C13_planner_day : rt enc_plannerday dec_plannerday (ok_list ok_journey).  Proof. exact rt_plannerday. Qed.
Print Assumptions C13_planner_day.
Theorem C13_model_state : rt enc_modelstate dec_modelstate ok_modelstate.    Proof. exact rt_modelstate. Qed.
Print Assumptions C13_model_state.

(** The fixed arrays (100 flights, 10 promises, 100 transactions) are written up to the first entry
    whose key (Start / TripStart / Date) is zero and rebuilt into a fresh array: the array comes back
    unchanged when its used entries precede only all-zero entries ... *)
Theorem C13_sentinel_arrays_round_trip : forall (A : Type) (key : A -> Z) (d : A) (arr : list A),
  sentinel_wf key d arr -> refill d (length arr) (cut_at_sentinel key d arr) = arr.
Proof. exact @sentinel_roundtrip. Qed.
Print Assumptions C13_sentinel_arrays_round_trip.

(** ... and in any case what is written is a prefix of the array. *)
Theorem C13_sentinel_arrays_write_a_prefix : forall (A : Type) (key : A -> Z) (d : A) (arr : list A),
  exists n, (n <= length arr)%nat /\ cut_at_sentinel key d arr = firstn n arr.
Proof. exact @sentinel_truncates. Qed.
Print Assumptions C13_sentinel_arrays_write_a_prefix.

(** Non-vacuity: a flight with extreme values (marker -128..127 as int8, 2^64-1 times, NaN-free bit
    patterns incl. negative zero) round-trips, byte for byte. *)
Example C13_nonvacuous :
  let v : wflight := (-3, (2^64 - 1, (1, (0x58414141, (0, 0x8000000000000000))))) in
  ok_flight v /\ length (enc_flight v) = 33%nat /\ dec_flight (enc_flight v ++ [7]) = Some (v, [7]).
Proof. cbn zeta. split; [unfold ok_flight, ok_pair, U, Sg; cbn; lia|]. vm_compute. auto. Qed.
