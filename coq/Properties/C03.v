(** C03 — Daily backfill credits exactly the grounded, with exactly one equal share.
    Statements only; proofs in Proofs/UpdateAllP.v and Proofs/BackfillP.v. *)
From Coq Require Import ZArith List Lia.
From Flap Require Import Model.Num Model.NumZ Model.TripHistory Model.Promises Model.Predictor Model.Engine
  Proofs.TableP Proofs.UpdateAllP Proofs.BackfillP Proofs.EngineInv.
Import ListNotations.
Open Scope Z_scope.

(** [share_of e] = (DailyTotal + correction, cycled, iff that option is on) / max(MinGrounded,
    number credited by the previous update), and 0 when that maximum is 0.
    [credited t p now] = once the trip rules are applied at [now], t is not mid-trip, and its balance
    is negative.  [upd_record] = the stored record after the update. *)

(** In every reachable state (any sequence of operations over any number of days, any population)
    with a permitted thread setting, a daily update at a day start: stores for every traveller exactly
    its own updated record, reports and carries forward as "grounded" the number of travellers it
    credited, and uses the share given by the formula. *)
Theorem C03_update_credits_exactly_the_grounded :
  forall (N : NumOps) (a : admin N) (ops : list (@eng_op N)) now fit,
  Forall op_key_ok ops ->
  let e := fold_left e_apply ops (engine0 a) in
  now mod SecondsInDay = 0 ->
  0 <= pThreads (a_params (e_admin e)) < 256 -> valid_threads (pThreads (a_params (e_admin e))) = true ->
  let p := a_params (e_admin e) in
  let share := share_of e in
  let '(e', ut, r) := update_all e now fit in
  r = None /\
  (forall k, tget (e_table e') k = option_map (upd_record p share now) (tget (e_table e) k)) /\
  us_share ut = share /\
  us_grounded ut = count_grounded p share now (e_table e) /\
  a_grounded (e_admin e') = us_grounded ut /\
  us_travellers ut = count_travelled p share now (e_table e) /\
  us_flights ut = count_flights p share now (e_table e) /\
  a_params (e_admin e') = p.
Proof. exact @reachable_update_spec. Qed.
Print Assumptions C03_update_credits_exactly_the_grounded.

(** Per traveller: credited (one share added to the balance) exactly when [credited]; every other
    balance is unchanged; the update's count counts exactly these. *)
Theorem C03_one_share_iff_grounded : forall (N : NumOps) (t : traveller N) p share now,
  c_grounded (snd (U p share now t)) = credited t p now /\
  t_balance (upd_record p share now t) = (if credited t p now then kadd N (t_balance t) share else t_balance t).
Proof. exact @update_traveller_credit. Qed.
Print Assumptions C03_one_share_iff_grounded.

(** A trip still open once the rules are applied is not credited now, even if this same update then
    closes it by keeping a promise (it is backfilled from the following update). *)
Theorem C03_kept_in_same_update_not_credited : forall (N : NumOps) (t : traveller N) p share now,
  mid_trip (rules_hist t p now) = true -> t_balance (upd_record p share now t) = t_balance t.
Proof. exact @kept_in_same_update_not_credited. Qed.
Print Assumptions C03_kept_in_same_update_not_credited.

(** Non-vacuity (exact instance): three travellers, one grounded, one in credit, one mid-trip;
    MinGrounded 2 > previously credited 0, so the share is DailyTotal / 2; the next day the carried
    count 1 is still below the minimum. *)
Definition p3 : params NumZ := mkParams (N:=NumZ) 2 4 1 9000 2 0 0 0 0 0 0 0 0 4.
Definition hz (s d : Z) : flight NumZ := mkFlight (N:=NumZ) Fl s (s + 100) 1 2 d.
Definition ex3 : list (@eng_op NumZ) :=
  [OSubmit 5 [hz (10 * 86400 + 1) 300] (10 * 86400) true;
   OSubmit (7 + 2^158) [hz (10 * 86400 + 2) 300] (10 * 86400) false;
   OSubmit (9 + 2^159) [hz (13 * 86400 + 2) 300] (13 * 86400) true;
   OUpdate (14 * 86400) []].
Example C03_nonvacuous :
  let e := fold_left e_apply ex3 (engine0 {| a_params := p3; a_pred := PNone; a_pc := empty_pc; a_grounded := 0 |}) in
  Forall op_key_ok ex3 /\
  map (fun k => option_map (@t_balance NumZ) (tget (e_table e) k)) [5; 7 + 2^158; 9 + 2^159] = [Some 4200; Some 0; Some (-300)] /\
  a_grounded (e_admin e) = 1.
Proof. split; [repeat constructor; cbn; lia|]. vm_compute. auto. Qed.
