(** C15 — Accepted parameters are safe to run; rejected ones change nothing.
    Statements only; proofs in Proofs/ParamsP.v (and Proofs/UpdateAllP.v for the worker count).
    PARTIAL: what a Gallina model cannot exhibit - a real goroutine deadlock, a wall-clock hang of
    code that is not modelled - is watched by the harness with a timeout, not proved. *)
From Coq Require Import ZArith List Bool.
From Flap Require Import Model.Num Model.NumZ Model.TripHistory Model.Promises Model.Predictor Model.Engine
  Proofs.UpdateAllP Proofs.ParamsP.
Import ListNotations.
Open Scope Z_scope.

Theorem C15_rejected_iff_outside_limits : forall (N : NumOps) (a : admin N) p,
  (exists e, set_params a p = inr e) <-> valid_params p = false.
Proof. exact @set_params_rejects_iff_invalid. Qed.
Print Assumptions C15_rejected_iff_outside_limits.

Theorem C15_accepted_parameters_are_within_the_documented_limits : forall (N : NumOps) (p : params N),
  valid_params p = true ->
  pFlightsInTrip p * 2 <= Z.of_nat MaxFlights /\
  pFlightInterval p * 2 <= pTripLength p /\
  (pAlgo p <> 0 -> 2 <= pMaxPoints p) /\
  valid_threads (pThreads p) = true.
Proof. exact @valid_params_limits. Qed.
Print Assumptions C15_accepted_parameters_are_within_the_documented_limits.

Theorem C15_accepted_parameters_install_a_usable_predictor : forall (N : NumOps) (a a' : admin N) p,
  set_params a p = inl a' -> pAlgo p <> pAlgo (a_params a) ->
  valid_predictor (a_pred a') = (Z.land (pAlgo p) paMask =? 1) || (Z.land (pAlgo p) paMask =? 2).
Proof. exact @accepted_params_install_a_usable_predictor. Qed.
Print Assumptions C15_accepted_parameters_install_a_usable_predictor.

(** all 256 thread values *)
Theorem C15_thread_values_accepted_exactly : forall th, 0 <= th < 256 ->
  (valid_threads th = true <-> In th [0; 1; 2; 4; 8; 16]).
Proof. exact accepted_threads_exactly. Qed.
Print Assumptions C15_thread_values_accepted_exactly.

Theorem C15_worker_loop_progresses_and_ends : forall th, 0 <= th < 256 -> valid_threads th = true ->
  0 < 16 / (if th =? 0 then 1 else th) /\ snd (last (ranges_of_threads th) (0, 0)) = 15.
Proof. exact accepted_threads_loop_progresses. Qed.
Print Assumptions C15_worker_loop_progresses_and_ends.

Theorem C15_workers_never_exceed_channel_capacity : forall th, 0 <= th < 256 -> valid_threads th = true ->
  (length (ranges_of_threads th) <= Z.to_nat (if (th =? 0)%Z then 1%Z else th))%nat.
Proof. exact valid_threads_workers. Qed.
Print Assumptions C15_workers_never_exceed_channel_capacity.

(** the polynomial predictor's search loop ends (exact arithmetic, positive predicted shares) *)
Theorem C15_polynomial_search_terminates_exact : forall (p : polyfit NumZ) fuel (d sd cd r : Z),
  (forall x, sd <= x -> exists y, pf_predict_y p x = Some y /\ 1 <= y) ->
  sd <= cd -> (1 <= fuel)%nat -> r < Z.of_nat fuel ->
  exists z, pf_predict_loop fuel p d sd cd r = LDone z.
Proof. exact poly_predict_terminates_exact. Qed.
Print Assumptions C15_polynomial_search_terminates_exact.
