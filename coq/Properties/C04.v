(** C04 — The daily update is independent of thread count and scheduling.
    Statements only; proofs in Proofs/UpdateAllP.v, Proofs/TableP.v and Proofs/BackfillP.v.
    What a Gallina model cannot exhibit — a Go memory-model data race — is not claimed here
    (see DESIGN.md 5, C04: partial on data races). *)
From Coq Require Import ZArith List Permutation.
From Flap Require Import Model.Num Model.NumZ Model.TripHistory Model.Promises Model.Predictor Model.Engine
  Proofs.TableP Proofs.UpdateAllP Proofs.BackfillP Proofs.EngineInv.
Import ListNotations.
Open Scope Z_scope.

(** For each of the 256 thread bytes the parameter setter accepts (0 and the powers of two up to 16),
    the worker ranges cut by the code's own loop cover every one of the 16 key-prefix shards exactly
    once ... *)
Theorem C04_worker_ranges_partition_the_shards : forall th s,
  0 <= th < 256 -> valid_threads th = true -> 0 <= s < 16 ->
  range_hits (ranges_of_threads th) s = 1%nat.
Proof. exact valid_threads_partition. Qed.
Print Assumptions C04_worker_ranges_partition_the_shards.

(** ... and there are never more workers than the statistics channel has room for. *)
Theorem C04_workers_fit_the_channel : forall th, 0 <= th < 256 -> valid_threads th = true ->
  (length (ranges_of_threads th) <= Z.to_nat (if (th =? 0)%Z then 1%Z else th))%nat.
Proof. exact valid_threads_workers. Qed.
Print Assumptions C04_workers_fit_the_channel.

(** Every stored traveller is processed exactly once: the workers' slices of the snapshot are a
    permutation of it, for any distribution of keys over the shards (empty and crowded included). *)
Theorem C04_every_traveller_processed_exactly_once : forall (N : NumOps) th (tb : table N),
  0 <= th < 256 -> valid_threads th = true -> keys_ok tb ->
  Permutation (parts (ranges_of_threads th) tb) tb.
Proof. exact @parts_perm. Qed.
Print Assumptions C04_every_traveller_processed_exactly_once.

(** The outcome does not mention the thread setting: stored records, share, integer totals and the
    carried-forward count are functions of the state and the time alone (right-hand sides below). *)
Theorem C04_outcome_independent_of_threads : forall (N : NumOps) (e : engine N) now fit,
  now mod SecondsInDay = 0 ->
  0 <= pThreads (a_params (e_admin e)) < 256 -> valid_threads (pThreads (a_params (e_admin e))) = true ->
  keys_ok (e_table e) ->
  let p := a_params (e_admin e) in
  let share := share_of e in
  let '(e', ut, r) := update_all e now fit in
  r = None /\
  (forall k, tget (e_table e') k = option_map (upd_record p share now) (tget (e_table e) k)) /\
  us_share ut = share /\
  us_grounded ut = count_grounded p share now (e_table e) /\
  a_grounded (e_admin e') = us_grounded ut /\
  us_travellers ut = count_travelled p share now (e_table e) /\
  us_flights ut = count_flights p share now (e_table e) /\
  a_params (e_admin e') = p.
Proof. exact @update_all_spec. Qed.
Print Assumptions C04_outcome_independent_of_threads.

(** ... and the per-traveller step reads the trip parameters only. *)
Theorem C04_traveller_step_ignores_threads : forall (N : NumOps) (t : traveller N) p1 p2 share now,
  th_params p1 = th_params p2 -> update_traveller t p1 share now = update_traveller t p2 share now.
Proof. exact @update_traveller_th_params. Qed.
Print Assumptions C04_traveller_step_ignores_threads.

(** Scheduling: the workers write pairwise distinct keys, so every interleaving of their write lists
    (any permutation of all writes) yields the same table ... *)
Theorem C04_any_interleaving_of_writes : forall (N : NumOps) (ws ws' tb : table N) k,
  NoDup (map fst ws) -> Permutation ws ws' -> tget (put_all ws' tb) k = tget (put_all ws tb) k.
Proof. exact @put_all_perm. Qed.
Print Assumptions C04_any_interleaving_of_writes.

(** ... and the integer totals are the same for every arrival order of the workers' statistics. *)
Theorem C04_any_arrival_order_of_statistics : forall (N : NumOps) (rs rs' : list (table N * ustats N)),
  Permutation rs rs' -> forall ut : ustats N,
  let a := fold_left (fun ut wr => merge_stats ut (snd wr)) rs ut in
  let b := fold_left (fun ut wr => merge_stats ut (snd wr)) rs' ut in
  us_grounded a = us_grounded b /\ us_travellers a = us_travellers b /\ us_flights a = us_flights b /\
  us_share a = us_share b.
Proof. exact @merge_int_perm. Qed.
Print Assumptions C04_any_arrival_order_of_statistics.

(** The distance total (with the repair: per-prefix totals, each taken from the one worker that owns the
    prefix and added in prefix order): for every accepted thread setting the daily update reports
    [distance_total] of the snapshot - an expression in which the thread setting does not occur - with
    no assumption on the arithmetic beyond 0 == 0 (true of float64); two parameter sets that differ in
    the thread setting only therefore report bit-identical totals. *)
Theorem C04_distance_total_for_every_thread_setting : forall (N : NumOps) (e : engine N) now fit,
  now mod SecondsInDay = 0 ->
  0 <= pThreads (a_params (e_admin e)) < 256 -> valid_threads (pThreads (a_params (e_admin e))) = true ->
  keys_ok (e_table e) -> keqb N (k0 N) (k0 N) = true ->
  us_distance (snd (fst (update_all e now fit))) =
  distance_total (a_params (e_admin e)) (share_of e) now (e_table e).
Proof. exact @update_all_distance. Qed.
Print Assumptions C04_distance_total_for_every_thread_setting.

Theorem C04_distance_total_ignores_the_thread_setting : forall (N : NumOps) (p1 p2 : params N) share now (tb : table N),
  th_params p1 = th_params p2 -> distance_total p1 share now tb = distance_total p2 share now tb.
Proof. exact @distance_total_ignores_threads. Qed.
Print Assumptions C04_distance_total_ignores_the_thread_setting.

(** Non-vacuity: the six permitted settings and what they cut. *)
Example C04_nonvacuous :
  map ranges_of_threads [0; 1; 2; 4; 16] =
  [[(0,15)]; [(0,15)]; [(0,7);(8,15)]; [(0,3);(4,7);(8,11);(12,15)];
   [(0,0);(1,1);(2,2);(3,3);(4,4);(5,5);(6,6);(7,7);(8,8);(9,9);(10,10);(11,11);(12,12);(13,13);(14,14);(15,15)]] /\
  map valid_threads [0; 1; 2; 3; 4; 8; 16; 17; 32] = [true; true; true; false; true; true; true; false; false].
Proof. vm_compute. auto. Qed.
