(** C19 — Weighted random choice is exactly proportional to the weights.
    Statements only; proofs live in Proofs/WeightsP.v. *)
From Coq Require Import ZArith List.
From Flap Require Import Model.Weights Proofs.WeightsP.
Import ListNotations.
Open Scope Z_scope.

(** Entry i is selected by exactly w_i of the [total ws] equally likely draws, for every
    vector of non-negative weights of any length and every entry. *)
Theorem C19_exactly_proportional : forall ws i, nonneg ws -> (i < length ws)%nat ->
  Z.of_nat (length (filter (chosen ws i) (zrange (total ws)))) = nth i ws 0.
Proof. exact choose_count. Qed.
Print Assumptions C19_exactly_proportional.

(** Which draw selects which entry: the half-open interval of cumulative weights. *)
Theorem C19_draw_characterised : forall ws r i, nonneg ws -> 0 <= r < total ws ->
  (choose (of_weights ws) r = ChIndex (Z.of_nat i) <->
   (i < length ws)%nat /\ cum ws i <= r < cum ws (S i)).
Proof. exact choose_spec. Qed.
Print Assumptions C19_draw_characterised.

Theorem C19_zero_weight_never_chosen : forall ws i r, nonneg ws -> (i < length ws)%nat ->
  nth i ws 0 = 0 -> 0 <= r < total ws -> choose (of_weights ws) r <> ChIndex (Z.of_nat i).
Proof. exact zero_weight_never_chosen. Qed.
Print Assumptions C19_zero_weight_never_chosen.

Theorem C19_positive_weight_reachable : forall ws i, nonneg ws -> (i < length ws)%nat ->
  0 < nth i ws 0 -> exists r, 0 <= r < total ws /\ choose (of_weights ws) r = ChIndex (Z.of_nat i).
Proof. exact positive_weight_reachable. Qed.
Print Assumptions C19_positive_weight_reachable.

Theorem C19_every_draw_selects_an_entry : forall ws r, nonneg ws -> 0 <= r < total ws ->
  exists i, (i < length ws)%nat /\ choose (of_weights ws) r = ChIndex (Z.of_nat i).
Proof. exact choose_total. Qed.
Print Assumptions C19_every_draw_selects_an_entry.

(** Looking up a value beyond the total weight fails. *)
Theorem C19_lookup_beyond_total_fails : forall ws v, nonneg ws -> total ws < v ->
  find (of_weights ws) v = None.
Proof. exact find_beyond_top. Qed.
Print Assumptions C19_lookup_beyond_total_fails.

(** Where the simulation makes the choice (CountriesAirportsRoutes.chooseTrip): the departure airport is drawn with
    the total of its route weights as its weight, then the route with its own weight.  Airport a is selected by
    exactly [total (routes of a)] of the first draws and route j of it by exactly its weight of the second draws:
    a route is flown with probability (its weight) / (sum of all route weights of the country), exactly. *)
Theorem C19_trip_choice_exactly_proportional : forall aws a j,
  Forall nonneg aws -> (a < length aws)%nat -> (j < length (nth a aws []))%nat ->
  Z.of_nat (length (filter (chosen (airport_weights aws) a) (zrange (total (airport_weights aws))))) = total (nth a aws []) /\
  Z.of_nat (length (filter (chosen (nth a aws []) j) (zrange (total (nth a aws []))))) = nth j (nth a aws []) 0.
Proof. exact trip_choice_count. Qed.
Print Assumptions C19_trip_choice_exactly_proportional.

Example C19_trip_choice_nonvacuous :
  Forall nonneg [[3; 0; 4]; []; [0; 10]] /\ airport_weights [[3; 0; 4]; []; [0; 10]] = [7; 0; 10] /\
  Z.of_nat (length (filter (chosen (airport_weights [[3; 0; 4]; []; [0; 10]]) 0) (zrange 17))) = 7 /\
  Z.of_nat (length (filter (chosen [3; 0; 4] 2) (zrange 7))) = 4.
Proof. split; [repeat constructor; discriminate|]. repeat split; vm_compute; reflexivity. Qed.

(** Non-vacuity: a concrete vector with zero and unit weights meets the hypotheses and the
    counts come out as stated. *)
Example C19_nonvacuous :
  nonneg [0; 1; 5; 0; 1] /\ total [0; 1; 5; 0; 1] = 7 /\
  map (fun i => Z.of_nat (length (filter (chosen [0; 1; 5; 0; 1] i) (zrange 7)))) [0;1;2;3;4]%nat
  = [0; 1; 5; 0; 1].
Proof. split; [repeat constructor; discriminate|]. split; vm_compute; reflexivity. Qed.
