(** C07 — The flight history is ordered, bounded and never corrupts reported flights.
    Statements only (every NumOps instance, i.e. also the bit-exact float model that is compared
    with the code); proofs in Proofs/THBasics.v and Proofs/THOrder.v. *)
From Coq Require Import ZArith List.
From Flap Require Import Model.Num Model.NumZ Model.TripHistory Proofs.THBasics Proofs.THOrder.
Import ListNotations.
Open Scope Z_scope.

(** Every history reachable by any sequence of add (non-negative start), remove, update, close and
    reopen holds exactly 100 slots, lists flights newest first and has no negative times. *)
Theorem C07_reachable_histories_are_ordered : forall (N : NumOps) (ops : list (@thop N)),
  Forall op_ok ops -> ordered (fold_left apply_op ops empty_hist).
Proof. exact @reachable_ordered. Qed.
Print Assumptions C07_reachable_histories_are_ordered.

(** ... hence without gaps: once a slot is empty (Start = 0) all later slots are empty. *)
Theorem C07_no_gaps : forall (N : NumOps) (h : hist N), ordered h ->
  forall i j, (i <= j)%nat -> (j < MaxFlights)%nat ->
  fstart (getf (entries h) i) = 0 -> fstart (getf (entries h) j) = 0.
Proof. exact @ordered_no_gaps. Qed.
Print Assumptions C07_no_gaps.

(** AddFlight is "insert before the first flight that does not start later, keep the newest 100";
    it refuses exactly a flight that starts before all 100 stored ones. *)
Theorem C07_add_is_sorted_insert_keep_100 : forall (N : NumOps) (h : hist N) f, ordered h ->
  match add_flight h f with
  | inl h' => entries h' = firstn MaxFlights (insert_desc f (entries h)) /\
              (first_le (fstart f) (entries h) < MaxFlights)%nat
  | inr e => e = EFlightTooOld /\ (forall g, In g (entries h) -> fstart f < fstart g)
  end.
Proof. exact @add_flight_refines. Qed.
Print Assumptions C07_add_is_sorted_insert_keep_100.

(** A daily update changes markers only: airports, times and distances of all 100 slots are untouched. *)
Theorem C07_update_changes_only_markers : forall (N : NumOps) (h : hist N) p now h' dy fy,
  length (entries h) = MaxFlights -> update h p now = inl (h', dy, fy) ->
  map erase (entries h') = map erase (entries h).
Proof. exact @update_keeps_flight_data. Qed.
Print Assumptions C07_update_changes_only_markers.

(** ... and never the marker of a trip the traveller closed. *)
Theorem C07_update_keeps_traveller_trip_end : forall (N : NumOps) (h : hist N) p now h' dy fy i,
  length (entries h) = MaxFlights -> update h p now = inl (h', dy, fy) ->
  et (getf (entries h) i) = TTEnd -> et (getf (entries h') i) = TTEnd.
Proof. exact @update_keeps_traveller_trip_end. Qed.
Print Assumptions C07_update_keeps_traveller_trip_end.

Theorem C07_close_changes_only_markers : forall (N : NumOps) (h h' : hist N),
  end_trip_op h = inl h' -> map erase (entries h') = map erase (entries h).
Proof. exact @end_trip_op_data. Qed.
Print Assumptions C07_close_changes_only_markers.

Theorem C07_reopen_changes_only_markers : forall (N : NumOps) (h h' : hist N),
  reopen_trip_op h = inl h' -> map erase (entries h') = map erase (entries h).
Proof. exact @reopen_trip_op_data. Qed.
Print Assumptions C07_reopen_changes_only_markers.

(** Removing a flight that was just added to a history that was not full restores the list
    (flight_eqb f f holds for every flight whose distance is not NaN). *)
Theorem C07_remove_after_add_restores : forall (N : NumOps) (h : hist N) f, ordered h ->
  getf (entries h) (MaxFlights - 1) = empty_flight -> 0 <= fstart f -> flight_eqb f f = true ->
  exists h1 h2, add_flight h f = inl h1 /\ remove_flight h1 f = inl h2 /\ entries h2 = entries h.
Proof. exact @remove_after_add_restores. Qed.
Print Assumptions C07_remove_after_add_restores.

(** Non-vacuity: a concrete reachable history with out-of-order and tied adds and an update. *)
Definition exf (s : Z) (d : Z) : flight NumZ := mkFlight (N:=NumZ) Fl s (s + 3600) 1 2 d.
Definition ex_ops : list (@thop NumZ) :=
  [OAdd (exf 1000 5); OAdd (exf 3000 7); OAdd (exf 2000 9); OAdd (exf 3000 11);
   OUpdate {| TripLength := 3; FlightsInTrip := 2; FlightInterval := 1; Algo := 0 |} 86400; OEnd].
Example C07_nonvacuous :
  Forall op_ok ex_ops /\
  map fstart (firstn 5 (entries (fold_left apply_op ex_ops empty_hist))) = [3000; 3000; 2000; 1000; 0] /\
  map fdist (firstn 5 (entries (fold_left apply_op ex_ops empty_hist))) = [11; 7; 9; 5; 0] /\
  map et (firstn 5 (entries (fold_left apply_op ex_ops empty_hist))) = [TTEnd; Fl; TEnd; Fl; Fl].
Proof. split; [repeat constructor; cbn; discriminate|]. vm_compute. auto. Qed.
