(** C17 — Every accepted flight is reported exactly once in the daily statistics.
    Statements only; proofs in Proofs/THStats.v and Proofs/UpdateAllP.v.
    One arithmetic fact about the number type is used: [zero_not_positive], "0 > 0 is false"
    (true of float64 and of exact numbers); everything else holds for every NumOps. *)
From Coq Require Import ZArith List Lia.
From Flap Require Import Model.Num Model.NumZ Model.TripHistory Model.Promises Model.Predictor Model.Engine
  Proofs.THOrder Proofs.THStats Proofs.UpdateAllP.
Import ListNotations.
Open Scope Z_scope.

(** What one update reports for one traveller, unconditionally: the "departed in the preceding 24
    hours" statistics of the re-evaluated part of the history, oldest first, leaving out the older
    flights on which the traveller closed a trip. *)
Theorem C17_update_reports_window_statistics : forall (N : NumOps) (h : hist N) p now h' dy fy,
  length (entries h) = MaxFlights -> update h p now = inl (h', dy, fy) ->
  let k := S (Z.to_nat (window_start h)) in
  (dy, fy) = stats_list now (filter counted (rev (tl (firstn k (entries h)))) ++ [getf (entries h) 0]) (k0 N, 0).
Proof. exact @update_stats_spec. Qed.
Print Assumptions C17_update_reports_window_statistics.

(** With the update run at every day start and flights checked in on the day they depart - so that at
    the update the preceding day's flights all lie below oldestChange - and no trip closed by the
    traveller on an older one of them, the update reports exactly the flights that departed in the
    preceding 24 hours: their number (positive distances) and their distances added oldest first.
    Flights departing at exactly midnight or one second before it fall on the right side by the
    definition of [departed_yesterday]. *)
Theorem C17_daily_update_counts_exactly_yesterdays_flights :
  forall (N : NumOps), kltb N (k0 N) (k0 N) = false ->
  forall (h : hist N) p now h' dy fy,
  ordered h -> (oc h < MaxFlights)%nat -> SecondsInDay < now ->
  (since (now - SecondsInDay) (entries h) <= oc h)%nat ->
  (forall i, (1 <= i < since (now - SecondsInDay) (entries h))%nat -> et (getf (entries h) i) <> TTEnd) ->
  update h p now = inl (h', dy, fy) ->
  (dy, fy) = expected_stats now (rev (entries h)).
Proof. exact @daily_update_counts. Qed.
Print Assumptions C17_daily_update_counts_exactly_yesterdays_flights.

(** The premise maintains itself: checking in a flight of the current day keeps the day's flights
    below oldestChange (a successful update resets oldestChange to 0, see C05). *)
Theorem C17_checkin_keeps_the_days_flights_below_oldest_change :
  forall (N : NumOps) (h h1 : hist N) (f : flight N) T,
  ordered h -> T <= fstart f -> (since T (entries h) <= oc h)%nat -> (oc h < MaxFlights - 1)%nat ->
  add_flight h f = inl h1 -> (since T (entries h1) <= oc h1)%nat.
Proof. exact @checkin_keeps_discipline. Qed.
Print Assumptions C17_checkin_keeps_the_days_flights_below_oldest_change.

(** Exactly once: a flight counts at one and only one day start. *)
Theorem C17_a_flight_counts_at_only_one_day_start : forall (N : NumOps) (f : flight N) d1 d2,
  d1 mod SecondsInDay = 0 -> d2 mod SecondsInDay = 0 ->
  departed_yesterday d1 f = true -> departed_yesterday d2 f = true -> d1 = d2.
Proof. exact @departed_yesterday_unique. Qed.
Print Assumptions C17_a_flight_counts_at_only_one_day_start.

Theorem C17_a_flight_counts_at_the_next_day_start : forall (N : NumOps) (f : flight N), 0 <= fstart f ->
  departed_yesterday ((fstart f / SecondsInDay + 1) * SecondsInDay) f = true.
Proof. exact @departed_yesterday_exists. Qed.
Print Assumptions C17_a_flight_counts_at_the_next_day_start.

(** The reported totals are the sums over the stored travellers, each visited once (any permitted
    thread setting): traveller count = number of travellers with a positive distance yesterday,
    flight count = sum of their flight counts. *)
Theorem C17_totals_are_sums_over_travellers : forall (N : NumOps) (e : engine N) now fit,
  now mod SecondsInDay = 0 ->
  0 <= pThreads (a_params (e_admin e)) < 256 -> valid_threads (pThreads (a_params (e_admin e))) = true ->
  keys_ok (e_table e) ->
  let p := a_params (e_admin e) in
  let share := share_of e in
  let '(e', ut, r) := update_all e now fit in
  r = None /\
  (forall k, tget (e_table e') k = option_map (upd_record p share now) (tget (e_table e) k)) /\
  us_share ut = share /\
  us_grounded ut = count_grounded p share now (e_table e) /\
  a_grounded (e_admin e') = us_grounded ut /\
  us_travellers ut = count_travelled p share now (e_table e) /\
  us_flights ut = count_flights p share now (e_table e) /\
  a_params (e_admin e') = p.
Proof. exact @update_all_spec. Qed.
Print Assumptions C17_totals_are_sums_over_travellers.

(** Observation (outside the property's quantifier, which has no traveller-initiated closes): when the
    traveller closes the trip on a flight and then flies again before the next update, the first
    flight is left out - the excluded case of the theorem above is really excluded. *)
Definition kz (s d : Z) : flight NumZ := mkFlight (N:=NumZ) Fl s (s + 100) 1 2 d.
Definition p17 : thparams := {| TripLength := 365; FlightsInTrip := 50; FlightInterval := 2; Algo := 0 |}.
Lemma C17_traveller_close_between_flights_observation :
  let h1 := fold_left apply_op [OAdd (kz (10 * 86400 + 5) 300); OEnd; OAdd (kz (10 * 86400 + 900) 200)] empty_hist in
  match update h1 p17 (11 * 86400) with
  | inl (_, dy, fy) => dy = 200 /\ fy = 1
  | inr _ => False
  end.
Proof. vm_compute. auto. Qed.
Print Assumptions C17_traveller_close_between_flights_observation.

(** Non-vacuity: three flights on one day (one at midnight, one a second before the next midnight)
    and one the day before. *)
Example C17_nonvacuous :
  let h1 := fold_left apply_op [OAdd (kz (9 * 86400 + 5) 70); OUpdate p17 (10 * 86400);
                                OAdd (kz (10 * 86400) 300); OAdd (kz (10 * 86400 + 900) 200);
                                OAdd (kz (11 * 86400 - 1) 100)] empty_hist in
  (since (10 * 86400) (entries h1) <= oc h1)%nat /\
  match update h1 p17 (11 * 86400) with
  | inl (_, dy, fy) => dy = 600 /\ fy = 3 /\ (dy, fy) = expected_stats (11 * 86400) (rev (entries h1))
  | inr _ => False
  end.
Proof. vm_compute. split; [lia|auto]. Qed.
