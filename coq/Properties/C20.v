(** C20 — Simulated travellers with promises are never refused; documented configs run.
    PARTIAL (what is partial is named at the end of this comment).  Proved here, for every NumOps
    instance (bit-exact float64 included), every balance, every share and every parameter set:
    (a) WHOLE HISTORIES ([C20_bot_history_every_checkin_accepted]): for one traveller, any number of
        plannings (Propose + Make), check-ins and daily updates in any interleaving, starting from no
        record at all: if the history follows the traveller-bot's discipline ([conforms]: time does not
        run backwards; flights are reported in time order; a departure is for a promised trip not yet
        flown, at or after its promised start; planning happens no later than the start of the day of
        any promised trip not yet flown and the new trip starts after the last one flown; the trip
        rules do not close a trip by themselves, i.e. trips are closed by keeping their promise;
        every accepted proposal has positive clearance dates - which holds whenever the predictor
        answers day numbers in range) then EVERY check-in is accepted - no check-in for a
        promised trip or its return is refused, whatever the debt.  The invariant behind it: between
        trips the kept promise covers the traveller - its entry is in the book with a clearance date
        that is the stored one or has been brought forward to the day a not-yet-flown trip starts, or
        it has left the book only after its clearance date passed (the repaired room rule).
        [C20_checked_history_every_checkin_accepted] is the runnable form: the discipline is decidable
        ([conformsb], no side condition left), and the boolean check evaluated by the kernel on a
        concrete history implies acceptance;
        [C20_engine_history_every_checkin_accepted] lifts it to the engine: any number of travellers,
        SubmitFlights / Propose+Make / UpdateTripsAndBackfill (any thread setting) / SetParams in any
        interleaving from an empty table, each traveller's part of the history following the discipline;
    (b) the steps of that argument as separate theorems (kept from earlier rounds);
    (c) the trial period: in every state reachable without a debiting check-in every balance is zero,
        no check-in of any number of flights is refused as grounded, and the daily update credits nobody.
    The update clause of the discipline is discharged for the shapes the bot's trip histories take
    ([C20_bot_trip_shapes_follow_the_update_discipline], from the C06 characterisation of Update).
    (d) THE SIMULATION'S BOT ([C20_simulated_bot_follows_the_discipline], [C20_simulated_bot_is_never_refused]):
        the day loop of one traveller-bot as pkg/model runs it (Model/Bot.v: the daily update, then
        promisesPlanner - the days prepareWeights offers, the two planned flights of whenWillWeFly,
        Propose and Make -, then journeyPlanner.submitFlights - one check-in per planned journey at the
        flight's start, the return planned for trip-length days later when the outbound is accepted)
        produces, for ANY number of days, any dice, any chosen days among those offered, any departure
        seconds, any predictor with in-range answers, any balances/shares/parameters, a history that
        follows the discipline - so every check-in of the simulation is accepted.  Hypotheses on the
        configuration: trip lengths with FlightInterval <= length - 1 and length + 1 <= TripLength, more
        than two flights per trip, promises on, and route distances that are positive numbers
        ([route_ok]; true of every positive finite float64 pair).  The days offered are characterised
        exactly ([C20_planner_offers_exactly_the_free_days]).
    (e) THE WHOLE POPULATION ON ONE ENGINE ([C20_simulated_population_follows_the_discipline],
        [C20_simulated_population_is_never_refused], Model/Sim.v, Proofs/SimP.v): one day of Engine.modelDay
        for any number of traveller-bots sharing one flap engine - the daily update of all records (any
        accepted thread setting), every planning call of every planning thread in whatever order they ran
        (Propose + Make on the engine, the promised distance as Engine.Propose computes it from the planned
        flights, taxi overhead and promise-distance correction), the day's check-ins of every bot in the
        journey planner's order (the correction accumulators change between them), the parameters stored
        for the next day - iterated over any number of days, is an engine history that follows the
        discipline, so EVERY check-in of the simulated population is accepted.  The hypotheses are decided
        by computation along the run ([C20_checked_population_is_never_refused]; the predictor enters only
        through the clause "an issued proposal has positive clearance dates", checked on the proposal).
        [C20_planning_threads_visit_every_bot_once]: doPlanTrips' stride loop gives every bot of a band to
        exactly one of the planning threads, exactly once, for any positive number of threads.
    NOT proved: that the Go code of Engine.modelDay / planTrips / submitFlights IS Model/Sim.v (read off
    the code; the harness drives the REAL promisesPlanner and journeyPlanner functions through hooks in
    this order and compares every step with Model/Bot.v and the engine model), Go-level races between
    planning threads, and anything about the rest of the 1000-line simulation driver (configuration
    handling, reporting, files).  Exercised on every run: protocol histories on the real flap.Engine, the real
    planner code on a real engine, and the real Build/Run in child processes over generated worlds. *)
From Coq Require Import ZArith List Bool.
From Coq Require Import Lia.
From Coq Require Import Sorting.Sorted.
From Coq Require Import Floats.
From Flap Require Import Model.Num Model.NumF Model.NumZ Model.TripHistory Model.Promises Model.Predictor Model.Engine Model.Bot Model.Sim Proofs.BotPlanP Proofs.BotDayP Proofs.BotBookP Proofs.SimP
  Proofs.PromisesP Proofs.PromisesFrameP Proofs.ClearedP Proofs.EngineInv Proofs.UpdateAllP Proofs.ProtocolP Proofs.TrialP
  Proofs.TableP Proofs.ItineraryP Proofs.HistoryP Proofs.HistoryEngineP Proofs.BotShapeP.
Import ListNotations.
Open Scope Z_scope.

Theorem C20_next_promised_trip_not_refused : forall (N : NumOps) mx (t : traveller N) j now,
  Inv mx (t_book t) -> (S j < MaxPromises)%nat ->
  p_ts (t_kept t) = p_ts (getp (t_book t) (S j)) -> p_te (t_kept t) = p_te (getp (t_book t) (S j)) ->
  keqb N (p_dist (getp (t_book t) (S j))) (p_dist (t_kept t)) = true ->
  p_ts (t_kept t) <> 0 -> p_clear (t_kept t) <> 0 -> 0 < p_clear (getp (t_book t) (S j)) ->
  p_ts (getp (t_book t) j) <= now ->
  ~ grounded t now.
Proof. exact @next_promised_trip_not_grounded. Qed.
Print Assumptions C20_next_promised_trip_not_refused.

Theorem C20_any_later_promised_trip_not_refused : forall (N : NumOps) mx (t : traveller N) k i now,
  Inv mx (t_book t) -> (k < MaxPromises)%nat -> (i < k)%nat ->
  p_ts (t_kept t) = p_ts (getp (t_book t) k) -> p_te (t_kept t) = p_te (getp (t_book t) k) ->
  keqb N (p_dist (getp (t_book t) k)) (p_dist (t_kept t)) = true ->
  p_ts (t_kept t) <> 0 -> p_clear (t_kept t) <> 0 -> 0 < p_clear (getp (t_book t) k) ->
  p_ts (getp (t_book t) i) <= now ->
  ~ grounded t now.
Proof. exact @later_promised_trip_not_grounded. Qed.
Print Assumptions C20_any_later_promised_trip_not_refused.

Theorem C20_plan_keeps_pending_promise_cleared_in_time :
  forall (N : NumOps) mx (b : book N) ts te d tr now (pr : predictor N) pp k,
  1 <= mx -> 0 <= now -> te < tmax -> Inv mx b -> propose b ts te d tr now pr mx = inl pp ->
  (k < MaxPromises)%nat -> p_ts (getp b k) <> 0 -> now <= p_clear (getp b k) ->
  exists k', (k' < MaxPromises)%nat /\ core (getp (pp_entries pp) k') = core (getp b k) /\
    forall i, (i < k')%nat -> p_clear (getp (pp_entries pp) k') <= p_ts (getp (pp_entries pp) i).
Proof. exact @plan_keeps_pending_promise_cleared_in_time. Qed.
Print Assumptions C20_plan_keeps_pending_promise_cleared_in_time.

Theorem C20_refused_exactly_when_grounded : forall (N : NumOps) (t : traveller N) f now taxi debit,
  submit_flight t f now taxi debit = inr EGrounded <-> grounded t now.
Proof. exact @submit_flight_grounded_iff. Qed.
Print Assumptions C20_refused_exactly_when_grounded.

Theorem C20_pending_promise_not_dropped : forall (N : NumOps) mx (b : book N) ts te d tr now (pr : predictor N) pp j,
  1 <= mx -> 0 <= now -> te < tmax -> Inv mx b -> propose b ts te d tr now pr mx = inl pp ->
  (j < MaxPromises)%nat -> p_ts (getp b j) <> 0 -> now <= p_clear (getp b j) ->
  exists j', (j' < MaxPromises)%nat /\ core (getp (pp_entries pp) j') = core (getp b j).
Proof. exact @pending_promise_not_dropped. Qed.
Print Assumptions C20_pending_promise_not_dropped.

Theorem C20_departed_kept_promise_not_refused : forall (N : NumOps) (t : traveller N) now,
  match_promise (t_book t) (t_kept t) = None -> 0 < p_clear (t_kept t) <= now -> ~ grounded t now.
Proof. exact @departed_kept_promise_not_grounded. Qed.
Print Assumptions C20_departed_kept_promise_not_refused.

Theorem C20_return_leg_not_refused : forall (N : NumOps) (t : traveller N) now,
  mid_trip (t_hist t) = true -> ~ grounded t now.
Proof. exact @mid_trip_not_grounded. Qed.
Print Assumptions C20_return_leg_not_refused.

Theorem C20_trial_balances_stay_zero : forall (N : NumOps),
  kltb N (k0 N) (k0 N) = false ->
  forall (a : admin N) (ops : list (@eng_op N)) k t,
  Forall nondebit ops -> tget (e_table (fold_left e_apply ops (engine0 a))) k = Some t -> t_balance t = k0 N.
Proof. exact @trial_balances_stay_zero. Qed.
Print Assumptions C20_trial_balances_stay_zero.

Theorem C20_trial_checkin_never_refused : forall (N : NumOps),
  kltb N (k0 N) (k0 N) = false -> kleb N (k0 N) (k0 N) = true ->
  forall (a : admin N) (ops : list (@eng_op N)) k fs now,
  Forall nondebit ops ->
  snd (submit_flights (fold_left e_apply ops (engine0 a)) k fs now false) <> Some EGrounded.
Proof. exact @trial_checkin_never_grounded. Qed.
Print Assumptions C20_trial_checkin_never_refused.

Theorem C20_trial_update_credits_nobody : forall (N : NumOps),
  kltb N (k0 N) (k0 N) = false ->
  forall (p : params N) share now (tb : table N),
  TZb tb -> count_grounded p share now tb = 0.
Proof. exact @trial_update_credits_nobody. Qed.
Print Assumptions C20_trial_update_credits_nobody.

(** ---- whole histories ---- *)
Theorem C20_bot_history_every_checkin_accepted : forall (N : NumOps) mx, 1 <= mx ->
  forall (evs : list (@ev N)) clk now,
  conforming mx clk (new_traveller now) evs -> all_accepted mx (new_traveller now) evs.
Proof. exact @bot_history_never_refused. Qed.
Print Assumptions C20_bot_history_every_checkin_accepted.

(** from any state that satisfies the invariant (not only a new traveller) *)
Theorem C20_conforming_history_every_checkin_accepted : forall (N : NumOps) mx, 1 <= mx ->
  forall (evs : list (@ev N)) clk (t : traveller N),
  J mx clk t -> conforming mx clk t evs -> all_accepted mx t evs.
Proof. exact @conforming_history_all_accepted. Qed.
Print Assumptions C20_conforming_history_every_checkin_accepted.

(** each step keeps the invariant and accepts the check-in *)
Theorem C20_step_keeps_invariant : forall (N : NumOps) mx, 1 <= mx ->
  forall clk (t : traveller N) e,
  J mx clk t -> conforms mx clk t e -> accepted t e /\ J mx (ev_time e) (apply_ev mx t e).
Proof. exact @step_J. Qed.
Print Assumptions C20_step_keeps_invariant.

(** runnable form: the discipline decided by computation *)
Theorem C20_checked_history_every_checkin_accepted : forall (N : NumOps) mx, 1 <= mx ->
  forall (evs : list (@ev N)) clk now,
  conformingb mx clk (new_traveller now) evs = true -> all_acceptedb mx (new_traveller now) evs = true.
Proof. exact @checked_history_all_accepted. Qed.
Print Assumptions C20_checked_history_every_checkin_accepted.

(** ---- whole histories of the engine: any number of travellers ---- *)
Theorem C20_engine_history_every_checkin_accepted : forall (N : NumOps) mx, 1 <= mx ->
  forall (xs : list (@xev N)) (c : clock) (a : admin N),
  x_conforming mx c {| e_admin := a; e_table := [] |} xs ->
  x_all_accepted {| e_admin := a; e_table := [] |} xs.
Proof. exact @fresh_engine_history_all_accepted. Qed.
Print Assumptions C20_engine_history_every_checkin_accepted.

(** [c] gives every traveller a clock of their own (the time of the last operation on their record):
    check-ins of different travellers on the same day are not ordered in time *)
Theorem C20_engine_step_keeps_invariant : forall (N : NumOps) mx, 1 <= mx ->
  forall (c : clock) (e : engine N) x,
  EJ mx c e -> x_conforms mx c e x -> x_accepted e x /\ EJ mx (x_clock c e x) (x_apply e x).
Proof. exact @x_step. Qed.
Print Assumptions C20_engine_step_keeps_invariant.

(** the update clause of the discipline follows from the shape of the bot's trip histories: no flights
    yet / between trips / outbound flown / outbound and return flown, with promises on, the return at
    least FlightInterval days after the outbound landed, the trip within TripLength whole days at the
    update, and room for three flights *)
Theorem C20_bot_trip_shapes_follow_the_update_discipline :
  forall (N : NumOps) mx clk (t : traveller N) (p : params N) share now,
  clk <= now -> 0 <= now -> now mod SecondsInDay = 0 -> length (entries (t_hist t)) = MaxFlights ->
  bot_shape (th_params p) now (t_hist t) -> conforms mx clk t (EUpdate p share now).
Proof. exact @bot_shape_update_conforms. Qed.
Print Assumptions C20_bot_trip_shapes_follow_the_update_discipline.

(** what an accepted proposal does to the promises already made *)
Theorem C20_proposal_frame : forall (N : NumOps) mx (b : book N) ts te d tr now (pr : predictor N) pp,
  Inv mx b -> propose b ts te d tr now pr mx = inl pp ->
  exists i, (i < MaxPromises)%nat /\ now <= ts /\ ts <> 0 /\
    core (getp (pp_entries pp) i) = (ts, te, d, tr) /\
    (forall m, (m < i)%nat -> core (getp (pp_entries pp) m) = core (getp b m) /\ ts < p_ts (getp b m)) /\
    (forall m, (i <= m)%nat -> (S m < MaxPromises)%nat -> core (getp (pp_entries pp) (S m)) = core (getp b m)) /\
    (forall m, (i < m)%nat -> (S m < MaxPromises)%nat -> getp (pp_entries pp) (S m) = getp b m) /\
    ((S i < MaxPromises)%nat ->
       p_clear (getp (pp_entries pp) (S i)) = p_clear (getp b i) \/
       p_clear (getp (pp_entries pp) (S i)) = day_start ts) /\
    (p_ts (getp b (MaxPromises - 1)) <> 0 -> p_clear (getp b (MaxPromises - 1)) < now).
Proof. exact @propose_frame. Qed.
Print Assumptions C20_proposal_frame.

Theorem C20_clearance_dates_stay_positive : forall (N : NumOps) mx (b : book N) ts te d tr now (pr : predictor N) pp,
  SecondsInDay <= now -> te < tmax -> Inv mx b -> Pos b -> pred_ok pr ->
  propose b ts te d tr now pr mx = inl pp -> Pos (pp_entries pp).
Proof. exact @propose_pos. Qed.
Print Assumptions C20_clearance_dates_stay_positive.

(** non-vacuity of the whole-history theorem: a history of two promised trips in exact arithmetic.  The
    traveller plans a trip, flies out and back, the promise is kept; a second trip is planned that
    starts before the kept promise's clearance date, so that date is brought forward in the book while
    the stored copy stays stale; two daily shares later the traveller is still 1800 in debt and checks
    in for the second trip.  The history passes the discipline check, so the check-in is accepted. *)
Definition ex_day (n : Z) : Z := n * 86400.
Definition ex_pred : predictor NumZ :=
  @mkPred NumZ (fun (_ : Z) s => if (1 <=? s) && (s <? 1000000) then Some (s + 5) else None) (fun _ _ => Some 0) 7.
Definition ex_params : params NumZ := @mkParams NumZ 30 50 2 1000 1 1 10 100 3 1 1 1 0 1.
Definition ex_flight (st en from to dist : Z) : flight NumZ := @mkFlight NumZ Fl st en from to dist.
Definition ex_history : list (@ev NumZ) :=
  [ @EPlan NumZ (ex_day 10) (ex_day 12 + 86399) 2000 2000 (ex_day 5) ex_pred;
    @ECheckin NumZ (ex_flight (ex_day 10 + 3600) (ex_day 10 + 7200) 1 2 1000) (ex_day 10 + 3600) (@empty_pc NumZ) ex_params true;
    @EUpdate NumZ ex_params 100 (ex_day 11);
    @ECheckin NumZ (ex_flight (ex_day 12 + 3600) (ex_day 12 + 7200) 2 1 1000) (ex_day 12 + 3600) (@empty_pc NumZ) ex_params true;
    @EUpdate NumZ ex_params 100 (ex_day 13);
    @EPlan NumZ (ex_day 15) (ex_day 17 + 86399) 2000 2000 (ex_day 13) ex_pred;
    @EUpdate NumZ ex_params 100 (ex_day 14);
    @EUpdate NumZ ex_params 100 (ex_day 15);
    @ECheckin NumZ (ex_flight (ex_day 15 + 3600) (ex_day 15 + 7200) 1 2 1000) (ex_day 15 + 3600) (@empty_pc NumZ) ex_params true ].

Example C20_whole_history_hypotheses_hold_somewhere :
  let before_last := fold_left (@apply_ev NumZ 3) (firstn 8 ex_history) (@new_traveller NumZ (ex_day 5)) in
  conforming 3 0 (@new_traveller NumZ (ex_day 5)) ex_history /\
  t_balance before_last = (-1800)%Z /\ mid_trip (t_hist before_last) = false /\
  p_clear (t_kept before_last) = ex_day 18 /\          (* the stored clearance date: later than the check-in *)
  p_clear (getp (t_book before_last) 1) = ex_day 15 /\  (* brought forward in the book *)
  all_accepted 3 (@new_traveller NumZ (ex_day 5)) ex_history.
Proof.
  assert (Hc : conforming 3 0 (@new_traveller NumZ (ex_day 5)) ex_history).
  { apply conformingb_sound. vm_compute. reflexivity. }
  cbn zeta. split; [exact Hc|]. split; [vm_compute; reflexivity|]. split; [vm_compute; reflexivity|].
  split; [vm_compute; reflexivity|]. split; [vm_compute; reflexivity|].
  apply (C20_bot_history_every_checkin_accepted NumZ 3 ltac:(lia) ex_history 0 (ex_day 5) Hc).
Qed.

(** the clause of the discipline about the predictor follows from "its answers are day numbers in range" *)
Theorem C20_sane_predictor_keeps_clearances_positive :
  forall (N : NumOps) mx (t : traveller N) ts te d tr now (pr : predictor N),
  Inv mx (t_book t) -> Pos (t_book t) -> SecondsInDay <= now -> te < tmax -> pred_ok pr ->
  forall pp, propose (t_book t) ts te d tr now pr mx = inl pp -> Pos (pp_entries pp).
Proof. exact @sane_predictor_keeps_clearances_positive. Qed.
Print Assumptions C20_sane_predictor_keeps_clearances_positive.

(** non-vacuity: float64 and exact arithmetic satisfy the two facts about zero, and an empty book is consistent *)
Example C20_hypotheses_hold_somewhere :
  kltb NumF (k0 NumF) (k0 NumF) = false /\ kleb NumF (k0 NumF) (k0 NumF) = true /\
  kltb NumZ (k0 NumZ) (k0 NumZ) = false /\ kleb NumZ (k0 NumZ) (k0 NumZ) = true /\
  Inv (N:=NumZ) 3 empty_book.
Proof.
  split; [vm_compute; reflexivity|]. split; [vm_compute; reflexivity|]. split; [vm_compute; reflexivity|].
  split; [vm_compute; reflexivity|]. apply Inv_empty. discriminate.
Qed.

(** ---- the simulation's traveller-bot ---- *)
(** prepareWeights offers exactly the days of the planning period on which a trip of that length touches
    no promised trip, each once, in increasing order *)
Theorem C20_planner_offers_exactly_the_free_days : forall (N : NumOps) (b : book N) (today len total : Z),
  StronglySorted (@ts_le N) (promises_oldest_first b) ->
  (forall p, In p (promises_oldest_first b) -> day_of (p_ts p) <= today + total) ->
  (forall d, In d (prepare_days b today len total) <->
     today <= d <= today + (total - len) /\
     forall p, In p (promises_oldest_first b) -> ~ clashes len p d) /\
  StronglySorted Z.lt (prepare_days b today len total).
Proof. exact @prepare_days_spec. Qed.
Print Assumptions C20_planner_offers_exactly_the_free_days.

(** one day of the bot keeps the invariant and follows the discipline *)
Theorem C20_simulated_bot_day : forall (N : NumOps) mx, 1 <= mx ->
  forall (dist : Z -> Z -> K N) (tp : thparams), rules_ok tp ->
  forall d clk (b : bot N) (di : day_input N),
  BI mx dist tp d clk b -> BotDayP.day_ok dist tp di ->
  let '(b', evs) := bot_day mx dist d b di in
  conforming mx clk (b_trav b) evs /\ b_trav b' = fold_left (apply_ev mx) evs (b_trav b) /\
  BI mx dist tp (d + 1) (last_time clk evs) b'.
Proof. exact @bot_day_conforms. Qed.
Print Assumptions C20_simulated_bot_day.

(** any number of days *)
Theorem C20_simulated_bot_follows_the_discipline : forall (N : NumOps) mx, 1 <= mx ->
  forall (dist : Z -> Z -> K N) (tp : thparams), rules_ok tp ->
  forall (dis : list (day_input N)) d clk (b : bot N),
  BI mx dist tp d clk b -> Forall (BotDayP.day_ok dist tp) dis ->
  conforming mx clk (b_trav b) (bot_run mx dist d b dis).
Proof. exact @bot_run_conforming. Qed.
Print Assumptions C20_simulated_bot_follows_the_discipline.

Theorem C20_simulated_bot_is_never_refused : forall (N : NumOps) mx, 1 <= mx ->
  forall (dist : Z -> Z -> K N) (tp : thparams), rules_ok tp ->
  forall (dis : list (day_input N)) d clk (b : bot N),
  BI mx dist tp d clk b -> Forall (BotDayP.day_ok dist tp) dis ->
  all_accepted mx (b_trav b) (bot_run mx dist d b dis).
Proof. exact @bot_run_all_accepted. Qed.
Print Assumptions C20_simulated_bot_is_never_refused.

(** a bot with no record yet and nothing planned satisfies the invariant *)
Theorem C20_new_bot_satisfies_the_invariant : forall (N : NumOps) mx, 1 <= mx ->
  forall (dist : Z -> Z -> K N) (tp : thparams) d now, 1 <= d ->
  BI mx dist tp d 0 (mkBot (new_traveller now) []).
Proof. intros N mx Hmx dist tp d now Hd. exact (@BI_new N mx Hmx dist tp d now Hd). Qed.
Print Assumptions C20_new_bot_satisfies_the_invariant.

(** non-vacuity: eight days of a bot in exact arithmetic - it plans a three-day trip on the first day,
    flies out two days later and back three days after that; the configuration satisfies every
    hypothesis, both check-ins are in the history and (by the theorem) accepted, and the update after
    the return has recorded the promise as kept *)
Definition exb_dist : Z -> Z -> Z := fun _ _ => 1000.
Definition exb_day (plan : option (plan_choice NumZ)) : day_input NumZ :=
  @mkDay NumZ ex_params 100 (@empty_pc NumZ) true ex_pred plan 7200 3600.
Definition exb_days : list (day_input NumZ) :=
  exb_day (Some (@mkChoice NumZ 3 18002 1 2 2000 3600 3600)) :: repeat (exb_day None) 7.
Definition exb_history : list (@ev NumZ) := bot_run (N:=NumZ) 3 exb_dist 18000 (mkBot (new_traveller (ex_day 18000)) []) exb_days.

Example ex_pred_ok : pred_ok ex_pred.
Proof.
  intros d s c. cbn [ex_pred pr_predict]. destruct ((1 <=? s) && (s <? 1000000)) eqn:E; [|discriminate].
  intros H. injection H as <-. apply andb_prop in E. destruct E as [E1 E2]. apply Z.leb_le in E1. apply Z.ltb_lt in E2.
  unfold PromisesFrameP.day_ok, two64, SecondsInDay. change (2 ^ 64) with 18446744073709551616. lia.
Qed.

Example C20_simulated_bot_hypotheses_hold_somewhere :
  rules_ok (th_params ex_params) /\ Forall (BotDayP.day_ok (N:=NumZ) exb_dist (th_params ex_params)) exb_days /\
  length (filter (fun e => match e with ECheckin _ _ _ _ _ => true | _ => false end) exb_history) = 2%nat /\
  p_ts (t_kept (fold_left (apply_ev (N:=NumZ) 3) exb_history (new_traveller (ex_day 18000)))) = ex_day 18002 /\
  all_accepted 3 (@new_traveller NumZ (ex_day 18000)) exb_history.
Proof.
  assert (Hr : rules_ok (th_params ex_params)) by (unfold rules_ok; cbn; lia).
  assert (Hn : BotDayP.day_ok (N:=NumZ) exb_dist (th_params ex_params) (exb_day None)).
  { split; [reflexivity|]. split; [exact ex_pred_ok|]. split; [vm_compute; reflexivity|exact I]. }
  assert (Hd : Forall (BotDayP.day_ok (N:=NumZ) exb_dist (th_params ex_params)) exb_days).
  { unfold exb_days. cbn [repeat]. constructor; [|repeat (constructor; [exact Hn|]); constructor].
    split; [reflexivity|]. split; [exact ex_pred_ok|]. split; [vm_compute; reflexivity|].
    cbn [exb_day di_plan]. unfold choice_ok. cbn [c_r c_dur c_len c_from c_to c_dist c_day].
    split; [vm_compute; reflexivity|]. split; [lia|]. split; [cbn; lia|]. split; [cbn; lia|].
    split; [unfold route_ok; vm_compute; repeat split; reflexivity|]. split; [vm_compute; reflexivity|].
    unfold tmax, SecondsInDay. change (2 ^ 62) with 4611686018427387904. lia. }
  split; [exact Hr|]. split; [exact Hd|]. split; [vm_compute; reflexivity|]. split; [vm_compute; reflexivity|].
  exact (C20_simulated_bot_is_never_refused NumZ 3 ltac:(lia) exb_dist (th_params ex_params) Hr exb_days 18000 0
           (mkBot (new_traveller (ex_day 18000)) [])
           (C20_new_bot_satisfies_the_invariant NumZ 3 ltac:(lia) exb_dist (th_params ex_params) 18000 (ex_day 18000) ltac:(lia)) Hd).
Qed.


(** the first hypothesis of [C20_planner_offers_exactly_the_free_days] holds for every consistent book *)
Theorem C20_consistent_books_list_their_promises_in_order : forall (N : NumOps) mx (b : book N),
  Inv mx b -> StronglySorted (@ts_le N) (promises_oldest_first b).
Proof. exact @inv_promises_sorted. Qed.
Print Assumptions C20_consistent_books_list_their_promises_in_order.

(** the hypothesis on route distances holds for float64 distances as the airports table gives them (same
    distance both ways): checked here on the shortest and on a long real route *)
Example C20_route_distances_float64 :
  route_ok (N:=NumF) (fun _ _ => 137.75%float) 1 2 /\ route_ok (N:=NumF) (fun _ _ => 15342.125%float) 1 2 /\
  route_ok (N:=NumF) (fun a b => if (a <? b)%Z then 0x1.999999999999ap-4%float else 0x1.3333333333334p-2%float) 1 2.
Proof. unfold route_ok. repeat split; vm_compute; reflexivity. Qed.

(** the hypothesis [length + 1 <= TripLength] cannot be weakened to [length <= TripLength]: known finding F19.
    Maximum Trip Duration 3, trips of 3 days, everything else as the theorem asks; when the outbound of the
    first trip leaves in second 0 of its day ([c_r] = 0, a draw the code can make) the update after the
    return day closes the trip by the trip-length rule, the promise is not kept and the check-in for the
    second promised trip is refused; leaving one second later every check-in is accepted.  The same
    history is replayed on the real planner code on every run (harness, probeMidnightMaxLength). *)
Definition f19_params : params NumZ := @mkParams NumZ 3 50 1 1000 1 1 10 100 3 1 1 1 0 1.
Definition f19_day (plan : option (plan_choice NumZ)) : day_input NumZ :=
  @mkDay NumZ f19_params 1 (@empty_pc NumZ) true ex_pred plan 7200 3600.
Definition f19_history (r : Z) : list (@ev NumZ) :=
  bot_run (N:=NumZ) 3 exb_dist 18000 (mkBot (new_traveller (ex_day 18000)) [])
    (f19_day (Some (@mkChoice NumZ 3 18001 1 2 2000 r 3600)) ::
     f19_day (Some (@mkChoice NumZ 3 18007 1 2 2000 5000 3600)) :: repeat (f19_day None) 8).

Theorem C20_trip_of_maximum_length_leaving_at_midnight_refuted :
  all_acceptedb 3 (@new_traveller NumZ (ex_day 18000)) (f19_history 0) = false /\
  all_acceptedb 3 (@new_traveller NumZ (ex_day 18000)) (f19_history 1) = true.
Proof. split; vm_compute; reflexivity. Qed.
Print Assumptions C20_trip_of_maximum_length_leaving_at_midnight_refuted.


(** ---- the whole population of traveller-bots on one engine (Model/Sim.v) ---- *)
Theorem C20_simulated_population_day : forall (N : NumOps) mx, 1 <= mx ->
  forall (dist : Z -> Z -> K N) (tp : thparams), rules_ok tp ->
  forall d c (s : sim N) (pd : pop_day N),
  PopInv mx dist tp d c s -> pop_day_ok mx dist tp d s pd ->
  let '(s', xs) := sim_day dist d s pd in
  x_conforming mx c (s_eng s) (map to_xev xs) /\ s_eng s' = fold_left (sop_apply (N:=N)) xs (s_eng s) /\
  PopInv mx dist tp (d + 1) (s_clock c (s_eng s) xs) s'.
Proof. exact @sim_day_conforms. Qed.
Print Assumptions C20_simulated_population_day.

Theorem C20_simulated_population_follows_the_discipline : forall (N : NumOps) mx, 1 <= mx ->
  forall (dist : Z -> Z -> K N) (tp : thparams), rules_ok tp ->
  forall (days : list (pop_day N)) d c (s : sim N),
  PopInv mx dist tp d c s -> sim_ok mx dist tp d s days ->
  x_conforming mx c (s_eng s) (map to_xev (sim_run dist d s days)).
Proof. exact @sim_run_conforming. Qed.
Print Assumptions C20_simulated_population_follows_the_discipline.

Theorem C20_simulated_population_is_never_refused : forall (N : NumOps) mx, 1 <= mx ->
  forall (dist : Z -> Z -> K N) (tp : thparams), rules_ok tp ->
  forall (days : list (pop_day N)) d c (s : sim N),
  PopInv mx dist tp d c s -> sim_ok mx dist tp d s days ->
  x_all_accepted (s_eng s) (map to_xev (sim_run dist d s days)).
Proof. exact @sim_run_all_accepted. Qed.
Print Assumptions C20_simulated_population_is_never_refused.

(** runnable form: a population without records, the hypotheses decided by computation *)
Theorem C20_checked_population_is_never_refused : forall (N : NumOps) mx, 1 <= mx ->
  forall (dist : Z -> Z -> K N) (tp : thparams), rules_ok tp ->
  forall (days : list (pop_day N)) d (a : admin N) (ks : list Z),
  1 <= d -> NoDup ks -> (forall k, In k ks -> 0 <= k < 2 ^ 160) ->
  let s := mkSim (mkEngine a []) (map (fun k => mkSBot (N:=N) k []) ks) in
  sim_okb mx dist tp d s days = true -> x_all_accepted (s_eng s) (map to_xev (sim_run dist d s days)).
Proof. exact @checked_population_all_accepted. Qed.
Print Assumptions C20_checked_population_is_never_refused.

Theorem C20_planning_threads_visit_every_bot_once : forall n threads, 0 < threads -> 0 <= n ->
  (forall x, 0 <= x < n ->
     In x (worker_bots (Z.to_nat n) (x mod threads) n threads) /\ 0 <= x mod threads < threads /\
     forall off, 0 <= off < threads -> In x (worker_bots (Z.to_nat n) off n threads) -> off = x mod threads) /\
  (forall off, 0 <= off < threads ->
     NoDup (worker_bots (Z.to_nat n) off n threads) /\
     forall x, In x (worker_bots (Z.to_nat n) off n threads) -> 0 <= x < n).
Proof. exact planning_threads_partition. Qed.
Print Assumptions C20_planning_threads_visit_every_bot_once.

(** the trial period of the simulated population: while modelDay does not debit (i <= TrialDays) every stored
    balance stays zero over any number of days of the whole population - so nobody can be grounded
    ([C20_trial_checkin_never_refused]) and the daily update credits nobody ([C20_trial_update_credits_nobody]) *)
Theorem C20_simulated_population_trial_period : forall (N : NumOps) (dist : Z -> Z -> K N),
  kltb N (k0 N) (k0 N) = false ->
  forall (days : list (pop_day N)) d (s : sim N),
  Forall (fun pd => pd_debit pd = false) days -> TZb (e_table (s_eng s)) ->
  TZb (e_table (fold_left (sop_apply (N:=N)) (sim_run dist d s days) (s_eng s))).
Proof. exact @sim_trial_balances_zero. Qed.
Print Assumptions C20_simulated_population_trial_period.

(** non-vacuity: three bots on one engine with the model's LINEAR predictor, exact arithmetic, twelve days.  Two
    of them plan on the first day (in the order bot 2, bot 0), the third on the fifth day; a later trip is planned
    while the first is still to be kept.  The check passes, the run contains eight check-ins (all accepted, by the
    theorem), and the bot that flew twice ends the run in debt. *)
Definition pop_admin : admin NumZ :=
  @mkAdmin NumZ ex_params (create_predictor (@PNone NumZ) ex_params) (@empty_pc NumZ) 0.
Definition pop_choice (day : Z) : plan_choice NumZ := @mkChoice NumZ 3 day 1 2 0 3600 3600.
Definition pop_day_in (calls : list (nat * plan_choice NumZ)) : pop_day NumZ :=
  @mkPopDay NumZ [] true calls (fun _ => 7200) (fun _ => 3600) None.
Definition pop_days : list (pop_day NumZ) :=
  [ pop_day_in [(2%nat, pop_choice 18002); (0%nat, pop_choice 18003)]; pop_day_in []; pop_day_in []; pop_day_in [];
    pop_day_in [(1%nat, pop_choice 18006); (2%nat, pop_choice 18009)] ] ++ repeat (pop_day_in []) 9.
Definition pop_start : sim NumZ := mkSim (mkEngine pop_admin []) (map (fun k => mkSBot (N:=NumZ) k []) [5; 9; 12]).
Definition pop_history : list (sop NumZ) := sim_run (N:=NumZ) exb_dist 18000 pop_start pop_days.

Example C20_population_hypotheses_hold_somewhere :
  sim_okb (N:=NumZ) 3 exb_dist (th_params ex_params) 18000 pop_start pop_days = true /\
  length (filter (fun x => match x with SCheckin _ _ _ _ => true | _ => false end) pop_history) = 8%nat /\
  length (filter (fun kt : Z * traveller NumZ => (t_balance (snd kt) <? 0)) (e_table (fold_left (sop_apply (N:=NumZ)) pop_history (s_eng pop_start)))) = 1%nat /\
  x_all_accepted (s_eng pop_start) (map to_xev pop_history).
Proof.
  assert (Hok : sim_okb (N:=NumZ) 3 exb_dist (th_params ex_params) 18000 pop_start pop_days = true) by (vm_compute; reflexivity).
  split; [exact Hok|]. split; [vm_compute; reflexivity|]. split; [vm_compute; reflexivity|].
  apply (C20_checked_population_is_never_refused NumZ 3 ltac:(lia) exb_dist (th_params ex_params)
           ltac:(unfold rules_ok; cbn; lia) pop_days 18000 pop_admin [5; 9; 12] ltac:(lia)).
  - repeat constructor; cbn; intuition lia.
  - intros k [<-|[<-|[<-|[]]]]; change (2 ^ 160) with 1461501637330902918203684832716283019655932542976; lia.
  - exact Hok.
Qed.
