(** C20 — Simulated travellers with promises are never refused; documented configs run.
    PARTIAL.  Proved here, for every NumOps instance (bit-exact float64 included), every predictor,
    every balance and every book:
    (a) the steps of the argument that a traveller-bot holding a made promise is not refused:
        - while the kept promise of the previous trip is in the book, the traveller is cleared from the
          start of the next promised trip on (book invariant of C09: each clearance is no later than
          the next trip's start; Cleared() refreshes the kept clearance from the book);
        - a new proposal never drops a promise whose clearance date has not passed (the repaired room
          rule), and in the new book its clearance is again no later than the start of every later
          promised trip, the new one included;
        - once it has left the book the stored clearance stands, and it has passed;
        - the return leg is checked in mid-trip, which is never refused;
        (the promise is recorded as kept when the promised trip is flown: C08 theorems);
    (b) the trial period: in every state reachable without a debiting check-in every balance is zero,
        no check-in of any number of flights is refused as grounded, and the daily update credits nobody.
    NOT proved: the induction of (a) over whole simulation histories (interleaving of proposals,
    updates and check-ins of one traveller over many days), and anything about the 1000-line
    simulation driver (configuration handling, planning threads, reporting, files).  Both are
    exercised on every run: protocol histories on the real flap.Engine compared call by call with the
    model, and the real Build/Run in child processes over generated worlds and configurations. *)
From Coq Require Import ZArith List Bool.
From Flap Require Import Model.Num Model.NumF Model.NumZ Model.TripHistory Model.Promises Model.Predictor Model.Engine
  Proofs.PromisesP Proofs.ClearedP Proofs.EngineInv Proofs.UpdateAllP Proofs.ProtocolP Proofs.TrialP.
Import ListNotations.
Open Scope Z_scope.

Theorem C20_next_promised_trip_not_refused : forall (N : NumOps) mx (t : traveller N) j now,
  Inv mx (t_book t) -> (S j < MaxPromises)%nat ->
  p_ts (t_kept t) = p_ts (getp (t_book t) (S j)) -> p_te (t_kept t) = p_te (getp (t_book t) (S j)) ->
  keqb N (p_dist (getp (t_book t) (S j))) (p_dist (t_kept t)) = true ->
  p_ts (t_kept t) <> 0 -> p_clear (t_kept t) <> 0 -> 0 < p_clear (getp (t_book t) (S j)) ->
  p_ts (getp (t_book t) j) <= now ->
  ~ grounded t now.
Proof. exact @next_promised_trip_not_grounded. Qed.
Print Assumptions C20_next_promised_trip_not_refused.

Theorem C20_any_later_promised_trip_not_refused : forall (N : NumOps) mx (t : traveller N) k i now,
  Inv mx (t_book t) -> (k < MaxPromises)%nat -> (i < k)%nat ->
  p_ts (t_kept t) = p_ts (getp (t_book t) k) -> p_te (t_kept t) = p_te (getp (t_book t) k) ->
  keqb N (p_dist (getp (t_book t) k)) (p_dist (t_kept t)) = true ->
  p_ts (t_kept t) <> 0 -> p_clear (t_kept t) <> 0 -> 0 < p_clear (getp (t_book t) k) ->
  p_ts (getp (t_book t) i) <= now ->
  ~ grounded t now.
Proof. exact @later_promised_trip_not_grounded. Qed.
Print Assumptions C20_any_later_promised_trip_not_refused.

Theorem C20_plan_keeps_pending_promise_cleared_in_time :
  forall (N : NumOps) mx (b : book N) ts te d tr now (pr : predictor N) pp k,
  1 <= mx -> 0 <= now -> te < tmax -> Inv mx b -> propose b ts te d tr now pr mx = inl pp ->
  (k < MaxPromises)%nat -> p_ts (getp b k) <> 0 -> now <= p_clear (getp b k) ->
  exists k', (k' < MaxPromises)%nat /\ core (getp (pp_entries pp) k') = core (getp b k) /\
    forall i, (i < k')%nat -> p_clear (getp (pp_entries pp) k') <= p_ts (getp (pp_entries pp) i).
Proof. exact @plan_keeps_pending_promise_cleared_in_time. Qed.
Print Assumptions C20_plan_keeps_pending_promise_cleared_in_time.

Theorem C20_refused_exactly_when_grounded : forall (N : NumOps) (t : traveller N) f now taxi debit,
  submit_flight t f now taxi debit = inr EGrounded <-> grounded t now.
Proof. exact @submit_flight_grounded_iff. Qed.
Print Assumptions C20_refused_exactly_when_grounded.

Theorem C20_pending_promise_not_dropped : forall (N : NumOps) mx (b : book N) ts te d tr now (pr : predictor N) pp j,
  1 <= mx -> 0 <= now -> te < tmax -> Inv mx b -> propose b ts te d tr now pr mx = inl pp ->
  (j < MaxPromises)%nat -> p_ts (getp b j) <> 0 -> now <= p_clear (getp b j) ->
  exists j', (j' < MaxPromises)%nat /\ core (getp (pp_entries pp) j') = core (getp b j).
Proof. exact @pending_promise_not_dropped. Qed.
Print Assumptions C20_pending_promise_not_dropped.

Theorem C20_departed_kept_promise_not_refused : forall (N : NumOps) (t : traveller N) now,
  match_promise (t_book t) (t_kept t) = None -> 0 < p_clear (t_kept t) <= now -> ~ grounded t now.
Proof. exact @departed_kept_promise_not_grounded. Qed.
Print Assumptions C20_departed_kept_promise_not_refused.

Theorem C20_return_leg_not_refused : forall (N : NumOps) (t : traveller N) now,
  mid_trip (t_hist t) = true -> ~ grounded t now.
Proof. exact @mid_trip_not_grounded. Qed.
Print Assumptions C20_return_leg_not_refused.

Theorem C20_trial_balances_stay_zero : forall (N : NumOps),
  kltb N (k0 N) (k0 N) = false ->
  forall (a : admin N) (ops : list (@eng_op N)) k t,
  Forall nondebit ops -> tget (e_table (fold_left e_apply ops (engine0 a))) k = Some t -> t_balance t = k0 N.
Proof. exact @trial_balances_stay_zero. Qed.
Print Assumptions C20_trial_balances_stay_zero.

Theorem C20_trial_checkin_never_refused : forall (N : NumOps),
  kltb N (k0 N) (k0 N) = false -> kleb N (k0 N) (k0 N) = true ->
  forall (a : admin N) (ops : list (@eng_op N)) k fs now,
  Forall nondebit ops ->
  snd (submit_flights (fold_left e_apply ops (engine0 a)) k fs now false) <> Some EGrounded.
Proof. exact @trial_checkin_never_grounded. Qed.
Print Assumptions C20_trial_checkin_never_refused.

Theorem C20_trial_update_credits_nobody : forall (N : NumOps),
  kltb N (k0 N) (k0 N) = false ->
  forall (p : params N) share now (tb : table N),
  TZb tb -> count_grounded p share now tb = 0.
Proof. exact @trial_update_credits_nobody. Qed.
Print Assumptions C20_trial_update_credits_nobody.

(** non-vacuity: float64 and exact arithmetic satisfy the two facts about zero, and an empty book is consistent *)
Example C20_hypotheses_hold_somewhere :
  kltb NumF (k0 NumF) (k0 NumF) = false /\ kleb NumF (k0 NumF) (k0 NumF) = true /\
  kltb NumZ (k0 NumZ) (k0 NumZ) = false /\ kleb NumZ (k0 NumZ) (k0 NumZ) = true /\
  Inv (N:=NumZ) 3 empty_book.
Proof.
  split; [vm_compute; reflexivity|]. split; [vm_compute; reflexivity|]. split; [vm_compute; reflexivity|].
  split; [vm_compute; reflexivity|]. apply Inv_empty. discriminate.
Qed.
