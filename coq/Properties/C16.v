(** C16 — Each database table behaves as an ordered map; dropped tables are gone.
    Statements only; proofs in Proofs/DBP.v.  LevelDB itself enters as the ordered map (oracle); what
    is modelled and proved is the wrapper's own logic: the handle cache, the batch flush rule,
    prefix iteration and snapshots over it. *)
From Coq Require Import ZArith List Sorted.
From Flap Require Import Model.DB Proofs.DBP.
Import ListNotations.
Open Scope Z_scope.

(** a read returns the last value written, other keys are untouched, a deleted key is absent *)
Theorem C16_read_returns_last_write : forall s h k v s', table_put s h k v = (s', None) -> table_get s' h k = inl v.
Proof. exact put_then_get. Qed.
Print Assumptions C16_read_returns_last_write.
Theorem C16_write_leaves_other_keys : forall s h k v s' k2, k2 <> k -> table_put s h k v = (s', None) -> table_get s' h k2 = table_get s h k2.
Proof. exact put_leaves_other_keys. Qed.
Print Assumptions C16_write_leaves_other_keys.
Theorem C16_deleted_key_is_absent : forall s h k s', (forall m, alookup (disk s) (fst h) = Some m -> msorted m) ->
  table_delete s h k = (s', None) -> table_get s' h k = inr EKeyNotFound.
Proof. exact delete_then_get. Qed.
Print Assumptions C16_deleted_key_is_absent.

(** the map operations keep the key order, and prefix iteration yields exactly the keys with that
    prefix (empty and non-ASCII prefixes included: keys are arbitrary byte strings), in key order *)
Theorem C16_put_keeps_key_order : forall m k v, msorted m -> msorted (mput m k v).
Proof. exact mput_sorted. Qed.
Print Assumptions C16_put_keeps_key_order.
Theorem C16_prefix_iteration : forall m p, msorted m ->
  msorted (miter m p) /\ forall k v, In (k, v) (miter m p) <-> In (k, v) m /\ is_prefix p k = true.
Proof. exact miter_spec. Qed.
Print Assumptions C16_prefix_iteration.

(** a snapshot yields the contents as of its creation despite any later writes *)
Theorem C16_snapshot_is_the_contents_at_creation : forall s h s1 id m, table_of s h = Some m ->
  take_snapshot s h = (s1, inl id) -> forall k, snap_get s1 id k = table_get s h k.
Proof. exact snapshot_is_current_contents. Qed.
Print Assumptions C16_snapshot_is_the_contents_at_creation.
Theorem C16_snapshot_unaffected_by_later_writes : forall s h s1 id, take_snapshot s h = (s1, inl id) ->
  forall s2 h2 ops r, write_table s1 h2 ops = (s2, r) ->
  forall k p, snap_get s2 id k = snap_get s1 id k /\ snap_iter s2 id p = snap_iter s1 id p.
Proof. exact snapshot_isolated. Qed.
Print Assumptions C16_snapshot_unaffected_by_later_writes.

(** batched writes of any batch size >= 1 and any count are all applied, in order, once released *)
Theorem C16_batch_release_applies_everything : forall s h size m0 ops, 1 <= size ->
  handle_open s h = true -> alookup (disk s) (fst h) = Some m0 ->
  let '(s1, id) := make_batch s h size in
  let s2 := batch_run s1 id ops in
  let '(s3, r) := batch_release s2 id in
  r = None /\ table_of s3 h = Some (fold_left apply_wop ops m0).
Proof. exact batch_release_applies_all. Qed.
Print Assumptions C16_batch_release_applies_everything.

(** tables are independent of each other *)
Theorem C16_tables_independent : forall s h ops s' r h2 k2, fst h2 <> fst h -> write_table s h ops = (s', r) ->
  table_get s' h2 k2 = table_get s h2 k2.
Proof. exact tables_independent. Qed.
Print Assumptions C16_tables_independent.
Theorem C16_drop_leaves_other_tables : forall s n s1 n2, n2 <> n -> drop_table s n = (s1, None) ->
  alookup (disk s1) n2 = alookup (disk s) n2.
Proof. exact drop_leaves_other_tables. Qed.
Print Assumptions C16_drop_leaves_other_tables.

(** contents survive close and reopen *)
Theorem C16_contents_survive_close_and_reopen : forall s n s1 s2 h2, close_table s n = (s1, None) ->
  open_table s1 n = (s2, inl h2) -> table_of s2 h2 = alookup (disk s) n.
Proof. exact close_reopen_keeps_contents. Qed.
Print Assumptions C16_contents_survive_close_and_reopen.

(** a dropped table is gone, whether or not it was open when dropped *)
Theorem C16_dropped_table_is_gone : forall s n s1, names_unique (disk s) -> handles_on_disk s -> drop_table s n = (s1, None) ->
  snd (open_table s1 n) = inr ETableNotFound /\
  exists h, snd (create_table s1 n) = inl h /\ table_of (fst (create_table s1 n)) h = Some [].
Proof. exact dropped_table_is_gone. Qed.
Print Assumptions C16_dropped_table_is_gone.

(** Non-vacuity: a table is created, written through a batch of size 2 with three records, dropped while
    open and created again. *)
Example C16_nonvacuous :
  let '(s1, r1) := create_table db0 [116] in
  match r1 with
  | inl h =>
      let '(s2, b) := make_batch s1 h 2 in
      let s3 := batch_run s2 b [WPut [2] [20]; WPut [1; 255] [10]; WPut [1] [5]] in
      table_get s3 h [1] = inr EKeyNotFound /\                 (* third record still pending *)
      let '(s4, _) := batch_release s3 b in
      table_iter s4 h [1] = inl [([1], [5]); ([1; 255], [10])] /\
      let '(s5, r5) := drop_table s4 [116] in
      r5 = None /\ snd (open_table s5 [116]) = inr ETableNotFound /\
      match create_table s5 [116] with (s6, inl h6) => table_iter s6 h6 [] = inl [] | _ => False end
  | inr _ => False
  end.
Proof. vm_compute. auto 10. Qed.
