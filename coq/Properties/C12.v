(** C12 — Engine state survives close and reopen at any day boundary.
    Statements only; proofs in Proofs/PersistP.v (on top of the codec theorems of C13).
    Two facts enter as hypotheses of the section the proofs live in, hence as premises here:
    the float <-> 64-bit-pattern cast is invertible and yields 64-bit patterns.  FlapParams are
    gob-encoded (oracle).  In the model the travellers table IS the database, so a restart can only
    affect the administrator state. *)
From Coq Require Import ZArith List.
From Flap Require Import Model.Num Model.Promises Model.Predictor Model.Engine Model.Codec Model.Persist
  Proofs.CodecP Proofs.EngineInv Proofs.PersistP.
Import ListNotations.
Open Scope Z_scope.

(** What Save writes, Load reads back: parameters, the predictor of the configured kind with its whole
    state (window, smoothed points, fitted constants, version - so outstanding proposals stay valid or
    stale exactly as before), the correction state and the grounded count. *)
Theorem C12_load_after_save_is_identity :
  forall (N : NumOps) (kbits : K N -> Z) (kofbits : Z -> K N),
  (forall x, kofbits (kbits x) = x) -> (forall x, 0 <= kbits x < 2 ^ 64) ->
  forall a : admin N, admin_wf a -> load_admin kofbits (save_admin kbits a) = a.
Proof. exact @load_save. Qed.
Print Assumptions C12_load_after_save_is_identity.

Theorem C12_restart_changes_nothing :
  forall (N : NumOps) (kbits : K N -> Z) (kofbits : Z -> K N),
  (forall x, kofbits (kbits x) = x) -> (forall x, 0 <= kbits x < 2 ^ 64) ->
  forall e : engine N, admin_wf (e_admin e) -> restart kbits kofbits e = e.
Proof. exact @restart_invisible. Qed.
Print Assumptions C12_restart_changes_nothing.

(** A run interrupted by restarts at arbitrary points ends in exactly the state of the uninterrupted
    run (every intermediate administrator state being well formed). *)
Theorem C12_interrupted_run_equals_uninterrupted_run :
  forall (N : NumOps) (kbits : K N -> Z) (kofbits : Z -> K N),
  (forall x, kofbits (kbits x) = x) -> (forall x, 0 <= kbits x < 2 ^ 64) ->
  forall (ops : list (@rop N)) (e : engine N),
  (forall pre suf, strip ops = pre ++ suf -> admin_wf (e_admin (fold_left e_apply pre e))) ->
  fold_left (r_apply kbits kofbits) ops e = fold_left e_apply (strip ops) e.
Proof. exact @restarts_change_nothing. Qed.
Print Assumptions C12_interrupted_run_equals_uninterrupted_run.

(** The part of well-formedness that is about logic rather than number ranges - the installed predictor
    is of the kind the parameters select - is kept by the parameter setter (this is what the repair of
    createPredictor re-established: selecting "no promises" removes the predictor at once, not only
    after the next restart). *)
Theorem C12_parameter_setter_keeps_predictor_kind :
  forall (N : NumOps) (kbits : K N -> Z), (forall x, 0 <= kbits x < 2 ^ 64) ->
  forall (a a' : admin N) p,
  valid_params (a_params a) = true -> kind_ok a -> set_params a p = inl a' ->
  kind_ok a' /\ valid_params (a_params a') = true.
Proof. exact @set_params_kind_ok. Qed.
Print Assumptions C12_parameter_setter_keeps_predictor_kind.
