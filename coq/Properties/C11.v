(** C11 — Clearance predictions are never early, terminate, and are exact for flat shares.
    PARTIAL.  What is proved here is the logic around the numerics: the version moves exactly when
    the stored fit moves (both predictors), the polynomial search never answers before the start day
    unless it fell back to the last-share estimate, the linear predictor never does under three stated
    facts about the number type (proved for exact arithmetic), it terminates in exact arithmetic when predicted
    shares are positive, and uninitialised predictors answer "no prediction".  What is NOT proved:
    the float64 accuracy claims (never early and within one day of t+ceil(d/s) for flat shares for the
    linear regression with its cancellation at epoch-day magnitudes; the quality of gonum's QR fit).
    Those are covered by the bit-exact correspondence (every m, c, smoothed value, version, predict and
    backfilled answer of the real predictors compared with the PrimFloat model) and by Go-side
    monitors stating the property on the real code. *)
From Coq Require Import ZArith List.
From Flap Require Import Model.Num Model.NumZ Model.Promises Model.Predictor Proofs.PredictorP Proofs.ParamsP.
Import ListNotations.
Open Scope Z_scope.

Theorem C11_linear_version_changes_iff_fit_changes : forall (N : NumOps) (b : bestfit N) x y,
  let b' := bf_add b x y in
  (bf_pv b' = bf_pv b -> bf_m b' = bf_m b /\ bf_c b' = bf_c b) /\
  (bf_pv b' <> bf_pv b -> bf_pv b' = bf_pv b + 1 /\
                          (kneb N (bf_c b) (bf_c b') = true \/ kneb N (bf_m b) (bf_m b') = true)).
Proof. exact @bf_version_iff_fit. Qed.
Print Assumptions C11_linear_version_changes_iff_fit_changes.

Theorem C11_polynomial_version_changes_iff_fit_changes : forall (N : NumOps) (p : polyfit N) y fit,
  let p' := pf_add p y fit in
  (pf_pv p' = pf_pv p -> pf_consts p' = pf_consts p) /\
  (pf_pv p' <> pf_pv p -> pf_pv p' = pf_pv p + 1 /\ pf_consts p' = fit /\ klist_eqb fit (pf_consts p) = false).
Proof. exact @pf_version_iff_fit. Qed.
Print Assumptions C11_polynomial_version_changes_iff_fit_changes.

Theorem C11_polynomial_prediction_not_before_start : forall (N : NumOps) (p : polyfit N) d sd z,
  pf_predict p d sd = Some (LDone z) ->
  sd <= z \/ z = sd + ktruncZ N (kdiv N d (last_y (pf_sm p))).
Proof. exact @pf_predict_not_early. Qed.
Print Assumptions C11_polynomial_prediction_not_before_start.

(** the linear predictor: never before the start day, for every number instance satisfying three facts
    about its conversions and order (exact arithmetic does: second theorem; float64 at day
    magnitudes does by monotonicity of rounding, which is checked by the correspondence, not proved) *)
Theorem C11_linear_prediction_not_before_start : forall (N : NumOps), @ConvLaws N ->
  forall (b : bestfit N) balance start z,
  kleb N (k0 N) (kdiv N balance (last_y (bf_sm b))) = true ->
  bf_predict b balance start = Some z -> start <= z.
Proof. exact @bf_predict_not_early. Qed.
Print Assumptions C11_linear_prediction_not_before_start.

Theorem C11_exact_arithmetic_satisfies_the_conversion_facts : @ConvLaws NumZ.
Proof. exact ConvLaws_NumZ. Qed.
Print Assumptions C11_exact_arithmetic_satisfies_the_conversion_facts.

Theorem C11_polynomial_search_terminates_exact : forall (p : polyfit NumZ) fuel (d sd cd r : Z),
  (forall x, sd <= x -> exists y, pf_predict_y p x = Some y /\ 1 <= y) ->
  sd <= cd -> (1 <= fuel)%nat -> r < Z.of_nat fuel ->
  exists z, pf_predict_loop fuel p d sd cd r = LDone z.
Proof. exact poly_predict_terminates_exact. Qed.
Print Assumptions C11_polynomial_search_terminates_exact.

Theorem C11_uninitialised_linear_predictor_gives_no_prediction : forall (N : NumOps) (b : bestfit N) bal start,
  kltb N (bf_c b) (k0 N) = true -> bf_predict b bal start = None.
Proof. exact @bf_predict_uninitialised. Qed.
Print Assumptions C11_uninitialised_linear_predictor_gives_no_prediction.

Theorem C11_empty_polynomial_predictor_gives_no_prediction : forall (N : NumOps) (p : polyfit N) d sd,
  sm_ys (pf_sm p) = [] -> pf_predict p d sd = None.
Proof. exact @pf_predict_empty. Qed.
Print Assumptions C11_empty_polynomial_predictor_gives_no_prediction.
