(** C01 — Balance equals the ledger; check-ins debit exactly; refusals change nothing.
    Statements only; proofs in Proofs/LedgerP.v and Proofs/EngineInv.v.  [t_ledger] is ghost state:
    every transaction ever applied to the account, never read by the model's operations. *)
From Coq Require Import ZArith List Permutation.
From Flap Require Import Model.Num Model.NumZ Model.TripHistory Model.Promises Model.Predictor Model.Engine
  Proofs.LedgerP Proofs.EngineInv.
Import ListNotations.
Open Scope Z_scope.

(** For every administrator state, every sequence of operations (parameter changes, check-ins of any
    number of flights with debit on or off, daily updates, promise-making with current or stale
    proposals, traveller close/reopen) and every stored traveller: the balance is the sum of all
    transactions ever applied, added in the order they were applied, and the stored 100-entry window
    holds exactly the newest ones.  Holds for every number type, i.e. bit for bit for float64. *)
Theorem C01_balance_is_the_ledger_sum :
  forall (N : NumOps) (a : admin N) (ops : list (@eng_op N)) k t,
  tget (e_table (fold_left e_apply ops (engine0 a))) k = Some t ->
  t_balance t = seqsum (t_ledger t) /\ t_txs t = window (t_ledger t).
Proof. exact @reachable_ledger_invariant. Qed.
Print Assumptions C01_balance_is_the_ledger_sum.

(** Where addition is commutative and associative (exact arithmetic) the order does not matter:
    the balance is the sum of the transactions in any order. *)
Theorem C01_sum_in_any_order : forall (N : NumOps), AddLaws (N:=N) ->
  forall l l' : list (tx N), Permutation l l' -> seqsum l = seqsum l'.
Proof. exact @seqsum_perm. Qed.
Print Assumptions C01_sum_in_any_order.

(** An accepted check-in of f1..fn appends exactly, per flight in order, one flight transaction of
    minus its distance and (when the taxi overhead is not zero) one of minus the overhead when
    debiting, and nothing when not debiting (balance-correction option off). *)
Theorem C01_checkin_debits_exactly : forall (N : NumOps) fs (t : traveller N) pc now p debit t' pc',
  has_bit (pAlgo p) pamCorrectBalances = false ->
  submit_loop t pc fs now p debit = inl (t', pc') ->
  t_ledger t' = checkin_entries fs now (pTaxi p) debit ++ t_ledger t.
Proof. exact @submit_loop_ledger. Qed.
Print Assumptions C01_checkin_debits_exactly.

Theorem C01_nondebiting_checkin_leaves_balance : forall (N : NumOps) fs (t : traveller N) pc now p t' pc',
  has_bit (pAlgo p) pamCorrectBalances = false ->
  submit_loop t pc fs now p false = inl (t', pc') -> t_ledger t' = t_ledger t.
Proof. exact @nondebit_checkin_no_entries. Qed.
Print Assumptions C01_nondebiting_checkin_leaves_balance.

(** With any option setting the ledger only grows and the invariant is kept. *)
Theorem C01_checkin_only_appends : forall (N : NumOps) fs (t : traveller N) pc now p debit t' pc',
  submit_loop t pc fs now p debit = inl (t', pc') -> exists new, t_ledger t' = new ++ t_ledger t.
Proof. exact @submit_loop_grows. Qed.
Print Assumptions C01_checkin_only_appends.

(** A refused or failed submission leaves every stored traveller record unchanged. *)
Theorem C01_refused_submission_stores_nothing : forall (N : NumOps) (e : engine N) k fs now debit e' err,
  submit_flights e k fs now debit = (e', Some err) -> e_table e' = e_table e.
Proof. exact @submit_flights_error_noop. Qed.
Print Assumptions C01_refused_submission_stores_nothing.

(** The daily update applies at most one transaction per traveller: the share, as a daily-share entry,
    exactly when it decides to credit. *)
Theorem C01_update_appends_at_most_the_share : forall (N : NumOps) (t : traveller N) p share now w c,
  update_traveller t p share now = (w, c) ->
  let t' := match w with Some t' => t' | None => t end in
  t_ledger t' = (if c_grounded c then [{| tx_date := now; tx_dist := share; tx_type := TTDailyShare |}] else []) ++ t_ledger t /\
  (Linv t -> Linv t').
Proof. exact @update_traveller_ledger. Qed.
Print Assumptions C01_update_appends_at_most_the_share.

(** Non-vacuity on the exact instance: a debiting two-flight check-in with taxi overhead, then a credit. *)
Definition p1 : params NumZ := mkParams (N:=NumZ) 2 4 1 9000 1 0 0 0 0 0 0 0 7 1.
Definition fz (s d : Z) : flight NumZ := mkFlight (N:=NumZ) Fl s (s + 100) 1 2 d.
Definition ex1 : list (@eng_op NumZ) :=
  [OSubmit 5 [fz (10 * 86400 + 1) 300; fz (10 * 86400 + 500) 200] (10 * 86400) true;
   OUpdate (14 * 86400) []; OUpdate (15 * 86400) []].
Example C01_nonvacuous :
  match tget (e_table (fold_left e_apply ex1 (engine0 {| a_params := p1; a_pred := PNone; a_pc := empty_pc; a_grounded := 0 |}))) 5 with
  | Some t => t_balance t = -300 - 7 - 200 - 7 + 9000 /\ map (@tx_dist NumZ) (t_ledger t) = [9000; -7; -200; -7; -300]
  | None => False
  end.
Proof. vm_compute. auto. Qed.
