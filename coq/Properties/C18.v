(** C18 — Flight distance is a well-behaved great-circle metric.
    PARTIAL.  Proved here:
    (1) for the exact (real-number) formula the code evaluates - d = 2R asin(sqrt(hav(dphi) +
        cos phi1 cos phi2 hav(dlambda))) - on valid latitudes: the argument of asin(sqrt(.)) lies in
        [0,1], 0 <= d <= pi R, d(p,p) = 0, symmetry, and the triangle inequality (the central angle is
        the angle between unit vectors; Cauchy-Schwarz);
    (2) for the binary64 port of the code (Model/Geo.v, Go's math.Cos / math.Asin included, compared
        bit for bit with the real functions on every run): bit-exact symmetry for ALL floats, the
        rejection rule (exactly the coordinates outside +-90 / +-180, NaN included), NewFlight's
        argument rule, and exact zero for identical points provided the intermediate values are finite.
    NOT proved: that binary64 rounding keeps the computed value finite, within [0, pi R] and within
    rounding of the real formula (no error analysis of the polynomial kernels is attempted).  Those
    parts are checked on the real code by the harness monitors over poles, antimeridian, antipodal,
    near-antipodal and coincident points. *)
From Coq Require Import Reals ZArith Floats.
From Flap Require Import Model.NumF Model.Geo Proofs.GeoP Proofs.GeoFloatP.

Theorem C18_real_argument_in_unit_interval : forall p1 l1 p2 l2 : R,
  lat_ok p1 -> lat_ok p2 -> (0 <= rarg p1 l1 p2 l2 <= 1)%R.
Proof. exact rarg_range. Qed.
Print Assumptions C18_real_argument_in_unit_interval.

Theorem C18_real_distance_range : forall radius p1 l1 p2 l2 : R,
  (0 <= radius)%R -> lat_ok p1 -> lat_ok p2 ->
  (0 <= rdist radius p1 l1 p2 l2 <= PI * radius)%R.
Proof. exact rdist_range. Qed.
Print Assumptions C18_real_distance_range.

Theorem C18_real_distance_same_point_zero : forall radius p l : R, rdist radius p l p l = 0%R.
Proof. exact rdist_same. Qed.
Print Assumptions C18_real_distance_same_point_zero.

Theorem C18_real_distance_symmetric : forall radius p1 l1 p2 l2 : R,
  rdist radius p1 l1 p2 l2 = rdist radius p2 l2 p1 l1.
Proof. exact rdist_sym. Qed.
Print Assumptions C18_real_distance_symmetric.

Theorem C18_real_triangle_inequality : forall radius pa la pb lb pc lc : R,
  (0 <= radius)%R -> lat_ok pa -> lat_ok pb -> lat_ok pc ->
  (rdist radius pa la pc lc <= rdist radius pa la pb lb + rdist radius pb lb pc lc)%R.
Proof. exact rdist_triangle. Qed.
Print Assumptions C18_real_triangle_inequality.

Theorem C18_valid_degrees_are_valid_latitudes : forall d : R, (-90 <= d <= 90)%R -> lat_ok (rdeg d).
Proof. exact rdeg_lat_ok. Qed.
Print Assumptions C18_valid_degrees_are_valid_latitudes.

Theorem C18_float_distance_symmetric_bit_for_bit : forall lat1 lon1 lat2 lon2 : float,
  distance lat1 lon1 lat2 lon2 = distance lat2 lon2 lat1 lon1.
Proof. exact distance_sym. Qed.
Print Assumptions C18_float_distance_symmetric_bit_for_bit.

Theorem C18_float_rejects_exactly_invalid_coordinates : forall lat1 lon1 lat2 lon2 : float,
  distance lat1 lon1 lat2 lon2 = None <-> valid_latlon lat1 lon1 = false \/ valid_latlon lat2 lon2 = false.
Proof. exact distance_rejects_iff. Qed.
Print Assumptions C18_float_rejects_exactly_invalid_coordinates.

Theorem C18_float_validity_rule : forall lat lon : float,
  valid_latlon lat lon = true <-> PrimFloat.leb (fabs lat) c90 = true /\ PrimFloat.leb (fabs lon) c180 = true.
Proof. exact valid_latlon_spec. Qed.
Print Assumptions C18_float_validity_rule.

Theorem C18_nan_coordinates_rejected : forall x : float, valid_latlon nan x = false /\ valid_latlon x nan = false.
Proof. exact (fun x => conj (nan_latitude_invalid x) (nan_longitude_invalid x)). Qed.
Print Assumptions C18_nan_coordinates_rejected.

Theorem C18_new_flight_argument_rule : forall s e : Z, new_flight_ok s e = true <-> (0 < s /\ s < e)%Z.
Proof. exact new_flight_ok_spec. Qed.
Print Assumptions C18_new_flight_argument_rule.

Theorem C18_float_distance_same_point_zero_partial : forall lat lon : float,
  valid_latlon lat lon = true ->
  fin (deg_rad lat) = true -> fin (deg_rad lon) = true ->
  fin (go_cos (deg_rad lat) * go_cos (deg_rad lat))%float = true ->
  distance lat lon lat lon = Some 0%float.
Proof. exact distance_same_partial. Qed.
Print Assumptions C18_float_distance_same_point_zero_partial.

(** non-vacuity: concrete valid points meet the hypotheses *)
Example C18_hypotheses_hold_somewhere :
  (let lat := of_bits 4632431940331898929 in let lon := of_bits 13822225939774613821 in
   valid_latlon lat lon = true /\ fin (deg_rad lat) = true /\ fin (deg_rad lon) = true /\
   fin (go_cos (deg_rad lat) * go_cos (deg_rad lat))%float = true) /\ lat_ok (rdeg 51).
Proof. split; [exact distance_same_hyps_hold | apply rdeg_lat_ok; split; Lra.lra]. Qed.
