(** C09 — Accepted proposals keep the promise book consistent and satisfiable.
    Statements only; proofs in Proofs/PromisesP.v.  NOTHING is assumed about the predictor: the
    theorems hold for every record of functions [pr], i.e. under any evolution of the daily-share
    predictor, both predictor types and any bugs they may have. *)
From Coq Require Import ZArith List.
From Flap Require Import Model.Num Model.NumZ Model.Promises Proofs.PromisesP.
Import ListNotations.
Open Scope Z_scope.

(** [Inv mx b]: ten slots; promises ordered by trip start, trips not overlapping (every older trip ends
    before every newer one starts), no gaps; every promise's clearance date is no later than the start
    of the next promised trip; stack indices within 0..mx. *)

(** An accepted proposal against a consistent book yields a consistent book in which every previously
    made promise keeps its trip dates and distances; only the oldest promise (slot 10) is dropped, and
    only if its trip has already ended. *)
Theorem C09_accepted_proposal_keeps_book_consistent :
  forall (N : NumOps) mx (b : book N) ts te d tr now (pr : predictor N) pp,
  1 <= mx -> 0 <= now -> te < tmax -> Inv mx b ->
  propose b ts te d tr now pr mx = inl pp ->
  Inv mx (pp_entries pp) /\ inserted b (pp_entries pp) now (ts, te, d, tr) /\ pp_version pp = pr_version pr.
Proof. exact @propose_spec. Qed.
Print Assumptions C09_accepted_proposal_keeps_book_consistent.

(** No chain of brought-forward promises outgrows the stack index of its newest member ... *)
Theorem C09_chains_bounded_by_stack_index :
  forall (N : NumOps) mx (b : book N) ts te d tr now (pr : predictor N) pp,
  Inv mx b -> ChainInv b -> propose b ts te d tr now pr mx = inl pp -> ChainInv (pp_entries pp).
Proof. exact @propose_chain. Qed.
Print Assumptions C09_chains_bounded_by_stack_index.

(** ... so over any sequence of proposals (accepted ones applied, refused ones ignored; a different
    predictor at every step): the book is always consistent and no chain is longer than the maximum. *)
Theorem C09_every_reachable_book : forall (N : NumOps) mx (rs : list (@proposal_req N)),
  1 <= mx -> Forall req_ok rs ->
  let b := fold_left (apply_req mx) rs empty_book in
  Inv mx b /\ ChainInv b /\
  (forall i, (i < MaxPromises)%nat -> p_bf (getp b i) = true -> chain b i <= mx).
Proof. exact @reachable_books. Qed.
Print Assumptions C09_every_reachable_book.

(** Non-vacuity: three proposals with a predictor that always clears late (forcing stacking) produce a
    consistent book with a brought-forward promise. *)
Definition late : predictor NumZ :=
  mkPred (N:=NumZ) (fun _ sd => Some (sd + 40)) (fun _ _ => Some 1) 3.
Definition D := 86400.
Definition reqs : list (@proposal_req NumZ) :=
  [PReq (N:=NumZ) (100 * D) (102 * D) 500 480 (90 * D) late; PReq (N:=NumZ) (110 * D) (111 * D) 300 300 (90 * D) late;
   PReq (N:=NumZ) (105 * D) (106 * D) 200 200 (91 * D) late].
Example C09_nonvacuous :
  let b := fold_left (apply_req 2) reqs empty_book in
  map (@p_ts NumZ) (firstn 4 b) = [110 * D; 105 * D; 100 * D; 0] /\
  map (@p_clear NumZ) (firstn 3 b) = [152 * D; 110 * D; 105 * D] /\
  map (@p_stack NumZ) (firstn 3 b) = [0; 2; 1] /\ map (@p_bf NumZ) (firstn 3 b) = [false; true; true].
Proof. vm_compute. auto. Qed.
