(** C10 — Proposing is side-effect free; a proposal is applied only while still current.
    Statements only; proofs in Proofs/PromisesP.v and Proofs/PredictorP.v.
    In the model a proposal is computed by a function that returns no state at all
    ([engine_propose : engine -> ... -> propose_result]), so its purity is its type; what ties
    that to the code is the per-run check that the real Propose leaves every table and the
    administrator state bit-identical (harness monitor + correspondence). *)
From Coq Require Import ZArith List.
From Flap Require Import Model.Num Model.NumZ Model.TripHistory Model.Promises Model.Predictor Model.Engine
  Proofs.PromisesP Proofs.PredictorP Proofs.ProposeP.
Import ListNotations.
Open Scope Z_scope.

(** ---- refusals ---- *)
Theorem C10_refused_when_promises_disabled : forall (N : NumOps) (e : engine N) k f fs te now,
  valid_predictor (a_pred (e_admin e)) = false ->
  engine_propose e k (f :: fs) te now = PrErr EPromisesNotEnabled.
Proof. exact @propose_disabled. Qed.
Print Assumptions C10_refused_when_promises_disabled.

Theorem C10_refused_without_flights : forall (N : NumOps) (e : engine N) k te now,
  engine_propose e k [] te now = PrErr EInvalidArg.
Proof. exact @propose_no_flights. Qed.
Print Assumptions C10_refused_without_flights.

Theorem C10_refused_when_trip_starts_in_the_past :
  forall (N : NumOps) (b : book N) ts te d tr now (pr : predictor N) mx,
  ts < now -> refused (propose b ts te d tr now pr mx).
Proof. exact @propose_refuses_past. Qed.
Print Assumptions C10_refused_when_trip_starts_in_the_past.

Theorem C10_refused_without_positive_distance :
  forall (N : NumOps) (b : book N) ts te d tr now (pr : predictor N) mx,
  kleb N d (k0 N) = true -> refused (propose b ts te d tr now pr mx).
Proof. exact @propose_refuses_nonpositive_distance. Qed.
Print Assumptions C10_refused_without_positive_distance.

Theorem C10_refused_when_overlapping_a_promised_trip :
  forall (N : NumOps) mx (b : book N) ts te d tr now (pr : predictor N) j,
  1 <= mx -> 0 <= now -> te < tmax -> Inv mx b -> (j < MaxPromises)%nat ->
  p_ts (getp b j) <> 0 -> p_ts (getp b j) <= te -> ts <= p_te (getp b j) ->
  refused (propose b ts te d tr now pr mx).
Proof. exact @propose_refuses_overlap. Qed.
Print Assumptions C10_refused_when_overlapping_a_promised_trip.

Theorem C10_refused_when_no_room : forall (N : NumOps) (b : book N) ts te d tr now (pr : predictor N) mx,
  p_ts (getp b (MaxPromises - 1)) > 0 -> now <= p_te (getp b (MaxPromises - 1)) ->
  refused (propose b ts te d tr now pr mx).
Proof. exact @propose_refuses_no_room. Qed.
Print Assumptions C10_refused_when_no_room.

(** beyond the horizon (engine level) *)
Theorem C10_refused_beyond_horizon : forall (N : NumOps) (e : engine N) k f fs te now,
  valid_predictor (a_pred (e_admin e)) = true ->
  let ts := fold_left (fun m g => Z.min m (fstart g)) (f :: fs) max_epoch in
  pMaxDays (a_params (e_admin e)) < to_epoch_days ts true - to_epoch_days now false ->
  engine_propose e k (f :: fs) te now = PrErr ETripTooFarAhead.
Proof. exact @propose_beyond_horizon. Qed.
Print Assumptions C10_refused_beyond_horizon.

(** chain capacity: an accepted proposal never produces a stack index above the maximum (so a trip
    that would need a longer chain is refused) — see C09. *)

(** ---- making ---- *)
Theorem C10_make_applies_iff_current : forall (N : NumOps) (b : book N) pp (pr : predictor N),
  (pr_version pr = pp_version pp -> make b pp pr = inl (pp_entries pp)) /\
  (pr_version pr <> pp_version pp -> make b pp pr = inr EProposalExpired).
Proof. exact @make_iff_current. Qed.
Print Assumptions C10_make_applies_iff_current.

Theorem C10_failed_make_changes_nothing : forall (N : NumOps) (e : engine N) k pp now,
  snd (engine_make e k pp now) <> None -> fst (engine_make e k pp now) = e.
Proof. exact @failed_make_noop. Qed.
Print Assumptions C10_failed_make_changes_nothing.

Theorem C10_make_installs_exactly_the_proposal : forall (N : NumOps) (e : engine N) k pp now,
  snd (engine_make e k pp now) = None ->
  exists t, tget (e_table (fst (engine_make e k pp now))) k = Some t /\ t_book t = pp_entries pp /\
            t_hist t = t_hist (get_create e k now) /\ t_balance t = t_balance (get_create e k now) /\
            t_kept t = t_kept (get_create e k now) /\ t_txs t = t_txs (get_create e k now).
Proof. exact @make_installs_proposal. Qed.
Print Assumptions C10_make_installs_exactly_the_proposal.

(** "the prediction model has not changed" is what the version tracks: it moves exactly when the
    stored fit moves, and never backwards *)
Theorem C10_linear_version_changes_iff_fit_changes : forall (N : NumOps) (b : bestfit N) x y,
  let b' := bf_add b x y in
  (bf_pv b' = bf_pv b -> bf_m b' = bf_m b /\ bf_c b' = bf_c b) /\
  (bf_pv b' <> bf_pv b -> bf_pv b' = bf_pv b + 1 /\
                          (kneb N (bf_c b) (bf_c b') = true \/ kneb N (bf_m b) (bf_m b') = true)).
Proof. exact @bf_version_iff_fit. Qed.
Print Assumptions C10_linear_version_changes_iff_fit_changes.

Theorem C10_polynomial_version_changes_iff_fit_changes : forall (N : NumOps) (p : polyfit N) y fit,
  let p' := pf_add p y fit in
  (pf_pv p' = pf_pv p -> pf_consts p' = pf_consts p) /\
  (pf_pv p' <> pf_pv p -> pf_pv p' = pf_pv p + 1 /\ pf_consts p' = fit /\ klist_eqb fit (pf_consts p) = false).
Proof. exact @pf_version_iff_fit. Qed.
Print Assumptions C10_polynomial_version_changes_iff_fit_changes.

Theorem C10_version_never_decreases : forall (N : NumOps) (p : pred_state N) x y fit,
  pred_version p <= pred_version (pred_add p x y fit).
Proof. exact @pred_version_mono. Qed.
Print Assumptions C10_version_never_decreases.
