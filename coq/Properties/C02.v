(** C02 — A check-in is refused exactly when the traveller is grounded.
    Statements only; proofs in Proofs/ClearedP.v. *)
From Coq Require Import ZArith List.
From Flap Require Import Model.Num Model.NumZ Model.TripHistory Model.Promises Model.Predictor Model.Engine
  Proofs.THOrder Proofs.ClearedP Proofs.EngineInv.
Import ListNotations.
Open Scope Z_scope.

(** [grounded t now] := not mid-trip, balance not >= 0, and no kept promise whose (refreshed)
    clearance date has been reached — the property's three conditions. *)

(** One flight: refused as grounded if and only if grounded — for every account state and time. *)
Theorem C02_refused_iff_grounded : forall (N : NumOps) (t : traveller N) f now taxi debit,
  submit_flight t f now taxi debit = inr EGrounded <-> grounded t now.
Proof. exact @submit_flight_grounded_iff. Qed.
Print Assumptions C02_refused_iff_grounded.

(** The same at the engine's API, on the stored record (or the fresh one of an unknown traveller). *)
Theorem C02_engine_refuses_iff_grounded : forall (N : NumOps) (e : engine N) k f now debit,
  snd (submit_flights e k [f] now debit) = Some EGrounded <-> grounded (get_create e k now) now.
Proof. exact @submit_one_grounded_iff. Qed.
Print Assumptions C02_engine_refuses_iff_grounded.

Theorem C02_mid_trip_never_refused : forall (N : NumOps) (t : traveller N) now,
  mid_trip (t_hist t) = true -> ~ grounded t now.
Proof. exact @mid_trip_never_grounded. Qed.
Print Assumptions C02_mid_trip_never_refused.

Theorem C02_never_flown_never_refused : forall (N : NumOps) now now', ~ grounded (new_traveller (N:=N) now') now.
Proof. exact @never_flown_never_grounded. Qed.
Print Assumptions C02_never_flown_never_refused.

(** zero (and any balance that is >= 0) is cleared *)
Theorem C02_in_credit_is_cleared : forall (N : NumOps) (t : traveller N) now,
  kleb N (k0 N) (t_balance t) = true -> ~ grounded t now.
Proof. exact @in_credit_never_grounded. Qed.
Print Assumptions C02_in_credit_is_cleared.

Theorem C02_kept_promise_due_is_cleared : forall (N : NumOps) (t : traveller N) now,
  0 < refreshed_clearance t <= now -> ~ grounded t now.
Proof. exact @kept_promise_due_never_grounded. Qed.
Print Assumptions C02_kept_promise_due_is_cleared.

(** All flights of one submission are accepted or refused together. *)
Theorem C02_all_or_nothing : forall (N : NumOps) (e : engine N) k fs now debit,
  snd (submit_flights e k fs now debit) <> None ->
  e_table (fst (submit_flights e k fs now debit)) = e_table e.
Proof. exact @submit_all_or_nothing. Qed.
Print Assumptions C02_all_or_nothing.

(** A submission of any number of flights, in any order (with the repair: clearance is decided once per
    check-in, at its first flight): refused as grounded if and only if the traveller is grounded at
    the moment of the check-in. *)
Theorem C02_any_submission_refused_iff_grounded : forall (N : NumOps) (t : traveller N) pc f r now p debit,
  submit_loop t pc (f :: r) now p debit = inr EGrounded <-> grounded t now.
Proof. exact @submission_grounded_iff. Qed.
Print Assumptions C02_any_submission_refused_iff_grounded.

Theorem C02_any_submission_at_the_engine : forall (N : NumOps) (e : engine N) k f r now debit,
  snd (submit_flights e k (f :: r) now debit) = Some EGrounded <-> grounded (get_create e k now) now.
Proof. exact @submit_flights_grounded_iff. Qed.
Print Assumptions C02_any_submission_at_the_engine.

(** Non-vacuity / regression witness: the two-flight submission whose first flight is older than the
    stored trip-end head - refused by the code before the repair although the traveller was in credit -
    is accepted. *)
Definition p2 : params NumZ := mkParams (N:=NumZ) 2 4 1 0 0 0 0 0 0 0 0 0 0 1.
Definition gz (s d : Z) : flight NumZ := mkFlight (N:=NumZ) Fl s (s + 100) 1 2 d.
Definition e2 : engine NumZ :=
  fold_left e_apply [OSubmit 5 [gz (10 * 86400 + 1) 300] (10 * 86400) false; OUpdate (14 * 86400) []]
            (engine0 {| a_params := p2; a_pred := PNone; a_pc := empty_pc; a_grounded := 0 |}).
Example C02_out_of_order_submission_accepted :
  ~ grounded (get_create e2 5 (15 * 86400)) (15 * 86400) /\
  snd (submit_flights e2 5 [gz (9 * 86400) 50; gz (15 * 86400 + 7) 60] (15 * 86400) true) = None.
Proof.
  split; [|vm_compute; reflexivity].
  apply in_credit_never_grounded. vm_compute. reflexivity.
Qed.
