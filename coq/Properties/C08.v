(** C08 — A made promise is honoured when the promised trip is flown.
    Statements only; proofs in Proofs/KeepP.v (using the C09 invariant of Proofs/PromisesP.v and the
    C02 decision lemmas of Proofs/ClearedP.v). *)
From Coq Require Import ZArith List Floats.
From Flap Require Import Model.Num Model.NumZ Model.NumF Model.TripHistory Model.Promises Model.Predictor Model.Engine
  Proofs.THLimits Proofs.PromisesP Proofs.ClearedP Proofs.KeepP.
Import ListNotations.
Open Scope Z_scope.

(** Kept when flown.  [open_run] is the open trip (newest first), [sum_dist] adds distances in list
    order.  Propose adds the travelled distance over [newest_first fs], the history stores flights
    newest first: the same fold over the same list, so the equality the code tests with == holds
    whenever the flown flights are the promised ones - for any number of flights and any distances
    (hypothesis [keqb (p_trav p) (sum_dist run) = true]; for float64 that is reflexivity of == on a
    non-NaN value).  The daily update calls [keep_promise] for every traveller (C03). *)
Theorem C08_promise_kept_when_promised_trip_is_flown :
  forall (N : NumOps) mx (t : traveller N) i,
  Inv mx (t_book t) -> (i < MaxPromises)%nat ->
  let p := getp (t_book t) i in
  let run := open_run (entries (t_hist t)) in
  mid_trip (t_hist t) = true -> hempty (t_hist t) = false ->
  p_ts p <> 0 -> p_ts p <= open_start (entries (t_hist t)) ->
  fend (getf (entries (t_hist t)) 0) <= p_te p ->
  open_start (entries (t_hist t)) <= fend (getf (entries (t_hist t)) 0) ->
  kltb N (k0 N) (sum_dist run) = true ->
  keqb N (p_trav p) (sum_dist run) = true ->
  keqb N (sum_dist run) (k0 N) = false ->
  let '(t', kept) := keep_promise t in
  kept = true /\ t_kept t' = p /\ mid_trip (t_hist t') = false /\
  t_balance t' = t_balance t /\ t_book t' = t_book t.
Proof. exact @promise_kept_when_flown. Qed.
Print Assumptions C08_promise_kept_when_promised_trip_is_flown.

(** From the clearance date on the next check-in is accepted whatever the balance, consumes the kept
    promise and hands (balance at clearance, promised distance) to the correction. *)
Theorem C08_checkin_from_clearance_date_accepted_and_consumes_promise :
  forall (N : NumOps) (t : traveller N) (f : flight N) now taxi debit,
  mid_trip (t_hist t) = false -> 0 < refreshed_clearance t <= now ->
  match submit_flight t f now taxi debit with
  | inl (t', bac, pd) => t_kept t' = empty_promise /\ bac = t_balance t /\ pd = p_dist (t_kept t)
  | inr e => e = EFlightTooOldE
  end.
Proof. exact @kept_promise_due_checkin. Qed.
Print Assumptions C08_checkin_from_clearance_date_accepted_and_consumes_promise.

(** Before it, only if in credit. *)
Theorem C08_before_clearance_date_only_in_credit : forall (N : NumOps) (t : traveller N) now,
  mid_trip (t_hist t) = false -> now < refreshed_clearance t ->
  (grounded t now <-> kleb N (k0 N) (t_balance t) = false).
Proof. exact @kept_promise_not_due_checkin. Qed.
Print Assumptions C08_before_clearance_date_only_in_credit.

(** Meanwhile the negative balance keeps being backfilled: the credit decision (C03, [credited]) does
    not look at the kept promise at all. *)

(** Making further promises never cancels a kept promise. *)
Theorem C08_make_does_not_touch_kept_promise : forall (N : NumOps) (e : engine N) k pp now t,
  tget (e_table e) k = Some t ->
  forall t', tget (e_table (fst (engine_make e k pp now))) k = Some t' -> t_kept t' = t_kept t.
Proof. exact @make_keeps_kept_promise. Qed.
Print Assumptions C08_make_does_not_touch_kept_promise.

Theorem C08_kept_clearance_stands_when_entry_left_the_book : forall (N : NumOps) (t : traveller N),
  p_clear (t_kept t) <> 0 -> match_promise (t_book t) (t_kept t) = None ->
  refreshed_clearance t = p_clear (t_kept t).
Proof. exact @kept_clearance_survives_leaving_the_book. Qed.
Print Assumptions C08_kept_clearance_stands_when_entry_left_the_book.

(** Proposals made while the promised trip is in progress never drop its promise. *)
Theorem C08_promise_of_trip_in_progress_is_never_dropped :
  forall (N : NumOps) mx (b : book N) ts te d tr now (pr : predictor N) pp j,
  1 <= mx -> 0 <= now -> te < tmax -> Inv mx b -> propose b ts te d tr now pr mx = inl pp ->
  (j < MaxPromises)%nat -> p_ts (getp b j) <> 0 -> now <= p_te (getp b j) ->
  exists j', (j' < MaxPromises)%nat /\ core (getp (pp_entries pp) j') = core (getp b j).
Proof. exact @promise_of_trip_in_progress_not_dropped. Qed.
Print Assumptions C08_promise_of_trip_in_progress_is_never_dropped.

(** Why the order of summation matters (the defect repaired in Engine.Propose): in float64 the legs
    0.1, 0.2, 0.3 add up to different numbers in the two orders, so == fails. *)
Lemma C08_summation_order_matters_in_float64 :
  let a := of_bits 0x3FB999999999999A in let b := of_bits 0x3FC999999999999A in let c := of_bits 0x3FD3333333333333 in
  PrimFloat.eqb ((0 + a + b + c)%float) ((0 + c + b + a)%float) = false.
Proof. vm_compute. reflexivity. Qed.
Print Assumptions C08_summation_order_matters_in_float64.

(** Non-vacuity (exact instance): a two-leg promise is made, both legs are flown, keep closes the trip. *)
Definition pz : predictor NumZ := mkPred (N:=NumZ) (fun _ sd => Some (sd + 3)) (fun _ _ => Some 0) 1.
Definition fzz (s d : Z) : flight NumZ := mkFlight (N:=NumZ) Fl s (s + 3600) 1 2 d.
Example C08_nonvacuous :
  match propose (N:=NumZ) empty_book (100 * 86400) (104 * 86400) 700 650 (90 * 86400) pz 2 with
  | inl pp =>
      match add_flight empty_hist (fzz (100 * 86400 + 50) 250) with
      | inl h1 => match add_flight h1 (fzz (103 * 86400 + 50) 400) with
                  | inl h2 =>
                      let t := {| t_created := 0; t_hist := h2; t_txs := []; t_book := pp_entries pp;
                                  t_kept := empty_promise; t_balance := -650; t_ledger := [] |} in
                      let '(t', kept) := keep_promise t in
                      kept = true /\ p_clear (t_kept t') = 107 * 86400 /\ mid_trip (t_hist t') = false
                  | inr _ => False end
      | inr _ => False end
  | inr _ => False
  end.
Proof. vm_compute. auto. Qed.
