(** C05 — Nobody stays mid-trip beyond the trip limits; ended trips stay ended.
    Statements only (every NumOps instance, no arithmetic on distances is involved);
    proofs in Proofs/THLimits.v. *)
From Coq Require Import ZArith List.
From Flap Require Import Model.Num Model.NumZ Model.TripHistory Proofs.THBasics Proofs.THOrder Proofs.THLimits.
Import ListNotations.
Open Scope Z_scope.

(** For every history reachable by any sequence of flight reports (any order, ties, full
    histories), removals, traveller close/reopen and updates, every parameter set and every update
    time: after a successful update, a traveller who is still mid-trip has an open trip (the stored
    flights after the last trip end) that started at most TripLength whole days before the update
    and holds fewer than FlightsInTrip flights. *)
Theorem C05_no_one_mid_trip_beyond_limits :
  forall (N : NumOps) (ops : list (@thop N)) p now h' dy fy,
  Forall op_ok ops ->
  update (fold_left apply_op ops empty_hist) p now = inl (h', dy, fy) ->
  mid_trip h' = true ->
  days_between (open_start (entries h')) now <= TripLength p /\
  open_count (entries h') < FlightsInTrip p.
Proof. exact @reachable_update_enforces_limits. Qed.
Print Assumptions C05_no_one_mid_trip_beyond_limits.

(** The same for any history satisfying the (proved) representation invariant. *)
Theorem C05_limits_from_invariant : forall (N : NumOps) (h : hist N) p now h' dy fy,
  ordered h -> (oc h < MaxFlights)%nat -> update h p now = inl (h', dy, fy) -> mid_trip h' = true ->
  days_between (open_start (entries h')) now <= TripLength p /\ open_count (entries h') < FlightsInTrip p.
Proof. exact @update_enforces_limits. Qed.
Print Assumptions C05_limits_from_invariant.

(** An ended trip with nothing reported since the last update is left exactly as it is. *)
Theorem C05_update_of_ended_trip_is_noop : forall (N : NumOps) (h : hist N) p now,
  mid_trip h = false -> oc h = 0%nat -> now mod SecondsInDay = 0 -> update h p now = inr ENoChange.
Proof. exact @no_change_when_closed. Qed.
Print Assumptions C05_update_of_ended_trip_is_noop.

(** A trip that has ended (closed by an update, so oldestChange = 0, or closed by the traveller)
    stays ended across any number of later updates with any parameters and times. *)
Theorem C05_ended_trips_stay_ended : forall (N : NumOps) (ops : list (@thop N)) us,
  Forall op_ok ops ->
  let h := fold_left apply_op ops empty_hist in
  mid_trip h = false -> (oc h = 0%nat \/ et (getf (entries h) 0) = TTEnd) ->
  mid_trip (run_updates h us) = false.
Proof. exact @reachable_ended_stays_ended. Qed.
Print Assumptions C05_ended_trips_stay_ended.

(** every successful update resets oldestChange, so the first alternative above holds right after it *)
Theorem C05_update_resets_oldest_change : forall (N : NumOps) (h : hist N) p now h' dy fy,
  length (entries h) = MaxFlights -> update h p now = inl (h', dy, fy) -> oc h' = 0%nat.
Proof. intros N h p now h' dy fy Hl Hu. exact (proj2 (update_R h p now h' dy fy Hl Hu)). Qed.
Print Assumptions C05_update_resets_oldest_change.

(** Non-vacuity: a reachable history where the update closes a trip by the duration limit and one
    where the traveller stays mid-trip within the limits. *)
Definition f5 (s : Z) : flight NumZ := mkFlight (N:=NumZ) Fl s (s + 3600) 1 2 100.
Definition p5 : thparams := {| TripLength := 3; FlightsInTrip := 4; FlightInterval := 1; Algo := 1 |}.
Example C05_nonvacuous :
  let h := fold_left apply_op [OAdd (f5 (10 * 86400 + 5)); OAdd (f5 (11 * 86400 + 5))] empty_hist in
  match update h p5 (12 * 86400) with
  | inl (h', _, _) => mid_trip h' = true /\ open_count (entries h') = 2 /\ open_start (entries h') = 10 * 86400 + 5
  | inr _ => False end /\
  match update h p5 (15 * 86400) with
  | inl (h', _, _) => mid_trip h' = false
  | inr _ => False end.
Proof. vm_compute. auto. Qed.
