(** Predictor versions: the version changes when and only when the stored fit changes (C10, C11). *)
From Coq Require Import ZArith List Bool Arith Lia.
From Flap Require Import Model.Num Model.NumZ Model.Promises Model.Predictor.
Import ListNotations.
Open Scope Z_scope.

Section WithNum.
Context {N : NumOps}.
Local Notation K := (K N).

Theorem bf_version_iff_fit (b : bestfit N) x y :
  let b' := bf_add b x y in
  (bf_pv b' = bf_pv b -> bf_m b' = bf_m b /\ bf_c b' = bf_c b) /\
  (bf_pv b' <> bf_pv b -> bf_pv b' = bf_pv b + 1 /\
                          (kneb N (bf_c b) (bf_c b') = true \/ kneb N (bf_m b) (bf_m b') = true)).
Proof.
  cbn zeta. unfold bf_add, calculate_line. cbn [bf_sm bf_m bf_c bf_pv].
  destruct (length (sm_ys (add_y (bf_sm b) y)) <? 2)%nat; cbn [bf_pv bf_m bf_c]; [split; [auto|intros C; contradiction]|].
  destruct (line_sums _ _ _ _) as [[[ySum xSum] xxSum] xySum].
  set (c := kdiv N _ _). set (m := kdiv N (ksub N (kmul N _ xySum) _) _).
  destruct (kneb N (bf_c b) c) eqn:Ec; cbn [orb bf_pv bf_m bf_c].
  - split; [intros H; lia|]. intros _. split; [reflexivity|left; exact Ec].
  - destruct (kneb N (bf_m b) m) eqn:Em; cbn [bf_pv bf_m bf_c].
    + split; [intros H; lia|]. intros _. split; [reflexivity|right; exact Em].
    + split; [auto|intros C; contradiction].
Qed.

Theorem pf_version_iff_fit (p : polyfit N) y fit :
  let p' := pf_add p y fit in
  (pf_pv p' = pf_pv p -> pf_consts p' = pf_consts p) /\
  (pf_pv p' <> pf_pv p -> pf_pv p' = pf_pv p + 1 /\ pf_consts p' = fit /\ klist_eqb fit (pf_consts p) = false).
Proof.
  cbn zeta. unfold pf_add.
  destruct (pf_degree p <? Z.of_nat (length (sm_ys (add_y (pf_sm p) y)))); cbn [pf_pv pf_consts].
  - destruct (klist_eqb fit (pf_consts p)) eqn:E; cbn [pf_pv pf_consts].
    + split; [auto|intros C; contradiction].
    + split; [intros H; lia|]. intros _. auto.
  - split; [auto|intros C; contradiction].
Qed.

(** versions never go down *)
Lemma pred_version_mono (p : pred_state N) x y fit : pred_version p <= pred_version (pred_add p x y fit).
Proof.
  destruct p as [|b|q]; cbn [pred_add pred_version]; [lia| |].
  - destruct (bf_version_iff_fit b x y) as [_ H]. cbn zeta in H.
    destruct (Z.eq_dec (bf_pv (bf_add b x y)) (bf_pv b)) as [E|E]; [lia|destruct (H E); lia].
  - destruct (pf_version_iff_fit q y fit) as [_ H]. cbn zeta in H.
    destruct (Z.eq_dec (pf_pv (pf_add q y fit)) (pf_pv q)) as [E|E]; [lia|destruct (H E); lia].
Qed.

End WithNum.

(** ---- C11: structural facts about the search of the polynomial predictor ---- *)
Section Poly.
Context {N : NumOps}.

(** the brute-force search never answers a day before the start day, unless it fell back to the
    "last share" estimate (start + int(distance / last share)) *)
Lemma pf_predict_loop_split (p : polyfit N) : forall a b d sd cd r,
  pf_predict_loop (a + b) p d sd cd r =
  match pf_predict_loop a p d sd cd r with
  | LDone z => LDone z
  | LOutOfFuel cd' r' => pf_predict_loop b p d sd cd' r'
  end.
Proof.
  induction a as [|k IH]; intros b d sd cd r; [reflexivity|].
  cbn [Nat.add pf_predict_loop].
  destruct (kltb N (k0 N) r); [|reflexivity].
  destruct (pf_predict_y p cd) as [dd|]; [|reflexivity].
  destruct (kltb N (k0 N) dd); [apply IH|reflexivity].
Qed.

(** running block by block is running the plain loop with the product as fuel *)
Lemma pf_predict_blocks_eq (p : polyfit N) block : forall blocks d sd cd r,
  pf_predict_blocks blocks block p d sd cd r = pf_predict_loop (blocks * block) p d sd cd r.
Proof.
  induction blocks as [|k IH]; intros d sd cd r; [reflexivity|].
  cbn [pf_predict_blocks Nat.mul]. rewrite pf_predict_loop_split.
  destruct (pf_predict_loop block p d sd cd r); [reflexivity|apply IH].
Qed.

Lemma pf_predict_eq_loop (p : polyfit N) d sd :
  pf_predict p d sd = match sm_ys (pf_sm p) with [] => None | _ => Some (pf_predict_loop predict_fuel p d sd sd d) end.
Proof. unfold pf_predict, predict_fuel. rewrite pf_predict_blocks_eq. reflexivity. Qed.

Lemma pf_predict_loop_not_early (p : polyfit N) : forall fuel d sd cd r z,
  sd <= cd -> pf_predict_loop fuel p d sd cd r = LDone z ->
  sd <= z \/ z = sd + ktruncZ N (kdiv N d (last_y (pf_sm p))).
Proof.
  induction fuel as [|k IH]; intros d sd cd r z Hc; cbn [pf_predict_loop]; [discriminate|].
  destruct (kltb N (k0 N) r).
  - destruct (pf_predict_y p cd) as [dd|].
    + destruct (kltb N (k0 N) dd).
      * intros E. apply (IH d sd (cd + 1) _ z ltac:(lia) E).
      * intros E. injection E as <-. right. reflexivity.
    + intros E. injection E as <-. right. reflexivity.
  - intros E. injection E as <-. left. exact Hc.
Qed.

Theorem pf_predict_not_early (p : polyfit N) d sd z :
  pf_predict p d sd = Some (LDone z) ->
  sd <= z \/ z = sd + ktruncZ N (kdiv N d (last_y (pf_sm p))).
Proof.
  rewrite pf_predict_eq_loop. generalize predict_fuel. intros fuel. destruct (sm_ys (pf_sm p)); [discriminate|]. intros E.
  assert (E' : pf_predict_loop fuel p d sd sd d = LDone z) by congruence.
  eapply pf_predict_loop_not_early; [|exact E']. lia.
Qed.

(** an empty predictor answers "no prediction" (the caller then uses the day after the trip) *)
Lemma pf_predict_empty (p : polyfit N) d sd : sm_ys (pf_sm p) = [] -> pf_predict p d sd = None.
Proof. intros H. unfold pf_predict. rewrite H. reflexivity. Qed.

Lemma bf_predict_uninitialised (b : bestfit N) bal start : kltb N (bf_c b) (k0 N) = true -> bf_predict b bal start = None.
Proof. intros H. unfold bf_predict. rewrite H. reflexivity. Qed.

End Poly.

(** ---- the linear predictor never answers a day before the start day ----
    Stated for every number instance that satisfies three facts about its conversions and order
    (they hold for exact arithmetic - proved below for NumZ - and, by monotonicity of IEEE rounding,
    for float64 at day magnitudes below 2^53; the float64 case is not proved here, it is what the
    bit-exact correspondence and the monitors check). *)
Section LinearNotEarly.
Context {N : NumOps}.

Record ConvLaws : Prop := {
  (* a number above the image of an integer rounds up to at least that integer *)
  ceil_above : forall z c, kltb N (kofZ N z) c = true -> z <= kceilZ N c;
  (* adding a non-negative number to the image of an integer and rounding up does not go below it *)
  ceil_add_nonneg : forall z x, kleb N (k0 N) x = true -> z <= kceilZ N (kadd N (kofZ N z) x);
  (* the "no answer" marker is not below the last representable day *)
  maxfloat_not_a_day : kltb N (kmaxfloat N) (kofZ N max_day) = false;
  (* the marker compares equal to itself only *)
  maxfloat_eq : forall c, keqb N c (kmaxfloat N) = true -> kltb N c (kofZ N max_day) = false }.

Lemma choice_fold_above (b : bestfit N) fs (ends : list (K N)) : forall ch,
  let r := fold_left (fun ch cand =>
             if kltb N fs cand && kltb N cand ch && kltb N (k0 N) (bf_calc_y b cand) then cand else ch) ends ch in
  r = ch \/ kltb N fs r = true.
Proof.
  induction ends as [|e t IH]; intros ch; cbn [fold_left]; [left; reflexivity|].
  destruct (kltb N fs e && kltb N e ch && kltb N (k0 N) (bf_calc_y b e)) eqn:E.
  - apply andb_true_iff in E. destruct E as [E _]. apply andb_true_iff in E. destruct E as [E _].
    destruct (IH e) as [H|H]; right; [cbv zeta in H; rewrite H; exact E|exact H].
  - apply IH.
Qed.

Theorem bf_predict_not_early (L : ConvLaws) (b : bestfit N) balance start z :
  kleb N (k0 N) (kdiv N balance (last_y (bf_sm b))) = true ->     (* a non-negative distance over a positive share *)
  bf_predict b balance start = Some z -> start <= z.
Proof.
  intros Hq. unfold bf_predict. destruct (kltb N (bf_c b) (k0 N)); [discriminate|].
  set (fs := kofZ N start).
  set (ends := qr _ _ _).
  pose proof (choice_fold_above b fs ends (kmaxfloat N)) as Hch0. cbv zeta in Hch0.
  set (ch0 := fold_left _ ends (kmaxfloat N)) in *.
  destruct (keqb N ch0 (kmaxfloat N)) eqn:Eeq.
  - destruct (sm_ys (bf_sm b)) as [|y0 ys] eqn:Eys.
    + rewrite (maxfloat_eq L ch0 Eeq). discriminate.
    + destruct (kltb N (kadd N fs (kdiv N balance (last_y (bf_sm b)))) (kofZ N max_day)); [|discriminate].
      intros E. injection E as <-. apply (ceil_add_nonneg L). exact Hq.
  - destruct (kltb N ch0 (kofZ N max_day)) eqn:Elt; [|discriminate].
    intros E. injection E as <-.
    destruct Hch0 as [H|H]; [rewrite H in Elt; rewrite (maxfloat_not_a_day L) in Elt; discriminate|].
    apply (ceil_above L). exact H.
Qed.

End LinearNotEarly.

(** exact arithmetic satisfies the three facts *)
Lemma ConvLaws_NumZ : @ConvLaws NumZ.
Proof.
  constructor; cbn.
  - intros z c H. apply Z.ltb_lt in H. lia.
  - intros z x H. apply Z.leb_le in H. lia.
  - vm_compute. reflexivity.
  - intros c H. apply Z.eqb_eq in H. subst c. vm_compute. reflexivity.
Qed.
