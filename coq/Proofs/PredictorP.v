(** Predictor versions: the version changes when and only when the stored fit changes (C10, C11). *)
From Coq Require Import ZArith List Bool Arith Lia.
From Flap Require Import Model.Num Model.Promises Model.Predictor.
Import ListNotations.
Open Scope Z_scope.

Section WithNum.
Context {N : NumOps}.
Local Notation K := (K N).

Theorem bf_version_iff_fit (b : bestfit N) x y :
  let b' := bf_add b x y in
  (bf_pv b' = bf_pv b -> bf_m b' = bf_m b /\ bf_c b' = bf_c b) /\
  (bf_pv b' <> bf_pv b -> bf_pv b' = bf_pv b + 1 /\
                          (kneb N (bf_c b) (bf_c b') = true \/ kneb N (bf_m b) (bf_m b') = true)).
Proof.
  cbn zeta. unfold bf_add, calculate_line. cbn [bf_sm bf_m bf_c bf_pv].
  destruct (length (sm_ys (add_y (bf_sm b) y)) <? 2)%nat; cbn [bf_pv bf_m bf_c]; [split; [auto|intros C; contradiction]|].
  destruct (line_sums _ _ _ _) as [[[ySum xSum] xxSum] xySum].
  set (c := kdiv N _ _). set (m := kdiv N (ksub N (kmul N _ xySum) _) _).
  destruct (kneb N (bf_c b) c) eqn:Ec; cbn [orb bf_pv bf_m bf_c].
  - split; [intros H; lia|]. intros _. split; [reflexivity|left; exact Ec].
  - destruct (kneb N (bf_m b) m) eqn:Em; cbn [bf_pv bf_m bf_c].
    + split; [intros H; lia|]. intros _. split; [reflexivity|right; exact Em].
    + split; [auto|intros C; contradiction].
Qed.

Theorem pf_version_iff_fit (p : polyfit N) y fit :
  let p' := pf_add p y fit in
  (pf_pv p' = pf_pv p -> pf_consts p' = pf_consts p) /\
  (pf_pv p' <> pf_pv p -> pf_pv p' = pf_pv p + 1 /\ pf_consts p' = fit /\ klist_eqb fit (pf_consts p) = false).
Proof.
  cbn zeta. unfold pf_add.
  destruct (pf_degree p <? Z.of_nat (length (sm_ys (add_y (pf_sm p) y)))); cbn [pf_pv pf_consts].
  - destruct (klist_eqb fit (pf_consts p)) eqn:E; cbn [pf_pv pf_consts].
    + split; [auto|intros C; contradiction].
    + split; [intros H; lia|]. intros _. auto.
  - split; [auto|intros C; contradiction].
Qed.

(** versions never go down *)
Lemma pred_version_mono (p : pred_state N) x y fit : pred_version p <= pred_version (pred_add p x y fit).
Proof.
  destruct p as [|b|q]; cbn [pred_add pred_version]; [lia| |].
  - destruct (bf_version_iff_fit b x y) as [_ H]. cbn zeta in H.
    destruct (Z.eq_dec (bf_pv (bf_add b x y)) (bf_pv b)) as [E|E]; [lia|destruct (H E); lia].
  - destruct (pf_version_iff_fit q y fit) as [_ H]. cbn zeta in H.
    destruct (Z.eq_dec (pf_pv (pf_add q y fit)) (pf_pv q)) as [E|E]; [lia|destruct (H E); lia].
Qed.

End WithNum.
