(** C20: the hypotheses of the characterisation of prepareWeights hold for every consistent book (the
    invariant of C09): its promises, oldest first, start in increasing order. *)
From Coq Require Import ZArith List Bool Arith Lia Sorting.Sorted.
From Flap Require Import Model.Num Model.Search Model.TripHistory Model.Promises Model.Bot
  Proofs.SearchP Proofs.PromisesP Proofs.KeepP Proofs.BotPlanP.
Import ListNotations.
Open Scope Z_scope.

Section WithNum.
Context {N : NumOps}.
Local Notation promise := (promise N).
Local Notation book := (book N).

Lemma firstn_snoc {A} (l : list A) n d : (n < length l)%nat -> firstn (S n) l = firstn n l ++ [nth n l d].
Proof.
  revert n. induction l as [|a l IH]; intros n Hn; cbn [length] in Hn; [lia|].
  destruct n as [|n]; [reflexivity|]. cbn [firstn nth app]. f_equal. apply IH. lia.
Qed.

Lemma nth_firstn_lt {A} (l : list A) n i d : (i < n)%nat -> nth i (firstn n l) d = nth i l d.
Proof.
  revert n i. induction l as [|a l IH]; intros n i Hi; [rewrite firstn_nil; reflexivity|].
  destruct n as [|n]; [lia|]. destruct i as [|i]; [reflexivity|]. cbn [firstn nth]. apply IH. lia.
Qed.

Lemma sorted_rev_firstn (mx : Z) (b : book) : Inv mx b -> forall n, (n <= book_count b)%nat ->
  StronglySorted (@ts_le N) (rev (firstn n b)).
Proof.
  intros HI. destruct (book_count_spec mx b HI) as (_ & Hnz & Hcm).
  pose proof (inv_len mx b HI) as Hlen.
  induction n as [|n IH]; intros Hn; [constructor|].
  assert (Hnl : (n < length b)%nat) by (rewrite Hlen; lia).
  rewrite (firstn_snoc b n empty_promise Hnl). rewrite rev_app_distr. cbn [rev app].
  constructor; [apply IH; lia|].
  apply Forall_forall. intros p Hp. apply in_rev in Hp. apply In_nth with (d := empty_promise) in Hp.
  destruct Hp as (i & Hi & Ep). rewrite firstn_length_le in Hi by lia. rewrite nth_firstn_lt in Ep by exact Hi.
  unfold ts_le. rewrite <- Ep. fold (getp b n). fold (getp b i).
  pose proof (inv_sep mx b HI i n Hi ltac:(lia) (Hnz n ltac:(lia))) as Hs.
  destruct (inv_wf mx b HI n ltac:(lia)) as [_ W]. specialize (W (Hnz n ltac:(lia))). lia.
Qed.

Theorem inv_promises_sorted (mx : Z) (b : book) : Inv mx b -> StronglySorted (@ts_le N) (promises_oldest_first b).
Proof. intros HI. unfold promises_oldest_first. apply (sorted_rev_firstn mx b HI). lia. Qed.

End WithNum.
