(** C16: the LevelDB wrapper refines one ordered map per table. *)
From Coq Require Import ZArith List Bool Arith Lia Sorted.
From Flap Require Import Model.DB.
Import ListNotations.
Open Scope Z_scope.

(** ---- the key order ---- *)
Lemma bcmp_eq a : forall b, bcmp a b = Eq <-> a = b.
Proof.
  induction a as [|x a IH]; intros [|y b]; cbn; try (split; congruence).
  destruct (Z.compare_spec x y) as [->|H|H].
  - rewrite IH. split; congruence.
  - split; [discriminate|]. intros E. injection E as E1 E2. lia.
  - split; [discriminate|]. intros E. injection E as E1 E2. lia.
Qed.

Lemma bcmp_refl a : bcmp a a = Eq.
Proof. apply bcmp_eq. reflexivity. Qed.

Lemma beqb_eq a b : beqb a b = true <-> a = b.
Proof. unfold beqb. rewrite <- bcmp_eq. destruct (bcmp a b); split; congruence. Qed.
Lemma beqb_refl a : beqb a a = true.
Proof. apply beqb_eq. reflexivity. Qed.
Lemma beqb_neq a b : a <> b -> beqb a b = false.
Proof. intros H. destruct (beqb a b) eqn:E; [apply beqb_eq in E; contradiction|reflexivity]. Qed.

Lemma bcmp_antisym a : forall b, bcmp a b = Lt <-> bcmp b a = Gt.
Proof.
  induction a as [|x a IH]; intros [|y b]; cbn; try (split; congruence).
  rewrite (Z.compare_antisym x y). destruct (x ?= y) eqn:E; cbn; [apply IH|split; auto|split; discriminate].
Qed.

Lemma bcmp_lt_trans a : forall b c, bcmp a b = Lt -> bcmp b c = Lt -> bcmp a c = Lt.
Proof.
  induction a as [|x a IH]; intros [|y b] [|z c]; cbn; try congruence.
  destruct (Z.compare_spec x y) as [->|H1|H1]; try discriminate.
  - destruct (y ?= z); try discriminate; [apply IH|auto].
  - intros _. destruct (Z.compare_spec y z) as [->|H2|H2]; try discriminate.
    + intros _. destruct (Z.compare_spec x z); try lia; reflexivity.
    + intros _. destruct (Z.compare_spec x z); try lia; reflexivity.
Qed.

(** ---- the ordered map ---- *)
Definition klt (x y : bstr * bstr) : Prop := bcmp (fst x) (fst y) = Lt.
Definition msorted (m : kvmap) : Prop := StronglySorted klt m.

Lemma mput_In m k v x : In x (mput m k v) -> x = (k, v) \/ In x m.
Proof.
  induction m as [|[k' v'] r IH]; cbn [mput]; [intros [H|[]]; left; auto|].
  destruct (bcmp k k'); cbn [In]; intros H.
  - destruct H as [H|H]; [left; auto|right; right; exact H].
  - destruct H as [H|H]; [left; auto|right; exact H].
  - destruct H as [H|H]; [right; left; exact H|]. destruct (IH H) as [E|E]; [left; exact E|right; right; exact E].
Qed.

Lemma mput_sorted m k v : msorted m -> msorted (mput m k v).
Proof.
  induction 1 as [|[k' v'] r Hs IH Hall]; cbn [mput]; [constructor; constructor|].
  destruct (bcmp k k') eqn:E.
  - apply bcmp_eq in E. subst k'. constructor; [exact Hs|exact Hall].
  - constructor; [constructor; assumption|]. constructor; [exact E|].
    rewrite Forall_forall in *. intros x Hx. specialize (Hall x Hx). unfold klt in *. cbn [fst] in *.
    eapply bcmp_lt_trans; eauto.
  - constructor; [exact IH|]. rewrite Forall_forall in *. intros x Hx.
    destruct (mput_In _ _ _ _ Hx) as [->|Hx']; [unfold klt; cbn [fst]; apply bcmp_antisym; exact E|apply Hall, Hx'].
Qed.

Lemma mget_notin m k : msorted m -> (forall x, In x m -> bcmp k (fst x) = Lt) -> mget m k = None.
Proof.
  intros _ H. induction m as [|[k' v'] r IH]; cbn [mget]; [reflexivity|].
  rewrite beqb_neq; [apply IH; intros x Hx; apply H; right; exact Hx|].
  intros ->. specialize (H (k', v') (or_introl eq_refl)). cbn in H. rewrite bcmp_refl in H. discriminate.
Qed.

Theorem mget_mput_same m k v : mget (mput m k v) k = Some v.
Proof.
  induction m as [|[k' v'] r IH]; cbn [mput mget]; [rewrite beqb_refl; reflexivity|].
  destruct (bcmp k k') eqn:E; cbn [mget]; try (rewrite beqb_refl; reflexivity).
  rewrite beqb_neq; [exact IH|]. intros ->. rewrite bcmp_refl in E. discriminate.
Qed.

Theorem mget_mput_other m k v k2 : k2 <> k -> mget (mput m k v) k2 = mget m k2.
Proof.
  intros Hne. induction m as [|[k' v'] r IH]; cbn [mput mget]; [rewrite beqb_neq by exact Hne; reflexivity|].
  destruct (bcmp k k') eqn:E; cbn [mget].
  - apply bcmp_eq in E. subst k'. rewrite beqb_neq by exact Hne. reflexivity.
  - rewrite (beqb_neq k2 k Hne). reflexivity.
  - destruct (beqb k2 k'); [reflexivity|exact IH].
Qed.

Lemma mdel_In m k x : In x (mdel m k) -> In x m.
Proof.
  induction m as [|[k' v'] r IH]; cbn [mdel]; [auto|]. destruct (beqb k k'); cbn [In]; [auto|].
  intros [H|H]; [left; exact H|right; apply IH, H].
Qed.

Lemma mdel_sorted m k : msorted m -> msorted (mdel m k).
Proof.
  induction 1 as [|[k' v'] r Hs IH Hall]; cbn [mdel]; [constructor|].
  destruct (beqb k k'); [exact Hs|]. constructor; [exact IH|].
  rewrite Forall_forall in *. intros x Hx. apply Hall. eapply mdel_In; eauto.
Qed.

Theorem mget_mdel_same m k : msorted m -> mget (mdel m k) k = None.
Proof.
  induction 1 as [|[k' v'] r Hs IH Hall]; cbn [mdel mget]; [reflexivity|].
  destruct (beqb k k') eqn:E.
  - apply beqb_eq in E. subst k'. apply mget_notin; [exact Hs|]. rewrite Forall_forall in Hall. intros x Hx. apply (Hall x Hx).
  - cbn [mget]. rewrite E. exact IH.
Qed.

Theorem mget_mdel_other m k k2 : k2 <> k -> mget (mdel m k) k2 = mget m k2.
Proof.
  intros Hne. induction m as [|[k' v'] r IH]; cbn [mdel mget]; [reflexivity|].
  destruct (beqb k k') eqn:E; cbn [mget].
  - apply beqb_eq in E. subst k'. rewrite (beqb_neq k2 k Hne). reflexivity.
  - destruct (beqb k2 k'); [reflexivity|exact IH].
Qed.

(** prefix iteration: exactly the entries whose key has the prefix, in key order *)
Theorem miter_spec m p : msorted m ->
  msorted (miter m p) /\ forall k v, In (k, v) (miter m p) <-> In (k, v) m /\ is_prefix p k = true.
Proof.
  intros Hs. split.
  - unfold miter. induction Hs as [|x r Hs IH Hall]; cbn [filter]; [constructor|].
    destruct (is_prefix p (fst x)); [|exact IH]. constructor; [exact IH|].
    rewrite Forall_forall in *. intros y Hy. apply filter_In in Hy. apply Hall, Hy.
  - intros k v. unfold miter. rewrite filter_In. cbn [fst]. tauto.
Qed.

Lemma apply_wop_sorted m o : msorted m -> msorted (apply_wop m o).
Proof. destruct o; cbn; [apply mput_sorted|apply mdel_sorted]. Qed.

(** ---- association lists keyed by table name ---- *)
Lemma alookup_aset_same {A} (l : list (bstr * A)) n x : alookup (aset l n x) n = Some x.
Proof.
  induction l as [|[n' y] r IH]; cbn [aset alookup]; [rewrite beqb_refl; reflexivity|].
  destruct (beqb n n') eqn:E; cbn [alookup]; [rewrite beqb_refl; reflexivity|rewrite E; exact IH].
Qed.
Lemma alookup_aset_other {A} (l : list (bstr * A)) n x n2 : n2 <> n -> alookup (aset l n x) n2 = alookup l n2.
Proof.
  intros Hne. induction l as [|[n' y] r IH]; cbn [aset alookup]; [rewrite beqb_neq by exact Hne; reflexivity|].
  destruct (beqb n n') eqn:E; cbn [alookup].
  - apply beqb_eq in E. subst n'. rewrite beqb_neq by exact Hne. reflexivity.
  - destruct (beqb n2 n'); [reflexivity|exact IH].
Qed.
Lemma alookup_aremove_other {A} (l : list (bstr * A)) n n2 : n2 <> n -> alookup (aremove l n) n2 = alookup l n2.
Proof.
  intros Hne. induction l as [|[n' y] r IH]; cbn [aremove alookup]; [reflexivity|].
  destruct (beqb n n') eqn:E; cbn [alookup].
  - apply beqb_eq in E. subst n'. rewrite beqb_neq by exact Hne. reflexivity.
  - destruct (beqb n2 n'); [reflexivity|exact IH].
Qed.

(** names occur at most once in the directory *)
Definition names_unique {A} (l : list (bstr * A)) : Prop := NoDup (map fst l).
Lemma alookup_aremove_same {A} (l : list (bstr * A)) n : names_unique l -> alookup (aremove l n) n = None.
Proof.
  unfold names_unique. induction l as [|[n' y] r IH]; cbn [aremove alookup map fst]; [reflexivity|]. intros Hnd.
  inversion Hnd as [|? ? Hnotin Hnd']; subst. destruct (beqb n n') eqn:E.
  - apply beqb_eq in E. subst n'. clear -Hnotin. induction r as [|[n2 z] r IH]; cbn; [reflexivity|].
    rewrite beqb_neq; [apply IH; intros C; apply Hnotin; right; exact C|]. intros ->. apply Hnotin. left. reflexivity.
  - cbn [alookup]. rewrite E. apply IH, Hnd'.
Qed.

(** ---- the wrapper ---- *)
Lemma write_table_snaps s h ops : snaps (fst (write_table s h ops)) = snaps s /\ opened (fst (write_table s h ops)) = opened s.
Proof. unfold write_table. destruct (table_of s h); split; reflexivity. Qed.

Lemma handle_open_set_disk s d h : handle_open (set_disk s d) h = handle_open s h.
Proof. reflexivity. Qed.

Lemma table_of_some s h m : table_of s h = Some m <-> handle_open s h = true /\ alookup (disk s) (fst h) = Some m.
Proof. unfold table_of. destruct (handle_open s h); split; [auto|intros [_ H]; exact H|discriminate|intros [C _]; discriminate]. Qed.

Lemma write_table_ok s h ops m : table_of s h = Some m ->
  write_table s h ops = (set_disk s (aset (disk s) (fst h) (fold_left apply_wop ops m)), None) /\
  table_of (set_disk s (aset (disk s) (fst h) (fold_left apply_wop ops m))) h = Some (fold_left apply_wop ops m).
Proof.
  intros H. unfold write_table. rewrite H. split; [reflexivity|]. apply table_of_some in H. destruct H as [Ho _].
  apply table_of_some. split; [exact Ho|]. cbn [disk set_disk]. apply alookup_aset_same.
Qed.

(** a read returns the last value written *)
Theorem put_then_get s h k v s' : table_put s h k v = (s', None) -> table_get s' h k = inl v.
Proof.
  unfold table_put. intros Hw. destruct (table_of s h) as [m|] eqn:E; [|unfold write_table in Hw; rewrite E in Hw; discriminate].
  destruct (write_table_ok s h [WPut k v] m E) as [E1 E2]. cbn [fold_left apply_wop] in E1, E2. rewrite E1 in Hw. injection Hw as <-.
  unfold table_get. rewrite E2. rewrite mget_mput_same. reflexivity.
Qed.

Theorem put_leaves_other_keys s h k v s' k2 : k2 <> k -> table_put s h k v = (s', None) -> table_get s' h k2 = table_get s h k2.
Proof.
  intros Hne. unfold table_put. intros Hw. destruct (table_of s h) as [m|] eqn:E; [|unfold write_table in Hw; rewrite E in Hw; discriminate].
  destruct (write_table_ok s h [WPut k v] m E) as [E1 E2]. cbn [fold_left apply_wop] in E1, E2. rewrite E1 in Hw. injection Hw as <-.
  unfold table_get. rewrite E2, E. rewrite mget_mput_other by exact Hne. reflexivity.
Qed.

Theorem delete_then_get s h k s' : (forall m, alookup (disk s) (fst h) = Some m -> msorted m) ->
  table_delete s h k = (s', None) -> table_get s' h k = inr EKeyNotFound.
Proof.
  intros Hs. unfold table_delete. intros Hw. destruct (table_of s h) as [m|] eqn:E; [|unfold write_table in Hw; rewrite E in Hw; discriminate].
  destruct (write_table_ok s h [WDel k] m E) as [E1 E2]. cbn [fold_left apply_wop] in E1, E2. rewrite E1 in Hw. injection Hw as <-.
  unfold table_get. rewrite E2. apply table_of_some in E. destruct E as [_ E].
  rewrite mget_mdel_same by (apply Hs, E). reflexivity.
Qed.

(** tables are independent: writing one never changes what another returns *)
Theorem tables_independent s h ops s' r h2 k2 : fst h2 <> fst h -> write_table s h ops = (s', r) ->
  table_get s' h2 k2 = table_get s h2 k2.
Proof.
  intros Hne. unfold write_table. destruct (table_of s h) as [m|]; intros Eq; injection Eq as <- _; [|reflexivity].
  unfold table_get, table_of. rewrite handle_open_set_disk. cbn [disk set_disk].
  rewrite alookup_aset_other by exact Hne. reflexivity.
Qed.

(** a snapshot keeps yielding the contents as of its creation, whatever is written later *)
Theorem snapshot_isolated s h s1 id : take_snapshot s h = (s1, inl id) ->
  forall s2 h2 ops r, write_table s1 h2 ops = (s2, r) ->
  forall k p, snap_get s2 id k = snap_get s1 id k /\ snap_iter s2 id p = snap_iter s1 id p.
Proof.
  intros _ s2 h2 ops r Hw k p. pose proof (write_table_snaps s1 h2 ops) as [E _]. rewrite Hw in E. cbn [fst] in E.
  unfold snap_get, snap_iter. rewrite E. split; reflexivity.
Qed.

Theorem snapshot_is_current_contents s h s1 id m : table_of s h = Some m -> take_snapshot s h = (s1, inl id) ->
  forall k, snap_get s1 id k = table_get s h k.
Proof.
  intros Hm. unfold take_snapshot. rewrite Hm. intros Eq. injection Eq as <- <-. intros k.
  unfold snap_get, table_get. cbn [snaps zlookup]. rewrite Z.eqb_refl, Hm. reflexivity.
Qed.

(** batched writes of any size >= 1 are all applied, in order, once the batch is released *)
Fixpoint batch_run (s : dbstate) (id : Z) (ops : list wop) : dbstate :=
  match ops with
  | [] => s
  | o :: r => batch_run (fst (batch_write s id (Some o) false)) id r
  end.

Definition batch_inv (s : dbstate) (id : Z) (h : handle) (size : Z) (target : kvmap) : Prop :=
  handle_open s h = true /\
  exists m pend, alookup (disk s) (fst h) = Some m /\
    zlookup (batches s) id = Some {| b_handle := h; b_size := size; b_pending := pend |} /\
    fold_left apply_wop pend m = target.

Lemma zlookup_zset_same {A} (l : list (Z * A)) i x : zlookup (zset l i x) i = Some x.
Proof.
  induction l as [|[j y] r IH]; cbn [zset zlookup]; [rewrite Z.eqb_refl; reflexivity|].
  destruct (i =? j) eqn:E; cbn [zlookup]; [rewrite Z.eqb_refl; reflexivity|rewrite E; exact IH].
Qed.

Lemma batch_step s id h size target o : 1 <= size -> batch_inv s id h size target ->
  batch_inv (fst (batch_write s id (Some o) false)) id h size (apply_wop target o).
Proof.
  intros Hsz (Ho & m & pend & Hm & Hb & Ht). unfold batch_write. rewrite Hb. cbn [b_pending b_size b_handle negb].
  destruct (Z.eqb_spec size 0) as [C|_]; [lia|]. cbn [andb orb].
  destruct (Z.of_nat (length (pend ++ [o])) mod size =? 0).
  - unfold write_table, table_of. rewrite Ho, Hm. cbn [fst].
    split; [unfold handle_open in *; cbn [opened set_batch set_disk] in *; exact Ho|]. eexists _, []. cbn [disk set_batch set_disk batches].
    rewrite alookup_aset_same, zlookup_zset_same. split; [reflexivity|]. split; [reflexivity|].
    cbn [fold_left]. rewrite fold_left_app. cbn [fold_left]. rewrite Ht. reflexivity.
  - cbn [fst]. split; [unfold handle_open in *; cbn [opened set_batch] in *; exact Ho|]. exists m, (pend ++ [o]). cbn [disk set_batch batches].
    rewrite zlookup_zset_same. split; [exact Hm|]. split; [reflexivity|].
    rewrite fold_left_app. cbn [fold_left]. rewrite Ht. reflexivity.
Qed.

Theorem batch_release_applies_all s h size m0 ops : 1 <= size ->
  handle_open s h = true -> alookup (disk s) (fst h) = Some m0 ->
  let '(s1, id) := make_batch s h size in
  let s2 := batch_run s1 id ops in
  let '(s3, r) := batch_release s2 id in
  r = None /\ table_of s3 h = Some (fold_left apply_wop ops m0).
Proof.
  intros Hsz Ho Hm. unfold make_batch. cbn zeta.
  set (id := next_id s).
  set (s1 := {| disk := disk s; opened := opened s; gen := gen s; snaps := snaps s;
                batches := (id, {| b_handle := h; b_size := size; b_pending := [] |}) :: batches s; next_id := id + 1; shells := shells s |}).
  assert (H1 : batch_inv s1 id h size m0).
  { split; [exact Ho|]. exists m0, []. cbn [disk s1 batches zlookup]. rewrite Z.eqb_refl. auto. }
  assert (G : forall ops0 s0 target, batch_inv s0 id h size target ->
              batch_inv (batch_run s0 id ops0) id h size (fold_left apply_wop ops0 target)).
  { clear -Hsz. induction ops0 as [|o r IH]; intros s0 target HI; cbn [batch_run fold_left]; [exact HI|].
    apply IH. apply batch_step; assumption. }
  specialize (G ops s1 m0 H1). destruct G as (Ho2 & m & pend & Hm2 & Hb2 & Ht2).
  unfold batch_release, batch_write. rewrite Hb2. cbn [b_pending b_size b_handle negb andb orb].
  unfold write_table, table_of. rewrite Ho2, Hm2. split; [reflexivity|].
  apply table_of_some. split; [unfold handle_open in *; cbn [opened set_batch set_disk] in *; exact Ho2|].
  cbn [disk set_batch set_disk]. rewrite alookup_aset_same, Ht2. reflexivity.
Qed.

(** close and reopen keeps the contents *)
Theorem close_reopen_keeps_contents s n s1 s2 h2 : close_table s n = (s1, None) -> open_table s1 n = (s2, inl h2) ->
  table_of s2 h2 = alookup (disk s) n.
Proof.
  unfold close_table. destruct (open_handle_of s n) as [h|] eqn:Eo; [|discriminate].
  intros E1. injection E1 as <-. unfold open_table.
  assert (Hno : open_handle_of (set_opened s (drop_handle (opened s) n) (gen s)) n = None).
  { unfold open_handle_of, drop_handle. cbn [opened set_opened]. induction (opened s) as [|h' r IH]; cbn; [reflexivity|].
    destruct (beqb n (fst h')) eqn:E; cbn [negb]; [exact IH|]. cbn [find]. rewrite E. exact IH. }
  rewrite Hno. cbn [disk set_opened]. destruct (alookup (disk s) n) as [m|] eqn:Em; [|discriminate].
  intros E2. injection E2 as <- <-. unfold table_of, handle_open. cbn [opened set_opened existsb fst snd disk].
  rewrite beqb_refl, Z.eqb_refl. cbn. exact Em.
Qed.

(** a dropped table is gone - whether or not it was open: opening fails, creating yields an empty,
    usable table *)
Definition handles_on_disk (s : dbstate) : Prop := forall h, In h (opened s) -> alookup (disk s) (fst h) <> None.

Lemma open_handle_of_none (o : list handle) n : (forall h, In h o -> fst h <> n) -> find (fun h' => beqb n (fst h')) o = None.
Proof.
  induction o as [|h r IH]; intros H; cbn [find]; [reflexivity|].
  rewrite beqb_neq; [apply IH; intros h' Hh'; apply H; right; exact Hh'|]. intros E. apply (H h (or_introl eq_refl)). symmetry. exact E.
Qed.

Lemma drop_handle_none (o : list handle) n : find (fun h' => beqb n (fst h')) (drop_handle o n) = None.
Proof.
  apply open_handle_of_none. intros h Hh. unfold drop_handle in Hh. apply filter_In in Hh. destruct Hh as [_ Hh].
  apply negb_true_iff in Hh. intros E. subst n. rewrite beqb_refl in Hh. discriminate.
Qed.

Theorem dropped_table_is_gone s n s1 : names_unique (disk s) -> handles_on_disk s -> drop_table s n = (s1, None) ->
  snd (open_table s1 n) = inr ETableNotFound /\
  exists h, snd (create_table s1 n) = inl h /\ table_of (fst (create_table s1 n)) h = Some [].
Proof.
  intros Hu Hh Hd.
  assert (Hfacts : open_handle_of s1 n = None /\ alookup (disk s1) n = None).
  { unfold drop_table in Hd. destruct n as [|c n']; [discriminate|]. set (n := c :: n') in *.
    destruct (alookup (disk s) n) as [m|] eqn:Em.
    - injection Hd as <-. split; [unfold open_handle_of; cbn [opened set_shells set_opened]; apply drop_handle_none|].
      cbn [disk set_shells set_opened set_disk]. apply alookup_aremove_same, Hu.
    - destruct (has_shell s n); [|discriminate]. injection Hd as <-. split; [|exact Em].
      unfold open_handle_of. cbn [opened set_shells]. apply open_handle_of_none. intros h Hin E.
      apply (Hh h Hin). rewrite E. exact Em. }
  destruct Hfacts as [Hno Hgone].
  unfold open_table, create_table. rewrite Hno, Hgone. split; [reflexivity|].
  eexists. split; [reflexivity|]. cbn [fst]. unfold table_of, handle_open.
  cbn [opened set_shells set_opened existsb fst snd disk set_disk].
  rewrite beqb_refl, Z.eqb_refl. cbn [andb orb]. rewrite alookup_aset_same. reflexivity.
Qed.

(** dropping one table leaves the others alone *)
Theorem drop_leaves_other_tables s n s1 n2 : n2 <> n -> drop_table s n = (s1, None) -> alookup (disk s1) n2 = alookup (disk s) n2.
Proof.
  intros Hne. unfold drop_table. destruct n as [|c n']; [discriminate|]. destruct (alookup (disk s) (c :: n')).
  - intros E. injection E as <-. cbn [disk set_shells set_opened set_disk]. apply alookup_aremove_other, Hne.
  - destruct (has_shell s (c :: n')); [|discriminate]. intros E. injection E as <-. reflexivity.
Qed.
