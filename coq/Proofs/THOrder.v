(** Ordering invariant of the trip history and refinement of AddFlight / RemoveFlight to
    "stable sorted insert, keep the newest 100" (C07). *)
From Coq Require Import ZArith List Bool Arith Lia.
From Flap Require Import Model.Num Model.Search Model.TripHistory Proofs.SearchP Proofs.THBasics.
Import ListNotations.
Open Scope Z_scope.

Lemma In_firstn {A} (x : A) l n : In x (firstn n l) -> In x l.
Proof. revert n; induction l as [|a l IH]; intros [|n] H; cbn in *; try contradiction. destruct H; [left|right]; eauto. Qed.
Lemma In_skipn {A} (x : A) l n : In x (skipn n l) -> In x l.
Proof. revert n; induction l as [|a l IH]; intros [|n] H; cbn in *; try contradiction; auto. right; eauto. Qed.

Lemma In_skipn_S {A} (x : A) l n : In x (skipn (S n) l) -> In x (skipn n l).
Proof.
  revert n; induction l as [|a l IH]; intros n H; [destruct n; cbn in *; contradiction|].
  destruct n as [|n]; [right; exact H|]. cbn [skipn] in *. apply IH, H.
Qed.

Lemma length_remove_at {A} (l : list A) i x : (i < length l)%nat ->
  length (firstn i l ++ skipn (S i) l ++ [x]) = length l.
Proof. intros H. rewrite !app_length, firstn_length_le, skipn_length by lia. cbn [length]. lia. Qed.

Lemma nth_skipn' {A} (l : list A) i j d : nth j (skipn i l) d = nth (i + j) l d.
Proof.
  revert l; induction i as [|i IH]; intros l; [reflexivity|].
  destruct l as [|a l]; [destruct j; reflexivity|]. cbn [skipn Nat.add nth]. apply IH.
Qed.

Section WithNum.
Context {N : NumOps}.
Local Notation flight := (flight N).
Local Notation hist := (hist N).

(** newest first: start times never increase along the list *)
Inductive desc : list flight -> Prop :=
| desc_nil : desc []
| desc_cons f l : (forall g, In g l -> fstart g <= fstart f) -> desc l -> desc (f :: l).

Definition nonneg_starts (l : list flight) : Prop := forall g, In g l -> 0 <= fstart g.

(** the ordering invariant: 100 slots, newest first, no negative times (so empty slots trail) *)
Definition ordered (h : hist) : Prop :=
  length (entries h) = MaxFlights /\ desc (entries h) /\ nonneg_starts (entries h).

Lemma desc_nth l : desc l -> forall i j, (i <= j)%nat -> (j < length l)%nat ->
  fstart (getf l j) <= fstart (getf l i).
Proof.
  unfold getf. induction 1 as [|f l Hf Hd IH]; intros i j Hij Hj; cbn [length] in Hj; [lia|].
  destruct i as [|i], j as [|j]; cbn [nth]; try lia.
  - apply Hf. apply nth_In. lia.
  - apply IH; lia.
Qed.

Lemma desc_app a b : desc a -> desc b -> (forall x y, In x a -> In y b -> fstart y <= fstart x) -> desc (a ++ b).
Proof.
  induction 1 as [|f l Hf Hd IH]; intros Hb Hab; cbn [app]; [exact Hb|].
  constructor.
  - intros g Hg. apply in_app_or in Hg. destruct Hg as [Hg|Hg]; [apply Hf, Hg|apply Hab; [left; reflexivity|exact Hg]].
  - apply IH; [exact Hb|]. intros x y Hx Hy. apply Hab; [right; exact Hx|exact Hy].
Qed.

Lemma desc_firstn l n : desc l -> desc (firstn n l).
Proof.
  intros H. revert n. induction H as [|f l Hf Hd IH]; intros [|n]; cbn [firstn]; try constructor.
  - intros g Hg. apply Hf. eapply In_firstn. exact Hg.
  - apply IH.
Qed.

Lemma desc_skipn l n : desc l -> desc (skipn n l).
Proof.
  intros H. revert n. induction H as [|f l Hf Hd IH]; intros [|n]; cbn [skipn]; try constructor; auto.
Qed.

Lemma desc_split l n x y : desc l -> In x (firstn n l) -> In y (skipn n l) -> fstart y <= fstart x.
Proof.
  intros H. revert n. induction H as [|f l Hf Hd IH]; intros [|n] Hx Hy; cbn in *; try contradiction.
  destruct Hx as [<-|Hx]; [apply Hf; eapply In_skipn; exact Hy|eapply IH; eauto].
Qed.

(** first index whose start is <= x (length when none) *)
Fixpoint first_le (x : Z) (l : list flight) : nat :=
  match l with [] => 0 | g :: t => if fstart g <=? x then 0 else S (first_le x t) end.

Lemma first_le_bound x l : (first_le x l <= length l)%nat.
Proof. induction l as [|g t IH]; cbn; [lia|]. destruct (fstart g <=? x); lia. Qed.

Lemma first_le_before x l : forall a, (a < first_le x l)%nat -> fstart (getf l a) <=? x = false.
Proof.
  unfold getf. induction l as [|g t IH]; intros a Ha; cbn in *; [lia|].
  destruct (fstart g <=? x) eqn:E; [lia|]. destruct a as [|a]; [exact E|apply IH; lia].
Qed.

Lemma first_le_at x l : (first_le x l < length l)%nat -> fstart (getf l (first_le x l)) <= x.
Proof.
  unfold getf. induction l as [|g t IH]; cbn; [lia|]. destruct (fstart g <=? x) eqn:E; intros H.
  - apply Z.leb_le, E.
  - apply IH. lia.
Qed.

Lemma first_le_firstn x l g : In g (firstn (first_le x l) l) -> x < fstart g.
Proof.
  induction l as [|a t IH]; cbn; [contradiction|]. destruct (fstart a <=? x) eqn:E; cbn; [contradiction|].
  intros [<-|H]; [apply Z.leb_gt, E|apply IH, H].
Qed.

(** the bisection finds exactly that index on an ordered history *)
Lemma older_index_first_le l f : length l = MaxFlights -> desc l ->
  older_index l f = first_le (fstart f) l.
Proof.
  intros Hl Hd. unfold older_index. apply search_unique.
  - intros a b Hab Hb Ha. apply Z.leb_le in Ha. apply Z.leb_le.
    pose proof (desc_nth l Hd a b Hab ltac:(rewrite Hl; exact Hb)). lia.
  - rewrite <- Hl. apply first_le_bound.
  - apply first_le_before.
  - intros b Hb1 Hb2. apply Z.leb_le.
    assert (Hlt : (first_le (fstart f) l < length l)%nat) by (rewrite Hl; lia).
    pose proof (first_le_at _ _ Hlt).
    pose proof (desc_nth l Hd (first_le (fstart f) l) b Hb1 ltac:(rewrite Hl; exact Hb2)). lia.
Qed.

(** the abstract operation: insert before the first flight that does not start later *)
Fixpoint insert_desc (f : flight) (l : list flight) : list flight :=
  match l with
  | [] => [f]
  | g :: t => if fstart g <=? fstart f then f :: g :: t else g :: insert_desc f t
  end.

Lemma insert_desc_split f l :
  insert_desc f l = firstn (first_le (fstart f) l) l ++ f :: skipn (first_le (fstart f) l) l.
Proof.
  induction l as [|g t IH]; cbn; [reflexivity|]. destruct (fstart g <=? fstart f); cbn; [reflexivity|].
  rewrite IH. reflexivity.
Qed.

Lemma insert_desc_desc f l : desc l -> desc (insert_desc f l).
Proof.
  induction 1 as [|g t Hg Hd IH]; cbn [insert_desc].
  - constructor; [intros ? []|constructor].
  - destruct (fstart g <=? fstart f) eqn:E.
    + apply Z.leb_le in E. constructor; [|constructor; auto].
      intros x [<-|Hx]; [exact E|]. specialize (Hg x Hx). lia.
    + apply Z.leb_gt in E. constructor; [|exact IH].
      intros x Hx. rewrite insert_desc_split in Hx. apply in_app_or in Hx.
      destruct Hx as [Hx|[<-|Hx]]; [apply Hg; eapply In_firstn; eauto|lia|apply Hg; eapply In_skipn; eauto].
Qed.

Lemma firstn_app_exact {A} (a b : list A) n : length a = n -> firstn n (a ++ b) = a.
Proof. intros <-. rewrite firstn_app, Nat.sub_diag, firstn_all. cbn. apply app_nil_r. Qed.

(** AddFlight refines "insert, keep the newest 100"; it refuses exactly a flight older than all 100 *)
Theorem add_flight_refines (h : hist) f : ordered h ->
  match add_flight h f with
  | inl h' => entries h' = firstn MaxFlights (insert_desc f (entries h)) /\
              (first_le (fstart f) (entries h) < MaxFlights)%nat
  | inr e => e = EFlightTooOld /\ (forall g, In g (entries h) -> fstart f < fstart g)
  end.
Proof.
  intros (Hl & Hd & Hn). unfold add_flight. rewrite older_index_first_le by assumption.
  set (i := first_le (fstart f) (entries h)).
  destruct (Nat.leb_spec MaxFlights i) as [Hge|Hlt].
  - split; [reflexivity|]. intros g Hg. apply (first_le_firstn (fstart f) (entries h)).
    fold i. rewrite firstn_all2 by lia. exact Hg.
  - cbn [entries]. split; [|exact Hlt]. rewrite insert_desc_split. fold i.
    assert (Hi : length (firstn i (entries h)) = i) by (apply firstn_length_le; lia).
    rewrite firstn_app, Hi. rewrite (firstn_all2 (n := MaxFlights)) by lia.
    f_equal. replace (MaxFlights - i)%nat with (S (MaxFlights - 1 - i)) by (unfold MaxFlights in *; lia).
    reflexivity.
Qed.

Lemma add_flight_ordered (h h' : hist) f : ordered h -> 0 <= fstart f ->
  add_flight h f = inl h' -> ordered h'.
Proof.
  intros Ho Hf E. pose proof (add_flight_refines h f Ho) as Hr. rewrite E in Hr.
  destruct Hr as [E1 Hi]. destruct Ho as (Hl & Hd & Hn). unfold ordered. rewrite E1. repeat split.
  - rewrite firstn_length_le; [reflexivity|].
    rewrite insert_desc_split, app_length. cbn [length]. rewrite firstn_length_le, skipn_length by lia. lia.
  - apply desc_firstn, insert_desc_desc, Hd.
  - intros g Hg. apply In_firstn in Hg. rewrite insert_desc_split in Hg. apply in_app_or in Hg.
    destruct Hg as [Hg|[<-|Hg]]; [apply Hn; eapply In_firstn; eauto|exact Hf|apply Hn; eapply In_skipn; eauto].
Qed.

(** removing index i from an ordered list and padding with an empty slot keeps it ordered *)
Lemma remove_at_ordered l i : desc l -> nonneg_starts l ->
  desc (firstn i l ++ skipn (S i) l ++ [empty_flight]) /\ nonneg_starts (firstn i l ++ skipn (S i) l ++ [empty_flight]).
Proof.
  intros Hd Hn. split.
  - apply desc_app; [apply desc_firstn, Hd| |].
    + apply desc_app; [apply desc_skipn, Hd|constructor; [intros ? []|constructor]|].
      intros x y Hx [<-|[]]. cbn. apply Hn. eapply In_skipn; eauto.
    + intros x y Hx Hy. apply in_app_or in Hy. destruct Hy as [Hy|[<-|[]]].
      * apply (desc_split l i x y Hd Hx). apply In_skipn_S, Hy.
      * cbn. apply Hn. eapply In_firstn; eauto.
  - intros g Hg. apply in_app_or in Hg. destruct Hg as [Hg|Hg]; [apply Hn; eapply In_firstn; eauto|].
    apply in_app_or in Hg. destruct Hg as [Hg|[<-|[]]]; [apply Hn; eapply In_skipn; eauto|cbn; lia].
Qed.

Lemma remove_flight_ordered (h h' : hist) f : ordered h -> remove_flight h f = inl h' -> ordered h'.
Proof.
  intros (Hl & Hd & Hn). unfold remove_flight.
  destruct (Nat.leb MaxFlights (older_index (entries h) f)); [discriminate|].
  destruct (remove_scan _ _ _ _) as [i|] eqn:Es; [|discriminate].
  destruct (negb (flight_eqb (getf (entries h) i) f)); [discriminate|].
  intros E. injection E as <-. unfold ordered. cbn [entries].
  assert (Hi : (i < MaxFlights)%nat).
  { clear -Es. revert Es. generalize (older_index (entries h) f). generalize (S MaxFlights).
    induction n as [|k IH]; intros j; cbn [remove_scan]; [discriminate|].
    destruct (Nat.leb_spec MaxFlights j); [discriminate|].
    destruct (_ && _); [apply IH|]. intros E; injection E as <-. assumption. }
  destruct (remove_at_ordered (entries h) i Hd Hn) as [H1 H2]. repeat split; auto.
  rewrite <- Hl. apply length_remove_at. lia.
Qed.

(** add then remove restores the list when the history was not full (last slot empty) *)
Theorem remove_after_add_restores (h : hist) f : ordered h ->
  getf (entries h) (MaxFlights - 1) = empty_flight -> 0 <= fstart f -> flight_eqb f f = true ->
  exists h1 h2, add_flight h f = inl h1 /\ remove_flight h1 f = inl h2 /\ entries h2 = entries h.
Proof.
  intros Ho Hlast Hf Heq. pose proof Ho as (Hl & Hd & Hn).
  pose proof (add_flight_refines h f Ho) as Hr.
  destruct (add_flight h f) as [h1|e] eqn:Ea.
  2:{ destruct Hr as [_ Hall]. exfalso.
      specialize (Hall (getf (entries h) (MaxFlights - 1))).
      rewrite Hlast in Hall at 2. cbn in Hall.
      assert (Hin : In (getf (entries h) (MaxFlights - 1)) (entries h)) by (apply nth_In; rewrite Hl; unfold MaxFlights; lia).
      specialize (Hall Hin). lia. }
  destruct Hr as [E1 Hi]. set (i := first_le (fstart f) (entries h)) in *.
  pose proof (add_flight_ordered h h1 f Ho Hf Ea) as Ho1. pose proof Ho1 as (Hl1 & Hd1 & Hn1).
  (* shape of the new list *)
  assert (Hshape : entries h1 = firstn i (entries h) ++ f :: firstn (MaxFlights - 1 - i) (skipn i (entries h))).
  { rewrite E1, insert_desc_split. fold i.
    assert (Hfi : length (firstn i (entries h)) = i) by (apply firstn_length_le; lia).
    rewrite firstn_app, Hfi. rewrite (firstn_all2 (n := MaxFlights)) by lia.
    f_equal. replace (MaxFlights - i)%nat with (S (MaxFlights - 1 - i)) by (unfold MaxFlights in *; lia). reflexivity. }
  assert (Hfi : length (firstn i (entries h)) = i) by (apply firstn_length_le; lia).
  (* the index found again *)
  assert (Hidx : first_le (fstart f) (entries h1) = i).
  { rewrite Hshape. clear -Hfi. unfold i in *.
    generalize (firstn (MaxFlights - 1 - first_le (fstart f) (entries h)) (skipn (first_le (fstart f) (entries h)) (entries h))).
    intros tl0. induction (entries h) as [|g t IH]; cbn.
    - rewrite Z.leb_refl. reflexivity.
    - destruct (fstart g <=? fstart f) eqn:E; cbn; [rewrite Z.leb_refl; reflexivity|]. rewrite E. f_equal. apply IH.
      cbn in Hfi. rewrite E in Hfi. cbn in Hfi. lia. }
  assert (Hget : getf (entries h1) i = f).
  { unfold getf. rewrite Hshape, app_nth2 by lia. rewrite Hfi, Nat.sub_diag. reflexivity. }
  exists h1. unfold remove_flight. rewrite older_index_first_le by assumption. rewrite Hidx.
  destruct (Nat.leb_spec MaxFlights i) as [Hge|_]; [lia|].
  assert (Hscan : remove_scan (S MaxFlights) (entries h1) f i = Some i).
  { cbn [remove_scan]. destruct (Nat.leb_spec MaxFlights i) as [Hge|_]; [lia|].
    rewrite Hget, Heq. reflexivity. }
  rewrite Hscan, Hget, Heq. cbn [negb].
  eexists. split; [reflexivity|]. split; [reflexivity|]. cbn [entries].
  rewrite Hshape. rewrite firstn_app, Hfi, Nat.sub_diag, firstn_O, app_nil_r, firstn_firstn, Nat.min_id.
  assert (Hsk : skipn (S i) (firstn i (entries h) ++ f :: firstn (MaxFlights - 1 - i) (skipn i (entries h)))
                = firstn (MaxFlights - 1 - i) (skipn i (entries h))).
  { rewrite skipn_app, Hfi. rewrite skipn_all2 by lia. replace (S i - i)%nat with 1%nat by lia. reflexivity. }
  rewrite Hsk.
  (* skipn i l = firstn (99 - i) (skipn i l) ++ [l[99]] *)
  transitivity (firstn i (entries h) ++ skipn i (entries h)); [f_equal|apply firstn_skipn].
  set (r := skipn i (entries h)).
  assert (Hr : length r = (MaxFlights - i)%nat) by (unfold r; rewrite skipn_length; lia).
  transitivity (firstn (MaxFlights - 1 - i) r ++ skipn (MaxFlights - 1 - i) r); [f_equal|apply firstn_skipn].
  assert (Hlen1 : length (skipn (MaxFlights - 1 - i) r) = 1%nat) by (rewrite skipn_length; unfold MaxFlights in *; lia).
  destruct (skipn (MaxFlights - 1 - i) r) as [|x [|y t]] eqn:Esk; cbn in Hlen1; try lia.
  f_equal. (* x = l[99] *)
  assert (Hx : x = nth (MaxFlights - 1 - i) r empty_flight).
  { rewrite <- (firstn_skipn (MaxFlights - 1 - i) r), Esk, app_nth2; rewrite firstn_length_le by (unfold MaxFlights in *; lia); [|lia].
    rewrite Nat.sub_diag. reflexivity. }
  rewrite Hx. unfold r. rewrite nth_skipn'.
  replace (i + (MaxFlights - 1 - i))%nat with (MaxFlights - 1)%nat by (unfold MaxFlights in *; lia).
  symmetry. exact Hlast.
Qed.

(** EndTrip / ReopenTrip touch only the newest flight's marker *)
Lemma set_head_et_R (h : hist) t : et (getf (entries h) 0) <> TTEnd \/ t = TTEnd \/ True ->
  map erase (entries (set_head_et h t)) = map erase (entries h).
Proof. intros _. unfold set_head_et. destruct (entries h) eqn:E; cbn [entries]; [rewrite E|]; reflexivity. Qed.

Lemma end_trip_op_data (h h' : hist) : end_trip_op h = inl h' -> map erase (entries h') = map erase (entries h).
Proof. unfold end_trip_op. destruct (hempty h); [discriminate|]. intros E; injection E as <-. apply set_head_et_R; auto. Qed.
Lemma reopen_trip_op_data (h h' : hist) : reopen_trip_op h = inl h' -> map erase (entries h') = map erase (entries h).
Proof.
  unfold reopen_trip_op. destruct (hempty h); [discriminate|]. destruct (negb _); [discriminate|].
  intros E; injection E as <-. apply set_head_et_R; auto.
Qed.

(** ordering depends on the erased data only *)
Lemma desc_erase_iff l l' : map erase l' = map erase l -> desc l -> desc l'.
Proof.
  intros E Hd. revert l' E. induction Hd as [|f l Hf Hd IH]; intros [|f' l'] E; cbn in E; try discriminate; [constructor|].
  assert (Ef := f_equal (hd (erase f)) E). assert (El := f_equal (@tl _) E). cbn [hd tl map] in Ef, El.
  constructor; [|apply IH, El].
  intros g Hg. assert (Hs : forall a b : flight, erase a = erase b -> fstart a = fstart b).
  { intros a b H. apply (f_equal fstart) in H. exact H. }
  rewrite (Hs _ _ Ef).
  apply (in_map erase) in Hg. rewrite El in Hg. apply in_map_iff in Hg. destruct Hg as (g0 & Eg & Hg0).
  rewrite <- (Hs _ _ Eg). apply Hf, Hg0.
Qed.

Lemma ordered_erase (h h' : hist) : map erase (entries h') = map erase (entries h) -> ordered h -> ordered h'.
Proof.
  intros E (Hl & Hd & Hn). repeat split.
  - rewrite <- Hl. rewrite <- (map_length erase), E, map_length. reflexivity.
  - eapply desc_erase_iff; eauto.
  - intros g Hg. apply (in_map erase) in Hg. rewrite E in Hg. apply in_map_iff in Hg.
    destruct Hg as (g0 & Eg & Hg0). apply (f_equal fstart) in Eg. cbn in Eg. rewrite <- Eg. apply Hn, Hg0.
Qed.

(** every operation keeps the ordering invariant *)
Inductive thop :=
| OAdd (f : flight) | ORemove (f : flight) | OUpdate (p : thparams) (now : Z) | OEnd | OReopen.

Definition apply_op (h : hist) (o : thop) : hist :=
  match o with
  | OAdd f => match add_flight h f with inl h' => h' | inr _ => h end
  | ORemove f => match remove_flight h f with inl h' => h' | inr _ => h end
  | OUpdate p now => match update h p now with inl (h', _, _) => h' | inr _ => h end
  | OEnd => match end_trip_op h with inl h' => h' | inr _ => h end
  | OReopen => match reopen_trip_op h with inl h' => h' | inr _ => h end
  end.

Definition op_ok (o : thop) : Prop := match o with OAdd f => 0 <= fstart f | _ => True end.

Lemma apply_op_ordered h o : ordered h -> op_ok o -> ordered (apply_op h o).
Proof.
  intros Ho Hok. destruct o as [f|f|p now| |]; cbn [apply_op].
  - destruct (add_flight h f) eqn:E; [eapply add_flight_ordered; eauto|exact Ho].
  - destruct (remove_flight h f) eqn:E; [eapply remove_flight_ordered; eauto|exact Ho].
  - destruct (update h p now) as [[[h' dy] fy]|] eqn:E; [|exact Ho].
    eapply ordered_erase; [|exact Ho]. eapply update_keeps_flight_data; [apply Ho|exact E].
  - destruct (end_trip_op h) eqn:E; [|exact Ho]. eapply ordered_erase; [eapply end_trip_op_data; eauto|exact Ho].
  - destruct (reopen_trip_op h) eqn:E; [|exact Ho]. eapply ordered_erase; [eapply reopen_trip_op_data; eauto|exact Ho].
Qed.

Lemma empty_hist_ordered : ordered empty_hist.
Proof.
  split; [|split].
  - apply repeat_length.
  - unfold empty_hist. cbn [entries]. induction MaxFlights; cbn; constructor; auto.
    intros g Hg. apply repeat_spec in Hg. subst. cbn. lia.
  - intros g Hg. apply repeat_spec in Hg. subst. cbn. lia.
Qed.

Theorem reachable_ordered ops : Forall op_ok ops -> ordered (fold_left apply_op ops empty_hist).
Proof.
  intros H. assert (G : forall h, ordered h -> ordered (fold_left apply_op ops h)).
  { induction H as [|o t Ho Ht IH]; intros h Hh; cbn [fold_left]; [exact Hh|]. apply IH, apply_op_ordered; auto. }
  apply G, empty_hist_ordered.
Qed.

(** reading the invariant: at most 100 flights, newest first, no gaps *)
Lemma ordered_no_gaps (h : hist) : ordered h -> forall i j, (i <= j)%nat -> (j < MaxFlights)%nat ->
  fstart (getf (entries h) i) = 0 -> fstart (getf (entries h) j) = 0.
Proof.
  intros (Hl & Hd & Hn) i j Hij Hj H0.
  pose proof (desc_nth _ Hd i j Hij ltac:(rewrite Hl; exact Hj)).
  assert (0 <= fstart (getf (entries h) j)) by (apply Hn, nth_In; rewrite Hl; exact Hj). lia.
Qed.

End WithNum.
