From Coq Require Import ZArith List Lia Arith Bool.
From Flap Require Import Model.Search Model.Weights Proofs.SearchP.
Import ListNotations.
Open Scope Z_scope.

(** cumulative weight of the first i entries *)
Definition cum (ws : list Z) (i : nat) : Z := fold_right Z.add 0 (firstn i ws).
Definition total (ws : list Z) : Z := cum ws (length ws).

Definition nonneg (ws : list Z) : Prop := Forall (fun w => 0 <= w) ws.

Lemma cum_S ws i : (i < length ws)%nat -> cum ws (S i) = cum ws i + nth i ws 0.
Proof.
  unfold cum. revert i. induction ws as [|w t IH]; intros i Hi; cbn [length] in Hi; [lia|].
  destruct i as [|i].
  - cbn. lia.
  - rewrite !firstn_cons. cbn [fold_right nth]. rewrite IH by lia. lia.
Qed.

Lemma cum_mono ws : nonneg ws -> forall i j, (i <= j)%nat -> cum ws i <= cum ws j.
Proof.
  intros Hpos. unfold cum. induction Hpos as [|w t Hw Ht IH]; intros i j Hij.
  - destruct i, j; cbn; lia.
  - destruct i, j; cbn [firstn fold_right]; try lia.
    + specialize (IH 0%nat j). cbn in IH. lia.
    + specialize (IH i j). lia.
Qed.

Lemma cum_all ws i : (length ws <= i)%nat -> cum ws i = total ws.
Proof. intros H. unfold total, cum. rewrite !firstn_all2; auto. Qed.

(** what [of_weights] builds *)
Fixpoint scale_from (acc : Z) (k : nat) (ws : list Z) : scale :=
  match ws with [] => [] | w :: t => (Z.of_nat k, acc + w) :: scale_from (acc + w) (S k) t end.

Lemma add_app s w : add s w = s ++ [(Z.of_nat (length s), last_w s + w)].
Proof. unfold add, add_index_weight. destruct s; reflexivity. Qed.

Lemma last_w_app s e : last_w (s ++ [e]) = snd e.
Proof. unfold last_w. rewrite last_last. reflexivity. Qed.

Lemma fold_add ws : forall s, fold_left add ws s = s ++ scale_from (last_w s) (length s) ws.
Proof.
  induction ws as [|w t IH]; intros s; cbn [fold_left scale_from]; [now rewrite app_nil_r|].
  rewrite IH, add_app, last_w_app, app_length, <- app_assoc. cbn [length snd app].
  replace (length s + 1)%nat with (S (length s)) by lia. reflexivity.
Qed.

Lemma of_weights_eq ws : of_weights ws = scale_from 0 0 ws.
Proof. unfold of_weights. rewrite fold_add. reflexivity. Qed.

Lemma scale_from_length acc k ws : length (scale_from acc k ws) = length ws.
Proof. revert acc k; induction ws; intros; cbn; auto. Qed.

Lemma scale_from_nth acc k ws : forall i, (i < length ws)%nat ->
  nth i (scale_from acc k ws) (0,0) = (Z.of_nat (k + i), acc + cum ws (S i)).
Proof.
  revert acc k. induction ws as [|w t IH]; intros acc k i Hi; cbn [length] in Hi; [lia|].
  destruct i as [|i]; cbn [scale_from nth].
  - unfold cum. cbn. f_equal; [f_equal|]; lia.
  - rewrite IH by lia. unfold cum. cbn [firstn fold_right]. f_equal; [f_equal|]; lia.
Qed.

Lemma last_cons2 {A} (a b : A) l d : last (a :: b :: l) d = last (b :: l) d.
Proof. reflexivity. Qed.

Lemma last_w_scale_from acc k ws : ws <> [] -> last_w (scale_from acc k ws) = acc + total ws.
Proof.
  unfold last_w, total, cum. revert acc k. induction ws as [|w t IH]; intros acc k Hne; [congruence|].
  destruct t as [|w' t'].
  - cbn. lia.
  - specialize (IH (acc + w) (S k) ltac:(discriminate)).
    rewrite firstn_all in *.
    change (scale_from acc k (w :: w' :: t')) with ((Z.of_nat k, acc + w) :: scale_from (acc + w) (S k) (w' :: t')).
    remember (scale_from (acc + w) (S k) (w' :: t')) as l eqn:El.
    destruct l as [|e l]; [cbn in El; discriminate|].
    rewrite last_cons2, IH. cbn [fold_right]. lia.
Qed.

Lemma top_weight_of_weights ws :
  top_weight (of_weights ws) = match ws with [] => None | _ => Some (total ws) end.
Proof.
  rewrite of_weights_eq. destruct ws as [|w t]; [reflexivity|].
  assert (H := last_w_scale_from 0 0 (w :: t) ltac:(discriminate)).
  unfold top_weight. remember (scale_from 0 0 (w :: t)) as l eqn:El.
  destruct l as [|e l]; [cbn in El; discriminate|]. rewrite H. f_equal.
Qed.

(** find on a built scale: the entry whose half-open cumulative interval (cum i, cum (i+1)]
    contains the looked-up value *)
Theorem find_spec ws v i : nonneg ws ->
  (find (of_weights ws) v = Some (Z.of_nat i) <->
   (i < length ws)%nat /\ v <= cum ws (S i) /\ (forall j, (j < i)%nat -> cum ws (S j) < v)).
Proof.
  intros Hpos. unfold find. rewrite of_weights_eq, scale_from_length.
  set (f := fun i0 : nat => (v <=? snd (nth i0 (scale_from 0 0 ws) (0,0)))).
  assert (Hm : monotone (length ws) f).
  { intros a b Hab Hb Ha. unfold f in *. rewrite scale_from_nth in * by lia. cbn [snd] in *.
    apply Z.leb_le in Ha. apply Z.leb_le. pose proof (cum_mono ws Hpos (S a) (S b)). lia. }
  destruct (search_spec _ _ Hm) as (R1 & R2 & R3).
  set (s := search (length ws) f) in *.
  destruct (Nat.ltb_spec s (length ws)) as [Hlt|Hge].
  - assert (Hfs : f s = true) by (apply R3; lia).
    unfold f in Hfs. rewrite scale_from_nth in Hfs by lia. cbn [snd] in Hfs. apply Z.leb_le in Hfs.
    rewrite scale_from_nth by lia. cbn [fst]. rewrite Nat.add_0_l.
    split.
    + intros E. injection E as E. apply Nat2Z.inj in E. subst i. split; [lia|]. split; [lia|].
      intros j Hj. specialize (R2 j Hj). unfold f in R2. rewrite scale_from_nth in R2 by lia.
      cbn [snd] in R2. apply Z.leb_gt in R2. lia.
    + intros (Hi & Hhi & Hlo). f_equal. f_equal.
      destruct (Nat.lt_trichotomy s i) as [Hsi|[->|Hsi]]; [|reflexivity|].
      * specialize (Hlo s Hsi). lia.
      * assert (Hf : f i = false) by (apply R2; lia). unfold f in Hf.
        rewrite scale_from_nth in Hf by lia. cbn [snd] in Hf. apply Z.leb_gt in Hf. lia.
  - split; [discriminate|]. intros (Hi & Hhi & _).
    assert (Hf : f i = false) by (apply R2; lia). unfold f in Hf.
    rewrite scale_from_nth in Hf by lia. cbn [snd] in Hf. apply Z.leb_gt in Hf. lia.
Qed.

(** find only ever returns indices that were put in *)
Lemma find_some_index ws v k : find (of_weights ws) v = Some k ->
  exists i, k = Z.of_nat i /\ (i < length ws)%nat.
Proof.
  unfold find. rewrite of_weights_eq, scale_from_length.
  set (s := search _ _). destruct (Nat.ltb_spec s (length ws)) as [Hlt|Hge]; [|discriminate].
  rewrite scale_from_nth by lia. cbn [fst]. intros E. injection E as <-. exists s. split; [f_equal; lia|lia].
Qed.

Lemma find_beyond_top ws v : nonneg ws -> total ws < v -> find (of_weights ws) v = None.
Proof.
  intros Hpos Hv. destruct (find (of_weights ws) v) as [k|] eqn:E; [|reflexivity].
  destruct (find_some_index _ _ _ E) as (i & -> & Hi).
  apply find_spec in E; auto. destruct E as (_ & Hhi & _).
  pose proof (cum_mono ws Hpos (S i) (length ws) ltac:(lia)). unfold total in Hv. lia.
Qed.

(** choose: the draw r selects the entry whose interval [cum i, cum (i+1)) contains r *)
Theorem choose_spec ws r i : nonneg ws -> 0 <= r < total ws ->
  (choose (of_weights ws) r = ChIndex (Z.of_nat i) <->
   (i < length ws)%nat /\ cum ws i <= r < cum ws (S i)).
Proof.
  intros Hpos Hr. unfold choose. rewrite top_weight_of_weights.
  destruct ws as [|w0 t] eqn:Ews; [unfold total, cum in Hr; cbn in Hr; lia|]. rewrite <- Ews in *.
  destruct (Z.eqb_spec (total ws) 0) as [E0|_]; [lia|].
  destruct (find (of_weights ws) (r+1)) as [k|] eqn:Ef.
  - destruct (find_some_index _ _ _ Ef) as (i' & -> & Hi').
    pose proof (proj1 (find_spec ws (r+1) i' Hpos) Ef) as (_ & Hhi & Hlo).
    assert (Hprev : cum ws i' <= r).
    { destruct i' as [|p]; [unfold cum; cbn; lia|]. specialize (Hlo p ltac:(lia)). lia. }
    split.
    + intros E. injection E as E. apply Nat2Z.inj in E. subst i'. split; [lia|lia].
    + intros (Hi & Hl & Hh). f_equal. f_equal.
      destruct (Nat.lt_trichotomy i' i) as [H|[->|H]]; [|reflexivity|].
      * pose proof (cum_mono ws Hpos (S i') i ltac:(lia)). lia.
      * pose proof (cum_mono ws Hpos (S i) i' ltac:(lia)). lia.
  - split; [discriminate|]. intros (Hi & Hl & Hh). exfalso.
    (* some entry's interval contains r, so find cannot fail: take the first i0 with r < cum (S i0) *)
    assert (Hex : find (of_weights ws) (r+1) = Some (Z.of_nat i)).
    { apply find_spec; auto. split; [lia|]. split; [lia|].
      intros j Hj. pose proof (cum_mono ws Hpos (S j) i ltac:(lia)). lia. }
    congruence.
Qed.

(** counting draws *)
Definition zrange (n : Z) : list Z := map Z.of_nat (seq 0 (Z.to_nat n)).

Lemma count_interval_seq a b : forall n s,
  length (filter (fun k => (a <=? k)%nat && (k <? b)%nat) (seq s n)) = (Nat.min b (s + n) - Nat.max a s)%nat.
Proof.
  induction n as [|n IH]; intros s; cbn [seq filter]; [cbn; lia|].
  destruct (Nat.leb_spec a s) as [Has|Has]; destruct (Nat.ltb_spec s b) as [Hsb|Hsb]; cbn [andb length];
    rewrite IH; lia.
Qed.

Lemma count_interval n a b : 0 <= a -> a <= b -> b <= n ->
  Z.of_nat (length (filter (fun r => (a <=? r) && (r <? b)) (zrange n))) = b - a.
Proof.
  intros Ha Hab Hbn. unfold zrange.
  assert (E : forall l, length (filter (fun r => (a <=? r) && (r <? b)) (map Z.of_nat l)) =
         length (filter (fun k => (Z.to_nat a <=? k)%nat && (k <? Z.to_nat b)%nat) l)).
  { induction l as [|x l IHl]; [reflexivity|]. cbn [map filter].
    assert (Eb : ((a <=? Z.of_nat x) && (Z.of_nat x <? b)) = ((Z.to_nat a <=? x)%nat && (x <? Z.to_nat b)%nat)).
    { destruct (Z.leb_spec a (Z.of_nat x)); destruct (Z.ltb_spec (Z.of_nat x) b);
      destruct (Nat.leb_spec (Z.to_nat a) x); destruct (Nat.ltb_spec x (Z.to_nat b)); cbn; try reflexivity; lia. }
    rewrite Eb; clear Eb. destruct (_ && _); cbn [length]; rewrite IHl; reflexivity. }
  rewrite E, count_interval_seq. lia.
Qed.

Definition chosen (ws : list Z) (i : nat) (r : Z) : bool :=
  match choose (of_weights ws) r with ChIndex k => Z.eqb k (Z.of_nat i) | _ => false end.

(** THE property: entry i is chosen by exactly w_i of the [total ws] possible draws. *)
Theorem choose_count ws i : nonneg ws -> (i < length ws)%nat ->
  Z.of_nat (length (filter (chosen ws i) (zrange (total ws)))) = nth i ws 0.
Proof.
  intros Hpos Hi.
  rewrite (filter_ext_in _ (fun r => (cum ws i <=? r) && (r <? cum ws (S i)))).
  - rewrite count_interval.
    + rewrite cum_S by lia. lia.
    + pose proof (cum_mono ws Hpos 0 i ltac:(lia)). unfold cum in H at 1. cbn in H. lia.
    + apply cum_mono; auto.
    + unfold total. apply cum_mono; auto; lia.
  - intros r Hr. unfold zrange in Hr. apply in_map_iff in Hr. destruct Hr as (k & <- & Hk).
    apply in_seq in Hk.
    assert (Hrange : 0 <= Z.of_nat k < total ws) by lia.
    unfold chosen.
    pose proof (choose_spec ws (Z.of_nat k) i Hpos Hrange) as Hspec.
    destruct (choose (of_weights ws) (Z.of_nat k)) as [| |c] eqn:Ec.
    + symmetry. apply not_true_is_false. intros Hb. apply andb_true_iff in Hb. destruct Hb as [H1 H2].
      apply Z.leb_le in H1. apply Z.ltb_lt in H2.
      assert (Hc: ChNoWeights = ChIndex (Z.of_nat i)) by (apply Hspec; lia). discriminate.
    + symmetry. apply not_true_is_false. intros Hb. apply andb_true_iff in Hb. destruct Hb as [H1 H2].
      apply Z.leb_le in H1. apply Z.ltb_lt in H2.
      assert (Hc: ChNotFound = ChIndex (Z.of_nat i)) by (apply Hspec; lia). discriminate.
    + destruct (Z.eqb_spec c (Z.of_nat i)) as [->|Hne].
      * destruct (proj1 Hspec eq_refl) as (_ & H1 & H2). symmetry. apply andb_true_iff.
        split; [apply Z.leb_le|apply Z.ltb_lt]; lia.
      * symmetry. apply not_true_is_false. intros Hb. apply andb_true_iff in Hb. destruct Hb as [H1 H2].
        apply Z.leb_le in H1. apply Z.ltb_lt in H2.
        assert (Hc: ChIndex c = ChIndex (Z.of_nat i)) by (apply Hspec; lia). congruence.
Qed.

Corollary zero_weight_never_chosen ws i r : nonneg ws -> (i < length ws)%nat -> nth i ws 0 = 0 ->
  0 <= r < total ws -> choose (of_weights ws) r <> ChIndex (Z.of_nat i).
Proof.
  intros Hpos Hi Hz Hr Hc. apply choose_spec in Hc; auto. destruct Hc as (_ & H1 & H2).
  rewrite cum_S in H2 by lia. lia.
Qed.

Corollary positive_weight_reachable ws i : nonneg ws -> (i < length ws)%nat -> 0 < nth i ws 0 ->
  exists r, 0 <= r < total ws /\ choose (of_weights ws) r = ChIndex (Z.of_nat i).
Proof.
  intros Hpos Hi Hw. exists (cum ws i).
  pose proof (cum_mono ws Hpos 0 i ltac:(lia)) as H0. unfold cum in H0 at 1. cbn in H0.
  pose proof (cum_mono ws Hpos (S i) (length ws) ltac:(lia)) as H1.
  pose proof (cum_S ws i Hi) as H2. unfold total.
  assert (Hr : 0 <= cum ws i < cum ws (length ws)) by lia.
  split; [exact Hr|]. apply choose_spec; auto. split; [lia|lia].
Qed.

(** every draw in range selects some entry (choose never fails on a positive total) *)
Corollary choose_total ws r : nonneg ws -> 0 <= r < total ws ->
  exists i, (i < length ws)%nat /\ choose (of_weights ws) r = ChIndex (Z.of_nat i).
Proof.
  intros Hpos Hr.
  (* least i with r < cum (S i) exists because r < total *)
  assert (Hgen : forall n, (n <= length ws)%nat -> 0 <= r < cum ws n ->
                 exists i, (i < n)%nat /\ cum ws i <= r < cum ws (S i)).
  { induction n as [|n IH]; intros Hn Hrn; [unfold cum in Hrn; cbn in Hrn; lia|].
    destruct (Z.lt_ge_cases r (cum ws n)) as [Hlt|Hge].
    - destruct IH as (i & Hi & Hint); [lia|lia|]. exists i. split; [lia|exact Hint].
    - exists n. split; [lia|lia]. }
  assert (Hex : exists i, (i < length ws)%nat /\ cum ws i <= r < cum ws (S i)).
  { apply Hgen; [lia|exact Hr]. }
  destruct Hex as (i & Hi & Hint). exists i. split; [exact Hi|]. apply choose_spec; auto.
Qed.

(** the off-by-one of the original code (lookup of r instead of r+1), kept as a witness of
    what the repaired line prevents: with weights [5;1] entry 1 was unreachable. *)
Definition choose_unrepaired (s : scale) (r : Z) : choose_result :=
  match top_weight s with
  | None => ChNoWeights
  | Some tw => if Z.eqb tw 0 then ChNotFound
               else match find s r with Some i => ChIndex i | None => ChNotFound end
  end.
Lemma choose_unrepaired_refuted : exists ws, nonneg ws /\
  forallb (fun r => match choose_unrepaired (of_weights ws) r with ChIndex 1 => false | _ => true end)
          (zrange (total ws)) = true.
Proof. exists [5; 1]. split; [repeat constructor; lia|]. vm_compute. reflexivity. Qed.

(** ---------- CountriesAirportsRoutes.chooseTrip: the departure airport by the totals of the airports' route
    weights, then the route by its weight ---------- *)
Definition airport_weights (aws : list (list Z)) : list Z := map total aws.

Lemma total_nonneg ws : nonneg ws -> 0 <= total ws.
Proof.
  intros H. pose proof (cum_mono ws H 0 (length ws) ltac:(lia)) as Hm. unfold total.
  unfold cum in Hm at 1. cbn in Hm. exact Hm.
Qed.

Theorem trip_choice_count aws a j : Forall nonneg aws -> (a < length aws)%nat -> (j < length (nth a aws []))%nat ->
  Z.of_nat (length (filter (chosen (airport_weights aws) a) (zrange (total (airport_weights aws))))) = total (nth a aws []) /\
  Z.of_nat (length (filter (chosen (nth a aws []) j) (zrange (total (nth a aws []))))) = nth j (nth a aws []) 0.
Proof.
  intros Hall Ha Hj. split.
  - rewrite choose_count.
    + unfold airport_weights. change 0 with (total []) at 1. rewrite map_nth. reflexivity.
    + unfold airport_weights, nonneg. apply Forall_forall. intros w Hw. apply in_map_iff in Hw. destruct Hw as (ws & <- & Hin).
      apply total_nonneg. rewrite Forall_forall in Hall. apply Hall, Hin.
    + unfold airport_weights. rewrite map_length. exact Ha.
  - apply choose_count; [|exact Hj]. rewrite Forall_forall in Hall. apply Hall. apply nth_In. exact Ha.
Qed.
