(** Engine-level operations as a state machine, and the ledger invariant over every reachable state. *)
From Coq Require Import ZArith List Bool Arith Lia Permutation.
From Flap Require Import Model.Num Model.TripHistory Model.Promises Model.Predictor Model.Engine Proofs.LedgerP.
Import ListNotations.
Open Scope Z_scope.

Section WithNum.
Context {N : NumOps}.
Local Notation K := (K N).
Local Notation traveller := (traveller N).
Local Notation engine := (engine N).
Local Notation table := (table N).

(** the operations a front end / carrier / administrator can apply.  Proposing is not an operation on
    the state (it returns a value); making takes any proposal value, current or stale. *)
Inductive eng_op :=
| OSetParams (p : params N)
| OSubmit (k : Z) (fs : list (flight N)) (now : Z) (debit : bool)
| OUpdate (now : Z) (fit : list K)
| OMake (k : Z) (pp : proposal N) (now : Z)
| OEndTrip (k : Z)
| OReopen (k : Z).

Definition e_apply (e : engine) (o : eng_op) : engine :=
  match o with
  | OSetParams p => match set_params (e_admin e) p with
                    | inl a => {| e_admin := a; e_table := e_table e |} | inr _ => e end
  | OSubmit k fs now debit => fst (submit_flights e k fs now debit)
  | OUpdate now fit => fst (fst (update_all e now fit))
  | OMake k pp now => fst (engine_make e k pp now)
  | OEndTrip k => fst (engine_end_trip e k)
  | OReopen k => fst (engine_reopen_trip e k)
  end.

Definition engine0 (a : admin N) : engine := {| e_admin := a; e_table := [] |}.

Lemma update_some_TLinv recs : forall p share now (writes : table) s,
  TLinv recs -> TLinv writes -> TLinv (fst (update_some recs p share now writes s)).
Proof.
  induction recs as [|[k t] r IH]; intros p share now writes s Hr Hw; cbn [update_some]; [exact Hw|].
  destruct (update_traveller t p share now) as [w c] eqn:Eu.
  apply IH; [intros k2 t2 H; eapply Hr; right; exact H|].
  destruct (update_traveller_ledger t p share now w c Eu) as [_ HL].
  destruct w as [t'|]; [|exact Hw].
  intros k2 t2 Hin. apply in_app_or in Hin. destruct Hin as [Hin|[E|[]]]; [eapply Hw; eauto|].
  injection E as <- <-. apply HL. eapply Hr. left. reflexivity.
Qed.

Lemma TLinv_filter (tb : table) f : TLinv tb -> TLinv (filter f tb).
Proof. intros H k t Hin. apply filter_In in Hin. eapply H. apply Hin. Qed.

Lemma fold_tput_TLinv (ws : table) : forall tb, TLinv tb -> TLinv ws ->
  TLinv (fold_left (fun tb kt => tput tb (fst kt) (snd kt)) ws tb).
Proof.
  induction ws as [|[k t] r IH]; intros tb Ht Hw; cbn [fold_left]; [exact Ht|].
  apply IH; [apply TLinv_tput; [exact Ht|eapply Hw; left; reflexivity]|intros k2 t2 H; eapply Hw; right; exact H].
Qed.

Lemma update_all_TLinv (e : engine) now fit : TLinv (e_table e) -> TLinv (e_table (fst (fst (update_all e now fit)))).
Proof.
  intros Ht. unfold update_all.
  destruct (negb (now mod SecondsInDay =? 0)); [exact Ht|].
  destruct (if has_bit _ _ then _ else _) as [pc1 pcv].
  destruct (if kltb N (k0 N) _ then _ else _) as [share pred1].
  cbn [fst e_table].
  set (results := map _ _).
  assert (Hres : forall wr, In wr results -> TLinv (fst wr)).
  { intros wr Hin. unfold results in Hin. apply in_map_iff in Hin. destruct Hin as (r & <- & _).
    apply update_some_TLinv; [apply TLinv_filter, Ht|intros ? ? []]. }
  clearbody results. revert Ht. generalize (e_table e).
  induction results as [|wr rs IH]; intros tb Ht; cbn [fold_left]; [exact Ht|].
  apply IH; [intros w Hw; apply Hres; right; exact Hw|].
  apply fold_tput_TLinv; [exact Ht|apply Hres; left; reflexivity].
Qed.

Lemma e_apply_TLinv (e : engine) o : TLinv (e_table e) -> TLinv (e_table (e_apply e o)).
Proof.
  intros Ht. destruct o as [p|k fs now debit|now fit|k pp now|k|k]; cbn [e_apply].
  - destruct (set_params (e_admin e) p); exact Ht.
  - apply submit_flights_TLinv, Ht.
  - apply update_all_TLinv, Ht.
  - unfold engine_make. destruct (negb _); [exact Ht|]. destruct (make _ _ _); [|exact Ht].
    cbn [fst e_table]. apply TLinv_tput; [exact Ht|]. apply Linv_set_book, get_create_Linv, Ht.
  - unfold engine_end_trip. destruct (tget (e_table e) k) as [t|] eqn:E; [|exact Ht].
    destruct (end_trip_op (t_hist t)); [|exact Ht]. cbn [fst e_table]. apply TLinv_tput; [exact Ht|].
    apply Linv_set_hist. destruct (tget_In _ _ _ E) as (k' & H). eapply Ht; eauto.
  - unfold engine_reopen_trip. destruct (tget (e_table e) k) as [t|] eqn:E; [|exact Ht].
    destruct (reopen_trip_op (t_hist t)); [|exact Ht]. cbn [fst e_table]. apply TLinv_tput; [exact Ht|].
    apply Linv_set_hist. destruct (tget_In _ _ _ E) as (k' & H). eapply Ht; eauto.
Qed.

(** every traveller record of every reachable engine state satisfies the ledger invariant *)
Theorem reachable_ledger_invariant (a : admin N) (ops : list eng_op) k t :
  tget (e_table (fold_left e_apply ops (engine0 a))) k = Some t ->
  t_balance t = seqsum (t_ledger t) /\ t_txs t = window (t_ledger t).
Proof.
  intros Hget.
  assert (G : forall e, TLinv (e_table e) -> TLinv (e_table (fold_left e_apply ops e))).
  { clear Hget. induction ops as [|o r IH]; intros e He; cbn [fold_left]; [exact He|]. apply IH, e_apply_TLinv, He. }
  destruct (tget_In _ _ _ Hget) as (k' & Hin). eapply G; [|exact Hin]. intros ? ? [].
Qed.

(** the ledger is append-only under the only operations that touch it *)
Lemma submit_loop_from_grows fs : forall first (t : traveller) pc now p debit t' pc',
  submit_loop_from first t pc fs now p debit = inl (t', pc') -> exists new, t_ledger t' = new ++ t_ledger t.
Proof.
  induction fs as [|f r IH]; intros first t pc now p debit t' pc'; cbn [submit_loop_from].
  - intros E; injection E as <- _. exists []. reflexivity.
  - destruct (checkin_one first t f now (pTaxi p) debit) as [[[t1 bac] pd]|] eqn:Es; [|discriminate].
    destruct (checkin_one_ledger _ _ _ _ _ _ _ _ _ Es) as [E1 _]. intros E.
    destruct (IH _ _ _ _ _ _ _ _ E) as (new & En). rewrite En.
    destruct (_ && _); cbn [transact t_ledger]; rewrite E1; eexists; rewrite ?app_comm_cons, app_assoc; reflexivity.
Qed.

Lemma submit_loop_grows fs (t : traveller) pc now p debit t' pc' :
  submit_loop t pc fs now p debit = inl (t', pc') -> exists new, t_ledger t' = new ++ t_ledger t.
Proof. apply submit_loop_from_grows. Qed.

(** ---- "equals the sum" in the usual sense needs the ring laws of addition ---- *)
Record AddLaws : Prop := {
  kadd_comm : forall a b : K, kadd N a b = kadd N b a;
  kadd_assoc : forall a b c : K, kadd N a (kadd N b c) = kadd N (kadd N a b) c }.

Lemma seqsum_perm (H : AddLaws) (l l' : list (tx N)) : Permutation l l' -> seqsum l = seqsum l'.
Proof.
  induction 1 as [|x l l' _ IH|x y l|l1 l2 l3 _ IH1 _ IH2]; cbn [seqsum fold_right]; [reflexivity| | |congruence].
  - fold (seqsum l) (seqsum l'). rewrite IH. reflexivity.
  - fold (seqsum l). rewrite <- !(kadd_assoc H). f_equal. apply (kadd_comm H).
Qed.

End WithNum.
