(** Float-level facts about the binary64 port of the distance computation (Model/Geo.v):
    exact symmetry, and the decision rules of LatLon.Valid / Distance / NewFlight.
    Uses the standard library's specification of primitive floats (FloatAxioms: mul_spec, sub_spec,
    abs_spec and the Prim2SF/SF2Prim axioms behind Prim2SF_inj). *)
From Coq Require Import ZArith Floats Bool Lia.
From Flap Require Import Model.NumF Model.Geo.

Section Spec.
  Variables prec emax : Z.

  Lemma SFmul_comm x y : SFmul prec emax x y = SFmul prec emax y x.
  Proof.
    destruct x as [sx | sx | | sx mx ex], y as [sy | sy | | sy my ey]; cbn [SFmul];
      rewrite ?(xorb_comm sx sy); try reflexivity.
    rewrite (Pos.mul_comm mx my), (Z.add_comm ex ey). reflexivity.
  Qed.

  Lemma SFabs_binary_round_aux s m e l :
    SFabs (binary_round_aux prec emax s m e l) = SFabs (binary_round_aux prec emax false m e l).
  Proof.
    unfold binary_round_aux.
    destruct (shr_fexp prec emax m e l) as [mrs' e'].
    destruct (shr_fexp prec emax _ e' loc_Exact) as [mrs'' e''].
    destruct (shr_m mrs''); [reflexivity | | reflexivity].
    destruct (Zle_bool e'' (emax - prec)); reflexivity.
  Qed.

  Lemma SFabs_binary_round s m e :
    SFabs (binary_round prec emax s m e) = SFabs (binary_round prec emax false m e).
  Proof.
    unfold binary_round. destruct (shl_align m e _) as [mz ez]. apply SFabs_binary_round_aux.
  Qed.

  Lemma SFabs_binary_normalize_opp m e :
    SFabs (binary_normalize prec emax (- m) e false) = SFabs (binary_normalize prec emax m e false).
  Proof.
    destruct m as [ | p | p]; cbn [Z.opp binary_normalize]; [reflexivity | | ].
    - apply SFabs_binary_round.
    - symmetry. apply SFabs_binary_round.
  Qed.

  Lemma SFabs_sub_comm x y : SFabs (SFsub prec emax x y) = SFabs (SFsub prec emax y x).
  Proof.
    destruct x as [sx | sx | | sx mx ex], y as [sy | sy | | sy my ey]; cbn [SFsub SFabs]; try reflexivity.
    - destruct sx, sy; reflexivity.
    - destruct sx, sy; reflexivity.
    - cbv zeta. rewrite (Z.min_comm ey ex).
      set (a := cond_Zopp sx _). set (b := cond_Zopp sy _).
      replace (b - a)%Z with (- (a - b))%Z by lia.
      symmetry. apply SFabs_binary_normalize_opp.
  Qed.
End Spec.

Lemma fmul_comm (x y : float) : (x * y = y * x)%float.
Proof. apply Prim2SF_inj. rewrite !mul_spec. apply SFmul_comm. Qed.

Lemma fabs_sub_comm (x y : float) : fabs (x - y) = fabs (y - x).
Proof. unfold fabs. apply Prim2SF_inj. rewrite !abs_spec, !sub_spec. apply SFabs_sub_comm. Qed.

Lemma go_cos_of_abs (a b : float) : fabs a = fabs b -> go_cos a = go_cos b.
Proof. intros H. unfold go_cos. rewrite H. reflexivity. Qed.

Lemma haversine_sub_comm (a b : float) : haversine (a - b) = haversine (b - a).
Proof. unfold haversine. rewrite (go_cos_of_abs (a - b) (b - a)); [reflexivity | apply fabs_sub_comm]. Qed.

(** bit-for-bit symmetric: the same float (or the same rejection) in both directions *)
Lemma distance_sym lat1 lon1 lat2 lon2 : distance lat1 lon1 lat2 lon2 = distance lat2 lon2 lat1 lon1.
Proof.
  unfold distance. rewrite (andb_comm (valid_latlon lat2 lon2)).
  destruct (valid_latlon lat1 lon1 && valid_latlon lat2 lon2); [ | reflexivity].
  cbv zeta.
  rewrite (haversine_sub_comm (deg_rad lat2) (deg_rad lat1)), (haversine_sub_comm (deg_rad lon2) (deg_rad lon1)).
  rewrite (fmul_comm (go_cos (deg_rad lat1)) (go_cos (deg_rad lat2))). reflexivity.
Qed.

(** decision rules *)
Lemma distance_rejects_iff lat1 lon1 lat2 lon2 :
  distance lat1 lon1 lat2 lon2 = None <-> valid_latlon lat1 lon1 = false \/ valid_latlon lat2 lon2 = false.
Proof.
  unfold distance. destruct (valid_latlon lat1 lon1), (valid_latlon lat2 lon2); cbn [andb]; split; intros H;
    try discriminate; try (destruct H; discriminate); auto.
Qed.

Lemma valid_latlon_spec lat lon :
  valid_latlon lat lon = true <-> PrimFloat.leb (fabs lat) c90 = true /\ PrimFloat.leb (fabs lon) c180 = true.
Proof.
  unfold valid_latlon. rewrite andb_true_iff. reflexivity.
Qed.

(** a NaN coordinate is never valid (comparisons with NaN are false) *)
Lemma nan_latitude_invalid lon : valid_latlon nan lon = false.
Proof. unfold valid_latlon. replace (PrimFloat.leb (fabs nan) c90) with false by (vm_compute; reflexivity). reflexivity. Qed.
Lemma nan_longitude_invalid lat : valid_latlon lat nan = false.
Proof. unfold valid_latlon. replace (PrimFloat.leb (fabs nan) c180) with false by (vm_compute; reflexivity). apply andb_false_r. Qed.

Lemma new_flight_ok_spec (s e : Z) : new_flight_ok s e = true <-> (0 < s /\ s < e)%Z.
Proof. unfold new_flight_ok. rewrite andb_true_iff, !Z.ltb_lt. reflexivity. Qed.

(** concrete non-vacuity / sanity points, computed by the kernel on the port *)
Example heathrow_jfk_bits :
  option_map to_bits (distance (of_bits 4632431940331898929) (of_bits 13822225939774613821) (of_bits 4630959950357836993) (of_bits 13858270747308269437))
  = option_map to_bits (distance (of_bits 4630959950357836993) (of_bits 13858270747308269437) (of_bits 4632431940331898929) (of_bits 13822225939774613821)).
Proof. vm_compute. reflexivity. Qed.

(** * Identical points: exactly +0, provided the intermediate values are finite
    (the harness checks that they are for every valid coordinate it tries; the theorem does not
    establish the finiteness of the polynomial evaluation in [go_cos]) *)
Definition fin (x : float) : bool :=
  match Prim2SF x with S754_zero _ | S754_finite _ _ _ => true | _ => false end.

Lemma SFsub_diag prec emax x :
  match x with S754_zero _ | S754_finite _ _ _ => True | _ => False end ->
  SFsub prec emax x x = S754_zero false.
Proof.
  destruct x as [s | s | | s m e]; cbn [SFsub]; intros H; try contradiction.
  - destruct s; reflexivity.
  - cbv zeta. rewrite Z.sub_diag. reflexivity.
Qed.

Lemma fsub_diag x : fin x = true -> (x - x)%float = 0%float.
Proof.
  unfold fin. intros H. apply Prim2SF_inj. rewrite sub_spec.
  unfold SF64sub. rewrite SFsub_diag; [reflexivity | destruct (Prim2SF x); try discriminate; exact I].
Qed.

Lemma SFmul_self_sign prec emax x :
  match SFmul prec emax x x with
  | S754_zero s | S754_finite s _ _ => s = false
  | _ => True
  end.
Proof.
  destruct x as [s | s | | s m e]; cbn [SFmul]; try exact I; try apply xorb_nilpotent.
  rewrite xorb_nilpotent. unfold binary_round_aux.
  destruct (shr_fexp prec emax _ _ loc_Exact) as [mrs' e'].
  destruct (shr_fexp prec emax _ e' loc_Exact) as [mrs'' e''].
  destruct (shr_m mrs''); [reflexivity | | exact I].
  destruct (Zle_bool e'' (emax - prec)); [reflexivity | exact I].
Qed.

Lemma fmul_self_zero c : fin (c * c)%float = true -> (c * c * 0)%float = 0%float.
Proof.
  unfold fin. intros H. apply Prim2SF_inj. rewrite (mul_spec (c * c) 0).
  pose proof (SFmul_self_sign prec emax (Prim2SF c)) as S.
  rewrite mul_spec in H |- *. unfold SF64mul in *.
  destruct (SFmul prec emax (Prim2SF c) (Prim2SF c)) as [s | s | | s m e]; try discriminate; subst s; reflexivity.
Qed.

Lemma go_cos_zero : go_cos 0%float = 1%float.
Proof. vm_compute. reflexivity. Qed.

Lemma distance_same_partial lat lon :
  valid_latlon lat lon = true ->
  fin (deg_rad lat) = true -> fin (deg_rad lon) = true ->
  fin (go_cos (deg_rad lat) * go_cos (deg_rad lat))%float = true ->
  distance lat lon lat lon = Some 0%float.
Proof.
  intros Hv Hlat Hlon Hc. unfold distance. rewrite Hv. cbn [andb]. cbv zeta.
  rewrite (fsub_diag _ Hlat), (fsub_diag _ Hlon).
  unfold haversine. rewrite go_cos_zero.
  replace (0.5 * (1 - 1))%float with 0%float by (vm_compute; reflexivity).
  rewrite (fmul_self_zero _ Hc).
  vm_compute. reflexivity.
Qed.

Example distance_same_hyps_hold :
  let lat := of_bits 4632431940331898929 in let lon := of_bits 13822225939774613821 in
  valid_latlon lat lon = true /\ fin (deg_rad lat) = true /\ fin (deg_rad lon) = true /\
  fin (go_cos (deg_rad lat) * go_cos (deg_rad lat))%float = true.
Proof. vm_compute. repeat split. Qed.
