(** C20, whole histories at the level of the engine: any number of travellers, check-ins
    (Engine.SubmitFlights), plannings (Engine.Propose + Engine.Make), daily updates
    (Engine.UpdateTripsAndBackfill, any thread setting) and parameter changes, in any interleaving.
    Each engine operation acts on a traveller's record exactly as the corresponding traveller-level
    event of [Proofs/HistoryP.v] does, so the invariant [J] holds for every stored record and every
    check-in of a history that follows the discipline is accepted. *)
From Coq Require Import ZArith List Bool Arith Lia.
From Flap Require Import Model.Num Model.Search Model.TripHistory Model.Promises Model.Predictor Model.Engine
  Proofs.PromisesP Proofs.PromisesFrameP Proofs.TableP Proofs.UpdateAllP Proofs.BackfillP Proofs.HistoryP.
Import ListNotations.
Open Scope Z_scope.

Section WithNum.
Context {N : NumOps}.
Local Notation K := (K N).
Local Notation flight := (flight N).
Local Notation traveller := (traveller N).
Local Notation engine := (engine N).

Variable mx : Z.
Hypothesis Hmx : 1 <= mx.

(** the arguments Engine.Propose computes for Promises.propose (or the error it returns before) *)
Definition plan_args (e : engine) (fs : list flight) (trip_end now : Z) : (Z * Z * K * K) + eng_err :=
  match fs with
  | [] => inr EInvalidArg
  | _ =>
    let a := e_admin e in
    let p := a_params a in
    if negb (valid_predictor (a_pred a)) then inr EPromisesNotEnabled else
    let distance := fold_left (fun d f => kadd N d (kadd N (fdist f) (pTaxi p))) fs (k0 N) in
    let ts := fold_left (fun m f => Z.min m (fstart f)) fs max_epoch in
    let te := fold_left (fun m f => Z.max m (fend f)) fs trip_end in
    let travelled := fold_left (fun d f => kadd N d (fdist f)) (newest_first fs) (k0 N) in
    if pMaxDays p <? to_epoch_days ts true - to_epoch_days now false then inr ETripTooFarAhead else
    let distance := if has_bit (pAlgo p) pamCorrectPromiseDistance
                    then ksub N distance (kmul N (pc_bac_per_km (a_pc a)) distance) else distance in
    inl (ts, te, distance, travelled)
  end.

Lemma engine_propose_args (e : engine) k fs te now :
  engine_propose e k fs te now =
  match plan_args e fs te now with
  | inr er => PrErr er
  | inl (ts, te', d, tr) =>
      match propose (t_book (get_create e k now)) ts te' d tr now (as_predictor (a_pred (e_admin e)))
                    (pMaxStack (a_params (e_admin e))) with
      | inl pp => PrOk pp
      | inr err => PrErr (EPromise err)
      end
  end.
Proof.
  unfold engine_propose, plan_args. destruct fs as [|f r]; [reflexivity|].
  destruct (negb (valid_predictor (a_pred (e_admin e)))); [reflexivity|]. cbv zeta.
  destruct (_ <? _); reflexivity.
Qed.

(** ---------- engine histories ---------- *)
Inductive xev :=
| XCheckin (k : Z) (f : flight) (now : Z) (debit : bool)
| XPlan (k : Z) (fs : list flight) (trip_end now : Z)
| XUpdate (now : Z) (fit : list K)
| XSetParams (p : params N).

Definition x_apply (e : engine) (x : xev) : engine :=
  match x with
  | XCheckin k f now debit => fst (submit_flights e k [f] now debit)
  | XPlan k fs te now =>
      match engine_propose e k fs te now with
      | PrOk pp => fst (engine_make e k pp now)
      | _ => e
      end
  | XUpdate now fit => fst (fst (update_all e now fit))
  | XSetParams p =>
      match set_params (e_admin e) p with
      | inl a => {| e_admin := a; e_table := e_table e |}
      | inr _ => e
      end
  end.

(** every traveller has a clock of their own: the time of the last operation on their record.
    (Check-ins of different travellers on the same day are not ordered in time.) *)
Definition clock := Z -> Z.
Definition upd (c : clock) (k : Z) (v : Z) : clock := fun k' => if k' =? k then v else c k'.

Definition x_clock (c : clock) (e : engine) (x : xev) : clock :=
  match x with
  | XCheckin k _ now _ => upd c k now
  | XPlan k fs te now => match plan_args e fs te now with inl _ => upd c k now | inr _ => c end
  | XUpdate now _ => fun k => match tget (e_table e) k with Some _ => now | None => c k end
  | XSetParams _ => c
  end.

Definition x_accepted (e : engine) (x : xev) : Prop :=
  match x with
  | XCheckin k f now debit => snd (submit_flights e k [f] now debit) = None
  | _ => True
  end.

(** the discipline, traveller by traveller *)
Definition x_conforms (c : clock) (e : engine) (x : xev) : Prop :=
  let a := e_admin e in
  let p := a_params a in
  match x with
  | XCheckin k f now debit =>
      0 <= k < 2 ^ 160 /\ conforms mx (c k) (get_create e k now) (ECheckin f now (a_pc a) p debit)
  | XPlan k fs te now =>
      0 <= k < 2 ^ 160 /\ pMaxStack p = mx /\
      match plan_args e fs te now with
      | inl (ts, te', d, tr) =>
          conforms mx (c k) (get_create e k now) (EPlan ts te' d tr now (as_predictor (a_pred a)))
      | inr _ => True
      end
  | XUpdate now fit =>
      now mod SecondsInDay = 0 /\ 0 <= pThreads p < 256 /\ valid_threads (pThreads p) = true /\
      forall k t, tget (e_table e) k = Some t -> conforms mx (c k) t (EUpdate p (share_of e) now)
  | XSetParams _ => True
  end.

Fixpoint x_conforming (c : clock) (e : engine) (xs : list xev) : Prop :=
  match xs with
  | [] => True
  | x :: r => x_conforms c e x /\ x_conforming (x_clock c e x) (x_apply e x) r
  end.

Fixpoint x_all_accepted (e : engine) (xs : list xev) : Prop :=
  match xs with
  | [] => True
  | x :: r => x_accepted e x /\ x_all_accepted (x_apply e x) r
  end.

(** the table has sorted, distinct 160-bit keys and every stored record satisfies the traveller-level
    invariant at its own clock *)
Definition EJ (c : clock) (e : engine) : Prop :=
  keys_sorted (e_table e) /\ forall k t, tget (e_table e) k = Some t -> J mx (c k) t.

Lemma view_J (c : clock) (e : engine) k now : EJ c e -> J mx (c k) (get_create e k now).
Proof.
  intros [_ H]. unfold get_create. destruct (tget (e_table e) k) as [t|] eqn:Hg; [exact (H k t Hg)|].
  apply new_traveller_J. exact Hmx.
Qed.

Lemma EJ_put (c : clock) (e : engine) k v t' a :
  0 <= k < 2 ^ 160 -> EJ c e -> J mx v t' -> EJ (upd c k v) {| e_admin := a; e_table := tput (e_table e) k t' |}.
Proof.
  intros Hk [Hs H] Ht. split; [cbn [e_table]; apply keys_sorted_tput; assumption|].
  intros k' t Hg. cbn [e_table] in Hg. unfold upd. destruct (Z.eqb_spec k' k) as [->|Hne].
  - rewrite tget_tput_same in Hg. injection Hg as <-. exact Ht.
  - rewrite tget_tput_other in Hg by exact Hne. exact (H k' t Hg).
Qed.

(** an operation that leaves the table alone: moving one traveller's clock forward keeps the invariant *)
Lemma EJ_tick (c : clock) (e : engine) k v : c k <= v -> EJ c e -> EJ (upd c k v) e.
Proof.
  intros Hle [Hs H]. split; [exact Hs|].
  intros k' t Hg. unfold upd. destruct (Z.eqb_spec k' k) as [->|Hne]; [|exact (H k' t Hg)].
  eapply J_mono; [exact Hle|exact (H k t Hg)].
Qed.

Lemma x_step (c : clock) (e : engine) x : EJ c e -> x_conforms c e x ->
  x_accepted e x /\ EJ (x_clock c e x) (x_apply e x).
Proof.
  intros HE Hc. cbn zeta in Hc.
  destruct x as [k f now debit|k fs te now|now fit|p]; cbn [x_clock x_accepted x_apply] in *.
  - (* check-in *)
    destruct Hc as [Hkr Hc].
    pose proof (view_J c e k now HE) as HJ.
    destruct (step_J mx Hmx (c k) _ _ HJ Hc) as [[r Hacc] HJ']. cbn [apply_ev ev_time] in HJ'. rewrite Hacc in HJ'.
    unfold submit_flights. rewrite Hacc. destruct r as [t' pc']. cbn [fst snd].
    split; [reflexivity|]. apply EJ_put; assumption.
  - (* planning *)
    split; [exact I|]. destruct Hc as (Hkr & Hstack & Hc). rewrite engine_propose_args.
    destruct (plan_args e fs te now) as [[[[ts te'] d] tr]|er]; [|exact HE].
    pose proof (view_J c e k now HE) as HJ.
    pose proof Hc as [Hclk _]. cbn [ev_time] in Hclk.
    destruct (step_J mx Hmx (c k) _ _ HJ Hc) as [_ HJ']. cbn [apply_ev ev_time] in HJ'. unfold plan in HJ'.
    rewrite Hstack.
    destruct (propose (t_book (get_create e k now)) ts te' d tr now (as_predictor (a_pred (e_admin e))) mx) as [pp|er];
      [|apply EJ_tick; assumption].
    unfold engine_make. destruct (negb (valid_predictor (a_pred (e_admin e)))); [apply EJ_tick; assumption|].
    destruct (make (t_book (get_create e k now)) pp (as_predictor (a_pred (e_admin e)))) as [b|er];
      [|apply EJ_tick; assumption].
    cbn [fst]. apply EJ_put; assumption.
  - (* daily update *)
    split; [exact I|]. destruct Hc as (Hday & Hth & Hv & Hall). destruct HE as [Hks HE].
    pose proof (update_all_spec e now fit Hday Hth Hv (keys_sorted_ok _ Hks)) as Hs. cbn zeta in Hs.
    pose proof (update_all_keys_sorted e now fit Hks) as Hks'.
    destruct (update_all e now fit) as [[e' ut] r]. destruct Hs as (_ & Hget & _). cbn [fst] in *.
    split; [exact Hks'|].
    intros k t' Hg. rewrite Hget in Hg. destruct (tget (e_table e) k) as [t|] eqn:Ht; [|discriminate].
    cbn [option_map] in Hg. injection Hg as <-.
    destruct (step_J mx Hmx (c k) t _ (HE k t Ht) (Hall k t Ht)) as [_ HJ']. exact HJ'.
  - (* parameters *)
    split; [exact I|]. destruct (set_params (e_admin e) p) as [a|er]; [|exact HE]. exact HE.
Qed.

(** THE engine-level theorem *)
Theorem engine_history_all_accepted xs : forall (c : clock) (e : engine),
  EJ c e -> x_conforming c e xs -> x_all_accepted e xs.
Proof.
  induction xs as [|x r IH]; intros c e HE Hc; cbn [x_all_accepted x_conforming] in *; [exact I|].
  destruct Hc as [Hc Hr]. destruct (x_step c e x HE Hc) as [Ha HE']. split; [exact Ha|]. exact (IH _ _ HE' Hr).
Qed.

(** from an engine with no travellers yet *)
Corollary fresh_engine_history_all_accepted xs (c : clock) (a : admin N) :
  x_conforming c {| e_admin := a; e_table := [] |} xs -> x_all_accepted {| e_admin := a; e_table := [] |} xs.
Proof.
  apply engine_history_all_accepted. split; [|intros k t Hg; discriminate Hg].
  split; [constructor|intros k []].
Qed.

End WithNum.
