(** C01: the balance is the sequential sum of the (ghost, unbounded) ledger; the stored 100-entry
    window is its newest part; check-ins append exactly their debits; refusals store nothing. *)
From Coq Require Import ZArith List Bool Arith Lia.
From Flap Require Import Model.Num Model.TripHistory Model.Promises Model.Predictor Model.Engine.
Import ListNotations.
Open Scope Z_scope.

Section WithNum.
Context {N : NumOps}.
Local Notation K := (K N).
Local Notation traveller := (traveller N).
Local Notation tx := (tx N).
Local Notation flight := (flight N).

(** sequential (left to right, oldest first) sum of a ledger stored newest first *)
Definition seqsum (l : list tx) : K := fold_right (fun x acc => kadd N acc (tx_dist x)) (k0 N) l.

Definition window (l : list tx) : list tx := firstn MaxTransactions (l ++ repeat empty_tx MaxTransactions).

(** the ledger invariant of one traveller record *)
Definition Linv (t : traveller) : Prop :=
  t_balance t = seqsum (t_ledger t) /\ t_txs t = window (t_ledger t).

Lemma Linv_new now : Linv (new_traveller now).
Proof. split; reflexivity. Qed.

Lemma firstn_firstn_cons {A} (x : A) l n : firstn n (x :: firstn n l) = firstn n (x :: l).
Proof.
  destruct n as [|n]; [reflexivity|]. rewrite !firstn_cons. f_equal.
  rewrite firstn_firstn. f_equal. lia.
Qed.

Lemma Linv_transact (t : traveller) amount now tt : Linv t -> Linv (transact t amount now tt).
Proof.
  intros [Hb Hw]. split; cbn [transact t_balance t_ledger t_txs seqsum fold_right tx_dist].
  - rewrite Hb. reflexivity.
  - rewrite Hw. unfold window. cbn [app]. apply firstn_firstn_cons.
Qed.

Lemma Linv_set_hist (t : traveller) h : Linv t -> Linv (set_hist t h).  Proof. intros H; exact H. Qed.
Lemma Linv_set_kept (t : traveller) p : Linv t -> Linv (set_kept t p).  Proof. intros H; exact H. Qed.
Lemma Linv_set_book (t : traveller) b : Linv t -> Linv (set_book t b).  Proof. intros H; exact H. Qed.

Lemma cleared_ledger (t : traveller) now : t_ledger (snd (cleared t now)) = t_ledger t /\
  t_balance (snd (cleared t now)) = t_balance t /\ t_txs (snd (cleared t now)) = t_txs t /\
  t_hist (snd (cleared t now)) = t_hist t.
Proof.
  unfold cleared. cbn [snd]. destruct (p_clear (t_kept t) =? 0); [auto|].
  destruct (match_promise _ _); auto.
Qed.

Lemma Linv_cleared (t : traveller) now : Linv t -> Linv (snd (cleared t now)).
Proof.
  intros [Hb Hw]. destruct (cleared_ledger t now) as (E1 & E2 & E3 & _). split; congruence.
Qed.

(** what one flight of a check-in appends to the ledger (newest first) *)
Definition flight_entries (f : flight) (now : Z) (taxi : K) (debit : bool) : list tx :=
  if debit then
    (if kneb N taxi (k0 N) then [{| tx_date := now; tx_dist := kopp N taxi; tx_type := TTTaxiOverhead |}] else []) ++
    [{| tx_date := now; tx_dist := kopp N (fdist f); tx_type := TTFlight |}]
  else [].

Lemma submit_flight_ledger (t : traveller) f now taxi debit t' bac pd :
  submit_flight t f now taxi debit = inl (t', bac, pd) ->
  t_ledger t' = flight_entries f now taxi debit ++ t_ledger t /\ (Linv t -> Linv t').
Proof.
  unfold submit_flight. destruct (cleared t now) as [cr t1] eqn:Ec.
  assert (Hc := cleared_ledger t now). rewrite Ec in Hc. cbn [snd] in Hc. destruct Hc as (E1 & _).
  assert (HL : Linv t -> Linv t1). { intros H. pose proof (Linv_cleared t now H) as H'. rewrite Ec in H'. exact H'. }
  destruct cr; try discriminate;
  (destruct (add_flight (t_hist t1) f) as [h'|]; [|discriminate]);
  unfold flight_entries; destruct debit; [destruct (kneb N taxi (k0 N))| | destruct (kneb N taxi (k0 N))| | destruct (kneb N taxi (k0 N))|];
  intros E; injection E as <- _ _; cbn [t_ledger transact set_hist set_kept app]; rewrite ?E1;
  (split; [reflexivity|]); intros H; specialize (HL H);
  repeat first [apply Linv_set_kept | apply Linv_transact | apply Linv_set_hist]; exact HL.
Qed.

Lemma follow_on_flight_ledger (t : traveller) f now taxi debit t' bac pd :
  follow_on_flight t f now taxi debit = inl (t', bac, pd) ->
  t_ledger t' = flight_entries f now taxi debit ++ t_ledger t /\ (Linv t -> Linv t').
Proof.
  unfold follow_on_flight. destruct (add_flight (t_hist t) f) as [h'|]; [|discriminate].
  unfold flight_entries. destruct debit; [destruct (kneb N taxi (k0 N))|];
  intros E; injection E as <- _ _; cbn [t_ledger transact set_hist app];
  (split; [reflexivity|]); intros H;
  repeat first [apply Linv_transact | apply Linv_set_hist]; exact H.
Qed.

Lemma checkin_one_ledger first (t : traveller) f now taxi debit t' bac pd :
  checkin_one first t f now taxi debit = inl (t', bac, pd) ->
  t_ledger t' = flight_entries f now taxi debit ++ t_ledger t /\ (Linv t -> Linv t').
Proof. destruct first; [apply submit_flight_ledger|apply follow_on_flight_ledger]. Qed.

(** the whole check-in, correct-balances option off: exactly the flights' debits, in order *)
Fixpoint checkin_entries (fs : list flight) (now : Z) (taxi : K) (debit : bool) : list tx :=
  match fs with
  | [] => []
  | f :: r => checkin_entries r now taxi debit ++ flight_entries f now taxi debit
  end.

Lemma submit_loop_from_ledger fs : forall first (t : traveller) pc now p debit t' pc',
  has_bit (pAlgo p) pamCorrectBalances = false ->
  submit_loop_from first t pc fs now p debit = inl (t', pc') ->
  t_ledger t' = checkin_entries fs now (pTaxi p) debit ++ t_ledger t.
Proof.
  induction fs as [|f r IH]; intros first t pc now p debit t' pc' Hopt; cbn [submit_loop_from checkin_entries].
  - intros E; injection E as <- _. reflexivity.
  - destruct (checkin_one first t f now (pTaxi p) debit) as [[[t1 bac] pd]|] eqn:Es; [|discriminate].
    rewrite Hopt. cbn [andb]. intros E. rewrite (IH _ _ _ _ _ _ _ _ Hopt E).
    destruct (checkin_one_ledger _ _ _ _ _ _ _ _ _ Es) as [-> _]. rewrite app_assoc. reflexivity.
Qed.

Lemma submit_loop_ledger fs (t : traveller) pc now p debit t' pc' :
  has_bit (pAlgo p) pamCorrectBalances = false ->
  submit_loop t pc fs now p debit = inl (t', pc') ->
  t_ledger t' = checkin_entries fs now (pTaxi p) debit ++ t_ledger t.
Proof. apply submit_loop_from_ledger. Qed.

Lemma submit_loop_from_Linv fs : forall first (t : traveller) pc now p debit t' pc',
  Linv t -> submit_loop_from first t pc fs now p debit = inl (t', pc') -> Linv t'.
Proof.
  induction fs as [|f r IH]; intros first t pc now p debit t' pc' HL; cbn [submit_loop_from].
  - intros E; injection E as <- _. exact HL.
  - destruct (checkin_one first t f now (pTaxi p) debit) as [[[t1 bac] pd]|] eqn:Es; [|discriminate].
    destruct (checkin_one_ledger _ _ _ _ _ _ _ _ _ Es) as [_ H1]. intros E. eapply IH; [|exact E].
    destruct (_ && _); [apply Linv_transact|]; auto.
Qed.

Lemma submit_loop_Linv fs (t : traveller) pc now p debit t' pc' :
  Linv t -> submit_loop t pc fs now p debit = inl (t', pc') -> Linv t'.
Proof. apply submit_loop_from_Linv. Qed.

(** with the correct-balances option every extra entry is a balance adjustment: the debits are exactly
    the flights' (all other entries filtered out) *)
Definition is_adjustment (x : tx) : bool := tx_type x =? TTBalanceAdjustment.

(** non-debiting check-in, option off: nothing is appended, the balance is unchanged *)
Corollary nondebit_checkin_no_entries fs (t : traveller) pc now p t' pc' :
  has_bit (pAlgo p) pamCorrectBalances = false ->
  submit_loop t pc fs now p false = inl (t', pc') -> t_ledger t' = t_ledger t.
Proof.
  intros Hopt E. rewrite (submit_loop_ledger fs _ _ _ _ _ _ _ Hopt E).
  assert (H : forall gs, checkin_entries gs now (pTaxi p) false = []).
  { clear. induction gs as [|f r IH]; cbn; [reflexivity|rewrite IH; reflexivity]. }
  rewrite H. reflexivity.
Qed.

(** ---- the table-level invariant over engine operations ---- *)
Definition TLinv (tb : table N) : Prop := forall k t, In (k, t) tb -> Linv t.

Lemma tget_In (tb : table N) k t : tget tb k = Some t -> exists k', In (k', t) tb.
Proof.
  induction tb as [|[k' t'] r IH]; cbn [tget]; [discriminate|].
  destruct (k =? k'); [intros E; injection E as <-; exists k'; left; reflexivity|].
  intros E. destruct (IH E) as (k2 & H). exists k2. right. exact H.
Qed.

Lemma tput_In (tb : table N) k t k2 t2 : In (k2, t2) (tput tb k t) -> (k2, t2) = (k, t) \/ In (k2, t2) tb.
Proof.
  induction tb as [|[k' t'] r IH]; cbn [tput]; [intros [H|[]]; left; symmetry; exact H|].
  destruct (k =? k').
  - intros [H|H]; [left; symmetry; exact H|right; right; exact H].
  - destruct (k <? k').
    + intros [H|H]; [left; symmetry; exact H|right; exact H].
    + intros [H|H]; [right; left; exact H|]. destruct (IH H) as [H'|H']; [left; exact H'|right; right; exact H'].
Qed.

Lemma TLinv_tput tb k t : TLinv tb -> Linv t -> TLinv (tput tb k t).
Proof.
  intros Ht Hl k2 t2 Hin. destruct (tput_In _ _ _ _ _ Hin) as [E|H]; [injection E as -> ->; exact Hl|eapply Ht; eauto].
Qed.

Lemma get_create_Linv (e : engine N) k now : TLinv (e_table e) -> Linv (get_create e k now).
Proof.
  intros Ht. unfold get_create. destruct (tget (e_table e) k) as [t|] eqn:E; [|apply Linv_new].
  destruct (tget_In _ _ _ E) as (k' & H). eapply Ht; eauto.
Qed.

Lemma submit_flights_TLinv (e : engine N) k fs now debit :
  TLinv (e_table e) -> TLinv (e_table (fst (submit_flights e k fs now debit))).
Proof.
  intros Ht. unfold submit_flights. destruct fs as [|f r]; [exact Ht|].
  destruct (submit_loop _ _ _ _ _ _) as [[t' pc']|err] eqn:E; cbn [fst e_table]; [|exact Ht].
  apply TLinv_tput; [exact Ht|]. eapply submit_loop_Linv; [|exact E]. apply get_create_Linv, Ht.
Qed.

(** a refused or failed submission stores nothing *)
Lemma submit_flights_error_noop (e : engine N) k fs now debit e' err :
  submit_flights e k fs now debit = (e', Some err) -> e_table e' = e_table e.
Proof.
  unfold submit_flights. destruct fs as [|f r]; [intros E; injection E as <- _; reflexivity|].
  destruct (submit_loop _ _ _ _ _ _) as [[t' pc']|er]; intros E; injection E as <-; try discriminate; reflexivity.
Qed.

Lemma keep_promise_Linv (t : traveller) : Linv t -> Linv (fst (keep_promise t)).
Proof.
  intros H. unfold keep_promise. destruct (mid_trip (t_hist t)); [|exact H].
  destruct (trip_start_end_length (t_hist t)) as [[st en] d]. destruct (keep _ _ _ _); [|exact H].
  destruct (end_trip_op (t_hist t)); exact H.
Qed.

Lemma keep_promise_ledger (t : traveller) : t_ledger (fst (keep_promise t)) = t_ledger t /\ t_balance (fst (keep_promise t)) = t_balance t.
Proof.
  unfold keep_promise. destruct (mid_trip (t_hist t)); [|auto].
  destruct (trip_start_end_length (t_hist t)) as [[st en] d]. destruct (keep _ _ _ _); [|auto].
  destruct (end_trip_op (t_hist t)); auto.
Qed.

(** the daily update of one traveller: at most one entry, of the share, of type daily-share *)
Lemma update_traveller_ledger (t : traveller) p share now w c :
  update_traveller t p share now = (w, c) ->
  let t' := match w with Some t' => t' | None => t end in
  t_ledger t' = (if c_grounded c then [{| tx_date := now; tx_dist := share; tx_type := TTDailyShare |}] else []) ++ t_ledger t /\
  (Linv t -> Linv t').
Proof.
  unfold update_traveller.
  destruct (update (t_hist t) (th_params p) now) as [[[h' dy] fy]|er].
  - set (t1 := set_hist t h'). cbn zeta.
    set (g := negb (mid_trip (t_hist t1)) && kltb N (t_balance t1) (k0 N)).
    set (t2 := if g then transact t1 share now TTDailyShare else t1).
    pose proof (keep_promise_ledger t2) as [KL _]. pose proof (keep_promise_Linv t2) as KI.
    destruct (keep_promise t2) as [t3 kept]. cbn [fst] in KL, KI. cbn [orb].
    intros E. injection E as <- <-. cbn [c_grounded]. rewrite KL. unfold t2.
    split; [destruct g; reflexivity|]. intros H. apply KI. destruct g; [apply Linv_transact|]; exact H.
  - cbn zeta.
    set (g := negb (mid_trip (t_hist t)) && kltb N (t_balance t) (k0 N)).
    set (t2 := if g then transact t share now TTDailyShare else t).
    pose proof (keep_promise_ledger t2) as [KL _]. pose proof (keep_promise_Linv t2) as KI.
    destruct (keep_promise t2) as [t3 kept] eqn:Ek. cbn [fst] in KL, KI. cbn [orb].
    intros E. injection E as <- <-. cbn [c_grounded].
    destruct g eqn:Eg; cbn [orb].
    + rewrite KL. unfold t2. split; [reflexivity|]. intros H. apply KI. apply Linv_transact, H.
    + destruct kept.
      * rewrite KL. split; [reflexivity|]. intros H. apply KI, H.
      * split; [reflexivity|auto].
Qed.

End WithNum.
