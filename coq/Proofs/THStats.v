(** C17: what one daily update counts, and that with daily updates and same-day check-ins this is
    exactly the flights that departed in the preceding 24 hours. *)
From Coq Require Import ZArith List Bool Arith Lia.
From Flap Require Import Model.Num Model.Search Model.TripHistory Proofs.ListAux Proofs.SearchP Proofs.THBasics Proofs.THOrder Proofs.THLimits.
Import ListNotations.
Open Scope Z_scope.

Lemma filter_none {A} (f : A -> bool) l : (forall x, In x l -> f x = false) -> filter f l = [].
Proof. induction l as [|x r IH]; intros H; cbn; [reflexivity|]. rewrite (H x (or_introl eq_refl)). apply IH. intros y Hy. apply H. right. exact Hy. Qed.
Lemma filter_filter_weak {A} (f g : A -> bool) l : (forall x, In x l -> f x = true -> g x = true) ->
  filter f (filter g l) = filter f l.
Proof.
  induction l as [|x r IH]; intros H; cbn [filter]; [reflexivity|].
  destruct (g x) eqn:Eg; cbn [filter].
  - destruct (f x); rewrite IH by (intros y Hy; apply H; right; exact Hy); reflexivity.
  - destruct (f x) eqn:Ef; [rewrite (H x (or_introl eq_refl) Ef) in Eg; discriminate|].
    apply IH. intros y Hy. apply H. right. exact Hy.
Qed.

Section WithNum.
Context {N : NumOps}.
Local Notation K := (K N).
Local Notation flight := (flight N).
Local Notation hist := (hist N).

(** statistics over a list of flights processed in order *)
Definition stats_list (now : Z) (fs : list flight) (acc : K * Z) : K * Z :=
  fold_left (fun a f => add_stats f now (fst a) (snd a)) fs acc.

Lemma yesterday_R (f f' : flight) now : R f f' -> yesterday f' now = yesterday f now.
Proof.
  intros [E _]. unfold yesterday. assert (Es := f_equal fstart E). assert (Ed := f_equal fdist E). cbn in Es, Ed.
  rewrite Es, Ed. reflexivity.
Qed.
Lemma add_stats_R (f f' : flight) now dy fy : R f f' -> add_stats f' now dy fy = add_stats f now dy fy.
Proof. intros H. unfold add_stats. rewrite (yesterday_R f f' now H). reflexivity. Qed.

(** flights the loop counts: every one except those the traveller marked as trip end *)
Definition counted (f : flight) : bool := negb (ftype_eqb (et f) TTEnd).

Lemma step_mid_stats p now s out dy fy (f : flight) nt :
  let '(_, _, dy', fy') := step_mid p now (s, out, dy, fy) (f, nt) in
  (dy', fy') = if counted f then add_stats f now dy fy else (dy, fy).
Proof.
  unfold step_mid, counted. destruct (et f) eqn:E; cbn [ftype_eqb negb].
  1,2,3,5:
    pose proof (update_journey_R (next_entry s f) f nt p false) as H1;
    destruct (update_journey (next_entry s f) f nt p false) as [s2 f2]; cbn [snd] in H1;
    pose proof (update_trip_R s2 f2 nt p) as H2;
    destruct (update_trip s2 f2 nt p) as [s3 f3]; cbn [snd] in H2;
    rewrite (add_stats_R f f3 now dy fy (R_trans _ _ _ H1 H2));
    destruct (add_stats f now dy fy); reflexivity.
  destruct (end_trip (next_entry s f) f false). reflexivity.
Qed.

Lemma fold_step_mid_stats p now : forall (fns : list (flight * Z)) s out dy fy,
  let '(_, _, dy', fy') := fold_left (step_mid p now) fns (s, out, dy, fy) in
  (dy', fy') = stats_list now (filter counted (map fst fns)) (dy, fy).
Proof.
  induction fns as [|[f nt] t IH]; intros s out dy fy; cbn [fold_left map filter fst]; [reflexivity|].
  pose proof (step_mid_stats p now s out dy fy f nt) as H1.
  destruct (step_mid p now (s, out, dy, fy) (f, nt)) as [[[s1 out1] dy1] fy1].
  specialize (IH s1 out1 dy1 fy1).
  destruct (fold_left (step_mid p now) t (s1, out1, dy1, fy1)) as [[[s2 out2] dy2] fy2].
  rewrite IH. destruct (counted f); cbn [stats_list fold_left fst snd]; rewrite <- H1; reflexivity.
Qed.

(** T1: a successful update reports exactly the "yesterday" statistics of the re-evaluated window,
    oldest first, skipping the older flights the traveller closed a trip on *)
Theorem update_stats_spec (h : hist) p now h' dy fy :
  length (entries h) = MaxFlights -> update h p now = inl (h', dy, fy) ->
  let k := S (Z.to_nat (window_start h)) in
  (dy, fy) = stats_list now (filter counted (rev (tl (firstn k (entries h)))) ++ [getf (entries h) 0]) (k0 N, 0).
Proof.
  intros Hlen. unfold update.
  destruct (hempty h); [discriminate|].
  destruct (negb (now mod SecondsInDay =? 0)); [discriminate|].
  destruct (Nat.eqb (oc h) 0 && is_end (getf (entries h) 0)); [discriminate|].
  set (jn := Z.to_nat (window_start h)). set (l := entries h) in *.
  set (win := firstn (S jn) l).
  set (mids := removelast (rev win)). set (nows := map fstart (tl (rev win))).
  pose proof (fold_step_mid_stats p now (combine mids nows) ts0 [] (k0 N) 0) as Hf.
  destruct (fold_left (step_mid p now) (combine mids nows) (ts0, [], k0 N, 0)) as [[[s out] dy1] fy1].
  pose proof (update_journey_R (next_entry s (getf l 0)) (getf l 0) now p true) as H1.
  destruct (update_journey (next_entry s (getf l 0)) (getf l 0) now p true) as [s2 f2]. cbn [snd] in H1.
  pose proof (update_trip_R s2 f2 now p) as H2.
  destruct (update_trip s2 f2 now p) as [s3 f3]. cbn [snd] in H2.
  rewrite (add_stats_R (getf l 0) f3 now dy1 fy1 (R_trans _ _ _ H1 H2)).
  destruct (add_stats (getf l 0) now dy1 fy1) as [dy' fy'] eqn:Ea.
  intros E. injection E as _ <- <-. cbn zeta.
  assert (Hmids : length mids = length nows).
  { unfold mids, nows. rewrite removelast_length, map_length. destruct (rev win); reflexivity. }
  rewrite combine_fst_eq in Hf by exact Hmids.
  assert (Hm : mids = rev (tl win)).
  { unfold mids. rewrite <- (rev_involutive (removelast (rev win))). rewrite rev_removelast_tl. reflexivity. }
  unfold stats_list. rewrite fold_left_app. cbn [fold_left]. fold (stats_list now (filter counted (rev (tl win))) (k0 N, 0)).
  rewrite <- Hm, <- Hf. cbn [fst snd]. symmetry. exact Ea.
Qed.

(** ---- the daily discipline ---- *)

(** number of stored flights that start at or after T (on an ordered history these are the first ones) *)
Fixpoint since (T : Z) (l : list flight) : nat :=
  match l with [] => 0%nat | f :: r => if T <=? fstart f then S (since T r) else 0%nat end.

(** yesterday's statistics computed directly from a list of flights (any order of processing given) *)
Definition day_stats (now : Z) (fs : list flight) : K * Z := stats_list now fs (k0 N, 0).

Hypothesis zero_not_positive : kltb N (k0 N) (k0 N) = false.   (* "0 > 0" is false: true of float64 and of exact numbers *)

Lemma add_stats_old (f : flight) now dy fy : fstart f < now - SecondsInDay -> add_stats f now dy fy = (dy, fy).
Proof.
  intros H. unfold add_stats, yesterday.
  destruct (Z.ltb_spec (fstart f) now); destruct (Z.leb_spec (now - fstart f) SecondsInDay); cbn [andb]; try lia;
  rewrite zero_not_positive; reflexivity.
Qed.

Lemma add_stats_future (f : flight) now dy fy : now <= fstart f -> add_stats f now dy fy = (dy, fy).
Proof.
  intros H. unfold add_stats, yesterday. destruct (Z.ltb_spec (fstart f) now); [lia|]. cbn [andb].
  rewrite zero_not_positive. reflexivity.
Qed.

Lemma add_stats_yesterday (f : flight) now dy fy : now - SecondsInDay <= fstart f < now ->
  add_stats f now dy fy = if kltb N (k0 N) (fdist f) then (kadd N dy (fdist f), fy + 1) else (dy, fy).
Proof.
  intros H. unfold add_stats, yesterday.
  destruct (Z.ltb_spec (fstart f) now); [|lia]. destruct (Z.leb_spec (now - fstart f) SecondsInDay); [|lia]. reflexivity.
Qed.

Lemma stats_list_old now (fs : list flight) acc :
  (forall f, In f fs -> fstart f < now - SecondsInDay) -> stats_list now fs acc = acc.
Proof.
  revert acc. induction fs as [|f r IH]; intros acc H; cbn [stats_list fold_left]; [reflexivity|].
  rewrite add_stats_old by (apply H; left; reflexivity). destruct acc as [a b]. cbn [fst snd].
  apply IH. intros g Hg. apply H. right. exact Hg.
Qed.

(** what the property says is counted: the flights that departed in the 24 hours before [now], with a
    positive distance, added oldest first *)
Definition departed_yesterday (now : Z) (f : flight) : bool :=
  (now - SecondsInDay <=? fstart f) && (fstart f <? now).

Definition expected_stats (now : Z) (fs : list flight) : K * Z :=
  fold_left (fun a f => if kltb N (k0 N) (fdist f) then (kadd N (fst a) (fdist f), snd a + 1) else a)
            (filter (departed_yesterday now) fs) (k0 N, 0).

Lemma stats_list_filter now (fs : list flight) : forall acc,
  stats_list now fs acc =
  fold_left (fun a f => if kltb N (k0 N) (fdist f) then (kadd N (fst a) (fdist f), snd a + 1) else a)
            (filter (departed_yesterday now) fs) acc.
Proof.
  induction fs as [|f r IH]; intros acc; cbn [stats_list fold_left filter]; [reflexivity|].
  fold (stats_list now r (add_stats f now (fst acc) (snd acc))). rewrite IH. unfold departed_yesterday.
  destruct (Z.leb_spec (now - SecondsInDay) (fstart f)); destruct (Z.ltb_spec (fstart f) now); cbn [andb fold_left].
  - rewrite add_stats_yesterday by lia. destruct acc as [a b]. cbn [fst snd]. destruct (kltb N (k0 N) (fdist f)); reflexivity.
  - rewrite add_stats_future by lia. destruct acc; reflexivity.
  - rewrite add_stats_old by lia. destruct acc; reflexivity.
  - rewrite add_stats_future by lia. destruct acc; reflexivity.
Qed.

(** THE counting theorem for one traveller and one update: if every flight that departed in the
    preceding 24 hours lies inside the re-evaluated window and is not an older flight on which the
    traveller closed a trip, the update reports exactly those flights: their number and their
    distances added oldest first *)
Theorem update_counts_yesterdays_flights (h : hist) p now h' dy fy :
  length (entries h) = MaxFlights -> update h p now = inl (h', dy, fy) ->
  let k := S (Z.to_nat (window_start h)) in
  (forall i, (k <= i)%nat -> departed_yesterday now (getf (entries h) i) = false) ->
  (forall i, (1 <= i < k)%nat -> departed_yesterday now (getf (entries h) i) = true -> et (getf (entries h) i) <> TTEnd) ->
  (dy, fy) = expected_stats now (rev (entries h)).
Proof.
  intros Hlen Hu k Hout Htte. rewrite (update_stats_spec h p now h' dy fy Hlen Hu). fold k.
  rewrite stats_list_filter. unfold expected_stats. f_equal.
  set (l := entries h) in *.
  assert (Hl : l = firstn k l ++ skipn k l) by (symmetry; apply firstn_skipn).
  assert (Hk : (1 <= k)%nat) by (unfold k; lia).
  assert (Hwin : firstn k l = getf l 0 :: tl (firstn k l)).
  { destruct l as [|x l0]; [cbn in Hlen; discriminate|]. destruct k; [lia|reflexivity]. }
  replace (rev l) with (rev (skipn k l) ++ rev (firstn k l)) by (rewrite <- rev_app_distr, firstn_skipn; reflexivity).
  assert (Hold : filter (departed_yesterday now) (rev (skipn k l)) = []).
  { apply filter_none. intros f Hf. apply in_rev in Hf. apply In_nth with (d := empty_flight) in Hf.
    destruct Hf as (n & Hn & <-). rewrite nth_skipn'. apply Hout. lia. }
  set (w := tl (firstn k l)) in *.
  rewrite !filter_app, Hold. cbn [app]. rewrite Hwin. cbn [rev]. rewrite !filter_app. f_equal.
  apply filter_filter_weak. intros f Hf Hd. apply in_rev in Hf. unfold w in *.
  apply In_nth with (d := empty_flight) in Hf. destruct Hf as (n & Hn & <-).
  assert (Hlt : (n < k - 1)%nat).
  { pose proof (firstn_le_length k l) as Hle. destruct (firstn k l) as [|x w0]; cbn [tl length] in *; lia. }
  assert (Hnth : nth n (tl (firstn k l)) empty_flight = getf l (S n)).
  { unfold getf. rewrite <- (nth_firstn_lt' l empty_flight k (S n)) by lia. destruct (firstn k l) as [|x w0]; [destruct n; reflexivity|reflexivity]. }
  rewrite Hnth in *. unfold counted. destruct (et (getf l (S n))) eqn:Eet; try reflexivity.
  exfalso. apply (Htte (S n) ltac:(lia) Hd). exact Eet.
Qed.

(** each flight counts at exactly one day start: the first one after its departure *)
Lemma departed_yesterday_unique (f : flight) d1 d2 :
  d1 mod SecondsInDay = 0 -> d2 mod SecondsInDay = 0 ->
  departed_yesterday d1 f = true -> departed_yesterday d2 f = true -> d1 = d2.
Proof.
  unfold departed_yesterday, SecondsInDay. intros M1 M2 H1 H2.
  apply andb_true_iff in H1. apply andb_true_iff in H2. destruct H1 as [A1 B1]. destruct H2 as [A2 B2].
  apply Z.leb_le in A1, A2. apply Z.ltb_lt in B1, B2.
  apply Z.mod_divide in M1; [|lia]. apply Z.mod_divide in M2; [|lia].
  destruct M1 as [q1 ->]. destruct M2 as [q2 ->]. assert (q1 = q2) by lia. subst. reflexivity.
Qed.

Lemma departed_yesterday_exists (f : flight) : 0 <= fstart f ->
  departed_yesterday ((fstart f / SecondsInDay + 1) * SecondsInDay) f = true.
Proof.
  intros H. unfold departed_yesterday, SecondsInDay.
  pose proof (Z.div_mod (fstart f) 86400 ltac:(lia)). pose proof (Z.mod_pos_bound (fstart f) 86400 ltac:(lia)).
  apply andb_true_iff. split; [apply Z.leb_le|apply Z.ltb_lt]; lia.
Qed.

(** ---- the daily discipline: updates at every day start, flights checked in on their day ---- *)
Lemma since_le_length T (l : list flight) : (since T l <= length l)%nat.
Proof. induction l as [|f r IH]; cbn; [lia|]. destruct (T <=? fstart f); lia. Qed.

Lemma since_before T (l : list flight) i : (i < since T l)%nat -> T <= fstart (getf l i).
Proof.
  unfold getf. revert i. induction l as [|f r IH]; intros i H; cbn in *; [lia|].
  destruct (Z.leb_spec T (fstart f)); [|lia]. destruct i as [|i]; [assumption|apply IH; lia].
Qed.

Lemma since_after T (l : list flight) i : desc l -> (since T l <= i)%nat -> (i < length l)%nat -> fstart (getf l i) < T.
Proof.
  intros Hd. revert i. induction Hd as [|f r Hf Hd IH]; intros i H1 H2; cbn in *; [lia|].
  destruct (Z.leb_spec T (fstart f)).
  - destruct i as [|i]; [lia|]. unfold getf. cbn [nth]. apply IH; lia.
  - destruct i as [|i]; [unfold getf; cbn; assumption|]. unfold getf. cbn [nth].
    assert (Hin : In (nth i r empty_flight) r) by (apply nth_In; lia). specialize (Hf _ Hin). lia.
Qed.

(** THE daily theorem: on an ordered history whose flights of the preceding day (start >= now - 1 day)
    all lie below oldestChange and include no older flight the traveller closed a trip on, the update at
    the day start [now] reports exactly the flights that departed in the preceding 24 hours *)
Theorem daily_update_counts (h : hist) p now h' dy fy :
  ordered h -> (oc h < MaxFlights)%nat -> SecondsInDay < now ->
  (since (now - SecondsInDay) (entries h) <= oc h)%nat ->
  (forall i, (1 <= i < since (now - SecondsInDay) (entries h))%nat -> et (getf (entries h) i) <> TTEnd) ->
  update h p now = inl (h', dy, fy) ->
  (dy, fy) = expected_stats now (rev (entries h)).
Proof.
  intros (Hlen & Hd & Hn) Hoc Hnow Hsince Htte Hu.
  pose proof Hu as Hu'. unfold update in Hu'.
  destruct (hempty h) eqn:Hne; [discriminate|].
  destruct (negb (now mod SecondsInDay =? 0)); [discriminate|].
  destruct (Nat.eqb (oc h) 0 && is_end (getf (entries h) 0)) eqn:Hshort; [discriminate|]. clear Hu'.
  destruct (window_start_spec h Hlen Hne Hshort Hoc) as (k & Hk1 & Hock & Ew & _).
  assert (Hold : forall i, (since (now - SecondsInDay) (entries h) <= i)%nat ->
                 departed_yesterday now (getf (entries h) i) = false).
  { intros i Hi. unfold departed_yesterday.
    assert (Hs : fstart (getf (entries h) i) < now - SecondsInDay).
    { destruct (Nat.lt_ge_cases i (length (entries h))) as [Hlt|Hge].
      - apply (since_after _ _ i Hd Hi Hlt).
      - unfold getf. rewrite nth_overflow by lia. cbn. lia. }
    destruct (Z.leb_spec (now - SecondsInDay) (fstart (getf (entries h) i))); [lia|reflexivity]. }
  apply (update_counts_yesterdays_flights h p now h' dy fy Hlen Hu); rewrite Ew;
    replace (S (Z.to_nat (Z.of_nat k - 1))) with k by lia.
  - intros i Hi. apply Hold. lia.
  - intros i Hi Hdep. apply Htte. split; [lia|].
    destruct (Nat.lt_ge_cases i (since (now - SecondsInDay) (entries h))) as [Hlt|Hge]; [exact Hlt|].
    rewrite (Hold i Hge) in Hdep. discriminate.
Qed.

(** the discipline is self-sustaining: a successful update leaves oldestChange = 0 and (no flight
    being dated in the future) nothing "since now"; checking in a flight of the current day keeps
    the day's flights below oldestChange *)
Lemma since_zero_when_all_older T (l : list flight) : (forall f, In f l -> fstart f < T) -> since T l = 0%nat.
Proof.
  destruct l as [|f r]; intros H; cbn; [reflexivity|]. specialize (H f (or_introl eq_refl)).
  destruct (Z.leb_spec T (fstart f)); [lia|reflexivity].
Qed.

Lemma since_insert T (f : flight) (l : list flight) : T <= fstart f -> desc l ->
  since T (insert_desc f l) = S (since T l).
Proof.
  intros Hf Hd. induction Hd as [|g r Hg Hd IH]; cbn [insert_desc since].
  - destruct (Z.leb_spec T (fstart f)); [reflexivity|lia].
  - destruct (Z.leb_spec (fstart g) (fstart f)) as [Hle|Hgt]; cbn [since].
    + destruct (Z.leb_spec T (fstart f)); [reflexivity|lia].
    + destruct (Z.leb_spec T (fstart g)); [rewrite IH; reflexivity|lia].
Qed.

Lemma since_firstn T (l : list flight) n : (since T (firstn n l) <= since T l)%nat.
Proof.
  revert n. induction l as [|f r IH]; intros [|n]; cbn [firstn since]; try lia.
  destruct (T <=? fstart f); [specialize (IH n); lia|lia].
Qed.

Lemma first_le_since T (f : flight) (l : list flight) : T <= fstart f -> (first_le (fstart f) l <= since T l)%nat.
Proof.
  intros Hf. induction l as [|g r IH]; cbn [first_le since]; [lia|].
  destruct (Z.leb_spec (fstart g) (fstart f)); [lia|]. destruct (Z.leb_spec T (fstart g)); lia.
Qed.

Theorem checkin_keeps_discipline (h h1 : hist) (f : flight) T :
  ordered h -> T <= fstart f -> (since T (entries h) <= oc h)%nat -> (oc h < MaxFlights - 1)%nat ->
  add_flight h f = inl h1 -> (since T (entries h1) <= oc h1)%nat.
Proof.
  intros Ho Hf Hs Hoc Ea. pose proof (add_flight_refines h f Ho) as Hr. rewrite Ea in Hr. destruct Hr as [E Hi].
  destruct Ho as (Hl & Hd & Hn).
  assert (Hoc1 : oc h1 = S (oc h)).
  { unfold add_flight in Ea. rewrite older_index_first_le in Ea by assumption.
    destruct (Nat.leb_spec MaxFlights (first_le (fstart f) (entries h))); [discriminate|].
    injection Ea as <-. cbn [oc].
    pose proof (first_le_since T f (entries h) Hf).
    destruct (Nat.ltb_spec (oc h) (first_le (fstart f) (entries h))); [lia|].
    unfold MaxFlights in Hoc. destruct (Nat.ltb_spec (oc h) 99); lia. }
  rewrite E, Hoc1. pose proof (since_firstn T (insert_desc f (entries h)) MaxFlights).
  rewrite (since_insert T f (entries h) Hf Hd) in H. lia.
Qed.

End WithNum.
