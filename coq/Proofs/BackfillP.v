(** C03: who is credited, with how much, and what is counted; the table keeps sorted, distinct keys. *)
From Coq Require Import ZArith List Bool Arith Lia Permutation Sorted.
From Flap Require Import Model.Num Model.TripHistory Model.Promises Model.Predictor Model.Engine
  Proofs.LedgerP Proofs.TableP Proofs.UpdateAllP Proofs.EngineInv.
Import ListNotations.
Open Scope Z_scope.

Section WithNum.
Context {N : NumOps}.
Local Notation K := (K N).
Local Notation traveller := (traveller N).
Local Notation table := (table N).
Local Notation engine := (engine N).

(** the traveller's history once the trip rules have been applied at [now] *)
Definition rules_hist (t : traveller) (p : params N) (now : Z) : hist N :=
  match update (t_hist t) (th_params p) now with inl (h', _, _) => h' | inr _ => t_hist t end.

(** the credit decision *)
Definition credited (t : traveller) (p : params N) (now : Z) : bool :=
  negb (mid_trip (rules_hist t p now)) && kltb N (t_balance t) (k0 N).

Theorem update_traveller_credit (t : traveller) p share now :
  c_grounded (snd (U p share now t)) = credited t p now /\
  t_balance (upd_record p share now t) = (if credited t p now then kadd N (t_balance t) share else t_balance t).
Proof.
  unfold upd_record, U, update_traveller, credited, rules_hist.
  destruct (update (t_hist t) (th_params p) now) as [[[h' dy] fy]|er]; cbn zeta.
  - set (t1 := set_hist t h').
    set (g := negb (mid_trip (t_hist t1)) && kltb N (t_balance t1) (k0 N)).
    set (t2 := if g then transact t1 share now TTDailyShare else t1).
    pose proof (keep_promise_ledger t2) as [_ KB].
    destruct (keep_promise t2) as [t3 kept]. cbn [fst snd c_grounded orb] in *.
    split; [reflexivity|]. rewrite KB. unfold t2. change (t_hist t1) with h' in g. change (t_balance t1) with (t_balance t) in g.
    fold g. destruct g; reflexivity.
  - set (g := negb (mid_trip (t_hist t)) && kltb N (t_balance t) (k0 N)).
    set (t2 := if g then transact t share now TTDailyShare else t).
    pose proof (keep_promise_ledger t2) as [_ KB].
    destruct (keep_promise t2) as [t3 kept]. cbn [fst snd c_grounded orb] in *.
    split; [reflexivity|]. unfold t2 in KB. destruct g eqn:Eg; cbn [orb].
    + rewrite KB. reflexivity.
    + destruct kept; [rewrite KB|]; reflexivity.
Qed.

(** a traveller still mid-trip once the rules are applied is not credited in this update, even when
    the same update then closes the trip by keeping a promise *)
Corollary kept_in_same_update_not_credited (t : traveller) p share now :
  mid_trip (rules_hist t p now) = true ->
  t_balance (upd_record p share now t) = t_balance t.
Proof.
  intros H. destruct (update_traveller_credit t p share now) as [_ E]. rewrite E.
  unfold credited. rewrite H. reflexivity.
Qed.

(** ---- the table keeps strictly increasing keys ---- *)
Definition keys_sorted (tb : table) : Prop :=
  StronglySorted Z.lt (map fst tb) /\ forall k, In k (map fst tb) -> 0 <= k < 2 ^ 160.

Lemma sorted_NoDup (l : list Z) : StronglySorted Z.lt l -> NoDup l.
Proof.
  induction 1 as [|x l Hs IH Hall]; constructor; [|exact IH].
  intros Hin. rewrite Forall_forall in Hall. specialize (Hall x Hin). lia.
Qed.

Lemma keys_sorted_ok tb : keys_sorted tb -> keys_ok tb.
Proof. intros [Hs Hr]. split; [apply sorted_NoDup, Hs|exact Hr]. Qed.

Lemma tput_keys (tb : table) k t : StronglySorted Z.lt (map fst tb) ->
  StronglySorted Z.lt (map fst (tput tb k t)) /\
  (forall k', In k' (map fst (tput tb k t)) <-> k' = k \/ In k' (map fst tb)).
Proof.
  induction tb as [|[k1 t1] r IH]; cbn [tput map fst]; intros Hs.
  - split; [constructor; constructor|]. intros k'. cbn. split; [intros [H|[]]; left; auto|intros [H|[]]; left; auto].
  - inversion Hs as [|? ? Hs' Hall]; subst.
    destruct (Z.eqb_spec k k1) as [->|Hne]; cbn [map fst].
    + split; [exact Hs|]. intros k'. cbn. intuition (subst; auto).
    + destruct (Z.ltb_spec k k1) as [Hlt|Hge]; cbn [map fst].
      * split.
        -- constructor; [exact Hs|]. constructor; [exact Hlt|]. rewrite Forall_forall in *. intros x Hx. specialize (Hall x Hx). lia.
        -- intros k'. cbn. intuition (subst; auto).
      * destruct (IH Hs') as [Hs2 Hin2]. split.
        -- constructor; [exact Hs2|]. rewrite Forall_forall in *. intros x Hx. apply Hin2 in Hx. destruct Hx as [->|Hx]; [lia|apply Hall, Hx].
        -- intros k'. cbn. rewrite Hin2. intuition (subst; auto).
Qed.

Lemma keys_sorted_tput tb k t : keys_sorted tb -> 0 <= k < 2 ^ 160 -> keys_sorted (tput tb k t).
Proof.
  intros [Hs Hr] Hk. destruct (tput_keys tb k t Hs) as [Hs' Hin]. split; [exact Hs'|].
  intros k' H. apply Hin in H. destruct H as [->|H]; [exact Hk|apply Hr, H].
Qed.

Lemma keys_sorted_put_all (ws : table) : forall tb, keys_sorted tb ->
  (forall k, In k (map fst ws) -> 0 <= k < 2 ^ 160) -> keys_sorted (put_all ws tb).
Proof.
  induction ws as [|[k t] r IH]; intros tb Ht Hw; cbn [put_all fold_left]; [exact Ht|].
  apply IH; [apply keys_sorted_tput; [exact Ht|apply Hw; left; reflexivity]|intros k' H; apply Hw; right; exact H].
Qed.

Lemma writes_of_keys_in p share now (l : table) k : In k (map fst (writes_of p share now l)) -> In k (map fst l).
Proof.
  induction l as [|[k1 t1] r IH]; cbn [writes_of flat_map map fst]; [auto|].
  fold (writes_of p share now r). rewrite map_app. intros H. apply in_app_or in H. destruct H as [H|H].
  - cbn [fst snd] in H. destruct (fst (U p share now t1)); cbn in H; [destruct H as [H|[]]; left; exact H|contradiction].
  - right. apply IH, H.
Qed.

Lemma update_all_keys_sorted (e : engine) now fit : keys_sorted (e_table e) ->
  keys_sorted (e_table (fst (fst (update_all e now fit)))).
Proof.
  intros Hk. unfold update_all. destruct (negb (now mod SecondsInDay =? 0)); [exact Hk|].
  destruct (if has_bit _ _ then _ else _) as [pc1 pcv].
  destruct (if kltb N (k0 N) _ then _ else _) as [share pred1]. cbn [fst e_table].
  set (p := a_params (e_admin e)).
  set (results := map _ _).
  assert (Hres : forall wr, In wr results -> forall k, In k (map fst (fst wr)) -> 0 <= k < 2 ^ 160).
  { intros wr Hin k Hkin. unfold results in Hin. apply in_map_iff in Hin. destruct Hin as (r & <- & _).
    destruct (update_some_spec p share now (filter (fun kt => in_range r (fst kt)) (e_table e)) [] stats0) as (A & _).
    rewrite A in Hkin. cbn [app] in Hkin. apply writes_of_keys_in in Hkin.
    destruct Hk as [_ Hr]. apply Hr. rewrite in_map_iff in Hkin. destruct Hkin as ([k2 t2] & <- & Hin2).
    apply filter_In in Hin2. destruct Hin2 as [Hin2 _]. apply (in_map fst) in Hin2. exact Hin2. }
  clearbody results. revert Hk. generalize (e_table e).
  induction results as [|wr rs IH]; intros tb Ht; cbn [fold_left]; [exact Ht|].
  apply IH; [intros w Hw; apply Hres; right; exact Hw|].
  apply (keys_sorted_put_all (fst wr)); [exact Ht|apply Hres; left; reflexivity].
Qed.

(** operations whose traveller keys are 160-bit numbers *)
Definition op_key_ok (o : @eng_op N) : Prop :=
  match o with
  | OSubmit k _ _ _ | OMake k _ _ | OEndTrip k | OReopen k => 0 <= k < 2 ^ 160
  | _ => True
  end.

Lemma e_apply_keys_sorted (e : engine) o : keys_sorted (e_table e) -> op_key_ok o -> keys_sorted (e_table (e_apply e o)).
Proof.
  intros Hk Ho. destruct o as [p|k fs now debit|now fit|k pp now|k|k]; cbn [e_apply op_key_ok] in *.
  - destruct (set_params (e_admin e) p); exact Hk.
  - unfold submit_flights. destruct fs; [exact Hk|]. destruct (submit_loop _ _ _ _ _ _) as [[t' pc']|]; cbn [fst e_table]; [|exact Hk].
    apply keys_sorted_tput; assumption.
  - apply update_all_keys_sorted, Hk.
  - unfold engine_make. destruct (negb _); [exact Hk|]. destruct (make _ _ _); [|exact Hk]. cbn [fst e_table]. apply keys_sorted_tput; assumption.
  - unfold engine_end_trip. destruct (tget _ _); [|exact Hk]. destruct (end_trip_op _); [|exact Hk]. cbn [fst e_table]. apply keys_sorted_tput; assumption.
  - unfold engine_reopen_trip. destruct (tget _ _); [|exact Hk]. destruct (reopen_trip_op _); [|exact Hk]. cbn [fst e_table]. apply keys_sorted_tput; assumption.
Qed.

Theorem reachable_keys_sorted (a : admin N) (ops : list (@eng_op N)) :
  Forall op_key_ok ops -> keys_sorted (e_table (fold_left e_apply ops (engine0 a))).
Proof.
  intros H.
  assert (G : forall e, keys_sorted (e_table e) -> keys_sorted (e_table (fold_left e_apply ops e))).
  { induction H as [|o r Ho Hr IH]; intros e He; cbn [fold_left]; [exact He|]. apply IH, e_apply_keys_sorted; assumption. }
  apply G. split; [constructor|intros k []].
Qed.

(** C03 over any number of days and any interleaved operations: in every reachable state with a
    permitted thread setting, the next daily update obeys [update_all_spec] *)
Theorem reachable_update_spec (a : admin N) (ops : list (@eng_op N)) now fit :
  Forall op_key_ok ops ->
  let e := fold_left e_apply ops (engine0 a) in
  now mod SecondsInDay = 0 ->
  0 <= pThreads (a_params (e_admin e)) < 256 -> valid_threads (pThreads (a_params (e_admin e))) = true ->
  let p := a_params (e_admin e) in
  let share := share_of e in
  let '(e', ut, r) := update_all e now fit in
  r = None /\
  (forall k, tget (e_table e') k = option_map (upd_record p share now) (tget (e_table e) k)) /\
  us_share ut = share /\
  us_grounded ut = count_grounded p share now (e_table e) /\
  a_grounded (e_admin e') = us_grounded ut /\
  us_travellers ut = count_travelled p share now (e_table e) /\
  us_flights ut = count_flights p share now (e_table e) /\
  a_params (e_admin e') = p.
Proof.
  intros Hops e Hnow Hth Hv. apply update_all_spec; try assumption.
  apply keys_sorted_ok, reachable_keys_sorted, Hops.
Qed.

End WithNum.
