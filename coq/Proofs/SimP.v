(** C20: one simulated day - and any number of days - of the WHOLE population of traveller-bots on one engine
    (Model/Sim.v: the daily update, every planning call of every planning thread in the order they happened to
    run, the day's check-ins of every bot in the journey planner's order, the parameters stored for the next
    day) is an engine history that follows the discipline of Proofs/HistoryEngineP.v; hence every check-in the
    simulation makes is accepted.  The per-bot step lemmas of Proofs/BotDayP.v are reused: an engine operation on
    one bot's record is the corresponding traveller-level event, and leaves every other bot's record and clock
    alone.  Also: doPlanTrips visits every bot of a band exactly once, whatever the number of planning threads. *)
From Coq Require Import ZArith List Bool Arith Lia Sorting.Sorted.
From Flap Require Import Model.Num Model.Search Model.TripHistory Model.Promises Model.Predictor Model.Engine Model.Bot Model.Sim
  Proofs.PromisesP Proofs.PromisesFrameP Proofs.TableP Proofs.UpdateAllP Proofs.BackfillP Proofs.HistoryP
  Proofs.HistoryEngineP Proofs.BotPlanP Proofs.BotDayP Proofs.EngineInv Proofs.TrialP.
Import ListNotations.
Open Scope Z_scope.

Section WithNum.
Context {N : NumOps}.
Local Notation K := (K N).
Local Notation flight := (flight N).
Local Notation traveller := (traveller N).
Local Notation engine := (engine N).
Local Notation journey := (journey N).
Local Notation plan_choice := (plan_choice N).
Local Notation sbot := (sbot N).
Local Notation sop := (sop N).
Local Notation xev := (@xev N).

Variable mx : Z.
Hypothesis Hmx : 1 <= mx.
Variable dist : Z -> Z -> K.
Variable tp : thparams.
Hypothesis Hrules : rules_ok tp.

(** ---------- the operations of Model/Sim.v are the engine events of Proofs/HistoryEngineP.v ---------- *)
Definition to_xev (x : sop) : xev :=
  match x with
  | SCheckin k f now debit => XCheckin k f now debit
  | SPlan k fs te now => XPlan k fs te now
  | SUpdate now fit => XUpdate now fit
  | SSetParams p => XSetParams p
  end.

Lemma x_apply_to_xev (e : engine) (x : sop) : x_apply e (to_xev x) = sop_apply e x.
Proof. destruct x; reflexivity. Qed.

Definition s_run (e : engine) (xs : list sop) : engine := fold_left sop_apply xs e.
Fixpoint s_clock (c : clock) (e : engine) (xs : list sop) : clock :=
  match xs with
  | [] => c
  | x :: r => s_clock (x_clock c e (to_xev x)) (sop_apply e x) r
  end.
Definition s_conforming (c : clock) (e : engine) (xs : list sop) : Prop := x_conforming mx c e (map to_xev xs).

Lemma s_conforming_cons c e x r :
  s_conforming c e (x :: r) <-> x_conforms mx c e (to_xev x) /\ s_conforming (x_clock c e (to_xev x)) (sop_apply e x) r.
Proof. unfold s_conforming. cbn [map x_conforming]. rewrite x_apply_to_xev. reflexivity. Qed.

Lemma s_conforming_app a : forall c e b,
  s_conforming c e a -> s_conforming (s_clock c e a) (s_run e a) b -> s_conforming c e (a ++ b).
Proof.
  induction a as [|x r IH]; intros c e b Ha Hb; cbn [app]; [exact Hb|].
  apply s_conforming_cons. apply s_conforming_cons in Ha. destruct Ha as [H1 H2]. split; [exact H1|].
  apply IH; [exact H2|exact Hb].
Qed.

Lemma s_run_app a b e : s_run e (a ++ b) = s_run (s_run e a) b.
Proof. unfold s_run. apply fold_left_app. Qed.
Lemma s_clock_app a : forall c e b, s_clock c e (a ++ b) = s_clock (s_clock c e a) (s_run e a) b.
Proof. induction a as [|x r IH]; intros c e b; cbn [app s_clock]; [reflexivity|]. rewrite IH. reflexivity. Qed.

(** ---------- what must stay the same during a day: parameters, predictor, the correction factor ---------- *)
Definition same_cfg (e e' : engine) : Prop :=
  a_params (e_admin e') = a_params (e_admin e) /\ a_pred (e_admin e') = a_pred (e_admin e) /\
  pc_bac_per_km (a_pc (e_admin e')) = pc_bac_per_km (a_pc (e_admin e)).
Lemma same_cfg_refl e : same_cfg e e.
Proof. repeat split. Qed.
Lemma same_cfg_trans e1 e2 e3 : same_cfg e1 e2 -> same_cfg e2 e3 -> same_cfg e1 e3.
Proof. intros (A & B & C) (A' & B' & C'). repeat split; congruence. Qed.

(** an operation on the record with key [k] leaves the rest of the table and the other clocks alone *)
Definition frame (k : Z) (c c' : clock) (e e' : engine) : Prop :=
  forall k', k' <> k -> tget (e_table e') k' = tget (e_table e) k' /\ c' k' = c k'.
Lemma frame_refl k c e : frame k c c e e.
Proof. intros k' _. split; reflexivity. Qed.
Lemma frame_trans k c1 c2 c3 e1 e2 e3 : frame k c1 c2 e1 e2 -> frame k c2 c3 e2 e3 -> frame k c1 c3 e1 e3.
Proof. intros F1 F2 k' Hk. destruct (F1 k' Hk) as [A B]. destruct (F2 k' Hk) as [A' B']. split; congruence. Qed.

(** ---------- the invariant of one bot, seen through the table ---------- *)
(** at the start of day [d] *)
Definition AtStart (d : Z) (clk : Z) (ot : option traveller) (pend : list journey) : Prop :=
  match ot with
  | Some t => BI mx dist tp d clk (mkBot t pend)
  | None => pend = [] /\ clk <= d * SecondsInDay
  end.
(** after the day's update, while plans are made *)
Definition AtMid (d : Z) (clk : Z) (ot : option traveller) (pend : list journey) : Prop :=
  match ot with
  | Some t => clk = d * SecondsInDay /\ J mx (d * SecondsInDay) t /\ Links dist tp d (t_book t) pend /\ PhM dist tp d t pend
  | None => clk <= d * SecondsInDay /\ pend = []
  end.

Definition bot_at (Q : Z -> option traveller -> list journey -> Prop) (c : clock) (e : engine) (b : sbot) : Prop :=
  0 <= sb_key b < 2 ^ 160 /\ Q (c (sb_key b)) (tget (e_table e) (sb_key b)) (sb_pend b).

Lemma bot_at_frame Q k c c' e e' (b : sbot) : frame k c c' e e' -> sb_key b <> k -> bot_at Q c e b -> bot_at Q c' e' b.
Proof. intros F Hne [Hk HQ]. destruct (F _ Hne) as [A B]. split; [exact Hk|]. rewrite A, B. exact HQ. Qed.

(** a bot without a record yet behaves as a new traveller with nothing planned *)
Lemma mid_new d now : 1 <= d ->
  J mx (d * SecondsInDay) (new_traveller (N:=N) now) /\ Links dist tp d (t_book (new_traveller (N:=N) now)) [] /\
  PhM dist tp d (new_traveller (N:=N) now) [].
Proof.
  intros Hd. pose proof (BI_new mx Hmx dist tp d now Hd) as [HJ _ _ HL _]. cbn [b_trav b_pend] in *.
  split; [apply new_traveller_J; exact Hmx|]. split; [exact HL|]. left. unfold Home.
  cbn [new_traveller t_hist t_kept t_book].
  split; [left; reflexivity|]. split; [reflexivity|]. split; [cbn; unfold SecondsInDay; lia|].
  split; [cbn; unfold SecondsInDay; lia|]. split; [intros Hm; discriminate Hm|intros j []].
Qed.


(** ---------- Engine.Propose on the two flights whenWillWeFly plans ---------- *)
Definition plan_distance (a : admin N) (c : plan_choice) : K :=
  let p := a_params a in
  let d0 := fold_left (fun d f => kadd N d (kadd N (fdist f) (pTaxi p))) (s_plan_flights dist c) (k0 N) in
  if has_bit (pAlgo p) pamCorrectPromiseDistance then ksub N d0 (kmul N (pc_bac_per_km (a_pc a)) d0) else d0.

Definition with_dist (c : plan_choice) (D : K) : plan_choice :=
  mkChoice (c_len c) (c_day c) (c_from c) (c_to c) D (c_r c) (c_dur c).

Lemma plan_distance_same_cfg e e' c : same_cfg e e' -> plan_distance (e_admin e') c = plan_distance (e_admin e) c.
Proof. intros (A & _ & C). unfold plan_distance. rewrite A, C. reflexivity. Qed.

Lemma plan_args_bot (e : engine) (c : plan_choice) now :
  0 < c_day c -> 1 <= c_len c -> c_day c * SecondsInDay + c_len c * SecondsInDay + (SecondsInDay - 1) < tmax ->
  let sds := c_day c * SecondsInDay in
  plan_args e (s_plan_flights dist c) 0 now =
  if negb (valid_predictor (a_pred (e_admin e))) then inr EPromisesNotEnabled else
  if pMaxDays (a_params (e_admin e)) <? to_epoch_days sds true - to_epoch_days now false then inr ETripTooFarAhead else
  inl (sds, sds + c_len c * SecondsInDay + (SecondsInDay - 1), plan_distance (e_admin e) c,
       bot_travelled (dist (c_from c) (c_to c)) (dist (c_to c) (c_from c))).
Proof.
  intros Hd Hl Ht. cbn zeta. unfold plan_args, plan_distance, s_plan_flights, bot_planned_flights.
  destruct (negb (valid_predictor (a_pred (e_admin e)))); [reflexivity|].
  cbn [fold_left fstart fend fdist newest_first insert_newest_first].
  set (sds := c_day c * SecondsInDay) in *.
  assert (Hs : 0 < sds) by (unfold sds, SecondsInDay; lia).
  assert (E1 : Z.min (Z.min max_epoch sds) (sds + c_len c * SecondsInDay + (SecondsInDay - 2)) = sds).
  { unfold max_epoch, two64, tmax, SecondsInDay in *. change (2 ^ 62) with 4611686018427387904 in Ht.
    change (2 ^ 64) with 18446744073709551616. lia. }
  assert (E2 : Z.max (Z.max 0 (sds + 1)) (sds + c_len c * SecondsInDay + SecondsInDay - 1) =
               sds + c_len c * SecondsInDay + (SecondsInDay - 1)) by (unfold SecondsInDay in *; lia).
  rewrite E1, E2.
  assert (E3 : (sds <? sds + c_len c * SecondsInDay + (SecondsInDay - 2)) = true) by (apply Z.ltb_lt; unfold SecondsInDay; lia).
  rewrite E3. cbn [fold_left fdist]. unfold bot_travelled.
  destruct (_ <? _); reflexivity.
Qed.

Lemma conforms_clock_le clk clk' (t : traveller) ev : clk' <= clk -> conforms mx clk t ev -> conforms mx clk' t ev.
Proof. intros Hle [H1 H2]. split; [lia|exact H2]. Qed.

(** the predictor, the trip rules and the chain limit during a day *)
Definition cfg_ok (e : engine) : Prop :=
  th_params (a_params (e_admin e)) = tp /\ pMaxStack (a_params (e_admin e)) = mx.
Lemma cfg_ok_same e e' : same_cfg e e' -> cfg_ok e -> cfg_ok e'.
Proof. intros (A & _ & _) (H1 & H2). unfold cfg_ok. rewrite A. auto. Qed.

(** a predictor that never answers: stands in where the predictor plays no part *)
Definition no_pred : predictor N := mkPred (fun _ _ => None) (fun _ _ => None) 0.
Lemma no_pred_ok : pred_ok no_pred.
Proof. intros dd ss cc H. discriminate H. Qed.

(** what one planning call needs: a choice the bot may make (draw within the day, trip length compatible with the
    trip rules, route distances that are numbers, promised distance a number) and - the clause of the discipline
    about the predictor - positive clearance dates in the proposal if one is issued *)
Definition call_ok (d : Z) (e : engine) (b : sbot) (ch : plan_choice) : Prop :=
  choice_ok dist tp (with_dist ch (plan_distance (e_admin e) ch)) /\
  forall pp, propose (t_book (get_create e (sb_key b) (d * SecondsInDay))) (c_day ch * SecondsInDay)
               (c_day ch * SecondsInDay + c_len ch * SecondsInDay + (SecondsInDay - 1)) (plan_distance (e_admin e) ch)
               (bot_travelled (dist (c_from ch) (c_to ch)) (dist (c_to ch) (c_from ch)))
               (d * SecondsInDay) (as_predictor (a_pred (e_admin e))) mx = inl pp -> Pos (pp_entries pp).

Definition a_day (e : engine) (debit : bool) (plan : option plan_choice) (rin durin : Z) : day_input N :=
  mkDay (a_params (e_admin e)) (k0 N) (a_pc (e_admin e)) debit (as_predictor (a_pred (e_admin e))) plan rin durin.

Lemma view_mid d c (e : engine) (b : sbot) now0 : 1 <= d -> bot_at (AtMid d) c e b ->
  let t := get_create e (sb_key b) now0 in
  c (sb_key b) <= d * SecondsInDay /\ J mx (d * SecondsInDay) t /\ Links dist tp d (t_book t) (sb_pend b) /\ PhM dist tp d t (sb_pend b).
Proof.
  intros Hd [_ H]. cbn zeta. unfold get_create. unfold AtMid in H.
  destruct (tget (e_table e) (sb_key b)) as [t|].
  - destruct H as (Hc & H). split; [lia|exact H].
  - destruct H as (Hc & ->). split; [exact Hc|]. apply mid_new. exact Hd.
Qed.

(** ---------- one planning call ---------- *)
Lemma sim_plan_bot_ok d c (e : engine) (b : sbot) (ch : plan_choice) :
  1 <= d -> EJ mx c e -> bot_at (AtMid d) c e b -> cfg_ok e -> call_ok d e b ch ->
  let '(e1, b1, xs) := sim_plan_bot dist d e b ch in
  s_conforming c e xs /\ e1 = s_run e xs /\ EJ mx (s_clock c e xs) e1 /\
  bot_at (AtMid d) (s_clock c e xs) e1 b1 /\ sb_key b1 = sb_key b /\
  frame (sb_key b) c (s_clock c e xs) e e1 /\ same_cfg e e1.
Proof.
  intros Hd HE Hb (Hth & Hst) (Hch & Hposc). unfold sim_plan_bot.
  pose proof (view_mid d c e b (d * SecondsInDay) Hd Hb) as Hv. cbn zeta in Hv.
  destruct Hb as [Hk Hb0]. unfold AtMid in Hb0.
  set (now := d * SecondsInDay) in *. set (k := sb_key b) in *.
  assert (Hb : bot_at (AtMid d) c e b) by (split; [exact Hk|exact Hb0]).
  destruct (existsb _ _) eqn:Eex.
  2:{ cbn [s_clock s_run fold_left]. split; [exact I|]. split; [reflexivity|]. split; [exact HE|]. split; [exact Hb|].
      split; [reflexivity|]. split; [apply frame_refl|apply same_cfg_refl]. }
  assert (Hin : In (c_day ch) (prepare_days (t_book (get_create e k now)) d (c_len ch) (pMaxDays (a_params (e_admin e))))).
  { apply existsb_exists in Eex. destruct Eex as (x & Hx & Ex). apply Z.eqb_eq in Ex. subst x. exact Hx. }
  destruct Hv as (Hclk & HJ1 & HL1 & HP1).
  set (t1 := get_create e k now) in *.
  set (ch' := with_dist ch (plan_distance (e_admin e) ch)) in *.
  set (di := a_day e true (Some ch') 0 1).
  pose proof (plan_step_gen mx Hmx dist tp d t1 (sb_pend b) di ch' HJ1 Hd HL1 HP1 Hth Hch Hposc Hin) as HS.
  cbn zeta in HS. fold now in HS. destruct HS as (Hc2 & HJ2 & HL2 & HP2).
  destruct Hch as (_ & Clen & _ & _ & _ & _ & Ctmax). cbn [with_dist c_len c_day] in Clen, Ctmax.
  pose proof (prepare_days_ge _ _ _ _ _ Hin) as Hcd.
  pose proof (plan_args_bot e ch now ltac:(lia) Clen Ctmax) as Epa. cbn zeta in Epa.
  set (fs := s_plan_flights dist ch) in *.
  set (x := SPlan k fs 0 now).
  assert (Hxc : x_conforms mx c e (to_xev x)).
  { cbn [to_xev x x_conforms]. split; [exact Hk|]. split; [exact Hst|]. rewrite Epa.
    destruct (negb (valid_predictor (a_pred (e_admin e)))); [exact I|].
    destruct (_ <? _); [exact I|]. eapply conforms_clock_le; [exact Hclk|]. exact Hc2. }
  destruct (x_step mx Hmx c e (to_xev x) HE Hxc) as [_ HE1]. rewrite x_apply_to_xev in HE1.
  cbn [s_clock s_run fold_left].
  split; [apply s_conforming_cons; split; [exact Hxc|exact I]|]. split; [reflexivity|]. split; [exact HE1|].
  (* what the call did *)
  cbn [to_xev x x_clock sop_apply]. rewrite engine_propose_args, Epa.
  destruct (negb (valid_predictor (a_pred (e_admin e)))) eqn:Evp.
  { split; [exact Hb|]. split; [reflexivity|]. split; [apply frame_refl|apply same_cfg_refl]. }
  destruct (_ <? _).
  { split; [exact Hb|]. split; [reflexivity|]. split; [apply frame_refl|apply same_cfg_refl]. }
  assert (Hfr0 : frame k c (upd c k now) e e).
  { intros k' Hne. split; [reflexivity|]. unfold upd. destruct (Z.eqb_spec k' k); [contradiction|reflexivity]. }
  assert (Hsame : bot_at (AtMid d) (upd c k now) e b).
  { split; [exact Hk|]. fold k. unfold upd. rewrite Z.eqb_refl. unfold AtMid.
    destruct (tget (e_table e) k); [destruct Hb0 as (_ & Hb0); split; [reflexivity|exact Hb0]|].
    destruct Hb0 as (_ & Hb0). split; [lia|exact Hb0]. }
  rewrite Hst.
  unfold apply_ev, plan_ev, plan in HJ2, HL2, HP2. cbn [with_dist ch' c_day c_len c_dist c_from c_to di a_day di_pred] in HJ2, HL2, HP2.
  unfold plan_okb, plan_ev in HL2, HP2. cbn [with_dist ch' c_day c_len c_dist c_from c_to di a_day di_pred] in HL2, HP2.
  fold now in HJ2, HL2, HP2. fold t1.
  destruct (propose (t_book t1) _ _ _ _ now _ mx) as [pp|er] eqn:Epp.
  2:{ split; [exact Hsame|]. split; [reflexivity|]. split; [exact Hfr0|apply same_cfg_refl]. }
  unfold engine_make. rewrite Evp. fold t1.
  destruct (make (t_book t1) pp _) as [bk|er] eqn:Emk; cbn [fst snd].
  2:{ split; [exact Hsame|]. split; [reflexivity|]. split; [exact Hfr0|apply same_cfg_refl]. }
  split.
  { split; [exact Hk|]. cbn [sb_key sb_pend e_table]. unfold upd. rewrite Z.eqb_refl. rewrite tget_tput_same.
    unfold AtMid. split; [reflexivity|]. split; [exact HJ2|]. split; [exact HL2|exact HP2]. }
  split; [reflexivity|]. split; [|repeat split].
  intros k' Hne. cbn [e_table]. rewrite tget_tput_other by exact Hne. split; [reflexivity|].
  unfold upd. destruct (Z.eqb_spec k' k); [contradiction|reflexivity].
Qed.


(** ---------- the population: distinct keys, every stored record belongs to a bot ---------- *)
Definition keys (bots : list sbot) : list Z := map (@sb_key N) bots.
Definition closed (e : engine) (bots : list sbot) : Prop :=
  forall k t, tget (e_table e) k = Some t -> In k (keys bots).

Lemma closed_frame k c c' (e e' : engine) bots bots' :
  frame k c c' e e' -> In k (keys bots) -> keys bots' = keys bots -> closed e bots -> closed e' bots'.
Proof.
  intros F Hin Ek Hc k' t Hg. rewrite Ek. destruct (Z.eq_dec k' k) as [->|Hne]; [exact Hin|].
  destruct (F k' Hne) as [A _]. rewrite A in Hg. exact (Hc k' t Hg).
Qed.

Lemma set_nth_frame Q c c' (e e' : engine) (b b1 : sbot) : forall (bots : list sbot) i,
  NoDup (keys bots) -> nth_error bots i = Some b -> sb_key b1 = sb_key b ->
  frame (sb_key b) c c' e e' -> bot_at Q c' e' b1 -> Forall (bot_at Q c e) bots ->
  Forall (bot_at Q c' e') (set_nth bots i b1) /\ keys (set_nth bots i b1) = keys bots.
Proof.
  induction bots as [|y r IH]; intros i Hnd Hnth Ek F Hb1 Hall; [destruct i; discriminate Hnth|].
  inversion Hall as [|? ? Hy Hr]; subst. cbn [keys map] in Hnd. inversion Hnd as [|? ? Hnin Hnd']; subst.
  destruct i as [|i]; cbn [nth_error set_nth] in *.
  - injection Hnth as ->. split.
    + constructor; [exact Hb1|]. apply Forall_forall. intros z Hz. rewrite Forall_forall in Hr.
      eapply bot_at_frame; [exact F| |apply Hr, Hz]. intros E. apply Hnin. rewrite <- E. apply in_map. exact Hz.
    + cbn [keys map]. rewrite Ek. reflexivity.
  - destruct (IH i Hnd' Hnth Ek F Hb1 Hr) as [A B]. split.
    + constructor; [|exact A]. eapply bot_at_frame; [exact F| |exact Hy].
      intros E. apply Hnin. rewrite E. apply (in_map (@sb_key N)). eapply nth_error_In. exact Hnth.
    + cbn [keys map]. fold (keys (set_nth r i b1)). rewrite B. reflexivity.
Qed.

(** ---------- all the planning calls of a day ---------- *)
Fixpoint plans_ok (d : Z) (e : engine) (bots : list sbot) (calls : list (nat * plan_choice)) : Prop :=
  match calls with
  | [] => True
  | (i, ch) :: r =>
      match nth_error bots i with
      | None => plans_ok d e bots r
      | Some b => call_ok d e b ch /\
                  plans_ok d (fst (fst (sim_plan_bot dist d e b ch))) (set_nth bots i (snd (fst (sim_plan_bot dist d e b ch)))) r
      end
  end.

Lemma sim_plans_ok d (e0 : engine) : 1 <= d -> cfg_ok e0 ->
  forall (calls : list (nat * plan_choice)) c (e : engine) (bots : list sbot),
  plans_ok d e bots calls ->
  same_cfg e0 e -> EJ mx c e -> NoDup (keys bots) -> closed e bots -> Forall (bot_at (AtMid d) c e) bots ->
  let '(e2, bots2, xs) := sim_plans dist d e bots calls in
  s_conforming c e xs /\ e2 = s_run e xs /\ EJ mx (s_clock c e xs) e2 /\ keys bots2 = keys bots /\
  closed e2 bots2 /\ Forall (bot_at (AtMid d) (s_clock c e xs) e2) bots2 /\ same_cfg e0 e2.
Proof.
  intros Hd Hcfg0. induction calls as [|[i ch] r IH]; intros c e bots Hch Hsc HE Hnd Hcl Hall; cbn [sim_plans].
  - cbn [s_clock s_run fold_left]. split; [exact I|]. repeat (split; [first [reflexivity|assumption]|]). exact Hsc.
  - cbn [plans_ok] in Hch.
    destruct (nth_error bots i) as [b|] eqn:Enth; [|apply IH; assumption].
    destruct Hch as [Hc1 Hcr].
    assert (Hb : bot_at (AtMid d) c e b).
    { rewrite Forall_forall in Hall. apply Hall. eapply nth_error_In. exact Enth. }
    pose proof (sim_plan_bot_ok d c e b ch Hd HE Hb (cfg_ok_same _ _ Hsc Hcfg0) Hc1) as H1.
    destruct (sim_plan_bot dist d e b ch) as [[e1 b1] xs1]. cbn [fst snd] in Hcr.
    destruct H1 as (Hc & -> & HE1 & Hb1 & Ek & F & Hs1).
    destruct (set_nth_frame _ _ _ _ _ b b1 bots i Hnd Enth Ek F Hb1 Hall) as [Hall1 Ek1].
    assert (Hcl1 : closed (s_run e xs1) (set_nth bots i b1)).
    { eapply closed_frame; [exact F| |exact Ek1|exact Hcl]. apply (in_map (@sb_key N)). eapply nth_error_In. exact Enth. }
    assert (Hnd1 : NoDup (keys (set_nth bots i b1))) by (rewrite Ek1; exact Hnd).
    pose proof (IH (s_clock c e xs1) (s_run e xs1) (set_nth bots i b1) Hcr (same_cfg_trans _ _ _ Hsc Hs1) HE1 Hnd1 Hcl1 Hall1) as H2.
    destruct (sim_plans dist d (s_run e xs1) (set_nth bots i b1) r) as [[e2 bots2] xs2].
    destruct H2 as (Hc2 & -> & HE2 & Ek2 & Hcl2 & Hall2 & Hs2).
    rewrite s_clock_app, s_run_app.
    split; [apply s_conforming_app; assumption|]. split; [reflexivity|]. split; [exact HE2|].
    split; [rewrite Ek2; exact Ek1|]. split; [exact Hcl2|]. split; [exact Hall2|exact Hs2].
Qed.


(** ---------- the day's check-ins of one bot ---------- *)
Lemma same_cfg_checkin (e : engine) k (f : flight) now debit : same_cfg e (sop_apply e (SCheckin k f now debit)).
Proof.
  cbn [sop_apply]. unfold submit_flights, submit_loop, submit_pc_prefix. cbn [submit_loop_from submit_pc_prefix_from].
  destruct (checkin_one true (get_create e k now) f now (pTaxi (a_params (e_admin e))) debit) as [[[t1 bac] pd]|er];
    cbn [fst e_admin with_pc a_params a_pred a_pc pc_change pc_bac_per_km]; repeat split.
Qed.

Lemma sim_submit_journeys_ok d c (e : engine) (b : sbot) debit rin durin :
  1 <= d -> EJ mx c e -> bot_at (AtMid d) c e b -> cfg_ok e -> draw_ok rin durin = true ->
  let '(e1, newj, xs) := sim_submit_journeys dist e (sb_key b) (filter (journey_today d) (sb_pend b)) debit rin durin in
  s_conforming c e xs /\ e1 = s_run e xs /\ EJ mx (s_clock c e xs) e1 /\
  bot_at (AtStart (d + 1)) (s_clock c e xs) e1 (mkSBot (sb_key b) (sb_pend b ++ newj)) /\
  frame (sb_key b) c (s_clock c e xs) e e1 /\ same_cfg e e1.
Proof.
  intros Hd HE [Hk Hb] (Hth & Hst) Hdraw. unfold AtMid in Hb.
  set (k := sb_key b) in *. set (now := d * SecondsInDay) in *.
  destruct (tget (e_table e) k) as [t|] eqn:Eg.
  2:{ destruct Hb as (Hc & Ep). rewrite Ep. cbn [filter sim_submit_journeys s_clock s_run fold_left app].
      split; [exact I|]. split; [reflexivity|]. split; [exact HE|].
      split; [split; [exact Hk|]; cbn [sb_key sb_pend]; fold k; rewrite Eg; cbn [AtStart]; split; [reflexivity|unfold SecondsInDay in *; lia]|].
      split; [apply frame_refl|apply same_cfg_refl]. }
  destruct Hb as (Hc & HJ & HL & HP).
  set (di := mkDay (a_params (e_admin e)) (k0 N) (a_pc (e_admin e)) debit no_pred None rin durin).
  assert (Hday : day_ok dist tp di) by (split; [exact Hth|]; split; [exact no_pred_ok|]; split; [exact Hdraw|exact I]).
  pose proof (submit_step mx Hmx dist tp d t (sb_pend b) di HJ Hd HL HP Hday) as HS. fold now in HS.
  pose proof (today_at_most_one d (sb_pend b) (l_uniq _ _ _ _ _ HL)) as Hle1.
  destruct (filter (journey_today d) (sb_pend b)) as [|j [|j2 r]] eqn:Ef; [| |cbn [length] in Hle1; lia].
  - cbn [bot_submit] in HS. destruct HS as (_ & _ & HB). cbn [last_time fold_left] in HB.
    cbn [sim_submit_journeys s_clock s_run fold_left].
    split; [exact I|]. split; [reflexivity|]. split; [exact HE|].
    split; [split; [exact Hk|]; cbn [sb_key sb_pend]; fold k; rewrite Eg, Hc; exact HB|].
    split; [apply frame_refl|apply same_cfg_refl].
  - cbn [bot_submit] in HS. cbn [sim_submit_journeys].
    set (f := j_flight j) in *. set (ev1 := checkin_ev di f) in *.
    destruct HS as ((Hc1 & _) & _ & HB). cbn [last_time fold_left] in HB.
    destruct (step_J mx Hmx now t ev1 HJ Hc1) as [[[t' pc'] Hacc] _].
    assert (Eab : acceptedb t ev1 = true).
    { unfold acceptedb, ev1, checkin_ev. cbn [di di_pc di_params di_debit] in *. unfold ev1, checkin_ev in Hacc.
      cbn [di di_pc di_params di_debit] in Hacc. rewrite Hacc. reflexivity. }
    rewrite Eab in HB. cbn [andb] in HB.
    assert (Eap : apply_ev mx t ev1 = t').
    { unfold ev1, checkin_ev, apply_ev. unfold ev1, checkin_ev in Hacc. cbn [di di_pc di_params di_debit] in *.
      rewrite Hacc. reflexivity. }
    rewrite Eap in HB. cbn [ev_time ev1 checkin_ev] in HB.
    set (x := SCheckin k f (fstart f) debit).
    assert (Egc : get_create e k (fstart f) = t) by (unfold get_create; rewrite Eg; reflexivity).
    assert (Hxc : x_conforms mx c e (to_xev x)).
    { cbn [to_xev x x_conforms]. split; [exact Hk|]. rewrite Egc, Hc. exact Hc1. }
    destruct (x_step mx Hmx c e (to_xev x) HE Hxc) as [_ HE1]. rewrite x_apply_to_xev in HE1.
    assert (Esub : submit_flights e k [f] (fstart f) debit =
                   ({| e_admin := with_pc (e_admin e) pc'; e_table := tput (e_table e) k t' |}, None)).
    { unfold submit_flights. rewrite Egc. unfold ev1, checkin_ev in Hacc. cbn [di di_pc di_params di_debit] in Hacc.
      rewrite Hacc. reflexivity. }
    rewrite Esub. cbn [snd andb app s_clock s_run fold_left].
    split; [apply s_conforming_cons; split; [exact Hxc|exact I]|]. split; [reflexivity|]. split; [exact HE1|].
    cbn [to_xev x x_clock sop_apply]. rewrite Esub. cbn [fst].
    split.
    { split; [exact Hk|]. cbn [sb_key sb_pend e_table]. unfold upd. rewrite Z.eqb_refl, tget_tput_same. cbn [AtStart].
      rewrite !app_nil_r in *. exact HB. }
    split.
    { intros k' Hne. cbn [e_table]. rewrite tget_tput_other by exact Hne. split; [reflexivity|].
      unfold upd. destruct (Z.eqb_spec k' k); [contradiction|reflexivity]. }
    pose proof (same_cfg_checkin e k f (fstart f) debit) as Hs. cbn [sop_apply] in Hs. rewrite Esub in Hs. exact Hs.
Qed.


(** ---------- submitFlights over the whole population ---------- *)
Lemma Forall_frame Q k c c' (e e' : engine) (l : list sbot) :
  frame k c c' e e' -> ~ In k (keys l) -> Forall (bot_at Q c e) l -> Forall (bot_at Q c' e') l.
Proof.
  intros F Hnin Hall. apply Forall_forall. intros z Hz. rewrite Forall_forall in Hall.
  eapply bot_at_frame; [exact F| |apply Hall, Hz]. intros E. apply Hnin. rewrite <- E. apply (in_map (@sb_key N)). exact Hz.
Qed.

Lemma sim_submit_ok d (e0 : engine) debit rin durin : 1 <= d -> cfg_ok e0 ->
  forall (bots done : list sbot) c (e : engine),
  Forall (fun k => draw_ok (rin k) (durin k) = true) (keys bots) ->
  same_cfg e0 e -> EJ mx c e -> NoDup (keys (done ++ bots)) -> closed e (done ++ bots) ->
  Forall (bot_at (AtStart (d + 1)) c e) done -> Forall (bot_at (AtMid d) c e) bots ->
  let '(e2, bots2, xs) := sim_submit dist d e bots debit rin durin in
  s_conforming c e xs /\ e2 = s_run e xs /\ EJ mx (s_clock c e xs) e2 /\ keys bots2 = keys bots /\
  closed e2 (done ++ bots2) /\ Forall (bot_at (AtStart (d + 1)) (s_clock c e xs) e2) (done ++ bots2) /\ same_cfg e0 e2.
Proof.
  intros Hd Hcfg0. induction bots as [|b r IH]; intros done c e Hdr Hsc HE Hnd Hcl Hdone Hall; cbn [sim_submit].
  - cbn [s_clock s_run fold_left]. split; [exact I|]. split; [reflexivity|]. split; [exact HE|]. split; [reflexivity|].
    split; [exact Hcl|]. split; [rewrite app_nil_r; exact Hdone|exact Hsc].
  - inversion Hall as [|? ? Hb Hr]; subst. cbn [keys map] in Hdr. inversion Hdr as [|? ? Hdr1 Hdrr]; subst.
    pose proof (sim_submit_journeys_ok d c e b debit (rin (sb_key b)) (durin (sb_key b)) Hd HE Hb
                  (cfg_ok_same _ _ Hsc Hcfg0) Hdr1) as H1.
    destruct (sim_submit_journeys dist e (sb_key b) (filter (journey_today d) (sb_pend b)) debit (rin (sb_key b)) (durin (sb_key b)))
      as [[e1 newj] xs1].
    destruct H1 as (Hc1 & -> & HE1 & Hb1 & F & Hs1).
    set (b' := mkSBot (sb_key b) (sb_pend b ++ newj)) in *.
    unfold keys in Hnd. rewrite map_app in Hnd. cbn [map] in Hnd.
    pose proof (NoDup_remove_2 _ _ _ Hnd) as Hnin. pose proof (NoDup_remove_1 _ _ _ Hnd) as Hnd0.
    assert (Hn1 : ~ In (sb_key b) (keys done)) by (intros H; apply Hnin, in_or_app; left; exact H).
    assert (Hn2 : ~ In (sb_key b) (keys r)) by (intros H; apply Hnin, in_or_app; right; exact H).
    assert (Hk' : keys ((done ++ [b']) ++ r) = keys (done ++ b :: r)).
    { unfold keys. rewrite <- app_assoc. rewrite !map_app. reflexivity. }
    assert (Hnd' : NoDup (keys ((done ++ [b']) ++ r))).
    { rewrite Hk'. unfold keys. rewrite map_app. exact Hnd. }
    assert (Hcl' : closed (s_run e xs1) ((done ++ [b']) ++ r)).
    { eapply closed_frame; [exact F| |exact Hk'|exact Hcl]. unfold keys. rewrite map_app. apply in_or_app. right. left. reflexivity. }
    assert (Hdone' : Forall (bot_at (AtStart (d + 1)) (s_clock c e xs1) (s_run e xs1)) (done ++ [b'])).
    { apply Forall_app. split; [eapply Forall_frame; [exact F|exact Hn1|exact Hdone]|]. constructor; [exact Hb1|constructor]. }
    assert (Hr' : Forall (bot_at (AtMid d) (s_clock c e xs1) (s_run e xs1)) r).
    { eapply Forall_frame; [exact F|exact Hn2|exact Hr]. }
    pose proof (IH (done ++ [b']) _ _ Hdrr (same_cfg_trans _ _ _ Hsc Hs1) HE1 Hnd' Hcl' Hdone' Hr') as H2.
    destruct (sim_submit dist d (s_run e xs1) r debit rin durin) as [[e2 r2] xs2].
    destruct H2 as (Hc2 & -> & HE2 & Ek2 & Hcl2 & Hall2 & Hs2).
    rewrite s_clock_app, s_run_app. rewrite <- app_assoc in Hcl2, Hall2. cbn [app] in Hcl2, Hall2.
    split; [apply s_conforming_app; assumption|]. split; [reflexivity|]. split; [exact HE2|].
    split; [cbn [keys map]; fold (keys r2); fold (keys r); rewrite Ek2; reflexivity|].
    split; [exact Hcl2|]. split; [exact Hall2|exact Hs2].
Qed.

(** ---------- the daily update over the whole population ---------- *)
Lemma sim_update_ok d c (e : engine) (bots : list sbot) fit :
  1 <= d -> EJ mx c e -> closed e bots -> Forall (bot_at (AtStart d) c e) bots ->
  th_params (a_params (e_admin e)) = tp ->
  0 <= pThreads (a_params (e_admin e)) < 256 -> valid_threads (pThreads (a_params (e_admin e))) = true ->
  let x := SUpdate (d * SecondsInDay) fit in
  x_conforms mx c e (to_xev x) /\ EJ mx (x_clock c e (to_xev x)) (sop_apply e x) /\
  closed (sop_apply e x) bots /\ Forall (bot_at (AtMid d) (x_clock c e (to_xev x)) (sop_apply e x)) bots /\
  a_params (e_admin (sop_apply e x)) = a_params (e_admin e).
Proof.
  intros Hd HE Hcl Hall Hth Hthr Hvt. cbn zeta. set (now := d * SecondsInDay).
  set (p := a_params (e_admin e)) in *.
  assert (Hnowm : now mod SecondsInDay = 0) by (apply Z_mod_mult).
  (* per stored record: the update step of its bot *)
  assert (Hstep : forall (b : sbot) t, In b bots -> tget (e_table e) (sb_key b) = Some t ->
            conforms mx (c (sb_key b)) t (EUpdate p (share_of e) now) /\
            J mx now (apply_ev mx t (EUpdate p (share_of e) now)) /\
            Links dist tp d (t_book (apply_ev mx t (EUpdate p (share_of e) now))) (sb_pend b) /\
            PhM dist tp d (apply_ev mx t (EUpdate p (share_of e) now)) (sb_pend b)).
  { intros b t Hin Hg. rewrite Forall_forall in Hall. destruct (Hall b Hin) as [_ HB]. rewrite Hg in HB. cbn [AtStart] in HB.
    (* update_step only reads the trip rules of the day input *)
    assert (Hupd := fun di Hday => update_step mx Hmx dist tp Hrules d (c (sb_key b)) (mkBot t (sb_pend b)) di HB Hday).
    specialize (Hupd (mkDay p (share_of e) (a_pc (e_admin e)) true no_pred None 0 1)).
    cbn [di_params di_share b_trav b_pend] in Hupd. apply Hupd.
    split; [exact Hth|]. split; [exact no_pred_ok|]. split; [reflexivity|exact I]. }
  set (x := SUpdate now fit).
  assert (Hxc : x_conforms mx c e (to_xev x)).
  { cbn [to_xev x x_conforms]. split; [exact Hnowm|]. split; [exact Hthr|]. split; [exact Hvt|].
    intros k t Hg. pose proof (Hcl k t Hg) as Hin. unfold keys in Hin. apply in_map_iff in Hin. destruct Hin as (b & <- & Hin).
    exact (proj1 (Hstep b t Hin Hg)). }
  destruct (x_step mx Hmx c e (to_xev x) HE Hxc) as [_ HE1]. rewrite x_apply_to_xev in HE1.
  split; [exact Hxc|]. split; [exact HE1|].
  destruct HE as [Hks HEr].
  pose proof (update_all_spec e now fit Hnowm Hthr Hvt (keys_sorted_ok _ Hks)) as Hs. cbn zeta in Hs.
  cbn [sop_apply x to_xev x_clock].
  destruct (update_all e now fit) as [[e' ut] rr]. destruct Hs as (_ & Hget & _ & _ & _ & _ & _ & Hp). cbn [fst].
  split.
  { intros k t Hg. rewrite Hget in Hg. destruct (tget (e_table e) k) as [t0|] eqn:E0; [|discriminate Hg]. exact (Hcl k t0 E0). }
  split; [|exact Hp].
  apply Forall_forall. intros b Hin. rewrite Forall_forall in Hall. destruct (Hall b Hin) as [Hk HB].
  split; [exact Hk|]. rewrite Hget.
  destruct (tget (e_table e) (sb_key b)) as [t|] eqn:Eg; cbn [option_map AtMid].
  - destruct (Hstep b t Hin Eg) as (_ & HJ & HL & HP). split; [reflexivity|]. split; [exact HJ|]. split; [exact HL|exact HP].
  - cbn [AtStart] in HB. destruct HB as [Ep Hc]. split; [exact Hc|exact Ep].
Qed.


(** ---------- a whole day, any number of days ---------- *)
Definition PopInv (d : Z) (c : clock) (s : sim N) : Prop :=
  1 <= d /\ EJ mx c (s_eng s) /\ NoDup (keys (s_bots s)) /\ closed (s_eng s) (s_bots s) /\
  Forall (bot_at (AtStart d) c (s_eng s)) (s_bots s).

(** what a day needs: the trip rules and the chain limit the theorem is stated for, a thread setting the
    parameter setter accepts, [call_ok] for every planning call in the state in which it is made, and draws for the
    return flights that land within the day *)
Definition pop_day_ok (d : Z) (s : sim N) (pd : pop_day N) : Prop :=
  let e := s_eng s in
  let p := a_params (e_admin e) in
  th_params p = tp /\ pMaxStack p = mx /\ 0 <= pThreads p < 256 /\ valid_threads (pThreads p) = true /\
  plans_ok d (sop_apply e (SUpdate (d * SecondsInDay) (pd_fit pd))) (s_bots s) (pd_calls pd) /\
  Forall (fun k => draw_ok (pd_rin pd k) (pd_durin pd k) = true) (keys (s_bots s)).

Fixpoint sim_ok (d : Z) (s : sim N) (days : list (pop_day N)) : Prop :=
  match days with
  | [] => True
  | pd :: r => pop_day_ok d s pd /\ sim_ok (d + 1) (fst (sim_day dist d s pd)) r
  end.

Theorem sim_day_conforms d c (s : sim N) (pd : pop_day N) : PopInv d c s -> pop_day_ok d s pd ->
  let '(s', xs) := sim_day dist d s pd in
  s_conforming c (s_eng s) xs /\ s_eng s' = s_run (s_eng s) xs /\ PopInv (d + 1) (s_clock c (s_eng s) xs) s'.
Proof.
  intros (Hd & HE & Hnd & Hcl & Hall) Hok. cbn zeta in Hok. destruct Hok as (Hth & Hst & Hthr & Hvt & Hcalls & Hdraw).
  unfold sim_day. set (now := d * SecondsInDay) in *. set (x1 := SUpdate now (pd_fit pd)) in *.
  pose proof (sim_update_ok d c (s_eng s) (s_bots s) (pd_fit pd) Hd HE Hcl Hall Hth Hthr Hvt) as HU. cbn zeta in HU.
  fold now in HU. fold x1 in HU. destruct HU as (Hxc & HE1 & Hcl1 & Hall1 & Hp1).
  set (e1 := sop_apply (s_eng s) x1) in *. set (c1 := x_clock c (s_eng s) (to_xev x1)) in *.
  assert (Hcfg1 : cfg_ok e1) by (split; [rewrite Hp1; exact Hth|rewrite Hp1; exact Hst]).
  pose proof (sim_plans_ok d e1 Hd Hcfg1 (pd_calls pd) c1 e1 (s_bots s) Hcalls (same_cfg_refl e1) HE1 Hnd Hcl1 Hall1) as HP.
  destruct (sim_plans dist d e1 (s_bots s) (pd_calls pd)) as [[e2 bots2] xs2].
  destruct HP as (Hc2 & E2 & HE2 & Ek2 & Hcl2 & Hall2 & Hs2).
  assert (Hnd2 : NoDup (keys ([] ++ bots2))) by (cbn [app]; rewrite Ek2; exact Hnd).
  assert (Hdraw2 : Forall (fun k => draw_ok (pd_rin pd k) (pd_durin pd k) = true) (keys bots2)) by (rewrite Ek2; exact Hdraw).
  pose proof (sim_submit_ok d e1 (pd_debit pd) (pd_rin pd) (pd_durin pd) Hd Hcfg1 bots2 [] (s_clock c1 e1 xs2) e2
                Hdraw2 Hs2 HE2 Hnd2 Hcl2 (Forall_nil _) Hall2) as HS.
  destruct (sim_submit dist d e2 bots2 (pd_debit pd) (pd_rin pd) (pd_durin pd)) as [[e3 bots3] xs3].
  destruct HS as (Hc3 & E3 & HE3 & Ek3 & Hcl3 & Hall3 & Hs3). cbn [app] in Hcl3, Hall3.
  assert (Hnd3 : NoDup (keys bots3)) by (rewrite Ek3, Ek2; exact Hnd).
  (* the history so far *)
  assert (Hconf123 : s_conforming c (s_eng s) (x1 :: xs2 ++ xs3)).
  { apply s_conforming_cons. split; [exact Hxc|]. fold e1. fold c1. apply s_conforming_app; [exact Hc2|].
    rewrite <- E2. exact Hc3. }
  assert (Erun : s_run (s_eng s) (x1 :: xs2 ++ xs3) = e3).
  { unfold s_run. cbn [fold_left]. fold e1. fold (s_run e1 (xs2 ++ xs3)). rewrite s_run_app, <- E2, <- E3. reflexivity. }
  assert (Eclk : s_clock c (s_eng s) (x1 :: xs2 ++ xs3) = s_clock (s_clock c1 e1 xs2) e2 xs3).
  { cbn [s_clock]. fold e1. fold c1. rewrite s_clock_app, <- E2. reflexivity. }
  destruct (pd_params pd) as [p'|]; cbn [s_eng s_bots].
  - replace (x1 :: xs2 ++ xs3 ++ [SSetParams p']) with ((x1 :: xs2 ++ xs3) ++ [SSetParams p'])
      by (cbn [app]; rewrite <- app_assoc; reflexivity).
    rewrite s_clock_app, s_run_app, Erun, Eclk. cbn [s_clock s_run fold_left to_xev x_clock].
    split; [apply s_conforming_app; [exact Hconf123|]; rewrite Erun; apply s_conforming_cons; split; exact I|].
    split; [reflexivity|].
    assert (Et : e_table (sop_apply e3 (SSetParams p')) = e_table e3).
    { cbn [sop_apply]. destruct (set_params (e_admin e3) p'); reflexivity. }
    unfold PopInv, closed, bot_at. cbn [s_eng s_bots]. set (e4 := sop_apply e3 (SSetParams p')) in *.
    split; [lia|]. split.
    { destruct HE3 as [A B]. split; [rewrite Et; exact A|]. intros k t Hg. rewrite Et in Hg. exact (B k t Hg). }
    split; [exact Hnd3|]. split; [intros k t Hg; rewrite Et in Hg; exact (Hcl3 k t Hg)|].
    apply Forall_forall. intros b Hin. rewrite Forall_forall in Hall3. destruct (Hall3 b Hin) as [Hk HQ].
    split; [exact Hk|]. rewrite Et. exact HQ.
  - rewrite app_nil_r. rewrite Erun, Eclk. split; [exact Hconf123|]. split; [reflexivity|].
    split; [lia|]. split; [exact HE3|]. split; [exact Hnd3|]. split; [exact Hcl3|exact Hall3].
Qed.

Theorem sim_run_conforming (days : list (pop_day N)) : forall d c (s : sim N),
  PopInv d c s -> sim_ok d s days -> s_conforming c (s_eng s) (sim_run dist d s days).
Proof.
  induction days as [|pd r IH]; intros d c s HI Hok; cbn [sim_run]; [exact I|].
  cbn [sim_ok] in Hok. destruct Hok as [H1 Hr].
  pose proof (sim_day_conforms d c s pd HI H1) as HD.
  destruct (sim_day dist d s pd) as [s' xs]. cbn [fst] in Hr. destruct HD as (Hc & Es & HI').
  apply s_conforming_app; [exact Hc|]. rewrite <- Es. apply IH; assumption.
Qed.

(** ... hence every check-in of the simulated population is accepted *)
Theorem sim_run_all_accepted (days : list (pop_day N)) d c (s : sim N) :
  PopInv d c s -> sim_ok d s days -> x_all_accepted (s_eng s) (map to_xev (sim_run dist d s days)).
Proof.
  intros HI Hok. destruct HI as (Hd & HE & Hrest).
  apply (engine_history_all_accepted mx Hmx _ c); [exact HE|].
  apply sim_run_conforming; [split; [exact Hd|split; [exact HE|exact Hrest]]|exact Hok].
Qed.

(** a population without records and without plans, on an engine without travellers, satisfies the invariant *)
Lemma PopInv_fresh d (a : admin N) (ks : list Z) : 1 <= d -> NoDup ks -> (forall k, In k ks -> 0 <= k < 2 ^ 160) ->
  PopInv d (fun _ => 0) (mkSim (mkEngine a []) (map (fun k => mkSBot k []) ks)).
Proof.
  intros Hd Hnd Hr. split; [exact Hd|]. cbn [s_eng s_bots].
  split; [split; [split; [constructor|intros k []]|intros k t Hg; discriminate Hg]|].
  assert (Ek : keys (map (fun k => mkSBot (N:=N) k []) ks) = ks).
  { unfold keys. rewrite map_map. cbn [sb_key]. apply map_id. }
  split; [rewrite Ek; exact Hnd|]. split; [intros k t Hg; discriminate Hg|].
  apply Forall_forall. intros b Hin. apply in_map_iff in Hin. destruct Hin as (k & <- & Hin).
  split; [cbn [sb_key]; apply Hr, Hin|]. cbn [sb_key sb_pend e_table tget AtStart].
  split; [reflexivity|unfold SecondsInDay; lia].
Qed.


(** ---------- the trial period: while the simulation does not debit, every balance stays zero ---------- *)
Section Trial.
Hypothesis Hz : kltb N (k0 N) (k0 N) = false.

Definition sop_nondebit (x : sop) : Prop := match x with SCheckin _ _ _ d => d = false | _ => True end.

Lemma sop_apply_TZb (e : engine) (x : sop) : sop_nondebit x -> TZb (e_table e) -> TZb (e_table (sop_apply e x)).
Proof.
  intros Hn Ht. destruct x as [k f now debit|k fs te now|now fit|p]; cbn [sop_apply].
  - exact (e_apply_TZb Hz e (OSubmit k [f] now debit) Hn Ht).
  - destruct (engine_propose e k fs te now) as [pp| |]; [|exact Ht|exact Ht].
    exact (e_apply_TZb Hz e (OMake k pp now) I Ht).
  - exact (e_apply_TZb Hz e (OUpdate now fit) I Ht).
  - exact (e_apply_TZb Hz e (OSetParams p) I Ht).
Qed.

Lemma s_run_TZb xs : forall e : engine, Forall sop_nondebit xs -> TZb (e_table e) -> TZb (e_table (s_run e xs)).
Proof.
  induction xs as [|x r IH]; intros e Hall Ht; [exact Ht|]. inversion Hall as [|? ? H1 Hr]; subst.
  unfold s_run. cbn [fold_left]. apply IH; [exact Hr|]. apply sop_apply_TZb; assumption.
Qed.

Lemma sim_plans_nondebit d calls : forall (e : engine) (bots : list sbot),
  Forall sop_nondebit (snd (sim_plans dist d e bots calls)).
Proof.
  induction calls as [|[i ch] r IH]; intros e bots; cbn [sim_plans]; [constructor|].
  destruct (nth_error bots i) as [b|]; [|apply IH].
  unfold sim_plan_bot at 1. destruct (existsb _ _).
  - specialize (IH (sop_apply e (SPlan (sb_key b) (s_plan_flights dist ch) 0 (d * SecondsInDay)))).
    match goal with |- context [sim_plans dist d ?e1 ?b1 r] => specialize (IH b1); destruct (sim_plans dist d e1 b1 r) as [[e2 bots2] xs2] end.
    cbn [snd app] in *. constructor; [exact I|exact IH].
  - specialize (IH e (set_nth bots i b)). destruct (sim_plans dist d e (set_nth bots i b) r) as [[e2 bots2] xs2].
    cbn [snd app] in *. exact IH.
Qed.

Lemma sim_submit_journeys_nondebit k rin durin today : forall e : engine,
  Forall sop_nondebit (snd (sim_submit_journeys dist e k today false rin durin)).
Proof.
  induction today as [|j r IH]; intros e; cbn [sim_submit_journeys]; [constructor|].
  match goal with |- context [sim_submit_journeys dist ?e1 k r false rin durin] =>
    specialize (IH e1); destruct (sim_submit_journeys dist e1 k r false rin durin) as [[e2 more] xs] end.
  cbn [snd] in *. constructor; [reflexivity|exact IH].
Qed.

Lemma sim_submit_nondebit d rin durin bots : forall e : engine,
  Forall sop_nondebit (snd (sim_submit dist d e bots false rin durin)).
Proof.
  induction bots as [|b r IH]; intros e; cbn [sim_submit]; [constructor|].
  pose proof (sim_submit_journeys_nondebit (sb_key b) (rin (sb_key b)) (durin (sb_key b))
                (filter (journey_today d) (sb_pend b)) e) as H1.
  destruct (sim_submit_journeys dist e (sb_key b) (filter (journey_today d) (sb_pend b)) false (rin (sb_key b)) (durin (sb_key b)))
    as [[e1 newj] xs1].
  specialize (IH e1). destruct (sim_submit dist d e1 r false rin durin) as [[e2 r'] xs2].
  cbn [snd] in *. apply Forall_app. split; assumption.
Qed.

Lemma sim_day_nondebit d (s : sim N) (pd : pop_day N) : pd_debit pd = false ->
  Forall sop_nondebit (snd (sim_day dist d s pd)).
Proof.
  intros Hd. unfold sim_day. rewrite Hd.
  pose proof (sim_plans_nondebit d (pd_calls pd) (sop_apply (s_eng s) (SUpdate (d * SecondsInDay) (pd_fit pd))) (s_bots s)) as H2.
  destruct (sim_plans dist d _ (s_bots s) (pd_calls pd)) as [[e2 bots2] xs2].
  pose proof (sim_submit_nondebit d (pd_rin pd) (pd_durin pd) bots2 e2) as H3.
  destruct (sim_submit dist d e2 bots2 false (pd_rin pd) (pd_durin pd)) as [[e3 bots3] xs3].
  cbn [snd] in *. destruct (pd_params pd) as [p'|]; cbn [snd].
  - constructor; [exact I|]. apply Forall_app. split; [exact H2|]. apply Forall_app. split; [exact H3|]. constructor; [exact I|constructor].
  - constructor; [exact I|]. apply Forall_app. split; [exact H2|]. apply Forall_app. split; [exact H3|constructor].
Qed.

Lemma sim_run_nondebit (days : list (pop_day N)) : forall d (s : sim N),
  Forall (fun pd => pd_debit pd = false) days -> Forall sop_nondebit (sim_run dist d s days).
Proof.
  induction days as [|pd r IH]; intros d s Hall; cbn [sim_run]; [constructor|].
  inversion Hall as [|? ? H1 Hr]; subst. pose proof (sim_day_nondebit d s pd H1) as HD.
  destruct (sim_day dist d s pd) as [s' xs]. cbn [snd] in HD. apply Forall_app. split; [exact HD|apply IH, Hr].
Qed.

(** while the simulation does not debit (the trial days) every stored balance is zero after any number of days of
    the whole population: nobody can be grounded and the daily update credits nobody *)
Theorem sim_trial_balances_zero (days : list (pop_day N)) d (s : sim N) :
  Forall (fun pd => pd_debit pd = false) days -> TZb (e_table (s_eng s)) ->
  TZb (e_table (s_run (s_eng s) (sim_run dist d s days))).
Proof. intros Hall Ht. apply s_run_TZb; [apply sim_run_nondebit, Hall|exact Ht]. Qed.

End Trial.

(** ---------- the hypotheses decided by computation ---------- *)
Definition thparams_eqb (a b : thparams) : bool :=
  (TripLength a =? TripLength b) && (FlightsInTrip a =? FlightsInTrip b) && (FlightInterval a =? FlightInterval b) &&
  (Algo a =? Algo b).
Lemma thparams_eqb_eq a b : thparams_eqb a b = true -> a = b.
Proof.
  destruct a, b. unfold thparams_eqb. cbn. rewrite !andb_true_iff, !Z.eqb_eq. intros [[[-> ->] ->] ->]. reflexivity.
Qed.

Definition route_okb (a b : Z) : bool :=
  let tr := bot_travelled (dist a b) (dist b a) in
  kltb N (k0 N) tr && keqb N tr tr && negb (keqb N tr (k0 N)) && negb (keqb N tr (kadd N (k0 N) (dist a b))).
Definition choice_okb (c : plan_choice) : bool :=
  draw_ok (c_r c) (c_dur c) && (1 <=? c_len c) && (FlightInterval tp <=? c_len c - 1) && (c_len c + 1 <=? TripLength tp) &&
  route_okb (c_from c) (c_to c) && keqb N (c_dist c) (c_dist c) &&
  (c_day c * SecondsInDay + c_len c * SecondsInDay + (SecondsInDay - 1) <? tmax).
Lemma choice_okb_sound c : choice_okb c = true -> choice_ok dist tp c.
Proof.
  unfold choice_okb, choice_ok, route_okb, route_ok. rewrite !andb_true_iff, !negb_true_iff, !Z.leb_le, Z.ltb_lt.
  intros [[[[[[A B] C] D] [[[E1 E2] E3] E4]] F] G]. repeat split; assumption.
Qed.

Definition call_okb (d : Z) (e : engine) (b : sbot) (ch : plan_choice) : bool :=
  choice_okb (with_dist ch (plan_distance (e_admin e) ch)) &&
  match propose (t_book (get_create e (sb_key b) (d * SecondsInDay))) (c_day ch * SecondsInDay)
          (c_day ch * SecondsInDay + c_len ch * SecondsInDay + (SecondsInDay - 1)) (plan_distance (e_admin e) ch)
          (bot_travelled (dist (c_from ch) (c_to ch)) (dist (c_to ch) (c_from ch)))
          (d * SecondsInDay) (as_predictor (a_pred (e_admin e))) mx with
  | inl pp => posb (pp_entries pp)
  | inr _ => true
  end.
Lemma call_okb_sound d e b ch : call_okb d e b ch = true -> call_ok d e b ch.
Proof.
  unfold call_okb, call_ok. rewrite andb_true_iff. intros [A B]. split; [apply choice_okb_sound, A|].
  intros pp Epp. rewrite Epp in B. apply posb_spec, B.
Qed.

Fixpoint plans_okb (d : Z) (e : engine) (bots : list sbot) (calls : list (nat * plan_choice)) : bool :=
  match calls with
  | [] => true
  | (i, ch) :: r =>
      match nth_error bots i with
      | None => plans_okb d e bots r
      | Some b => call_okb d e b ch &&
                  plans_okb d (fst (fst (sim_plan_bot dist d e b ch))) (set_nth bots i (snd (fst (sim_plan_bot dist d e b ch)))) r
      end
  end.
Lemma plans_okb_sound d calls : forall e bots, plans_okb d e bots calls = true -> plans_ok d e bots calls.
Proof.
  induction calls as [|[i ch] r IH]; intros e bots H; cbn [plans_okb plans_ok] in *; [exact I|].
  destruct (nth_error bots i); [|apply IH, H]. apply andb_true_iff in H. destruct H as [A B].
  split; [apply call_okb_sound, A|apply IH, B].
Qed.

Definition pop_day_okb (d : Z) (s : sim N) (pd : pop_day N) : bool :=
  let e := s_eng s in
  let p := a_params (e_admin e) in
  thparams_eqb (th_params p) tp && (pMaxStack p =? mx) && (0 <=? pThreads p) && (pThreads p <? 256) &&
  valid_threads (pThreads p) &&
  plans_okb d (sop_apply e (SUpdate (d * SecondsInDay) (pd_fit pd))) (s_bots s) (pd_calls pd) &&
  forallb (fun k => draw_ok (pd_rin pd k) (pd_durin pd k)) (keys (s_bots s)).
Lemma pop_day_okb_sound d s pd : pop_day_okb d s pd = true -> pop_day_ok d s pd.
Proof.
  unfold pop_day_okb, pop_day_ok. cbn zeta. rewrite !andb_true_iff, Z.eqb_eq, Z.leb_le, Z.ltb_lt.
  intros [[[[[[A B] C] D] E] F] G]. split; [apply thparams_eqb_eq, A|]. split; [exact B|]. split; [lia|].
  split; [exact E|]. split; [apply plans_okb_sound, F|]. apply Forall_forall. rewrite forallb_forall in G. exact G.
Qed.

Fixpoint sim_okb (d : Z) (s : sim N) (days : list (pop_day N)) : bool :=
  match days with
  | [] => true
  | pd :: r => pop_day_okb d s pd && sim_okb (d + 1) (fst (sim_day dist d s pd)) r
  end.
Lemma sim_okb_sound days : forall d s, sim_okb d s days = true -> sim_ok d s days.
Proof.
  induction days as [|pd r IH]; intros d s H; cbn [sim_okb sim_ok] in *; [exact I|].
  apply andb_true_iff in H. destruct H as [A B]. split; [apply pop_day_okb_sound, A|apply IH, B].
Qed.

(** runnable form of the theorem: from a fresh population, the check evaluated on the inputs of a run implies that
    every check-in of that run is accepted *)
Theorem checked_population_all_accepted (days : list (pop_day N)) d (a : admin N) (ks : list Z) :
  1 <= d -> NoDup ks -> (forall k, In k ks -> 0 <= k < 2 ^ 160) ->
  let s := mkSim (mkEngine a []) (map (fun k => mkSBot k []) ks) in
  sim_okb d s days = true -> x_all_accepted (s_eng s) (map to_xev (sim_run dist d s days)).
Proof.
  intros Hd Hnd Hr s Hok. apply (sim_run_all_accepted days d (fun _ => 0) s); [|apply sim_okb_sound, Hok].
  apply PopInv_fresh; assumption.
Qed.

End WithNum.

(** ---------- doPlanTrips: the planning threads share out the bots of a band ---------- *)
Lemma worker_bots_in th : 0 < th -> forall fuel j n x,
  In x (worker_bots fuel j n th) <-> exists i : nat, (i < fuel)%nat /\ x = j + Z.of_nat i * th /\ x < n.
Proof.
  intros Hth. induction fuel as [|f IH]; intros j n x; cbn [worker_bots].
  - split; [intros []|intros (i & Hi & _); lia].
  - destruct (Z.ltb_spec j n) as [Hlt|Hge].
    + cbn [In]. rewrite IH. split.
      * intros [<-|(i & Hi & -> & Hx)]; [exists 0%nat; split; [lia|split; [lia|exact Hlt]]|].
        exists (S i). split; [lia|]. split; [lia|exact Hx].
      * intros (i & Hi & -> & Hx). destruct i as [|i]; [left; lia|]. right. exists i. split; [lia|]. split; [lia|exact Hx].
    + split; [intros []|]. intros (i & Hi & -> & Hx). nia.
Qed.

Lemma worker_bots_sorted th : 0 < th -> forall fuel j n, StronglySorted Z.lt (worker_bots fuel j n th).
Proof.
  intros Hth. induction fuel as [|f IH]; intros j n; cbn [worker_bots]; [constructor|].
  destruct (j <? n); [|constructor]. constructor; [apply IH|].
  apply Forall_forall. intros x Hx. apply (worker_bots_in th Hth) in Hx. destruct Hx as (i & _ & -> & _). nia.
Qed.

Lemma sorted_lt_NoDup (l : list Z) : StronglySorted Z.lt l -> NoDup l.
Proof.
  induction 1 as [|a l Hs IH Hall]; constructor; [|exact IH].
  intros Hin. rewrite Forall_forall in Hall. specialize (Hall a Hin). lia.
Qed.

(** every bot 0..n-1 of a band is visited by exactly one of the [threads] workers, exactly once, and no
    worker visits anything else *)
Theorem planning_threads_partition n threads : 0 < threads -> 0 <= n ->
  (forall x, 0 <= x < n ->
     In x (worker_bots (Z.to_nat n) (x mod threads) n threads) /\ 0 <= x mod threads < threads /\
     forall off, 0 <= off < threads -> In x (worker_bots (Z.to_nat n) off n threads) -> off = x mod threads) /\
  (forall off, 0 <= off < threads ->
     NoDup (worker_bots (Z.to_nat n) off n threads) /\
     forall x, In x (worker_bots (Z.to_nat n) off n threads) -> 0 <= x < n).
Proof.
  intros Hth Hn. split.
  - intros x Hx. split; [|split; [apply Z.mod_pos_bound; exact Hth|]].
    + apply (worker_bots_in threads Hth). exists (Z.to_nat (x / threads)).
      assert (0 <= x / threads) by (apply Z.div_pos; lia).
      assert (x / threads <= x) by (apply Z.div_le_upper_bound; nia).
      split; [lia|]. split; [|lia]. rewrite Z2Nat.id by lia. pose proof (Z.div_mod x threads ltac:(lia)). lia.
    + intros off Hoff Hin. apply (worker_bots_in threads Hth) in Hin. destruct Hin as (i & _ & -> & _).
      rewrite Z.mod_add by lia. symmetry. apply Z.mod_small. exact Hoff.
  - intros off Hoff. split; [apply sorted_lt_NoDup, worker_bots_sorted; exact Hth|].
    intros x Hin. apply (worker_bots_in threads Hth) in Hin. destruct Hin as (i & _ & -> & Hx). split; [nia|exact Hx].
Qed.

(** planTrips starts exactly the workers 0 .. threads-1 *)
Lemma planned_bots_workers n threads :
  planned_bots n threads = map (fun off => worker_bots (Z.to_nat n) off n threads) (zrange 0 threads).
Proof. reflexivity. Qed.
