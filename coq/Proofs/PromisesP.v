(** C09 / C10: the promise book.  Nothing is assumed about the predictor. *)
From Coq Require Import ZArith List Bool Arith Lia.
From Flap Require Import Model.Num Model.Search Model.TripHistory Model.Promises Proofs.SearchP.
Import ListNotations.
Open Scope Z_scope.

Lemma nth_firstn_lt {A} (l : list A) d : forall i m, (m < i)%nat -> nth m (firstn i l) d = nth m l d.
Proof. induction l as [|x r IH]; intros [|i] [|m] H; cbn; auto; try lia. apply IH. lia. Qed.
Lemma nth_skipn_add {A} (l : list A) d : forall i m, nth m (skipn i l) d = nth (i + m) l d.
Proof. induction l as [|x r IH]; intros [|i] m; cbn; auto. destruct m; reflexivity. Qed.

Section WithNum.
Context {N : NumOps}.
Local Notation K := (K N).
Local Notation promise := (promise N).
Local Notation book := (book N).
Local Notation predictor := (predictor N).

(** ---- make ---- *)
Theorem make_iff_current (b : book) pp (pr : predictor) :
  (pr_version pr = pp_version pp -> make b pp pr = inl (pp_entries pp)) /\
  (pr_version pr <> pp_version pp -> make b pp pr = inr EProposalExpired).
Proof.
  unfold make. split; intros H.
  - rewrite (proj2 (Z.eqb_eq _ _) H). reflexivity.
  - rewrite (proj2 (Z.eqb_neq _ _) H). reflexivity.
Qed.

(** ---- what a promise says about its trip: never touched by stacking ---- *)
Definition core (p : promise) : Z * Z * K * K := (p_ts p, p_te p, p_dist p, p_trav p).

Lemma core_set_clear p c : core (set_clear p c) = core p.  Proof. reflexivity. Qed.
Lemma core_set_stack p s : core (set_stack p s) = core p.  Proof. reflexivity. Qed.
Lemma core_set_carried p c : core (set_carried p c) = core p.  Proof. reflexivity. Qed.

Lemma setp_length (b : book) i p : length (setp b i p) = length b.
Proof. revert i; induction b as [|x r IH]; intros [|i]; cbn; auto. Qed.

Lemma getp_setp_same (b : book) i p : (i < length b)%nat -> getp (setp b i p) i = p.
Proof.
  unfold getp. revert i; induction b as [|x r IH]; intros [|i] H; cbn in *; try lia; auto. apply IH. lia.
Qed.

Lemma getp_setp_other (b : book) i j p : i <> j -> getp (setp b i p) j = getp b j.
Proof.
  unfold getp. revert i j; induction b as [|x r IH]; intros [|i] [|j] H; cbn; auto; try lia.
Qed.

Lemma map_core_setp (b : book) i p : core p = core (getp b i) -> map core (setp b i p) = map core b.
Proof.
  unfold getp. revert i; induction b as [|x r IH]; intros [|i] H; cbn in *; auto; f_equal; auto.
Qed.

(** ---- the book invariant ---- *)
Definition tmax : Z := 2 ^ 62.
Definition wfp (p : promise) : Prop :=
  0 <= p_ts p < tmax /\ (p_ts p <> 0 -> p_ts p < p_te p < tmax).

(** length of the run of brought-forward promises starting at index i and going to older ones *)
Fixpoint chain_from (l : list promise) : Z :=
  match l with [] => 0 | p :: r => if p_bf p then 1 + chain_from r else 0 end.
Definition chain (b : book) (i : nat) : Z := chain_from (skipn i b).

Record Inv (mx : Z) (b : book) : Prop := mkInv {
  inv_len : length b = MaxPromises;
  inv_wf : forall i, (i < MaxPromises)%nat -> wfp (getp b i);
  (* older trips end before newer ones start: ordered by trip start, no overlap, no gaps *)
  inv_sep : forall i j, (i < j)%nat -> (j < MaxPromises)%nat -> p_ts (getp b j) <> 0 ->
            p_te (getp b j) < p_ts (getp b i);
  (* each promise's clearance date is no later than the start of the next promised trip *)
  inv_adj : forall i, (S i < MaxPromises)%nat -> p_ts (getp b (S i)) <> 0 ->
            p_clear (getp b (S i)) <= p_ts (getp b i);
  inv_stack : forall i, (i < MaxPromises)%nat -> 0 <= p_stack (getp b i) <= mx
}.

Lemma getp_empty_book i : getp (N:=N) empty_book i = empty_promise.
Proof.
  unfold getp, empty_book. destruct (Nat.lt_ge_cases i MaxPromises) as [H|H].
  - apply nth_repeat.
  - apply nth_overflow. rewrite repeat_length. exact H.
Qed.

Lemma Inv_empty mx : 0 <= mx -> Inv mx empty_book.
Proof.
  intros Hmx. constructor; intros.
  - apply repeat_length.
  - rewrite getp_empty_book. unfold wfp, tmax. cbn. split; [lia|intros C; contradiction].
  - rewrite getp_empty_book in *. cbn in *. contradiction.
  - rewrite getp_empty_book in *. cbn in *. contradiction.
  - rewrite getp_empty_book. cbn. lia.
Qed.

(** days: bringing a clearance forward to the start of the day of a time never moves it after that time *)
Lemma day_start_le t : 0 <= t < tmax -> 0 <= days_to_time (to_epoch_days t false) <= t.
Proof.
  intros H. unfold days_to_time, to_epoch_days, two64, SecondsInDay, tmax in *.
  assert (H1 : 0 <= t / 86400 <= t) by (split; [apply Z.div_pos; lia|apply Z.div_le_upper_bound; lia]).
  rewrite (Z.mod_small (t / 86400)) by lia.
  assert (H2 : t / 86400 * 86400 <= t) by (pose proof (Z.mul_div_le t 86400 ltac:(lia)); lia).
  rewrite Z.mod_small by lia. lia.
Qed.

(** ---- updateStackEntry ---- *)
Lemma use_spec (b b' : book) i (pr : predictor) mx :
  length b = MaxPromises -> update_stack_entry b i pr mx = inl b' ->
  (1 <= i <= 9)%nat /\ length b' = MaxPromises /\
  (forall j, j <> i -> j <> (i - 1)%nat -> getp b' j = getp b j) /\
  core (getp b' i) = core (getp b i) /\ core (getp b' (i - 1)) = core (getp b (i - 1)) /\
  p_clear (getp b' i) = days_to_time (to_epoch_days (p_ts (getp b (i - 1))) false) /\
  p_bf (getp b' i) = true /\ p_bf (getp b' (i - 1)) = false /\
  p_stack (getp b' (i - 1)) = p_stack (getp b (i - 1)) /\
  ((i < 9)%nat -> p_stack (getp b (i + 1)) < mx /\ p_stack (getp b' i) = p_stack (getp b (i + 1)) + 1) /\
  (i = 9%nat -> p_stack (getp b' i) = 1).
Proof.
  intros Hl. unfold update_stack_entry.
  destruct (Nat.eqb_spec i 0) as [->|Hi0]; [discriminate|]. cbn [orb].
  destruct (Nat.ltb_spec (MaxPromises - 1) i) as [Hbig|Hi9]; [discriminate|].
  unfold MaxPromises in *. 
  set (cd := to_epoch_days (p_ts (getp b (i - 1))) false).
  set (b1 := setp b i (set_clear_bf (getp b i) (days_to_time cd))).
  assert (Hl1 : length b1 = 10%nat) by (unfold b1; rewrite setp_length; exact Hl).
  assert (G1i : getp b1 i = set_clear_bf (getp b i) (days_to_time cd)) by (apply getp_setp_same; lia).
  assert (G1o : forall j, j <> i -> getp b1 j = getp b j) by (intros j Hj; apply getp_setp_other; lia).
  destruct (Nat.ltb_spec i (10 - 1)) as [Hlt|Hge].
  - rewrite (G1o (i + 1)%nat) by lia.
    destruct (Z.leb_spec mx (p_stack (getp b (i + 1)))) as [Hmx|Hmx]; [discriminate|].
    set (b2 := setp b1 i (set_stack (getp b1 i) (p_stack (getp b (i + 1)) + 1))).
    assert (Hl2 : length b2 = 10%nat) by (unfold b2; rewrite setp_length; exact Hl1).
    assert (G2i : getp b2 i = set_stack (getp b1 i) (p_stack (getp b (i + 1)) + 1)) by (apply getp_setp_same; lia).
    assert (G2o : forall j, j <> i -> getp b2 j = getp b1 j) by (intros j Hj; apply getp_setp_other; lia).
    set (distdone := match pr_backfilled pr _ _ with Some d => d | None => k0 N end).
    set (b3 := setp b2 (i - 1) (set_carried (getp b2 (i - 1)) (ksub N (tobackfill (getp b2 i)) distdone))).
    assert (Hl3 : length b3 = 10%nat) by (unfold b3; rewrite setp_length; exact Hl2).
    assert (G3n : getp b3 (i - 1) = set_carried (getp b2 (i - 1)) (ksub N (tobackfill (getp b2 i)) distdone)) by (apply getp_setp_same; lia).
    assert (G3o : forall j, j <> (i - 1)%nat -> getp b3 j = getp b2 j) by (intros j Hj; apply getp_setp_other; lia).
    set (clr := match pr_predict pr _ _ with Some c => c | None => _ end).
    intros E. injection E as <-.
    set (b4 := setp b3 (i - 1) (set_clear (getp b3 (i - 1)) (days_to_time clr))).
    assert (G4n : getp b4 (i - 1) = set_clear (getp b3 (i - 1)) (days_to_time clr)) by (apply getp_setp_same; lia).
    assert (G4o : forall j, j <> (i - 1)%nat -> getp b4 j = getp b3 j) by (intros j Hj; apply getp_setp_other; lia).
    split; [lia|]. split; [unfold b4; rewrite setp_length; exact Hl3|].
    split; [intros j Hj1 Hj2; rewrite G4o, G3o, G2o, G1o by lia; reflexivity|].
    rewrite (G4o i), (G3o i), G2i, G1i by lia. rewrite G4n, G3n, (G2o (i-1)%nat), (G1o (i-1)%nat) by lia.
    repeat split; try reflexivity; try lia; try (intros; lia).
  - assert (Hi : i = 9%nat) by lia.
    set (b2 := setp b1 i (set_stack (getp b1 i) (0 + 1))).
    assert (Hl2 : length b2 = 10%nat) by (unfold b2; rewrite setp_length; exact Hl1).
    assert (G2i : getp b2 i = set_stack (getp b1 i) (0 + 1)) by (apply getp_setp_same; lia).
    assert (G2o : forall j, j <> i -> getp b2 j = getp b1 j) by (intros j Hj; apply getp_setp_other; lia).
    set (distdone := match pr_backfilled pr _ _ with Some d => d | None => k0 N end).
    set (b3 := setp b2 (i - 1) (set_carried (getp b2 (i - 1)) (ksub N (tobackfill (getp b2 i)) distdone))).
    assert (Hl3 : length b3 = 10%nat) by (unfold b3; rewrite setp_length; exact Hl2).
    assert (G3n : getp b3 (i - 1) = set_carried (getp b2 (i - 1)) (ksub N (tobackfill (getp b2 i)) distdone)) by (apply getp_setp_same; lia).
    assert (G3o : forall j, j <> (i - 1)%nat -> getp b3 j = getp b2 j) by (intros j Hj; apply getp_setp_other; lia).
    set (clr := match pr_predict pr _ _ with Some c => c | None => _ end).
    intros E. injection E as <-.
    set (b4 := setp b3 (i - 1) (set_clear (getp b3 (i - 1)) (days_to_time clr))).
    assert (G4n : getp b4 (i - 1) = set_clear (getp b3 (i - 1)) (days_to_time clr)) by (apply getp_setp_same; lia).
    assert (G4o : forall j, j <> (i - 1)%nat -> getp b4 j = getp b3 j) by (intros j Hj; apply getp_setp_other; lia).
    split; [lia|]. split; [unfold b4; rewrite setp_length; exact Hl3|].
    split; [intros j Hj1 Hj2; rewrite G4o, G3o, G2o, G1o by lia; reflexivity|].
    rewrite (G4o i), (G3o i), G2i, G1i by lia. rewrite G4n, G3n, (G2o (i-1)%nat), (G1o (i-1)%nat) by lia.
    repeat split; try reflexivity; try lia; try (intros; lia).
Qed.

Lemma core_ts (p q : promise) : core p = core q -> p_ts p = p_ts q /\ p_te p = p_te q.
Proof. unfold core. intros E. injection E as E1 E2 _ _. auto. Qed.

(** the invariant with some pairs (m, m-1), m in [ex], possibly not yet settled *)
Record Pre (mx : Z) (ex : nat -> Prop) (b : book) : Prop := mkPre {
  pre_len : length b = MaxPromises;
  pre_wf : forall i, (i < MaxPromises)%nat -> wfp (getp b i);
  pre_sep : forall i k, (i < k)%nat -> (k < MaxPromises)%nat -> p_ts (getp b k) <> 0 -> p_te (getp b k) < p_ts (getp b i);
  pre_adj : forall i, (S i < MaxPromises)%nat -> ~ ex (S i) -> p_ts (getp b (S i)) <> 0 ->
            p_clear (getp b (S i)) <= p_ts (getp b i);
  pre_stack : forall i, (i < MaxPromises)%nat -> 0 <= p_stack (getp b i) <= mx
}.

Lemma Pre_weaken mx (ex ex' : nat -> Prop) b : (forall m, ex m -> ex' m) -> Pre mx ex b -> Pre mx ex' b.
Proof. intros H [A B C D E]. constructor; auto. Qed.

Lemma Pre_step mx (ex : nat -> Prop) (b b1 : book) j (pr : predictor) : 1 <= mx -> Pre mx ex b ->
  update_stack_entry b j pr mx = inl b1 ->
  Pre mx (fun m => m = (j - 1)%nat \/ (ex m /\ m <> j)) b1 /\ map core b1 = map core b /\ (1 <= j)%nat.
Proof.
  intros Hmx [Hl Hwf Hsep Hadj Hst] Eu.
  destruct (use_spec b b1 j pr mx Hl Eu) as (Hj & Hl1 & Hoth & Cj & Cn & Hclr & _ & _ & Sn & Slt & S9).
  assert (Hcore : forall m, core (getp b1 m) = core (getp b m)).
  { intros m. destruct (Nat.eq_dec m j) as [->|H1]; [exact Cj|].
    destruct (Nat.eq_dec m (j - 1)) as [->|H2]; [exact Cn|]. rewrite Hoth by assumption. reflexivity. }
  assert (Hts : forall m, p_ts (getp b1 m) = p_ts (getp b m) /\ p_te (getp b1 m) = p_te (getp b m)).
  { intros m. apply core_ts, Hcore. }
  split; [|split; [|lia]].
  - constructor.
    + exact Hl1.
    + intros i Hi. destruct (Hts i) as [E1 E2]. unfold wfp. rewrite E1, E2. apply Hwf, Hi.
    + intros i k Hik Hk Hne. destruct (Hts i) as [E1 _]. destruct (Hts k) as [E3 E4]. rewrite E1, E4. rewrite E3 in Hne. apply Hsep; assumption.
    + intros i Hi Hnj Hne. destruct (Hts i) as [E1 _]. destruct (Hts (S i)) as [E3 _]. rewrite E1. rewrite E3 in Hne.
      destruct (Nat.eq_dec (S i) j) as [Ej|Hnej].
      * subst j. replace (S i - 1)%nat with i in * by lia. rewrite Hclr.
        destruct (Hwf i ltac:(unfold MaxPromises in *; lia)) as [Hr _]. apply (day_start_le _ Hr).
      * rewrite Hoth; [|exact Hnej|intros C; apply Hnj; left; exact C]. apply Hadj; [assumption| |assumption].
        intros C. apply Hnj. right. split; assumption.
    + intros i Hi. destruct (Nat.eq_dec i j) as [->|H1].
      * destruct (Nat.lt_ge_cases j 9) as [H9|H9].
        -- destruct (Slt H9) as [A B]. rewrite B. specialize (Hst (j + 1)%nat ltac:(unfold MaxPromises; lia)). lia.
        -- rewrite (S9 ltac:(lia)). lia.
      * destruct (Nat.eq_dec i (j - 1)) as [->|H2]; [rewrite Sn; apply Hst, Hi|]. rewrite Hoth by assumption. apply Hst, Hi.
  - apply nth_ext with (d := core empty_promise) (d' := core empty_promise); [rewrite !map_length; congruence|].
    intros m Hm. rewrite !map_nth. apply Hcore.
Qed.

Lemma restack_loop_Inv mx (pr : predictor) : 1 <= mx -> forall fuel (b b' : book) j,
  (j < fuel)%nat -> (j < MaxPromises)%nat -> Pre mx (fun m => m = j) b ->
  restack_loop fuel b j pr mx = inl b' -> Inv mx b' /\ map core b' = map core b.
Proof.
  intros Hmx. induction fuel as [|f IH]; intros b b' j Hf Hj HP; [lia|]. cbn [restack_loop].
  destruct (Nat.ltb_spec 0 j) as [Hpos|Hz]; cbn [andb].
  - destruct (Z.leb_spec (p_ts (getp b (j - 1))) (p_clear (getp b j))) as [Hc|Hc].
    + destruct (update_stack_entry b j pr mx) as [b1|er] eqn:Eu; [|discriminate].
      destruct (Pre_step mx _ b b1 j pr Hmx HP Eu) as (HP1 & Hc1 & _). intros E.
      assert (HP1' : Pre mx (fun m => m = (j - 1)%nat) b1).
      { eapply Pre_weaken; [|exact HP1]. cbn. intros m [H|[H1 H2]]; [exact H|contradiction]. }
      destruct (IH b1 b' (j - 1)%nat ltac:(lia) ltac:(lia) HP1' E) as [HI Hc2]. split; [exact HI|congruence].
    + intros E. injection E as <-. split; [|reflexivity]. destruct HP as [Hl Hwf Hsep Hadj Hst]. constructor; auto.
      intros i Hi Hne. destruct (Nat.eq_dec (S i) j) as [<-|Hnj]; [|apply Hadj; assumption].
      replace (S i - 1)%nat with i in Hc by lia. lia.
  - intros E. injection E as <-. split; [|reflexivity]. destruct HP as [Hl Hwf Hsep Hadj Hst]. constructor; auto.
    intros i Hi Hne. apply Hadj; [assumption|lia|assumption].
Qed.

(** ---- insertion ---- *)
Definition insert_at (b : book) (i : nat) (p : promise) : book :=
  firstn i b ++ p :: firstn (MaxPromises - 1 - i) (skipn i b).

Lemma getp_insert_at (b : book) i p m : length b = MaxPromises -> (i < MaxPromises)%nat -> (m < MaxPromises)%nat ->
  getp (insert_at b i p) m = if (m <? i)%nat then getp b m else if (m =? i)%nat then p else getp b (m - 1).
Proof.
  intros Hl Hi Hm. unfold getp, insert_at, MaxPromises in *.
  assert (Hfi : length (firstn i b) = i) by (apply firstn_length_le; lia).
  destruct (Nat.ltb_spec m i) as [H1|H1].
  - rewrite app_nth1 by lia. apply nth_firstn_lt. exact H1.
  - rewrite app_nth2 by lia. rewrite Hfi. destruct (Nat.eqb_spec m i) as [->|H2]; [rewrite Nat.sub_diag; reflexivity|].
    destruct (m - i)%nat as [|d] eqn:Ed; [lia|]. cbn [nth].
    rewrite nth_firstn_lt by lia. rewrite nth_skipn_add. f_equal. lia.
Qed.

Lemma insert_at_length (b : book) i p : length b = MaxPromises -> (i < MaxPromises)%nat -> length (insert_at b i p) = MaxPromises.
Proof.
  intros Hl Hi. unfold insert_at, MaxPromises in *. rewrite app_length, firstn_length_le by lia. cbn [length].
  rewrite firstn_length_le by (rewrite skipn_length; lia). lia.
Qed.

Lemma core_getp_map (b b' : book) m : map core b' = map core b -> core (getp b' m) = core (getp b m).
Proof.
  intros E. unfold getp. rewrite <- !(map_nth core). rewrite E. reflexivity.
Qed.

(** previously made promises keep their trip dates and distances, the new promise [c] sits at its place
    in trip-start order (index i); only the oldest promise (slot 10), whose trip has already ended, may
    be dropped to make room *)
Definition inserted (b b' : book) (now : Z) (c : Z * Z * K * K) : Prop :=
  exists i, (i < MaxPromises)%nat /\ core (getp b' i) = c /\
    (forall m, (m < i)%nat -> core (getp b' m) = core (getp b m)) /\
    (forall m, (i <= m)%nat -> (S m < MaxPromises)%nat -> core (getp b' (S m)) = core (getp b m)) /\
    (p_ts (getp b (MaxPromises - 1)) <> 0 -> p_te (getp b (MaxPromises - 1)) < now /\ p_clear (getp b (MaxPromises - 1)) < now).

Theorem propose_spec mx (b : book) ts te d tr now (pr : predictor) pp :
  1 <= mx -> 0 <= now -> te < tmax -> Inv mx b ->
  propose b ts te d tr now pr mx = inl pp ->
  Inv mx (pp_entries pp) /\ inserted b (pp_entries pp) now (ts, te, d, tr) /\ pp_version pp = pr_version pr.
Proof.
  intros Hmx Hnow0 Htmax [Hl Hwf Hsep Hadj Hst]. unfold propose.
  destruct (Z.leb_spec te ts) as [|Hte]; [discriminate|].
  destruct (kleb N d (k0 N)); [discriminate|].
  destruct (Z.ltb_spec ts now) as [|Hnow]; [discriminate|].
  destruct (Z.eqb_spec ts 0) as [|Hts0]; [discriminate|].
  destruct (((now <=? p_te (getp b (MaxPromises - 1))) || (now <=? p_clear (getp b (MaxPromises - 1)))) && (0 <? p_ts (getp b (MaxPromises - 1)))) eqn:Hroom; [discriminate|].
  set (clr := match pr_predict pr d _ with Some c => c | None => _ end).
  set (p := {| p_ts := ts; p_te := te; p_dist := d; p_trav := tr; p_clear := days_to_time clr; p_stack := 0; p_carried := k0 N; p_bf := false |}).
  set (f := fun i0 : nat => p_ts (getp b i0) <=? ts).
  assert (Hmono : monotone MaxPromises f).
  { intros a c Hac Hc Ha. unfold f in *. apply Z.leb_le in Ha. apply Z.leb_le.
    destruct (Nat.eq_dec a c) as [->|Hne]; [exact Ha|].
    destruct (Z.eq_dec (p_ts (getp b c)) 0) as [E|E]; [lia|].
    pose proof (Hsep a c ltac:(lia) Hc E). destruct (Hwf c Hc) as [_ W]. specialize (W E). lia. }
  destruct (search_spec _ _ Hmono) as (_ & Slo & Shi).
  set (i := search MaxPromises f) in *.
  destruct (Nat.leb_spec MaxPromises i) as [|Hi]; [discriminate|].
  destruct (Z.leb_spec ts (p_te (getp b i))) as [|Hprev]; [discriminate|].
  destruct (Nat.ltb 0 i && (p_ts (getp b (i - 1)) <=? te)) eqn:Hnx; [discriminate|].
  fold (insert_at b i p).
  set (b0 := insert_at b i p).
  assert (Hlo : forall a, (a < i)%nat -> ts < p_ts (getp b a)).
  { intros a Ha. specialize (Slo a Ha). unfold f in Slo. apply Z.leb_gt in Slo. exact Slo. }
  assert (Hhi : forall c, (i <= c)%nat -> (c < MaxPromises)%nat -> p_ts (getp b c) <= ts).
  { intros c Hc1 Hc2. specialize (Shi c Hc1 Hc2). unfold f in Shi. apply Z.leb_le in Shi. exact Shi. }
  assert (Hnext : (0 < i)%nat -> te < p_ts (getp b (i - 1))).
  { intros Hpos. destruct (Nat.ltb_spec 0 i) as [_|C]; [|lia]. cbn [andb] in Hnx. apply Z.leb_gt in Hnx. exact Hnx. }
  assert (Hl0 : length b0 = MaxPromises) by (apply insert_at_length; assumption).
  assert (G : forall m, (m < MaxPromises)%nat ->
              getp b0 m = if (m <? i)%nat then getp b m else if (m =? i)%nat then p else getp b (m - 1)).
  { intros m Hm. apply getp_insert_at; assumption. }
  assert (Hwp : wfp p). { unfold wfp, p, tmax in *. cbn. split; [lia|intros _; lia]. }
  assert (Hnewer_te : forall a, (a < i)%nat -> te < p_ts (getp b a)).
  { intros a Ha. destruct (Nat.eq_dec a (i - 1)) as [->|Hne]; [apply Hnext; lia|].
    assert (Hne1 : p_ts (getp b (i - 1)) <> 0) by (pose proof (Hlo (i - 1)%nat ltac:(lia)); lia).
    pose proof (Hsep a (i - 1)%nat ltac:(lia) ltac:(lia) Hne1).
    destruct (Hwf (i - 1)%nat ltac:(lia)) as [_ W]. specialize (W Hne1). pose proof (Hnext ltac:(lia)). lia. }
  assert (Holder_te : forall c, (i <= c)%nat -> (c < MaxPromises)%nat -> p_ts (getp b c) <> 0 -> p_te (getp b c) < ts).
  { intros c Hc1 Hc2 Hne. destruct (Nat.eq_dec c i) as [->|Hnei]; [exact Hprev|].
    pose proof (Hsep i c ltac:(lia) Hc2 Hne). pose proof (Hhi i ltac:(lia) Hi). lia. }
  (* the inserted book satisfies everything except the two pairs around the new promise *)
  assert (HP0 : Pre mx (fun m => m = i \/ m = (i + 1)%nat) b0).
  { constructor.
    - exact Hl0.
    - intros m Hm. rewrite (G m Hm). destruct (m <? i)%nat; [apply Hwf, Hm|]. destruct (m =? i)%nat; [exact Hwp|].
      destruct m as [|m']; [apply Hwf, Hm|]. replace (S m' - 1)%nat with m' by lia. apply Hwf. lia.
    - intros a c Hac Hc. rewrite (G a ltac:(lia)), (G c Hc).
      destruct (Nat.ltb_spec a i) as [Ha|Ha]; destruct (Nat.ltb_spec c i) as [Hci|Hci]; try lia.
      + apply Hsep; assumption.
      + destruct (Nat.eqb_spec c i) as [->|Hcne]; [intros _; apply Hnewer_te; exact Ha|].
        intros Hne. apply Hsep; [lia|lia|exact Hne].
      + destruct (Nat.eqb_spec a i) as [->|Hane].
        * destruct (Nat.eqb_spec c i) as [->|Hcne]; [lia|]. intros Hne. cbn [p_ts p]. apply Holder_te; [lia|lia|exact Hne].
        * destruct (Nat.eqb_spec c i) as [->|Hcne]; [lia|]. intros Hne. apply Hsep; [lia|lia|exact Hne].
    - intros m Hm Hex. rewrite (G (S m) Hm), (G m ltac:(lia)).
      destruct (Nat.ltb_spec (S m) i) as [H1|H1].
      + destruct (Nat.ltb_spec m i) as [_|C]; [|lia]. apply Hadj, Hm.
      + destruct (Nat.eqb_spec (S m) i) as [E|_]; [exfalso; apply Hex; left; exact E|].
        destruct (Nat.ltb_spec m i) as [C|_]; [lia|].
        destruct (Nat.eqb_spec m i) as [E|Hmi]; [exfalso; apply Hex; right; lia|].
        replace (S m - 1)%nat with m by lia. destruct m as [|m']; [lia|].
        replace (S m' - 1)%nat with m' by lia. intros Hne. apply Hadj; [lia|exact Hne].
    - intros m Hm. rewrite (G m Hm). destruct (m <? i)%nat; [apply Hst, Hm|]. destruct (m =? i)%nat; [cbn; lia|].
      destruct m as [|m']; [apply Hst, Hm|]. replace (S m' - 1)%nat with m' by lia. apply Hst. lia. }
  unfold restack.
  (* first step: the pair (i+1, i) *)
  set (r1 := if Nat.ltb i (MaxPromises - 1) && (p_ts (getp b0 i) <=? p_clear (getp b0 (i + 1)))
             then update_stack_entry b0 (i + 1) pr mx else inl b0).
  assert (H1 : forall b1, r1 = inl b1 -> Pre mx (fun m => m = i) b1 /\ map core b1 = map core b0).
  { intros b1. unfold r1.
    destruct (Nat.ltb_spec i (MaxPromises - 1)) as [Hi9|Hi9]; cbn [andb].
    - destruct (Z.leb_spec (p_ts (getp b0 i)) (p_clear (getp b0 (i + 1)))) as [Hc|Hc].
      + intros Eu. destruct (Pre_step mx _ b0 b1 (i + 1)%nat pr Hmx HP0 Eu) as (HPa & Hca & _).
        split; [|exact Hca]. eapply Pre_weaken; [|exact HPa]. cbn. intros m [Hm|[[Hm|Hm] Hne]]; lia.
      + intros E. injection E as <-. split; [|reflexivity]. destruct HP0 as [A B C D E]. constructor; auto.
        intros m Hm Hex Hne. destruct (Nat.eq_dec (S m) (i + 1)) as [Em|Hnm]; [|apply D; [assumption|lia|assumption]].
        assert (m = i) by lia. subst m. replace (i + 1)%nat with (S i) in Hc by lia. lia.
    - intros E. injection E as <-. split; [|reflexivity]. destruct HP0 as [A B C D E]. constructor; auto.
      intros m Hm Hex Hne. apply D; [assumption| |assumption]. unfold MaxPromises in *. lia. }
  fold r1. destruct r1 as [b1|er] eqn:Er1; [|discriminate].
  destruct (H1 b1 eq_refl) as [HP1 Hc1].
  destruct (restack_loop (S MaxPromises) b1 i pr mx) as [b2|er] eqn:Eloop; [|discriminate].
  destruct (restack_loop_Inv mx pr Hmx (S MaxPromises) b1 b2 i ltac:(lia) Hi HP1 Eloop) as [HI Hc2].
  intros E. injection E as <-. cbn [pp_entries pp_version].
  assert (Hcore : forall m, core (getp b2 m) = core (getp b0 m)).
  { intros m. apply core_getp_map. congruence. }
  split; [exact HI|]. split; [|reflexivity].
  - exists i. split; [exact Hi|]. split; [rewrite Hcore, (G i Hi); rewrite Nat.ltb_irrefl, Nat.eqb_refl; reflexivity|]. split; [|split].
    + intros m Hm. rewrite Hcore, (G m ltac:(lia)). destruct (Nat.ltb_spec m i); [reflexivity|lia].
    + intros m Hm1 Hm2. rewrite Hcore, (G (S m) Hm2).
      destruct (Nat.ltb_spec (S m) i); [lia|]. destruct (Nat.eqb_spec (S m) i); [lia|].
      replace (S m - 1)%nat with m by lia. reflexivity.
    + intros Hne. apply andb_false_iff in Hroom. destruct Hroom as [H|H];
        [apply orb_false_iff in H; destruct H as [Hr1 Hr2]; apply Z.leb_gt in Hr1; apply Z.leb_gt in Hr2; split; assumption|].
      apply Z.ltb_ge in H. destruct (Hwf (MaxPromises - 1)%nat ltac:(unfold MaxPromises; lia)) as [[W _] _]. lia.
Qed.

(** ---- the refusal table of Promises.propose ---- *)
Definition refused {A} (r : A + perr) : Prop := exists e, r = inr e.

Lemma propose_refuses_bad_interval (b : book) ts te d tr now (pr : predictor) mx :
  te <= ts -> propose b ts te d tr now pr mx = inr EInvalidArgument.
Proof. intros H. unfold propose. destruct (Z.leb_spec te ts); [reflexivity|lia]. Qed.

Lemma propose_refuses_nonpositive_distance (b : book) ts te d tr now (pr : predictor) mx :
  kleb N d (k0 N) = true -> refused (propose b ts te d tr now pr mx).
Proof. intros H. unfold propose. destruct (te <=? ts); [eexists; reflexivity|]. rewrite H. eexists; reflexivity. Qed.

Lemma propose_refuses_past (b : book) ts te d tr now (pr : predictor) mx :
  ts < now -> refused (propose b ts te d tr now pr mx).
Proof.
  intros H. unfold propose. destruct (te <=? ts); [eexists; reflexivity|].
  destruct (kleb N d (k0 N)); [eexists; reflexivity|]. destruct (Z.ltb_spec ts now); [eexists; reflexivity|lia].
Qed.

Lemma propose_refuses_no_room (b : book) ts te d tr now (pr : predictor) mx :
  p_ts (getp b (MaxPromises - 1)) > 0 -> now <= p_te (getp b (MaxPromises - 1)) ->
  refused (propose b ts te d tr now pr mx).
Proof.
  intros H1 H2. unfold propose. destruct (te <=? ts); [eexists; reflexivity|].
  destruct (kleb N d (k0 N)); [eexists; reflexivity|]. destruct (ts <? now); [eexists; reflexivity|].
  destruct (ts =? 0); [eexists; reflexivity|].
  destruct (Z.leb_spec now (p_te (getp b (MaxPromises - 1)))); [|lia]. cbn [orb].
  destruct (Z.ltb_spec 0 (p_ts (getp b (MaxPromises - 1)))); [|lia]. eexists; reflexivity.
Qed.

(** a trip overlapping a promised trip is refused (any predictor) *)
Theorem propose_refuses_overlap mx (b : book) ts te d tr now (pr : predictor) j :
  1 <= mx -> 0 <= now -> te < tmax -> Inv mx b -> (j < MaxPromises)%nat ->
  p_ts (getp b j) <> 0 -> p_ts (getp b j) <= te -> ts <= p_te (getp b j) ->
  refused (propose b ts te d tr now pr mx).
Proof.
  intros Hmx Hnow Hte HI Hj Hne Ho1 Ho2.
  destruct (propose b ts te d tr now pr mx) as [pp|er] eqn:Ep; [|eexists; reflexivity]. exfalso.
  pose proof Ep as Ep'. unfold propose in Ep'.
  destruct (Z.leb_spec te ts) as [|Hts]; [discriminate|]. destruct (kleb N d (k0 N)); [discriminate|].
  destruct (Z.ltb_spec ts now) as [|Hn]; [discriminate|]. destruct (Z.eqb_spec ts 0) as [|Hts0]; [discriminate|]. clear Ep'.
  destruct (propose_spec mx b ts te d tr now pr pp Hmx Hnow Hte HI Ep) as ([Hl' Hwf' Hsep' _ _] & (i & Hi & Ci & Hlo & Hhi & Hdrop) & _).
  destruct (core_ts _ _ (eq_trans Ci (eq_refl : (ts, te, d, tr) = core {| p_ts := ts; p_te := te; p_dist := d; p_trav := tr; p_clear := 0; p_stack := 0; p_carried := k0 N; p_bf := false |}))) as [Ets Ete].
  cbn in Ets, Ete.
  destruct (Nat.lt_ge_cases j i) as [Hlt|Hge].
  - (* old promise j is newer than the new one: new trip must end before it starts *)
    destruct (core_ts _ _ (Hlo j Hlt)) as [E1 E2].
    assert (Hnew : p_ts (getp (pp_entries pp) i) <> 0) by lia.
    pose proof (Hsep' j i Hlt Hi Hnew). lia.
  - destruct (Nat.eq_dec j (MaxPromises - 1)) as [->|Hn9].
    + specialize (Hdrop Hne). lia.
    + destruct (core_ts _ _ (Hhi j Hge ltac:(unfold MaxPromises in *; lia))) as [E1 E2].
      assert (Hold : p_ts (getp (pp_entries pp) (S j)) <> 0) by lia.
      pose proof (Hsep' i (S j) ltac:(lia) ltac:(unfold MaxPromises in *; lia) Hold). lia.
Qed.

(** ---- chains of brought-forward promises (ghost flag) ---- *)
Definition ChainInv (b : book) : Prop :=
  forall i, (i < MaxPromises)%nat -> p_bf (getp b i) = true -> chain b i <= p_stack (getp b i).

Lemma skipn_getp (b : book) i : (i < length b)%nat -> skipn i b = getp b i :: skipn (S i) b.
Proof.
  unfold getp. revert i. induction b as [|x r IH]; intros [|i] H; cbn in *; try lia; auto. apply IH. lia.
Qed.

Lemma chain_unfold (b : book) i : (i < length b)%nat ->
  chain b i = if p_bf (getp b i) then 1 + chain b (S i) else 0.
Proof. intros H. unfold chain. rewrite (skipn_getp b i H). reflexivity. Qed.

Lemma chain_from_ge0 l : 0 <= chain_from l.
Proof. induction l as [|p r IH]; cbn [chain_from]; [lia|]. destruct (p_bf p); lia. Qed.
Lemma chain_ge0 (b : book) i : 0 <= chain b i.
Proof. apply chain_from_ge0. Qed.
Lemma chain_end (b : book) i : (length b <= i)%nat -> chain b i = 0.
Proof. intros H. unfold chain. rewrite skipn_all2 by exact H. reflexivity. Qed.

Lemma chain_same (b b1 : book) : length b1 = length b -> forall d m, (length b - m = d)%nat ->
  (forall k, (m <= k)%nat -> getp b1 k = getp b k) -> chain b1 m = chain b m.
Proof.
  intros Hl. induction d as [|d IH]; intros m Hd Hag.
  - rewrite !chain_end by lia. reflexivity.
  - rewrite (chain_unfold b m), (chain_unfold b1 m) by lia. rewrite Hag by lia.
    rewrite (IH (S m)); [reflexivity|lia|intros k Hk; apply Hag; lia].
Qed.

Lemma chain_trunc (b b1 : book) t : length b1 = length b -> (t < length b)%nat -> p_bf (getp b1 t) = false ->
  forall d m, (t - m = d)%nat -> (m <= t)%nat -> (forall k, (m <= k < t)%nat -> getp b1 k = getp b k) -> chain b1 m <= chain b m.
Proof.
  intros Hl Ht Hbf. induction d as [|d IH]; intros m Hd Hm Hag.
  - assert (m = t) by lia. subst m. rewrite (chain_unfold b1 t) by lia. rewrite Hbf. apply chain_ge0.
  - rewrite (chain_unfold b m), (chain_unfold b1 m) by lia. rewrite Hag by lia.
    destruct (p_bf (getp b m)); [|lia]. specialize (IH (S m) ltac:(lia) ltac:(lia) ltac:(intros k Hk; apply Hag; lia)). lia.
Qed.

Definition StackNonneg (b : book) : Prop := forall i, (i < MaxPromises)%nat -> 0 <= p_stack (getp b i).

Lemma ChainInv_step mx (b b1 : book) j (pr : predictor) :
  length b = MaxPromises -> StackNonneg b -> ChainInv b ->
  update_stack_entry b j pr mx = inl b1 -> ChainInv b1 /\ length b1 = MaxPromises /\ StackNonneg b1.
Proof.
  intros Hl Hst HC Eu.
  destruct (use_spec b b1 j pr mx Hl Eu) as (Hj & Hl1 & Hoth & _ & _ & _ & Bj & Bn & Sn & Slt & S9).
  assert (Hll : length b1 = length b) by congruence.
  assert (HMP : MaxPromises = 10%nat) by reflexivity.
  split; [|split; [exact Hl1|]].
  - intros m Hm Hbf.
    destruct (Nat.eq_dec m j) as [->|Hmj].
    + rewrite (chain_unfold b1 j) by lia. rewrite Bj.
      assert (Hrest : chain b1 (S j) = chain b (S j)).
      { apply (chain_same b b1 Hll (length b - S j)%nat); [reflexivity|]. intros k Hk. apply Hoth; lia. }
      rewrite Hrest. destruct (Nat.lt_ge_cases j 9) as [H9|H9].
      * destruct (Slt H9) as [_ ->]. replace (j + 1)%nat with (S j) by lia.
        destruct (p_bf (getp b (S j))) eqn:Eb.
        -- specialize (HC (S j) ltac:(lia) Eb). lia.
        -- rewrite (chain_unfold b (S j)) by lia. rewrite Eb. specialize (Hst (S j) ltac:(lia)). lia.
      * rewrite (S9 ltac:(lia)). rewrite chain_end by lia. lia.
    + destruct (Nat.eq_dec m (j - 1)) as [->|Hmn]; [congruence|].
      rewrite Hoth in Hbf by assumption. rewrite (Hoth m) by assumption.
      destruct (Nat.lt_ge_cases j m) as [Hgt|Hlt].
      * rewrite (chain_same b b1 Hll (length b - m)%nat m eq_refl); [apply HC; [lia|exact Hbf]|]. intros k Hk. apply Hoth; lia.
      * eapply Z.le_trans; [|apply HC; [lia|exact Hbf]].
        apply (chain_trunc b b1 (j - 1)%nat Hll ltac:(lia) Bn (j - 1 - m)%nat m eq_refl ltac:(lia)).
        intros k Hk. apply Hoth; lia.
  - intros m Hm. destruct (Nat.eq_dec m j) as [->|Hmj].
    + destruct (Nat.lt_ge_cases j 9) as [H9|H9].
      * destruct (Slt H9) as [_ ->]. specialize (Hst (j + 1)%nat ltac:(lia)). lia.
      * rewrite (S9 ltac:(lia)). lia.
    + destruct (Nat.eq_dec m (j - 1)) as [->|Hmn]; [rewrite Sn; apply Hst; lia|]. rewrite Hoth by assumption. apply Hst, Hm.
Qed.

Lemma restack_loop_chain mx (pr : predictor) : forall fuel (b b' : book) j,
  length b = MaxPromises -> StackNonneg b -> ChainInv b -> restack_loop fuel b j pr mx = inl b' -> ChainInv b'.
Proof.
  induction fuel as [|f IH]; intros b b' j Hl Hst HC; cbn [restack_loop]; [intros E; injection E as <-; exact HC|].
  destruct (Nat.ltb 0 j && (p_ts (getp b (j - 1)) <=? p_clear (getp b j))); [|intros E; injection E as <-; exact HC].
  destruct (update_stack_entry b j pr mx) as [b1|er] eqn:Eu; [|discriminate].
  destruct (ChainInv_step mx b b1 j pr Hl Hst HC Eu) as (HC1 & Hl1 & Hst1).
  intros E. exact (IH b1 b' (j - 1)%nat Hl1 Hst1 HC1 E).
Qed.

Lemma ChainInv_insert (b : book) i p : length b = MaxPromises -> (i < MaxPromises)%nat -> p_bf p = false ->
  ChainInv b -> ChainInv (insert_at b i p).
Proof.
  intros Hl Hi Hp HC. set (b0 := insert_at b i p).
  assert (Hl0 : length b0 = MaxPromises) by (apply insert_at_length; assumption).
  assert (G : forall m, (m < MaxPromises)%nat ->
              getp b0 m = if (m <? i)%nat then getp b m else if (m =? i)%nat then p else getp b (m - 1)).
  { intros m Hm. apply getp_insert_at; assumption. }
  assert (Gi : getp b0 i = p) by (rewrite (G i Hi), Nat.ltb_irrefl, Nat.eqb_refl; reflexivity).
  (* beyond the new promise every entry is the old one shifted by one *)
  assert (Hshift : forall d m, (MaxPromises - m = d)%nat -> (i < m)%nat -> chain b0 m <= chain b (m - 1)).
  { induction d as [|d IH]; intros m Hd Hm.
    - rewrite chain_end by lia. apply chain_ge0.
    - rewrite (chain_unfold b0 m) by lia. rewrite (chain_unfold b (m - 1)) by (unfold MaxPromises in *; lia).
      rewrite (G m ltac:(lia)). destruct (Nat.ltb_spec m i); [lia|]. destruct (Nat.eqb_spec m i); [lia|].
      destruct (p_bf (getp b (m - 1))); [|lia]. specialize (IH (S m) ltac:(lia) ltac:(lia)).
      replace (S m - 1)%nat with (S (m - 1)) in IH by lia. lia. }
  intros m Hm Hbf. rewrite (G m Hm) in *.
  destruct (Nat.ltb_spec m i) as [Hlt|Hge].
  - eapply Z.le_trans; [|apply HC; [exact Hm|exact Hbf]].
    apply (chain_trunc b b0 i ltac:(congruence) ltac:(lia) ltac:(rewrite Gi; exact Hp) (i - m)%nat m eq_refl ltac:(lia)).
    intros k Hk. rewrite (G k ltac:(lia)). destruct (Nat.ltb_spec k i); [reflexivity|lia].
  - destruct (Nat.eqb_spec m i) as [->|Hne]; [congruence|].
    eapply Z.le_trans; [apply (Hshift (MaxPromises - m)%nat m eq_refl ltac:(lia))|]. apply HC; [lia|exact Hbf].
Qed.

Lemma ChainInv_empty : ChainInv (empty_book : book).
Proof. intros i Hi Hbf. rewrite getp_empty_book in Hbf. discriminate. Qed.

(** the chain bound is kept by every accepted proposal *)
Theorem propose_chain mx (b : book) ts te d tr now (pr : predictor) pp :
  Inv mx b -> ChainInv b -> propose b ts te d tr now pr mx = inl pp -> ChainInv (pp_entries pp).
Proof.
  intros HI HC. pose proof HI as [Hl Hwf Hsep Hadj Hst]. unfold propose.
  destruct (te <=? ts); [discriminate|]. destruct (kleb N d (k0 N)); [discriminate|].
  destruct (ts <? now); [discriminate|]. destruct (ts =? 0); [discriminate|].
  destruct (_ && _); [discriminate|].
  set (clr := match pr_predict pr d _ with Some c => c | None => _ end).
  set (p := {| p_ts := ts; p_te := te; p_dist := d; p_trav := tr; p_clear := days_to_time clr; p_stack := 0; p_carried := k0 N; p_bf := false |}).
  set (i := search MaxPromises _).
  destruct (Nat.leb_spec MaxPromises i) as [|Hi]; [discriminate|].
  destruct (ts <=? p_te (getp b i)); [discriminate|]. destruct (_ && _); [discriminate|].
  fold (insert_at b i p). set (b0 := insert_at b i p).
  assert (HC0 : ChainInv b0) by (apply ChainInv_insert; auto).
  assert (Hl0 : length b0 = MaxPromises) by (apply insert_at_length; assumption).
  assert (Hst0 : StackNonneg b0).
  { intros m Hm. unfold b0. rewrite getp_insert_at by assumption.
    destruct (m <? i)%nat; [apply Hst, Hm|]. destruct (m =? i)%nat; [cbn; lia|].
    destruct m as [|m']; [apply Hst, Hm|]. replace (S m' - 1)%nat with m' by lia. apply Hst. lia. }
  unfold restack.
  destruct (Nat.ltb i (MaxPromises - 1) && (p_ts (getp b0 i) <=? p_clear (getp b0 (i + 1)))).
  - destruct (update_stack_entry b0 (i + 1) pr mx) as [b1|er] eqn:Eu; [|discriminate].
    destruct (ChainInv_step mx b0 b1 (i + 1)%nat pr Hl0 Hst0 HC0 Eu) as (HC1 & Hl1 & Hst1).
    destruct (restack_loop (S MaxPromises) b1 i pr mx) as [b2|er] eqn:El; [|discriminate].
    intros E. injection E as <-. cbn [pp_entries]. eapply restack_loop_chain; eauto.
  - destruct (restack_loop (S MaxPromises) b0 i pr mx) as [b2|er] eqn:El; [|discriminate].
    intros E. injection E as <-. cbn [pp_entries]. eapply restack_loop_chain; eauto.
Qed.

(** a whole history of accepted proposals, each made against the book the previous one produced (any
    predictor at each step, any times): the book stays consistent and chains stay within the maximum *)
Inductive proposal_req := PReq (ts te : Z) (d tr : K) (now : Z) (pr : predictor).

Definition apply_req (mx : Z) (b : book) (r : proposal_req) : book :=
  match r with PReq ts te d tr now pr =>
    match propose b ts te d tr now pr mx with inl pp => pp_entries pp | inr _ => b end
  end.

Definition req_ok (r : proposal_req) : Prop := match r with PReq ts te d tr now pr => 0 <= now /\ te < tmax end.

Theorem reachable_books mx (rs : list proposal_req) : 1 <= mx -> Forall req_ok rs ->
  let b := fold_left (apply_req mx) rs empty_book in
  Inv mx b /\ ChainInv b /\
  (forall i, (i < MaxPromises)%nat -> p_bf (getp b i) = true -> chain b i <= mx).
Proof.
  intros Hmx Hok.
  assert (G : forall b, Inv mx b /\ ChainInv b -> Inv mx (fold_left (apply_req mx) rs b) /\ ChainInv (fold_left (apply_req mx) rs b)).
  { induction Hok as [|r t Hr Ht IH]; intros b Hb; cbn [fold_left]; [exact Hb|]. apply IH.
    destruct r as [ts te d tr now pr]. destruct Hr as [Hn Hte]. destruct Hb as [HI HC]. cbn [apply_req].
    destruct (propose b ts te d tr now pr mx) as [pp|er] eqn:Ep; [|split; assumption].
    split; [apply (propose_spec mx b ts te d tr now pr pp Hmx Hn Hte HI Ep)|eapply propose_chain; eauto]. }
  destruct (G empty_book) as [HI HC]; [split; [apply Inv_empty; lia|apply ChainInv_empty]|].
  cbn zeta. split; [exact HI|]. split; [exact HC|].
  intros i Hi Hbf. specialize (HC i Hi Hbf). destruct HI as [_ _ _ _ Hst]. specialize (Hst i Hi). lia.
Qed.

End WithNum.
