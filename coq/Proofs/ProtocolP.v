(** C20: the traveller-bot protocol of pkg/model.  The steps of the argument "a traveller who holds
    a made promise is not refused at the check-ins of that trip": the kept promise of the previous
    trip stays in the book until its clearance date has passed (room rule), while it is there its
    refreshed clearance is no later than the next promised trip's start (book invariant), once it
    has left the stored clearance stands and has passed; the return leg is checked in mid-trip.
    And the trial period: without debits nobody is ever grounded or credited. *)
From Coq Require Import ZArith List Bool Arith Lia.
From Flap Require Import Model.Num Model.Search Model.TripHistory Model.Promises Model.Predictor Model.Engine
  Proofs.SearchP Proofs.PromisesP Proofs.ClearedP Proofs.KeepP.
Import ListNotations.
Open Scope Z_scope.

Section WithNum.
Context {N : NumOps}.
Local Notation K := (K N).
Local Notation flight := (flight N).
Local Notation traveller := (traveller N).
Local Notation book := (book N).
Local Notation promise := (promise N).

(** [match] finds the entry of a consistent book that has the same trip times and distance
    (distances compare equal to themselves: not NaN) *)
Lemma match_promise_finds mx (b : book) i (k : promise) :
  Inv mx b -> (i < MaxPromises)%nat -> p_ts (getp b i) <> 0 ->
  p_ts k = p_ts (getp b i) -> p_te k = p_te (getp b i) ->
  keqb N (p_dist (getp b i)) (p_dist k) = true ->
  match_promise b k = Some (p_clear (getp b i)).
Proof.
  intros [Hl Hwf Hsep Hadj Hst] Hi Hne Ets Ete Hd. unfold match_promise. rewrite Ets.
  set (f := fun i0 : nat => p_ts (getp b i0) <=? p_ts (getp b i)).
  assert (Hmono : monotone MaxPromises f).
  { intros a c Hac Hc Ha. unfold f in *. apply Z.leb_le in Ha. apply Z.leb_le.
    destruct (Nat.eq_dec a c) as [->|Hn]; [exact Ha|].
    destruct (Z.eq_dec (p_ts (getp b c)) 0) as [E|E].
    - destruct (Hwf i Hi) as [[W _] _]. lia.
    - pose proof (Hsep a c ltac:(lia) Hc E). destruct (Hwf c Hc) as [_ W]. specialize (W E). lia. }
  destruct (search_spec _ _ Hmono) as (Sle & Slo & Shi).
  set (s := search MaxPromises f) in *.
  assert (Es : s = i).
  { destruct (Nat.lt_trichotomy s i) as [Hlt|[E|Hgt]]; [|exact E|].
    - exfalso. assert (Hs : (s < MaxPromises)%nat) by lia. specialize (Shi s (le_n _) Hs). unfold f in Shi. apply Z.leb_le in Shi.
      pose proof (Hsep s i Hlt Hi Hne). destruct (Hwf i Hi) as [_ W]. specialize (W Hne). lia.
    - exfalso. specialize (Slo i Hgt). unfold f in Slo. apply Z.leb_gt in Slo. lia. }
  rewrite Es. destruct (Nat.ltb_spec i MaxPromises); [|lia]. rewrite Z.eqb_refl, Ete, Z.eqb_refl, Hd. reflexivity.
Qed.

(** the next promised trip's check-ins: while the entry of the kept promise (index j+1: same trip times
    and distance; its clearance and stacking fields may have been rewritten by later proposals) is in
    the book, the traveller is cleared from the start of the next promised trip (entry j) on, whatever
    the balance *)
Theorem next_promised_trip_not_grounded mx (t : traveller) j now :
  Inv mx (t_book t) -> (S j < MaxPromises)%nat ->
  p_ts (t_kept t) = p_ts (getp (t_book t) (S j)) -> p_te (t_kept t) = p_te (getp (t_book t) (S j)) ->
  keqb N (p_dist (getp (t_book t) (S j))) (p_dist (t_kept t)) = true ->
  p_ts (t_kept t) <> 0 -> p_clear (t_kept t) <> 0 -> 0 < p_clear (getp (t_book t) (S j)) ->
  p_ts (getp (t_book t) j) <= now ->
  ~ grounded t now.
Proof.
  intros HI Hj Ets Ete Hd Hne Hc0 Hc Hnow (_ & _ & Hg).
  assert (Er : refreshed_clearance t = p_clear (getp (t_book t) (S j))).
  { unfold refreshed_clearance. destruct (Z.eqb_spec (p_clear (t_kept t)) 0) as [E|_]; [contradiction|].
    rewrite (match_promise_finds mx (t_book t) (S j) (t_kept t) HI Hj); [reflexivity|rewrite <- Ets; exact Hne|exact Ets|exact Ete|exact Hd]. }
  pose proof (inv_adj _ _ HI j Hj ltac:(rewrite <- Ets; exact Hne)) as Hadj.
  rewrite Er in Hg.
  destruct (Z.ltb_spec 0 (p_clear (getp (t_book t) (S j)))); [|lia].
  destruct (Z.leb_spec (p_clear (getp (t_book t) (S j))) now); [discriminate|lia].
Qed.

(** in a consistent book every promise's clearance is no later than the start of EVERY later promised trip *)
Lemma clearance_before_all_later_trips mx (b : book) k i :
  Inv mx b -> (k < MaxPromises)%nat -> p_ts (getp b k) <> 0 -> (i < k)%nat ->
  p_clear (getp b k) <= p_ts (getp b i).
Proof.
  intros [Hl Hwf Hsep Hadj Hst] Hk Hne Hi.
  destruct k as [|k']; [lia|].
  pose proof (Hadj k' Hk Hne) as H1.
  destruct (Nat.eq_dec i k') as [->|Hn]; [exact H1|].
  (* entry k' is not empty (an older one is not), and trips are ordered *)
  assert (Hk'ne : p_ts (getp b k') <> 0).
  { pose proof (Hsep k' (S k') ltac:(lia) Hk Hne) as Hs. destruct (Hwf (S k') Hk) as [[W _] _].
    destruct (Hwf (S k') Hk) as [_ W2]. specialize (W2 Hne). lia. }
  pose proof (Hsep i k' ltac:(lia) ltac:(lia) Hk'ne) as H2.
  destruct (Hwf k' ltac:(lia)) as [_ W]. specialize (W Hk'ne). lia.
Qed.

(** ... so while the kept promise's entry is in the book the traveller is cleared from the start of ANY
    later promised trip on *)
Theorem later_promised_trip_not_grounded mx (t : traveller) k i now :
  Inv mx (t_book t) -> (k < MaxPromises)%nat -> (i < k)%nat ->
  p_ts (t_kept t) = p_ts (getp (t_book t) k) -> p_te (t_kept t) = p_te (getp (t_book t) k) ->
  keqb N (p_dist (getp (t_book t) k)) (p_dist (t_kept t)) = true ->
  p_ts (t_kept t) <> 0 -> p_clear (t_kept t) <> 0 -> 0 < p_clear (getp (t_book t) k) ->
  p_ts (getp (t_book t) i) <= now ->
  ~ grounded t now.
Proof.
  intros HI Hk Hi Ets Ete Hd Hne Hc0 Hc Hnow (_ & _ & Hg).
  assert (Er : refreshed_clearance t = p_clear (getp (t_book t) k)).
  { unfold refreshed_clearance. destruct (Z.eqb_spec (p_clear (t_kept t)) 0) as [E|_]; [contradiction|].
    rewrite (match_promise_finds mx (t_book t) k (t_kept t) HI Hk); [reflexivity|rewrite <- Ets; exact Hne|exact Ets|exact Ete|exact Hd]. }
  pose proof (clearance_before_all_later_trips mx (t_book t) k i HI Hk ltac:(rewrite <- Ets; exact Hne) Hi) as Hadj.
  rewrite Er in Hg.
  destruct (Z.ltb_spec 0 (p_clear (getp (t_book t) k))); [|lia].
  destruct (Z.leb_spec (p_clear (getp (t_book t) k)) now); [discriminate|lia].
Qed.

(** a pending kept promise (clearance date not yet passed) is never dropped from the book by a new proposal *)
Theorem pending_promise_not_dropped mx (b : book) ts te d tr now (pr : predictor N) pp j :
  1 <= mx -> 0 <= now -> te < tmax -> Inv mx b -> propose b ts te d tr now pr mx = inl pp ->
  (j < MaxPromises)%nat -> p_ts (getp b j) <> 0 -> now <= p_clear (getp b j) ->
  exists j', (j' < MaxPromises)%nat /\ core (getp (pp_entries pp) j') = core (getp b j).
Proof.
  intros Hmx Hnow Hte HI Ep Hj Hne Hprog.
  destruct (propose_spec mx b ts te d tr now pr pp Hmx Hnow Hte HI Ep) as (_ & (i & Hi & _ & Hlo & Hhi & Hdrop) & _).
  destruct (Nat.lt_ge_cases j i) as [Hlt|Hge]; [exists j; split; [exact Hj|apply Hlo, Hlt]|].
  destruct (Nat.eq_dec j (MaxPromises - 1)) as [->|Hn9]; [specialize (Hdrop Hne); lia|].
  exists (S j). split; [unfold MaxPromises in *; lia|]. apply Hhi; [exact Hge|unfold MaxPromises in *; lia].
Qed.

(** a new proposal keeps a pending promise in the book, and in the new book its clearance is again no
    later than the start of every later promised trip - the newly promised one included *)
Theorem plan_keeps_pending_promise_cleared_in_time mx (b : book) ts te d tr now (pr : predictor N) pp k :
  1 <= mx -> 0 <= now -> te < tmax -> Inv mx b -> propose b ts te d tr now pr mx = inl pp ->
  (k < MaxPromises)%nat -> p_ts (getp b k) <> 0 -> now <= p_clear (getp b k) ->
  exists k', (k' < MaxPromises)%nat /\ core (getp (pp_entries pp) k') = core (getp b k) /\
    forall i, (i < k')%nat -> p_clear (getp (pp_entries pp) k') <= p_ts (getp (pp_entries pp) i).
Proof.
  intros Hmx Hnow Hte HI Ep Hk Hne Hpend.
  destruct (pending_promise_not_dropped mx b ts te d tr now pr pp k Hmx Hnow Hte HI Ep Hk Hne Hpend) as (k' & Hk' & Ec).
  exists k'. split; [exact Hk'|]. split; [exact Ec|].
  destruct (propose_spec mx b ts te d tr now pr pp Hmx Hnow Hte HI Ep) as (HI' & _ & _).
  intros i Hi. apply (clearance_before_all_later_trips mx (pp_entries pp) k' i HI' Hk'); [|exact Hi].
  unfold core in Ec. injection Ec as E1 _ _ _. rewrite E1. exact Hne.
Qed.

(** once the kept promise's entry has left the book its stored clearance stands; if that date has
    passed the traveller is cleared *)
Theorem departed_kept_promise_not_grounded (t : traveller) now :
  match_promise (t_book t) (t_kept t) = None -> 0 < p_clear (t_kept t) <= now -> ~ grounded t now.
Proof.
  intros Hm Hc (_ & _ & Hg).
  rewrite (kept_clearance_survives_leaving_the_book t ltac:(lia) Hm) in Hg.
  destruct (Z.ltb_spec 0 (p_clear (t_kept t))); [|lia].
  destruct (Z.leb_spec (p_clear (t_kept t)) now); [discriminate|lia].
Qed.

(** the return leg: a traveller who is mid-trip is never grounded *)
Theorem mid_trip_not_grounded (t : traveller) now : mid_trip (t_hist t) = true -> ~ grounded t now.
Proof. intros H (C & _). congruence. Qed.

(** in credit: never grounded *)
Theorem in_credit_not_grounded (t : traveller) now : kleb N (k0 N) (t_balance t) = true -> ~ grounded t now.
Proof. intros H (_ & C & _). congruence. Qed.

(** ---- the trial period: no debit ---- *)

(** a check-in that does not debit leaves the balance alone (whatever the options) *)
Lemma nondebit_submit_flight_balance (t : traveller) f now taxi t' bac pd :
  submit_flight t f now taxi false = inl (t', bac, pd) -> t_balance t' = t_balance t.
Proof.
  unfold submit_flight. destruct (cleared_kept_clear t now) as (_ & _ & Eb).
  destruct (cleared t now) as [cr t1]. cbn [snd] in Eb.
  destruct cr; try discriminate; destruct (add_flight (t_hist t1) f); try discriminate;
    intros E; injection E as <- _ _; cbn [set_kept set_hist t_balance]; exact Eb.
Qed.

End WithNum.
