(** Structural facts about the TripHistory model: Update rewrites markers only. *)
From Coq Require Import ZArith List Bool Arith Lia.
From Flap Require Import Model.Num Model.Search Model.TripHistory.
Import ListNotations.
Open Scope Z_scope.

Section WithNum.
Context {N : NumOps}.
Local Notation flight := (flight N).
Local Notation hist := (hist N).

(** a flight with its marker projected away *)
Definition erase (f : flight) : flight := set_et f Fl.

(** [R f f']: f' is f with possibly another marker, and a traveller's trip end is never touched *)
Definition R (f f' : flight) : Prop := erase f' = erase f /\ (et f = TTEnd -> et f' = TTEnd).

Lemma R_refl f : R f f.
Proof. split; auto. Qed.
Lemma R_trans a b c : R a b -> R b c -> R a c.
Proof. intros [E1 T1] [E2 T2]. split; [congruence|auto]. Qed.

Lemma erase_set_et f t : erase (set_et f t) = erase f.
Proof. reflexivity. Qed.

Lemma R_set_et f t : et f <> TTEnd -> R f (set_et f t).
Proof. intros H. split; [apply erase_set_et|intros E; contradiction]. Qed.

Lemma end_trip_R s f b : R f (snd (end_trip s f b)).
Proof.
  unfold end_trip. destruct (b && reopened s); cbn [snd]; [apply R_refl|].
  destruct (et f) eqn:E; try (apply R_set_et; congruence). apply R_refl.
Qed.

Lemma end_journey_R s f : R f (snd (end_journey s f)).
Proof.
  unfold end_journey. destruct (et f) eqn:E; cbn [snd]; try apply R_refl; apply R_set_et; congruence.
Qed.

Lemma update_journey_R s f now p last : R f (snd (update_journey s f now p last)).
Proof.
  unfold update_journey.
  set (s1 := if negb last && _ then _ else s).
  destruct (visited s1) as [v|].
  - destruct (mem (fto f) v).
    + pose proof (end_journey_R s1 f) as H1. destruct (end_journey s1 f) as [s2 f2]. cbn [snd] in H1.
      destruct (FlightInterval p <=? days_between (fend f2) now).
      * eapply R_trans; [exact H1|apply end_journey_R].
      * exact H1.
    + destruct (FlightInterval p <=? days_between (fend f) now); [apply end_journey_R|apply R_refl].
  - destruct (FlightInterval p <=? days_between (fend f) now); [apply end_journey_R|apply R_refl].
Qed.

Lemma update_trip_R s f now p : R f (snd (update_trip s f now p)).
Proof.
  unfold update_trip.
  set (s1 := if tstart s =? 0 then _ else s).
  assert (H2 : R f (snd (if (journeys s1 =? 2) && (Algo p =? 0) then end_trip s1 f true else (s1, f)))).
  { destruct ((journeys s1 =? 2) && (Algo p =? 0)); [apply end_trip_R|apply R_refl]. }
  destruct (if (journeys s1 =? 2) && (Algo p =? 0) then end_trip s1 f true else (s1, f)) as [s2 f2].
  cbn [snd] in H2.
  assert (H3 : R f (snd (if TripLength p <? days_between (tstart s2) now then end_trip s2 f2 false else (s2, f2)))).
  { destruct (TripLength p <? days_between (tstart s2) now); [eapply R_trans; [exact H2|apply end_trip_R]|exact H2]. }
  destruct (if TripLength p <? days_between (tstart s2) now then end_trip s2 f2 false else (s2, f2)) as [s3 f3].
  cbn [snd] in H3.
  destruct (FlightsInTrip p <=? flights s3); [eapply R_trans; [exact H3|apply end_trip_R]|exact H3].
Qed.

(** one loop iteration pushes exactly one R-related flight *)
Lemma step_mid_out p now s out dy fy f nt :
  exists s' f' dy' fy', step_mid p now (s, out, dy, fy) (f, nt) = (s', f' :: out, dy', fy') /\ R f f'.
Proof.
  unfold step_mid. destruct (et f) eqn:E.
  1,2,3,5:
    pose proof (update_journey_R (next_entry s f) f nt p false) as H1;
    destruct (update_journey (next_entry s f) f nt p false) as [s2 f2]; cbn [snd] in H1;
    pose proof (update_trip_R s2 f2 nt p) as H2;
    destruct (update_trip s2 f2 nt p) as [s3 f3]; cbn [snd] in H2;
    destruct (add_stats f3 now dy fy) as [dy' fy'];
    exists s3, f3, dy', fy'; split; [reflexivity|eapply R_trans; eauto].
  pose proof (end_trip_R (next_entry s f) f false) as H1.
  destruct (end_trip (next_entry s f) f false) as [s2 f2]. cbn [snd] in H1.
  exists s2, f2, dy, fy. split; [reflexivity|exact H1].
Qed.

Lemma fold_step_mid_out p now : forall (fns : list (flight * Z)) s out dy fy,
  exists s' new dy' fy',
    fold_left (step_mid p now) fns (s, out, dy, fy) = (s', new ++ out, dy', fy') /\
    Forall2 R (rev (map fst fns)) new.
Proof.
  induction fns as [|[f nt] t IH]; intros s out dy fy; cbn [fold_left map rev fst].
  - exists s, [], dy, fy. split; [reflexivity|constructor].
  - destruct (step_mid_out p now s out dy fy f nt) as (s1 & f1 & dy1 & fy1 & E1 & R1).
    rewrite E1. destruct (IH s1 (f1 :: out) dy1 fy1) as (s2 & new & dy2 & fy2 & E2 & R2).
    exists s2, (new ++ [f1]), dy2, fy2. split.
    + rewrite E2. rewrite <- app_assoc. reflexivity.
    + apply Forall2_app; [exact R2|constructor; [exact R1|constructor]].
Qed.

(** list plumbing of the window *)
Lemma combine_fst_eq {A B} (a : list A) (b : list B) : length a = length b -> map fst (combine a b) = a.
Proof.
  revert b; induction a as [|x a IH]; intros [|y b] H; cbn in *; try lia; auto. f_equal. apply IH. lia.
Qed.

Lemma removelast_length {A} (l : list A) : length (removelast l) = pred (length l).
Proof.
  induction l as [|x l IH]; [reflexivity|]. destruct l as [|y l]; [reflexivity|].
  change (removelast (x :: y :: l)) with (x :: removelast (y :: l)). cbn [length] in *. rewrite IH. reflexivity.
Qed.

Lemma rev_removelast_tl {A} (l : list A) : rev (removelast (rev l)) = tl l.
Proof.
  destruct l as [|x l]; [reflexivity|]. cbn [rev tl]. rewrite removelast_last, rev_involutive. reflexivity.
Qed.

(** THE structural theorem: a successful Update yields the same 100 flights with R-related markers *)
Theorem update_R (h : hist) p now h' dy fy :
  length (entries h) = MaxFlights ->
  update h p now = inl (h', dy, fy) ->
  Forall2 R (entries h) (entries h') /\ oc h' = 0%nat.
Proof.
  intros Hlen. unfold update.
  destruct (hempty h); [discriminate|].
  destruct (negb (now mod SecondsInDay =? 0)); [discriminate|].
  destruct (Nat.eqb (oc h) 0 && is_end (getf (entries h) 0)); [discriminate|].
  set (jn := Z.to_nat (window_start h)).
  set (l := entries h) in *.
  set (win := firstn (S jn) l). set (rest := skipn (S jn) l).
  set (mids := removelast (rev win)). set (nows := map fstart (tl (rev win))).
  destruct (fold_step_mid_out p now (combine mids nows) ts0 [] (k0 N) 0)
    as (s & new & dy1 & fy1 & Efold & Rnew).
  rewrite Efold. rewrite app_nil_r.
  pose proof (update_journey_R (next_entry s (getf l 0)) (getf l 0) now p true) as H1.
  destruct (update_journey (next_entry s (getf l 0)) (getf l 0) now p true) as [s2 f2]. cbn [snd] in H1.
  pose proof (update_trip_R s2 f2 now p) as H2.
  destruct (update_trip s2 f2 now p) as [s3 f3]. cbn [snd] in H2.
  destruct (add_stats f3 now dy1 fy1) as [dy' fy'].
  intros E. injection E as <- _ _. cbn [entries oc]. split; [|reflexivity].
  (* l = getf l 0 :: tl win ++ rest *)
  assert (Hl : l = win ++ rest) by (symmetry; apply firstn_skipn).
  assert (Hwin : win = getf l 0 :: tl win).
  { unfold win. destruct l as [|x l0]; [cbn in Hlen; discriminate|]. reflexivity. }
  assert (Hmids : length mids = length nows).
  { unfold mids, nows. rewrite removelast_length, map_length.
    destruct (rev win); reflexivity. }
  rewrite combine_fst_eq in Rnew by exact Hmids.
  unfold mids in Rnew. rewrite rev_removelast_tl in Rnew.
  rewrite Hl at 1. rewrite Hwin at 1. cbn [app].
  constructor; [eapply R_trans; eauto|].
  apply Forall2_app; [exact Rnew|].
  clear. induction rest; constructor; [apply R_refl|assumption].
Qed.

(** consequences in the shape C07 states them *)
Lemma Forall2_R_erase la lb : Forall2 R la lb -> map erase lb = map erase la.
Proof.
  induction 1 as [|a b la lb HRab HRl IH]; [reflexivity|]. destruct HRab as [E _].
  cbn [map]. rewrite IH, E. reflexivity.
Qed.
Lemma Forall2_R_tte la lb : Forall2 R la lb -> forall i,
  et (nth i la empty_flight) = TTEnd -> et (nth i lb empty_flight) = TTEnd.
Proof.
  induction 1 as [|a b la lb HRab HRl IH]; intros i; [destruct i; auto|].
  destruct HRab as [_ T]. destruct i as [|i]; cbn [nth]; auto.
Qed.

Corollary update_keeps_flight_data (h : hist) p now h' dy fy :
  length (entries h) = MaxFlights -> update h p now = inl (h', dy, fy) ->
  map erase (entries h') = map erase (entries h).
Proof.
  intros Hl Hu. destruct (update_R h p now h' dy fy Hl Hu) as [HR _]. apply Forall2_R_erase, HR.
Qed.

Corollary update_keeps_traveller_trip_end (h : hist) p now h' dy fy i :
  length (entries h) = MaxFlights -> update h p now = inl (h', dy, fy) ->
  et (getf (entries h) i) = TTEnd -> et (getf (entries h') i) = TTEnd.
Proof.
  intros Hl Hu. destruct (update_R h p now h' dy fy Hl Hu) as [HR _]. unfold getf.
  apply Forall2_R_tte, HR.
Qed.

Lemma Forall2_len {A B} (P : A -> B -> Prop) la lb : Forall2 P la lb -> length la = length lb.
Proof. induction 1; cbn; auto. Qed.

Corollary update_keeps_length (h : hist) p now h' dy fy :
  length (entries h) = MaxFlights -> update h p now = inl (h', dy, fy) ->
  length (entries h') = MaxFlights.
Proof.
  intros Hl Hu. destruct (update_R h p now h' dy fy Hl Hu) as [HR _].
  apply Forall2_len in HR. congruence.
Qed.

End WithNum.
