(** C15: what the parameter setter accepts is safe to run; what it rejects changes nothing. *)
From Coq Require Import ZArith List Bool Arith Lia.
From Flap Require Import Model.Num Model.NumZ Model.TripHistory Model.Promises Model.Predictor Model.Engine
  Proofs.UpdateAllP.
Import ListNotations.
Open Scope Z_scope.

Section WithNum.
Context {N : NumOps}.

(** a rejected parameter set leaves the administrator as it was (SetParams returns before assigning),
    and is rejected exactly when the validity test fails *)
Theorem set_params_rejects_iff_invalid (a : admin N) p :
  (exists e, set_params a p = inr e) <-> valid_params p = false.
Proof.
  unfold set_params. destruct (valid_params p); split; intros H.
  - destruct H as [e H]. discriminate.
  - discriminate.
  - reflexivity.
  - eexists. reflexivity.
Qed.

(** the documented limits, read off the validity test *)
Theorem valid_params_limits (p : params N) : valid_params p = true ->
  pFlightsInTrip p * 2 <= Z.of_nat MaxFlights /\
  pFlightInterval p * 2 <= pTripLength p /\
  (pAlgo p <> 0 -> 2 <= pMaxPoints p) /\
  valid_threads (pThreads p) = true.
Proof.
  unfold valid_params. intros H. repeat (apply andb_true_iff in H; destruct H as [H ?]).
  apply negb_true_iff, Z.ltb_ge in H. apply negb_true_iff, Z.ltb_ge in H2.
  split; [exact H|]. split; [exact H2|]. split; [|assumption].
  intros Hne. apply negb_true_iff in H1. destruct (Z.eqb_spec (pAlgo p) 0); [contradiction|].
  cbn [negb andb] in H1. apply Z.ltb_ge in H1. exact H1.
Qed.

(** an accepted predictor window always yields a real predictor for algorithms 1 and 2 (no
    half-constructed predictor can be installed), and none otherwise *)
Theorem accepted_params_install_a_usable_predictor (a a' : admin N) p :
  set_params a p = inl a' -> pAlgo p <> pAlgo (a_params a) ->
  valid_predictor (a_pred a') = (Z.land (pAlgo p) paMask =? 1) || (Z.land (pAlgo p) paMask =? 2).
Proof.
  unfold set_params. destruct (valid_params p) eqn:Hv; [|discriminate]. intros E Hne. injection E as <-.
  cbn [a_pred]. destruct (Z.eqb_spec (pAlgo p) (pAlgo (a_params a))); [contradiction|].
  pose proof (valid_params_limits p Hv) as (_ & _ & Hmp & _).
  unfold create_predictor, new_bestfit, new_polyfit, set_windows.
  destruct (Z.eqb_spec (Z.land (pAlgo p) paMask) 1) as [E1|N1].
  - assert (pAlgo p <> 0) by (intros C; rewrite C in E1; discriminate).
    destruct (Z.ltb_spec (pMaxPoints p) 2); [specialize (Hmp H); lia|reflexivity].
  - destruct (Z.eqb_spec (Z.land (pAlgo p) paMask) 2) as [E2|N2]; [|reflexivity].
    assert (pAlgo p <> 0) by (intros C; rewrite C in E2; discriminate).
    destruct (Z.ltb_spec (pMaxPoints p) 2); [specialize (Hmp H); lia|reflexivity].
Qed.

End WithNum.

(** all 256 thread bytes: accepted exactly for 0 and the powers of two up to 16; for those the worker
    loop makes progress (positive step), ends at shard 15 and starts no more workers than the channel
    holds (see also C04) *)
Definition thread_ok_sweep : bool :=
  forallb (fun th => Bool.eqb (valid_threads (Z.of_nat th)) (existsb (Nat.eqb th) [0; 1; 2; 4; 8; 16]%nat)) (seq 0 256) &&
  forallb (fun th => implb (valid_threads (Z.of_nat th))
                       ((0 <? 16 / (if Z.of_nat th =? 0 then 1 else Z.of_nat th)) &&
                        (snd (last (ranges_of_threads (Z.of_nat th)) (0, 0)) =? 15))) (seq 0 256).
Lemma thread_ok_sweep_true : thread_ok_sweep = true.
Proof. vm_compute. reflexivity. Qed.

Theorem accepted_threads_exactly (th : Z) : 0 <= th < 256 ->
  (valid_threads th = true <-> In th [0; 1; 2; 4; 8; 16]).
Proof.
  intros H. pose proof thread_ok_sweep_true as S. unfold thread_ok_sweep in S. apply andb_true_iff in S. destruct S as [S _].
  rewrite forallb_forall in S. specialize (S (Z.to_nat th) ltac:(apply in_seq; lia)). rewrite Z2Nat.id in S by lia.
  apply eqb_prop in S. rewrite S. split.
  - intros E. apply existsb_exists in E. destruct E as (x & Hx & Ex). apply Nat.eqb_eq in Ex. subst x.
    unfold In in *. lia.
  - intros E. apply existsb_exists. exists (Z.to_nat th). split; [|apply Nat.eqb_refl].
    unfold In in *. lia.
Qed.

Theorem accepted_threads_loop_progresses (th : Z) : 0 <= th < 256 -> valid_threads th = true ->
  0 < 16 / (if th =? 0 then 1 else th) /\ snd (last (ranges_of_threads th) (0, 0)) = 15.
Proof.
  intros H Hv. pose proof thread_ok_sweep_true as S. unfold thread_ok_sweep in S. apply andb_true_iff in S. destruct S as [_ S].
  rewrite forallb_forall in S. specialize (S (Z.to_nat th) ltac:(apply in_seq; lia)). rewrite Z2Nat.id in S by lia.
  rewrite Hv in S. cbn [implb] in S. apply andb_true_iff in S. destruct S as [A B].
  apply Z.ltb_lt in A. apply Z.eqb_eq in B. split; assumption.
Qed.

(** the brute-force search of the polynomial predictor terminates when every predicted share is positive
    - shown in exact arithmetic (whole units): at most [d] steps are needed for distance d *)
Lemma poly_predict_terminates_exact (p : polyfit NumZ) : forall fuel (d sd cd r : Z),
  (forall x, sd <= x -> exists y, pf_predict_y p x = Some y /\ 1 <= y) ->
  sd <= cd -> (1 <= fuel)%nat -> r < Z.of_nat fuel ->
  exists z, pf_predict_loop fuel p d sd cd r = LDone z.
Proof.
  induction fuel as [|k IH]; intros d sd cd r Hpos Hcd Hf Hr; [lia|].
  cbn [pf_predict_loop]. change (kltb NumZ (k0 NumZ) r) with (0 <? r).
  destruct (Z.ltb_spec 0 r) as [Hrp|Hrn]; [|eexists; reflexivity].
  destruct (Hpos cd Hcd) as (y & Ey & Hy). rewrite Ey. change (kltb NumZ (k0 NumZ) y) with (0 <? y).
  destruct (Z.ltb_spec 0 y); [|lia]. change (ksub NumZ r y) with (r - y).
  apply IH; [exact Hpos|lia|lia|lia].
Qed.
