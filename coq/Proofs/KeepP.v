(** C08: a made promise is honoured when the promised trip is flown. *)
From Coq Require Import ZArith List Bool Arith Lia.
From Flap Require Import Model.Num Model.Search Model.TripHistory Model.Promises Model.Predictor Model.Engine
  Proofs.SearchP Proofs.THBasics Proofs.THOrder Proofs.THLimits Proofs.PromisesP Proofs.ClearedP.
Import ListNotations.
Open Scope Z_scope.

Section WithNum.
Context {N : NumOps}.
Local Notation K := (K N).
Local Notation flight := (flight N).
Local Notation traveller := (traveller N).
Local Notation book := (book N).
Local Notation promise := (promise N).

Definition sum_dist (fs : list flight) : K := fold_left (fun d f => kadd N d (fdist f)) fs (k0 N).

(** tripStartEndLength walks exactly the marker-defined open trip, newest first *)
Lemma tsel_scan_run (l : list flight) : forall d0 st0,
  tsel_scan l d0 st0 =
  (fold_left (fun d f => kadd N d (fdist f)) (open_run l) d0,
   match open_run l with [] => st0 | _ => fstart (last (open_run l) empty_flight) end).
Proof.
  induction l as [|f r IH]; intros d0 st0; cbn [tsel_scan open_run]; [reflexivity|].
  destruct (negb (fstart f =? 0) && negb (is_end f)); [|reflexivity].
  rewrite IH. cbn [fold_left]. f_equal. destruct (open_run r) eqn:E; [reflexivity|].
  cbn [last]. reflexivity.
Qed.

Lemma tsel_spec (h : hist N) :
  trip_start_end_length h =
  if kltb N (k0 N) (sum_dist (open_run (entries h)))
  then (open_start (entries h), fend (getf (entries h) 0), sum_dist (open_run (entries h)))
  else (0, 0, k0 N).
Proof.
  unfold trip_start_end_length. rewrite tsel_scan_run. unfold sum_dist, open_start.
  destruct (kltb N (k0 N) _); [|reflexivity].
  destruct (open_run (entries h)) eqn:E; [|reflexivity]. cbn [last]. reflexivity.
Qed.

(** number of promises in a consistent book, as the iterators compute it *)
Lemma book_count_spec mx (b : book) : Inv mx b ->
  (forall i, (i < MaxPromises)%nat -> p_ts (getp b i) <> 0 -> (i < book_count b)%nat) /\
  (forall k, (k < book_count b)%nat -> p_ts (getp b k) <> 0) /\ (book_count b <= MaxPromises)%nat.
Proof.
  intros [Hl Hwf Hsep _ _]. unfold book_count.
  set (f := fun j : nat => p_ts (getp b j) =? 0).
  assert (Hm : monotone MaxPromises f).
  { intros a c Hac Hc Ha. unfold f in *. apply Z.eqb_eq in Ha. apply Z.eqb_eq.
    destruct (Nat.eq_dec a c) as [->|Hne2]; [exact Ha|].
    destruct (Z.eq_dec (p_ts (getp b c)) 0) as [E|E]; [exact E|]. exfalso.
    pose proof (Hsep a c ltac:(lia) Hc E). destruct (Hwf c Hc) as [[W0 _] W]. specialize (W E). lia. }
  destruct (search_spec _ _ Hm) as (S1 & S2 & S3). split; [|split; [|exact S1]].
  - intros i Hi Hne. destruct (Nat.lt_ge_cases i (search MaxPromises f)) as [H|H]; [exact H|]. exfalso.
    specialize (S3 i H Hi). unfold f in S3. apply Z.eqb_eq in S3. contradiction.
  - intros k Hk. specialize (S2 k Hk). unfold f in S2. apply Z.eqb_neq in S2. exact S2.
Qed.

(** keep_scan returns the oldest matching promise; on a consistent book every promise older than
    the one for the trip just flown has ended before that trip started and cannot match *)
Lemma keep_scan_finds mx (b : book) i st en (d : K) : Inv mx b -> (i < MaxPromises)%nat ->
  p_ts (getp b i) <> 0 -> p_ts (getp b i) <= st -> en <= p_te (getp b i) -> st <= en ->
  keqb N (p_trav (getp b i)) d = true ->
  forall idx, (i < idx)%nat -> (idx <= book_count b)%nat -> keep_scan b idx st en d = Some (getp b i).
Proof.
  intros HI Hi Hne Hts Hte Hse Heq. pose proof HI as [Hl Hwf Hsep _ _].
  destruct (book_count_spec mx b HI) as (_ & Hnz & Hcm).
  induction idx as [|k IH]; intros H1 H2; [lia|]. cbn [keep_scan].
  destruct (Nat.eq_dec k i) as [->|Hki].
  - destruct (Z.ltb_spec st (p_ts (getp b i))); [lia|].
    destruct (Z.leb_spec en (p_te (getp b i))); [|lia]. rewrite Heq. reflexivity.
  - assert (Hgt : (i < k)%nat) by lia.
    pose proof (Hsep i k Hgt ltac:(lia) (Hnz k ltac:(lia))) as Hs.
    destruct (Z.ltb_spec st (p_ts (getp b k))) as [|_]; [apply IH; lia|].
    destruct (Z.leb_spec en (p_te (getp b k))); [lia|]. cbn [andb]. apply IH; lia.
Qed.

(** THE theorem: a traveller who has flown exactly the promised trip - the open trip's flights add up
    (newest first, as both sides add them) to the promised travelled distance, start and end within the
    promised times - has the promise recorded as kept and the trip closed by [keep] *)
Theorem promise_kept_when_flown mx (t : traveller) i :
  Inv mx (t_book t) -> (i < MaxPromises)%nat ->
  let p := getp (t_book t) i in
  let run := open_run (entries (t_hist t)) in
  mid_trip (t_hist t) = true -> hempty (t_hist t) = false ->
  p_ts p <> 0 -> p_ts p <= open_start (entries (t_hist t)) ->
  fend (getf (entries (t_hist t)) 0) <= p_te p ->
  open_start (entries (t_hist t)) <= fend (getf (entries (t_hist t)) 0) ->
  kltb N (k0 N) (sum_dist run) = true ->                 (* positive total distance *)
  keqb N (p_trav p) (sum_dist run) = true ->              (* promised distance == flown distance *)
  keqb N (sum_dist run) (k0 N) = false ->                 (* a positive number is not == 0 *)
  let '(t', kept) := keep_promise t in
  kept = true /\ t_kept t' = p /\ mid_trip (t_hist t') = false /\
  t_balance t' = t_balance t /\ t_book t' = t_book t.
Proof.
  intros HI Hi p run Hmid Hne Hp0 Hts Hte Hse Hpos Heq Hnz0.
  unfold keep_promise. rewrite Hmid. rewrite tsel_spec. fold run. rewrite Hpos.
  unfold keep. rewrite Hnz0.
  destruct (book_count_spec mx (t_book t) HI) as (Hc1 & _ & Hc3).
  rewrite (keep_scan_finds mx (t_book t) i _ _ _ HI Hi Hp0 Hts Hte Hse Heq (book_count (t_book t)) (Hc1 i Hi Hp0) (le_n _)).
  unfold end_trip_op. rewrite Hne. cbn [fst snd set_kept set_hist t_kept t_hist t_balance t_book].
  split; [reflexivity|]. split; [reflexivity|]. split; [|split; reflexivity].
  unfold mid_trip, hempty, set_head_et in *. destruct (entries (t_hist t)) as [|f r] eqn:E; [cbn in Hne; discriminate|].
  cbn [entries getf nth fstart set_et] in *. rewrite Hne. reflexivity.
Qed.

(** proposing and flying add the travelled distance over the same list in the same order:
    [engine_propose] sums [newest_first fs]; the history stores flights newest first *)
Lemma propose_travelled_is_sum_dist (fs : list flight) :
  fold_left (fun d f => kadd N d (fdist f)) (newest_first fs) (k0 N) = sum_dist (newest_first fs).
Proof. reflexivity. Qed.

(** ---- after the promise is kept ---- *)

(** a check-in from the clearance date on is accepted whatever the balance and consumes the promise *)
Theorem kept_promise_due_checkin (t : traveller) (f : flight) now taxi debit :
  mid_trip (t_hist t) = false -> 0 < refreshed_clearance t <= now ->
  match submit_flight t f now taxi debit with
  | inl (t', bac, pd) => t_kept t' = empty_promise /\ bac = t_balance t /\ pd = p_dist (t_kept t)
  | inr e => e = EFlightTooOldE
  end.
Proof.
  intros Hm Hc. unfold submit_flight.
  destruct (cleared_kept_clear t now) as (Ec & Eh & Eb).
  assert (Hd : p_dist (t_kept (snd (cleared t now))) = p_dist (t_kept t)).
  { unfold cleared. cbn [snd]. destruct (p_clear (t_kept t) =? 0); [reflexivity|]. destruct (match_promise _ _); reflexivity. }
  assert (Hcr : fst (cleared t now) = CRKeptPromise).
  { unfold cleared in *. cbn [fst snd] in *. set (t1 := if p_clear (t_kept t) =? 0 then t else _) in *.
    rewrite Eh, Hm, Ec. destruct (Z.ltb_spec 0 (refreshed_clearance t)); [|lia].
    destruct (Z.leb_spec (refreshed_clearance t) now); [reflexivity|lia]. }
  destruct (cleared t now) as [cr t1]. cbn [fst snd] in *. subst cr.
  destruct (add_flight (t_hist t1) f) as [h'|]; [|reflexivity].
  destruct debit; [destruct (kneb N taxi (k0 N))|]; cbn [set_kept t_kept set_hist t_balance transact]; rewrite ?Hd, ?Eb; auto.
Qed.

(** before the clearance date (and with no other reason) acceptance is exactly "in credit" *)
Theorem kept_promise_not_due_checkin (t : traveller) now :
  mid_trip (t_hist t) = false -> now < refreshed_clearance t ->
  (grounded t now <-> kleb N (k0 N) (t_balance t) = false).
Proof.
  intros Hm Hc. unfold grounded. split; [intros (_ & H & _); exact H|].
  intros H. split; [exact Hm|]. split; [exact H|]. destruct (Z.leb_spec (refreshed_clearance t) now); [lia|]. apply andb_false_r.
Qed.

(** making further promises never cancels a kept promise: Make does not touch it, and when its entry
    has left the book the stored clearance date stands *)
Theorem make_keeps_kept_promise (e : engine N) k pp now t :
  tget (e_table e) k = Some t ->
  forall t', tget (e_table (fst (engine_make e k pp now))) k = Some t' -> t_kept t' = t_kept t.
Proof.
  intros Hg t'. unfold engine_make. destruct (negb _); [cbn [fst]; rewrite Hg; intros E; injection E as <-; reflexivity|].
  unfold get_create. rewrite Hg. destruct (make _ _ _); cbn [fst e_table].
  - intros E. assert (E2 : tget (tput (e_table e) k (set_book t b)) k = Some (set_book t b)).
    { clear. induction (e_table e) as [|[k' t'] r IH]; cbn [tput tget]; [rewrite Z.eqb_refl; reflexivity|].
      destruct (k =? k') eqn:E; [cbn [tget]; rewrite Z.eqb_refl; reflexivity|].
      destruct (k <? k'); cbn [tget]; [rewrite Z.eqb_refl; reflexivity|]. rewrite E. exact IH. }
    rewrite E2 in E. injection E as <-. reflexivity.
  - rewrite Hg. intros E; injection E as <-; reflexivity.
Qed.

Theorem kept_clearance_survives_leaving_the_book (t : traveller) :
  p_clear (t_kept t) <> 0 -> match_promise (t_book t) (t_kept t) = None ->
  refreshed_clearance t = p_clear (t_kept t).
Proof.
  intros H1 H2. unfold refreshed_clearance. rewrite H2. destruct (Z.eqb_spec (p_clear (t_kept t)) 0); [contradiction|reflexivity].
Qed.

(** a proposal made while the promised trip is still in progress (its end not before now) never
    drops that promise from the book *)
Theorem promise_of_trip_in_progress_not_dropped mx (b : book) ts te d tr now (pr : predictor N) pp j :
  1 <= mx -> 0 <= now -> te < tmax -> Inv mx b -> propose b ts te d tr now pr mx = inl pp ->
  (j < MaxPromises)%nat -> p_ts (getp b j) <> 0 -> now <= p_te (getp b j) ->
  exists j', (j' < MaxPromises)%nat /\ core (getp (pp_entries pp) j') = core (getp b j).
Proof.
  intros Hmx Hnow Hte HI Ep Hj Hne Hprog.
  destruct (propose_spec mx b ts te d tr now pr pp Hmx Hnow Hte HI Ep) as (_ & (i & Hi & _ & Hlo & Hhi & Hdrop) & _).
  destruct (Nat.lt_ge_cases j i) as [Hlt|Hge]; [exists j; split; [exact Hj|apply Hlo, Hlt]|].
  destruct (Nat.eq_dec j (MaxPromises - 1)) as [->|Hn9]; [specialize (Hdrop Hne); lia|].
  exists (S j). split; [unfold MaxPromises in *; lia|]. apply Hhi; [exact Hge|unfold MaxPromises in *; lia].
Qed.

End WithNum.
