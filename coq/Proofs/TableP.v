(** Algebra of the travellers table (association list with put/get) and partitions of a list. *)
From Coq Require Import ZArith List Bool Arith Lia Permutation.
From Flap Require Import Model.Num Model.TripHistory Model.Promises Model.Predictor Model.Engine.
Import ListNotations.
Open Scope Z_scope.

Section WithNum.
Context {N : NumOps}.
Local Notation traveller := (traveller N).
Local Notation table := (table N).

Lemma tget_tput_same (tb : table) k t : tget (tput tb k t) k = Some t.
Proof.
  induction tb as [|[k' t'] r IH]; cbn [tput tget]; [rewrite Z.eqb_refl; reflexivity|].
  destruct (k =? k') eqn:E; [cbn [tget]; rewrite Z.eqb_refl; reflexivity|].
  destruct (k <? k'); cbn [tget]; [rewrite Z.eqb_refl; reflexivity|]. rewrite E. exact IH.
Qed.

Lemma tget_tput_other (tb : table) k t k' : k' <> k -> tget (tput tb k t) k' = tget tb k'.
Proof.
  intros Hne. induction tb as [|[k2 t2] r IH]; cbn [tput tget].
  - destruct (Z.eqb_spec k' k); [contradiction|reflexivity].
  - destruct (Z.eqb_spec k k2) as [->|Hk].
    + cbn [tget]. destruct (Z.eqb_spec k' k2); [contradiction|reflexivity].
    + destruct (k <? k2); cbn [tget].
      * destruct (Z.eqb_spec k' k); [contradiction|reflexivity].
      * destruct (k' =? k2); [reflexivity|exact IH].
Qed.

Definition put_all (ws tb : table) : table := fold_left (fun tb kt => tput tb (fst kt) (snd kt)) ws tb.

Lemma tget_None_notin (l : table) k : ~ In k (map fst l) -> tget l k = None.
Proof.
  induction l as [|[k' t'] r IH]; cbn [tget map fst]; [reflexivity|]. intros H.
  destruct (Z.eqb_spec k k'); [exfalso; apply H; left; auto|]. apply IH. intros C. apply H. right. exact C.
Qed.

Lemma tget_put_all (ws : table) : forall tb k, NoDup (map fst ws) ->
  tget (put_all ws tb) k = match tget ws k with Some t => Some t | None => tget tb k end.
Proof.
  induction ws as [|[k1 t1] r IH]; intros tb k Hnd; cbn [put_all fold_left tget fst snd]; [reflexivity|].
  cbn [map fst] in Hnd. inversion Hnd as [|? ? Hnotin Hnd']; subst.
  fold (put_all r (tput tb k1 t1)). rewrite IH by exact Hnd'.
  destruct (Z.eqb_spec k k1) as [->|Hne].
  - rewrite (tget_None_notin r k1 Hnotin). apply tget_tput_same.
  - destruct (tget r k); [reflexivity|]. apply tget_tput_other. exact Hne.
Qed.

Lemma tget_In_iff (l : table) k t : NoDup (map fst l) -> (tget l k = Some t <-> In (k, t) l).
Proof.
  induction l as [|[k' t'] r IH]; intros Hnd; cbn [tget]; [split; [discriminate|intros []]|].
  cbn [map fst] in Hnd. inversion Hnd as [|? ? Hnotin Hnd']; subst.
  destruct (Z.eqb_spec k k') as [->|Hne].
  - split; [intros E; injection E as <-; left; reflexivity|].
    intros [E|Hin]; [injection E as <-; reflexivity|]. exfalso. apply Hnotin. apply (in_map fst) in Hin. exact Hin.
  - rewrite IH by exact Hnd'. split; [intros H; right; exact H|intros [E|H]; [injection E as E1 _; congruence|exact H]].
Qed.

Lemma tget_perm (l l' : table) k : NoDup (map fst l) -> Permutation l l' -> tget l k = tget l' k.
Proof.
  intros Hnd Hp.
  assert (Hnd' : NoDup (map fst l')) by (eapply Permutation_NoDup; [apply Permutation_map; exact Hp|exact Hnd]).
  destruct (tget l k) as [t|] eqn:E.
  - symmetry. apply tget_In_iff; [exact Hnd'|]. eapply Permutation_in; [exact Hp|]. apply tget_In_iff; assumption.
  - destruct (tget l' k) as [t'|] eqn:E'; [|reflexivity]. exfalso.
    apply tget_In_iff in E'; [|exact Hnd']. apply Permutation_sym in Hp.
    apply (Permutation_in _ Hp) in E'. apply tget_In_iff in E'; [congruence|exact Hnd].
Qed.

Lemma fold_put_flat {A} (f : A -> table) (xs : list A) : forall tb,
  fold_left (fun tb x => put_all (f x) tb) xs tb = put_all (flat_map f xs) tb.
Proof.
  induction xs as [|x r IH]; intros tb; cbn [fold_left flat_map]; [reflexivity|].
  rewrite IH. unfold put_all. rewrite fold_left_app. reflexivity.
Qed.

End WithNum.

(** ---- partitions: when every element satisfies exactly one of the predicates, the concatenation of
    the filters is a permutation of the list ---- *)
Section Partition.
Context {A : Type}.

Definition hits (ps : list (A -> bool)) (x : A) : nat := length (filter (fun p => p x) ps).

Lemma perm_filter_interleave (p : A -> bool) (c : A -> list A) (l : list A) :
  Permutation (filter p l ++ flat_map c l) (flat_map (fun x => (if p x then [x] else []) ++ c x) l).
Proof.
  induction l as [|x r IH]; cbn [filter flat_map app]; [constructor|].
  destruct (p x); cbn [app].
  - constructor. rewrite <- IH. rewrite !app_assoc. apply Permutation_app_tail. apply Permutation_app_comm.
  - rewrite <- IH. rewrite !app_assoc. apply Permutation_app_tail. apply Permutation_app_comm.
Qed.

Lemma flat_filter_perm (ps : list (A -> bool)) (l : list A) :
  Permutation (flat_map (fun p => filter p l) ps) (flat_map (fun x => repeat x (hits ps x)) l).
Proof.
  induction ps as [|p r IH]; cbn [flat_map].
  - unfold hits. cbn. induction l; cbn; auto.
  - rewrite IH. rewrite perm_filter_interleave. apply Permutation_refl'.
    apply flat_map_ext. intros x. unfold hits. cbn [filter]. destruct (p x); reflexivity.
Qed.

Lemma partition_perm (ps : list (A -> bool)) (l : list A) :
  (forall x, In x l -> hits ps x = 1%nat) -> Permutation (flat_map (fun p => filter p l) ps) l.
Proof.
  intros H. rewrite flat_filter_perm.
  induction l as [|x r IH]; cbn [flat_map]; [constructor|].
  rewrite (H x (or_introl eq_refl)). cbn [repeat app]. constructor. apply IH. intros y Hy. apply H. right. exact Hy.
Qed.

End Partition.
