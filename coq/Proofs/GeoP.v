(** Great-circle distance: the real-valued formula that pkg/flap/triphistory.go evaluates in
    binary64 (Model/Geo.v is the operation-by-operation port).  Everything here is about the exact
    formula over the reals: range of the haversine argument, 0 <= d <= pi R, d(p,p) = 0, symmetry,
    and the triangle inequality (the central angle is the angle between unit vectors).  The
    float-level facts proved for the port are in GeoFloatP.v. *)
From Coq Require Import Reals Lra Psatz.
Open Scope R_scope.

Definition rhav (x : R) : R := (1 - cos x) / 2.

(** the argument of asin(sqrt(.)) for latitudes p1 p2 and longitudes l1 l2 in radians *)
Definition rarg (p1 l1 p2 l2 : R) : R := rhav (p2 - p1) + cos p1 * cos p2 * rhav (l2 - l1).

Definition rdist (radius p1 l1 p2 l2 : R) : R := 2 * radius * asin (sqrt (rarg p1 l1 p2 l2)).

Definition lat_ok (p : R) : Prop := - (PI / 2) <= p <= PI / 2.

Lemma rhav_range x : 0 <= rhav x <= 1.
Proof. unfold rhav. pose proof (COS_bound x). lra. Qed.

Lemma cos_lat_nonneg p : lat_ok p -> 0 <= cos p.
Proof. intros [H1 H2]. apply cos_ge_0; lra. Qed.

Lemma rarg_range p1 l1 p2 l2 : lat_ok p1 -> lat_ok p2 -> 0 <= rarg p1 l1 p2 l2 <= 1.
Proof.
  intros H1 H2. unfold rarg.
  pose proof (cos_lat_nonneg _ H1) as C1. pose proof (cos_lat_nonneg _ H2) as C2.
  pose proof (rhav_range (p2 - p1)) as Ha. pose proof (rhav_range (l2 - l1)) as Hb.
  assert (0 <= cos p1 * cos p2) as Hp by (apply Rmult_le_pos; assumption).
  split.
  - apply Rplus_le_le_0_compat; [lra | apply Rmult_le_pos; lra].
  - assert (cos p1 * cos p2 * rhav (l2 - l1) <= cos p1 * cos p2) as Hq.
    { rewrite <- (Rmult_1_r (cos p1 * cos p2)) at 2. apply Rmult_le_compat_l; lra. }
    assert (rhav (p2 - p1) + cos p1 * cos p2 = (1 + cos (p1 + p2)) / 2) as E.
    { unfold rhav. rewrite cos_minus, cos_plus. lra. }
    pose proof (COS_bound (p1 + p2)). lra.
Qed.

Lemma asin_nonneg x : 0 <= x <= 1 -> 0 <= asin x.
Proof.
  intros Hx. destruct (Rle_or_lt 0 (asin x)) as [H | H]; [exact H | exfalso].
  pose proof (asin_bound x) as Hb.
  assert (sin (asin x) < 0) as Hs.
  { apply sin_lt_0_var; [ | exact H]. pose proof PI_RGT_0. lra. }
  rewrite sin_asin in Hs by lra. lra.
Qed.

Lemma sqrt_01 x : 0 <= x <= 1 -> 0 <= sqrt x <= 1.
Proof.
  intros [H0 H1]. split; [apply sqrt_pos | ].
  rewrite <- sqrt_1. apply sqrt_le_1_alt. exact H1.
Qed.

(** finite (a real number), non-negative, at most half the circumference *)
Lemma rdist_range radius p1 l1 p2 l2 :
  0 <= radius -> lat_ok p1 -> lat_ok p2 ->
  0 <= rdist radius p1 l1 p2 l2 <= PI * radius.
Proof.
  intros HR H1 H2. unfold rdist.
  pose proof (sqrt_01 _ (rarg_range p1 l1 p2 l2 H1 H2)) as Hs.
  pose proof (asin_nonneg _ Hs) as Ha. pose proof (asin_bound (sqrt (rarg p1 l1 p2 l2))) as Hb.
  split.
  - apply Rmult_le_pos; [lra | exact Ha].
  - replace (PI * radius) with (2 * radius * (PI / 2)) by field.
    apply Rmult_le_compat_l; lra.
Qed.

Lemma rdist_same radius p l : rdist radius p l p l = 0.
Proof.
  unfold rdist, rarg, rhav. replace (p - p) with 0 by ring. replace (l - l) with 0 by ring.
  rewrite cos_0. replace ((1 - 1) / 2 + cos p * cos p * ((1 - 1) / 2)) with 0 by field.
  rewrite sqrt_0, asin_0. ring.
Qed.

Lemma rhav_opp x : rhav (- x) = rhav x.
Proof. unfold rhav. rewrite cos_neg. reflexivity. Qed.

Lemma rdist_sym radius p1 l1 p2 l2 : rdist radius p1 l1 p2 l2 = rdist radius p2 l2 p1 l1.
Proof.
  unfold rdist, rarg.
  replace (p2 - p1) with (- (p1 - p2)) by ring. replace (l2 - l1) with (- (l1 - l2)) by ring.
  rewrite !rhav_opp. rewrite (Rmult_comm (cos p1) (cos p2)). reflexivity.
Qed.

(** * The central angle and the triangle inequality *)

(** unit vector of a coordinate *)
Definition vx (p l : R) := cos p * cos l.
Definition vy (p l : R) := cos p * sin l.
Definition vz (p l : R) := sin p.
Definition dot (p1 l1 p2 l2 : R) := vx p1 l1 * vx p2 l2 + vy p1 l1 * vy p2 l2 + vz p1 l1 * vz p2 l2.

Lemma unit_vec p l : vx p l * vx p l + vy p l * vy p l + vz p l * vz p l = 1.
Proof.
  unfold vx, vy, vz. pose proof (sin2_cos2 p) as Hp. pose proof (sin2_cos2 l) as Hl.
  unfold Rsqr in *. nra.
Qed.

Lemma dot_rarg p1 l1 p2 l2 : dot p1 l1 p2 l2 = 1 - 2 * rarg p1 l1 p2 l2.
Proof.
  unfold dot, vx, vy, vz, rarg, rhav. rewrite !cos_minus. field.
Qed.

(** the central angle: 2 asin (sqrt h); its cosine is the dot product *)
Definition rangle (p1 l1 p2 l2 : R) := 2 * asin (sqrt (rarg p1 l1 p2 l2)).

Lemma rangle_range p1 l1 p2 l2 : lat_ok p1 -> lat_ok p2 -> 0 <= rangle p1 l1 p2 l2 <= PI.
Proof.
  intros H1 H2. unfold rangle.
  pose proof (sqrt_01 _ (rarg_range p1 l1 p2 l2 H1 H2)) as Hs.
  pose proof (asin_nonneg _ Hs). pose proof (asin_bound (sqrt (rarg p1 l1 p2 l2))). lra.
Qed.

Lemma cos_rangle p1 l1 p2 l2 : lat_ok p1 -> lat_ok p2 -> cos (rangle p1 l1 p2 l2) = dot p1 l1 p2 l2.
Proof.
  intros H1 H2. unfold rangle. pose proof (rarg_range p1 l1 p2 l2 H1 H2) as Hr.
  pose proof (sqrt_01 _ Hr) as Hs.
  rewrite cos_2a_sin, sin_asin by lra.
  rewrite Rmult_assoc, sqrt_sqrt by lra. rewrite dot_rarg. ring.
Qed.

Lemma rdist_angle radius p1 l1 p2 l2 : rdist radius p1 l1 p2 l2 = radius * rangle p1 l1 p2 l2.
Proof. unfold rdist, rangle. ring. Qed.

(** Cauchy-Schwarz for the components of a and c orthogonal to the unit vector b *)
Lemma angle_core (a1 a2 a3 b1 b2 b3 c1 c2 c3 : R) :
  a1*a1 + a2*a2 + a3*a3 = 1 -> b1*b1 + b2*b2 + b3*b3 = 1 -> c1*c1 + c2*c2 + c3*c3 = 1 ->
  let ab := a1*b1 + a2*b2 + a3*b3 in
  let bc := b1*c1 + b2*c2 + b3*c3 in
  let ac := a1*c1 + a2*c2 + a3*c3 in
  (ab * bc - ac) * (ab * bc - ac) <= (1 - ab * ab) * (1 - bc * bc).
Proof.
  intros Ha Hb Hc ab bc ac.
  (* a' = a - ab b, c' = c - bc b; Lagrange identity: |a'|^2 |c'|^2 - (a'.c')^2 = |a' x c'|^2 *)
  set (x1 := a1 - ab * b1). set (x2 := a2 - ab * b2). set (x3 := a3 - ab * b3).
  set (y1 := c1 - bc * b1). set (y2 := c2 - bc * b2). set (y3 := c3 - bc * b3).
  assert (x1*x1 + x2*x2 + x3*x3 = 1 - ab * ab) as Hx.
  { unfold x1, x2, x3. transitivity ((a1*a1 + a2*a2 + a3*a3) - 2 * ab * (a1*b1 + a2*b2 + a3*b3) + ab * ab * (b1*b1 + b2*b2 + b3*b3)); [ring | ].
    rewrite Ha, Hb. fold ab. ring. }
  assert (y1*y1 + y2*y2 + y3*y3 = 1 - bc * bc) as Hy.
  { unfold y1, y2, y3. transitivity ((c1*c1 + c2*c2 + c3*c3) - 2 * bc * (b1*c1 + b2*c2 + b3*c3) + bc * bc * (b1*b1 + b2*b2 + b3*b3)); [ring | ].
    rewrite Hc, Hb. fold bc. ring. }
  assert (x1*y1 + x2*y2 + x3*y3 = ac - ab * bc) as Hxy.
  { unfold x1, x2, x3, y1, y2, y3.
    transitivity ((a1*c1 + a2*c2 + a3*c3) - bc * (a1*b1 + a2*b2 + a3*b3) - ab * (b1*c1 + b2*c2 + b3*c3) + ab * bc * (b1*b1 + b2*b2 + b3*b3)); [ring | ].
    rewrite Hb. fold ab bc ac. ring. }
  rewrite <- Hx, <- Hy.
  replace ((ab * bc - ac) * (ab * bc - ac)) with ((x1*y1 + x2*y2 + x3*y3) * (x1*y1 + x2*y2 + x3*y3)) by (rewrite Hxy; ring).
  assert ((x1*x1 + x2*x2 + x3*x3) * (y1*y1 + y2*y2 + y3*y3) - (x1*y1 + x2*y2 + x3*y3) * (x1*y1 + x2*y2 + x3*y3)
          = (x1*y2 - x2*y1) * (x1*y2 - x2*y1) + (x1*y3 - x3*y1) * (x1*y3 - x3*y1) + (x2*y3 - x3*y2) * (x2*y3 - x3*y2)) as L by ring.
  pose proof (Rle_0_sqr (x1*y2 - x2*y1)) as S1. pose proof (Rle_0_sqr (x1*y3 - x3*y1)) as S2. pose proof (Rle_0_sqr (x2*y3 - x3*y2)) as S3.
  unfold Rsqr in *. lra.
Qed.

(** angles in [0, pi] whose cosines are related as by [angle_core] satisfy the triangle inequality *)
Lemma angle_triangle (t1 t2 t3 : R) :
  0 <= t1 <= PI -> 0 <= t2 <= PI -> 0 <= t3 <= PI ->
  (cos t1 * cos t2 - cos t3) * (cos t1 * cos t2 - cos t3) <= (1 - cos t1 * cos t1) * (1 - cos t2 * cos t2) ->
  t3 <= t1 + t2.
Proof.
  intros H1 H2 H3 Hc.
  destruct (Rle_or_lt PI (t1 + t2)) as [Hbig | Hsmall]; [lra | ].
  (* cos t3 >= cos (t1 + t2), cos decreasing on [0, pi] *)
  assert (0 <= sin t1) as S1 by (apply sin_ge_0; lra).
  assert (0 <= sin t2) as S2 by (apply sin_ge_0; lra).
  assert (1 - cos t1 * cos t1 = sin t1 * sin t1) as E1 by (pose proof (sin2_cos2 t1) as Q; unfold Rsqr in Q; lra).
  assert (1 - cos t2 * cos t2 = sin t2 * sin t2) as E2 by (pose proof (sin2_cos2 t2) as Q; unfold Rsqr in Q; lra).
  rewrite E1, E2 in Hc.
  assert (cos t1 * cos t2 - cos t3 <= sin t1 * sin t2) as Hle.
  { destruct (Rle_or_lt (cos t1 * cos t2 - cos t3) (sin t1 * sin t2)) as [H | H]; [exact H | exfalso].
    assert (0 <= sin t1 * sin t2) as Hp by (apply Rmult_le_pos; assumption).
    assert ((sin t1 * sin t2) * (sin t1 * sin t2) < (cos t1 * cos t2 - cos t3) * (cos t1 * cos t2 - cos t3)) by nra.
    nra. }
  assert (cos (t1 + t2) <= cos t3) as Hcos by (rewrite cos_plus; lra).
  destruct (Rle_or_lt t3 (t1 + t2)) as [H | H]; [exact H | exfalso].
  assert (cos t3 < cos (t1 + t2)) by (apply cos_decreasing_1; lra).
  lra.
Qed.

Lemma rangle_triangle pa la pb lb pc lc :
  lat_ok pa -> lat_ok pb -> lat_ok pc ->
  rangle pa la pc lc <= rangle pa la pb lb + rangle pb lb pc lc.
Proof.
  intros Ha Hb Hc.
  apply angle_triangle; try (apply rangle_range; assumption).
  rewrite !cos_rangle by assumption.
  pose proof (angle_core (vx pa la) (vy pa la) (vz pa la) (vx pb lb) (vy pb lb) (vz pb lb) (vx pc lc) (vy pc lc) (vz pc lc)
                         (unit_vec pa la) (unit_vec pb lb) (unit_vec pc lc)) as H.
  cbv zeta in H. unfold dot. exact H.
Qed.

Lemma rdist_triangle radius pa la pb lb pc lc :
  0 <= radius -> lat_ok pa -> lat_ok pb -> lat_ok pc ->
  rdist radius pa la pc lc <= rdist radius pa la pb lb + rdist radius pb lb pc lc.
Proof.
  intros HR Ha Hb Hc. rewrite !rdist_angle, <- Rmult_plus_distr_l.
  apply Rmult_le_compat_l; [exact HR | apply rangle_triangle; assumption].
Qed.

(** degrees to radians, as the code does: valid latitudes land in [-pi/2, pi/2] *)
Definition rdeg (d : R) : R := d * PI / 180.
Lemma rdeg_lat_ok d : -90 <= d <= 90 -> lat_ok (rdeg d).
Proof. intros H. unfold lat_ok, rdeg. pose proof PI_RGT_0. nra. Qed.
