(** C20, the simulation's promises planner (Model/Bot.v): which days prepareWeights offers, and what the
    two planned flights of whenWillWeFly mean to Engine.Propose. *)
From Coq Require Import ZArith List Bool Arith Lia Sorting.Sorted.
From Flap Require Import Model.Num Model.Search Model.TripHistory Model.Promises Model.Predictor Model.Engine Model.Bot
  Proofs.HistoryEngineP.
Import ListNotations.
Open Scope Z_scope.

(** ---------- zrange ---------- *)
Lemma in_zrange lo hi d : In d (zrange lo hi) <-> lo <= d < hi.
Proof.
  unfold zrange. rewrite in_map_iff. split.
  - intros (i & <- & Hi). apply in_seq in Hi. lia.
  - intros H. exists (Z.to_nat (d - lo)). split; [lia|]. apply in_seq. lia.
Qed.

Lemma zrange_sorted lo hi : StronglySorted Z.lt (zrange lo hi).
Proof.
  unfold zrange. generalize (Z.to_nat (hi - lo)) as n. intros n. generalize 0%nat as s.
  induction n as [|n IH]; intros s; cbn [seq map]; constructor.
  - apply IH.
  - apply Forall_forall. intros x Hx. apply in_map_iff in Hx. destruct Hx as (i & <- & Hi).
    apply in_seq in Hi. lia.
Qed.

Lemma sorted_app (a b : list Z) : StronglySorted Z.lt a -> StronglySorted Z.lt b ->
  (forall x y, In x a -> In y b -> x < y) -> StronglySorted Z.lt (a ++ b).
Proof.
  induction a as [|x a IH]; intros Ha Hb Hab; cbn [app]; [exact Hb|].
  inversion Ha as [|? ? Ha' Hx]; subst. constructor.
  - apply IH; auto. intros u v Hu Hv. apply Hab; [right; exact Hu|exact Hv].
  - apply Forall_forall. intros y Hy. apply in_app_or in Hy. destruct Hy as [Hy|Hy].
    + rewrite Forall_forall in Hx. apply Hx. exact Hy.
    + apply Hab; [left; reflexivity|exact Hy].
Qed.

Section WithNum.
Context {N : NumOps}.
Local Notation K := (K N).
Local Notation flight := (flight N).
Local Notation promise := (promise N).
Local Notation book := (book N).
Local Notation engine := (engine N).

(** a trip of [len] days starting on day [d] would touch the promised trip [p]: it would start on or after
    the day that lies len-1 days before the promised trip starts, and no later than the day it ends *)
Definition clashes (len : Z) (p : promise) (d : Z) : Prop :=
  day_of (p_ts p) - (len - 1) <= d <= day_of (p_te p).

Definition ts_le (p q : promise) : Prop := p_ts p <= p_ts q.

Lemma day_of_mono a b : a <= b -> day_of a <= day_of b.
Proof. intros H. unfold day_of, SecondsInDay. apply Z.div_le_mono; lia. Qed.

(** the loop over the promises, from any state *)
Lemma prep_fold_spec (len hor : Z) (ps : list promise) : StronglySorted ts_le ps ->
  (forall p, In p ps -> day_of (p_ts p) <= hor) ->
  forall cd acc, exists cd' new,
    fold_left (prep_step len) ps (cd, acc) = (cd', acc ++ new) /\ cd <= cd' /\
    (forall p, In p ps -> day_of (p_te p) < cd') /\
    (forall d, In d new -> cd <= d < cd' /\ d <= hor - len /\ forall p, In p ps -> ~ clashes len p d) /\
    (forall d, cd <= d < cd' -> (forall p, In p ps -> ~ clashes len p d) -> In d new) /\
    StronglySorted Z.lt new.
Proof.
  induction ps as [|p r IH]; intros Hs Hh cd acc.
  - exists cd, []. cbn [fold_left]. rewrite app_nil_r. split; [reflexivity|]. split; [lia|].
    split; [intros q []|]. split; [intros d []|]. split; [intros d Hd; lia|constructor].
  - inversion Hs as [|? ? Hr Hp]; subst. rewrite Forall_forall in Hp.
    cbn [fold_left]. unfold prep_step at 2.
    set (sp := day_of (p_ts p) - (len - 1)). set (ep := day_of (p_te p) + 1).
    set (n1 := if cd <? sp then zrange cd sp else []).
    set (cdA := if cd <? sp then sp else cd).
    set (cd1 := if cdA <? ep then ep else cdA).
    assert (Hstep : (let '(cd1', acc1) := if cd <? sp then (sp, acc ++ zrange cd sp) else (cd, acc) in
                     (if cd1' <? ep then ep else cd1', acc1)) = (cd1, acc ++ n1)).
    { unfold cd1, cdA, n1. destruct (cd <? sp); [reflexivity|rewrite app_nil_r; reflexivity]. }
    rewrite Hstep. destruct (IH Hr (fun q Hq => Hh q (or_intror Hq)) cd1 (acc ++ n1)) as (cd' & n2 & E & Hle & Hte & Hsound & Hcomp & Hsort).
    assert (HA : cd <= cdA /\ (cd <? sp = true -> cdA = sp) /\ (cd <? sp = false -> cdA = cd)).
    { unfold cdA. destruct (Z.ltb_spec cd sp); repeat split; intros; try lia; try discriminate. }
    assert (H1 : cdA <= cd1 /\ ep <= cd1 /\ (cd1 = ep \/ (cd1 = cdA /\ ep <= cdA))).
    { unfold cd1. destruct (Z.ltb_spec cdA ep); repeat split; try lia. }
    assert (Hn1 : forall d, In d n1 <-> cd <= d < sp).
    { intros d. unfold n1. destruct (Z.ltb_spec cd sp) as [L|L].
      - apply in_zrange.
      - split; [intros []|lia]. }
    exists cd', (n1 ++ n2). rewrite E, <- app_assoc. split; [reflexivity|]. split; [lia|].
    split; [|split; [|split]].
    + intros q [<-|Hq]; [unfold ep in H1; lia|apply Hte; exact Hq].
    + intros d Hd. apply in_app_or in Hd. destruct Hd as [Hd|Hd].
      * apply Hn1 in Hd. destruct HA as (HA1 & HA2 & HA3).
        assert (cdA = sp) by (apply HA2; apply Z.ltb_lt; lia).
        split; [lia|]. split; [pose proof (Hh p (or_introl eq_refl)); unfold sp in Hd; lia|].
        intros q [<-|Hq]; unfold clashes; fold sp.
        -- lia.
        -- specialize (Hp q Hq). unfold ts_le in Hp. pose proof (day_of_mono _ _ Hp). unfold sp in Hd. lia.
      * destruct (Hsound d Hd) as (Hr1 & Hr3 & Hr2). split; [lia|]. split; [exact Hr3|].
        intros q [<-|Hq]; [unfold clashes; unfold ep in H1; lia|apply Hr2; exact Hq].
    + intros d Hd Hnc. apply in_or_app.
      destruct (Z.lt_ge_cases d cd1) as [L|L].
      * left. apply Hn1. split; [lia|].
        destruct (Z.lt_ge_cases d sp) as [L2|L2]; [exact L2|]. exfalso.
        destruct H1 as (H1a & H1b & [H1c|[H1c H1d]]).
        -- apply (Hnc p (or_introl eq_refl)). unfold clashes. fold sp. unfold ep in H1c. lia.
        -- destruct HA as (HA1 & HA2 & HA3). destruct (Z.ltb_spec cd sp) as [L3|L3].
           ++ specialize (HA2 eq_refl). lia.
           ++ specialize (HA3 eq_refl). lia.
      * right. apply Hcomp; [lia|]. intros q Hq. apply Hnc. right. exact Hq.
    + apply sorted_app; [unfold n1; destruct (cd <? sp); [apply zrange_sorted|constructor]|exact Hsort|].
      intros x y Hx Hy. apply Hn1 in Hx. destruct (Hsound y Hy) as (Hy1 & _).
      destruct HA as (HA1 & HA2 & HA3). assert (cdA = sp) by (apply HA2; apply Z.ltb_lt; lia). lia.
Qed.

(** prepareWeights offers exactly the days of the planning period on which a trip of [len] days touches
    no promised trip, each once, in increasing order *)
Theorem prepare_days_spec (b : book) (today len total : Z) :
  StronglySorted ts_le (promises_oldest_first b) ->
  (forall p, In p (promises_oldest_first b) -> day_of (p_ts p) <= today + total) ->
  (forall d, In d (prepare_days b today len total) <->
     today <= d <= today + (total - len) /\
     forall p, In p (promises_oldest_first b) -> ~ clashes len p d) /\
  StronglySorted Z.lt (prepare_days b today len total).
Proof.
  intros Hs Hhor. unfold prepare_days.
  destruct (prep_fold_spec len (today + total) _ Hs Hhor today []) as (cd' & new & E & Hle & Hte & Hsound & Hcomp & Hsort).
  rewrite E. cbn [app]. split.
  - intros d. rewrite in_app_iff, in_zrange. split.
    + intros [Hd|Hd].
      * destruct (Hsound d Hd) as ([H1 H2] & H4 & H3). split; [lia|exact H3].
      * split; [lia|]. intros p Hp. unfold clashes. specialize (Hte p Hp). lia.
    + intros [[H1 H2] H3]. destruct (Z.lt_ge_cases d cd') as [L|L].
      * left. apply Hcomp; [lia|exact H3].
      * right. lia.
  - apply sorted_app; [exact Hsort|apply zrange_sorted|].
    intros x y Hx Hy. destruct (Hsound x Hx) as ([Hx1 Hx2] & _). apply in_zrange in Hy. lia.
Qed.

End WithNum.
