(** Specification of the bisection: first true index of a monotone predicate. *)
From Coq Require Import Arith Lia.
From Flap Require Import Model.Search.

Definition monotone (n : nat) (f : nat -> bool) : Prop :=
  forall a b, a <= b -> b < n -> f a = true -> f b = true.

Lemma div2_bounds i j : i < j -> i <= Nat.div2 (i + j) < j.
Proof.
  intros H. pose proof (Nat.div2_odd (i+j)) as E.
  destruct (Nat.odd (i+j)); cbn [Nat.b2n] in E; lia.
Qed.

Lemma bsearch_spec n f (Hm : monotone n f) fuel : forall i j,
  j <= n -> i <= j -> j - i < fuel ->
  (forall a, a < i -> f a = false) ->
  (forall b, j <= b -> b < n -> f b = true) ->
  i <= bsearch fuel f i j <= j /\
  (forall a, a < bsearch fuel f i j -> f a = false) /\
  (forall b, bsearch fuel f i j <= b -> b < n -> f b = true).
Proof.
  induction fuel as [|k IH]; intros i j Hjn Hij Hfuel Hlo Hhi; [lia|].
  cbn [bsearch]. destruct (Nat.ltb_spec i j) as [Hlt|Hge].
  - pose proof (div2_bounds i j Hlt) as Hb. cbn zeta.
    remember (Nat.div2 (i+j)) as h eqn:Eh.
    destruct (f h) eqn:Efh.
    + destruct (IH i h) as (R1 & R2 & R3); try lia; auto.
      * intros b Hb1 Hb2. apply (Hm h b); auto.
      * repeat split; try lia; auto.
    + destruct (IH (S h) j) as (R1 & R2 & R3); try lia; auto.
      * intros a Ha. destruct (f a) eqn:Efa; [|reflexivity].
        assert (f h = true) by (apply (Hm a h); auto; lia). congruence.
      * repeat split; try lia; auto.
  - assert (i = j) by lia. subst. repeat split; try lia; auto.
Qed.

Theorem search_spec n f : monotone n f ->
  search n f <= n /\ (forall a, a < search n f -> f a = false) /\
  (forall b, search n f <= b -> b < n -> f b = true).
Proof.
  intros Hm. unfold search.
  assert (H1 : forall a, a < 0 -> f a = false) by (intros a Ha; lia).
  assert (H2 : forall b, n <= b -> b < n -> f b = true) by (intros b Hb1 Hb2; lia).
  destruct (bsearch_spec n f Hm (S n) 0 n ltac:(lia) ltac:(lia) ltac:(lia) H1 H2) as (R1 & R2 & R3).
  repeat split; try lia; auto.
Qed.

(** [search] is the unique index with "all false below, all true from it on". *)
Lemma search_unique n f r : monotone n f -> r <= n ->
  (forall a, a < r -> f a = false) -> (forall b, r <= b -> b < n -> f b = true) ->
  search n f = r.
Proof.
  intros Hm Hr Hlo Hhi. destruct (search_spec n f Hm) as (S1 & S2 & S3).
  destruct (Nat.lt_trichotomy (search n f) r) as [H|[H|H]]; [|exact H|].
  - specialize (Hlo (search n f) H). specialize (S3 (search n f) (le_n _) ltac:(lia)). congruence.
  - specialize (S2 r H). specialize (Hhi r (le_n _) ltac:(lia)). congruence.
Qed.

(** the search result is always within [0,n], monotone or not *)
Lemma bsearch_range fuel f : forall i j, i <= j -> i <= bsearch fuel f i j <= j.
Proof.
  induction fuel as [|k IH]; intros i j Hij; cbn [bsearch]; [lia|].
  destruct (Nat.ltb_spec i j) as [Hlt|Hge]; [|lia].
  pose proof (div2_bounds i j Hlt) as Hb. cbn zeta.
  destruct (f _).
  - specialize (IH i (Nat.div2 (i+j)) ltac:(lia)). lia.
  - specialize (IH (S (Nat.div2 (i+j))) j ltac:(lia)). lia.
Qed.
Lemma search_range n f : search n f <= n.
Proof. unfold search. pose proof (bsearch_range (S n) f 0 n ltac:(lia)). lia. Qed.
