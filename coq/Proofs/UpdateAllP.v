(** The daily update as a whole: every stored traveller is processed exactly once, whatever the
    (permitted) thread setting; what is stored, carried forward and counted does not depend on it
    (C03, C04, C17 build on this). *)
From Coq Require Import ZArith List Bool Arith Lia Permutation.
From Flap Require Import Model.Num Model.TripHistory Model.Promises Model.Predictor Model.Engine
  Proofs.LedgerP Proofs.TableP.
Import ListNotations.
Open Scope Z_scope.

(** ---- the worker ranges: finite sweep over all 256 thread bytes ---- *)
Definition valid_threads (th : Z) : bool := negb ((1 <? popcount_byte th) || (16 <? th)).
Definition range_hits (rs : list (Z * Z)) (s : Z) : nat :=
  length (filter (fun r => (fst r <=? s) && (s <=? snd r)) rs).
Definition covers_once (rs : list (Z * Z)) : bool :=
  forallb (fun s => Nat.eqb (range_hits rs (Z.of_nat s)) 1) (seq 0 16).
Definition thread_sweep : bool :=
  forallb (fun th => implb (valid_threads (Z.of_nat th))
                       (covers_once (ranges_of_threads (Z.of_nat th)) &&
                        Nat.leb (length (ranges_of_threads (Z.of_nat th)))
                                (Z.to_nat (if Z.of_nat th =? 0 then 1 else Z.of_nat th))))
          (seq 0 256).
Lemma thread_sweep_ok : thread_sweep = true.
Proof. vm_compute. reflexivity. Qed.

Lemma valid_threads_partition th s : 0 <= th < 256 -> valid_threads th = true -> 0 <= s < 16 ->
  range_hits (ranges_of_threads th) s = 1%nat.
Proof.
  intros Hth Hv Hs. pose proof thread_sweep_ok as H. unfold thread_sweep in H.
  rewrite forallb_forall in H. specialize (H (Z.to_nat th)).
  rewrite Z2Nat.id in H by lia. rewrite Hv in H. cbn [implb] in H.
  specialize (H ltac:(apply in_seq; lia)). apply andb_true_iff in H. destruct H as [H _].
  unfold covers_once in H. rewrite forallb_forall in H. specialize (H (Z.to_nat s) ltac:(apply in_seq; lia)).
  rewrite Z2Nat.id in H by lia. apply Nat.eqb_eq in H. exact H.
Qed.

Lemma valid_threads_workers th : 0 <= th < 256 -> valid_threads th = true ->
  (length (ranges_of_threads th) <= Z.to_nat (if (th =? 0)%Z then 1%Z else th))%nat.
Proof.
  intros Hth Hv. pose proof thread_sweep_ok as H. unfold thread_sweep in H.
  rewrite forallb_forall in H. specialize (H (Z.to_nat th)).
  rewrite Z2Nat.id in H by lia. rewrite Hv in H. cbn [implb] in H.
  specialize (H ltac:(apply in_seq; lia)). apply andb_true_iff in H. destruct H as [_ H].
  apply Nat.leb_le in H. exact H.
Qed.

Section WithNum.
Context {N : NumOps}.
Local Notation K := (K N).
Local Notation traveller := (traveller N).
Local Notation table := (table N).
Local Notation engine := (engine N).

Section Fixed.
Variables (p : params N) (share : K) (now : Z).

Definition U (t : traveller) := update_traveller t p share now.
Definition upd_record (t : traveller) : traveller := match fst (U t) with Some t' => t' | None => t end.
Definition writes_of (recs : table) : table :=
  flat_map (fun kt => match fst (U (snd kt)) with Some t' => [(fst kt, t')] | None => [] end) recs.

Definition b2z (b : bool) : Z := if b then 1 else 0.
Definition count_grounded (recs : table) : Z :=
  fold_right (fun kt acc => b2z (c_grounded (snd (U (snd kt)))) + acc) 0 recs.
Definition count_travelled (recs : table) : Z :=
  fold_right (fun kt acc => (match c_dist (snd (U (snd kt))) with Some _ => 1 | None => 0 end) + acc) 0 recs.
Definition count_flights (recs : table) : Z :=
  fold_right (fun kt acc => (match c_dist (snd (U (snd kt))) with Some (_, f) => f | None => 0 end) + acc) 0 recs.

Lemma update_some_spec recs : forall (w : table) (s : ustats N),
  fst (update_some recs p share now w s) = w ++ writes_of recs /\
  us_grounded (snd (update_some recs p share now w s)) = us_grounded s + count_grounded recs /\
  us_travellers (snd (update_some recs p share now w s)) = us_travellers s + count_travelled recs /\
  us_flights (snd (update_some recs p share now w s)) = us_flights s + count_flights recs.
Proof.
  induction recs as [|[k t] r IH]; intros w s; cbn [update_some writes_of flat_map count_grounded count_travelled count_flights fold_right].
  - cbn [fst snd]. rewrite app_nil_r. split; [reflexivity|]. split; [lia|]. split; lia.
  - cbn [fst snd]. fold (U t). destruct (U t) as [wt c] eqn:EU. cbn [fst snd].
    destruct (IH (match wt with Some t' => w ++ [(k, t')] | None => w end) (add_contrib s (shard_of k) c)) as (A & B & C & D).
    fold (writes_of r) (count_grounded r) (count_travelled r) (count_flights r).
    rewrite A, B, C, D. unfold add_contrib. cbn [us_grounded us_travellers us_flights]. unfold b2z.
    split; [destruct wt; [rewrite <- app_assoc; reflexivity|reflexivity]|].
    destruct (c_grounded c); destruct (c_dist c) as [[d f]|]; repeat split; lia.
Qed.

Lemma writes_of_app a b : writes_of (a ++ b) = writes_of a ++ writes_of b.
Proof. unfold writes_of. apply flat_map_app. Qed.

Lemma writes_of_keys_notin (l : table) k : ~ In k (map fst l) -> ~ In k (map fst (writes_of l)).
Proof.
  induction l as [|[k1 t1] r IH]; cbn [writes_of flat_map map fst]; [auto|]. intros H.
  fold (writes_of r). rewrite map_app. intros C. apply in_app_or in C. destruct C as [C|C].
  - cbn [fst snd] in C. destruct (fst (U t1)); cbn in C; [destruct C as [C|[]]; apply H; left; exact C|contradiction].
  - apply IH in C; [exact C|]. intros D. apply H. right. exact D.
Qed.

Lemma writes_of_NoDup (l : table) : NoDup (map fst l) -> NoDup (map fst (writes_of l)).
Proof.
  induction l as [|[k1 t1] r IH]; cbn [writes_of flat_map map fst]; [constructor|]. intros Hnd.
  inversion Hnd as [|? ? Hnotin Hnd']; subst. fold (writes_of r). rewrite map_app. cbn [fst snd].
  destruct (fst (U t1)); cbn [map fst app]; [constructor; [apply writes_of_keys_notin, Hnotin|apply IH, Hnd']|apply IH, Hnd'].
Qed.

Lemma tget_writes_of (l : table) k : NoDup (map fst l) ->
  tget (writes_of l) k = match tget l k with Some t => fst (U t) | None => None end.
Proof.
  induction l as [|[k1 t1] r IH]; intros Hnd; cbn [writes_of flat_map tget]; [reflexivity|].
  inversion Hnd as [|? ? Hnotin Hnd']; subst. fold (writes_of r). cbn [fst snd].
  destruct (Z.eqb_spec k k1) as [->|Hne].
  - destruct (fst (U t1)) as [t'|]; cbn [app tget]; [rewrite Z.eqb_refl; reflexivity|].
    apply tget_None_notin, writes_of_keys_notin, Hnotin.
  - destruct (fst (U t1)) as [t'|]; cbn [app tget]; [destruct (Z.eqb_spec k k1); [contradiction|]|]; apply IH, Hnd'.
Qed.

Lemma count_perm (f : (Z * traveller) -> Z) (l l' : table) : Permutation l l' ->
  fold_right (fun kt acc => f kt + acc) 0 l = fold_right (fun kt acc => f kt + acc) 0 l'.
Proof. induction 1; cbn [fold_right]; lia. Qed.

Lemma count_app (f : (Z * traveller) -> Z) (a b : table) :
  fold_right (fun kt acc => f kt + acc) 0 (a ++ b) =
  fold_right (fun kt acc => f kt + acc) 0 a + fold_right (fun kt acc => f kt + acc) 0 b.
Proof. induction a; cbn [app fold_right]; lia. Qed.

(** the workers' results for a list of ranges, as update_all computes them *)
Definition worker_results (rs : list (Z * Z)) (snapshot : table) :=
  map (fun r => update_some (filter (fun kt => in_range r (fst kt)) snapshot) p share now [] stats0) rs.

Definition parts (rs : list (Z * Z)) (snapshot : table) : table :=
  flat_map (fun r => filter (fun kt => in_range r (fst kt)) snapshot) rs.

Lemma worker_writes rs snapshot : flat_map fst (worker_results rs snapshot) = writes_of (parts rs snapshot).
Proof.
  unfold worker_results, parts. induction rs as [|r t IH]; cbn [map flat_map]; [reflexivity|].
  rewrite writes_of_app. destruct (update_some_spec (filter (fun kt => in_range r (fst kt)) snapshot) [] stats0) as (A & _).
  cbn [app] in A. apply (f_equal2 (@app _)); [exact A|exact IH].
Qed.

Lemma worker_stats rs snapshot : forall (ut : ustats N),
  let ut' := fold_left (fun ut wr => merge_stats ut (snd wr)) (worker_results rs snapshot) ut in
  us_grounded ut' = us_grounded ut + count_grounded (parts rs snapshot) /\
  us_travellers ut' = us_travellers ut + count_travelled (parts rs snapshot) /\
  us_flights ut' = us_flights ut + count_flights (parts rs snapshot) /\
  us_share ut' = us_share ut.
Proof.
  unfold worker_results, parts. induction rs as [|r t IH]; intros ut; cbn [map flat_map fold_left].
  - cbn. repeat split; lia.
  - cbn zeta in IH. destruct (update_some_spec (filter (fun kt => in_range r (fst kt)) snapshot) [] stats0) as (_ & B & C & D).
    set (res := update_some _ p share now [] stats0) in *.
    destruct (IH (merge_stats ut (snd res))) as (E & F & G & H).
    rewrite E, F, G, H. unfold count_grounded, count_travelled, count_flights. rewrite !count_app.
    unfold merge_stats. cbn [us_grounded us_travellers us_flights us_share snd].
    fold (count_grounded (filter (fun kt => in_range r (fst kt)) snapshot)) in B.
    unfold count_grounded, count_travelled, count_flights in B, C, D. cbn [stats0 us_grounded us_travellers us_flights] in B, C, D.
    repeat split; lia.
Qed.

End Fixed.

Definition keys_ok (tb : table) : Prop :=
  NoDup (map fst tb) /\ forall k, In k (map fst tb) -> 0 <= k < 2 ^ 160.

Lemma shard_range k : 0 <= k < 2 ^ 160 -> 0 <= shard_of k < 16.
Proof.
  intros H. unfold shard_of. split; [apply Z.div_pos; lia|].
  apply Z.div_lt_upper_bound; [lia|]. change (2 ^ 156 * 16) with (2 ^ 160). lia.
Qed.

(** with a permitted thread setting the workers' slices are a permutation of the snapshot *)
Lemma parts_perm th (tb : table) : 0 <= th < 256 -> valid_threads th = true -> keys_ok tb ->
  Permutation (parts (ranges_of_threads th) tb) tb.
Proof.
  intros Hth Hv [Hnd Hk]. unfold parts.
  set (ps := map (fun r (kt : Z * traveller) => in_range r (fst kt)) (ranges_of_threads th)).
  assert (E : flat_map (fun r => filter (fun kt => in_range r (fst kt)) tb) (ranges_of_threads th) =
              flat_map (fun q => filter q tb) ps).
  { unfold ps. induction (ranges_of_threads th) as [|r l IH]; cbn [map flat_map]; [reflexivity|]. rewrite IH. reflexivity. }
  rewrite E.
  apply partition_perm. intros [k t] Hin. unfold hits, ps.
  assert (Hs := shard_range k (Hk k (in_map fst _ _ Hin))).
  pose proof (valid_threads_partition th (shard_of k) Hth Hv Hs) as H1. unfold range_hits in H1.
  rewrite <- H1. clear. induction (ranges_of_threads th) as [|r l IH]; cbn [map filter]; [reflexivity|].
  unfold in_range at 1. cbn [fst]. destruct ((fst r <=? shard_of k) && (shard_of k <=? snd r)); cbn [length]; rewrite IH; reflexivity.
Qed.

(** the share of an update, as the code computes it *)
Definition share_of (e : engine) : K :=
  let a := e_admin e in let p := a_params a in
  let pcv := if has_bit (pAlgo p) pamCorrectDailyTotal then snd (pc_cycle (a_pc a) (pCorrWindow p)) else k0 N in
  let a1 := kofZ N (pMinGrounded p) in let a2 := kofZ N (a_grounded a) in
  let backfillers := if kltb N a1 a2 then a2 else a1 in
  if kltb N (k0 N) backfillers then kdiv N (kadd N (pDailyTotal p) pcv) backfillers else k0 N.

(** THE theorem about the daily update *)
Theorem update_all_spec (e : engine) now fit :
  now mod SecondsInDay = 0 ->
  0 <= pThreads (a_params (e_admin e)) < 256 -> valid_threads (pThreads (a_params (e_admin e))) = true ->
  keys_ok (e_table e) ->
  let p := a_params (e_admin e) in
  let share := share_of e in
  let '(e', ut, r) := update_all e now fit in
  r = None /\
  (forall k, tget (e_table e') k = option_map (upd_record p share now) (tget (e_table e) k)) /\
  us_share ut = share /\
  us_grounded ut = count_grounded p share now (e_table e) /\
  a_grounded (e_admin e') = us_grounded ut /\
  us_travellers ut = count_travelled p share now (e_table e) /\
  us_flights ut = count_flights p share now (e_table e) /\
  a_params (e_admin e') = p.
Proof.
  intros Hnow Hth Hv Hk. cbn zeta. unfold update_all, share_of.
  rewrite Hnow. cbn [Z.eqb negb].
  set (p := a_params (e_admin e)) in *.
  destruct (has_bit (pAlgo p) pamCorrectDailyTotal) eqn:Ebit.
  - destruct (pc_cycle (a_pc (e_admin e)) (pCorrWindow p)) as [pc1 pcv] eqn:Ecy. cbn [snd].
    set (bf := if kltb N (kofZ N (pMinGrounded p)) (kofZ N (a_grounded (e_admin e))) then _ else _).
    destruct (kltb N (k0 N) bf) eqn:Ebf.
    all: cbn [fst snd];
      set (share := _ : K);
      fold (worker_results p share now (ranges_of_threads (pThreads p)) (e_table e));
      match goal with |- context [fold_left (fun ut wr => merge_stats ut (snd wr)) _ ?u0] => set (ut0 := u0) end;
      destruct (worker_stats p share now (ranges_of_threads (pThreads p)) (e_table e) ut0) as (S1 & S2 & S3 & S4);
      cbn zeta in S1, S2, S3, S4;
      pose proof (parts_perm (pThreads p) (e_table e) Hth Hv Hk) as Hperm;
      split; [reflexivity|]; split;
      [ intros k; cbn [e_table];
        change (fold_left (fun tb wr => fold_left (fun tb0 kt => tput tb0 (fst kt) (snd kt)) (fst wr) tb)
                  (worker_results p share now (ranges_of_threads (pThreads p)) (e_table e)) (e_table e))
          with (fold_left (fun tb wr => put_all (fst wr) tb)
                  (worker_results p share now (ranges_of_threads (pThreads p)) (e_table e)) (e_table e));
        rewrite (fold_put_flat fst), worker_writes;
        destruct Hk as [Hnd Hrange];
        assert (Hndp : NoDup (map fst (parts (ranges_of_threads (pThreads p)) (e_table e))))
          by (eapply Permutation_NoDup; [apply Permutation_map, Permutation_sym, Hperm|exact Hnd]);
        rewrite tget_put_all by (apply writes_of_NoDup, Hndp);
        rewrite tget_writes_of by exact Hndp;
        rewrite (tget_perm _ _ k Hndp Hperm);
        unfold upd_record, U; destruct (tget (e_table e) k) as [t|]; cbn [option_map]; [destruct (fst (update_traveller t p share now)); reflexivity|reflexivity]
      | cbn [e_admin a_grounded a_params finish_stats us_grounded us_travellers us_flights us_share];
        rewrite S1, S2, S3, S4;
        unfold count_grounded, count_travelled, count_flights;
        rewrite (count_perm _ _ _ Hperm), (count_perm (fun kt => match c_dist (snd (U p share now (snd kt))) with Some _ => 1 | None => 0 end) _ _ Hperm),
                (count_perm (fun kt => match c_dist (snd (U p share now (snd kt))) with Some (_, f) => f | None => 0 end) _ _ Hperm);
        unfold ut0; cbn [us_grounded us_travellers us_flights us_share];
        repeat split; try reflexivity; lia ].
  - set (bf := if kltb N (kofZ N (pMinGrounded p)) (kofZ N (a_grounded (e_admin e))) then _ else _).
    destruct (kltb N (k0 N) bf) eqn:Ebf.
    all: cbn [fst snd];
      set (share := _ : K);
      fold (worker_results p share now (ranges_of_threads (pThreads p)) (e_table e));
      match goal with |- context [fold_left (fun ut wr => merge_stats ut (snd wr)) _ ?u0] => set (ut0 := u0) end;
      destruct (worker_stats p share now (ranges_of_threads (pThreads p)) (e_table e) ut0) as (S1 & S2 & S3 & S4);
      cbn zeta in S1, S2, S3, S4;
      pose proof (parts_perm (pThreads p) (e_table e) Hth Hv Hk) as Hperm;
      split; [reflexivity|]; split;
      [ intros k; cbn [e_table];
        change (fold_left (fun tb wr => fold_left (fun tb0 kt => tput tb0 (fst kt) (snd kt)) (fst wr) tb)
                  (worker_results p share now (ranges_of_threads (pThreads p)) (e_table e)) (e_table e))
          with (fold_left (fun tb wr => put_all (fst wr) tb)
                  (worker_results p share now (ranges_of_threads (pThreads p)) (e_table e)) (e_table e));
        rewrite (fold_put_flat fst), worker_writes;
        destruct Hk as [Hnd Hrange];
        assert (Hndp : NoDup (map fst (parts (ranges_of_threads (pThreads p)) (e_table e))))
          by (eapply Permutation_NoDup; [apply Permutation_map, Permutation_sym, Hperm|exact Hnd]);
        rewrite tget_put_all by (apply writes_of_NoDup, Hndp);
        rewrite tget_writes_of by exact Hndp;
        rewrite (tget_perm _ _ k Hndp Hperm);
        unfold upd_record, U; destruct (tget (e_table e) k) as [t|]; cbn [option_map]; [destruct (fst (update_traveller t p share now)); reflexivity|reflexivity]
      | cbn [e_admin a_grounded a_params finish_stats us_grounded us_travellers us_flights us_share];
        rewrite S1, S2, S3, S4;
        unfold count_grounded, count_travelled, count_flights;
        rewrite (count_perm _ _ _ Hperm), (count_perm (fun kt => match c_dist (snd (U p share now (snd kt))) with Some _ => 1 | None => 0 end) _ _ Hperm),
                (count_perm (fun kt => match c_dist (snd (U p share now (snd kt))) with Some (_, f) => f | None => 0 end) _ _ Hperm);
        unfold ut0; cbn [us_grounded us_travellers us_flights us_share];
        repeat split; try reflexivity; lia ].
Qed.

End WithNum.

(** ---- consequences used by C04 ---- *)
Section Independence.
Context {N : NumOps}.
Local Notation table := (table N).

(** the per-traveller step reads only the trip parameters, never the thread setting *)
Lemma update_traveller_th_params (t : traveller N) p1 p2 share now :
  th_params p1 = th_params p2 -> update_traveller t p1 share now = update_traveller t p2 share now.
Proof. intros E. unfold update_traveller. rewrite E. reflexivity. Qed.

(** writes to distinct keys commute: any interleaving (permutation) of the workers' write lists gives
    the same table *)
Lemma put_all_perm (ws ws' tb : table) k : NoDup (map fst ws) -> Permutation ws ws' ->
  tget (put_all ws' tb) k = tget (put_all ws tb) k.
Proof.
  intros Hnd Hp.
  assert (Hnd' : NoDup (map fst ws')) by (eapply Permutation_NoDup; [apply Permutation_map; exact Hp|exact Hnd]).
  rewrite !tget_put_all by assumption. rewrite (tget_perm ws ws' k Hnd Hp). reflexivity.
Qed.

(** the integer totals do not depend on the order in which the workers' statistics arrive *)
Lemma merge_int_perm (rs rs' : list (table * ustats N)) : Permutation rs rs' -> forall ut : ustats N,
  let a := fold_left (fun ut wr => merge_stats ut (snd wr)) rs ut in
  let b := fold_left (fun ut wr => merge_stats ut (snd wr)) rs' ut in
  us_grounded a = us_grounded b /\ us_travellers a = us_travellers b /\ us_flights a = us_flights b /\
  us_share a = us_share b.
Proof.
  induction 1 as [|x l l' _ IH|x y l|l1 l2 l3 _ IH1 _ IH2]; intros ut; cbn zeta; cbn [fold_left].
  - auto.
  - apply IH.
  - assert (G : forall (l0 : list (table * ustats N)) (u1 u2 : ustats N),
        us_grounded u1 = us_grounded u2 -> us_travellers u1 = us_travellers u2 -> us_flights u1 = us_flights u2 ->
        us_share u1 = us_share u2 ->
        let a := fold_left (fun ut wr => merge_stats ut (snd wr)) l0 u1 in
        let b := fold_left (fun ut wr => merge_stats ut (snd wr)) l0 u2 in
        us_grounded a = us_grounded b /\ us_travellers a = us_travellers b /\ us_flights a = us_flights b /\ us_share a = us_share b).
    { induction l0 as [|w r IHr]; intros u1 u2 A B C D; cbn zeta; cbn [fold_left]; [auto|].
      apply IHr; unfold merge_stats; cbn [us_grounded us_travellers us_flights us_share]; congruence. }
    apply G; unfold merge_stats; cbn [us_grounded us_travellers us_flights us_share]; first [reflexivity|lia].
  - cbn zeta in IH1, IH2. destruct (IH1 ut) as (A & B & C & D). destruct (IH2 ut) as (A' & B' & C' & D').
    repeat split; congruence.
Qed.

End Independence.

(** ---- the distance total: per-prefix totals, taken from the one worker that owns the prefix and added
    in prefix order, so that the result does not depend on the thread setting (no laws of addition
    needed: it is the same computation for every setting) ---- *)
Section Distance.
Context {N : NumOps}.
Local Notation K := (K N).
Local Notation table := (table N).
Variables (p : params N) (share : K) (now : Z).

(** the sequential sum of yesterday's distances over the records of shard [s], in table order, from [acc] *)
Fixpoint shard_sum (s : Z) (recs : table) (acc : K) : K :=
  match recs with
  | [] => acc
  | (k, t) :: r =>
      shard_sum s r (if shard_of k =? s
                     then match c_dist (snd (update_traveller t p share now)) with Some (d, _) => kadd N acc d | None => acc end
                     else acc)
  end.

Lemma bump_length (l : list K) i d : length (bump l i d) = length l.
Proof.
  unfold bump. rewrite app_length. rewrite <- (firstn_skipn i l) at 3. rewrite app_length. f_equal.
  destruct (skipn i l); reflexivity.
Qed.

Lemma nth_bump (l : list K) i j d : (i < length l)%nat ->
  nth j (bump l i d) (k0 N) = if Nat.eqb j i then kadd N (nth i l (k0 N)) d else nth j l (k0 N).
Proof.
  intros Hi. unfold bump.
  assert (Hf : length (firstn i l) = i) by (apply firstn_length_le; lia).
  destruct (skipn i l) as [|v r] eqn:Es.
  { apply (f_equal (@length _)) in Es. rewrite skipn_length in Es. cbn in Es. lia. }
  assert (Ev : nth i l (k0 N) = v).
  { rewrite <- (firstn_skipn i l) at 1. rewrite app_nth2 by lia. rewrite Hf, Nat.sub_diag, Es. reflexivity. }
  destruct (Nat.eqb_spec j i) as [->|Hne].
  - rewrite app_nth2 by lia. rewrite Hf, Nat.sub_diag. cbn [nth]. rewrite Ev. reflexivity.
  - rewrite <- (firstn_skipn i l) at 2. rewrite Es.
    destruct (Nat.lt_ge_cases j i) as [Hlt|Hge].
    + rewrite !app_nth1 by lia. reflexivity.
    + rewrite !app_nth2 by lia. rewrite Hf. destruct (j - i)%nat as [|m] eqn:Em; [lia|]. reflexivity.
Qed.

(** one worker: the per-prefix totals after its records *)
Lemma update_some_pdist recs : forall (w : table) (s0 : ustats N),
  length (us_pdist s0) = NShards ->
  (forall k t, In (k, t) recs -> 0 <= shard_of k < Z.of_nat NShards) ->
  length (us_pdist (snd (update_some recs p share now w s0))) = NShards /\
  forall j, (j < NShards)%nat ->
    nth j (us_pdist (snd (update_some recs p share now w s0))) (k0 N) =
    shard_sum (Z.of_nat j) recs (nth j (us_pdist s0) (k0 N)).
Proof.
  induction recs as [|[k t] r IH]; intros w s0 Hl Hr; cbn [update_some shard_sum].
  - cbn [snd]. split; [exact Hl|reflexivity].
  - destruct (update_traveller t p share now) as [wt c] eqn:EU. cbn [snd].
    pose proof (Hr k t (or_introl eq_refl)) as Hk.
    set (s1 := add_contrib s0 (shard_of k) c).
    assert (Hl1 : length (us_pdist s1) = NShards).
    { unfold s1, add_contrib. cbn [us_pdist]. destruct (c_dist c) as [[d f]|]; [rewrite bump_length|]; exact Hl. }
    destruct (IH (match wt with Some t' => w ++ [(k, t')] | None => w end) s1 Hl1 ltac:(intros k2 t2 H; apply (Hr k2 t2); right; exact H)) as [L Hn].
    split; [exact L|]. intros j Hj. rewrite (Hn j Hj). f_equal.
    unfold s1, add_contrib. cbn [us_pdist].
    destruct (c_dist c) as [[d f]|].
    + rewrite nth_bump by (rewrite Hl; lia).
      destruct (Z.eqb_spec (shard_of k) (Z.of_nat j)) as [E|E].
      * replace (Z.to_nat (shard_of k)) with j by lia. rewrite Nat.eqb_refl. reflexivity.
      * destruct (Nat.eqb_spec j (Z.to_nat (shard_of k))) as [E2|_]; [lia|reflexivity].
    + destruct (shard_of k =? Z.of_nat j); reflexivity.
Qed.

(** records outside the shard do not matter *)
Lemma shard_sum_filter s (f : Z * traveller N -> bool) recs : forall acc,
  (forall k t, In (k, t) recs -> shard_of k = s -> f (k, t) = true) ->
  shard_sum s (filter f recs) acc = shard_sum s recs acc.
Proof.
  induction recs as [|[k t] r IH]; intros acc H; cbn [filter shard_sum]; [reflexivity|].
  destruct (f (k, t)) eqn:Ef.
  - cbn [shard_sum]. apply IH. intros k2 t2 Hin. apply (H k2 t2). right. exact Hin.
  - destruct (Z.eqb_spec (shard_of k) s) as [E|E].
    + rewrite (H k t (or_introl eq_refl) E) in Ef. discriminate.
    + apply IH. intros k2 t2 Hin. apply (H k2 t2). right. exact Hin.
Qed.

Lemma shard_sum_none s recs : forall acc,
  (forall k t, In (k, t) recs -> shard_of k <> s) -> shard_sum s recs acc = acc.
Proof.
  induction recs as [|[k t] r IH]; intros acc H; cbn [shard_sum]; [reflexivity|].
  destruct (Z.eqb_spec (shard_of k) s) as [E|E]; [exfalso; apply (H k t (or_introl eq_refl) E)|].
  apply IH. intros k2 t2 Hin. apply (H k2 t2). right. exact Hin.
Qed.

Definition norm0 (v : K) : K := if keqb N v (k0 N) then k0 N else v.
Definition total_of (tb : table) (j : nat) : K := shard_sum (Z.of_nat j) tb (k0 N).

Lemma nth_map_combine (f : K * K -> K) (a b : list K) j : (j < length a)%nat -> length a = length b ->
  nth j (map f (combine a b)) (k0 N) = f (nth j a (k0 N), nth j b (k0 N)).
Proof.
  revert b j. induction a as [|x a IH]; intros b j Hj Hl; [cbn in Hj; lia|].
  destruct b as [|y b]; [discriminate|]. destruct j as [|j]; [reflexivity|].
  cbn [combine map nth]. apply IH; cbn [length] in *; lia.
Qed.

Lemma merge_stats_pdist (ut el : ustats N) j : (j < NShards)%nat ->
  length (us_pdist ut) = NShards -> length (us_pdist el) = NShards ->
  length (us_pdist (merge_stats ut el)) = NShards /\
  nth j (us_pdist (merge_stats ut el)) (k0 N) =
    if keqb N (nth j (us_pdist el) (k0 N)) (k0 N) then nth j (us_pdist ut) (k0 N) else nth j (us_pdist el) (k0 N).
Proof.
  intros Hj H1 H2. unfold merge_stats. cbn [us_pdist]. split.
  - rewrite map_length, combine_length, H1, H2. apply Nat.min_id.
  - rewrite nth_map_combine by (rewrite ?H1, ?H2; auto). reflexivity.
Qed.

Hypothesis zero_is_zero : keqb N (k0 N) (k0 N) = true.

(** one worker's total for a shard: the shard's total when the shard is in its range, zero otherwise *)
Lemma worker_pdist (r : Z * Z) (tb : table) j :
  (forall k t, In (k, t) tb -> 0 <= shard_of k < Z.of_nat NShards) -> (j < NShards)%nat ->
  let res := update_some (filter (fun kt => in_range r (fst kt)) tb) p share now [] stats0 in
  length (us_pdist (snd res)) = NShards /\
  nth j (us_pdist (snd res)) (k0 N) =
    if (fst r <=? Z.of_nat j) && (Z.of_nat j <=? snd r) then total_of tb j else k0 N.
Proof.
  intros Hk Hj res.
  destruct (update_some_pdist (filter (fun kt => in_range r (fst kt)) tb) [] stats0) as [L Hn].
  { apply repeat_length. }
  { intros k t Hin. apply filter_In in Hin. apply (Hk k t), Hin. }
  split; [exact L|]. unfold res. rewrite (Hn j Hj).
  assert (E0 : nth j (us_pdist (stats0 (N:=N))) (k0 N) = k0 N).
  { cbn [stats0 us_pdist]. apply nth_repeat. }
  rewrite E0. unfold total_of.
  destruct ((fst r <=? Z.of_nat j) && (Z.of_nat j <=? snd r)) eqn:Er.
  - apply shard_sum_filter. intros k t _ Es. cbn [fst]. unfold in_range. rewrite Es. exact Er.
  - apply shard_sum_none. intros k t Hin Es. apply filter_In in Hin. destruct Hin as [_ Hin]. cbn [fst] in Hin.
    unfold in_range in Hin. rewrite Es, Er in Hin. discriminate.
Qed.

(** merging the workers' results: a shard covered by at most one range ends up with that worker's total *)
Lemma merged_pdist (tb : table) j :
  (forall k t, In (k, t) tb -> 0 <= shard_of k < Z.of_nat NShards) -> (j < NShards)%nat ->
  forall (rs : list (Z * Z)) (ut : ustats N), length (us_pdist ut) = NShards ->
  (range_hits rs (Z.of_nat j) <= 1)%nat ->
  let ut' := fold_left (fun ut wr => merge_stats ut (snd wr)) (worker_results p share now rs tb) ut in
  length (us_pdist ut') = NShards /\
  nth j (us_pdist ut') (k0 N) =
    if Nat.eqb (range_hits rs (Z.of_nat j)) 0 then nth j (us_pdist ut) (k0 N)
    else if keqb N (total_of tb j) (k0 N) then nth j (us_pdist ut) (k0 N) else total_of tb j.
Proof.
  intros Hk Hj. induction rs as [|r t IH]; intros ut Hl Hh; cbn [worker_results map fold_left].
  - split; [exact Hl|reflexivity].
  - destruct (worker_pdist r tb j Hk Hj) as [Lw Nw]. cbn zeta in Lw, Nw.
    set (res := update_some (filter (fun kt => in_range r (fst kt)) tb) p share now [] stats0) in *.
    destruct (merge_stats_pdist ut (snd res) j Hj Hl Lw) as [L1 N1].
    unfold range_hits in Hh |- *. cbn [filter] in Hh |- *.
    fold (worker_results p share now t tb).
    destruct ((fst r <=? Z.of_nat j) && (Z.of_nat j <=? snd r)) eqn:Er.
    + cbn [length] in Hh |- *.
      assert (Ht0 : range_hits t (Z.of_nat j) = 0%nat) by (unfold range_hits; lia).
      destruct (IH (merge_stats ut (snd res)) L1 ltac:(lia)) as [L2 N2]. split; [exact L2|].
      rewrite N2, Ht0. cbn [Nat.eqb]. rewrite N1, Nw. reflexivity.
    + destruct (IH (merge_stats ut (snd res)) L1 Hh) as [L2 N2]. split; [exact L2|].
      rewrite N2, N1, Nw, zero_is_zero. reflexivity.
Qed.

Lemma merged_keeps_distance : forall (rs : list (table * ustats N)) (ut : ustats N),
  us_distance (fold_left (fun ut wr => merge_stats ut (snd wr)) rs ut) = us_distance ut.
Proof. induction rs as [|w r IH]; intros ut; cbn [fold_left]; [reflexivity|]. rewrite IH. reflexivity. Qed.

(** the reported distance total: the per-shard totals (taken as zero when they compare equal to zero)
    added in shard order - the thread setting does not occur in it *)
Definition distance_total (tb : table) : K :=
  fold_left (kadd N) (map (fun j => norm0 (total_of tb j)) (seq 0 NShards)) (k0 N).

Theorem merged_distance th (tb : table) (ut0 : ustats N) :
  0 <= th < 256 -> valid_threads th = true -> keys_ok tb ->
  us_pdist ut0 = repeat (k0 N) NShards -> us_distance ut0 = k0 N ->
  us_distance (finish_stats (fold_left (fun ut wr => merge_stats ut (snd wr))
                                       (worker_results p share now (ranges_of_threads th) tb) ut0)) = distance_total tb.
Proof.
  intros Hth Hv [Hnd Hk] Hp0 Hd0.
  assert (Hsh : forall k t, In (k, t) tb -> 0 <= shard_of k < Z.of_nat NShards).
  { intros k t Hin. apply shard_range, Hk. apply (in_map fst _ _ Hin). }
  set (ut' := fold_left _ _ ut0).
  assert (Hall : forall j, (j < NShards)%nat -> range_hits (ranges_of_threads th) (Z.of_nat j) = 1%nat).
  { intros j Hj. apply valid_threads_partition; [exact Hth|exact Hv|unfold NShards in Hj; lia]. }
  assert (Hl0 : length (us_pdist ut0) = NShards) by (rewrite Hp0; apply repeat_length).
  assert (HL : length (us_pdist ut') = NShards).
  { destruct (merged_pdist tb 0 Hsh ltac:(unfold NShards; lia) (ranges_of_threads th) ut0 Hl0) as [L _].
    { rewrite (Hall 0%nat ltac:(unfold NShards; lia)). lia. }
    exact L. }
  assert (Hpd : us_pdist ut' = map (fun j => norm0 (total_of tb j)) (seq 0 NShards)).
  { apply (nth_ext _ _ (k0 N) (k0 N)).
    - rewrite HL, map_length, seq_length. reflexivity.
    - intros j Hj. rewrite HL in Hj.
      destruct (merged_pdist tb j Hsh Hj (ranges_of_threads th) ut0 Hl0) as [_ Nn].
      { rewrite (Hall j Hj). lia. }
      fold ut' in Nn. rewrite Nn, (Hall j Hj). cbn [Nat.eqb].
      rewrite Hp0, nth_repeat.
      rewrite (nth_indep _ (k0 N) (norm0 (total_of tb 0))) by (rewrite map_length, seq_length; exact Hj).
      rewrite (map_nth (fun j => norm0 (total_of tb j))), seq_nth by exact Hj. cbn [Nat.add].
      unfold norm0. reflexivity. }
  unfold finish_stats. cbn [us_distance]. rewrite Hpd. unfold ut'. rewrite merged_keeps_distance, Hd0. reflexivity.
Qed.

End Distance.


Section DistanceAll.
Context {N : NumOps}.

(** the reported distance of the daily update, for every accepted thread setting *)
Theorem update_all_distance (e : engine N) now fit :
  now mod SecondsInDay = 0 ->
  0 <= pThreads (a_params (e_admin e)) < 256 -> valid_threads (pThreads (a_params (e_admin e))) = true ->
  keys_ok (e_table e) -> keqb N (k0 N) (k0 N) = true ->
  us_distance (snd (fst (update_all e now fit))) =
  distance_total (a_params (e_admin e)) (share_of e) now (e_table e).
Proof.
  intros Hnow Hth Hv Hk Hz. unfold update_all, share_of.
  rewrite Hnow. cbn [Z.eqb negb].
  set (p := a_params (e_admin e)) in *.
  destruct (has_bit (pAlgo p) pamCorrectDailyTotal).
  - destruct (pc_cycle (a_pc (e_admin e)) (pCorrWindow p)) as [pc1 pcv]. cbn [snd].
    set (bf := if kltb N (kofZ N (pMinGrounded p)) (kofZ N (a_grounded (e_admin e))) then _ else _).
    destruct (kltb N (k0 N) bf); cbn [fst snd];
      apply (merged_distance p _ now Hz (pThreads p) (e_table e)); try assumption; reflexivity.
  - set (bf := if kltb N (kofZ N (pMinGrounded p)) (kofZ N (a_grounded (e_admin e))) then _ else _).
    destruct (kltb N (k0 N) bf); cbn [fst snd];
      apply (merged_distance p _ now Hz (pThreads p) (e_table e)); try assumption; reflexivity.
Qed.

(** ... hence the same for any two parameter sets that differ in the thread setting only *)
Lemma shard_sum_th_params (p1 p2 : params N) share now s (recs : table N) acc :
  th_params p1 = th_params p2 -> shard_sum p1 share now s recs acc = shard_sum p2 share now s recs acc.
Proof.
  intros E. revert acc. induction recs as [|[k t] r IH]; intros acc; cbn [shard_sum]; [reflexivity|].
  rewrite (update_traveller_th_params t p1 p2 share now E). apply IH.
Qed.

Theorem distance_total_ignores_threads (p1 p2 : params N) share now (tb : table N) :
  th_params p1 = th_params p2 -> distance_total p1 share now tb = distance_total p2 share now tb.
Proof.
  intros E. unfold distance_total. f_equal. apply map_ext. intros j. unfold total_of.
  rewrite (shard_sum_th_params p1 p2 share now _ tb _ E). reflexivity.
Qed.

End DistanceAll.
