(** The daily update as a whole: every stored traveller is processed exactly once, whatever the
    (permitted) thread setting; what is stored, carried forward and counted does not depend on it
    (C03, C04, C17 build on this). *)
From Coq Require Import ZArith List Bool Arith Lia Permutation.
From Flap Require Import Model.Num Model.TripHistory Model.Promises Model.Predictor Model.Engine
  Proofs.LedgerP Proofs.TableP.
Import ListNotations.
Open Scope Z_scope.

(** ---- the worker ranges: finite sweep over all 256 thread bytes ---- *)
Definition valid_threads (th : Z) : bool := negb ((1 <? popcount_byte th) || (16 <? th)).
Definition range_hits (rs : list (Z * Z)) (s : Z) : nat :=
  length (filter (fun r => (fst r <=? s) && (s <=? snd r)) rs).
Definition covers_once (rs : list (Z * Z)) : bool :=
  forallb (fun s => Nat.eqb (range_hits rs (Z.of_nat s)) 1) (seq 0 16).
Definition thread_sweep : bool :=
  forallb (fun th => implb (valid_threads (Z.of_nat th))
                       (covers_once (ranges_of_threads (Z.of_nat th)) &&
                        Nat.leb (length (ranges_of_threads (Z.of_nat th)))
                                (Z.to_nat (if Z.of_nat th =? 0 then 1 else Z.of_nat th))))
          (seq 0 256).
Lemma thread_sweep_ok : thread_sweep = true.
Proof. vm_compute. reflexivity. Qed.

Lemma valid_threads_partition th s : 0 <= th < 256 -> valid_threads th = true -> 0 <= s < 16 ->
  range_hits (ranges_of_threads th) s = 1%nat.
Proof.
  intros Hth Hv Hs. pose proof thread_sweep_ok as H. unfold thread_sweep in H.
  rewrite forallb_forall in H. specialize (H (Z.to_nat th)).
  rewrite Z2Nat.id in H by lia. rewrite Hv in H. cbn [implb] in H.
  specialize (H ltac:(apply in_seq; lia)). apply andb_true_iff in H. destruct H as [H _].
  unfold covers_once in H. rewrite forallb_forall in H. specialize (H (Z.to_nat s) ltac:(apply in_seq; lia)).
  rewrite Z2Nat.id in H by lia. apply Nat.eqb_eq in H. exact H.
Qed.

Lemma valid_threads_workers th : 0 <= th < 256 -> valid_threads th = true ->
  (length (ranges_of_threads th) <= Z.to_nat (if (th =? 0)%Z then 1%Z else th))%nat.
Proof.
  intros Hth Hv. pose proof thread_sweep_ok as H. unfold thread_sweep in H.
  rewrite forallb_forall in H. specialize (H (Z.to_nat th)).
  rewrite Z2Nat.id in H by lia. rewrite Hv in H. cbn [implb] in H.
  specialize (H ltac:(apply in_seq; lia)). apply andb_true_iff in H. destruct H as [_ H].
  apply Nat.leb_le in H. exact H.
Qed.

Section WithNum.
Context {N : NumOps}.
Local Notation K := (K N).
Local Notation traveller := (traveller N).
Local Notation table := (table N).
Local Notation engine := (engine N).

Section Fixed.
Variables (p : params N) (share : K) (now : Z).

Definition U (t : traveller) := update_traveller t p share now.
Definition upd_record (t : traveller) : traveller := match fst (U t) with Some t' => t' | None => t end.
Definition writes_of (recs : table) : table :=
  flat_map (fun kt => match fst (U (snd kt)) with Some t' => [(fst kt, t')] | None => [] end) recs.

Definition b2z (b : bool) : Z := if b then 1 else 0.
Definition count_grounded (recs : table) : Z :=
  fold_right (fun kt acc => b2z (c_grounded (snd (U (snd kt)))) + acc) 0 recs.
Definition count_travelled (recs : table) : Z :=
  fold_right (fun kt acc => (match c_dist (snd (U (snd kt))) with Some _ => 1 | None => 0 end) + acc) 0 recs.
Definition count_flights (recs : table) : Z :=
  fold_right (fun kt acc => (match c_dist (snd (U (snd kt))) with Some (_, f) => f | None => 0 end) + acc) 0 recs.

Lemma update_some_spec recs : forall (w : table) (s : ustats N),
  fst (update_some recs p share now w s) = w ++ writes_of recs /\
  us_grounded (snd (update_some recs p share now w s)) = us_grounded s + count_grounded recs /\
  us_travellers (snd (update_some recs p share now w s)) = us_travellers s + count_travelled recs /\
  us_flights (snd (update_some recs p share now w s)) = us_flights s + count_flights recs.
Proof.
  induction recs as [|[k t] r IH]; intros w s; cbn [update_some writes_of flat_map count_grounded count_travelled count_flights fold_right].
  - cbn [fst snd]. rewrite app_nil_r. split; [reflexivity|]. split; [lia|]. split; lia.
  - cbn [fst snd]. fold (U t). destruct (U t) as [wt c] eqn:EU. cbn [fst snd].
    destruct (IH (match wt with Some t' => w ++ [(k, t')] | None => w end) (add_contrib s c)) as (A & B & C & D).
    fold (writes_of r) (count_grounded r) (count_travelled r) (count_flights r).
    rewrite A, B, C, D. unfold add_contrib. cbn [us_grounded us_travellers us_flights]. unfold b2z.
    split; [destruct wt; [rewrite <- app_assoc; reflexivity|reflexivity]|].
    destruct (c_grounded c); destruct (c_dist c) as [[d f]|]; repeat split; lia.
Qed.

Lemma writes_of_app a b : writes_of (a ++ b) = writes_of a ++ writes_of b.
Proof. unfold writes_of. apply flat_map_app. Qed.

Lemma writes_of_keys_notin (l : table) k : ~ In k (map fst l) -> ~ In k (map fst (writes_of l)).
Proof.
  induction l as [|[k1 t1] r IH]; cbn [writes_of flat_map map fst]; [auto|]. intros H.
  fold (writes_of r). rewrite map_app. intros C. apply in_app_or in C. destruct C as [C|C].
  - cbn [fst snd] in C. destruct (fst (U t1)); cbn in C; [destruct C as [C|[]]; apply H; left; exact C|contradiction].
  - apply IH in C; [exact C|]. intros D. apply H. right. exact D.
Qed.

Lemma writes_of_NoDup (l : table) : NoDup (map fst l) -> NoDup (map fst (writes_of l)).
Proof.
  induction l as [|[k1 t1] r IH]; cbn [writes_of flat_map map fst]; [constructor|]. intros Hnd.
  inversion Hnd as [|? ? Hnotin Hnd']; subst. fold (writes_of r). rewrite map_app. cbn [fst snd].
  destruct (fst (U t1)); cbn [map fst app]; [constructor; [apply writes_of_keys_notin, Hnotin|apply IH, Hnd']|apply IH, Hnd'].
Qed.

Lemma tget_writes_of (l : table) k : NoDup (map fst l) ->
  tget (writes_of l) k = match tget l k with Some t => fst (U t) | None => None end.
Proof.
  induction l as [|[k1 t1] r IH]; intros Hnd; cbn [writes_of flat_map tget]; [reflexivity|].
  inversion Hnd as [|? ? Hnotin Hnd']; subst. fold (writes_of r). cbn [fst snd].
  destruct (Z.eqb_spec k k1) as [->|Hne].
  - destruct (fst (U t1)) as [t'|]; cbn [app tget]; [rewrite Z.eqb_refl; reflexivity|].
    apply tget_None_notin, writes_of_keys_notin, Hnotin.
  - destruct (fst (U t1)) as [t'|]; cbn [app tget]; [destruct (Z.eqb_spec k k1); [contradiction|]|]; apply IH, Hnd'.
Qed.

Lemma count_perm (f : (Z * traveller) -> Z) (l l' : table) : Permutation l l' ->
  fold_right (fun kt acc => f kt + acc) 0 l = fold_right (fun kt acc => f kt + acc) 0 l'.
Proof. induction 1; cbn [fold_right]; lia. Qed.

Lemma count_app (f : (Z * traveller) -> Z) (a b : table) :
  fold_right (fun kt acc => f kt + acc) 0 (a ++ b) =
  fold_right (fun kt acc => f kt + acc) 0 a + fold_right (fun kt acc => f kt + acc) 0 b.
Proof. induction a; cbn [app fold_right]; lia. Qed.

(** the workers' results for a list of ranges, as update_all computes them *)
Definition worker_results (rs : list (Z * Z)) (snapshot : table) :=
  map (fun r => update_some (filter (fun kt => in_range r (fst kt)) snapshot) p share now [] stats0) rs.

Definition parts (rs : list (Z * Z)) (snapshot : table) : table :=
  flat_map (fun r => filter (fun kt => in_range r (fst kt)) snapshot) rs.

Lemma worker_writes rs snapshot : flat_map fst (worker_results rs snapshot) = writes_of (parts rs snapshot).
Proof.
  unfold worker_results, parts. induction rs as [|r t IH]; cbn [map flat_map]; [reflexivity|].
  rewrite writes_of_app. destruct (update_some_spec (filter (fun kt => in_range r (fst kt)) snapshot) [] stats0) as (A & _).
  cbn [app] in A. apply (f_equal2 (@app _)); [exact A|exact IH].
Qed.

Lemma worker_stats rs snapshot : forall (ut : ustats N),
  let ut' := fold_left (fun ut wr => merge_stats ut (snd wr)) (worker_results rs snapshot) ut in
  us_grounded ut' = us_grounded ut + count_grounded (parts rs snapshot) /\
  us_travellers ut' = us_travellers ut + count_travelled (parts rs snapshot) /\
  us_flights ut' = us_flights ut + count_flights (parts rs snapshot) /\
  us_share ut' = us_share ut.
Proof.
  unfold worker_results, parts. induction rs as [|r t IH]; intros ut; cbn [map flat_map fold_left].
  - cbn. repeat split; lia.
  - cbn zeta in IH. destruct (update_some_spec (filter (fun kt => in_range r (fst kt)) snapshot) [] stats0) as (_ & B & C & D).
    set (res := update_some _ p share now [] stats0) in *.
    destruct (IH (merge_stats ut (snd res))) as (E & F & G & H).
    rewrite E, F, G, H. unfold count_grounded, count_travelled, count_flights. rewrite !count_app.
    unfold merge_stats. cbn [us_grounded us_travellers us_flights us_share snd].
    fold (count_grounded (filter (fun kt => in_range r (fst kt)) snapshot)) in B.
    unfold count_grounded, count_travelled, count_flights in B, C, D. cbn [stats0 us_grounded us_travellers us_flights] in B, C, D.
    repeat split; lia.
Qed.

End Fixed.

Definition keys_ok (tb : table) : Prop :=
  NoDup (map fst tb) /\ forall k, In k (map fst tb) -> 0 <= k < 2 ^ 160.

Lemma shard_range k : 0 <= k < 2 ^ 160 -> 0 <= shard_of k < 16.
Proof.
  intros H. unfold shard_of. split; [apply Z.div_pos; lia|].
  apply Z.div_lt_upper_bound; [lia|]. change (2 ^ 156 * 16) with (2 ^ 160). lia.
Qed.

(** with a permitted thread setting the workers' slices are a permutation of the snapshot *)
Lemma parts_perm th (tb : table) : 0 <= th < 256 -> valid_threads th = true -> keys_ok tb ->
  Permutation (parts (ranges_of_threads th) tb) tb.
Proof.
  intros Hth Hv [Hnd Hk]. unfold parts.
  set (ps := map (fun r (kt : Z * traveller) => in_range r (fst kt)) (ranges_of_threads th)).
  assert (E : flat_map (fun r => filter (fun kt => in_range r (fst kt)) tb) (ranges_of_threads th) =
              flat_map (fun q => filter q tb) ps).
  { unfold ps. induction (ranges_of_threads th) as [|r l IH]; cbn [map flat_map]; [reflexivity|]. rewrite IH. reflexivity. }
  rewrite E.
  apply partition_perm. intros [k t] Hin. unfold hits, ps.
  assert (Hs := shard_range k (Hk k (in_map fst _ _ Hin))).
  pose proof (valid_threads_partition th (shard_of k) Hth Hv Hs) as H1. unfold range_hits in H1.
  rewrite <- H1. clear. induction (ranges_of_threads th) as [|r l IH]; cbn [map filter]; [reflexivity|].
  unfold in_range at 1. cbn [fst]. destruct ((fst r <=? shard_of k) && (shard_of k <=? snd r)); cbn [length]; rewrite IH; reflexivity.
Qed.

(** the share of an update, as the code computes it *)
Definition share_of (e : engine) : K :=
  let a := e_admin e in let p := a_params a in
  let pcv := if has_bit (pAlgo p) pamCorrectDailyTotal then snd (pc_cycle (a_pc a) (pCorrWindow p)) else k0 N in
  let a1 := kofZ N (pMinGrounded p) in let a2 := kofZ N (a_grounded a) in
  let backfillers := if kltb N a1 a2 then a2 else a1 in
  if kltb N (k0 N) backfillers then kdiv N (kadd N (pDailyTotal p) pcv) backfillers else k0 N.

(** THE theorem about the daily update *)
Theorem update_all_spec (e : engine) now fit :
  now mod SecondsInDay = 0 ->
  0 <= pThreads (a_params (e_admin e)) < 256 -> valid_threads (pThreads (a_params (e_admin e))) = true ->
  keys_ok (e_table e) ->
  let p := a_params (e_admin e) in
  let share := share_of e in
  let '(e', ut, r) := update_all e now fit in
  r = None /\
  (forall k, tget (e_table e') k = option_map (upd_record p share now) (tget (e_table e) k)) /\
  us_share ut = share /\
  us_grounded ut = count_grounded p share now (e_table e) /\
  a_grounded (e_admin e') = us_grounded ut /\
  us_travellers ut = count_travelled p share now (e_table e) /\
  us_flights ut = count_flights p share now (e_table e) /\
  a_params (e_admin e') = p.
Proof.
  intros Hnow Hth Hv Hk. cbn zeta. unfold update_all, share_of.
  rewrite Hnow. cbn [Z.eqb negb].
  set (p := a_params (e_admin e)) in *.
  destruct (has_bit (pAlgo p) pamCorrectDailyTotal) eqn:Ebit.
  - destruct (pc_cycle (a_pc (e_admin e)) (pCorrWindow p)) as [pc1 pcv] eqn:Ecy. cbn [snd].
    set (bf := if kltb N (kofZ N (pMinGrounded p)) (kofZ N (a_grounded (e_admin e))) then _ else _).
    destruct (kltb N (k0 N) bf) eqn:Ebf.
    all: cbn [fst snd];
      set (share := _ : K);
      fold (worker_results p share now (ranges_of_threads (pThreads p)) (e_table e));
      match goal with |- context [fold_left (fun ut wr => merge_stats ut (snd wr)) _ ?u0] => set (ut0 := u0) end;
      destruct (worker_stats p share now (ranges_of_threads (pThreads p)) (e_table e) ut0) as (S1 & S2 & S3 & S4);
      cbn zeta in S1, S2, S3, S4;
      pose proof (parts_perm (pThreads p) (e_table e) Hth Hv Hk) as Hperm;
      split; [reflexivity|]; split;
      [ intros k; cbn [e_table];
        change (fold_left (fun tb wr => fold_left (fun tb0 kt => tput tb0 (fst kt) (snd kt)) (fst wr) tb)
                  (worker_results p share now (ranges_of_threads (pThreads p)) (e_table e)) (e_table e))
          with (fold_left (fun tb wr => put_all (fst wr) tb)
                  (worker_results p share now (ranges_of_threads (pThreads p)) (e_table e)) (e_table e));
        rewrite (fold_put_flat fst), worker_writes;
        destruct Hk as [Hnd Hrange];
        assert (Hndp : NoDup (map fst (parts (ranges_of_threads (pThreads p)) (e_table e))))
          by (eapply Permutation_NoDup; [apply Permutation_map, Permutation_sym, Hperm|exact Hnd]);
        rewrite tget_put_all by (apply writes_of_NoDup, Hndp);
        rewrite tget_writes_of by exact Hndp;
        rewrite (tget_perm _ _ k Hndp Hperm);
        unfold upd_record, U; destruct (tget (e_table e) k) as [t|]; cbn [option_map]; [destruct (fst (update_traveller t p share now)); reflexivity|reflexivity]
      | cbn [e_admin a_grounded a_params];
        rewrite S1, S2, S3, S4;
        unfold count_grounded, count_travelled, count_flights;
        rewrite (count_perm _ _ _ Hperm), (count_perm (fun kt => match c_dist (snd (U p share now (snd kt))) with Some _ => 1 | None => 0 end) _ _ Hperm),
                (count_perm (fun kt => match c_dist (snd (U p share now (snd kt))) with Some (_, f) => f | None => 0 end) _ _ Hperm);
        unfold ut0; cbn [us_grounded us_travellers us_flights us_share];
        repeat split; try reflexivity; lia ].
  - set (bf := if kltb N (kofZ N (pMinGrounded p)) (kofZ N (a_grounded (e_admin e))) then _ else _).
    destruct (kltb N (k0 N) bf) eqn:Ebf.
    all: cbn [fst snd];
      set (share := _ : K);
      fold (worker_results p share now (ranges_of_threads (pThreads p)) (e_table e));
      match goal with |- context [fold_left (fun ut wr => merge_stats ut (snd wr)) _ ?u0] => set (ut0 := u0) end;
      destruct (worker_stats p share now (ranges_of_threads (pThreads p)) (e_table e) ut0) as (S1 & S2 & S3 & S4);
      cbn zeta in S1, S2, S3, S4;
      pose proof (parts_perm (pThreads p) (e_table e) Hth Hv Hk) as Hperm;
      split; [reflexivity|]; split;
      [ intros k; cbn [e_table];
        change (fold_left (fun tb wr => fold_left (fun tb0 kt => tput tb0 (fst kt) (snd kt)) (fst wr) tb)
                  (worker_results p share now (ranges_of_threads (pThreads p)) (e_table e)) (e_table e))
          with (fold_left (fun tb wr => put_all (fst wr) tb)
                  (worker_results p share now (ranges_of_threads (pThreads p)) (e_table e)) (e_table e));
        rewrite (fold_put_flat fst), worker_writes;
        destruct Hk as [Hnd Hrange];
        assert (Hndp : NoDup (map fst (parts (ranges_of_threads (pThreads p)) (e_table e))))
          by (eapply Permutation_NoDup; [apply Permutation_map, Permutation_sym, Hperm|exact Hnd]);
        rewrite tget_put_all by (apply writes_of_NoDup, Hndp);
        rewrite tget_writes_of by exact Hndp;
        rewrite (tget_perm _ _ k Hndp Hperm);
        unfold upd_record, U; destruct (tget (e_table e) k) as [t|]; cbn [option_map]; [destruct (fst (update_traveller t p share now)); reflexivity|reflexivity]
      | cbn [e_admin a_grounded a_params];
        rewrite S1, S2, S3, S4;
        unfold count_grounded, count_travelled, count_flights;
        rewrite (count_perm _ _ _ Hperm), (count_perm (fun kt => match c_dist (snd (U p share now (snd kt))) with Some _ => 1 | None => 0 end) _ _ Hperm),
                (count_perm (fun kt => match c_dist (snd (U p share now (snd kt))) with Some (_, f) => f | None => 0 end) _ _ Hperm);
        unfold ut0; cbn [us_grounded us_travellers us_flights us_share];
        repeat split; try reflexivity; lia ].
Qed.

End WithNum.

(** ---- consequences used by C04 ---- *)
Section Independence.
Context {N : NumOps}.
Local Notation table := (table N).

(** the per-traveller step reads only the trip parameters, never the thread setting *)
Lemma update_traveller_th_params (t : traveller N) p1 p2 share now :
  th_params p1 = th_params p2 -> update_traveller t p1 share now = update_traveller t p2 share now.
Proof. intros E. unfold update_traveller. rewrite E. reflexivity. Qed.

(** writes to distinct keys commute: any interleaving (permutation) of the workers' write lists gives
    the same table *)
Lemma put_all_perm (ws ws' tb : table) k : NoDup (map fst ws) -> Permutation ws ws' ->
  tget (put_all ws' tb) k = tget (put_all ws tb) k.
Proof.
  intros Hnd Hp.
  assert (Hnd' : NoDup (map fst ws')) by (eapply Permutation_NoDup; [apply Permutation_map; exact Hp|exact Hnd]).
  rewrite !tget_put_all by assumption. rewrite (tget_perm ws ws' k Hnd Hp). reflexivity.
Qed.

(** the integer totals do not depend on the order in which the workers' statistics arrive *)
Lemma merge_int_perm (rs rs' : list (table * ustats N)) : Permutation rs rs' -> forall ut : ustats N,
  let a := fold_left (fun ut wr => merge_stats ut (snd wr)) rs ut in
  let b := fold_left (fun ut wr => merge_stats ut (snd wr)) rs' ut in
  us_grounded a = us_grounded b /\ us_travellers a = us_travellers b /\ us_flights a = us_flights b /\
  us_share a = us_share b.
Proof.
  induction 1 as [|x l l' _ IH|x y l|l1 l2 l3 _ IH1 _ IH2]; intros ut; cbn zeta; cbn [fold_left].
  - auto.
  - apply IH.
  - assert (G : forall (l0 : list (table * ustats N)) (u1 u2 : ustats N),
        us_grounded u1 = us_grounded u2 -> us_travellers u1 = us_travellers u2 -> us_flights u1 = us_flights u2 ->
        us_share u1 = us_share u2 ->
        let a := fold_left (fun ut wr => merge_stats ut (snd wr)) l0 u1 in
        let b := fold_left (fun ut wr => merge_stats ut (snd wr)) l0 u2 in
        us_grounded a = us_grounded b /\ us_travellers a = us_travellers b /\ us_flights a = us_flights b /\ us_share a = us_share b).
    { induction l0 as [|w r IHr]; intros u1 u2 A B C D; cbn zeta; cbn [fold_left]; [auto|].
      apply IHr; unfold merge_stats; cbn [us_grounded us_travellers us_flights us_share]; congruence. }
    apply G; unfold merge_stats; cbn [us_grounded us_travellers us_flights us_share]; first [reflexivity|lia].
  - cbn zeta in IH1, IH2. destruct (IH1 ut) as (A & B & C & D). destruct (IH2 ut) as (A' & B' & C' & D').
    repeat split; congruence.
Qed.

(** under commutative and associative addition the distance total is order-independent as well *)
Lemma merge_distance_perm (Hc : forall a b : K N, kadd N a b = kadd N b a)
  (Ha : forall a b c : K N, kadd N a (kadd N b c) = kadd N (kadd N a b) c)
  (rs rs' : list (table * ustats N)) : Permutation rs rs' -> forall ut : ustats N,
  us_distance (fold_left (fun ut wr => merge_stats ut (snd wr)) rs ut) =
  us_distance (fold_left (fun ut wr => merge_stats ut (snd wr)) rs' ut).
Proof.
  assert (G : forall (l0 : list (table * ustats N)) (u1 u2 : ustats N), us_distance u1 = us_distance u2 ->
      us_distance (fold_left (fun ut wr => merge_stats ut (snd wr)) l0 u1) =
      us_distance (fold_left (fun ut wr => merge_stats ut (snd wr)) l0 u2)).
  { induction l0 as [|w r IHr]; intros u1 u2 E; cbn [fold_left]; [exact E|].
    apply IHr. unfold merge_stats. cbn [us_distance]. congruence. }
  induction 1 as [|x l l' _ IH|x y l|l1 l2 l3 _ IH1 _ IH2]; intros ut; cbn [fold_left].
  - reflexivity.
  - apply IH.
  - apply G. unfold merge_stats. cbn [us_distance]. rewrite <- !Ha. f_equal. apply Hc.
  - rewrite IH1. apply IH2.
Qed.

End Independence.
