From Coq Require Import List Arith Lia.
Import ListNotations.
Lemma nth_firstn_lt' {A} (l : list A) d : forall i m, (m < i)%nat -> nth m (firstn i l) d = nth m l d.
Proof. induction l as [|x r IH]; intros [|i] [|m] H; cbn; auto; try lia. apply IH. lia. Qed.
