(** C20: the update clause of the traveller-bot discipline ("the trip rules do not close a trip by
    themselves and an open trip has started before the update") discharged from the SHAPE of the bot's
    trip histories: no flights yet; between trips; the outbound flight of a promised trip; outbound and
    return flight - with promises on, the return at least FlightInterval days after the outbound
    landed, the trip within TripLength whole days at the update and room for three flights. *)
From Coq Require Import ZArith List Bool Arith Lia.
From Flap Require Import Model.Num Model.Search Model.TripHistory Model.Promises Model.Predictor Model.Engine
  Proofs.THBasics Proofs.THOrder Proofs.THLimits Proofs.ItineraryP Proofs.KeepP Proofs.HistoryP.
Import ListNotations.
Open Scope Z_scope.

Section WithNum.
Context {N : NumOps}.
Local Notation K := (K N).
Local Notation flight := (flight N).
Local Notation hist := (hist N).
Local Notation traveller := (traveller N).

(** a stored flight of the open trip: reported, and marked (at most) as a journey end *)
Definition open_leg (f : flight) : Prop := fstart f <> 0 /\ (et f = Fl \/ et f = JEnd).

Inductive bot_shape (p : thparams) (now : Z) (h : hist) : Prop :=
| BS_empty : hempty h = true -> bot_shape p now h
| BS_closed : mid_trip h = false -> (oc h = 0%nat \/ et (getf (entries h) 0) = TTEnd) -> bot_shape p now h
| BS_out (x : flight) (rest : list flight) :
    entries h = x :: rest -> open_leg x -> stop_at rest -> (oc h <= 1)%nat ->
    fstart x <= now -> days_between (fstart x) now <= TripLength p -> 1 < FlightsInTrip p ->
    bot_shape p now h
| BS_back (x y : flight) (rest : list flight) :
    entries h = y :: x :: rest -> open_leg x -> open_leg y -> stop_at rest -> (oc h <= 2)%nat ->
    Algo p <> 0 ->
    fstart x <= now -> days_between (fstart x) now <= TripLength p -> 2 < FlightsInTrip p ->
    FlightInterval p <= days_between (fend x) (fstart y) ->
    days_between (fstart x) (fstart y) <= TripLength p ->
    bot_shape p now h.

Lemma open_leg_plain (f : flight) : open_leg f -> plain f /\ fstart f <> 0 /\ et f <> TEnd /\ is_end f = false.
Proof.
  intros [Hs [H|H]]; unfold plain, is_end; rewrite H; repeat split; auto; discriminate.
Qed.

Lemma open_run_stop (rest : list flight) : stop_at rest -> open_run rest = [].
Proof.
  intros [->|(r0 & rs & -> & [H|H])]; [reflexivity| |]; cbn [open_run].
  - rewrite H. reflexivity.
  - rewrite H. cbn [negb]. rewrite andb_false_r. reflexivity.
Qed.

Lemma tsel_start_of (h : hist) : fst (fst (trip_start_end_length h)) = open_start (entries h) \/
  fst (fst (trip_start_end_length h)) = 0.
Proof. rewrite tsel_spec. destruct (kltb N (k0 N) _); [left|right]; reflexivity. Qed.

Theorem bot_shape_update (t : traveller) (p : params N) now :
  0 <= now -> now mod SecondsInDay = 0 -> length (entries (t_hist t)) = MaxFlights ->
  bot_shape (th_params p) now (t_hist t) ->
  let h1 := hist_after_update t p now in
  mid_trip h1 = mid_trip (t_hist t) /\ (mid_trip h1 = true -> fst (fst (trip_start_end_length h1)) <= now).
Proof.
  intros Hnow0 Hnow Hlen Hs. cbn zeta. unfold hist_after_update. set (h := t_hist t) in *.
  destruct Hs as [He|Hm Hcase|x rest El Hx Hstop Hoc Hxn Hd Hf|x y rest El Hx Hy Hstop Hoc Ha Hxn Hd Hf Hstay Hdy].
  - (* no flights yet *)
    unfold update. rewrite He. split; [reflexivity|]. intros _.
    destruct (tsel_start_of h) as [E|E]; rewrite E; [|lia].
    unfold open_start. unfold hempty in He. apply Z.eqb_eq in He.
    destruct (entries h) as [|f r] eqn:Ef; [cbn; lia|]. unfold getf in He. cbn [nth] in He.
    cbn [open_run]. rewrite He. cbn. lia.
  - (* between trips *)
    pose proof (update_result_closed_or_error h (th_params p) now Hlen Hm Hcase) as Hr.
    destruct (update h (th_params p) now) as [[[h' dy] fy]|er].
    + destruct Hr as [Hm' _]. rewrite Hm', Hm. split; [reflexivity|discriminate].
    + rewrite Hm. split; [reflexivity|discriminate].
  - (* outbound flown *)
    destruct (open_leg_plain x Hx) as (Hpx & Hx0 & Hxt & Hxe).
    destruct (update_outbound h (th_params p) now [] x rest) as (dy & fy & E).
    + unfold outbound_only, first_start. cbn [hd nexts quiet visited_after mem existsb length]. repeat split; auto; lia.
    + exact El.
    + exact Hlen.
    + intros f [<-|[]]. split; assumption.
    + exact Hstop.
    + cbn [app length]. exact Hoc.
    + exact Hnow.
    + rewrite E. cbn [rev app].
      assert (Hmk : is_end (newest_mark (th_params p) now x) = false /\ fstart (newest_mark (th_params p) now x) = fstart x).
      { unfold newest_mark. destruct (_ <=? _); [split; reflexivity|split; [exact Hxe|reflexivity]]. }
      destruct Hmk as [Hme Hms].
      assert (Hm1 : mid_trip {| entries := newest_mark (th_params p) now x :: rest; oc := 0 |} = true).
      { unfold mid_trip, getf. cbn [entries nth]. rewrite Hme. apply orb_true_r. }
      assert (Hm0 : mid_trip h = true).
      { unfold mid_trip, getf. rewrite El. cbn [nth]. rewrite Hxe. apply orb_true_r. }
      rewrite Hm1, Hm0. split; [reflexivity|]. intros _.
      destruct (tsel_start_of {| entries := newest_mark (th_params p) now x :: rest; oc := 0 |}) as [E1|E1]; rewrite E1; [|lia].
      unfold open_start. cbn [entries open_run]. rewrite Hms, Hme.
      destruct (Z.eqb_spec (fstart x) 0) as [C|_]; [contradiction|]. cbn [negb andb].
      rewrite (open_run_stop rest Hstop). cbn [last]. rewrite Hms. exact Hxn.
  - (* outbound and return flown *)
    destruct (open_leg_plain x Hx) as (Hpx & Hx0 & Hxt & Hxe).
    destruct (open_leg_plain y Hy) as (Hpy & Hy0 & Hyt & Hye).
    destruct (update_out_and_back h (th_params p) now [] x [] y rest) as (dy & fy & E).
    + unfold out_and_back, first_start, hd_start. cbn [hd nexts quiet visited_after mem existsb length]. repeat split; auto; lia.
    + exact El.
    + exact Hlen.
    + unfold itinerary. intros f [<-|[<-|[]]]; split; assumption.
    + exact Hstop.
    + unfold itinerary. cbn [app length]. exact Hoc.
    + exact Hnow.
    + rewrite E. cbn [rev app]. unfold first_start. cbn [hd].
      set (fm := final_mark (th_params p) now (fstart x) y).
      assert (Hfe : is_end fm = false).
      { unfold fm. rewrite final_mark_is_end by (destruct Hy as [_ Hy']; exact Hy').
        destruct (Z.eqb_spec (Algo (th_params p)) 0) as [C|_]; [contradiction|]. apply Z.ltb_ge. exact Hd. }
      assert (Hfs : fstart fm = fstart y).
      { unfold fm, final_mark. destruct (Algo (th_params p) =? 0); destruct (_ || _) || idtac; cbn zeta;
          repeat match goal with |- context [if ?c then _ else _] => destruct c end; reflexivity. }
      assert (Hm1 : mid_trip {| entries := fm :: set_et x JEnd :: rest; oc := 0 |} = true).
      { unfold mid_trip, getf. cbn [entries nth]. rewrite Hfe. apply orb_true_r. }
      assert (Hm0 : mid_trip h = true).
      { unfold mid_trip, getf. rewrite El. cbn [nth]. rewrite Hye. apply orb_true_r. }
      rewrite Hm1, Hm0. split; [reflexivity|]. intros _.
      destruct (tsel_start_of {| entries := fm :: set_et x JEnd :: rest; oc := 0 |}) as [E1|E1]; rewrite E1; [|lia].
      unfold open_start. cbn [entries open_run]. rewrite Hfs, Hfe.
      destruct (Z.eqb_spec (fstart y) 0) as [C|_]; [contradiction|]. cbn [negb andb fstart set_et].
      destruct (Z.eqb_spec (fstart x) 0) as [C|_]; [contradiction|]. cbn [negb andb is_end set_et et].
      rewrite (open_run_stop rest Hstop). cbn [last fstart set_et]. exact Hxn.
Qed.

(** hence the update event of such a traveller follows the discipline *)
Corollary bot_shape_update_conforms mx clk (t : traveller) (p : params N) share now :
  clk <= now -> 0 <= now -> now mod SecondsInDay = 0 -> length (entries (t_hist t)) = MaxFlights ->
  bot_shape (th_params p) now (t_hist t) -> conforms mx clk t (EUpdate p share now).
Proof.
  intros Hclk Hn0 Hnow Hlen Hs. split; [exact Hclk|]. exact (bot_shape_update t p now Hn0 Hnow Hlen Hs).
Qed.

End WithNum.
