(** C06, day by day: the whole sequence of check-ins (in order, before departure) and daily updates
    of an out-and-back itinerary, by induction over the days. *)
From Coq Require Import ZArith List Bool Arith Lia.
From Flap Require Import Model.Num Model.TripHistory Proofs.THBasics Proofs.THOrder Proofs.THLimits Proofs.ItineraryP.
Import ListNotations.
Open Scope Z_scope.

Section Days.
Context {N : NumOps}.
Local Notation flight := (flight N).
Local Notation hist := (hist N).

(** ---- marks do not matter for the static hypotheses ---- *)
Lemma plain_mark (f : flight) : plain f -> plain (set_et f JEnd).
Proof. intros _. right. left. reflexivity. Qed.

Lemma nexts_fstart_ext (A : list flight) z : nexts A z = nexts A z.
Proof. reflexivity. Qed.

Lemma outbound_only_mark p now (A : list flight) (x : flight) :
  outbound_only p now A x -> outbound_only p now A (set_et x JEnd).
Proof.
  unfold outbound_only, first_start. intros (H1 & H2 & H3 & H4 & H5 & H6).
  assert (E : fstart (hd (set_et x JEnd) A) = fstart (hd x A)) by (destruct A; reflexivity).
  rewrite E. cbn [set_et fstart fto]. repeat split; try assumption. apply plain_mark, H3.
Qed.

Lemma hd_start_mark (B : list flight) (y : flight) : hd_start B (set_et y JEnd) = hd_start B y.
Proof. destruct B; reflexivity. Qed.

Lemma out_and_back_mark_x p (A : list flight) x B y :
  out_and_back p A x B y -> out_and_back p A (set_et x JEnd) B y.
Proof.
  unfold out_and_back, first_start. intros (H1 & H2 & H3 & H4 & H5 & H6 & H7 & H8 & H9 & H10).
  assert (E : fstart (hd (set_et x JEnd) A) = fstart (hd x A)) by (destruct A; reflexivity).
  rewrite E. cbn [set_et fstart fto fend]. repeat split; try assumption. apply plain_mark, H3.
Qed.

Lemma out_and_back_mark_y p (A : list flight) x B y :
  out_and_back p A x B y -> out_and_back p A x B (set_et y JEnd).
Proof.
  unfold out_and_back. intros (H1 & H2 & H3 & H4 & H5 & H6 & H7 & H8 & H9 & H10).
  rewrite hd_start_mark. cbn [set_et fstart fto fend]. repeat split; try assumption. apply plain_mark, H8.
Qed.

(** ---- monotonicity in the update time ---- *)
Lemma days_between_mono t a b : a <= b -> days_between t a <= days_between t b.
Proof.
  intros H. unfold days_between, SecondsInDay.
  destruct (Z.ltb_spec a t), (Z.ltb_spec b t); try lia.
  - apply Z.div_pos; lia.
  - apply Z.div_le_mono; lia.
Qed.

Lemma newest_mark_mark p now (x : flight) :
  FlightInterval p <= days_between (fend x) now -> newest_mark p now (set_et x JEnd) = newest_mark p now x.
Proof.
  intros H. unfold newest_mark. cbn [set_et fend]. destruct (Z.leb_spec (FlightInterval p) (days_between (fend x) now)); [reflexivity|lia].
Qed.

Lemma final_mark_mark p now st (y : flight) :
  FlightInterval p <= days_between (fend y) now -> Algo p <> 0 ->
  final_mark p now st (set_et y JEnd) = final_mark p now st y.
Proof.
  intros H Ha. unfold final_mark. cbn [set_et fend].
  destruct (Z.eqb_spec (Algo p) 0); [contradiction|].
  destruct (TripLength p <? days_between st now); [reflexivity|].
  destruct (Z.leb_spec (FlightInterval p) (days_between (fend y) now)); [reflexivity|lia].
Qed.

(** ---- one update, the special flights possibly carrying a journey-end marker from an earlier update ---- *)

Definition fresh (l : list flight) : Prop := forall f, In f l -> et f = Fl /\ fstart f <> 0.

Lemma update_out_stage (h : hist) p now (A : list flight) (x xm : flight) rest :
  outbound_only p now A x -> fresh (A ++ [x]) ->
  (xm = x \/ (xm = set_et x JEnd /\ FlightInterval p <= days_between (fend x) now)) ->
  entries h = rev (A ++ [xm]) ++ rest -> length (entries h) = MaxFlights ->
  stop_at rest -> (oc h <= length (A ++ [xm]))%nat -> now mod SecondsInDay = 0 ->
  exists dy fy, update h p now = inl ({| entries := newest_mark p now x :: rev A ++ rest; oc := 0 |}, dy, fy).
Proof.
  intros Ho Hf Hxm El Hlen Hstop Hoc Hnow.
  assert (Hx : et x = Fl /\ fstart x <> 0) by (apply Hf, in_or_app; right; left; reflexivity).
  assert (HA : forall f, In f A -> fstart f <> 0 /\ et f <> TEnd).
  { intros f Hin. destruct (Hf f (in_or_app _ _ _ (or_introl Hin))) as [E1 E2]. split; [exact E2|rewrite E1; discriminate]. }
  destruct Hxm as [->|[-> Hdue]].
  - apply (update_outbound h p now A x rest Ho El Hlen); try assumption.
    intros f Hin. apply in_app_or in Hin. destruct Hin as [Hin|[<-|[]]]; [apply HA, Hin|].
    destruct Hx as [E1 E2]. split; [exact E2|rewrite E1; discriminate].
  - destruct (update_outbound h p now A (set_et x JEnd) rest (outbound_only_mark _ _ _ _ Ho) El Hlen) as (dy & fy & E); try assumption.
    { intros f Hin. apply in_app_or in Hin. destruct Hin as [Hin|[<-|[]]]; [apply HA, Hin|].
      cbn [set_et fstart et]. split; [apply Hx|discriminate]. }
    exists dy, fy. rewrite E, (newest_mark_mark p now x Hdue). reflexivity.
Qed.

Lemma update_ret_stage (h : hist) p now (A : list flight) (x xm : flight) (B : list flight) (y ym : flight) rest :
  out_and_back p A x B y -> fresh (itinerary A x B y) ->
  (xm = x \/ xm = set_et x JEnd) ->
  (ym = y \/ (ym = set_et y JEnd /\ FlightInterval p <= days_between (fend y) now /\ Algo p <> 0)) ->
  entries h = rev (itinerary A xm B ym) ++ rest -> length (entries h) = MaxFlights ->
  stop_at rest -> (oc h <= length (itinerary A xm B ym))%nat -> now mod SecondsInDay = 0 ->
  exists dy fy, update h p now =
    inl ({| entries := final_mark p now (first_start A x) y :: rev B ++ set_et x JEnd :: rev A ++ rest; oc := 0 |}, dy, fy).
Proof.
  intros Ho Hf Hxm Hym El Hlen Hstop Hoc Hnow.
  assert (Hfx : et x = Fl /\ fstart x <> 0) by (apply Hf; unfold itinerary; apply in_or_app; right; left; reflexivity).
  assert (Hfy : et y = Fl /\ fstart y <> 0).
  { apply Hf. unfold itinerary. apply in_or_app. right. right. apply in_or_app. right. left. reflexivity. }
  assert (Hst : first_start A xm = first_start A x) by (unfold first_start; destruct Hxm as [->| ->]; destruct A; reflexivity).
  assert (Ho' : out_and_back p A xm B ym).
  { destruct Hxm as [->| ->], Hym as [->|[-> _]].
    - exact Ho.
    - apply out_and_back_mark_y, Ho.
    - apply out_and_back_mark_x, Ho.
    - apply out_and_back_mark_x, out_and_back_mark_y, Ho. }
  destruct (update_out_and_back h p now A xm B ym rest Ho' El Hlen) as (dy & fy & E); try assumption.
  { intros f Hin. unfold itinerary in Hin. apply in_app_or in Hin. destruct Hin as [Hin|[<-|Hin]].
    - destruct (Hf f) as [E1 E2]; [unfold itinerary; apply in_or_app; left; exact Hin|]. split; [exact E2|rewrite E1; discriminate].
    - destruct Hxm as [->| ->]; cbn [set_et fstart et]; (split; [apply Hfx|]); [destruct Hfx as [-> _]|]; discriminate.
    - apply in_app_or in Hin. destruct Hin as [Hin|[<-|[]]].
      + destruct (Hf f) as [E1 E2]; [unfold itinerary; apply in_or_app; right; right; apply in_or_app; left; exact Hin|].
        split; [exact E2|rewrite E1; discriminate].
      + destruct Hym as [->|[-> _]]; cbn [set_et fstart et]; (split; [apply Hfy|]); [destruct Hfy as [-> _]|]; discriminate. }
  exists dy, fy. rewrite E, Hst.
  assert (Ex : set_et xm JEnd = set_et x JEnd) by (destruct Hxm as [->| ->]; reflexivity).
  rewrite Ex.
  assert (Ey : final_mark p now (first_start A x) ym = final_mark p now (first_start A x) y).
  { destruct Hym as [->|[-> [Hdue Ha]]]; [reflexivity|apply final_mark_mark; assumption]. }
  rewrite Ey. reflexivity.
Qed.

(** ---- prefixes of a quiet run ---- *)
Lemma quiet_app p : forall (L1 L2 : list (flight * Z)) v st c,
  quiet p v st c (L1 ++ L2) ->
  quiet p v st c L1 /\ quiet p (visited_after v L1) st (c + Z.of_nat (length L1)) L2.
Proof.
  induction L1 as [|[g nt] r IH]; intros L2 v st c Hq.
  - cbn [app length visited_after] in *. replace (c + Z.of_nat 0) with c by lia. split; [exact I|exact Hq].
  - cbn [app quiet] in Hq. destruct Hq as (H1 & H2 & H3 & H4 & H5 & Hq).
    destruct (IH L2 _ _ _ Hq) as [Ha Hb]. split.
    + cbn [quiet]. repeat split; assumption.
    + cbn [visited_after length]. replace (c + Z.of_nat (S (length r))) with (c + 1 + Z.of_nat (length r)) by lia. exact Hb.
Qed.

Lemma first_start_app (A' : list flight) x' more (A : list flight) x :
  A ++ [x] = A' ++ x' :: more -> first_start A' x' = first_start A x.
Proof.
  unfold first_start. intros E. destruct A as [|a A1], A' as [|a' A1']; cbn [app hd] in *.
  - injection E as -> _. reflexivity.
  - injection E as -> E2. destruct A1'; discriminate.
  - injection E as -> _. reflexivity.
  - injection E as -> _. reflexivity.
Qed.

(** a prefix A' ++ [x'] of the outbound journey A ++ [x] while it is the newest reported flight *)
Lemma outbound_prefix p now (A : list flight) x B y (A' : list flight) x' more :
  out_and_back p A x B y -> A ++ [x] = A' ++ x' :: more ->
  days_between (first_start A x) now <= TripLength p ->
  outbound_only p now A' x'.
Proof.
  intros (Hst & HqA & Hpx & Hmx & Hstay & HdX & HqB & Hpy & Hmy & Hf) E Hd.
  unfold outbound_only. rewrite (first_start_app A' x' more A x E).
  assert (HnB : 0 <= Z.of_nat (length B)) by lia.
  assert (Hlen : (length A + 1 = length A' + 1 + length more)%nat).
  { apply (f_equal (@length _)) in E. rewrite !app_length in E. cbn [length] in E. lia. }
  destruct more as [|m1 more1].
  - apply app_inj_tail in E. destruct E as [-> ->].
    split; [exact Hst|]. split; [exact HqA|]. split; [exact Hpx|]. split; [exact Hmx|]. split; [exact Hd|]. lia.
  - (* A = A' ++ x' :: removelast (m1 :: more1), the run of A continues after x' *)
    assert (EA : exists more0, A = A' ++ x' :: more0).
    { exists (removelast (m1 :: more1)).
      assert (Hne : m1 :: more1 <> []) by discriminate.
      pose proof (app_removelast_last x Hne) as Hl.
      assert (E2 : A ++ [x] = (A' ++ x' :: removelast (m1 :: more1)) ++ [last (m1 :: more1) x]).
      { rewrite <- app_assoc. cbn [app]. rewrite <- Hl. exact E. }
      apply app_inj_tail in E2. apply E2. }
    destruct EA as (more0 & ->).
    rewrite nexts_app in HqA. destruct (quiet_app p _ _ _ _ _ HqA) as [Q1 Q2].
    rewrite length_nexts in Q2. cbn [nexts quiet] in Q2. destruct Q2 as (P1 & P2 & _ & _ & P5 & _).
    split; [exact Hst|]. split; [exact Q1|]. split; [exact P1|]. split; [exact P2|]. split; [exact Hd|]. lia.
Qed.

Lemma hd_start_prefix (B : list flight) y (B' : list flight) y' more :
  B ++ [y] = B' ++ y' :: more -> hd_start B' y' = hd_start B y.
Proof.
  unfold hd_start. intros E. destruct B as [|b B1], B' as [|b' B1']; cbn [app] in *.
  - injection E as -> _. reflexivity.
  - injection E as -> E2. destruct B1'; discriminate.
  - injection E as -> _. reflexivity.
  - injection E as -> _. reflexivity.
Qed.

Lemma split_last_eq (B : list flight) y (B' : list flight) y' m1 more1 :
  B ++ [y] = B' ++ y' :: m1 :: more1 -> exists more0, B = B' ++ y' :: more0.
Proof.
  intros E. exists (removelast (m1 :: more1)).
  assert (Hne : m1 :: more1 <> []) by discriminate.
  pose proof (app_removelast_last y Hne) as Hl.
  assert (E2 : B ++ [y] = (B' ++ y' :: removelast (m1 :: more1)) ++ [last (m1 :: more1) y]).
  { rewrite <- app_assoc. cbn [app]. rewrite <- Hl. exact E. }
  apply app_inj_tail in E2. apply E2.
Qed.

(** a prefix B' ++ [y'] of the return journey *)
Lemma return_prefix p (A : list flight) x B y (B' : list flight) y' more :
  out_and_back p A x B y -> B ++ [y] = B' ++ y' :: more -> out_and_back p A x B' y'.
Proof.
  intros (Hst & HqA & Hpx & Hmx & Hstay & HdX & HqB & Hpy & Hmy & Hf) E.
  unfold out_and_back. rewrite (hd_start_prefix B y B' y' more E).
  destruct more as [|m1 more1].
  - apply app_inj_tail in E. destruct E as [-> ->].
    split; [exact Hst|]. split; [exact HqA|]. split; [exact Hpx|]. split; [exact Hmx|]. split; [exact Hstay|].
    split; [exact HdX|]. split; [exact HqB|]. split; [exact Hpy|]. split; [exact Hmy|]. exact Hf.
  - destruct (split_last_eq B y B' y' m1 more1 E) as (more0 & ->).
    rewrite nexts_app in HqB. destruct (quiet_app p _ _ _ _ _ HqB) as [Q1 Q2].
    rewrite length_nexts in Q2. cbn [nexts quiet] in Q2. destruct Q2 as (P1 & P2 & _ & _ & P5 & _).
    split; [exact Hst|]. split; [exact HqA|]. split; [exact Hpx|]. split; [exact Hmx|]. split; [exact Hstay|].
    split; [exact HdX|]. split; [exact Q1|]. split; [exact P1|]. split; [exact P2|]. lia.
Qed.

(** a leg that is followed by another leg of the same journey, not yet departed at [now], is not due *)
Lemma followed_leg_not_due p (L1 : list flight) g nxt (L2 : list flight) z v st c now :
  quiet p v st c (nexts (L1 ++ g :: nxt :: L2) z) -> now <= fstart nxt ->
  days_between (fend g) now < FlightInterval p.
Proof.
  intros Hq Hn. rewrite nexts_app in Hq. destruct (quiet_app p _ _ _ _ _ Hq) as [_ Q2].
  cbn [nexts quiet] in Q2. destruct Q2 as (_ & _ & Hgap & _).
  eapply Z.le_lt_trans; [apply days_between_mono, Hn|exact Hgap].
Qed.

(** ---- reporting a flight that is newer than everything stored ---- *)
Lemma add_flight_newest (h : hist) (f : flight) :
  ordered h -> fstart (getf (entries h) 0) <= fstart f ->
  add_flight h f = inl {| entries := f :: firstn (MaxFlights - 1) (entries h);
                          oc := if Nat.ltb (oc h) (MaxFlights - 1) then S (oc h) else oc h |}.
Proof.
  intros (Hl & Hd & Hn) Hle. unfold add_flight. rewrite older_index_first_le by assumption.
  assert (E0 : first_le (fstart f) (entries h) = 0%nat).
  { destruct (entries h) as [|g t]; [reflexivity|]. cbn [first_le getf nth] in *.
    destruct (Z.leb_spec (fstart g) (fstart f)); [reflexivity|lia]. }
  rewrite E0. cbn [Nat.leb firstn skipn app Nat.ltb Nat.leb]. rewrite Nat.sub_0_r. reflexivity.
Qed.

(** starts never decrease along the itinerary and are positive *)
Fixpoint asc_from (t : Z) (l : list flight) : Prop :=
  match l with [] => True | f :: r => t <= fstart f /\ asc_from (fstart f) r end.

Lemma asc_from_weaken t t' (l : list flight) : t' <= t -> asc_from t l -> asc_from t' l.
Proof. destruct l; [auto|]. cbn. intros H [H1 H2]. split; [lia|exact H2]. Qed.

Lemma asc_from_In t (l : list flight) f : asc_from t l -> In f l -> t <= fstart f.
Proof.
  revert t. induction l as [|g r IH]; intros t Ha Hin; [destruct Hin|].
  cbn in Ha. destruct Ha as [H1 H2]. destruct Hin as [<-|Hin]; [exact H1|].
  specialize (IH _ H2 Hin). lia.
Qed.

Definition add_all (h : hist) (F : list flight) : hist := fold_left (fun h f => apply_op h (OAdd f)) F h.

Lemma add_all_spec : forall (F : list flight) (h : hist) t,
  ordered h -> 0 <= t -> fstart (getf (entries h) 0) <= t -> asc_from t F ->
  (length F + oc h < MaxFlights)%nat ->
  ordered (add_all h F) /\
  entries (add_all h F) = rev F ++ firstn (MaxFlights - length F) (entries h) /\
  oc (add_all h F) = (length F + oc h)%nat.
Proof.
  induction F as [|f r IH]; intros h t Ho Ht Hh Ha Hlen.
  - cbn [add_all fold_left rev app length]. destruct Ho as (Hl & Hd & Hn).
    split; [repeat split; assumption|]. split; [|reflexivity].
    rewrite Nat.sub_0_r, <- Hl, firstn_all. reflexivity.
  - cbn [asc_from] in Ha. destruct Ha as [Hf Hr].
    set (h1 := {| entries := f :: firstn (MaxFlights - 1) (entries h);
                  oc := if Nat.ltb (oc h) (MaxFlights - 1) then S (oc h) else oc h |}).
    assert (Estep : add_all h (f :: r) = add_all h1 r).
    { unfold add_all. cbn [fold_left apply_op]. rewrite (add_flight_newest h f Ho ltac:(lia)). reflexivity. }
    rewrite Estep.
    assert (Ho1 : ordered h1).
    { pose proof (add_flight_ordered h h1 f Ho ltac:(lia) (add_flight_newest h f Ho ltac:(lia))). assumption. }
    cbn [length] in Hlen.
    assert (Eoc : oc h1 = S (oc h)).
    { unfold h1. cbn [oc]. destruct (Nat.ltb_spec (oc h) (MaxFlights - 1)); [reflexivity|unfold MaxFlights in *; lia]. }
    destruct (IH h1 (fstart f) Ho1 ltac:(lia) ltac:(unfold h1; cbn; lia) Hr ltac:(rewrite Eoc; lia)) as (I1 & I2 & I3).
    split; [exact I1|]. split.
    + rewrite I2. unfold h1. cbn [entries rev length]. rewrite <- app_assoc. cbn [app]. f_equal.
      destruct Ho as (Hl & _ & _).
      replace (MaxFlights - length r)%nat with (S (MaxFlights - S (length r))) by (unfold MaxFlights in *; lia).
      cbn [firstn]. f_equal. rewrite firstn_firstn. f_equal. unfold MaxFlights in *. lia.
    + rewrite I3, Eoc. cbn [length]. lia.
Qed.

(** ---- where a prefix of the itinerary ends ---- *)
Lemma app_split {T} : forall (a b c d : list T), a ++ b = c ++ d ->
  (exists l, c = a ++ l /\ b = l ++ d) \/ (exists l, a = c ++ l /\ d = l ++ b).
Proof.
  induction a as [|u a IH]; intros b c d E.
  - left. exists c. split; [reflexivity|exact E].
  - destruct c as [|w c].
    + right. exists (u :: a). split; [reflexivity|]. cbn [app] in E. rewrite <- E. reflexivity.
    + cbn [app] in E. injection E as -> E. destruct (IH b c d E) as [(l & -> & ->)|(l & -> & ->)].
      * left. exists l. split; reflexivity.
      * right. exists l. split; reflexivity.
Qed.

Lemma prefix_cases (A : list flight) x B y (done todo : list flight) :
  itinerary A x B y = done ++ todo -> done <> [] ->
  (exists A' x' more, done = A' ++ [x'] /\ A ++ [x] = A' ++ x' :: more /\ todo = more ++ B ++ [y]) \/
  (exists B' y', done = A ++ x :: B' ++ [y'] /\ B ++ [y] = B' ++ y' :: todo).
Proof.
  intros E Hne. unfold itinerary in E.
  replace (A ++ x :: B ++ [y]) with ((A ++ [x]) ++ (B ++ [y])) in E by (rewrite <- app_assoc; reflexivity).
  destruct (app_split _ _ _ _ E) as [(l & E1 & E2)|(l & E1 & E2)].
  - destruct l as [|l0 l1] using rev_ind.
    + left. exists A, x, []. rewrite app_nil_r in E1. split; [exact E1|]. split; [reflexivity|]. cbn [app] in E2. rewrite <- E2. reflexivity.
    + right. clear IHl1. exists l1, l0. split.
      * rewrite E1, <- !app_assoc. reflexivity.
      * rewrite E2, <- app_assoc. reflexivity.
  - left. destruct (exists_last Hne) as (A' & x' & ->). exists A', x', l. split; [reflexivity|].
    split; [rewrite E1, <- app_assoc; reflexivity|exact E2].
Qed.

Lemma asc_from_app (a b : list flight) : forall t, asc_from t (a ++ b) ->
  asc_from t a /\ (forall d, a <> [] -> asc_from (fstart (last a d)) b).
Proof.
  induction a as [|u a IH]; intros t H; [split; [exact I|intros d C; contradiction]|].
  cbn [app asc_from] in H. destruct H as [H1 H2]. destruct (IH _ H2) as [I1 I2].
  split; [cbn; auto|]. intros d _. destruct a as [|w a']; [exact H2|].
  change (last (u :: w :: a') d) with (last (w :: a') d). apply I2. discriminate.
Qed.

Lemma newest_mark_data p now (f : flight) : fstart (newest_mark p now f) = fstart f /\ erase (newest_mark p now f) = erase f.
Proof. unfold newest_mark. destruct (_ <=? _); split; reflexivity. Qed.

Lemma final_mark_data p now st (f : flight) : fstart (final_mark p now st f) = fstart f /\ erase (final_mark p now st f) = erase f.
Proof.
  unfold final_mark. destruct (Algo p =? 0); [destruct (_ || _); split; reflexivity|].
  destruct (_ <? _); [split; reflexivity|]. destruct (_ <=? _); split; reflexivity.
Qed.

Lemma stop_at_firstn (r : list flight) n : stop_at r -> stop_at (firstn n r).
Proof.
  intros [->|(r0 & rs & -> & H)]; [left; destruct n; reflexivity|].
  destruct n; [left; reflexivity|]. right. exists r0, (firstn n rs). split; [reflexivity|exact H].
Qed.

(** gaps between consecutive legs of a journey *)
Fixpoint gaps_ok (p : thparams) (l : list flight) : Prop :=
  match l with
  | f :: (g :: _) as r => days_between (fend f) (fstart g) < FlightInterval p /\ gaps_ok p r
  | _ => True
  end.

Lemma quiet_gaps p : forall (L : list flight) (z : flight) v st c,
  quiet p v st c (nexts L (fstart z)) -> gaps_ok p (L ++ [z]).
Proof.
  induction L as [|f r IH]; intros z v st c Hq; [exact I|].
  cbn [nexts quiet] in Hq. destruct Hq as (_ & _ & Hg & _ & _ & Hq).
  specialize (IH z _ _ _ Hq). destruct r as [|g r']; cbn [app gaps_ok]; split; auto.
Qed.

Lemma gaps_ok_mid p : forall (L1 : list flight) f g L2, gaps_ok p (L1 ++ f :: g :: L2) ->
  days_between (fend f) (fstart g) < FlightInterval p.
Proof.
  induction L1 as [|u L1 IH]; intros f g L2 H.
  - cbn [app gaps_ok] in H. apply H.
  - apply (IH f g L2). destruct L1 as [|w L1']; cbn [app gaps_ok] in H |- *; apply H.
Qed.

Lemma final_mark_cases p now st (y : flight) : et y = Fl -> is_end (final_mark p now st y) = false ->
  final_mark p now st y = y \/
  (final_mark p now st y = set_et y JEnd /\ FlightInterval p <= days_between (fend y) now /\ Algo p <> 0).
Proof.
  intros Hy. unfold final_mark.
  destruct (Z.eqb_spec (Algo p) 0) as [Ha|Ha].
  - destruct (_ || _); [unfold is_end; cbn; discriminate|left; reflexivity].
  - destruct (_ <? _); [unfold is_end; cbn; discriminate|].
    destruct (Z.leb_spec (FlightInterval p) (days_between (fend y) now)); [right; auto|left; reflexivity].
Qed.

Lemma final_mark_closed_mono p now now' st (y : flight) :
  is_end (final_mark p now st y) = true -> et y = Fl -> now <= now' ->
  final_mark p now' st y = final_mark p now st y.
Proof.
  intros Hc Hy Hn. unfold final_mark in *.
  pose proof (days_between_mono (fend y) now now' Hn) as M1. pose proof (days_between_mono st now now' Hn) as M2.
  destruct (Algo p =? 0).
  - destruct (Z.leb_spec (FlightInterval p) (days_between (fend y) now)) as [D|D];
    destruct (Z.ltb_spec (TripLength p) (days_between st now)) as [O|O]; cbn [orb] in *;
    try (unfold is_end in Hc; rewrite Hy in Hc; discriminate);
    destruct (Z.leb_spec (FlightInterval p) (days_between (fend y) now'));
    destruct (Z.ltb_spec (TripLength p) (days_between st now')); cbn [orb]; try reflexivity; lia.
  - destruct (Z.ltb_spec (TripLength p) (days_between st now)) as [O|O].
    + destruct (Z.ltb_spec (TripLength p) (days_between st now')); [reflexivity|lia].
    + destruct (FlightInterval p <=? days_between (fend y) now); unfold is_end in Hc; cbn in Hc; try discriminate.
      rewrite Hy in Hc. discriminate.
Qed.

Lemma final_mark_quiet p now st (y : flight) :
  days_between (fend y) now < FlightInterval p -> days_between st now <= TripLength p -> final_mark p now st y = y.
Proof.
  intros H1 H2. unfold final_mark.
  destruct (Z.leb_spec (FlightInterval p) (days_between (fend y) now)); [lia|].
  destruct (Z.ltb_spec (TripLength p) (days_between st now)); [lia|]. cbn [orb]. destruct (Algo p =? 0); reflexivity.
Qed.

Lemma newest_mark_cases p now (f : flight) :
  newest_mark p now f = f \/ (newest_mark p now f = set_et f JEnd /\ FlightInterval p <= days_between (fend f) now).
Proof. unfold newest_mark. destruct (Z.leb_spec (FlightInterval p) (days_between (fend f) now)); auto. Qed.

Lemma newest_mark_quiet p now (f : flight) : days_between (fend f) now < FlightInterval p -> newest_mark p now f = f.
Proof. intros H. unfold newest_mark. destruct (Z.leb_spec (FlightInterval p) (days_between (fend f) now)); [lia|reflexivity]. Qed.

(** an ended trip with nothing reported since: Update has nothing to do *)
Lemma update_nochange (h : hist) p now : oc h = 0%nat -> is_end (getf (entries h) 0) = true ->
  fstart (getf (entries h) 0) <> 0 -> now mod SecondsInDay = 0 -> update h p now = inr ENoChange.
Proof.
  intros Hoc He Hs Hn. unfold update, hempty. destruct (Z.eqb_spec (fstart (getf (entries h) 0)) 0); [contradiction|].
  rewrite Hn, Hoc, He. reflexivity.
Qed.

Section Run.
Variables (p : thparams) (A : list flight) (x : flight) (B : list flight) (y : flight) (rest0 : list flight).
Let st := first_start A x.
Hypothesis Hoab : out_and_back p A x B y.
Hypothesis Hfresh : fresh (itinerary A x B y).
Hypothesis Hasc : asc_from 1 (itinerary A x B y).
Hypothesis Hsize : (length (itinerary A x B y) < MaxFlights)%nat.
Hypothesis Hstop : stop_at rest0.
Hypothesis Hrlen : length rest0 = MaxFlights.
Hypothesis Hrold : forall f, In f (itinerary A x B y) -> fstart (getf rest0 0) <= fstart f.

(** what the history holds (newest first) after the daily update at [now] when [done] has been reported *)
Inductive expected (now : Z) : list flight -> list flight -> Prop :=
| ExpNone : expected now [] []
| ExpOut A' x' more : A ++ [x] = A' ++ x' :: more ->
    expected now (A' ++ [x']) (newest_mark p now x' :: rev A')
| ExpRet B' y' more : B ++ [y] = B' ++ y' :: more ->
    expected now (A ++ x :: B' ++ [y']) (final_mark p now st y' :: rev B' ++ set_et x JEnd :: rev A).

Definition rest_of (done : list flight) : list flight := firstn (MaxFlights - length done) rest0.

Lemma expected_length now done stored : expected now done stored -> length stored = length done.
Proof.
  intros H. destruct H; cbn [length]; rewrite ?app_length, ?rev_length; cbn [length]; rewrite ?app_length, ?rev_length; cbn [length]; lia.
Qed.

Lemma expected_head now done stored r : expected now done stored -> done <> [] ->
  fstart (getf (stored ++ r) 0) = fstart (last done x).
Proof.
  intros H Hne. destruct H as [|A' x' more E|B' y' more E]; [contradiction| |].
  - cbn [app getf nth]. rewrite last_snoc. apply newest_mark_data.
  - cbn [app getf nth]. replace (A ++ x :: B' ++ [y']) with ((A ++ x :: B') ++ [y']) by (rewrite <- app_assoc; reflexivity).
    rewrite last_snoc. apply final_mark_data.
Qed.

Lemma expected_nil now stored : expected now [] stored -> stored = [].
Proof.
  intros H. remember [] as d eqn:Ed. destruct H as [|A' x' more E|B' y' more E]; [reflexivity| |].
  - destruct A'; discriminate.
  - destruct A; discriminate.
Qed.

Record Good (done todo : list flight) (now : Z) (h : hist) : Prop := mkGood {
  g_split : itinerary A x B y = done ++ todo;
  g_ord : ordered h;
  g_oc : oc h = 0%nat;
  g_later : forall f, In f todo -> now <= fstart f;
  g_lim : todo <> [] -> days_between st now <= TripLength p;
  g_exp : exists stored, expected now done stored /\ entries h = stored ++ rest_of done }.

Lemma rest_of_app (done F : list flight) :
  firstn (MaxFlights - length F - length done) (rest_of done) = rest_of (done ++ F).
Proof.
  unfold rest_of. rewrite firstn_firstn, app_length. f_equal. lia.
Qed.

Lemma In_itin_ge1 f : In f (itinerary A x B y) -> 1 <= fstart f.
Proof. intros H. eapply asc_from_In; eauto. Qed.

(** after reporting the flights F (in order, each newer than everything stored) *)
Lemma adds_shape done F todo' now (h : hist) :
  Good done (F ++ todo') now h ->
  exists stored, expected now done stored /\
    ordered (add_all h F) /\ (oc (add_all h F) <= length (done ++ F))%nat /\
    entries (add_all h F) = rev F ++ stored ++ rest_of (done ++ F).
Proof.
  intros [Hsplit Hord Hoc Hlater Hlim (stored & Hexp & Eent)].
  exists stored. split; [exact Hexp|].
  pose proof (expected_length _ _ _ Hexp) as Hsl.
  assert (Hlen : (length done + length F + length todo' < MaxFlights)%nat).
  { pose proof Hsize as Hs. rewrite Hsplit, !app_length in Hs. lia. }
  set (t := fstart (getf (entries h) 0)).
  assert (Ht0 : 0 <= t).
  { destruct Hord as (Hl & _ & Hn). apply Hn. unfold getf. apply nth_In. rewrite Hl. unfold MaxFlights. lia. }
  assert (HascF : asc_from t F).
  { destruct F as [|f0 F']; [exact I|].
    assert (Hin : forall f, In f (f0 :: F') -> In f (itinerary A x B y)).
    { intros f Hf. rewrite Hsplit. apply in_or_app. right. apply in_or_app. left. exact Hf. }
    pose proof Hasc as Ha. rewrite Hsplit in Ha.
    destruct (asc_from_app _ _ _ Ha) as [_ Ha2].
    destruct done as [|d0 done'].
    - (* nothing reported before: the head of the history is the head of the older flights *)
      rewrite (expected_nil _ _ Hexp) in Eent. cbn [app] in Eent. unfold rest_of in Eent. cbn [length] in Eent.
      rewrite Nat.sub_0_r, <- Hrlen, firstn_all in Eent.
      change ([] ++ (f0 :: F') ++ todo') with ((f0 :: F') ++ todo') in Ha.
      destruct (asc_from_app _ _ _ Ha) as [Ha1 _].
      cbn [asc_from] in Ha1 |- *. destruct Ha1 as [_ Ha1]. split; [|exact Ha1].
      unfold t. rewrite Eent. apply Hrold, Hin. left. reflexivity.
    - specialize (Ha2 x ltac:(discriminate)). destruct (asc_from_app _ _ _ Ha2) as [Ha3 _].
      unfold t. rewrite Eent, (expected_head _ _ _ _ Hexp ltac:(discriminate)). exact Ha3. }
  destruct (add_all_spec F h t Hord Ht0 ltac:(unfold t; lia) HascF ltac:(rewrite Hoc; lia)) as (O1 & E1 & Oc1).
  split; [exact O1|]. split; [rewrite Oc1, Hoc, app_length; lia|].
  rewrite E1, Eent. f_equal.
  rewrite firstn_app, Hsl. rewrite firstn_all2 by (rewrite Hsl; lia). f_equal.
  apply rest_of_app.
Qed.

Lemma gaps_out : gaps_ok p (A ++ [x]).
Proof. destruct Hoab as (_ & HqA & _). eapply quiet_gaps, HqA. Qed.
Lemma gaps_ret : gaps_ok p (B ++ [y]).
Proof. destruct Hoab as (_ & _ & _ & _ & _ & _ & HqB & _). eapply quiet_gaps, HqB. Qed.

(** the stored flights after today's reports, seen as an outbound prefix whose newest flight may carry
    the journey-end marker of an earlier update *)
Lemma incoming_out done F todo' now now' stored A' x' more :
  expected now done stored -> (forall f, In f (F ++ todo') -> now <= fstart f) -> now <= now' ->
  done ++ F = A' ++ [x'] -> A ++ [x] = A' ++ x' :: more ->
  exists xm, rev F ++ stored = rev (A' ++ [xm]) /\
    (xm = x' \/ (xm = set_et x' JEnd /\ FlightInterval p <= days_between (fend x') now')).
Proof.
  intros Hexp Hlater Hnn Ed EA.
  destruct Hexp as [|A0 x0 more0 E0|B0 y0 more0 E0].
  - cbn [app] in Ed. subst F. exists x'. rewrite app_nil_r. split; [reflexivity|left; reflexivity].
  - destruct F as [|g F'].
    + rewrite app_nil_r in Ed. apply app_inj_tail in Ed. destruct Ed as [-> ->].
      exists (newest_mark p now x'). cbn [app]. split; [rewrite rev_app_distr; reflexivity|].
      destruct (newest_mark_cases p now x') as [->|[-> Hdue]]; [left; reflexivity|right].
      split; [reflexivity|]. pose proof (days_between_mono (fend x') now now' Hnn). lia.
    + assert (EA2 : A ++ [x] = A0 ++ x0 :: g :: (F' ++ more)).
      { rewrite EA. replace (A' ++ x' :: more) with ((A' ++ [x']) ++ more) by (rewrite <- app_assoc; reflexivity).
        rewrite <- Ed, <- !app_assoc. reflexivity. }
      pose proof gaps_out as G. rewrite EA2 in G. pose proof (gaps_ok_mid p _ _ _ _ G) as Hgap.
      assert (Hg : now <= fstart g) by (apply Hlater; left; reflexivity).
      rewrite (newest_mark_quiet p now x0) by (eapply Z.le_lt_trans; [apply days_between_mono, Hg|exact Hgap]).
      exists x'. split; [|left; reflexivity].
      rewrite <- Ed, <- app_assoc. cbn [app]. rewrite !rev_app_distr. cbn [rev app]. rewrite <- !app_assoc. reflexivity.
  - exfalso. apply (f_equal (@length _)) in Ed. apply (f_equal (@length _)) in EA.
    rewrite !app_length in *. cbn [length] in *. rewrite !app_length in *. cbn [length] in *. lia.
Qed.

Lemma fresh_y' (B' : list flight) y' more : B ++ [y] = B' ++ y' :: more -> et y' = Fl.
Proof.
  intros E. apply Hfresh. unfold itinerary. apply in_or_app. right. right.
  rewrite E. apply in_or_app. right. left. reflexivity.
Qed.

(** ... seen as the outbound journey plus a prefix of the return journey *)
Lemma incoming_ret done F todo' now now' stored B' y' :
  expected now done stored -> (forall f, In f (F ++ todo') -> now <= fstart f) ->
  (F ++ todo' <> [] -> days_between st now <= TripLength p) -> now <= now' ->
  done ++ F = A ++ x :: B' ++ [y'] -> B ++ [y] = B' ++ y' :: todo' ->
  (F = [] /\ stored = final_mark p now st y' :: rev B' ++ set_et x JEnd :: rev A /\
   is_end (final_mark p now st y') = true) \/
  (exists xm ym, rev F ++ stored = rev (itinerary A xm B' ym) /\
     (xm = x \/ xm = set_et x JEnd) /\
     (ym = y' \/ (ym = set_et y' JEnd /\ FlightInterval p <= days_between (fend y') now' /\ Algo p <> 0))).
Proof.
  intros Hexp Hlater Hlim Hnn Ed EB.
  destruct Hexp as [|A0 x0 more0 E0|B0 y0 more0 E0].
  - right. cbn [app] in Ed. subst F. exists x, y'. rewrite app_nil_r. split; [reflexivity|]. split; left; reflexivity.
  - right. destruct more0 as [|m1 more1].
    + (* the outbound journey was complete: its last leg may already be marked *)
      apply app_inj_tail in E0. destruct E0 as [<- <-].
      assert (EF : F = B' ++ [y']).
      { rewrite <- app_assoc in Ed. apply app_inv_head in Ed. cbn [app] in Ed. injection Ed as Ed. exact Ed. }
      exists (newest_mark p now x), y'. split.
      * rewrite EF. unfold itinerary. rewrite !rev_app_distr. cbn [rev app]. rewrite !rev_app_distr. cbn [rev app].
        rewrite <- !app_assoc. reflexivity.
      * split; [|left; reflexivity]. destruct (newest_mark_cases p now x) as [->|[-> _]]; auto.
    + (* x0 is followed by another outbound leg, the first flight reported today *)
      destruct F as [|g F'].
      { exfalso. rewrite app_nil_r in Ed. apply (f_equal (@length _)) in Ed. apply (f_equal (@length _)) in E0.
        rewrite !app_length in *. cbn [length] in *. rewrite !app_length in *. cbn [length] in *. lia. }
      assert (Hg1 : g = m1).
      { (* both follow A0 ++ [x0] in the itinerary *)
        assert (E2 : A ++ x :: B' ++ [y'] = (A0 ++ x0 :: m1 :: more1) ++ B' ++ [y']).
        { replace (A ++ x :: B' ++ [y']) with ((A ++ [x]) ++ B' ++ [y']) by (rewrite <- app_assoc; reflexivity). rewrite E0. reflexivity. }
        rewrite E2 in Ed. rewrite <- !app_assoc in Ed. apply app_inv_head in Ed. cbn [app] in Ed.
        apply (f_equal (fun l => nth 1 l x)) in Ed. cbn [nth] in Ed. exact Ed. }
      subst m1. pose proof gaps_out as G. rewrite E0 in G. pose proof (gaps_ok_mid p _ _ _ _ G) as Hgap.
      assert (Hg : now <= fstart g) by (apply Hlater; left; reflexivity).
      rewrite (newest_mark_quiet p now x0) by (eapply Z.le_lt_trans; [apply days_between_mono, Hg|exact Hgap]).
      exists x, y'. split; [|split; left; reflexivity].
      replace (x0 :: rev A0) with (rev (A0 ++ [x0])) by (rewrite rev_app_distr; reflexivity).
      rewrite <- rev_app_distr, Ed. reflexivity.
  - (* a prefix of the return journey had been reported *)
    assert (EBF : B0 ++ y0 :: F = B' ++ [y']).
    { rewrite <- app_assoc in Ed. apply app_inv_head in Ed. cbn [app] in Ed. injection Ed as Ed.
      rewrite <- app_assoc in Ed. exact Ed. }
    destruct F as [|g F'].
    + apply app_inj_tail in EBF. destruct EBF as [-> ->].
      destruct (is_end (final_mark p now st y')) eqn:Eend; [left; auto|right].
      pose proof (fresh_y' _ _ _ EB) as Hy'.
      exists (set_et x JEnd), (final_mark p now st y'). split.
      * cbn [app]. unfold itinerary. rewrite !rev_app_distr. cbn [rev app]. rewrite !rev_app_distr. cbn [rev app].
        rewrite <- !app_assoc. reflexivity.
      * split; [right; reflexivity|].
        destruct (final_mark_cases p now st y' Hy' Eend) as [->|[-> [Hdue Ha]]]; [left; reflexivity|right].
        split; [reflexivity|]. split; [|exact Ha]. pose proof (days_between_mono (fend y') now now' Hnn). lia.
    + right.
      assert (EB2 : B ++ [y] = B0 ++ y0 :: g :: (F' ++ todo')).
      { rewrite EB. replace (B' ++ y' :: todo') with ((B' ++ [y']) ++ todo') by (rewrite <- app_assoc; reflexivity).
        rewrite <- EBF, <- !app_assoc. reflexivity. }
      pose proof gaps_ret as G. rewrite EB2 in G. pose proof (gaps_ok_mid p _ _ _ _ G) as Hgap.
      assert (Hg : now <= fstart g) by (apply Hlater; left; reflexivity).
      rewrite (final_mark_quiet p now st y0);
        [|eapply Z.le_lt_trans; [apply days_between_mono, Hg|exact Hgap]|apply Hlim; discriminate].
      exists (set_et x JEnd), y'. split; [|split; [right; reflexivity|left; reflexivity]].
      unfold itinerary. rewrite <- EBF.
      do 4 (rewrite ?rev_app_distr; cbn [rev app]; rewrite <- ?app_assoc; cbn [app]). reflexivity.
Qed.

Lemma fresh_sub (l : list flight) : (forall f, In f l -> In f (itinerary A x B y)) -> fresh l.
Proof. intros H f Hf. apply Hfresh, H, Hf. Qed.

(** one day: today's flights are reported (in order), then the daily update runs *)
Definition day (h : hist) (F : list flight) (now : Z) : hist := apply_op (add_all h F) (OUpdate p now).

Theorem day_step done F todo' now now' (h : hist) :
  Good done (F ++ todo') now h -> done ++ F <> [] -> now <= now' -> now' mod SecondsInDay = 0 ->
  (forall f, In f todo' -> now' <= fstart f) -> (todo' <> [] -> days_between st now' <= TripLength p) ->
  Good (done ++ F) todo' now' (day h F now').
Proof.
  intros HG Hne Hnn Hmod Hlater' Hlim'.
  destruct (adds_shape done F todo' now h HG) as (stored & Hexp & O1 & Oc1 & E1).
  destruct HG as [Hsplit Hord Hoc Hlater Hlim _].
  assert (Hsplit' : itinerary A x B y = (done ++ F) ++ todo') by (rewrite <- app_assoc; exact Hsplit).
  assert (Hlen1 : length (entries (add_all h F)) = MaxFlights) by apply O1.
  assert (Hstop1 : stop_at (rest_of (done ++ F))) by (apply stop_at_firstn, Hstop).
  assert (Hord' : ordered (day h F now')) by (apply apply_op_ordered; [exact O1|exact I]).
  destruct (prefix_cases A x B y (done ++ F) todo' Hsplit' Hne) as [(A' & x' & more & Ed & EA & Et)|(B' & y' & Ed & EB)].
  - (* only outbound legs reported so far *)
    assert (Htodo : todo' <> []) by (rewrite Et; destruct more; [destruct B|]; discriminate).
    pose proof (outbound_prefix p now' A x B y A' x' more Hoab EA (Hlim' Htodo)) as Hob.
    destruct (incoming_out done F todo' now now' stored A' x' more Hexp Hlater Hnn Ed EA) as (xm & Ein & Hxm).
    assert (Hfr : fresh (A' ++ [x'])).
    { apply fresh_sub. intros f Hf. rewrite Hsplit', Ed. apply in_or_app. left. exact Hf. }
    destruct (update_out_stage (add_all h F) p now' A' x' xm (rest_of (done ++ F)) Hob Hfr Hxm) as (dy & fy & Eu); try assumption.
    { rewrite E1, app_assoc, Ein. reflexivity. }
    { rewrite Ed in Oc1. rewrite app_length in *. cbn [length] in *. exact Oc1. }
    assert (Eday : day h F now' = {| entries := newest_mark p now' x' :: rev A' ++ rest_of (done ++ F); oc := 0 |}).
    { unfold day. cbn [apply_op]. rewrite Eu. reflexivity. }
    constructor; try assumption.
    + rewrite Eday. reflexivity.
    + exists (newest_mark p now' x' :: rev A'). split; [rewrite Ed; eapply ExpOut; exact EA|rewrite Eday; reflexivity].
  - (* the return journey has begun *)
    pose proof (return_prefix p A x B y B' y' todo' Hoab EB) as Hob.
    assert (Hfr : fresh (itinerary A x B' y')).
    { apply fresh_sub. intros f Hf. rewrite Hsplit', Ed. apply in_or_app. left. exact Hf. }
    destruct (incoming_ret done F todo' now now' stored B' y' Hexp Hlater Hlim Hnn Ed EB)
      as [(EF & Est & Hend)|(xm & ym & Ein & Hxm & Hym)].
    + (* the trip has been closed and nothing was reported today: Update has nothing to do *)
      subst F. rewrite app_nil_r in *. 
      assert (Eadd : add_all h [] = h) by reflexivity.
      assert (Eent : entries h = stored ++ rest_of done) by (rewrite Eadd in E1; exact E1).
      pose proof (fresh_y' _ _ _ EB) as Hy'.
      assert (Ehd : getf (entries h) 0 = final_mark p now st y') by (rewrite Eent, Est; reflexivity).
      assert (Eday : day h [] now' = h).
      { unfold day. rewrite Eadd. cbn [apply_op]. rewrite (update_nochange h p now' Hoc); [reflexivity| | |exact Hmod].
        - rewrite Ehd. exact Hend.
        - rewrite Ehd. destruct (final_mark_data p now st y') as [-> _].
          apply Hfresh. rewrite Hsplit', Ed. apply in_or_app. left. apply in_or_app. right. right. apply in_or_app. right. left. reflexivity. }
      rewrite Eday. constructor; try assumption.
      exists stored. split; [|exact Eent].
      rewrite Est, Ed, <- (final_mark_closed_mono p now now' st y' Hend Hy' Hnn). eapply ExpRet. exact EB.
    + destruct (update_ret_stage (add_all h F) p now' A x xm B' y' ym (rest_of (done ++ F)) Hob Hfr Hxm Hym) as (dy & fy & Eu); try assumption.
      { rewrite E1, app_assoc, Ein. reflexivity. }
      { assert (El : length (itinerary A xm B' ym) = length (done ++ F)).
        { rewrite Ed. unfold itinerary. rewrite !app_length. cbn [length]. rewrite !app_length. reflexivity. }
        rewrite El. exact Oc1. }
      assert (Eday : day h F now' = {| entries := final_mark p now' (first_start A x) y' :: rev B' ++ set_et x JEnd :: rev A ++ rest_of (done ++ F); oc := 0 |}).
      { unfold day. cbn [apply_op]. rewrite Eu. reflexivity. }
      constructor; try assumption.
      * rewrite Eday. reflexivity.
      * exists (final_mark p now' st y' :: rev B' ++ set_et x JEnd :: rev A). split; [rewrite Ed; eapply ExpRet; exact EB|].
        rewrite Eday. cbn [entries app]. rewrite <- app_assoc. reflexivity.
Qed.

(** ---- any number of days ---- *)
(** a day = (number of flights reported that day, time of the daily update that follows) *)
Fixpoint run (h : hist) (todo : list flight) (days : list (nat * Z)) : hist :=
  match days with
  | [] => h
  | (c, now) :: r => run (day h (firstn c todo) now) (skipn c todo) r
  end.

(** the hypotheses of C06 on the calendar: updates at day starts, going forward; a flight is reported
    before it departs; while legs are still to come the trip is within its length limit *)
Fixpoint days_ok (done todo : list flight) (now : Z) (days : list (nat * Z)) : Prop :=
  match days with
  | [] => True
  | (c, now') :: r =>
      done ++ firstn c todo <> [] /\ now <= now' /\ now' mod SecondsInDay = 0 /\
      (forall f, In f (skipn c todo) -> now' <= fstart f) /\
      (skipn c todo <> [] -> days_between st now' <= TripLength p) /\
      days_ok (done ++ firstn c todo) (skipn c todo) now' r
  end.

Fixpoint progress (done todo : list flight) (now : Z) (days : list (nat * Z)) : list flight * list flight * Z :=
  match days with
  | [] => (done, todo, now)
  | (c, now') :: r => progress (done ++ firstn c todo) (skipn c todo) now' r
  end.

Theorem run_good : forall days done todo now (h : hist),
  Good done todo now h -> days_ok done todo now days ->
  let '(done', todo', now') := progress done todo now days in Good done' todo' now' (run h todo days).
Proof.
  induction days as [|[c now'] r IH]; intros done todo now h HG Hok; [exact HG|].
  cbn [days_ok] in Hok. destruct Hok as (Hne & Hnn & Hmod & Hlater & Hlim & Hok).
  cbn [progress run]. apply IH; [|exact Hok].
  apply (day_step done (firstn c todo) (skipn c todo) now now' h); try assumption. rewrite firstn_skipn. exact HG.
Qed.

Lemma days_between_nonneg a b : 0 <= days_between a b.
Proof. unfold days_between, SecondsInDay. destruct (Z.ltb_spec b a); [lia|apply Z.div_pos; lia]. Qed.

(** the state before anything is reported: an ordered history holding only older, closed trips *)
Lemma good_start (h0 : hist) :
  ordered h0 -> entries h0 = rest0 -> oc h0 = 0%nat -> Good [] (itinerary A x B y) 0 h0.
Proof.
  intros Ho Ee Hoc. constructor; try assumption.
  - reflexivity.
  - intros f Hf. pose proof (In_itin_ge1 f Hf). lia.
  - intros _. destruct Hoab as (_ & _ & _ & _ & _ & HdX & _). fold st in HdX.
    assert (days_between st 0 <= days_between st (hd_start B y)).
    { unfold days_between at 1. destruct (Z.ltb_spec 0 st); [apply days_between_nonneg|].
      pose proof (In_itin_ge1 (hd x A)) as H1. unfold st, first_start in *.
      assert (In (hd x A) (itinerary A x B y)) by (unfold itinerary; destruct A; [left|left]; reflexivity).
      specialize (H1 H0). lia. }
    lia.
  - exists []. split; [constructor|]. cbn [app]. unfold rest_of. cbn [length]. rewrite Nat.sub_0_r, <- Hrlen, firstn_all. exact Ee.
Qed.

(** what [expected] says, clause by clause *)
Lemma expected_complete now stored :
  expected now (itinerary A x B y) stored -> stored = final_mark p now st y :: rev B ++ set_et x JEnd :: rev A.
Proof.
  intros H. remember (itinerary A x B y) as d eqn:Ed. destruct H as [|A' x' more E|B' y' more E].
  - unfold itinerary in Ed. destruct A; discriminate.
  - exfalso. apply (f_equal (@length _)) in Ed. apply (f_equal (@length _)) in E. unfold itinerary in Ed.
    rewrite !app_length in *. cbn [length] in *. rewrite !app_length in *. cbn [length] in *. lia.
  - unfold itinerary in Ed. apply app_inv_head in Ed. injection Ed as Ed.
    assert (E2 : B' ++ [y'] = B ++ [y]) by exact Ed.
    apply app_inj_tail in E2. destruct E2 as [-> ->]. reflexivity.
Qed.

(** the property's first clause, on every day: no stored flight of the itinerary carries a marker except
    the last outbound leg (journey end) and, once everything is reported, the final leg *)
Theorem markers_every_day done todo now (h : hist) :
  Good done todo now h ->
  exists stored, entries h = stored ++ rest_of done /\ expected now done stored /\
    forall f, In f stored ->
      et f = Fl \/ (f = set_et x JEnd) \/ (todo = [] /\ f = final_mark p now st y).
Proof.
  intros [Hsplit Hord Hoc Hlater Hlim (stored & Hexp & Eent)].
  exists stored. split; [exact Eent|]. split; [exact Hexp|].
  destruct Hexp as [|A' x' more E|B' y' more E].
  - intros f [].
  - (* outbound prefix A' ++ [x'] *)
    assert (HfrA : forall f, In f A' -> et f = Fl).
    { intros f Hf. apply Hfresh. rewrite Hsplit. apply in_or_app. left. apply in_or_app. left. exact Hf. }
    intros f [<-|Hf]; [|left; apply HfrA, in_rev, Hf].
    destruct more as [|g more1].
    + apply app_inj_tail in E. destruct E as [<- <-].
      destruct (newest_mark_cases p now x) as [->|[-> _]]; [left|right; left; reflexivity].
      apply Hfresh. unfold itinerary. apply in_or_app. right. left. reflexivity.
    + left. (* x' is followed by g, which has not departed *)
      assert (Htodo : exists t2, todo = g :: t2).
      { unfold itinerary in Hsplit.
        replace (A ++ x :: B ++ [y]) with ((A ++ [x]) ++ B ++ [y]) in Hsplit by (rewrite <- app_assoc; reflexivity).
        rewrite E in Hsplit. rewrite <- !app_assoc in Hsplit. apply app_inv_head in Hsplit. cbn [app] in Hsplit.
        injection Hsplit as Hs. exists (more1 ++ B ++ [y]). rewrite <- Hs. reflexivity. }
      destruct Htodo as (t2 & ->).
      pose proof gaps_out as G. rewrite E in G. pose proof (gaps_ok_mid p _ _ _ _ G) as Hgap.
      assert (Hg : now <= fstart g) by (apply Hlater; left; reflexivity).
      rewrite (newest_mark_quiet p now x') by (eapply Z.le_lt_trans; [apply days_between_mono, Hg|exact Hgap]).
      apply Hfresh. rewrite Hsplit. apply in_or_app. left. apply in_or_app. right. left. reflexivity.
  - assert (Htodo : todo = more).
    { unfold itinerary in Hsplit. rewrite <- app_assoc in Hsplit. apply app_inv_head in Hsplit. cbn [app] in Hsplit.
      injection Hsplit as Hs. rewrite E in Hs. rewrite <- app_assoc in Hs. apply app_inv_head in Hs. cbn [app] in Hs.
      injection Hs as Hs. symmetry. exact Hs. }
    subst more.
    assert (Hfr : forall f, In f (rev B' ++ set_et x JEnd :: rev A) -> et f = Fl \/ f = set_et x JEnd).
    { intros f Hf. apply in_app_or in Hf. destruct Hf as [Hf|[<-|Hf]]; [left|right; reflexivity|left].
      - apply Hfresh. rewrite Hsplit. apply in_or_app. left. apply in_or_app. right. right. apply in_or_app. left. apply in_rev, Hf.
      - apply Hfresh. rewrite Hsplit. apply in_or_app. left. apply in_or_app. left. apply in_rev, Hf. }
    intros f [<-|Hf]; [|destruct (Hfr f Hf); auto].
    destruct todo as [|g t2].
    + apply app_inj_tail in E. destruct E as [<- <-]. right. right. split; reflexivity.
    + left. pose proof gaps_ret as G. rewrite E in G. pose proof (gaps_ok_mid p _ _ _ _ G) as Hgap.
      assert (Hg : now <= fstart g) by (apply Hlater; left; reflexivity).
      rewrite (final_mark_quiet p now st y');
        [|eapply Z.le_lt_trans; [apply days_between_mono, Hg|exact Hgap]|apply Hlim; discriminate].
      eapply fresh_y'; exact E.
Qed.

End Run.
End Days.
