(** C20: the day loop of one traveller-bot of the simulation (Engine.modelDay seen from one bot: the daily
    update, then planning by promisesPlanner, then the day's check-ins by journeyPlanner.submitFlights)
    produces histories that follow the discipline of the whole-history theorem - so every check-in the
    simulation makes for a promised trip or its return is accepted.  Part 1: definitions and the
    effect of each kind of step on the trip history. *)
From Coq Require Import ZArith List Bool Arith Lia Sorting.Sorted.
From Flap Require Import Model.Num Model.Search Model.TripHistory Model.Promises Model.Predictor Model.Engine Model.Bot
  Proofs.SearchP Proofs.THBasics Proofs.THOrder Proofs.THLimits Proofs.PromisesP Proofs.PromisesFrameP Proofs.ClearedP
  Proofs.KeepP Proofs.ItineraryP Proofs.ProtocolP Proofs.HistoryP Proofs.BotShapeP Proofs.BotPlanP.
Import ListNotations.
Open Scope Z_scope.

Section WithNum.
Context {N : NumOps}.
Local Notation K := (K N).
Local Notation flight := (flight N).
Local Notation hist := (hist N).
Local Notation traveller := (traveller N).
Local Notation book := (book N).
Local Notation promise := (promise N).
Local Notation predictor := (predictor N).
Local Notation journey := (journey N).
Local Notation plan_choice := (plan_choice N).
Local Notation day_input := (day_input N).
Local Notation bot := (bot N).
Local Notation ev := (@ev N).

Variable mx : Z.
Hypothesis Hmx : 1 <= mx.
(** the airports table seen through NewFlight: the distance recorded for a flight between two airports *)
Variable dist : Z -> Z -> K.

(** ---------- the day loop ---------- *)
Definition plan_ev (now : Z) (c : plan_choice) (pr : predictor) : ev :=
  let sds := c_day c * SecondsInDay in
  EPlan sds (sds + c_len c * SecondsInDay + (SecondsInDay - 1)) (c_dist c)
        (bot_travelled (dist (c_from c) (c_to c)) (dist (c_to c) (c_from c))) now pr.

Definition plan_okb (t : traveller) (e : ev) : bool :=
  match e with
  | EPlan ts te d tr now pr =>
      match propose (t_book t) ts te d tr now pr mx with
      | inl pp => match make (t_book t) pp pr with inl _ => true | inr _ => false end
      | inr _ => false
      end
  | _ => false
  end.

Definition out_journey (c : plan_choice) : journey :=
  mkJourney true (build_flight (c_day c * SecondsInDay) (c_r c) (c_dur c) (c_from c) (c_to c) (dist (c_from c) (c_to c))) (c_len c).

Definition in_journey (j : journey) (r dur : Z) : journey :=
  let f := j_flight j in
  mkJourney false (build_flight (inbound_day_start j) r dur (fto f) (ffrom f) (dist (fto f) (ffrom f))) (j_len j).

Definition checkin_ev (di : day_input) (f : flight) : ev :=
  ECheckin f (fstart f) (di_pc di) (di_params di) (di_debit di).

(** journeyPlanner.submitFlights for this bot: the day's journeys in the order they were planned; the
    return is planned when the outbound is accepted *)
Fixpoint bot_submit (t : traveller) (today : list journey) (di : day_input) : traveller * list journey * list ev :=
  match today with
  | [] => (t, [], [])
  | j :: r =>
      let e := checkin_ev di (j_flight j) in
      let newj := if acceptedb t e && j_out j then [in_journey j (di_rin di) (di_durin di)] else [] in
      let '(t'', more, evs) := bot_submit (apply_ev mx t e) r di in
      (t'', newj ++ more, e :: evs)
  end.

Definition bot_day (d : Z) (b : bot) (di : day_input) : bot * list ev :=
  let now := d * SecondsInDay in
  let e1 := EUpdate (di_params di) (di_share di) now in
  let t1 := apply_ev mx (b_trav b) e1 in
  let '(t2, pend2, evs2) :=
    match di_plan di with
    | Some c =>
        if existsb (Z.eqb (c_day c)) (prepare_days (t_book t1) d (c_len c) (pMaxDays (di_params di)))
        then let e2 := plan_ev now c (di_pred di) in
             (apply_ev mx t1 e2, if plan_okb t1 e2 then b_pend b ++ [out_journey c] else b_pend b, [e2])
        else (t1, b_pend b, [])
    | None => (t1, b_pend b, [])
    end in
  let '(t3, newj, evs3) := bot_submit t2 (filter (journey_today d) pend2) di in
  (mkBot t3 (pend2 ++ newj), e1 :: evs2 ++ evs3).

Fixpoint bot_run (d : Z) (b : bot) (dis : list day_input) : list ev :=
  match dis with
  | [] => []
  | di :: r => let '(b', evs) := bot_day d b di in evs ++ bot_run (d + 1) b' r
  end.

(** ---------- what the configuration must satisfy ---------- *)
(** the distances of a route: the promised distance travelled is a positive number that equals itself
    and differs from the outbound distance alone (true of every positive finite float64 pair) *)
Definition route_ok (a b : Z) : Prop :=
  let tr := bot_travelled (dist a b) (dist b a) in
  kltb N (k0 N) tr = true /\ keqb N tr tr = true /\ keqb N tr (k0 N) = false /\
  keqb N tr (kadd N (k0 N) (dist a b)) = false.

Definition choice_ok (tp : thparams) (c : plan_choice) : Prop :=
  draw_ok (c_r c) (c_dur c) = true /\ 1 <= c_len c /\
  FlightInterval tp <= c_len c - 1 /\ c_len c + 1 <= TripLength tp /\
  route_ok (c_from c) (c_to c) /\ keqb N (c_dist c) (c_dist c) = true /\
  c_day c * SecondsInDay + c_len c * SecondsInDay + (SecondsInDay - 1) < tmax.

Definition day_ok (tp : thparams) (di : day_input) : Prop :=
  th_params (di_params di) = tp /\ pred_ok (di_pred di) /\ draw_ok (di_rin di) (di_durin di) = true /\
  match di_plan di with Some c => choice_ok tp c | None => True end.

Definition rules_ok (tp : thparams) : Prop :=
  2 < FlightsInTrip tp /\ Algo tp <> 0 /\ 0 <= FlightInterval tp.

(** ---------- small facts ---------- *)
Lemma day_of_build sod r dur a b (dd : K) : sod mod SecondsInDay = 0 -> draw_ok r dur = true ->
  let f := build_flight sod r dur a b dd in
  sod <= fstart f /\ fstart f < fend f /\ fend f < sod + SecondsInDay /\ day_of (fstart f) = sod / SecondsInDay /\
  et f = Fl /\ fdist f = dd /\ ffrom f = a /\ fto f = b.
Proof.
  intros Hm Hd. unfold draw_ok in Hd. apply andb_prop in Hd. destruct Hd as [Hd H3]. apply andb_prop in Hd.
  destruct Hd as [H1 H2]. apply Z.leb_le in H1. apply Z.ltb_lt in H2. apply Z.ltb_lt in H3.
  cbn [build_flight fstart fend et fdist ffrom fto]. unfold day_of, SecondsInDay in *.
  repeat split; try lia.
  assert (E : sod = 86400 * (sod / 86400)) by (pose proof (Z_div_mod_eq_full sod 86400); lia).
  rewrite E at 1. rewrite Z.mul_comm, Z.div_add_l by lia. rewrite (Z.div_small r) by lia. lia.
Qed.

(** AddFlight of a flight that is not older than the newest one: it goes to the head *)
Lemma add_head_exact (h : hist) (f g : flight) (rest : list flight) :
  ordered h -> entries h = g :: rest -> fstart g <= fstart f ->
  add_flight h f = inl {| entries := f :: firstn (MaxFlights - 1) (g :: rest);
                          oc := if Nat.ltb (oc h) (MaxFlights - 1) then S (oc h) else oc h |}.
Proof.
  intros (Hl & Hd & Hn) El Hle. unfold add_flight. rewrite older_index_first_le by assumption.
  rewrite El. cbn [first_le]. destruct (Z.leb_spec (fstart g) (fstart f)); [|lia].
  cbn [Nat.leb firstn skipn app Nat.ltb Nat.leb]. rewrite Nat.sub_0_r.
  destruct (oc h); reflexivity.
Qed.

(** keep finds nothing when no promise matches the open trip *)
Lemma keep_scan_none (b : book) st en (d : K) : forall idx,
  (forall k, (k < idx)%nat -> st < p_ts (getp b k) \/ p_te (getp b k) < en \/ keqb N (p_trav (getp b k)) d = false) ->
  keep_scan b idx st en d = None.
Proof.
  induction idx as [|k IH]; intros H; cbn [keep_scan]; [reflexivity|].
  destruct (H k ltac:(lia)) as [H1|[H1|H1]].
  - destruct (Z.ltb_spec st (p_ts (getp b k))); [|lia]. apply IH. intros j Hj. apply H. lia.
  - destruct (st <? p_ts (getp b k)); [apply IH; intros j Hj; apply H; lia|].
    destruct (Z.leb_spec en (p_te (getp b k))); [lia|]. cbn [andb]. apply IH. intros j Hj. apply H. lia.
  - destruct (st <? p_ts (getp b k)); [apply IH; intros j Hj; apply H; lia|].
    rewrite H1, andb_false_r. apply IH. intros j Hj. apply H. lia.
Qed.


(** ---------- the invariant of the day loop ---------- *)
Variable tp : thparams.
Hypothesis Hrules : rules_ok tp.

(** a planned outbound journey and the promise it will fly under *)
Definition OutFor (j : journey) (p : promise) : Prop :=
  let f := j_flight j in
  j_out j = true /\ p_ts p = jday j * SecondsInDay /\
  p_te p = p_ts p + j_len j * SecondsInDay + (SecondsInDay - 1) /\
  p_ts p <= fstart f /\ fstart f < fend f /\ fend f < p_ts p + SecondsInDay /\ et f = Fl /\
  fdist f = dist (ffrom f) (fto f) /\
  p_trav p = bot_travelled (dist (ffrom f) (fto f)) (dist (fto f) (ffrom f)) /\
  route_ok (ffrom f) (fto f) /\ 1 <= j_len j /\ FlightInterval tp <= j_len j - 1 /\ j_len j + 1 <= TripLength tp.

Definition fut (d : Z) (pend : list journey) : list journey := filter (fun j => d <=? jday j) pend.

Record Links (d : Z) (bk : book) (pend : list journey) : Prop := mkLinks {
  l_j2p : forall j, In j pend -> j_out j = true -> d <= jday j ->
            exists i, (i < MaxPromises)%nat /\ p_ts (getp bk i) <> 0 /\ OutFor j (getp bk i);
  l_p2j : forall i, (i < MaxPromises)%nat -> p_ts (getp bk i) <> 0 -> d * SecondsInDay <= p_ts (getp bk i) ->
            exists j, In j pend /\ OutFor j (getp bk i);
  l_uniq : NoDup (map jday (fut d pend)) }.

(** the trip in progress: the promise [qs .. qs + len days] is in the book, [x] is its outbound flight *)
Record Trip (bk : book) (kept : promise) (x : flight) (qs len : Z) : Prop := mkTrip {
  tr_has : exists i, (i < MaxPromises)%nat /\ p_ts (getp bk i) = qs /\
             p_te (getp bk i) = qs + len * SecondsInDay + (SecondsInDay - 1) /\
             p_trav (getp bk i) = bot_travelled (dist (ffrom x) (fto x)) (dist (fto x) (ffrom x));
  tr_day : qs mod SecondsInDay = 0; tr_pos : 0 < qs;
  tr_x1 : qs <= fstart x; tr_x2 : fstart x < fend x; tr_x3 : fend x < qs + SecondsInDay;
  tr_xd : fdist x = dist (ffrom x) (fto x);
  tr_route : route_ok (ffrom x) (fto x);
  tr_len : 1 <= len; tr_fi : FlightInterval tp <= len - 1; tr_tl : len + 1 <= TripLength tp;
  tr_kept : p_ts kept < qs }.

(** the return flight of that trip *)
Definition InFlight (y x : flight) (qs len : Z) : Prop :=
  qs + len * SecondsInDay <= fstart y /\ fstart y < fend y /\ fend y <= qs + len * SecondsInDay + (SecondsInDay - 1) /\
  fdist y = dist (fto x) (ffrom x) /\ et y = Fl.

Definition Home (d : Z) (t : traveller) (pend : list journey) : Prop :=
  (hempty (t_hist t) = true \/ mid_trip (t_hist t) = false) /\ oc (t_hist t) = 0%nat /\
  fstart (getf (entries (t_hist t)) 0) < d * SecondsInDay /\
  p_ts (t_kept t) < d * SecondsInDay /\
  (mid_trip (t_hist t) = false ->
     forall i, (i < MaxPromises)%nat -> p_ts (getp (t_book t) i) <> 0 ->
       p_ts (t_kept t) < p_ts (getp (t_book t) i) -> d * SecondsInDay <= p_ts (getp (t_book t) i)) /\
  (forall j, In j pend -> d <= jday j -> j_out j = true).

Definition Away (d : Z) (t : traveller) (pend : list journey) : Prop :=
  exists (x : flight) (rest : list flight) (qs len : Z),
    entries (t_hist t) = x :: rest /\ open_leg x /\ stop_at rest /\ (oc (t_hist t) <= 1)%nat /\
    Trip (t_book t) (t_kept t) x qs len /\
    qs + SecondsInDay <= d * SecondsInDay /\ d * SecondsInDay <= qs + len * SecondsInDay /\
    (exists jin, In jin pend /\ j_out jin = false /\ InFlight (j_flight jin) x qs len) /\
    (forall j, In j pend -> d <= jday j -> j_out j = false -> InFlight (j_flight j) x qs len).

Definition Back (d : Z) (t : traveller) (pend : list journey) : Prop :=
  exists (y x : flight) (rest : list flight) (qs len : Z),
    entries (t_hist t) = y :: x :: rest /\ open_leg x /\ open_leg y /\ stop_at rest /\ (oc (t_hist t) <= 2)%nat /\
    Trip (t_book t) (t_kept t) x qs len /\ InFlight y x qs len /\
    d * SecondsInDay = qs + len * SecondsInDay + SecondsInDay /\
    (forall j, In j pend -> d <= jday j -> j_out j = true).

(** at the start of a day; after the day's update *)
Definition Ph (d : Z) (t : traveller) (pend : list journey) : Prop := Home d t pend \/ Away d t pend \/ Back d t pend.
Definition PhM (d : Z) (t : traveller) (pend : list journey) : Prop := Home d t pend \/ Away d t pend.

Record BI (d clk : Z) (b : bot) : Prop := mkBI {
  bi_J : J mx clk (b_trav b);
  bi_clk : clk <= d * SecondsInDay;
  bi_d : 1 <= d;
  bi_links : Links d (t_book (b_trav b)) (b_pend b);
  bi_ph : Ph d (b_trav b) (b_pend b) }.


(** ---------- the daily update ---------- *)
Lemma days_between_le a b n : 0 <= n -> a <= b -> b - a < (n + 1) * SecondsInDay -> days_between a b <= n.
Proof.
  intros Hn Hab H. unfold days_between. destruct (Z.ltb_spec b a); [lia|]. unfold SecondsInDay in *.
  apply Z.lt_succ_r. apply Z.div_lt_upper_bound; lia.
Qed.

Lemma days_between_ge a b n : 0 <= n -> n * SecondsInDay <= b - a -> n <= days_between a b.
Proof.
  intros Hn H. unfold days_between. unfold SecondsInDay in *. destruct (Z.ltb_spec b a); [lia|].
  apply Z.div_le_lower_bound; lia.
Qed.

Lemma open_leg_set_et (x : flight) : open_leg x -> open_leg (set_et x JEnd).
Proof. intros [H _]. split; [exact H|right; reflexivity]. Qed.

Lemma Trip_ext bk k (x x' : flight) qs len :
  fstart x' = fstart x -> fend x' = fend x -> fdist x' = fdist x -> ffrom x' = ffrom x -> fto x' = fto x ->
  Trip bk k x qs len -> Trip bk k x' qs len.
Proof.
  intros E1 E2 E3 E4 E5 [H1 H2 H3 H4 H5 H6 H7 H8 H9 H10 H11 H12].
  constructor; rewrite ?E1, ?E2, ?E3, ?E4, ?E5; auto.
Qed.

Lemma Trip_kept bk k k' (x : flight) qs len : p_ts k' <= Z.max (p_ts k) 0 -> Trip bk k x qs len -> Trip bk k' x qs len.
Proof. intros E [H1 H2 H3 H4 H5 H6 H7 H8 H9 H10 H11 H12]. constructor; auto. lia. Qed.

(** what the update does to the record: the history after the trip rules, then (possibly) a kept promise *)
Lemma update_ev_shape (t : traveller) p share now :
  exists t2, t_book t2 = t_book t /\ t_kept t2 = t_kept t /\ t_hist t2 = hist_after_update t p now /\
    apply_ev mx t (EUpdate p share now) = fst (keep_promise t2).
Proof.
  destruct (update_traveller_shape t p share now) as (t2 & E1 & E2 & E3 & E4).
  exists t2. repeat split; auto.
Qed.

Lemma keep_promise_unchanged_closed (t : traveller) : mid_trip (t_hist t) = false -> fst (keep_promise t) = t.
Proof. intros H. unfold keep_promise. rewrite H. reflexivity. Qed.

Lemma keep_promise_unchanged_empty (t : traveller) : hempty (t_hist t) = true -> fst (keep_promise t) = t.
Proof.
  intros H. unfold keep_promise. destruct (mid_trip (t_hist t)); [|reflexivity].
  destruct (trip_start_end_length (t_hist t)) as [[st en] dd]. destruct (keep _ _ _ _); [|reflexivity].
  unfold end_trip_op. rewrite H. reflexivity.
Qed.

Lemma home_update d (t : traveller) pend p share :
  Home d t pend ->
  let t' := apply_ev mx t (EUpdate p share (d * SecondsInDay)) in
  t_hist t' = t_hist t /\ t_kept t' = t_kept t /\ t_book t' = t_book t.
Proof.
  intros (Hc & Hoc & _). cbn zeta.
  destruct (update_ev_shape t p share (d * SecondsInDay)) as (t2 & Eb & Ek & Eh & ->).
  assert (Eh2 : t_hist t2 = t_hist t).
  { rewrite Eh. unfold hist_after_update. destruct Hc as [He|Hm].
    - unfold update. rewrite He. reflexivity.
    - rewrite (no_change_when_closed (t_hist t) (th_params p) (d * SecondsInDay) Hm Hoc); [reflexivity|].
      apply Z_mod_mult. }
  assert (E : fst (keep_promise t2) = t2).
  { destruct Hc as [He|Hm]; [apply keep_promise_unchanged_empty|apply keep_promise_unchanged_closed]; rewrite Eh2; assumption. }
  rewrite E. auto.
Qed.


(** while only the outbound flight has been flown nothing in the book matches the open trip *)
Lemma away_no_keep (t : traveller) (x : flight) rest qs len :
  Inv mx (t_book t) -> Pos (t_book t) ->
  entries (t_hist t) = x :: rest -> open_leg x -> stop_at rest -> Trip (t_book t) (t_kept t) x qs len ->
  fst (keep_promise t) = t.
Proof.
  intros HI HP El Hx Hstop [(i & Hi & Ets & Ete & Etr) Hday Hpos Hx1 Hx2 Hx3 Hxd (R1 & R2 & R3 & R4) Hl1 Hl2 Hl3 Hk].
  destruct (open_leg_plain x Hx) as (_ & Hx0 & _ & Hxe).
  unfold keep_promise. destruct (mid_trip (t_hist t)); [|reflexivity].
  rewrite tsel_spec. rewrite El. cbn [open_run]. rewrite Hxe.
  destruct (Z.eqb_spec (fstart x) 0) as [C|_]; [contradiction|]. cbn [negb andb].
  rewrite (open_run_stop rest Hstop). unfold sum_dist, open_start. cbn [fold_left last getf nth].
  destruct (book_count_spec mx (t_book t) HI) as (Hc1 & Hc2 & Hc3).
  assert (Hnone : forall st en (dd : K),
            (st = fstart x /\ en = fend x /\ dd = kadd N (k0 N) (fdist x)) \/ (st = 0 /\ en = 0) ->
            keep_scan (t_book t) (book_count (t_book t)) st en dd = None).
  { intros st en dd Hcase. apply keep_scan_none. intros k Hk'.
    assert (Hkne : p_ts (getp (t_book t) k) <> 0) by (apply Hc2; exact Hk').
    assert (Hk10 : (k < MaxPromises)%nat) by lia.
    destruct (HP k Hk10 Hkne) as [Hkpos _].
    destruct Hcase as [(-> & -> & ->)|(-> & ->)]; [|left; unfold SecondsInDay in *; lia].
    destruct (Nat.lt_trichotomy k i) as [L|[->|L]].
    - (* a newer promise starts after the promised trip ends *)
      left. pose proof (inv_sep mx _ HI k i L Hi ltac:(rewrite Ets; lia)) as Hs. rewrite Ete in Hs.
      unfold SecondsInDay in *. lia.
    - right. right. rewrite Etr, Hxd. exact R4.
    - (* an older promise ended before it started *)
      right. left. pose proof (inv_sep mx _ HI i k L Hk10 Hkne) as Hs. rewrite Ets in Hs. lia. }
  destruct (kltb N (k0 N) (kadd N (k0 N) (fdist x))).
  - unfold keep. destruct (keqb N _ (k0 N)); [reflexivity|].
    rewrite (Hnone (fstart x) (fend x) _ ltac:(left; auto)). reflexivity.
  - unfold keep. destruct (keqb N (k0 N) (k0 N)); [reflexivity|].
    rewrite (Hnone 0 0 (k0 N) ltac:(right; auto)). reflexivity.
Qed.

Lemma away_update d clk (t : traveller) pend (p : params N) share :
  J mx clk t -> th_params p = tp -> 1 <= d -> Away d t pend ->
  let t' := apply_ev mx t (EUpdate p share (d * SecondsInDay)) in
  Away d t' pend /\ t_book t' = t_book t /\ bot_shape tp (d * SecondsInDay) (t_hist t).
Proof.
  intros [HI HP HD HO HC] Hp Hd (x & rest & qs & len & El & Hx & Hstop & Hoc & HT & Hd1 & Hd2 & Hin1 & Hin2). cbn zeta.
  destruct Hrules as (Hfit & Halgo & Hfi0).
  pose proof HT as [Hhas Hday Hpos Hx1 Hx2 Hx3 Hxd Hroute Hl1 Hl2 Hl3 Hk].
  destruct (open_leg_plain x Hx) as (Hpx & Hx0 & Hxt & Hxe).
  set (now := d * SecondsInDay) in *.
  assert (Hnow : now mod SecondsInDay = 0) by (apply Z_mod_mult).
  assert (Hdb : days_between (fstart x) now <= TripLength tp).
  { apply Z.le_trans with len; [|lia]. apply days_between_le; unfold SecondsInDay in *; lia. }
  assert (Hshape : bot_shape tp now (t_hist t)).
  { apply (BS_out tp now (t_hist t) x rest); auto; unfold SecondsInDay in *; lia. }
  destruct (update_ev_shape t p share now) as (t2 & Eb & Ek & Eh & E'). rewrite E'.
  destruct (update_outbound (t_hist t) tp now [] x rest) as (dy & fy & Eu).
  { unfold outbound_only, first_start. cbn [hd nexts quiet visited_after mem existsb length]. repeat split; auto; lia. }
  { exact El. }
  { apply HO. }
  { intros f [<-|[]]. split; assumption. }
  { exact Hstop. }
  { cbn [app length]. exact Hoc. }
  { exact Hnow. }
  assert (Eh2 : t_hist t2 = {| entries := newest_mark tp now x :: rest; oc := 0 |}).
  { rewrite Eh. unfold hist_after_update. rewrite Hp, Eu. reflexivity. }
  set (x' := newest_mark tp now x) in *.
  assert (Hx' : open_leg x' /\ fstart x' = fstart x /\ fend x' = fend x /\ fdist x' = fdist x /\ ffrom x' = ffrom x /\ fto x' = fto x).
  { unfold x', newest_mark. destruct (_ <=? _); [|repeat split; auto]. split; [apply open_leg_set_et, Hx|repeat split]. }
  destruct Hx' as (Hox' & F1 & F2 & F3 & F4 & F5).
  assert (HT2 : Trip (t_book t2) (t_kept t2) x' qs len).
  { rewrite Eb, Ek. eapply Trip_ext; [exact F1|exact F2|exact F3|exact F4|exact F5|exact HT]. }
  assert (Ekeep : fst (keep_promise t2) = t2).
  { apply (away_no_keep t2 x' rest qs len); rewrite ?Eb, ?Eh2; auto. }
  rewrite Ekeep. split; [|split; [exact Eb|exact Hshape]].
  exists x', rest, qs, len. rewrite Eh2. cbn [entries oc]. split; [reflexivity|]. split; [exact Hox'|].
  split; [exact Hstop|]. split; [lia|]. split; [exact HT2|]. split; [exact Hd1|]. split; [exact Hd2|].
  unfold InFlight in *. rewrite F4, F5. split; [exact Hin1|exact Hin2].
Qed.

End WithNum.
