(** C20: the day loop of one traveller-bot of the simulation (Engine.modelDay seen from one bot: the daily
    update, then planning by promisesPlanner, then the day's check-ins by journeyPlanner.submitFlights)
    produces histories that follow the discipline of the whole-history theorem - so every check-in the
    simulation makes for a promised trip or its return is accepted.  Part 1: definitions and the
    effect of each kind of step on the trip history. *)
From Coq Require Import ZArith List Bool Arith Lia Sorting.Sorted.
From Flap Require Import Model.Num Model.Search Model.TripHistory Model.Promises Model.Predictor Model.Engine Model.Bot
  Proofs.SearchP Proofs.THBasics Proofs.THOrder Proofs.THLimits Proofs.PromisesP Proofs.PromisesFrameP Proofs.ClearedP
  Proofs.KeepP Proofs.ItineraryP Proofs.ProtocolP Proofs.HistoryP Proofs.BotShapeP Proofs.BotPlanP.
Import ListNotations.
Open Scope Z_scope.

Section WithNum.
Context {N : NumOps}.
Local Notation K := (K N).
Local Notation flight := (flight N).
Local Notation hist := (hist N).
Local Notation traveller := (traveller N).
Local Notation book := (book N).
Local Notation promise := (promise N).
Local Notation predictor := (predictor N).
Local Notation journey := (journey N).
Local Notation plan_choice := (plan_choice N).
Local Notation day_input := (day_input N).
Local Notation bot := (bot N).
Local Notation ev := (@ev N).

Variable mx : Z.
Hypothesis Hmx : 1 <= mx.
(** the airports table seen through NewFlight: the distance recorded for a flight between two airports *)
Variable dist : Z -> Z -> K.

(** ---------- the day loop ---------- *)
Definition plan_ev (now : Z) (c : plan_choice) (pr : predictor) : ev :=
  let sds := c_day c * SecondsInDay in
  EPlan sds (sds + c_len c * SecondsInDay + (SecondsInDay - 1)) (c_dist c)
        (bot_travelled (dist (c_from c) (c_to c)) (dist (c_to c) (c_from c))) now pr.

Definition plan_okb (t : traveller) (e : ev) : bool :=
  match e with
  | EPlan ts te d tr now pr =>
      match propose (t_book t) ts te d tr now pr mx with
      | inl pp => match make (t_book t) pp pr with inl _ => true | inr _ => false end
      | inr _ => false
      end
  | _ => false
  end.

Definition out_journey (c : plan_choice) : journey :=
  mkJourney true (build_flight (c_day c * SecondsInDay) (c_r c) (c_dur c) (c_from c) (c_to c) (dist (c_from c) (c_to c))) (c_len c).

Definition in_journey (j : journey) (r dur : Z) : journey :=
  let f := j_flight j in
  mkJourney false (build_flight (inbound_day_start j) r dur (fto f) (ffrom f) (dist (fto f) (ffrom f))) (j_len j).

Definition checkin_ev (di : day_input) (f : flight) : ev :=
  ECheckin f (fstart f) (di_pc di) (di_params di) (di_debit di).

(** journeyPlanner.submitFlights for this bot: the day's journeys in the order they were planned; the
    return is planned when the outbound is accepted *)
Fixpoint bot_submit (t : traveller) (today : list journey) (di : day_input) : traveller * list journey * list ev :=
  match today with
  | [] => (t, [], [])
  | j :: r =>
      let e := checkin_ev di (j_flight j) in
      let newj := if acceptedb t e && j_out j then [in_journey j (di_rin di) (di_durin di)] else [] in
      let '(t'', more, evs) := bot_submit (apply_ev mx t e) r di in
      (t'', newj ++ more, e :: evs)
  end.

Definition bot_day (d : Z) (b : bot) (di : day_input) : bot * list ev :=
  let now := d * SecondsInDay in
  let e1 := EUpdate (di_params di) (di_share di) now in
  let t1 := apply_ev mx (b_trav b) e1 in
  let '(t2, pend2, evs2) :=
    match di_plan di with
    | Some c =>
        if existsb (Z.eqb (c_day c)) (prepare_days (t_book t1) d (c_len c) (pMaxDays (di_params di)))
        then let e2 := plan_ev now c (di_pred di) in
             (apply_ev mx t1 e2, if plan_okb t1 e2 then b_pend b ++ [out_journey c] else b_pend b, [e2])
        else (t1, b_pend b, [])
    | None => (t1, b_pend b, [])
    end in
  let '(t3, newj, evs3) := bot_submit t2 (filter (journey_today d) pend2) di in
  (mkBot t3 (pend2 ++ newj), e1 :: evs2 ++ evs3).

Fixpoint bot_run (d : Z) (b : bot) (dis : list day_input) : list ev :=
  match dis with
  | [] => []
  | di :: r => let '(b', evs) := bot_day d b di in evs ++ bot_run (d + 1) b' r
  end.

(** ---------- what the configuration must satisfy ---------- *)
(** the distances of a route: the promised distance travelled is a positive number that equals itself
    and differs from the outbound distance alone (true of every positive finite float64 pair) *)
Definition route_ok (a b : Z) : Prop :=
  let tr := bot_travelled (dist a b) (dist b a) in
  kltb N (k0 N) tr = true /\ keqb N tr tr = true /\ keqb N tr (k0 N) = false /\
  keqb N tr (kadd N (k0 N) (dist a b)) = false.

Definition choice_ok (tp : thparams) (c : plan_choice) : Prop :=
  draw_ok (c_r c) (c_dur c) = true /\ 1 <= c_len c /\
  FlightInterval tp <= c_len c - 1 /\ c_len c + 1 <= TripLength tp /\
  route_ok (c_from c) (c_to c) /\ keqb N (c_dist c) (c_dist c) = true /\
  c_day c * SecondsInDay + c_len c * SecondsInDay + (SecondsInDay - 1) < tmax.

Definition day_ok (tp : thparams) (di : day_input) : Prop :=
  th_params (di_params di) = tp /\ pred_ok (di_pred di) /\ draw_ok (di_rin di) (di_durin di) = true /\
  match di_plan di with Some c => choice_ok tp c | None => True end.

Definition rules_ok (tp : thparams) : Prop :=
  2 < FlightsInTrip tp /\ Algo tp <> 0 /\ 0 <= FlightInterval tp.

(** ---------- small facts ---------- *)
Lemma day_of_build sod r dur a b (dd : K) : sod mod SecondsInDay = 0 -> draw_ok r dur = true ->
  let f := build_flight sod r dur a b dd in
  sod <= fstart f /\ fstart f < fend f /\ fend f < sod + SecondsInDay /\ day_of (fstart f) = sod / SecondsInDay /\
  et f = Fl /\ fdist f = dd /\ ffrom f = a /\ fto f = b.
Proof.
  intros Hm Hd. unfold draw_ok in Hd. apply andb_prop in Hd. destruct Hd as [Hd H3]. apply andb_prop in Hd.
  destruct Hd as [H1 H2]. apply Z.leb_le in H1. apply Z.ltb_lt in H2. apply Z.ltb_lt in H3.
  cbn [build_flight fstart fend et fdist ffrom fto]. unfold day_of, SecondsInDay in *.
  repeat split; try lia.
  assert (E : sod = 86400 * (sod / 86400)) by (pose proof (Z_div_mod_eq_full sod 86400); lia).
  rewrite E at 1. rewrite Z.mul_comm, Z.div_add_l by lia. rewrite (Z.div_small r) by lia. lia.
Qed.

(** AddFlight of a flight that is not older than the newest one: it goes to the head *)
Lemma add_head_exact (h : hist) (f g : flight) (rest : list flight) :
  ordered h -> entries h = g :: rest -> fstart g <= fstart f ->
  add_flight h f = inl {| entries := f :: firstn (MaxFlights - 1) (g :: rest);
                          oc := if Nat.ltb (oc h) (MaxFlights - 1) then S (oc h) else oc h |}.
Proof.
  intros (Hl & Hd & Hn) El Hle. unfold add_flight. rewrite older_index_first_le by assumption.
  rewrite El. cbn [first_le]. destruct (Z.leb_spec (fstart g) (fstart f)); [|lia].
  cbn [Nat.leb firstn skipn app Nat.ltb Nat.leb]. rewrite Nat.sub_0_r.
  destruct (oc h); reflexivity.
Qed.

(** keep finds nothing when no promise matches the open trip *)
Lemma keep_scan_none (b : book) st en (d : K) : forall idx,
  (forall k, (k < idx)%nat -> st < p_ts (getp b k) \/ p_te (getp b k) < en \/ keqb N (p_trav (getp b k)) d = false) ->
  keep_scan b idx st en d = None.
Proof.
  induction idx as [|k IH]; intros H; cbn [keep_scan]; [reflexivity|].
  destruct (H k ltac:(lia)) as [H1|[H1|H1]].
  - destruct (Z.ltb_spec st (p_ts (getp b k))); [|lia]. apply IH. intros j Hj. apply H. lia.
  - destruct (st <? p_ts (getp b k)); [apply IH; intros j Hj; apply H; lia|].
    destruct (Z.leb_spec en (p_te (getp b k))); [lia|]. cbn [andb]. apply IH. intros j Hj. apply H. lia.
  - destruct (st <? p_ts (getp b k)); [apply IH; intros j Hj; apply H; lia|].
    rewrite H1, andb_false_r. apply IH. intros j Hj. apply H. lia.
Qed.


(** ---------- the invariant of the day loop ---------- *)
Variable tp : thparams.
Hypothesis Hrules : rules_ok tp.

(** a planned outbound journey and the promise it will fly under *)
Definition OutFor (j : journey) (p : promise) : Prop :=
  let f := j_flight j in
  j_out j = true /\ p_ts p = jday j * SecondsInDay /\
  p_te p = p_ts p + j_len j * SecondsInDay + (SecondsInDay - 1) /\
  p_ts p <= fstart f /\ fstart f < fend f /\ fend f < p_ts p + SecondsInDay /\ et f = Fl /\
  fdist f = dist (ffrom f) (fto f) /\
  p_trav p = bot_travelled (dist (ffrom f) (fto f)) (dist (fto f) (ffrom f)) /\
  route_ok (ffrom f) (fto f) /\ 1 <= j_len j /\ FlightInterval tp <= j_len j - 1 /\ j_len j + 1 <= TripLength tp.

Definition fut (d : Z) (pend : list journey) : list journey := filter (fun j => d <=? jday j) pend.

Record Links (d : Z) (bk : book) (pend : list journey) : Prop := mkLinks {
  l_j2p : forall j, In j pend -> j_out j = true -> d <= jday j ->
            exists i, (i < MaxPromises)%nat /\ p_ts (getp bk i) <> 0 /\ OutFor j (getp bk i);
  l_p2j : forall i, (i < MaxPromises)%nat -> p_ts (getp bk i) <> 0 -> d * SecondsInDay <= p_ts (getp bk i) ->
            exists j, In j pend /\ OutFor j (getp bk i);
  l_uniq : NoDup (map jday (fut d pend)) }.

(** the trip in progress: the promise [qs .. qs + len days] is in the book, [x] is its outbound flight *)
Record Trip (bk : book) (kept : promise) (x : flight) (qs len : Z) : Prop := mkTrip {
  tr_has : exists i, (i < MaxPromises)%nat /\ p_ts (getp bk i) = qs /\
             p_te (getp bk i) = qs + len * SecondsInDay + (SecondsInDay - 1) /\
             p_trav (getp bk i) = bot_travelled (dist (ffrom x) (fto x)) (dist (fto x) (ffrom x));
  tr_day : qs mod SecondsInDay = 0; tr_pos : 0 < qs;
  tr_x1 : qs <= fstart x; tr_x2 : fstart x < fend x; tr_x3 : fend x < qs + SecondsInDay;
  tr_xd : fdist x = dist (ffrom x) (fto x);
  tr_route : route_ok (ffrom x) (fto x);
  tr_len : 1 <= len; tr_fi : FlightInterval tp <= len - 1; tr_tl : len + 1 <= TripLength tp;
  tr_kept : p_ts kept < qs }.

(** the return flight of that trip *)
Definition InFlight (y x : flight) (qs len : Z) : Prop :=
  qs + len * SecondsInDay <= fstart y /\ fstart y < fend y /\ fend y <= qs + len * SecondsInDay + (SecondsInDay - 1) /\
  fdist y = dist (fto x) (ffrom x) /\ et y = Fl.

Definition Home (d : Z) (t : traveller) (pend : list journey) : Prop :=
  (hempty (t_hist t) = true \/ mid_trip (t_hist t) = false) /\ oc (t_hist t) = 0%nat /\
  fstart (getf (entries (t_hist t)) 0) < d * SecondsInDay /\
  p_ts (t_kept t) < d * SecondsInDay /\
  (mid_trip (t_hist t) = false ->
     forall i, (i < MaxPromises)%nat -> p_ts (getp (t_book t) i) <> 0 ->
       p_ts (t_kept t) < p_ts (getp (t_book t) i) -> d * SecondsInDay <= p_ts (getp (t_book t) i)) /\
  (forall j, In j pend -> d <= jday j -> j_out j = true).

Definition Away (d : Z) (t : traveller) (pend : list journey) : Prop :=
  exists (x : flight) (rest : list flight) (qs len : Z),
    entries (t_hist t) = x :: rest /\ open_leg x /\ stop_at rest /\ (oc (t_hist t) <= 1)%nat /\
    Trip (t_book t) (t_kept t) x qs len /\
    qs + SecondsInDay <= d * SecondsInDay /\ d * SecondsInDay <= qs + len * SecondsInDay /\
    (exists jin, In jin pend /\ j_out jin = false /\ InFlight (j_flight jin) x qs len) /\
    (forall j, In j pend -> d <= jday j -> j_out j = false -> InFlight (j_flight j) x qs len).

Definition Back (d : Z) (t : traveller) (pend : list journey) : Prop :=
  exists (y x : flight) (rest : list flight) (qs len : Z),
    entries (t_hist t) = y :: x :: rest /\ open_leg x /\ open_leg y /\ stop_at rest /\ (oc (t_hist t) <= 2)%nat /\
    Trip (t_book t) (t_kept t) x qs len /\ InFlight y x qs len /\
    d * SecondsInDay = qs + len * SecondsInDay + SecondsInDay /\
    (forall j, In j pend -> d <= jday j -> j_out j = true).

(** at the start of a day; after the day's update *)
Definition Ph (d : Z) (t : traveller) (pend : list journey) : Prop := Home d t pend \/ Away d t pend \/ Back d t pend.
Definition PhM (d : Z) (t : traveller) (pend : list journey) : Prop := Home d t pend \/ Away d t pend.

Record BI (d clk : Z) (b : bot) : Prop := mkBI {
  bi_J : J mx clk (b_trav b);
  bi_clk : clk <= d * SecondsInDay;
  bi_d : 1 <= d;
  bi_links : Links d (t_book (b_trav b)) (b_pend b);
  bi_ph : Ph d (b_trav b) (b_pend b) }.


(** ---------- the daily update ---------- *)
Lemma days_between_le a b n : 0 <= n -> a <= b -> b - a < (n + 1) * SecondsInDay -> days_between a b <= n.
Proof.
  intros Hn Hab H. unfold days_between. destruct (Z.ltb_spec b a); [lia|]. unfold SecondsInDay in *.
  apply Z.lt_succ_r. apply Z.div_lt_upper_bound; lia.
Qed.

Lemma days_between_ge a b n : 0 <= n -> n * SecondsInDay <= b - a -> n <= days_between a b.
Proof.
  intros Hn H. unfold days_between. unfold SecondsInDay in *. destruct (Z.ltb_spec b a); [lia|].
  apply Z.div_le_lower_bound; lia.
Qed.

Lemma open_leg_set_et (x : flight) : open_leg x -> open_leg (set_et x JEnd).
Proof. intros [H _]. split; [exact H|right; reflexivity]. Qed.

Lemma Trip_ext bk k (x x' : flight) qs len :
  fstart x' = fstart x -> fend x' = fend x -> fdist x' = fdist x -> ffrom x' = ffrom x -> fto x' = fto x ->
  Trip bk k x qs len -> Trip bk k x' qs len.
Proof.
  intros E1 E2 E3 E4 E5 [H1 H2 H3 H4 H5 H6 H7 H8 H9 H10 H11 H12].
  constructor; rewrite ?E1, ?E2, ?E3, ?E4, ?E5; auto.
Qed.

Lemma Trip_kept bk k k' (x : flight) qs len : p_ts k' <= Z.max (p_ts k) 0 -> Trip bk k x qs len -> Trip bk k' x qs len.
Proof. intros E [H1 H2 H3 H4 H5 H6 H7 H8 H9 H10 H11 H12]. constructor; auto. lia. Qed.

(** what the update does to the record: the history after the trip rules, then (possibly) a kept promise *)
Lemma update_ev_shape (t : traveller) p share now :
  exists t2, t_book t2 = t_book t /\ t_kept t2 = t_kept t /\ t_hist t2 = hist_after_update t p now /\
    apply_ev mx t (EUpdate p share now) = fst (keep_promise t2).
Proof.
  destruct (update_traveller_shape t p share now) as (t2 & E1 & E2 & E3 & E4).
  exists t2. repeat split; auto.
Qed.

Lemma keep_promise_unchanged_closed (t : traveller) : mid_trip (t_hist t) = false -> fst (keep_promise t) = t.
Proof. intros H. unfold keep_promise. rewrite H. reflexivity. Qed.

Lemma keep_promise_unchanged_empty (t : traveller) : hempty (t_hist t) = true -> fst (keep_promise t) = t.
Proof.
  intros H. unfold keep_promise. destruct (mid_trip (t_hist t)); [|reflexivity].
  destruct (trip_start_end_length (t_hist t)) as [[st en] dd]. destruct (keep _ _ _ _); [|reflexivity].
  unfold end_trip_op. rewrite H. reflexivity.
Qed.

Lemma home_update d (t : traveller) pend p share :
  Home d t pend ->
  let t' := apply_ev mx t (EUpdate p share (d * SecondsInDay)) in
  t_hist t' = t_hist t /\ t_kept t' = t_kept t /\ t_book t' = t_book t.
Proof.
  intros (Hc & Hoc & _). cbn zeta.
  destruct (update_ev_shape t p share (d * SecondsInDay)) as (t2 & Eb & Ek & Eh & ->).
  assert (Eh2 : t_hist t2 = t_hist t).
  { rewrite Eh. unfold hist_after_update. destruct Hc as [He|Hm].
    - unfold update. rewrite He. reflexivity.
    - rewrite (no_change_when_closed (t_hist t) (th_params p) (d * SecondsInDay) Hm Hoc); [reflexivity|].
      apply Z_mod_mult. }
  assert (E : fst (keep_promise t2) = t2).
  { destruct Hc as [He|Hm]; [apply keep_promise_unchanged_empty|apply keep_promise_unchanged_closed]; rewrite Eh2; assumption. }
  rewrite E. auto.
Qed.


(** while only the outbound flight has been flown nothing in the book matches the open trip *)
Lemma away_no_keep (t : traveller) (x : flight) rest qs len :
  Inv mx (t_book t) -> Pos (t_book t) ->
  entries (t_hist t) = x :: rest -> open_leg x -> stop_at rest -> Trip (t_book t) (t_kept t) x qs len ->
  fst (keep_promise t) = t.
Proof.
  intros HI HP El Hx Hstop [(i & Hi & Ets & Ete & Etr) Hday Hpos Hx1 Hx2 Hx3 Hxd (R1 & R2 & R3 & R4) Hl1 Hl2 Hl3 Hk].
  destruct (open_leg_plain x Hx) as (_ & Hx0 & _ & Hxe).
  unfold keep_promise. destruct (mid_trip (t_hist t)); [|reflexivity].
  rewrite tsel_spec. rewrite El. cbn [open_run]. rewrite Hxe.
  destruct (Z.eqb_spec (fstart x) 0) as [C|_]; [contradiction|]. cbn [negb andb].
  unfold sum_dist, open_start. cbn [open_run]. rewrite Hxe.
  destruct (Z.eqb_spec (fstart x) 0) as [C|_]; [contradiction|]. cbn [negb andb].
  rewrite (open_run_stop rest Hstop). cbn [fold_left last getf nth].
  destruct (book_count_spec mx (t_book t) HI) as (Hc1 & Hc2 & Hc3).
  assert (Hnone : forall st en (dd : K),
            (st = fstart x /\ en = fend x /\ dd = kadd N (k0 N) (fdist x)) \/ (st = 0 /\ en = 0) ->
            keep_scan (t_book t) (book_count (t_book t)) st en dd = None).
  { intros st en dd Hcase. apply keep_scan_none. intros k Hk'.
    assert (Hkne : p_ts (getp (t_book t) k) <> 0) by (apply Hc2; exact Hk').
    assert (Hk10 : (k < MaxPromises)%nat) by lia.
    destruct (HP k Hk10 Hkne) as [Hkpos _].
    destruct Hcase as [(-> & -> & ->)|(-> & ->)]; [|left; unfold SecondsInDay in *; lia].
    destruct (Nat.lt_trichotomy k i) as [L|[->|L]].
    - (* a newer promise starts after the promised trip ends *)
      left. pose proof (inv_sep mx _ HI k i L Hi ltac:(rewrite Ets; lia)) as Hs. rewrite Ete in Hs.
      unfold SecondsInDay in *. lia.
    - right. right. rewrite Etr, Hxd. exact R4.
    - (* an older promise ended before it started *)
      right. left. pose proof (inv_sep mx _ HI i k L Hk10 Hkne) as Hs. rewrite Ets in Hs. lia. }
  destruct (kltb N (k0 N) (kadd N (k0 N) (fdist x))).
  - unfold keep. rewrite (Hnone (fstart x) (fend x) _ ltac:(left; auto)).
    match goal with |- context [if ?c then inr EInvalidArgument else _] => destruct c end; reflexivity.
  - unfold keep. rewrite (Hnone 0 0 (k0 N) ltac:(right; auto)).
    match goal with |- context [if ?c then inr EInvalidArgument else _] => destruct c end; reflexivity.
Qed.

Lemma away_update d clk (t : traveller) pend (p : params N) share :
  J mx clk t -> th_params p = tp -> 1 <= d -> Away d t pend ->
  let t' := apply_ev mx t (EUpdate p share (d * SecondsInDay)) in
  Away d t' pend /\ t_book t' = t_book t /\ bot_shape tp (d * SecondsInDay) (t_hist t).
Proof.
  intros [HI HP HD HO HC] Hp Hd (x & rest & qs & len & El & Hx & Hstop & Hoc & HT & Hd1 & Hd2 & Hin1 & Hin2). cbn zeta.
  destruct Hrules as (Hfit & Halgo & Hfi0).
  pose proof HT as [Hhas Hday Hpos Hx1 Hx2 Hx3 Hxd Hroute Hl1 Hl2 Hl3 Hk].
  destruct (open_leg_plain x Hx) as (Hpx & Hx0 & Hxt & Hxe).
  set (now := d * SecondsInDay) in *.
  assert (Hnow : now mod SecondsInDay = 0) by (apply Z_mod_mult).
  assert (Hdb : days_between (fstart x) now <= TripLength tp).
  { apply Z.le_trans with len; [|lia]. apply days_between_le; unfold SecondsInDay in *; lia. }
  assert (Hshape : bot_shape tp now (t_hist t)).
  { apply (BS_out tp now (t_hist t) x rest); auto; unfold SecondsInDay in *; lia. }
  destruct (update_ev_shape t p share now) as (t2 & Eb & Ek & Eh & E'). rewrite E'.
  destruct (update_outbound (t_hist t) tp now [] x rest) as (dy & fy & Eu).
  { unfold outbound_only, first_start. cbn [hd nexts quiet visited_after mem existsb length]. repeat split; auto; lia. }
  { exact El. }
  { apply HO. }
  { intros f [<-|[]]. split; assumption. }
  { exact Hstop. }
  { cbn [app length]. exact Hoc. }
  { exact Hnow. }
  assert (Eh2 : t_hist t2 = {| entries := newest_mark tp now x :: rest; oc := 0 |}).
  { rewrite Eh. unfold hist_after_update. rewrite Hp, Eu. reflexivity. }
  set (x' := newest_mark tp now x) in *.
  assert (Hx' : open_leg x' /\ fstart x' = fstart x /\ fend x' = fend x /\ fdist x' = fdist x /\ ffrom x' = ffrom x /\ fto x' = fto x).
  { unfold x', newest_mark. destruct (_ <=? _); [|split; [exact Hx|repeat split]]. split; [apply open_leg_set_et, Hx|repeat split]. }
  destruct Hx' as (Hox' & F1 & F2 & F3 & F4 & F5).
  assert (HT2 : Trip (t_book t2) (t_kept t2) x' qs len).
  { rewrite Eb, Ek. eapply Trip_ext; [exact F1|exact F2|exact F3|exact F4|exact F5|exact HT]. }
  assert (Ekeep : fst (keep_promise t2) = t2).
  { apply (away_no_keep t2 x' rest qs len); rewrite ?Eh2; auto; rewrite Eb; auto. }
  rewrite Ekeep. split; [|split; [exact Eb|exact Hshape]].
  exists x', rest, qs, len. rewrite Eh2. cbn [entries oc]. split; [reflexivity|]. split; [exact Hox'|].
  split; [exact Hstop|]. split; [lia|]. split; [exact HT2|]. split; [exact Hd1|]. split; [exact Hd2|].
  unfold InFlight in *. rewrite F4, F5. split; [exact Hin1|exact Hin2].
Qed.


(** the update after the return flight keeps the promise: the traveller is at home again *)
Lemma back_update d clk (t : traveller) pend (p : params N) share :
  J mx clk t -> th_params p = tp -> 1 <= d -> Back d t pend ->
  let t' := apply_ev mx t (EUpdate p share (d * SecondsInDay)) in
  Home d t' pend /\ t_book t' = t_book t /\ bot_shape tp (d * SecondsInDay) (t_hist t).
Proof.
  intros [HI HP HD HO HC] Hp Hd (y & x & rest & qs & len & El & Hx & Hy & Hstop & Hoc & HT & (Hy1 & Hy2 & Hy3 & Hyd & Hyt) & Hdd & Hpend).
  cbn zeta. destruct Hrules as (Hfit & Halgo & Hfi0).
  pose proof HT as [(i & Hi & Ets & Ete & Etr) Hday Hpos Hx1 Hx2 Hx3 Hxd (R1 & R2 & R3 & R4) Hl1 Hl2 Hl3 Hk].
  destruct (open_leg_plain x Hx) as (Hpx & Hx0 & Hxt & Hxe).
  destruct (open_leg_plain y Hy) as (Hpy & Hy0 & Hyt' & Hye).
  set (now := d * SecondsInDay) in *.
  assert (Hnow : now mod SecondsInDay = 0) by (apply Z_mod_mult).
  assert (Hdb : days_between (fstart x) now <= TripLength tp).
  { apply Z.le_trans with (len + 1); [|lia]. apply days_between_le; unfold SecondsInDay in *; lia. }
  assert (Hstay : FlightInterval tp <= days_between (fend x) (fstart y)).
  { apply Z.le_trans with (len - 1); [lia|]. apply days_between_ge; unfold SecondsInDay in *; lia. }
  assert (Hdy : days_between (fstart x) (fstart y) <= TripLength tp).
  { apply Z.le_trans with len; [|lia]. apply days_between_le; unfold SecondsInDay in *; lia. }
  assert (Hshape : bot_shape tp now (t_hist t)).
  { apply (BS_back tp now (t_hist t) x y rest); auto; unfold SecondsInDay in *; lia. }
  destruct (update_ev_shape t p share now) as (t2 & Eb & Ek & Eh & E'). rewrite E'.
  destruct (update_out_and_back (t_hist t) tp now [] x [] y rest) as (dy & fy & Eu).
  { unfold out_and_back, first_start, hd_start. cbn [hd nexts quiet visited_after mem existsb length]. repeat split; auto; lia. }
  { exact El. }
  { apply HO. }
  { unfold itinerary. intros f [<-|[<-|[]]]; split; assumption. }
  { exact Hstop. }
  { unfold itinerary. cbn [app length]. exact Hoc. }
  { exact Hnow. }
  cbn [rev app] in Eu. unfold first_start in Eu. cbn [hd] in Eu.
  set (fm := final_mark tp now (fstart x) y) in *.
  assert (Hfe : is_end fm = false).
  { unfold fm. rewrite final_mark_is_end by (destruct Hy as [_ Hy']; exact Hy').
    destruct (Z.eqb_spec (Algo tp) 0) as [C|_]; [contradiction|]. apply Z.ltb_ge. exact Hdb. }
  assert (Hfs : fstart fm = fstart y /\ fend fm = fend y /\ fdist fm = fdist y).
  { unfold fm, final_mark. destruct (Algo tp =? 0); cbn zeta;
      repeat match goal with |- context [if ?c then _ else _] => destruct c end; repeat split. }
  destruct Hfs as (Hfs & Hfen & Hfd).
  assert (Eh2 : t_hist t2 = {| entries := fm :: set_et x JEnd :: rest; oc := 0 |}).
  { rewrite Eh. unfold hist_after_update. rewrite Hp, Eu. reflexivity. }
  (* the open trip of t2 is [fm; x] *)
  assert (Hrun : open_run (entries (t_hist t2)) = [fm; set_et x JEnd]).
  { rewrite Eh2. cbn [entries open_run]. rewrite Hfs, Hfe.
    destruct (Z.eqb_spec (fstart y) 0) as [C|_]; [contradiction|]. cbn [negb andb fstart set_et is_end et].
    destruct (Z.eqb_spec (fstart x) 0) as [C|_]; [contradiction|]. cbn [negb andb].
    rewrite (open_run_stop rest Hstop). reflexivity. }
  assert (Hsum : sum_dist (open_run (entries (t_hist t2))) = bot_travelled (dist (ffrom x) (fto x)) (dist (fto x) (ffrom x))).
  { rewrite Hrun. unfold sum_dist, bot_travelled. cbn [fold_left fdist set_et]. rewrite Hfd, Hyd, Hxd. reflexivity. }
  assert (Hmid2 : mid_trip (t_hist t2) = true).
  { rewrite Eh2. unfold mid_trip, getf. cbn [entries nth]. rewrite Hfe. apply orb_true_r. }
  assert (Hne2 : hempty (t_hist t2) = false).
  { rewrite Eh2. unfold hempty, getf. cbn [entries nth]. rewrite Hfs. apply Z.eqb_neq. exact Hy0. }
  assert (Hos : open_start (entries (t_hist t2)) = fstart x).
  { unfold open_start. rewrite Hrun. reflexivity. }
  assert (Hhd : fend (getf (entries (t_hist t2)) 0) = fend y).
  { rewrite Eh2. unfold getf. cbn [entries nth]. exact Hfen. }
  pose proof (promise_kept_when_flown mx t2 i ltac:(rewrite Eb; exact HI) Hi) as Hkept. cbn zeta in Hkept.
  rewrite Eb, Hos, Hhd, Hsum, Ets, Ete, Etr in Hkept.
  specialize (Hkept Hmid2 Hne2 ltac:(lia) Hx1 ltac:(unfold SecondsInDay in *; lia) ltac:(unfold SecondsInDay in *; lia) R1 R2 R3).
  destruct (keep_promise t2) as [t3 kept] eqn:Ek3. destruct Hkept as (_ & Ekept & Hmid3 & _ & Ebook3). cbn [fst].
  (* the history of t3: the head marked as ended by the traveller's kept promise *)
  assert (Eh3 : t_hist t3 = set_head_et (t_hist t2) TTEnd).
  { unfold keep_promise in Ek3. rewrite Hmid2 in Ek3.
    destruct (trip_start_end_length (t_hist t2)) as [[st en] dd].
    destruct (keep (t_book t2) st en dd) as [pk|]; [|injection Ek3 as <- _; rewrite Hmid2 in Hmid3; discriminate].
    unfold end_trip_op in Ek3. rewrite Hne2 in Ek3. injection Ek3 as <- _. reflexivity. }
  split; [|split; [exact Ebook3|exact Hshape]].
  rewrite Eh3, Eh2 in Hmid3. unfold set_head_et in Hmid3. cbn [entries] in Hmid3.
  unfold Home. rewrite Eh3, Eh2. unfold set_head_et. cbn [entries oc getf nth fstart set_et].
  split; [right; exact Hmid3|]. split; [reflexivity|]. rewrite Hfs.
  split; [unfold SecondsInDay in *; lia|].
  rewrite Ekept, Ets. split; [unfold SecondsInDay in *; lia|]. split; [|exact Hpend].
  intros _ i' Hi' Hne' Hlt. rewrite Ebook3 in *.
  (* a promise that starts after the kept one is a newer one: it starts after the kept trip has ended *)
  destruct (Nat.lt_trichotomy i' i) as [L|[->|L]].
  - pose proof (inv_sep mx _ HI i' i L Hi ltac:(rewrite Ets; lia)) as Hs. rewrite Ete in Hs. unfold SecondsInDay in *. lia.
  - lia.
  - pose proof (older_starts_earlier mx (t_book t) i i' HI L Hi' Hne'). lia.
Qed.


(** the first event of the day *)
Lemma update_step d clk (b : bot) (di : day_input) : BI d clk b -> day_ok tp di ->
  let e1 := EUpdate (di_params di) (di_share di) (d * SecondsInDay) in
  let t1 := apply_ev mx (b_trav b) e1 in
  conforms mx clk (b_trav b) e1 /\ J mx (d * SecondsInDay) t1 /\
  Links d (t_book t1) (b_pend b) /\ PhM d t1 (b_pend b).
Proof.
  intros [HJ Hclk Hd HL HP] (Hp & _). cbn zeta.
  set (t := b_trav b) in *. set (pend := b_pend b) in *. set (now := d * SecondsInDay).
  assert (Hnow0 : 0 <= now) by (unfold now, SecondsInDay; lia).
  assert (Hnowm : now mod SecondsInDay = 0) by (apply Z_mod_mult).
  assert (Hlen : length (entries (t_hist t)) = MaxFlights) by (apply (j_ord _ _ _ HJ)).
  assert (Hshape_to : bot_shape tp now (t_hist t) ->
            conforms mx clk t (EUpdate (di_params di) (di_share di) now) /\
            J mx now (apply_ev mx t (EUpdate (di_params di) (di_share di) now))).
  { intros Hs. assert (Hc : conforms mx clk t (EUpdate (di_params di) (di_share di) now)).
    { apply bot_shape_update_conforms; auto. rewrite Hp. exact Hs. }
    split; [exact Hc|]. apply (step_J mx Hmx clk t _ HJ Hc). }
  destruct HP as [HH|[HA|HB]].
  - (* at home *)
    destruct (home_update d t pend (di_params di) (di_share di) HH) as (Eh & Ek & Eb).
    assert (Hs : bot_shape tp now (t_hist t)).
    { destruct HH as ([He|Hm] & Hoc & _); [apply BS_empty; exact He|apply BS_closed; [exact Hm|left; exact Hoc]]. }
    destruct (Hshape_to Hs) as [Hc HJ']. split; [exact Hc|]. split; [exact HJ'|].
    fold now in Eh, Ek, Eb. rewrite Eb. split; [exact HL|]. left.
    unfold Home in *. rewrite Eh, Ek, Eb. exact HH.
  - destruct (away_update d clk t pend (di_params di) (di_share di) HJ Hp Hd HA) as (HA' & Eb & Hs).
    destruct (Hshape_to Hs) as [Hc HJ']. split; [exact Hc|]. split; [exact HJ'|].
    fold now in Eb. rewrite Eb. split; [exact HL|]. right. exact HA'.
  - destruct (back_update d clk t pend (di_params di) (di_share di) HJ Hp Hd HB) as (HH' & Eb & Hs).
    destruct (Hshape_to Hs) as [Hc HJ']. split; [exact Hc|]. split; [exact HJ'|].
    fold now in Eb. rewrite Eb. split; [exact HL|]. left. exact HH'.
Qed.


(** ---------- planning ---------- *)
Lemma day_start_ge d ts : 0 <= d -> d * SecondsInDay <= ts -> ts < tmax -> d * SecondsInDay <= day_start ts.
Proof.
  intros Hd Hle Ht. unfold day_start, to_epoch_days, days_to_time, two64, tmax, SecondsInDay in *.
  change (2 ^ 64) with 18446744073709551616. change (2 ^ 62) with 4611686018427387904 in *.
  assert (Hq : d <= ts / 86400) by (apply Z.div_le_lower_bound; lia).
  assert (Hq2 : 86400 * (ts / 86400) <= ts) by (apply Z.mul_div_le; lia).
  rewrite (Z.mod_small (ts / 86400)) by lia. rewrite Z.mod_small by lia. lia.
Qed.

Lemma prepare_days_ge (bk : book) today len total x : In x (prepare_days bk today len total) -> today <= x.
Proof.
  unfold prepare_days.
  assert (G : forall (ps : list promise) cd acc, today <= cd -> (forall y, In y acc -> today <= y) ->
            let '(cd', acc') := fold_left (prep_step len) ps (cd, acc) in
            today <= cd' /\ forall y, In y acc' -> today <= y).
  { induction ps as [|q r IH]; intros cd acc Hcd Hacc; cbn [fold_left]; [split; assumption|].
    unfold prep_step at 2.
    destruct (Z.ltb_spec cd (day_of (p_ts q) - (len - 1))) as [L|L].
    - apply IH.
      + destruct (Z.ltb_spec (day_of (p_ts q) - (len - 1)) (day_of (p_te q) + 1)); lia.
      + intros y Hy. apply in_app_or in Hy. destruct Hy as [Hy|Hy]; [apply Hacc, Hy|apply in_zrange in Hy; lia].
    - apply IH; [destruct (Z.ltb_spec cd (day_of (p_te q) + 1)); lia|exact Hacc]. }
  specialize (G (promises_oldest_first bk) today [] ltac:(lia) ltac:(intros y [])).
  destruct (fold_left _ _ _) as [cd' acc']. destruct G as [G1 G2].
  intros Hx. apply in_app_or in Hx. destruct Hx as [Hx|Hx]; [apply G2, Hx|apply in_zrange in Hx; lia].
Qed.

Lemma OutFor_core (j : journey) (p p' : promise) : core p' = core p -> OutFor j p -> OutFor j p'.
Proof.
  unfold core. intros E. injection E as E1 E2 _ E4. unfold OutFor. rewrite E1, E2, E4. auto.
Qed.

(** two entries of a consistent book are for different, non-overlapping trips *)
Lemma book_disjoint (bk : book) a b : Inv mx bk -> (a < MaxPromises)%nat -> (b < MaxPromises)%nat -> a <> b ->
  p_ts (getp bk a) <> 0 -> p_ts (getp bk b) <> 0 ->
  p_te (getp bk a) < p_ts (getp bk b) \/ p_te (getp bk b) < p_ts (getp bk a).
Proof.
  intros HI Ha Hb Hab Hna Hnb. destruct (Nat.lt_trichotomy a b) as [L|[E|L]]; [|contradiction|].
  - right. apply (inv_sep mx _ HI a b L Hb Hnb).
  - left. apply (inv_sep mx _ HI b a L Ha Hna).
Qed.

Lemma wfp_range (bk : book) a : Inv mx bk -> (a < MaxPromises)%nat -> p_ts (getp bk a) <> 0 ->
  0 < p_ts (getp bk a) < p_te (getp bk a) /\ p_te (getp bk a) < tmax.
Proof. intros HI Ha Hn. destruct (inv_wf mx _ HI a Ha) as [[W0 W1] W]. specialize (W Hn). lia. Qed.

(** where the entries of an accepted proposal come from *)
Lemma inserted_origin (b b' : book) now c m' : inserted b b' now c -> (m' < MaxPromises)%nat ->
  core (getp b' m') = c \/ exists m, (m < MaxPromises)%nat /\ core (getp b' m') = core (getp b m).
Proof.
  intros (i & Hi & Hc & Hlo & Hhi & _) Hm'.
  destruct (Nat.lt_trichotomy m' i) as [L|[->|L]].
  - right. exists m'. split; [exact Hm'|apply Hlo, L].
  - left. exact Hc.
  - right. destruct m' as [|m]; [lia|]. exists m. split; [lia|]. apply Hhi; lia.
Qed.


Lemma plan_result (t : traveller) ts te (dd tr : K) now (pr : predictor) :
  Inv mx (t_book t) -> 0 <= now -> te < tmax ->
  (exists pp, propose (t_book t) ts te dd tr now pr mx = inl pp /\
     apply_ev mx t (EPlan ts te dd tr now pr) = set_book t (pp_entries pp) /\
     plan_okb t (EPlan ts te dd tr now pr) = true /\
     Inv mx (pp_entries pp) /\ inserted (t_book t) (pp_entries pp) now (ts, te, dd, tr)) \/
  (apply_ev mx t (EPlan ts te dd tr now pr) = t /\ plan_okb t (EPlan ts te dd tr now pr) = false).
Proof.
  intros HI Hnow Hte. cbn [apply_ev plan_okb]. unfold plan.
  destruct (propose (t_book t) ts te dd tr now pr mx) as [pp|er] eqn:Ep; [|right; split; reflexivity].
  destruct (propose_spec mx (t_book t) ts te dd tr now pr pp Hmx Hnow Hte HI Ep) as (HI' & Hins & Hv).
  left. exists pp. unfold make. rewrite Hv, Z.eqb_refl. split; [reflexivity|]. split; [reflexivity|].
  split; [reflexivity|]. split; [exact HI'|exact Hins].
Qed.

Lemma NoDup_app_single (l : list Z) x : NoDup l -> ~ In x l -> NoDup (l ++ [x]).
Proof.
  intros Hl Hx. induction l as [|a l IH]; cbn [app]; [constructor; [intros []|constructor]|].
  inversion Hl as [|? ? Ha Hl']; subst. constructor.
  - intros Hin. apply in_app_or in Hin. destruct Hin as [Hin|[->|[]]]; [contradiction|]. apply Hx. left. reflexivity.
  - apply IH; [exact Hl'|]. intros Hin. apply Hx. right. exact Hin.
Qed.

(** stated with the clause of the discipline itself - every proposal accepted for this plan has positive
    clearance dates - instead of a property of all the predictor's answers *)
Lemma plan_step_gen d (t1 : traveller) pend (di : day_input) c :
  J mx (d * SecondsInDay) t1 -> 1 <= d -> Links d (t_book t1) pend -> PhM d t1 pend ->
  th_params (di_params di) = tp -> choice_ok tp c ->
  (forall pp, propose (t_book t1) (c_day c * SecondsInDay)
                (c_day c * SecondsInDay + c_len c * SecondsInDay + (SecondsInDay - 1)) (c_dist c)
                (bot_travelled (dist (c_from c) (c_to c)) (dist (c_to c) (c_from c)))
                (d * SecondsInDay) (di_pred di) mx = inl pp -> Pos (pp_entries pp)) ->
  In (c_day c) (prepare_days (t_book t1) d (c_len c) (pMaxDays (di_params di))) ->
  let now := d * SecondsInDay in
  let e2 := plan_ev now c (di_pred di) in
  let t2 := apply_ev mx t1 e2 in
  let pend2 := if plan_okb t1 e2 then pend ++ [out_journey c] else pend in
  conforms mx now t1 e2 /\ J mx now t2 /\ Links d (t_book t2) pend2 /\ PhM d t2 pend2.
Proof.
  intros HJ Hd HL HP Hp Hc Hposc Hin.
  destruct Hc as (Cdraw & Clen & Cfi & Ctl & Croute & Cdd & Ctmax). cbn zeta.
  pose proof HJ as [HI HPos HD HO HC].
  set (now := d * SecondsInDay) in *.
  pose proof (prepare_days_ge _ _ _ _ _ Hin) as Hcd.
  set (ts := c_day c * SecondsInDay) in *.
  set (te := ts + c_len c * SecondsInDay + (SecondsInDay - 1)) in *.
  set (tr := bot_travelled (dist (c_from c) (c_to c)) (dist (c_to c) (c_from c))).
  assert (Hnow1 : SecondsInDay <= now) by (unfold now, SecondsInDay; lia).
  assert (Hnow0 : 0 <= now) by (unfold now, SecondsInDay; lia).
  assert (Hts : now <= ts) by (unfold now, ts, SecondsInDay; lia).
  assert (Hte : ts < te) by (unfold te, SecondsInDay; lia).
  assert (Ee : plan_ev now c (di_pred di) = EPlan ts te (c_dist c) tr now (di_pred di)) by reflexivity.
  rewrite Ee.
  (* the discipline *)
  assert (Hconf : conforms mx now t1 (EPlan ts te (c_dist c) tr now (di_pred di))).
  { split; [cbn [ev_time]; lia|]. split; [exact Hnow1|]. split; [exact Ctmax|]. split; [exact Cdd|].
    split.
    - intros pp Epp. exact (Hposc pp Epp).
    - intros Hm. destruct HP as [HH|HA].
      + destruct HH as (_ & _ & _ & Hk & Hns & _). split; [lia|].
        intros i Hi [Hne Hlt]. specialize (Hns Hm i Hi Hne Hlt).
        apply day_start_ge; [lia|exact Hns|]. destruct (wfp_range _ i HI Hi Hne). lia.
      + exfalso. destruct HA as (x & rest & qs & len & El & Hx & _).
        destruct (open_leg_plain x Hx) as (_ & Hx0 & _ & Hxe).
        unfold mid_trip, hempty, getf in Hm. rewrite El in Hm. cbn [nth] in Hm. rewrite Hxe in Hm.
        rewrite orb_true_r in Hm. discriminate. }
  split; [exact Hconf|].
  assert (HJ2 : J mx now (apply_ev mx t1 (EPlan ts te (c_dist c) tr now (di_pred di)))).
  { apply (step_J mx Hmx now t1 _ HJ Hconf). }
  split; [exact HJ2|].
  destruct (plan_result t1 ts te (c_dist c) tr now (di_pred di) HI Hnow0 Ctmax)
    as [(pp & Ep & Ea & Eok & HI' & Hins)|(Ea & Eok)]; rewrite Ea, Eok; [|split; [exact HL|exact HP]].
  cbn [t_book set_book].
  set (b := t_book t1) in *. set (b' := pp_entries pp) in *.
  destruct Hins as (idx & Hidx & Hcore & Hlo & Hhi & Hdrop).
  assert (Hins : inserted b b' now (ts, te, c_dist c, tr)) by (exists idx; auto).
  (* an old promise whose trip has not ended is still there *)
  assert (Hsurv : forall m, (m < MaxPromises)%nat -> p_ts (getp b m) <> 0 -> now <= p_te (getp b m) ->
            exists m', (m' < MaxPromises)%nat /\ core (getp b' m') = core (getp b m)).
  { intros m Hm Hne Hle.
    exact (promise_of_trip_in_progress_not_dropped mx b ts te (c_dist c) tr now (di_pred di) pp m Hmx Hnow0 Ctmax HI Ep Hm Hne Hle). }
  assert (Hsurv2 : forall m, (m < MaxPromises)%nat -> p_ts (getp b m) <> 0 -> now <= p_te (getp b m) ->
            exists m', (m' < MaxPromises)%nat /\ m' <> idx /\ core (getp b' m') = core (getp b m)).
  { intros m Hm Hne Hle. destruct (Nat.lt_ge_cases m idx) as [L|L].
    - exists m. split; [exact Hm|]. split; [lia|apply Hlo, L].
    - destruct (Nat.eq_dec m (MaxPromises - 1)) as [->|Hn9]; [destruct (Hdrop Hne); lia|].
      exists (S m). split; [unfold MaxPromises in *; lia|]. split; [lia|]. apply Hhi; [exact L|unfold MaxPromises in *; lia]. }
  (* the new journey *)
  set (jo := out_journey c).
  destruct (day_of_build ts (c_r c) (c_dur c) (c_from c) (c_to c) (dist (c_from c) (c_to c)) ltac:(unfold ts; apply Z_mod_mult) Cdraw)
    as (B1 & B2 & B3 & B4 & B5 & B6 & B7 & B8).
  assert (Hjd : jday jo = c_day c).
  { unfold jday, jo, out_journey. cbn [j_flight]. fold ts. rewrite B4. unfold ts, SecondsInDay. apply Z_div_mult. lia. }
  assert (Hnewts : p_ts (getp b' idx) = ts /\ p_te (getp b' idx) = te /\ p_trav (getp b' idx) = tr).
  { unfold core in Hcore. injection Hcore as E1 E2 _ E4. auto. }
  destruct Hnewts as (N1 & N2 & N3).
  assert (Hofo : OutFor jo (getp b' idx)).
  { unfold OutFor. cbn zeta. rewrite N1, N2, N3, Hjd. unfold jo, out_journey. cbn [j_flight j_out j_len]. fold ts.
    rewrite B5, B6, B7, B8. unfold te, tr. pose proof Croute as (R1 & R2 & R3 & R4). repeat split; auto; lia. }
  split.
  - (* the links between journeys and promises *)
    constructor.
    + intros j Hj Hout Hdj. apply in_app_or in Hj. destruct Hj as [Hj|[<-|[]]].
      * destruct (l_j2p _ _ _ HL j Hj Hout Hdj) as (i & Hi & Hne & Hof).
        destruct Hof as (O1 & O2 & O3 & Orest).
        destruct (Hsurv i Hi Hne) as (m' & Hm' & Em').
        { rewrite O3, O2. unfold now, SecondsInDay in *. lia. }
        exists m'. split; [exact Hm'|]. pose proof Em' as Em''. unfold core in Em''. injection Em'' as E1 _ _ _.
        split; [rewrite E1; exact Hne|]. eapply OutFor_core; [exact Em'|]. repeat split; auto; apply Orest.
      * exists idx. split; [exact Hidx|]. split; [rewrite N1; lia|exact Hofo].
    + intros i' Hi' Hne' Hle'.
      destruct (inserted_origin b b' now _ i' Hins Hi') as [Ec'|(m & Hm & Em)].
      * exists jo. split; [apply in_or_app; right; left; reflexivity|].
        eapply OutFor_core; [|exact Hofo]. rewrite Ec', Hcore. reflexivity.
      * pose proof Em as Em'. unfold core in Em'. injection Em' as E1 _ _ _.
        destruct (l_p2j _ _ _ HL m Hm ltac:(rewrite <- E1; exact Hne') ltac:(rewrite <- E1; exact Hle')) as (j & Hj & Hof).
        exists j. split; [apply in_or_app; left; exact Hj|]. eapply OutFor_core; [exact Em|exact Hof].
    + (* one journey a day *)
      unfold fut. rewrite filter_app, map_app. cbn [filter]. rewrite Hjd.
      destruct (Z.leb_spec d (c_day c)) as [_|C]; [|lia]. cbn [map]. rewrite Hjd.
      apply NoDup_app_single; [exact (l_uniq _ _ _ HL)|].
      intros Hcl. apply in_map_iff in Hcl. destruct Hcl as (j & Ej & Hj). apply filter_In in Hj.
      destruct Hj as [Hj Hdj]. apply Z.leb_le in Hdj.
      (* a journey already planned for that day belongs to a promised trip the new one would touch *)
      assert (Hclash : exists m, (m < MaxPromises)%nat /\ p_ts (getp b m) <> 0 /\ now <= p_te (getp b m) /\
                 p_ts (getp b m) <= ts <= p_te (getp b m)).
      { destruct (j_out j) eqn:Ej2.
        - destruct (l_j2p _ _ _ HL j Hj Ej2 Hdj) as (i & Hi & Hne & O1 & O2 & O3 & _ & _ & _ & _ & _ & _ & _ & O11 & _).
          exists i. split; [exact Hi|]. split; [exact Hne|]. rewrite O3, O2, Ej. fold ts.
          unfold now, ts, SecondsInDay in *. split; lia.
        - destruct HP as [HH|HA].
          + destruct HH as (_ & _ & _ & _ & _ & Hall). rewrite (Hall j Hj Hdj) in Ej2. discriminate.
          + destruct HA as (x & rest & qs & len & _ & _ & _ & _ & [(i & Hi & Ets & Ete & _) Hday Hpos _ _ _ _ _ Hl1 _ _ _] & Hq1 & Hq2 & _ & Hall).
            destruct (Hall j Hj Hdj Ej2) as (I1 & I2 & I3 & _). fold b in Ets, Ete.
            exists i. split; [exact Hi|]. split; [rewrite Ets; lia|]. rewrite Ets, Ete.
            assert (Edj : jday j = qs / SecondsInDay + len).
            { unfold jday, day_of. unfold SecondsInDay in *.
              assert (E : qs = 86400 * (qs / 86400)) by (pose proof (Z_div_mod_eq_full qs 86400); lia).
              symmetry. apply Z.div_unique with (fstart (j_flight j) - (qs + len * 86400)); [left; lia|lia]. }
            unfold ts. rewrite <- Ej, Edj.
            assert (E : qs = 86400 * (qs / 86400)) by (unfold SecondsInDay in Hday; pose proof (Z_div_mod_eq_full qs 86400); lia).
            unfold now, SecondsInDay in *. split; lia. }
      destruct Hclash as (m & Hm & Hne & Hle & Hov).
      destruct (Hsurv2 m Hm Hne Hle) as (m' & Hm' & Hneq & Em'). unfold core in Em'. injection Em' as E1 E2 _ _.
      destruct (book_disjoint b' m' idx HI' Hm' Hidx Hneq ltac:(rewrite E1; exact Hne) ltac:(rewrite N1; lia)) as [D|D];
        rewrite ?E1, ?E2, ?N1, ?N2 in D; lia.
  - (* the phase *)
    destruct HP as [HH|HA]; [left|right].
    + destruct HH as (H1 & H2 & H3 & H4 & H5 & H6). unfold Home. cbn [t_hist t_kept t_book set_book].
      split; [exact H1|]. split; [exact H2|]. split; [exact H3|]. split; [exact H4|]. split.
      * intros Hm i' Hi' Hne' Hlt'.
        destruct (inserted_origin b b' now _ i' Hins Hi') as [Ec'|(m & Hm' & Em)].
        -- unfold core in Ec'. injection Ec' as E1 _ _ _. rewrite E1. exact Hts.
        -- unfold core in Em. injection Em as E1 _ _ _. rewrite E1 in *. apply (H5 Hm m Hm'); assumption.
      * intros j Hj Hdj. apply in_app_or in Hj. destruct Hj as [Hj|[<-|[]]]; [apply H6; assumption|reflexivity].
    + destruct HA as (x & rest & qs & len & El & Hx & Hstop & Hoc & HT & Hq1 & Hq2 & (jin & Hjin & Hjo & Hjf) & Hall).
      exists x, rest, qs, len. cbn [t_hist t_kept t_book set_book].
      split; [exact El|]. split; [exact Hx|]. split; [exact Hstop|]. split; [exact Hoc|]. split.
      * destruct HT as [(i & Hi & Ets & Ete & Etr) T2 T3 T4 T5 T6 T7 T8 T9 T10 T11 T12].
        fold b in Ets, Ete, Etr.
        destruct (Hsurv i Hi ltac:(rewrite Ets; lia) ltac:(rewrite Ete; unfold now, SecondsInDay in *; lia)) as (m' & Hm' & Em').
        unfold core in Em'. injection Em' as E1 E2 _ E4.
        constructor; auto. exists m'. rewrite E1, E2, E4. auto.
      * split; [exact Hq1|]. split; [exact Hq2|]. split.
        -- exists jin. split; [apply in_or_app; left; exact Hjin|auto].
        -- intros j Hj Hdj Hjout. apply in_app_or in Hj. destruct Hj as [Hj|[<-|[]]]; [apply Hall; assumption|].
           unfold out_journey in Hjout. cbn [j_out] in Hjout. discriminate.
Qed.


Lemma plan_step d (t1 : traveller) pend (di : day_input) c :
  J mx (d * SecondsInDay) t1 -> 1 <= d -> Links d (t_book t1) pend -> PhM d t1 pend ->
  day_ok tp di -> di_plan di = Some c ->
  In (c_day c) (prepare_days (t_book t1) d (c_len c) (pMaxDays (di_params di))) ->
  let now := d * SecondsInDay in
  let e2 := plan_ev now c (di_pred di) in
  let t2 := apply_ev mx t1 e2 in
  let pend2 := if plan_okb t1 e2 then pend ++ [out_journey c] else pend in
  conforms mx now t1 e2 /\ J mx now t2 /\ Links d (t_book t2) pend2 /\ PhM d t2 pend2.
Proof.
  intros HJ Hd HL HP (Hp & Hpred & Hdraw & Hc) Ec Hin. rewrite Ec in Hc.
  apply plan_step_gen; try assumption.
  intros pp Epp. pose proof HJ as [HI HPos _ _ _]. destruct Hc as (_ & _ & _ & _ & _ & _ & Ctmax).
  eapply sane_predictor_keeps_clearances_positive; [exact HI|exact HPos| |exact Ctmax|exact Hpred|exact Epp].
  unfold SecondsInDay. lia.
Qed.

(** the time of the last event of a list of events (the clock the next event is measured against) *)
Definition last_time (clk : Z) (evs : list ev) : Z := fold_left (fun _ e => ev_time e) evs clk.

(** ---------- the day's check-ins ---------- *)
Lemma cleared_kept_ts (t : traveller) now : p_ts (t_kept (snd (cleared t now))) = p_ts (t_kept t).
Proof.
  unfold cleared. cbn [snd]. destruct (p_clear (t_kept t) =? 0); [reflexivity|].
  destruct (match_promise _ _); reflexivity.
Qed.

Lemma submit_flight_kept_ts (t : traveller) f now taxi debit t' bac pd :
  submit_flight t f now taxi debit = inl (t', bac, pd) -> p_ts (t_kept t') = p_ts (t_kept t) \/ p_ts (t_kept t') = 0.
Proof.
  unfold submit_flight. pose proof (cleared_kept_ts t now) as Ek.
  destruct (cleared t now) as [cr t1]. cbn [snd] in Ek. rewrite <- Ek.
  destruct cr; try discriminate;
  (destruct (add_flight (t_hist t1) f) as [h'|]; [|discriminate]);
  destruct debit; try destruct (kneb N taxi (k0 N)); intros E; injection E as <- _ _; auto.
Qed.

Lemma checkin_kept_ts (t : traveller) pc f now p debit t' pc' :
  submit_loop t pc [f] now p debit = inl (t', pc') -> p_ts (t_kept t') = p_ts (t_kept t) \/ p_ts (t_kept t') = 0.
Proof.
  unfold submit_loop. cbn [submit_loop_from checkin_one].
  destruct (submit_flight t f now (pTaxi p) debit) as [[[t1 bac] pd]|er] eqn:Es; [|discriminate].
  pose proof (submit_flight_kept_ts _ _ _ _ _ _ _ _ Es) as Ek.
  destruct (has_bit (pAlgo p) pamCorrectBalances && kltb N bac (k0 N));
    intros E; injection E as <- _; cbn [transact t_kept]; exact Ek.
Qed.

(** what an accepted check-in of a flight not older than the newest one leaves *)
Lemma checkin_shape (t : traveller) pc (f g : flight) rest now p debit t' pc' :
  ordered (t_hist t) -> entries (t_hist t) = g :: rest -> fstart g <= fstart f ->
  submit_loop t pc [f] now p debit = inl (t', pc') ->
  t_book t' = t_book t /\
  t_hist t' = {| entries := f :: firstn (MaxFlights - 1) (g :: rest);
                 oc := if Nat.ltb (oc (t_hist t)) (MaxFlights - 1) then S (oc (t_hist t)) else oc (t_hist t) |} /\
  (p_ts (t_kept t') = p_ts (t_kept t) \/ p_ts (t_kept t') = 0).
Proof.
  intros HO El Hle Es. destruct (submit_single_shape _ _ _ _ _ _ _ _ Es) as [Eb Eh].
  rewrite (add_head_exact (t_hist t) f g rest HO El Hle) in Eh. injection Eh as Eh.
  split; [exact Eb|]. split; [symmetry; exact Eh|]. eapply checkin_kept_ts; eauto.
Qed.

Lemma today_at_most_one (d : Z) (pend : list journey) :
  NoDup (map jday (fut d pend)) -> (length (filter (journey_today d) pend) <= 1)%nat.
Proof.
  unfold fut, journey_today. induction pend as [|a r IH]; cbn [filter map length]; [lia|].
  destruct (Z.eqb_spec (jday a) d) as [E|E].
  - destruct (Z.leb_spec d (jday a)) as [_|C]; [|lia]. cbn [map length]. intros Hnd.
    apply NoDup_cons_iff in Hnd. destruct Hnd as [Hnotin Hnd'].
    assert (Hnone : filter (fun j => jday j =? d) r = []).
    { destruct (filter (fun j => jday j =? d) r) as [|j0 r0] eqn:Ef; [reflexivity|exfalso].
      assert (Hj0 : In j0 (filter (fun j => jday j =? d) r)) by (rewrite Ef; left; reflexivity).
      apply filter_In in Hj0. destruct Hj0 as [Hj0 Hd0]. apply Z.eqb_eq in Hd0. apply Hnotin.
      rewrite E. rewrite <- Hd0. apply in_map. apply filter_In. split; [exact Hj0|apply Z.leb_le; lia]. }
    rewrite Hnone. cbn [length]. lia.
  - destruct (d <=? jday a); cbn [map]; intros Hnd; [apply NoDup_cons_iff in Hnd; destruct Hnd as [_ Hnd]|]; apply IH; assumption.
Qed.

Lemma inflight_day (y x : flight) qs len : InFlight y x qs len -> qs mod SecondsInDay = 0 ->
  day_of (fstart y) = qs / SecondsInDay + len.
Proof.
  intros (I1 & I2 & I3 & _) Hm. unfold day_of, SecondsInDay in *.
  assert (E : qs = 86400 * (qs / 86400)) by (pose proof (Z_div_mod_eq_full qs 86400); lia).
  symmetry. apply Z.div_unique with (fstart y - (qs + len * 86400)); [left; lia|lia].
Qed.

Lemma Links_next d (bk : book) (pend : list journey) : Links d bk pend -> Links (d + 1) bk pend.
Proof.
  intros [H1 H2 H3]. constructor.
  - intros j Hj Ho Hd. apply H1; auto. lia.
  - intros i Hi Hne Hle. apply H2; auto. unfold SecondsInDay in *. lia.
  - unfold fut in *. clear H1 H2. induction pend as [|a r IH]; cbn [filter map] in *; [constructor|].
    destruct (Z.leb_spec d (jday a)) as [L|L].
    + cbn [map] in H3. apply NoDup_cons_iff in H3. destruct H3 as [Hn Hnd]. specialize (IH Hnd).
      destruct (Z.leb_spec (d + 1) (jday a)) as [L2|L2]; [|exact IH]. cbn [map]. constructor; [|exact IH].
      intros Hin. apply Hn. apply in_map_iff in Hin. destruct Hin as (j & Ej & Hj). apply filter_In in Hj.
      destruct Hj as [Hj Hdj]. apply Z.leb_le in Hdj. rewrite <- Ej. apply in_map. apply filter_In.
      split; [exact Hj|apply Z.leb_le; lia].
    + destruct (Z.leb_spec (d + 1) (jday a)); [lia|]. apply IH, H3.
Qed.


Lemma stop_at_firstn (rest : list flight) n : stop_at rest -> stop_at (firstn (S n) rest).
Proof.
  intros [->|(r0 & rs & -> & H)]; [left; reflexivity|]. right. exists r0, (firstn n rs). split; [reflexivity|exact H].
Qed.

Lemma home_head_stops (t : traveller) g rest : entries (t_hist t) = g :: rest ->
  (hempty (t_hist t) = true \/ mid_trip (t_hist t) = false) -> fstart g = 0 \/ is_end g = true.
Proof.
  intros El [He|Hm]; unfold mid_trip, hempty, getf in *; rewrite El in *; cbn [nth] in *.
  - left. apply Z.eqb_eq. exact He.
  - right. apply orb_false_iff in Hm. destruct Hm as [_ Hm]. apply negb_false_iff. exact Hm.
Qed.

Lemma away_mid_trip (t : traveller) (x : flight) rest : entries (t_hist t) = x :: rest -> open_leg x -> mid_trip (t_hist t) = true.
Proof.
  intros El Hx. destruct (open_leg_plain x Hx) as (_ & _ & _ & Hxe).
  unfold mid_trip, getf. rewrite El. cbn [nth]. rewrite Hxe. apply orb_true_r.
Qed.

Lemma submit_step d (t2 : traveller) pend2 (di : day_input) :
  J mx (d * SecondsInDay) t2 -> 1 <= d -> Links d (t_book t2) pend2 -> PhM d t2 pend2 -> day_ok tp di ->
  let '(t3, newj, evs3) := bot_submit t2 (filter (journey_today d) pend2) di in
  conforming mx (d * SecondsInDay) t2 evs3 /\ t3 = fold_left (apply_ev mx) evs3 t2 /\
  BI (d + 1) (last_time (d * SecondsInDay) evs3) (mkBot t3 (pend2 ++ newj)).
Proof.
  intros HJ Hd HL HP (Hp & Hpred & Hdraw & _).
  pose proof HJ as [HI HPos HD HO HC].
  set (now := d * SecondsInDay) in *.
  assert (Hnowm : now mod SecondsInDay = 0) by (apply Z_mod_mult).
  assert (Hnowpos : 86400 <= now) by (unfold now, SecondsInDay; lia).
  pose proof (today_at_most_one d pend2 (l_uniq _ _ _ HL)) as Hle1.
  destruct (filter (journey_today d) pend2) as [|j [|j2 r]] eqn:Ef; [| |cbn [length] in Hle1; lia].
  - (* nothing planned for today *)
    cbn [bot_submit]. split; [exact I|]. split; [reflexivity|]. cbn [last_time fold_left]. rewrite app_nil_r.
    assert (Hnot : forall j, In j pend2 -> jday j <> d).
    { intros j Hj E. assert (Hin : In j (filter (journey_today d) pend2)).
      { apply filter_In. split; [exact Hj|]. unfold journey_today. apply Z.eqb_eq. exact E. }
      rewrite Ef in Hin. destruct Hin. }
    constructor; cbn [b_trav b_pend].
    + exact HJ.
    + unfold now, SecondsInDay. lia.
    + lia.
    + apply Links_next. exact HL.
    + destruct HP as [HH|HA]; [left|right; left].
      * destruct HH as (H1 & H2 & H3 & H4 & H5 & H6). unfold Home.
        split; [exact H1|]. split; [exact H2|]. split; [fold now in H3; unfold now, SecondsInDay in *; lia|].
        split; [fold now in H4; unfold now, SecondsInDay in *; lia|]. split.
        -- intros Hm i Hi Hne Hlt. specialize (H5 Hm i Hi Hne Hlt).
           destruct (l_p2j _ _ _ HL i Hi Hne H5) as (j & Hj & O1 & O2 & _).
           specialize (Hnot j Hj). rewrite O2 in *. unfold SecondsInDay in *. lia.
        -- intros j Hj Hdj. apply H6; [exact Hj|lia].
      * destruct HA as (x & rest & qs & len & El & Hx & Hstop & Hoc & HT & Hq1 & Hq2 & (jin & Hjin & Hjo & Hjf) & Hall).
        exists x, rest, qs, len. split; [exact El|]. split; [exact Hx|]. split; [exact Hstop|]. split; [exact Hoc|].
        split; [exact HT|]. split; [unfold SecondsInDay in *; lia|]. split.
        -- pose proof (inflight_day _ _ _ _ Hjf (tr_day _ _ _ _ _ HT)) as Ed. specialize (Hnot jin Hjin). unfold jday in Hnot.
           rewrite Ed in Hnot. pose proof (tr_day _ _ _ _ _ HT) as Hday.
           assert (E : qs = 86400 * (qs / 86400)) by (unfold SecondsInDay in Hday; pose proof (Z_div_mod_eq_full qs 86400); lia).
           unfold SecondsInDay in *. lia.
        -- split; [exists jin; auto|]. intros j Hj Hdj Hjout. apply Hall; [exact Hj|lia|exact Hjout].
  - (* one journey today *)
    assert (Hjin : In j pend2 /\ jday j = d).
    { assert (Hin : In j (filter (journey_today d) pend2)) by (rewrite Ef; left; reflexivity).
      apply filter_In in Hin. destruct Hin as [H1 H2]. unfold journey_today in H2. apply Z.eqb_eq in H2. auto. }
    destruct Hjin as [Hj Hjd].
    set (f := j_flight j) in *.
    destruct (entries (t_hist t2)) as [|g rest0] eqn:El.
    { destruct HO as (Hl & _). rewrite El in Hl. discriminate. }
    cbn [bot_submit]. set (e := checkin_ev di f).
    (* facts about the flight and the state, case by case; then the common ending *)
    assert (Hcase :
      conforms mx now t2 e /\ fstart g <= fstart f /\ now <= fstart f /\ fstart f < now + SecondsInDay /\
      forall t3 pc', submit_loop t2 (di_pc di) [f] (fstart f) (di_params di) (di_debit di) = inl (t3, pc') ->
        let newj := if j_out j then [in_journey j (di_rin di) (di_durin di)] else [] in
        Links (d + 1) (t_book t3) (pend2 ++ newj) /\ Ph (d + 1) t3 (pend2 ++ newj)).
    { destruct HP as [HH|HA].
      - (* at home: the outbound flight of a promised trip *)
        destruct HH as (H1 & H2 & H3 & H4 & H5 & H6). fold now in H3, H4.
        assert (Hout : j_out j = true) by (apply H6; [exact Hj|lia]).
        destruct (l_j2p _ _ _ HL j Hj Hout ltac:(lia)) as (i & Hi & Hne & Hof).
        pose proof Hof as (O1 & O2 & O3 & O4 & O5 & O6 & O7 & O8 & O9 & O10 & O11 & O12 & O13).
        fold f in O4, O5, O6, O7, O8, O9, O10. rewrite Hjd in O2. fold now in O2.
        rewrite El in H3. unfold getf in H3. cbn [nth] in H3.
        split.
        { unfold e, checkin_ev. split; [cbn [ev_time]; lia|]. split; [unfold is_end; rewrite O7; reflexivity|].
          split; [lia|]. split; [rewrite El; cbn [getf nth]; lia|].
          intros Hm. exists i. split; [exact Hi|]. split; [split; [exact Hne|lia]|lia]. }
        split; [lia|]. split; [lia|]. split; [unfold SecondsInDay in *; lia|].
        intros t3 pc' Es. rewrite Hout. cbn zeta.
        destruct (checkin_shape t2 (di_pc di) f g rest0 (fstart f) (di_params di) (di_debit di) t3 pc' HO El ltac:(lia) Es) as (Eb & Eh & Ek).
        rewrite H2 in Eh. change (Nat.ltb 0 (MaxFlights - 1)) with true in Eh. change (MaxFlights - 1)%nat with 99%nat in Eh. cbn [firstn] in Eh.
        set (jin := in_journey j (di_rin di) (di_durin di)).
        set (qs := p_ts (getp (t_book t2) i)) in *. set (len := j_len j) in *.
        assert (Hqs : qs = now) by exact O2.
        assert (Hids : inbound_day_start j = qs + len * SecondsInDay).
        { unfold inbound_day_start. fold f. fold len.
          assert (Em : fstart f mod SecondsInDay = fstart f - now).
          { symmetry. apply Z.mod_unique with d; [left; unfold SecondsInDay in *; lia|unfold now; lia]. }
          rewrite Em. lia. }
        assert (Hdr : 0 <= di_rin di /\ di_rin di < SecondsInDay - di_durin di - 1 /\ 0 < di_durin di).
        { unfold draw_ok in Hdraw. apply andb_prop in Hdraw. destruct Hdraw as [Hd1 Hd3]. apply andb_prop in Hd1.
          destruct Hd1 as [Hd1 Hd2]. apply Z.leb_le in Hd1. apply Z.ltb_lt in Hd2. apply Z.ltb_lt in Hd3. auto. }
        assert (Hjf : InFlight (j_flight jin) f qs len).
        { unfold jin, in_journey, InFlight, build_flight. cbn [j_flight fstart fend fdist et]. rewrite Hids. fold f.
          repeat split; unfold SecondsInDay in *; lia. }
        assert (Hjind : jday jin = d + len).
        { unfold jday. rewrite (inflight_day _ _ _ _ Hjf ltac:(rewrite Hqs; exact Hnowm)). rewrite Hqs. unfold now, SecondsInDay.
          rewrite Z_div_mult by lia. reflexivity. }
        assert (HT : Trip (t_book t3) (t_kept t3) f qs len).
        { rewrite Eb. constructor.
          - exists i. split; [exact Hi|]. split; [reflexivity|]. split; [exact O3|exact O9].
          - rewrite Hqs. exact Hnowm.
          - rewrite Hqs. lia.
          - exact O4.
          - exact O5.
          - exact O6.
          - exact O8.
          - exact O10.
          - exact O11.
          - exact O12.
          - exact O13.
          - destruct Ek as [Ek|Ek]; rewrite Ek; lia. }
        split.
        + (* links *)
          rewrite Eb. pose proof (Links_next _ _ _ HL) as [L1 L2 L3]. constructor.
          * intros j' Hj' Ho' Hd'. apply in_app_or in Hj'. destruct Hj' as [Hj'|[<-|[]]]; [apply L1; assumption|].
            unfold jin, in_journey in Ho'. cbn [j_out] in Ho'. discriminate.
          * intros i' Hi' Hne' Hle'. destruct (L2 i' Hi' Hne' Hle') as (j' & Hj' & Hof'). exists j'. split; [apply in_or_app; left; exact Hj'|exact Hof'].
          * unfold fut. rewrite filter_app, map_app. cbn [filter]. rewrite Hjind.
            destruct (Z.leb_spec (d + 1) (d + len)) as [_|C]; [|lia]. cbn [map]. rewrite Hjind.
            apply NoDup_app_single; [exact L3|]. intros Hcl. apply in_map_iff in Hcl. destruct Hcl as (j' & Ej' & Hj').
            apply filter_In in Hj'. destruct Hj' as [Hj' Hdj']. apply Z.leb_le in Hdj'.
            assert (Hout' : j_out j' = true) by (apply H6; [exact Hj'|lia]).
            destruct (l_j2p _ _ _ HL j' Hj' Hout' ltac:(lia)) as (i' & Hi' & Hne' & P1 & P2 & P3 & _ & _ & _ & _ & _ & _ & _ & P11 & _).
            rewrite Ej' in P2.
            assert (Hneq : i' <> i). { intros ->. fold qs in P2. rewrite Hqs in P2. unfold now, SecondsInDay in *. lia. }
            destruct (book_disjoint (t_book t2) i' i HI Hi' Hi Hneq Hne' Hne) as [D|D]; fold qs in D; rewrite ?P3, ?P2, ?O3 in D;
              fold len in D; rewrite ?Hqs in D; unfold now, SecondsInDay in *; lia.
        + (* the traveller is away *)
          right. left. exists f, (g :: firstn 98 rest0), qs, len. rewrite Eh. cbn [entries oc].
          split; [reflexivity|]. split; [split; [lia|left; exact O7]|].
          split; [right; exists g, (firstn 98 rest0); split; [reflexivity|eapply home_head_stops; eauto]|].
          split; [lia|]. split; [exact HT|]. split; [rewrite Hqs; unfold now, SecondsInDay; lia|].
          split; [rewrite Hqs; unfold now, SecondsInDay in *; lia|]. split.
          * exists jin. split; [apply in_or_app; right; left; reflexivity|]. split; [reflexivity|exact Hjf].
          * intros j' Hj' Hd' Ho'. apply in_app_or in Hj'. destruct Hj' as [Hj'|[<-|[]]]; [|exact Hjf].
            rewrite (H6 j' Hj' ltac:(lia)) in Ho'. discriminate.
      - (* away: the return flight *)
        destruct HA as (x & rest & qs & len & El' & Hx & Hstop & Hoc & HT & Hq1 & Hq2 & Hjex & Hall).
        rewrite El in El'. injection El' as <- <-. fold now in Hq1, Hq2.
        pose proof HT as [(i & Hi & Ets & Ete & Etr) Hday Hpos Hx1 Hx2 Hx3 Hxd Hroute Hl1 Hl2 Hl3 Hk].
        assert (E86 : qs = 86400 * (qs / 86400)) by (unfold SecondsInDay in Hday; pose proof (Z_div_mod_eq_full qs 86400); lia).
        destruct (j_out j) eqn:Hout.
        { exfalso. destruct (l_j2p _ _ _ HL j Hj Hout ltac:(lia)) as (i' & Hi' & Hne' & P1 & P2 & P3 & _ & _ & _ & _ & _ & _ & _ & P11 & _).
          rewrite Hjd in P2. fold now in P2.
          assert (Hneq : i' <> i). { intros ->. rewrite Ets in P2. unfold SecondsInDay in *. lia. }
          destruct (book_disjoint (t_book t2) i' i HI Hi' Hi Hneq Hne' ltac:(rewrite Ets; lia)) as [D|D];
            rewrite ?P3, ?P2, ?Ets, ?Ete in D; unfold SecondsInDay in *; lia. }
        pose proof (Hall j Hj ltac:(lia) Hout) as Hjf. fold f in Hjf.
        pose proof Hjf as (I1 & I2 & I3 & I4 & I5).
        pose proof (inflight_day _ _ _ _ Hjf Hday) as Ed. pose proof Hjd as Hjd'. unfold jday in Hjd'. fold f in Hjd'. rewrite Hjd' in Ed.
        assert (Hnowq : now = qs + len * SecondsInDay) by (unfold now, SecondsInDay in *; lia).
        destruct (open_leg_plain g Hx) as (_ & Hg0 & _ & Hge).
        split.
        { unfold e, checkin_ev. split; [cbn [ev_time]; lia|]. split; [unfold is_end; rewrite I5; reflexivity|].
          split; [unfold SecondsInDay in *; lia|]. split; [rewrite El; cbn [getf nth]; unfold SecondsInDay in *; lia|].
          intros Hm. rewrite (away_mid_trip t2 g rest0 El Hx) in Hm. discriminate. }
        split; [unfold SecondsInDay in *; lia|]. split; [lia|]. split; [unfold SecondsInDay in *; lia|].
        intros t3 pc' Es. cbn zeta. rewrite app_nil_r.
        destruct (checkin_shape t2 (di_pc di) f g rest0 (fstart f) (di_params di) (di_debit di) t3 pc' HO El ltac:(unfold SecondsInDay in *; lia) Es) as (Eb & Eh & Ek).
        assert (Hoc99 : Nat.ltb (oc (t_hist t2)) (MaxFlights - 1) = true) by (apply Nat.ltb_lt; unfold MaxFlights; lia).
        rewrite Hoc99 in Eh. change (MaxFlights - 1)%nat with 99%nat in Eh. cbn [firstn] in Eh.
        split; [rewrite Eb; apply Links_next; exact HL|].
        right. right. exists f, g, (firstn 98 rest0), qs, len. rewrite Eh. cbn [entries oc].
        split; [reflexivity|]. split; [exact Hx|]. split; [split; [unfold SecondsInDay in *; lia|left; exact I5]|].
        split; [destruct rest0 as [|r0 rs]; [left; reflexivity|apply (stop_at_firstn (r0 :: rs) 97 Hstop)]|].
        split; [lia|]. split.
        { rewrite Eb. eapply Trip_kept; [|exact HT]. destruct Ek as [Ek|Ek]; rewrite Ek; lia. }
        split; [exact Hjf|]. split; [unfold now, SecondsInDay in *; lia|].
        intros j' Hj' Hd' . destruct (j_out j') eqn:Ho'; [reflexivity|exfalso].
        pose proof (Hall j' Hj' ltac:(lia) Ho') as Hjf'.
        pose proof (inflight_day _ _ _ _ Hjf' Hday) as Ed'. fold (jday j') in Ed'. lia. }
    destruct Hcase as (Hconf & Hgf & Hnf & Hfd & Hnext).
    destruct (step_J mx Hmx now t2 e HJ Hconf) as [Hacc HJ3].
    unfold e, checkin_ev in Hacc. cbn [accepted] in Hacc. destruct Hacc as ([t3 pc'] & Es).
    assert (Eapp : apply_ev mx t2 e = t3) by (unfold e, checkin_ev; cbn [apply_ev]; rewrite Es; reflexivity).
    assert (Eacc : acceptedb t2 e = true) by (unfold e, checkin_ev; cbn [acceptedb]; rewrite Es; reflexivity).
    change (checkin_ev di (j_flight j)) with e. rewrite Eacc, Eapp. cbn [andb]. rewrite app_nil_r.
    split; [split; [exact Hconf|exact I]|]. split; [cbn [fold_left]; rewrite Eapp; reflexivity|].
    unfold last_time. cbn [fold_left]. change (ev_time e) with (fstart f). destruct (Hnext t3 pc' Es) as [HL3 HP3]. cbn zeta in HL3, HP3.
    constructor; cbn [b_trav b_pend].
    + rewrite Eapp in HJ3. unfold e, checkin_ev in HJ3. cbn [ev_time] in HJ3. exact HJ3.
    + unfold now, SecondsInDay in *. lia.
    + lia.
    + exact HL3.
    + exact HP3.
Qed.


(** ---------- a whole day, and any number of days ---------- *)
Theorem bot_day_conforms d clk (b : bot) (di : day_input) : BI d clk b -> day_ok tp di ->
  let '(b', evs) := bot_day d b di in
  conforming mx clk (b_trav b) evs /\ b_trav b' = fold_left (apply_ev mx) evs (b_trav b) /\
  BI (d + 1) (last_time clk evs) b'.
Proof.
  intros HB Hday. pose proof (bi_d _ _ _ HB) as Hd.
  destruct (update_step d clk b di HB Hday) as (Hc1 & HJ1 & HL1 & HP1).
  unfold bot_day. set (now := d * SecondsInDay) in *.
  set (e1 := EUpdate (di_params di) (di_share di) now) in *.
  set (t1 := apply_ev mx (b_trav b) e1) in *.
  destruct (di_plan di) as [c|] eqn:Ec.
  - destruct (existsb (Z.eqb (c_day c)) (prepare_days (t_book t1) d (c_len c) (pMaxDays (di_params di)))) eqn:Eex.
    + assert (Hin : In (c_day c) (prepare_days (t_book t1) d (c_len c) (pMaxDays (di_params di)))).
      { apply existsb_exists in Eex. destruct Eex as (x & Hx & Ex). apply Z.eqb_eq in Ex. subst x. exact Hx. }
      destruct (plan_step d t1 (b_pend b) di c HJ1 Hd HL1 HP1 Hday Ec Hin) as (Hc2 & HJ2 & HL2 & HP2).
      fold now in Hc2, HJ2, HL2, HP2.
      set (e2 := plan_ev now c (di_pred di)) in *. set (t2 := apply_ev mx t1 e2) in *.
      set (pend2 := if plan_okb t1 e2 then b_pend b ++ [out_journey c] else b_pend b) in *.
      pose proof (submit_step d t2 pend2 di HJ2 Hd HL2 HP2 Hday) as HS. fold now in HS.
      destruct (bot_submit t2 (filter (journey_today d) pend2) di) as [[t3 newj] evs3].
      destruct HS as (Hc3 & E3 & HB3). cbn [b_trav].
      split; [cbn [conforming app]; fold t1; split; [exact Hc1|]; split; [exact Hc2|exact Hc3]|].
      split; [cbn [app fold_left]; fold t1; fold t2; exact E3|].
      unfold last_time in *. cbn [app fold_left]. exact HB3.
    + pose proof (submit_step d t1 (b_pend b) di HJ1 Hd HL1 HP1 Hday) as HS. fold now in HS.
      destruct (bot_submit t1 (filter (journey_today d) (b_pend b)) di) as [[t3 newj] evs3].
      destruct HS as (Hc3 & E3 & HB3). cbn [b_trav].
      split; [cbn [conforming app]; fold t1; split; [exact Hc1|exact Hc3]|].
      split; [cbn [app fold_left]; fold t1; exact E3|].
      unfold last_time in *. cbn [app fold_left]. exact HB3.
  - pose proof (submit_step d t1 (b_pend b) di HJ1 Hd HL1 HP1 Hday) as HS. fold now in HS.
    destruct (bot_submit t1 (filter (journey_today d) (b_pend b)) di) as [[t3 newj] evs3].
    destruct HS as (Hc3 & E3 & HB3). cbn [b_trav].
    split; [cbn [conforming app]; fold t1; split; [exact Hc1|exact Hc3]|].
    split; [cbn [app fold_left]; fold t1; exact E3|].
    unfold last_time in *. cbn [app fold_left]. exact HB3.
Qed.

Lemma conforming_app (a : list ev) : forall clk (t : traveller) b,
  conforming mx clk t a -> conforming mx (last_time clk a) (fold_left (apply_ev mx) a t) b ->
  conforming mx clk t (a ++ b).
Proof.
  induction a as [|e r IH]; intros clk t b Ha Hb; cbn [app]; [exact Hb|].
  cbn [conforming] in *. destruct Ha as [H1 H2]. split; [exact H1|]. apply IH; [exact H2|exact Hb].
Qed.

(** the simulation of one traveller-bot over any number of days produces a history that follows the discipline *)
Theorem bot_run_conforming (dis : list day_input) : forall d clk (b : bot),
  BI d clk b -> Forall (day_ok tp) dis -> conforming mx clk (b_trav b) (bot_run d b dis).
Proof.
  induction dis as [|di r IH]; intros d clk b HB Hall; cbn [bot_run]; [exact I|].
  inversion Hall as [|? ? Hdi Hr]; subst.
  pose proof (bot_day_conforms d clk b di HB Hdi) as HD.
  destruct (bot_day d b di) as [b' evs]. destruct HD as (Hc & Et & HB').
  apply conforming_app; [exact Hc|]. rewrite <- Et. apply IH; assumption.
Qed.

(** ... hence every check-in the bot makes is accepted *)
Corollary bot_run_all_accepted (dis : list day_input) d clk (b : bot) :
  BI d clk b -> Forall (day_ok tp) dis -> all_accepted mx (b_trav b) (bot_run d b dis).
Proof.
  intros HB Hall. apply (conforming_history_all_accepted mx Hmx _ clk); [apply (bi_J _ _ _ HB)|].
  apply bot_run_conforming; assumption.
Qed.

(** the invariant holds for a traveller-bot that has no record yet and nothing planned *)
Lemma BI_new d now : 1 <= d -> BI d 0 (mkBot (new_traveller now) []).
Proof.
  intros Hd. constructor; cbn [b_trav b_pend].
  - apply new_traveller_J; try exact Hmx.
  - unfold SecondsInDay. lia.
  - exact Hd.
  - constructor.
    + intros j [].
    + intros i Hi Hne. exfalso. apply Hne. cbn [new_traveller t_book]. rewrite getp_empty_book. reflexivity.
    + cbn. constructor.
  - left. unfold Home. cbn [new_traveller t_hist t_kept t_book].
    split; [left; reflexivity|]. split; [reflexivity|]. split; [cbn; unfold SecondsInDay; lia|].
    split; [cbn; unfold SecondsInDay; lia|]. split; [intros Hm; discriminate Hm|intros j []].
Qed.

End WithNum.
