(** C12: what Save writes, Load reads back; a restart is invisible. *)
From Coq Require Import ZArith List Bool Lia.
From Flap Require Import Model.Num Model.Promises Model.Predictor Model.Engine Model.Codec Model.Persist
  Proofs.CodecP Proofs.EngineInv.
Import ListNotations.
Open Scope Z_scope.

Section WithNum.
Context {N : NumOps}.
Variable kbits : K N -> Z.
Variable kofbits : Z -> K N.
(** the bit cast is a bijection between the values that occur and 64-bit patterns *)
Hypothesis cast_inv : forall x, kofbits (kbits x) = x.
Hypothesis cast_range : forall x, 0 <= kbits x < 2 ^ 64.

Lemma map_cast (l : list (K N)) : map kofbits (map kbits l) = l.
Proof. induction l as [|x r IH]; cbn; [reflexivity|]. rewrite cast_inv, IH. reflexivity. Qed.

Lemma U8_bits x : U 8 (kbits x).
Proof. unfold U. change (256 ^ Z.of_nat 8) with (2 ^ 64). apply cast_range. Qed.

Lemma Forall_U8 (l : list (K N)) : Forall (U 8) (map kbits l).
Proof. induction l; cbn; constructor; [apply U8_bits|assumption]. Qed.

(** fields within the range of their Go types *)
Definition smooth_ranges (s : smooth N) : Prop :=
  Sg 4 (sm_wsize s) /\ Sg 4 (sm_max s) /\ Z.of_nat (length (sm_ys s)) < 2 ^ 31 /\ Z.of_nat (length (sm_win s)) < 2 ^ 31.

Lemma smooth_roundtrip (s : smooth N) : smooth_of_wire kofbits (smooth_to_wire kbits s) = s.
Proof. destruct s. unfold smooth_to_wire, smooth_of_wire. cbn. rewrite !map_cast. reflexivity. Qed.

Lemma bestfit_roundtrip (b : bestfit N) : bestfit_of_wire kofbits (bestfit_to_wire kbits b) = b.
Proof.
  destruct b as [sm m c pv]. unfold bestfit_to_wire, bestfit_of_wire. cbn [bf_sm bf_m bf_c bf_pv].
  rewrite smooth_roundtrip, !cast_inv. reflexivity.
Qed.
Lemma polyfit_roundtrip (q : polyfit N) : polyfit_of_wire kofbits (polyfit_to_wire kbits q) = q.
Proof.
  destruct q as [sm pv cs deg]. unfold polyfit_to_wire, polyfit_of_wire. cbn [pf_sm pf_pv pf_consts pf_degree].
  rewrite smooth_roundtrip, map_cast. reflexivity.
Qed.
Lemma pc_roundtrip (pc : pcstate N) : pc_of_wire kofbits (pc_to_wire kbits pc) = pc.
Proof.
  destruct pc as [b bac c cd per]. unfold pc_to_wire, pc_of_wire. cbn [pc_bac_sm pc_bac pc_cd_sm pc_cd pc_bac_per_km].
  rewrite !smooth_roundtrip, !cast_inv. reflexivity.
Qed.

Lemma ok_smooth_wire (s : smooth N) : smooth_ranges s -> ok_smooth (smooth_to_wire kbits s).
Proof.
  intros (A & B & C & D). unfold ok_smooth, smooth_to_wire, ok_pair, ok_list. cbn [fst snd].
  rewrite !map_length. split; [exact A|]. split; [exact B|]. split; (split; [assumption|apply Forall_U8]).
Qed.

Definition pred_ranges (p : pred_state N) : Prop :=
  match p with
  | PNone => True
  | PLinear b => smooth_ranges (bf_sm b) /\ U 8 (bf_pv b)
  | PPoly q => smooth_ranges (pf_sm q) /\ U 8 (pf_pv q) /\ Z.of_nat (length (pf_consts q)) < 2 ^ 31 /\ U 4 (pf_degree q)
  end.

(** the installed predictor is of the kind the parameters select *)
Definition kind_ok (a : admin N) : Prop :=
  match create_predictor PNone (a_params a), a_pred a with
  | PNone, PNone | PLinear _, PLinear _ | PPoly _, PPoly _ => True
  | _, _ => False
  end.

Definition admin_wf (a : admin N) : Prop :=
  kind_ok a /\ pred_ranges (a_pred a) /\ smooth_ranges (pc_bac_sm (a_pc a)) /\ smooth_ranges (pc_cd_sm (a_pc a)) /\
  U 8 (a_grounded a).

Theorem load_save (a : admin N) : admin_wf a -> load_admin kofbits (save_admin kbits a) = a.
Proof.
  intros (Hk & Hp & Hb & Hc & Hg). destruct a as [p pred pc g]. unfold load_admin, save_admin. cbn [a_params a_pred a_pc a_grounded sv_params sv_pred sv_pc sv_grounded] in *.
  f_equal.
  - unfold kind_ok in Hk. cbn [a_params a_pred] in Hk.
    destruct (create_predictor PNone p) as [|b0|q0]; destruct pred as [|b|q]; try contradiction; try reflexivity.
    + destruct Hp as [Hs Hv].
      assert (Hok : ok_bestfit (bestfit_to_wire kbits b)).
      { unfold ok_bestfit, bestfit_to_wire, ok_pair. cbn [fst snd]. split; [apply ok_smooth_wire, Hs|]. split; [apply U8_bits|]. split; [apply U8_bits|exact Hv]. }
      pose proof (rt_bestfit _ [] Hok) as R. rewrite app_nil_r in R. rewrite R.
      rewrite bestfit_roundtrip. reflexivity.
    + destruct Hp as (Hs & Hv & Hl & Hd).
      assert (Hok : ok_polyfit (polyfit_to_wire kbits q)).
      { unfold ok_polyfit, polyfit_to_wire, ok_pair, ok_list. cbn [fst snd]. rewrite map_length.
        split; [apply ok_smooth_wire, Hs|]. split; [exact Hv|]. split; [split; [exact Hl|apply Forall_U8]|exact Hd]. }
      pose proof (rt_polyfit _ [] Hok) as R. rewrite app_nil_r in R. rewrite R.
      rewrite polyfit_roundtrip. reflexivity.
  - assert (Hok : ok_correction (pc_to_wire kbits pc)).
    { unfold ok_correction, pc_to_wire, ok_pair. cbn [fst snd]. split; [apply ok_smooth_wire, Hb|]. split; [apply U8_bits|].
      split; [apply ok_smooth_wire, Hc|]. split; apply U8_bits. }
    pose proof (rt_correction _ [] Hok) as R. rewrite app_nil_r in R. rewrite R.
    apply pc_roundtrip.
  - pose proof (rt_backfill g [] Hg) as R. rewrite app_nil_r in R. rewrite R. reflexivity.
Qed.

(** the kind of predictor a valid parameter set creates is decided by the algorithm alone *)
Lemma create_kind (old : pred_state N) p : valid_params p = true ->
  match create_predictor old p with
  | PLinear _ => Z.land (pAlgo p) paMask = 1
  | PPoly _ => Z.land (pAlgo p) paMask = 2
  | PNone => Z.land (pAlgo p) paMask <> 1 /\ Z.land (pAlgo p) paMask <> 2
  end.
Proof.
  intros Hv. unfold valid_params in Hv. repeat (apply andb_true_iff in Hv; destruct Hv as [Hv ?]).
  unfold create_predictor, new_bestfit, new_polyfit, set_windows.
  assert (Hmp : Z.land (pAlgo p) paMask <> 0 -> (pMaxPoints p <? 2) = false).
  { intros Hne.
    match goal with H : negb (negb (pAlgo p =? 0) && _) = true |- _ => rename H into Hx end.
    destruct (pAlgo p =? 0) eqn:E0; [apply Z.eqb_eq in E0; rewrite E0 in Hne; cbn in Hne; contradiction|].
    cbn [negb andb] in Hx. apply negb_true_iff in Hx. exact Hx. }
  destruct (Z.eqb_spec (Z.land (pAlgo p) paMask) 1) as [E1|N1].
  - rewrite Hmp by lia. exact E1.
  - destruct (Z.eqb_spec (Z.land (pAlgo p) paMask) 2) as [E2|N2].
    + rewrite Hmp by lia. exact E2.
    + split; assumption.
Qed.

(** SetParams keeps the installed predictor of the kind the parameters select *)
Lemma set_params_kind_ok (a a' : admin N) p : valid_params (a_params a) = true -> kind_ok a ->
  set_params a p = inl a' -> kind_ok a' /\ valid_params (a_params a') = true.
Proof.
  intros Hvo Hk. unfold set_params. destruct (valid_params p) eqn:Hv; [|discriminate]. intros E. injection E as <-.
  split; [|exact Hv]. unfold kind_ok in *. cbn [a_params a_pred].
  destruct (Z.eqb_spec (pAlgo p) (pAlgo (a_params a))) as [Ea|_].
  - pose proof (create_kind PNone p Hv) as K1. pose proof (create_kind PNone (a_params a) Hvo) as K2. rewrite Ea in K1.
    destruct (create_predictor PNone p), (create_predictor PNone (a_params a)), (a_pred a); try contradiction; try exact I;
      try (destruct K1; destruct K2; congruence); try congruence; try (destruct K2; congruence); try (destruct K1; congruence).
  - unfold create_predictor. destruct (Z.land (pAlgo p) paMask =? 1).
    + destruct (new_bestfit _ _); exact I.
    + destruct (Z.land (pAlgo p) paMask =? 2); [destruct (new_polyfit _ _ _); exact I|exact I].
Qed.

(** hence closing and reopening the engine changes nothing *)
Theorem restart_invisible (e : engine N) : admin_wf (e_admin e) -> restart kbits kofbits e = e.
Proof. intros H. unfold restart. rewrite load_save by exact H. destruct e; reflexivity. Qed.

(** a run interrupted by restarts at arbitrary points ends in the state of the uninterrupted run,
    provided every intermediate administrator state is well formed *)
Inductive rop := ROp (o : @eng_op N) | RRestart.
Definition r_apply (e : engine N) (o : rop) : engine N :=
  match o with ROp x => e_apply e x | RRestart => restart kbits kofbits e end.
Fixpoint strip (l : list rop) : list (@eng_op N) :=
  match l with [] => [] | ROp x :: r => x :: strip r | RRestart :: r => strip r end.

Theorem restarts_change_nothing (ops : list rop) : forall e,
  (forall pre suf, strip ops = pre ++ suf -> admin_wf (e_admin (fold_left e_apply pre e))) ->
  fold_left r_apply ops e = fold_left e_apply (strip ops) e.
Proof.
  induction ops as [|o r IH]; intros e Hwf; cbn [fold_left strip]; [reflexivity|].
  destruct o as [x|]; cbn [r_apply strip fold_left].
  - apply IH. intros pre suf E. apply (Hwf (x :: pre) suf). cbn [strip app]. rewrite E. reflexivity.
  - rewrite restart_invisible by (apply (Hwf [] (strip r)); reflexivity). apply IH. exact Hwf.
Qed.

End WithNum.
