(** C20, trial period: while check-ins do not debit, every balance stays zero, no check-in is refused
    as grounded and the daily update credits nobody. *)
From Coq Require Import ZArith List Bool Arith Lia.
From Flap Require Import Model.Num Model.TripHistory Model.Promises Model.Predictor Model.Engine
  Proofs.LedgerP Proofs.EngineInv Proofs.ClearedP Proofs.ProtocolP Proofs.UpdateAllP.
Import ListNotations.
Open Scope Z_scope.

Section WithNum.
Context {N : NumOps}.
Local Notation K := (K N).
Local Notation traveller := (traveller N).
Local Notation engine := (engine N).
Local Notation table := (table N).
Local Notation flight := (flight N).

(** the two facts about zero the argument needs (true of float64 and of exact arithmetic) *)
Hypothesis zero_not_below_zero : kltb N (k0 N) (k0 N) = false.
Hypothesis zero_at_least_zero : kleb N (k0 N) (k0 N) = true.

Definition Zb (t : traveller) : Prop := t_balance t = k0 N.
Definition TZb (tb : table) : Prop := forall k t, In (k, t) tb -> Zb t.

Lemma Zb_new now : Zb (new_traveller now).
Proof. reflexivity. Qed.

Lemma nondebit_submit_flight_bac (t : traveller) f now taxi t' bac pd :
  submit_flight t f now taxi false = inl (t', bac, pd) -> bac = t_balance t \/ bac = k0 N.
Proof.
  unfold submit_flight. destruct (cleared_kept_clear t now) as (_ & _ & Eb).
  destruct (cleared t now) as [cr t1]. cbn [snd] in Eb.
  destruct cr; try discriminate; destruct (add_flight (t_hist t1) f); try discriminate;
    intros E; injection E as _ <- _; cbn [set_hist t_balance]; auto.
Qed.

Lemma nondebit_follow_on_balance (t : traveller) f now taxi t' bac pd :
  follow_on_flight t f now taxi false = inl (t', bac, pd) -> t_balance t' = t_balance t /\ bac = k0 N.
Proof.
  unfold follow_on_flight. destruct (add_flight (t_hist t) f); [|discriminate].
  intros E; injection E as <- <- _. split; reflexivity.
Qed.

Lemma nondebit_checkin_one (first : bool) (t : traveller) f now taxi t' bac pd :
  checkin_one first t f now taxi false = inl (t', bac, pd) ->
  t_balance t' = t_balance t /\ (bac = t_balance t \/ bac = k0 N).
Proof.
  destruct first; cbn [checkin_one]; intros E.
  - split; [eapply nondebit_submit_flight_balance; eauto|eapply nondebit_submit_flight_bac; eauto].
  - destruct (nondebit_follow_on_balance _ _ _ _ _ _ _ E) as [A B]. split; [exact A|right; exact B].
Qed.

Lemma nondebit_submit_loop_from_Zb fs : forall first (t : traveller) pc now p t' pc',
  Zb t -> submit_loop_from first t pc fs now p false = inl (t', pc') -> Zb t'.
Proof.
  induction fs as [|f r IH]; intros first t pc now p t' pc' Hz; cbn [submit_loop_from].
  - intros E. injection E as <- _. exact Hz.
  - destruct (checkin_one first t f now (pTaxi p) false) as [[[t1 bac] pd]|e] eqn:Es; [|discriminate].
    destruct (nondebit_checkin_one first t f now (pTaxi p) t1 bac pd Es) as [Eb Hbac].
    assert (Hb : kltb N bac (k0 N) = false).
    { destruct Hbac as [->| ->]; [rewrite Hz|]; exact zero_not_below_zero. }
    rewrite Hb, andb_false_r. apply IH. unfold Zb in *. congruence.
Qed.

Lemma nondebit_submit_loop_Zb fs (t : traveller) pc now p t' pc' :
  Zb t -> submit_loop t pc fs now p false = inl (t', pc') -> Zb t'.
Proof. apply nondebit_submit_loop_from_Zb. Qed.

(** a zero balance is never grounded, so a non-debiting submission is never refused as grounded *)
Lemma zero_balance_not_grounded (t : traveller) now : Zb t -> ~ grounded t now.
Proof. intros Hz. apply in_credit_not_grounded. rewrite Hz. exact zero_at_least_zero. Qed.

Lemma nondebit_submit_loop_not_grounded fs (t : traveller) pc now p :
  Zb t -> submit_loop t pc fs now p false <> inr EGrounded.
Proof. intros Hz. apply in_order_submission_not_grounded. apply zero_balance_not_grounded, Hz. Qed.

Lemma keep_promise_balance (t : traveller) : t_balance (fst (keep_promise t)) = t_balance t.
Proof.
  unfold keep_promise. destruct (mid_trip (t_hist t)); [|reflexivity].
  destruct (trip_start_end_length (t_hist t)) as [[st en] d]. destruct (keep _ _ _ _); [|reflexivity].
  destruct (end_trip_op (t_hist t)); reflexivity.
Qed.

(** the daily update of a traveller with a zero balance: not credited, balance unchanged *)
Lemma update_traveller_Zb (t : traveller) p share now w c :
  Zb t -> update_traveller t p share now = (w, c) ->
  c_grounded c = false /\ (forall t', w = Some t' -> Zb t').
Proof.
  intros Hz. unfold update_traveller.
  destruct (update (t_hist t) (th_params p) now) as [[[h' dy] fy]|er]; cbn zeta.
  - set (t1 := set_hist t h').
    assert (Hg : negb (mid_trip (t_hist t1)) && kltb N (t_balance t1) (k0 N) = false).
    { cbn [t1 set_hist t_balance]. rewrite Hz, zero_not_below_zero. apply andb_false_r. }
    rewrite Hg. pose proof (keep_promise_balance t1) as Kb. destruct (keep_promise t1) as [t3 kept]. cbn [fst] in Kb.
    intros E. injection E as <- <-. cbn [c_grounded]. split; [reflexivity|].
    intros t' Ht'. cbn [orb] in Ht'. injection Ht' as <-. unfold Zb. rewrite Kb. exact Hz.
  - assert (Hg : negb (mid_trip (t_hist t)) && kltb N (t_balance t) (k0 N) = false).
    { rewrite Hz, zero_not_below_zero. apply andb_false_r. }
    rewrite Hg. pose proof (keep_promise_balance t) as Kb. destruct (keep_promise t) as [t3 kept]. cbn [fst] in Kb.
    intros E. injection E as <- <-. cbn [c_grounded]. split; [reflexivity|].
    intros t' Ht'. destruct kept; cbn [orb] in Ht'; [|discriminate]. injection Ht' as <-. unfold Zb. rewrite Kb. exact Hz.
Qed.

Lemma TZb_tput tb k t : TZb tb -> Zb t -> TZb (tput tb k t).
Proof.
  intros Ht Hl k2 t2 Hin. destruct (tput_In _ _ _ _ _ Hin) as [E|H]; [injection E as -> ->; exact Hl|eapply Ht; eauto].
Qed.

Lemma get_create_Zb (e : engine) k now : TZb (e_table e) -> Zb (get_create e k now).
Proof.
  intros Ht. unfold get_create. destruct (tget (e_table e) k) as [t|] eqn:E; [|apply Zb_new].
  destruct (tget_In _ _ _ E) as (k' & H). eapply Ht; eauto.
Qed.

Lemma update_some_TZb recs : forall p share now (writes : table) s,
  TZb recs -> TZb writes -> TZb (fst (update_some recs p share now writes s)).
Proof.
  induction recs as [|[k t] r IH]; intros p share now writes s Hr Hw; cbn [update_some]; [exact Hw|].
  destruct (update_traveller t p share now) as [w c] eqn:Eu.
  apply IH; [intros k2 t2 H; eapply Hr; right; exact H|].
  destruct (update_traveller_Zb t p share now w c ltac:(eapply Hr; left; reflexivity) Eu) as [_ HL].
  destruct w as [t'|]; [|exact Hw].
  intros k2 t2 Hin. apply in_app_or in Hin. destruct Hin as [Hin|[E|[]]]; [eapply Hw; eauto|].
  injection E as <- <-. apply HL. reflexivity.
Qed.

Lemma fold_tput_TZb (ws : table) : forall tb, TZb tb -> TZb ws ->
  TZb (fold_left (fun tb kt => tput tb (fst kt) (snd kt)) ws tb).
Proof.
  induction ws as [|[k t] r IH]; intros tb Ht Hw; cbn [fold_left]; [exact Ht|].
  apply IH; [apply TZb_tput; [exact Ht|eapply Hw; left; reflexivity]|intros k2 t2 H; eapply Hw; right; exact H].
Qed.

Lemma update_all_TZb (e : engine) now fit : TZb (e_table e) -> TZb (e_table (fst (fst (update_all e now fit)))).
Proof.
  intros Ht. unfold update_all.
  destruct (negb (now mod SecondsInDay =? 0)); [exact Ht|].
  destruct (if has_bit _ _ then _ else _) as [pc1 pcv].
  destruct (if kltb N (k0 N) _ then _ else _) as [share pred1].
  cbn [fst e_table].
  set (results := map _ _).
  assert (Hres : forall wr, In wr results -> TZb (fst wr)).
  { intros wr Hin. unfold results in Hin. apply in_map_iff in Hin. destruct Hin as (r & <- & _).
    apply update_some_TZb; [intros k t Hin; apply filter_In in Hin; eapply Ht; apply Hin|intros ? ? []]. }
  clearbody results. revert Ht. generalize (e_table e).
  induction results as [|wr rs IH]; intros tb Ht; cbn [fold_left]; [exact Ht|].
  apply IH; [intros w Hw; apply Hres; right; exact Hw|].
  apply fold_tput_TZb; [exact Ht|apply Hres; left; reflexivity].
Qed.

(** operations of the trial period: any operation except a debiting check-in *)
Definition nondebit (o : @eng_op N) : Prop := match o with OSubmit _ _ _ d => d = false | _ => True end.

Lemma e_apply_TZb (e : engine) o : nondebit o -> TZb (e_table e) -> TZb (e_table (e_apply e o)).
Proof.
  intros Hn Ht. destruct o as [p|k fs now debit|now fit|k pp now|k|k]; cbn [e_apply].
  - destruct (set_params (e_admin e) p); exact Ht.
  - cbn in Hn. subst debit. unfold submit_flights. destruct fs as [|f r]; [exact Ht|].
    destruct (submit_loop _ _ _ _ _ _) as [[t' pc']|err] eqn:E; cbn [fst e_table]; [|exact Ht].
    apply TZb_tput; [exact Ht|]. eapply nondebit_submit_loop_Zb; [|exact E]. apply get_create_Zb, Ht.
  - apply update_all_TZb, Ht.
  - unfold engine_make. destruct (negb _); [exact Ht|]. destruct (make _ _ _); [|exact Ht].
    cbn [fst e_table]. apply TZb_tput; [exact Ht|]. exact (get_create_Zb e k now Ht).
  - unfold engine_end_trip. destruct (tget (e_table e) k) as [t|] eqn:E; [|exact Ht].
    destruct (end_trip_op (t_hist t)); [|exact Ht]. cbn [fst e_table]. apply TZb_tput; [exact Ht|].
    destruct (tget_In _ _ _ E) as (k' & H). exact (Ht _ _ H).
  - unfold engine_reopen_trip. destruct (tget (e_table e) k) as [t|] eqn:E; [|exact Ht].
    destruct (reopen_trip_op (t_hist t)); [|exact Ht]. cbn [fst e_table]. apply TZb_tput; [exact Ht|].
    destruct (tget_In _ _ _ E) as (k' & H). exact (Ht _ _ H).
Qed.

Lemma reachable_TZb (a : admin N) (ops : list (@eng_op N)) :
  Forall nondebit ops -> TZb (e_table (fold_left e_apply ops (engine0 a))).
Proof.
  intros Hall.
  assert (G : forall e, TZb (e_table e) -> TZb (e_table (fold_left e_apply ops e))).
  { induction Hall as [|o r Ho Hr IH]; intros e He; cbn [fold_left]; [exact He|]. apply IH, e_apply_TZb; assumption. }
  apply G. intros ? ? [].
Qed.

(** (1) in every state reachable without a debiting check-in every stored balance is zero *)
Theorem trial_balances_stay_zero (a : admin N) (ops : list (@eng_op N)) k t :
  Forall nondebit ops -> tget (e_table (fold_left e_apply ops (engine0 a))) k = Some t -> t_balance t = k0 N.
Proof.
  intros Hall Hg. destruct (tget_In _ _ _ Hg) as (k' & Hin). exact (reachable_TZb a ops Hall _ _ Hin).
Qed.

(** (2) ... and no non-debiting check-in (of any number of flights, of a known or a new traveller) is refused as grounded *)
Theorem trial_checkin_never_grounded (a : admin N) (ops : list (@eng_op N)) k fs now :
  Forall nondebit ops ->
  snd (submit_flights (fold_left e_apply ops (engine0 a)) k fs now false) <> Some EGrounded.
Proof.
  intros Hall. set (e := fold_left e_apply ops (engine0 a)).
  pose proof (reachable_TZb a ops Hall) as Ht. fold e in Ht.
  unfold submit_flights. destruct fs as [|f r]; [cbn; discriminate|].
  pose proof (nondebit_submit_loop_not_grounded (f :: r) (get_create e k now) (a_pc (e_admin e)) now (a_params (e_admin e)) (get_create_Zb e k now Ht)) as Hng.
  destruct (submit_loop _ _ _ _ _ _) as [[t' pc']|err]; cbn [snd]; [discriminate|].
  intros C. injection C as ->. apply Hng. reflexivity.
Qed.

(** (3) ... and the daily update credits nobody *)
Theorem trial_update_credits_nobody (p : params N) share now (tb : table) :
  TZb tb -> count_grounded p share now tb = 0.
Proof.
  intros Ht. unfold count_grounded. induction tb as [|[k t] r IH]; [reflexivity|].
  cbn [fold_right snd]. rewrite IH by (intros k2 t2 H; eapply Ht; right; exact H).
  unfold U. destruct (update_traveller t p share now) as [w c] eqn:Eu.
  destruct (update_traveller_Zb t p share now w c ltac:(eapply Ht; left; reflexivity) Eu) as [Hg _].
  cbn [snd]. rewrite Hg. reflexivity.
Qed.

End WithNum.
