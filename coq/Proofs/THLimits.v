(** C05: after any successful Update nobody is mid-trip beyond the limits; ended trips stay ended. *)
From Coq Require Import ZArith List Bool Arith Lia.
From Flap Require Import Model.Num Model.Search Model.TripHistory Proofs.SearchP Proofs.THBasics Proofs.THOrder.
Import ListNotations.
Open Scope Z_scope.

Section WithNum.
Context {N : NumOps}.
Local Notation flight := (flight N).
Local Notation hist := (hist N).

(** the marker-defined open trip: the maximal prefix of stored flights that are not trip ends *)
Fixpoint open_run (l : list flight) : list flight :=
  match l with
  | [] => []
  | f :: t => if negb (fstart f =? 0) && negb (is_end f) then f :: open_run t else []
  end.
Definition open_start (l : list flight) : Z := fstart (last (open_run l) empty_flight).
Definition open_count (l : list flight) : Z := Z.of_nat (length (open_run l)).

Lemma open_run_app a b : open_run b = [] -> open_run (a ++ b) = open_run a.
Proof.
  intros Hb. induction a as [|f t IH]; cbn [app open_run]; [exact Hb|].
  destruct (negb (fstart f =? 0) && negb (is_end f)); [f_equal; exact IH|reflexivity].
Qed.

(** days_between is antitone in its first argument *)
Lemma days_between_antitone a b now : a <= b -> days_between b now <= days_between a now.
Proof.
  intros Hab. unfold days_between, SecondsInDay.
  destruct (Z.ltb_spec now a), (Z.ltb_spec now b); try lia.
  - apply Z.div_pos; lia.
  - apply Z.div_le_mono; lia.
Qed.

(** ---- state transformers ---- *)
Lemma end_journey_state s (f : flight) : flights (fst (end_journey s f)) = flights s /\
  tstart (fst (end_journey s f)) = tstart s /\ reopened (fst (end_journey s f)) = reopened s.
Proof. unfold end_journey. destruct (et f); cbn; auto. Qed.

Lemma update_journey_state s (f : flight) now p last :
  flights (fst (update_journey s f now p last)) = flights s /\
  tstart (fst (update_journey s f now p last)) = tstart s.
Proof.
  unfold update_journey.
  set (s1 := if negb last && _ then _ else s).
  assert (H1 : flights s1 = flights s /\ tstart s1 = tstart s).
  { unfold s1. destruct (negb last && _); cbn; auto. }
  destruct H1 as [F1 T1].
  destruct (visited s1) as [v|].
  - destruct (mem (fto f) v).
    + pose proof (end_journey_state s1 f) as (A & B & _). destruct (end_journey s1 f) as [s2 f2]. cbn [fst] in A, B.
      destruct (FlightInterval p <=? days_between (fend f2) now).
      * pose proof (end_journey_state s2 f2) as (A2 & B2 & _). split; congruence.
      * cbn [fst]. split; congruence.
    + destruct (FlightInterval p <=? days_between (fend f) now).
      * pose proof (end_journey_state (set_visited s1 (Some (fto f :: ffrom f :: v))) f) as (A2 & B2 & _).
        cbn in A2, B2. split; congruence.
      * cbn. split; congruence.
  - destruct (FlightInterval p <=? days_between (fend f) now).
    + pose proof (end_journey_state s1 f) as (A2 & B2 & _). split; congruence.
    + cbn. split; congruence.
Qed.

Lemma end_trip_keeps_end s (f : flight) b : is_end f = true -> is_end (snd (end_trip s f b)) = true.
Proof.
  intros H. unfold end_trip, is_end in *. destruct (b && reopened s); cbn [snd]; [exact H|].
  destruct (et f) eqn:E; cbn in *; rewrite ?E; try reflexivity; try discriminate.
Qed.

Lemma end_trip_fires s (f : flight) : fst (end_trip s f false) = ts0 /\ is_end (snd (end_trip s f false)) = true.
Proof. unfold end_trip, is_end. cbn. destruct (et f) eqn:E; cbn; rewrite ?E; auto. Qed.

Lemma end_trip_from_ts0 (f : flight) b : fst (end_trip ts0 f b) = ts0.
Proof. unfold end_trip. cbn. rewrite andb_false_r. reflexivity. Qed.

(** update_trip: either the trip was ended at this flight (state reset, flight marked as a trip end)
    or nothing was reset and both limits hold for the tracked trip *)
Lemma update_trip_spec s (f : flight) now p :
  let tstart' := if tstart s =? 0 then fstart f else tstart s in
  let r := update_trip s f now p in
  (fst r = ts0 /\ is_end (snd r) = true) \/
  (flights (fst r) = flights s /\ tstart (fst r) = tstart' /\
   days_between tstart' now <= TripLength p /\ flights s < FlightsInTrip p).
Proof.
  cbn zeta. unfold update_trip.
  set (s1 := if tstart s =? 0 then _ else s).
  assert (Hs1 : flights s1 = flights s /\ tstart s1 = (if tstart s =? 0 then fstart f else tstart s)).
  { unfold s1. destruct (tstart s =? 0) eqn:E; cbn; auto. }
  destruct Hs1 as [F1 T1].
  (* first check *)
  assert (H2 : let r2 := (if (journeys s1 =? 2) && (Algo p =? 0) then end_trip s1 f true else (s1, f)) in
               (fst r2 = ts0 /\ is_end (snd r2) = true) \/ fst r2 = s1).
  { cbn zeta. destruct ((journeys s1 =? 2) && (Algo p =? 0)); [|right; reflexivity].
    destruct (reopened s1) eqn:Er.
    - right. unfold end_trip. rewrite Er. reflexivity.
    - left. unfold end_trip. rewrite Er. cbn [andb fst snd]. split; [reflexivity|].
      unfold is_end. destruct (et f) eqn:E; cbn; rewrite ?E; reflexivity. }
  destruct (if (journeys s1 =? 2) && (Algo p =? 0) then end_trip s1 f true else (s1, f)) as [s2 f2].
  cbn zeta in H2. cbn [fst snd] in H2.
  destruct H2 as [[E2 I2]|E2].
  - (* already reset: stays reset and ended *)
    left. subst s2.
    destruct (TripLength p <? days_between (tstart ts0) now).
    + pose proof (end_trip_from_ts0 f2 false) as A. pose proof (end_trip_keeps_end ts0 f2 false I2) as B.
      destruct (end_trip ts0 f2 false) as [s3 f3]. cbn [fst snd] in A, B. subst s3.
      destruct (FlightsInTrip p <=? flights ts0).
      * split; [apply end_trip_from_ts0|apply end_trip_keeps_end, B].
      * split; auto.
    + destruct (FlightsInTrip p <=? flights ts0).
      * split; [apply end_trip_from_ts0|apply end_trip_keeps_end, I2].
      * split; auto.
  - subst s2.
    destruct (Z.ltb_spec (TripLength p) (days_between (tstart s1) now)) as [Hlt|Hge].
    + left. pose proof (end_trip_fires s1 f2) as [A B].
      destruct (end_trip s1 f2 false) as [s3 f3]. cbn [fst snd] in A, B. subst s3.
      destruct (FlightsInTrip p <=? flights ts0).
      * split; [apply end_trip_from_ts0|apply end_trip_keeps_end, B].
      * split; auto.
    + destruct (Z.leb_spec (FlightsInTrip p) (flights s1)) as [Hle|Hgt].
      * left. apply end_trip_fires.
      * right. cbn [fst]. rewrite <- T1, <- F1. split; [reflexivity|]. split; [reflexivity|]. split; lia.
Qed.

(** ---- the loop invariant ---- *)
Definition Inv (s : tstate) (out : list flight) : Prop :=
  0 <= flights s /\
  open_count out <= flights s /\
  (tstart s = 0 \/ exists g, In g out /\ tstart s = fstart g) /\
  (open_run out <> [] -> tstart s <> 0 /\ tstart s <= fstart (last (open_run out) empty_flight)).

Lemma Inv_ts0 out : open_run out = [] -> Inv ts0 out.
Proof.
  intros H. unfold Inv, open_count. rewrite H. cbn.
  split; [lia|]. split; [lia|]. split; [left; reflexivity|]. intros C; contradiction.
Qed.

Lemma R_fstart (f f' : flight) : R f f' -> fstart f' = fstart f.
Proof. intros [E _]. apply (f_equal fstart) in E. exact E. Qed.

Lemma last_cons_nonempty {A} (a : A) l d : l <> [] -> last (a :: l) d = last l d.
Proof. destruct l; [contradiction|reflexivity]. Qed.

(** processing one more (newer) flight f through journey+trip rules keeps the invariant *)
Lemma Inv_step s out (f f2 f3 : flight) s2 s3 nt p :
  Inv s out -> (forall g, In g out -> fstart g <= fstart f) ->
  fstart f2 = fstart f -> flights s2 = flights s + 1 -> tstart s2 = tstart s ->
  update_trip s2 f2 nt p = (s3, f3) ->
  Inv s3 (f3 :: out) /\
  (is_end f3 = false -> fstart f <> 0 ->
     let ts := if tstart s =? 0 then fstart f else tstart s in
     flights s3 = flights s + 1 /\ tstart s3 = ts /\ days_between ts nt <= TripLength p /\ flights s + 1 < FlightsInTrip p).
Proof.
  intros (Hf0 & Hcnt & Hts & Hrun) Hsorted E2 F2 T2 Eu.
  pose proof (update_trip_spec s2 f2 nt p) as Hspec. cbn zeta in Hspec. rewrite Eu in Hspec. cbn [fst snd] in Hspec.
  pose proof (update_trip_R s2 f2 nt p) as HR. rewrite Eu in HR. cbn [snd] in HR.
  pose proof (R_fstart _ _ HR) as E3. rewrite E2 in E3.
  destruct Hspec as [[-> Hend]|(F3 & T3 & Hdb & Hfl)].
  - split; [|intros C; congruence]. apply Inv_ts0. cbn [open_run]. rewrite Hend. rewrite andb_false_r. reflexivity.
  - rewrite T2, E2 in T3, Hdb. rewrite F2 in F3, Hfl.
    assert (HtsNext : tstart s3 = 0 \/ exists g, In g (f3 :: out) /\ tstart s3 = fstart g).
    { rewrite T3. destruct (tstart s =? 0) eqn:Ez.
      - right. exists f3. split; [left; reflexivity|congruence].
      - destruct Hts as [Hz|(g & Hg & Eg)]; [apply Z.eqb_neq in Ez; contradiction|].
        right. exists g. split; [right; exact Hg|exact Eg]. }
    assert (Hle : tstart s <> 0 -> tstart s <= fstart f).
    { intros Hnz. destruct Hts as [Hz|(g & Hg & Eg)]; [contradiction|]. rewrite Eg. apply Hsorted, Hg. }
    split.
    + unfold Inv. split; [lia|]. split; [|split; [exact HtsNext|]].
      * unfold open_count in *. cbn [open_run].
        destruct (negb (fstart f3 =? 0) && negb (is_end f3)); cbn [length]; lia.
      * cbn [open_run]. destruct (negb (fstart f3 =? 0) && negb (is_end f3)) eqn:Eopen; [|intros C; contradiction].
        intros _. apply andb_true_iff in Eopen. destruct Eopen as [Hnz _].
        apply negb_true_iff, Z.eqb_neq in Hnz. rewrite E3 in Hnz.
        destruct (open_run out) as [|g0 r0] eqn:Erun.
        -- cbn [last]. rewrite T3, E3. destruct (tstart s =? 0) eqn:Ez; [split; [exact Hnz|lia]|].
           apply Z.eqb_neq in Ez. split; [exact Ez|apply Hle, Ez].
        -- rewrite last_cons_nonempty by discriminate.
           destruct (Hrun ltac:(discriminate)) as [Hnz2 Hle2].
           rewrite T3. destruct (tstart s =? 0) eqn:Ez; [apply Z.eqb_eq in Ez; contradiction|]. split; assumption.
    + intros _ _. cbn zeta. split; [exact F3|]. split; [exact T3|]. split; [exact Hdb|exact Hfl].
Qed.

Lemma Inv_step_mid p now s out dy fy (f : flight) nt :
  Inv s out -> (forall g, In g out -> fstart g <= fstart f) ->
  exists s' f' dy' fy', step_mid p now (s, out, dy, fy) (f, nt) = (s', f' :: out, dy', fy') /\
                        R f f' /\ Inv s' (f' :: out).
Proof.
  intros HI Hs. unfold step_mid. destruct (et f) eqn:E.
  1,2,3,5:
    pose proof (update_journey_R (next_entry s f) f nt p false) as H1;
    pose proof (update_journey_state (next_entry s f) f nt p false) as [F1 T1];
    destruct (update_journey (next_entry s f) f nt p false) as [s2 f2]; cbn [fst snd] in H1, F1, T1;
    pose proof (update_trip_R s2 f2 nt p) as H2;
    destruct (update_trip s2 f2 nt p) as [s3 f3] eqn:Eu; cbn [snd] in H2;
    destruct (add_stats f3 now dy fy) as [dy' fy'];
    exists s3, f3, dy', fy'; split; [reflexivity|]; split; [eapply R_trans; eauto|];
    apply (Inv_step s out f f2 f3 s2 s3 nt p HI Hs (R_fstart _ _ H1) F1 T1 Eu).
  (* traveller trip end: reset, no rules *)
  pose proof (end_trip_R (next_entry s f) f false) as H1.
  pose proof (end_trip_fires (next_entry s f) f) as [A B].
  destruct (end_trip (next_entry s f) f false) as [s2 f2]. cbn [fst snd] in H1, A, B. subst s2.
  exists ts0, f2, dy, fy. split; [reflexivity|]. split; [exact H1|].
  apply Inv_ts0. cbn [open_run]. rewrite B, andb_false_r. reflexivity.
Qed.

(** "each flight starts no earlier than all flights before it in the list" *)
Inductive asc : list flight -> Prop :=
| asc_nil : asc []
| asc_cons f l : (forall g, In g l -> fstart f <= fstart g) -> asc l -> asc (f :: l).

Lemma Inv_fold p now : forall (fns : list (flight * Z)) s out dy fy,
  Inv s out -> asc (map fst fns) ->
  (forall g f, In g out -> In f (map fst fns) -> fstart g <= fstart f) ->
  exists s' new dy' fy',
    fold_left (step_mid p now) fns (s, out, dy, fy) = (s', new ++ out, dy', fy') /\
    Forall2 R (rev (map fst fns)) new /\ Inv s' (new ++ out).
Proof.
  induction fns as [|[f nt] t IH]; intros s out dy fy HI Hasc Hso; cbn [fold_left map rev fst].
  - exists s, [], dy, fy. split; [reflexivity|]. split; [constructor|exact HI].
  - cbn [map fst] in Hasc. inversion Hasc as [|f0 l0 Hf Ht]; subst.
    destruct (Inv_step_mid p now s out dy fy f nt HI) as (s1 & f1 & dy1 & fy1 & E1 & R1 & I1).
    { intros g Hg. apply Hso; [exact Hg|left; reflexivity]. }
    rewrite E1.
    destruct (IH s1 (f1 :: out) dy1 fy1 I1 Ht) as (s2 & new & dy2 & fy2 & E2 & R2 & I2).
    { intros g x [<-|Hg] Hx; [rewrite (R_fstart _ _ R1); apply Hf, Hx|apply Hso; [exact Hg|right; exact Hx]]. }
    exists s2, (new ++ [f1]), dy2, fy2. rewrite <- app_assoc. cbn [app]. split; [exact E2|]. split; [|exact I2].
    apply Forall2_app; [exact R2|constructor; [exact R1|constructor]].
Qed.

(** ---- the window ---- *)
Lemma sot_scan_spec (l : list flight) : forall fuel i, (MaxFlights - i < fuel)%nat ->
  exists k, (i <= k)%nat /\ sot_scan fuel l i = Z.of_nat k - 1 /\
    ((MaxFlights <= k)%nat \/ fstart (getf l k) = 0 \/ is_end (getf l k) = true) /\
    (forall a, (i <= a < k)%nat -> (a < MaxFlights)%nat /\ fstart (getf l a) <> 0 /\ is_end (getf l a) = false).
Proof.
  induction fuel as [|fuel IH]; intros i Hf; [lia|]. cbn [sot_scan].
  destruct (Nat.ltb_spec i MaxFlights) as [Hi|Hi]; cbn [andb].
  - destruct (Z.eqb_spec (fstart (getf l i)) 0) as [Hz|Hnz]; cbn [negb].
    + exists i. repeat split; try lia; auto. 
    + destruct (is_end (getf l i)) eqn:He.
      * exists i. repeat split; try lia; auto.
      * destruct (IH (S i) ltac:(lia)) as (k & Hk & Ek & Hstop & Hbefore).
        exists k. split; [lia|]. split; [exact Ek|]. split; [exact Hstop|].
        intros a Ha. destruct (Nat.eq_dec a i) as [->|Hne]; [auto|apply Hbefore; lia].
  - exists i. repeat split; try lia; auto.
Qed.

Lemma open_run_skipn_stop (l : list flight) k : length l = MaxFlights ->
  ((MaxFlights <= k)%nat \/ fstart (getf l k) = 0 \/ is_end (getf l k) = true) ->
  open_run (skipn k l) = [].
Proof.
  intros Hl [Hk|Hk].
  - rewrite skipn_all2 by lia. reflexivity.
  - destruct (Nat.ltb_spec k (length l)) as [Hlt|Hge]; [|rewrite skipn_all2 by lia; reflexivity].
    assert (E : skipn k l = getf l k :: skipn (S k) l).
    { unfold getf. clear -Hlt. revert k Hlt. induction l as [|a l IH]; intros k Hlt; cbn in Hlt; [lia|].
      destruct k as [|k]; [reflexivity|]. cbn [skipn nth]. apply IH. lia. }
    rewrite E. cbn [open_run]. destruct Hk as [Hz|He].
    + rewrite Hz. reflexivity.
    + rewrite He, andb_false_r. reflexivity.
Qed.

(** the re-evaluated window ends just before a trip end, an empty slot or the end of the array *)
Lemma window_start_spec (h : hist) : length (entries h) = MaxFlights ->
  hempty h = false -> (Nat.eqb (oc h) 0 && is_end (getf (entries h) 0)) = false -> (oc h < MaxFlights)%nat ->
  exists k, (1 <= k)%nat /\ (oc h <= k)%nat /\ window_start h = Z.of_nat k - 1 /\ open_run (skipn k (entries h)) = [].
Proof.
  intros Hl Hne Hshort Hoc. unfold window_start, start_of_trip.
  destruct (sot_scan_spec (entries h) (S MaxFlights) (oc h) ltac:(lia)) as (k & Hk & Ek & Hstop & Hbefore).
  rewrite Ek.
  assert (Hk1 : (1 <= k)%nat).
  { destruct k as [|k]; [|lia]. assert (oc h = 0)%nat by lia. exfalso.
    unfold hempty in Hne. apply Z.eqb_neq in Hne. rewrite H in Hshort. cbn [Nat.eqb andb] in Hshort.
    destruct Hstop as [Hs|[Hs|Hs]]; [unfold MaxFlights in Hs; lia|contradiction|congruence]. }
  exists k. split; [exact Hk1|]. split; [exact Hk|].
  assert (Hrest : open_run (skipn k (entries h)) = []) by (apply open_run_skipn_stop; assumption).
  split; [|exact Hrest].
  replace (Z.to_nat (Z.of_nat k - 1 + 1)) with k by lia.
  destruct (Nat.ltb 0 (oc h) && negb (Z.of_nat k - 1 =? Z.of_nat MaxFlights - 1) &&
            negb (fstart (getf (entries h) k) =? 0)) eqn:Econd; [|reflexivity].
  (* second call starts at k, which is a stored trip end: returns k - 1 again *)
  apply andb_true_iff in Econd. destruct Econd as [Econd Hnz]. apply andb_true_iff in Econd. destruct Econd as [_ Hn99].
  apply negb_true_iff, Z.eqb_neq in Hnz. apply negb_true_iff, Z.eqb_neq in Hn99.
  assert (Hklt : (k < MaxFlights)%nat).
  { destruct (Nat.ltb_spec k MaxFlights); [assumption|].
    exfalso. unfold getf in Hnz. rewrite nth_overflow in Hnz by lia. cbn in Hnz. lia. }
  destruct Hstop as [Hs|[Hs|Hs]]; [lia|contradiction|].
  cbn [sot_scan]. destruct (Nat.ltb_spec k MaxFlights) as [_|C]; [|lia]. cbn [andb].
  destruct (Z.eqb_spec (fstart (getf (entries h) k)) 0) as [C|_]; [contradiction|]. cbn [negb].
  rewrite Hs. reflexivity.
Qed.

Lemma asc_app_single r (f : flight) : asc r -> (forall g, In g r -> fstart g <= fstart f) -> asc (r ++ [f]).
Proof.
  induction 1 as [|g r Hg Hr IH]; intros Hf; cbn [app].
  - constructor; [intros ? []|constructor].
  - constructor.
    + intros x Hx. apply in_app_or in Hx. destruct Hx as [Hx|[<-|[]]]; [apply Hg, Hx|apply Hf; left; reflexivity].
    + apply IH. intros x Hx. apply Hf. right. exact Hx.
Qed.

Lemma desc_rev_asc l : desc l -> asc (rev l).
Proof.
  induction 1 as [|f l Hf Hd IH]; cbn [rev]; [constructor|].
  apply asc_app_single; [exact IH|]. intros g Hg. apply Hf. apply in_rev. exact Hg.
Qed.

(** THE theorem: after a successful update, a traveller who is still mid-trip is within both limits *)
Theorem update_enforces_limits (h : hist) p now h' dy fy :
  ordered h -> (oc h < MaxFlights)%nat ->
  update h p now = inl (h', dy, fy) ->
  mid_trip h' = true ->
  days_between (open_start (entries h')) now <= TripLength p /\
  open_count (entries h') < FlightsInTrip p.
Proof.
  intros (Hlen & Hd & Hn) Hoc. unfold update.
  destruct (hempty h) eqn:Hne; [discriminate|].
  destruct (negb (now mod SecondsInDay =? 0)); [discriminate|].
  destruct (Nat.eqb (oc h) 0 && is_end (getf (entries h) 0)) eqn:Hshort; [discriminate|].
  destruct (window_start_spec h Hlen Hne Hshort Hoc) as (k & Hk1 & _ & Ew & Hrest).
  rewrite Ew. replace (Z.to_nat (Z.of_nat k - 1)) with (k - 1)%nat by lia.
  replace (S (k - 1)) with k by lia.
  set (l := entries h) in *.
  set (win := firstn k l). set (rest := skipn k l) in *.
  set (mids := removelast (rev win)). set (nows := map fstart (tl (rev win))).
  assert (Hwin : win = getf l 0 :: tl win).
  { unfold win. destruct l as [|x l0]; [cbn in Hlen; discriminate|]. destruct k; [lia|reflexivity]. }
  assert (Hmids : length mids = length nows).
  { unfold mids, nows. rewrite removelast_length, map_length. destruct (rev win); reflexivity. }
  assert (Hmids_eq : mids = rev (tl win)).
  { unfold mids. rewrite <- (rev_involutive (removelast (rev win))). rewrite rev_removelast_tl. reflexivity. }
  assert (Hdw : desc win) by (apply desc_firstn, Hd).
  assert (Hdt : desc (tl win)).
  { rewrite Hwin in Hdw. inversion Hdw; assumption. }
  destruct (Inv_fold p now (combine mids nows) ts0 [] (k0 N) 0) as (s & new & dy1 & fy1 & Efold & Rnew & Inew).
  { apply Inv_ts0. reflexivity. }
  { rewrite combine_fst_eq by exact Hmids. rewrite Hmids_eq. apply desc_rev_asc, Hdt. }
  { intros g f []. }
  rewrite Efold, app_nil_r in *. rewrite combine_fst_eq in Rnew by exact Hmids.
  rewrite Hmids_eq, rev_involutive in Rnew.
  (* entry 0 *)
  set (f0 := getf l 0) in *.
  pose proof (update_journey_R (next_entry s f0) f0 now p true) as H1.
  pose proof (update_journey_state (next_entry s f0) f0 now p true) as [F1 T1].
  destruct (update_journey (next_entry s f0) f0 now p true) as [s2 f2]. cbn [fst snd] in H1, F1, T1.
  destruct (update_trip s2 f2 now p) as [s3 f3] eqn:Eu.
  destruct (add_stats f3 now dy1 fy1) as [dy' fy'].
  intros E. injection E as <- _ _. cbn [entries].
  unfold mid_trip, hempty. cbn [entries getf nth].
  (* all processed flights start no later than f0 *)
  assert (Hsorted0 : forall g, In g new -> fstart g <= fstart f0).
  { intros g Hg. 
    assert (Hex : exists g0, In g0 (tl win) /\ fstart g = fstart g0).
    { clear -Rnew Hg. induction Rnew as [|a b la lb Hab Hl IH]; [destruct Hg|].
      destruct Hg as [<-|Hg]; [exists a; split; [left; reflexivity|apply R_fstart, Hab]|].
      destruct (IH Hg) as (g0 & Hg0 & Eg0). exists g0. split; [right; exact Hg0|exact Eg0]. }
    destruct Hex as (g0 & Hg0 & ->). rewrite Hwin in Hdw. inversion Hdw as [|x y Hxy Hy]; subst. apply Hxy, Hg0. }
  destruct (Inv_step s new f0 f2 f3 s2 s3 now p Inew Hsorted0 (R_fstart _ _ H1) F1 T1 Eu) as [I3 Hlim].
  pose proof (update_trip_R s2 f2 now p) as H2. rewrite Eu in H2. cbn [snd] in H2.
  assert (E3 : fstart f3 = fstart f0) by (rewrite (R_fstart _ _ H2); apply R_fstart, H1).
  unfold hempty in Hne. fold l in Hne. fold f0 in Hne. apply Z.eqb_neq in Hne.
  rewrite E3. destruct (Z.eqb_spec (fstart f0) 0) as [C|_]; [contradiction|]. cbn [orb].
  intros Hmid. apply negb_true_iff in Hmid.
  specialize (Hlim Hmid Hne). cbn zeta in Hlim. destruct Hlim as (F3 & T3 & Hdb & Hfl).
  destruct I3 as (_ & Hcnt & _ & Hrun).
  (* the open trip of the result lies inside the window *)
  assert (Hopen : open_run (f3 :: new ++ rest) = open_run (f3 :: new)).
  { change (f3 :: new ++ rest) with ((f3 :: new) ++ rest). apply open_run_app, Hrest. }
  unfold open_start, open_count. rewrite Hopen.
  assert (Hne3 : open_run (f3 :: new) <> []).
  { cbn [open_run]. rewrite E3. destruct (Z.eqb_spec (fstart f0) 0); [contradiction|]. rewrite Hmid. discriminate. }
  destruct (Hrun Hne3) as [Hnz Hle].
  unfold open_count in Hcnt. split; [|lia].
  rewrite T3 in Hle, Hnz.
  eapply Z.le_trans; [apply days_between_antitone, Hle|]. exact Hdb.
Qed.

(** ---- ended trips stay ended ---- *)
Lemma no_change_when_closed (h : hist) p now : mid_trip h = false -> oc h = 0%nat ->
  now mod SecondsInDay = 0 -> update h p now = inr ENoChange.
Proof.
  unfold mid_trip, update. intros Hm Hoc Hnow. apply orb_false_iff in Hm. destruct Hm as [He Hend].
  rewrite He, Hnow, Hoc. cbn. apply negb_false_iff in Hend. rewrite Hend. reflexivity.
Qed.

Lemma update_result_closed_or_error (h : hist) p now :
  length (entries h) = MaxFlights ->
  mid_trip h = false -> (oc h = 0%nat \/ et (getf (entries h) 0) = TTEnd) ->
  match update h p now with
  | inl (h', _, _) => mid_trip h' = false /\ oc h' = 0%nat
  | inr _ => True
  end.
Proof.
  intros Hl Hm Hcase. destruct (update h p now) as [[[h' dy] fy]|e] eqn:Eu; [|exact I].
  destruct (update_R h p now h' dy fy Hl Eu) as [HR Hoc]. split; [|exact Hoc].
  destruct Hcase as [H0|Htte].
  - (* oc = 0 and closed: the shortcut returns an error, contradiction *)
    exfalso. unfold update in Eu. unfold mid_trip in Hm. apply orb_false_iff in Hm. destruct Hm as [He Hend].
    rewrite He in Eu. destruct (negb (now mod SecondsInDay =? 0)); [discriminate|].
    rewrite H0 in Eu. apply negb_false_iff in Hend. rewrite Hend in Eu. discriminate.
  - pose proof (Forall2_R_tte _ _ HR 0%nat Htte) as H'.
    unfold mid_trip in *. apply orb_false_iff in Hm. destruct Hm as [He _].
    apply orb_false_iff. split.
    + unfold hempty in *. apply Z.eqb_neq in He. apply Z.eqb_neq.
      assert (Hs : fstart (getf (entries h') 0) = fstart (getf (entries h) 0)).
      { unfold getf. clear -HR. inversion HR as [|a b la lb Hab Hl]; subst; cbn [nth]; [reflexivity|apply R_fstart, Hab]. }
      rewrite Hs. exact He.
    + unfold is_end, getf. rewrite H'. reflexivity.
Qed.

(** any number of later updates (any parameters, any times) leave an ended trip ended *)
Fixpoint run_updates (h : hist) (us : list (thparams * Z)) : hist :=
  match us with
  | [] => h
  | (p, now) :: t => run_updates (match update h p now with inl (h', _, _) => h' | inr _ => h end) t
  end.

Theorem ended_trip_stays_ended us : forall (h : hist),
  length (entries h) = MaxFlights ->
  mid_trip h = false -> (oc h = 0%nat \/ et (getf (entries h) 0) = TTEnd) ->
  mid_trip (run_updates h us) = false.
Proof.
  induction us as [|[p now] t IH]; intros h Hl Hm Hc; cbn [run_updates]; [exact Hm|].
  pose proof (update_result_closed_or_error h p now Hl Hm Hc) as H.
  destruct (update h p now) as [[[h' dy] fy]|e] eqn:Eu.
  - destruct H as [Hm' Hoc']. apply IH; auto. eapply update_keeps_length; eauto.
  - apply IH; auto.
Qed.

(** oldestChange stays a valid index *)
Lemma apply_op_oc (h : hist) o : (oc h < MaxFlights)%nat -> length (entries h) = MaxFlights ->
  (oc (apply_op h o) < MaxFlights)%nat.
Proof.
  intros Hoc Hl. destruct o as [f|f|p now| |]; cbn [apply_op].
  - unfold add_flight. destruct (Nat.leb_spec MaxFlights (older_index (entries h) f)); [exact Hoc|]. cbn [oc].
    destruct (Nat.ltb_spec (oc h) (older_index (entries h) f)); [lia|].
    destruct (Nat.ltb_spec (oc h) (MaxFlights - 1)); unfold MaxFlights in *; lia.
  - unfold remove_flight. destruct (Nat.leb MaxFlights (older_index (entries h) f)); [exact Hoc|].
    destruct (remove_scan _ _ _ _) as [i|] eqn:Es; [|exact Hoc].
    destruct (negb (flight_eqb (getf (entries h) i) f)); [exact Hoc|]. cbn [oc].
    assert (Hi : (i < MaxFlights)%nat).
    { clear -Es. revert Es. generalize (older_index (entries h) f). generalize (S MaxFlights).
      induction n as [|k IH]; intros j; cbn [remove_scan]; [discriminate|].
      destruct (Nat.leb_spec MaxFlights j); [discriminate|].
      destruct (_ && _); [apply IH|]. intros E; injection E as <-. assumption. }
    destruct (Nat.leb_spec (oc h) i); lia.
  - destruct (update h p now) as [[[h' dy] fy]|e] eqn:Eu; [|exact Hoc].
    destruct (update_R h p now h' dy fy Hl Eu) as [_ ->]. unfold MaxFlights. lia.
  - unfold end_trip_op. destruct (hempty h); [exact Hoc|]. unfold set_head_et. destruct (entries h); exact Hoc.
  - unfold reopen_trip_op. destruct (hempty h); [exact Hoc|]. destruct (negb _); [exact Hoc|].
    unfold set_head_et. destruct (entries h); exact Hoc.
Qed.

Theorem reachable_oc (ops : list (@thop N)) : Forall op_ok ops ->
  (oc (fold_left apply_op ops empty_hist) < MaxFlights)%nat.
Proof.
  intros H.
  assert (G : forall h, ordered h -> (oc h < MaxFlights)%nat ->
              (oc (fold_left apply_op ops h) < MaxFlights)%nat).
  { induction H as [|o t Ho Ht IH]; intros h Hh Hoc; cbn [fold_left]; [exact Hoc|].
    apply IH; [apply apply_op_ordered; auto|apply apply_op_oc; [exact Hoc|apply Hh]]. }
  apply G; [apply empty_hist_ordered|cbn; unfold MaxFlights; lia].
Qed.

End WithNum.

(** the limits theorem stated over reachable histories *)
Theorem reachable_update_enforces_limits {N : NumOps} (ops : list (@thop N)) p now h' dy fy :
  Forall op_ok ops ->
  update (fold_left apply_op ops empty_hist) p now = inl (h', dy, fy) ->
  mid_trip h' = true ->
  days_between (open_start (entries h')) now <= TripLength p /\
  open_count (entries h') < FlightsInTrip p.
Proof.
  intros Hok. apply update_enforces_limits; [apply reachable_ordered, Hok|apply reachable_oc, Hok].
Qed.

Theorem reachable_ended_stays_ended {N : NumOps} (ops : list (@thop N)) us :
  Forall op_ok ops ->
  let h := fold_left apply_op ops empty_hist in
  mid_trip h = false -> (oc h = 0%nat \/ et (getf (entries h) 0) = TTEnd) ->
  mid_trip (run_updates h us) = false.
Proof.
  intros Hok h Hm Hc. apply ended_trip_stays_ended; auto. apply (reachable_ordered ops Hok).
Qed.
