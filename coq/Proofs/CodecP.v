(** C13: every hand-written codec decodes what it encoded, for all well-formed values. *)
From Coq Require Import ZArith List Bool Arith Lia.
From Flap Require Import Model.Search Model.Codec Proofs.SearchP.
Import ListNotations.
Open Scope Z_scope.

(** round trip: decoding the encoding followed by anything returns the value and that rest *)
Definition rt {A} (enc : A -> bytes) (dec : decoder A) (ok : A -> Prop) : Prop :=
  forall a r, ok a -> dec (enc a ++ r) = Some (a, r).

Lemma le_length n x : length (le n x) = n.
Proof. revert x; induction n as [|n IH]; intros x; cbn [le length]; [reflexivity|]. rewrite IH. reflexivity. Qed.

Lemma unle_le n : forall x, 0 <= x < 256 ^ Z.of_nat n -> unle (le n x) = x.
Proof.
  induction n as [|n IH]; intros x H; cbn [le unle].
  - cbn in H. lia.
  - rewrite Nat2Z.inj_succ, Z.pow_succ_r in H by lia.
    rewrite IH; [pose proof (Z.div_mod x 256 ltac:(lia)); lia|].
    split; [apply Z.div_pos; lia|apply Z.div_lt_upper_bound; lia].
Qed.

Lemma take_app n (h r : bytes) : length h = n -> take n (h ++ r) = Some (h, r).
Proof.
  intros H. subst n. unfold take. rewrite app_length. destruct (Nat.leb_spec (length h) (length h + length r)); [|lia].
  rewrite firstn_app, skipn_app, firstn_all, skipn_all, Nat.sub_diag. cbn. rewrite app_nil_r. reflexivity.
Qed.

Definition U (n : nat) (x : Z) : Prop := 0 <= x < 256 ^ Z.of_nat n.
Definition Sg (n : nat) (x : Z) : Prop := - (256 ^ Z.of_nat n / 2) <= x < 256 ^ Z.of_nat n / 2.

Lemma rt_u n : rt (enc_u n) (dec_u n) (U n).
Proof.
  intros x r H. unfold dec_u, enc_u. rewrite take_app by apply le_length. rewrite unle_le by exact H. reflexivity.
Qed.

Lemma pow256_even n : (1 <= n)%nat -> 256 ^ Z.of_nat n = 2 * (256 ^ Z.of_nat n / 2) /\ 0 < 256 ^ Z.of_nat n / 2.
Proof.
  intros H. destruct n as [|n]; [lia|]. rewrite Nat2Z.inj_succ, Z.pow_succ_r by lia.
  assert (0 < 256 ^ Z.of_nat n) by (apply Z.pow_pos_nonneg; lia).
  replace (256 * 256 ^ Z.of_nat n) with ((128 * 256 ^ Z.of_nat n) * 2) by lia. rewrite Z.div_mul by lia. lia.
Qed.

Lemma rt_s n : (1 <= n)%nat -> rt (enc_s n) (dec_s n) (Sg n).
Proof.
  intros Hn x r H. unfold dec_s, enc_s, Sg in *. destruct (pow256_even n Hn) as [He Hp].
  set (M := 256 ^ Z.of_nat n) in *.
  assert (HM : 0 <= x mod M < M) by (apply Z.mod_pos_bound; lia).
  change (le n (x mod M)) with (enc_u n (x mod M)). rewrite (rt_u n (x mod M) r HM).
  destruct (Z.ltb_spec (x mod M) (M / 2)) as [Hlt|Hge]; f_equal; f_equal.
  - destruct (Z.lt_ge_cases x 0) as [Hneg|Hpos].
    + rewrite <- (Z.mod_add x 1 M) in Hlt by lia. rewrite Z.mod_small in Hlt by lia. lia.
    + rewrite Z.mod_small in * by lia. reflexivity.
  - destruct (Z.lt_ge_cases x 0) as [Hneg|Hpos].
    + rewrite <- (Z.mod_add x 1 M) by lia. rewrite Z.mod_small by lia. lia.
    + rewrite Z.mod_small in Hge by lia. lia.
Qed.

Definition ok_pair {A B} (oa : A -> Prop) (ob : B -> Prop) (p : A * B) : Prop := oa (fst p) /\ ob (snd p).

Lemma rt_pair {A B} ea da oa eb db ob : @rt A ea da oa -> @rt B eb db ob ->
  rt (enc_pair ea eb) (dec_pair da db) (ok_pair oa ob).
Proof.
  intros Ha Hb [a b] r [Hoa Hob]. unfold enc_pair, dec_pair. cbn [fst snd] in *.
  rewrite <- app_assoc, (Ha a _ Hoa), (Hb b _ Hob). reflexivity.
Qed.

Lemma rt_seq {A} ea da (oa : A -> Prop) : rt ea da oa ->
  forall l r, Forall oa l -> dec_seq da (length l) (enc_seq ea l ++ r) = Some (l, r).
Proof.
  intros Ha. induction l as [|x t IH]; intros r Hl; cbn [enc_seq dec_seq length]; [reflexivity|].
  inversion Hl as [|? ? Hx Ht]; subst. rewrite <- app_assoc, (Ha x _ Hx), (IH r Ht). reflexivity.
Qed.

Definition ok_list {A} (oa : A -> Prop) (l : list A) : Prop := Z.of_nat (length l) < 2 ^ 31 /\ Forall oa l.

Lemma rt_list32 {A} ea da (oa : A -> Prop) : rt ea da oa -> rt (enc_list32 ea) (dec_list32 da) (ok_list oa).
Proof.
  intros Ha l r [Hlen Hl]. unfold enc_list32, dec_list32. rewrite <- app_assoc.
  rewrite (rt_s 4 ltac:(lia) (Z.of_nat (length l))).
  - rewrite Nat2Z.id. apply (rt_seq ea da oa Ha); assumption.
  - unfold Sg. change (256 ^ Z.of_nat 4 / 2) with (2 ^ 31). lia.
Qed.

(** ---- well-formedness of wire values: every field within the range of its Go type ---- *)
Definition ok_flight : wflight -> Prop :=
  ok_pair (Sg 1) (ok_pair (U 8) (ok_pair (U 8) (ok_pair (U 4) (ok_pair (U 4) (U 8))))).
Definition ok_hist : whist -> Prop := ok_pair (ok_list ok_flight) (Sg 1).
Definition ok_promise : wpromise -> Prop :=
  ok_pair (U 8) (ok_pair (U 8) (ok_pair (U 8) (ok_pair (U 8) (ok_pair (U 8) (ok_pair (Sg 1) (U 8)))))).
Definition ok_tx : wtx -> Prop := ok_pair (U 8) (ok_pair (U 8) (U 1)).
Definition ok_traveller : wtraveller -> Prop :=
  ok_pair (U 1) (ok_pair (U 8) (ok_pair (U 9) (ok_pair (U 3)
    (ok_pair ok_hist (ok_pair (ok_list ok_promise) (ok_pair (ok_list ok_tx) (ok_pair ok_promise (U 8)))))))).
Definition ok_smooth : wsmooth -> Prop := ok_pair (Sg 4) (ok_pair (Sg 4) (ok_pair (ok_list (U 8)) (ok_list (U 8)))).
Definition ok_bestfit : wbestfit -> Prop := ok_pair ok_smooth (ok_pair (U 8) (ok_pair (U 8) (U 8))).
Definition ok_polyfit : wpolyfit -> Prop := ok_pair ok_smooth (ok_pair (U 8) (ok_pair (ok_list (U 8)) (U 4))).
Definition ok_correction : wcorrection -> Prop := ok_pair ok_smooth (ok_pair (U 8) (ok_pair ok_smooth (ok_pair (U 8) (U 8)))).
Definition ok_airport : wairport -> Prop := ok_pair (U 8) (U 8).
Definition ok_journey : wjourney -> Prop := ok_pair ok_flight (ok_pair (U 1) (Sg 8)).
Definition ok_modelstate : wmodelstate -> Prop := ok_pair (U 8) (ok_pair (U 8) (ok_pair (U 8) (U 8))).

Ltac rt_auto := repeat first [apply rt_pair | apply rt_list32 | apply rt_u | apply rt_s; lia].

Theorem rt_flight : rt enc_flight dec_flight ok_flight.       Proof. unfold enc_flight, dec_flight, ok_flight. rt_auto. Qed.
Theorem rt_hist : rt enc_hist dec_hist ok_hist.
Proof. unfold enc_hist, dec_hist, ok_hist. apply rt_pair; [apply rt_list32, rt_flight|apply rt_s; lia]. Qed.
Theorem rt_promise : rt enc_promise dec_promise ok_promise.   Proof. unfold enc_promise, dec_promise, ok_promise. rt_auto. Qed.
Theorem rt_promises : rt enc_promises dec_promises (ok_list ok_promise).  Proof. apply rt_list32, rt_promise. Qed.
Theorem rt_tx : rt enc_tx dec_tx ok_tx.                       Proof. unfold enc_tx, dec_tx, ok_tx. rt_auto. Qed.
Theorem rt_txs : rt enc_txs dec_txs (ok_list ok_tx).          Proof. apply rt_list32, rt_tx. Qed.
Theorem rt_traveller : rt enc_traveller dec_traveller ok_traveller.
Proof.
  unfold enc_traveller, dec_traveller, ok_traveller.
  repeat (apply rt_pair; [first [apply rt_u | apply rt_hist | apply rt_promises | apply rt_txs | apply rt_promise]|]). apply rt_u.
Qed.
Theorem rt_smooth : rt enc_smooth dec_smooth ok_smooth.       Proof. unfold enc_smooth, dec_smooth, ok_smooth. rt_auto. Qed.
Theorem rt_bestfit : rt enc_bestfit dec_bestfit ok_bestfit.
Proof. unfold enc_bestfit, dec_bestfit, ok_bestfit. apply rt_pair; [apply rt_smooth|rt_auto]. Qed.
Theorem rt_polyfit : rt enc_polyfit dec_polyfit ok_polyfit.
Proof. unfold enc_polyfit, dec_polyfit, ok_polyfit. apply rt_pair; [apply rt_smooth|rt_auto]. Qed.
Theorem rt_correction : rt enc_correction dec_correction ok_correction.
Proof.
  unfold enc_correction, dec_correction, ok_correction.
  apply rt_pair; [apply rt_smooth|]. apply rt_pair; [apply rt_u|]. apply rt_pair; [apply rt_smooth|rt_auto].
Qed.
Theorem rt_backfill : rt enc_backfill dec_backfill (U 8).     Proof. apply rt_u. Qed.
Theorem rt_airport : rt enc_airport dec_airport ok_airport.   Proof. unfold enc_airport, dec_airport, ok_airport. rt_auto. Qed.
Theorem rt_journey : rt enc_journey dec_journey ok_journey.
Proof. unfold enc_journey, dec_journey, ok_journey. apply rt_pair; [apply rt_flight|rt_auto]. Qed.
Theorem rt_plannerday : rt enc_plannerday dec_plannerday (ok_list ok_journey).  Proof. apply rt_list32, rt_journey. Qed.
Theorem rt_modelstate : rt enc_modelstate dec_modelstate ok_modelstate.
Proof. unfold enc_modelstate, dec_modelstate, ok_modelstate. rt_auto. Qed.

(** encoding is a function: the same value always yields the same bytes (determinism is definitional) *)
Lemma enc_deterministic {A} (enc : A -> bytes) a b : a = b -> enc a = enc b.
Proof. intros ->. reflexivity. Qed.

(** ---- arrays with a sentinel (flights: Start, promises: TripStart, transactions: Date) ---- *)
(** well-formed array: a prefix of entries with non-zero key, then only the all-zero entry *)
Definition sentinel_wf {A} (key : A -> Z) (d : A) (arr : list A) : Prop :=
  key d = 0 /\ exists m, (m <= length arr)%nat /\
    (forall i, (i < m)%nat -> key (nth i arr d) <> 0) /\ (forall i, (m <= i)%nat -> nth i arr d = d).

Theorem sentinel_roundtrip {A} (key : A -> Z) (d : A) (arr : list A) :
  sentinel_wf key d arr -> refill d (length arr) (cut_at_sentinel key d arr) = arr.
Proof.
  intros (Hd & m & Hm & Hnz & Hz). unfold cut_at_sentinel, refill.
  set (f := fun i : nat => key (nth i arr d) =? 0).
  assert (Hs : search (length arr) f = m).
  { apply search_unique.
    - intros a b Hab Hb Ha. unfold f in *. apply Z.eqb_eq in Ha. apply Z.eqb_eq.
      destruct (Nat.lt_ge_cases a m) as [H|H]; [specialize (Hnz a H); contradiction|]. rewrite Hz by lia. exact Hd.
    - exact Hm.
    - intros a Ha. unfold f. apply Z.eqb_neq. apply Hnz, Ha.
    - intros b Hb _. unfold f. apply Z.eqb_eq. rewrite Hz by lia. exact Hd. }
  rewrite Hs. rewrite firstn_length_le by exact Hm.
  apply nth_ext with (d := d) (d' := d).
  - rewrite app_length, firstn_length_le, repeat_length by exact Hm. lia.
  - intros i Hi. destruct (Nat.lt_ge_cases i m) as [H|H].
    + rewrite app_nth1 by (rewrite firstn_length_le; lia). clear -H. revert i m H.
      induction arr as [|x t IH]; intros [|i] [|m] H; cbn; auto; try lia. apply IH. lia.
    + rewrite app_nth2 by (rewrite firstn_length_le; lia). rewrite firstn_length_le by exact Hm.
      rewrite Hz by lia. apply nth_repeat.
Qed.

(** whatever the array holds, To() writes a prefix of it (an entry with a zero key in the middle
    cuts the list off: what is behind it is not stored) *)
Theorem sentinel_truncates {A} (key : A -> Z) (d : A) (arr : list A) :
  exists n, (n <= length arr)%nat /\ cut_at_sentinel key d arr = firstn n arr.
Proof. eexists. split; [|reflexivity]. apply search_range. Qed.
