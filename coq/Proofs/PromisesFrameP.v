(** C20: what an accepted proposal does to the promises that are already in the book (frame facts:
    which entries move, whose clearance date can change and to what), and positivity of every
    clearance date under a predictor whose answers are day numbers in range. *)
From Coq Require Import ZArith List Bool Arith Lia.
From Flap Require Import Model.Num Model.Search Model.TripHistory Model.Promises Proofs.SearchP Proofs.PromisesP.
Import ListNotations.
Open Scope Z_scope.

Section WithNum.
Context {N : NumOps}.
Local Notation K := (K N).
Local Notation promise := (promise N).
Local Notation book := (book N).
Local Notation predictor := (predictor N).

(** start of the day of [t], as [updateStackEntry] computes it *)
Definition day_start (t : Z) : Z := days_to_time (to_epoch_days t false).

Lemma day_start_pos t : SecondsInDay <= t < tmax -> 0 < day_start t <= t.
Proof.
  intros H. unfold day_start, days_to_time, to_epoch_days, two64, SecondsInDay, tmax in *.
  assert (H0 : 1 <= t / 86400) by (apply Z.div_le_lower_bound; lia).
  assert (H1 : t / 86400 <= t) by (apply Z.div_le_upper_bound; lia).
  rewrite (Z.mod_small (t / 86400)) by lia.
  assert (H2 : t / 86400 * 86400 <= t) by (pose proof (Z.mul_div_le t 86400 ltac:(lia)); lia).
  rewrite Z.mod_small by lia. lia.
Qed.

(** a day number whose start is a positive 64-bit time *)
Definition day_ok (c : Z) : Prop := 1 <= c /\ c * SecondsInDay < two64.
Definition pred_ok (pr : predictor) : Prop := forall d s c, pr_predict pr d s = Some c -> day_ok c.

Lemma days_to_time_pos c : day_ok c -> 0 < days_to_time c.
Proof.
  intros [H1 H2]. unfold days_to_time, two64, SecondsInDay in *.
  rewrite (Z.mod_small c) by lia. rewrite Z.mod_small by lia. lia.
Qed.

Lemma fallback_day_ok te : 0 <= te < tmax -> day_ok (to_epoch_days te false + 1).
Proof.
  intros H. unfold day_ok, to_epoch_days, two64, SecondsInDay, tmax in *.
  assert (H0 : 0 <= te / 86400) by (apply Z.div_pos; lia).
  pose proof (Z.mul_div_le te 86400 ltac:(lia)). split; lia.
Qed.

Lemma wfp_core (p q : promise) : core p = core q -> wfp q -> wfp p.
Proof. intros E. destruct (core_ts _ _ E) as [E1 E2]. unfold wfp. rewrite E1, E2. auto. Qed.

(** ---- updateStackEntry: cores, and the clearance date it gives the newer entry ---- *)
Lemma use_core (b b1 : book) j (pr : predictor) mx :
  length b = MaxPromises -> update_stack_entry b j pr mx = inl b1 -> forall m, core (getp b1 m) = core (getp b m).
Proof.
  intros Hl Eu m. destruct (use_spec b b1 j pr mx Hl Eu) as (Hj & Hl1 & Hoth & Cj & Cn & _).
  destruct (Nat.eq_dec m j) as [->|H1]; [exact Cj|].
  destruct (Nat.eq_dec m (j - 1)) as [->|H2]; [exact Cn|]. rewrite Hoth by assumption. reflexivity.
Qed.

Lemma use_map_core (b b1 : book) j (pr : predictor) mx :
  length b = MaxPromises -> update_stack_entry b j pr mx = inl b1 -> map core b1 = map core b.
Proof.
  intros Hl Eu. destruct (use_spec b b1 j pr mx Hl Eu) as (_ & Hl1 & _).
  apply nth_ext with (d := core empty_promise) (d' := core empty_promise); [rewrite !map_length; congruence|].
  intros m Hm. rewrite !map_nth. exact (use_core b b1 j pr mx Hl Eu m).
Qed.

Lemma use_newer_clear (b b' : book) i (pr : predictor) mx :
  length b = MaxPromises -> update_stack_entry b i pr mx = inl b' ->
  exists c, p_clear (getp b' (i - 1)) = days_to_time c /\
    ((exists d s, pr_predict pr d s = Some c) \/ c = to_epoch_days (p_te (getp b (i - 1))) false + 1).
Proof.
  intros Hl. unfold update_stack_entry.
  destruct (Nat.eqb_spec i 0) as [->|Hi0]; [discriminate|]. cbn [orb].
  destruct (Nat.ltb_spec (MaxPromises - 1) i) as [Hbig|Hi9]; [discriminate|].
  unfold MaxPromises in *.
  set (cd := to_epoch_days (p_ts (getp b (i - 1))) false).
  set (b1 := setp b i (set_clear_bf (getp b i) (days_to_time cd))).
  assert (Hl1 : length b1 = 10%nat) by (unfold b1; rewrite setp_length; exact Hl).
  assert (G1o : forall j, j <> i -> getp b1 j = getp b j) by (intros j Hj; apply getp_setp_other; lia).
  set (chk := if Nat.ltb i (10 - 1) then _ else _).
  destruct chk as [last|]; [|discriminate].
  set (b2 := setp b1 i (set_stack (getp b1 i) (last + 1))).
  assert (Hl2 : length b2 = 10%nat) by (unfold b2; rewrite setp_length; exact Hl1).
  assert (G2o : forall j, j <> i -> getp b2 j = getp b1 j) by (intros j Hj; apply getp_setp_other; lia).
  set (distdone := match pr_backfilled pr _ _ with Some d => d | None => k0 N end).
  set (b3 := setp b2 (i - 1) (set_carried (getp b2 (i - 1)) (ksub N (tobackfill (getp b2 i)) distdone))).
  assert (Hl3 : length b3 = 10%nat) by (unfold b3; rewrite setp_length; exact Hl2).
  assert (G3n : getp b3 (i - 1) = set_carried (getp b2 (i - 1)) (ksub N (tobackfill (getp b2 i)) distdone)) by (apply getp_setp_same; lia).
  intros E. injection E as <-.
  rewrite getp_setp_same by lia. cbn [p_clear set_clear].
  assert (Hte : p_te (getp b3 (i - 1)) = p_te (getp b (i - 1))).
  { rewrite G3n. cbn [p_te set_carried]. rewrite (G2o (i - 1)%nat), (G1o (i - 1)%nat) by lia. reflexivity. }
  match goal with |- context [pr_predict pr ?a ?s] => destruct (pr_predict pr a s) as [c|] eqn:Ep end.
  - exists c. split; [reflexivity|]. left. eauto.
  - eexists. split; [reflexivity|]. right. rewrite <- Hte. reflexivity.
Qed.

(** ---- the downward loop of restack leaves every older entry alone ---- *)
Lemma loop_frame (pr : predictor) mx : forall fuel (b b' : book) j, length b = MaxPromises ->
  restack_loop fuel b j pr mx = inl b' ->
  length b' = MaxPromises /\ (forall m, core (getp b' m) = core (getp b m)) /\
  forall m, (j < m)%nat -> getp b' m = getp b m.
Proof.
  induction fuel as [|f IH]; intros b b' j Hl; cbn [restack_loop].
  - intros E; injection E as <-. auto.
  - destruct (Nat.ltb 0 j && (p_ts (getp b (j - 1)) <=? p_clear (getp b j))) eqn:Ec.
    + destruct (update_stack_entry b j pr mx) as [b1|er] eqn:Eu; [|discriminate].
      destruct (use_spec b b1 j pr mx Hl Eu) as (Hj & Hl1 & Hoth & _).
      intros E. destruct (IH b1 b' (j - 1)%nat Hl1 E) as (A & B & C).
      split; [exact A|]. split; [intros m; rewrite B; exact (use_core b b1 j pr mx Hl Eu m)|].
      intros m Hm. rewrite C by lia. apply Hoth; lia.
    + intros E; injection E as <-. auto.
Qed.

(** ---- positivity of clearance dates ---- *)
Definition Pos (b : book) : Prop := forall i, (i < MaxPromises)%nat -> p_ts (getp b i) <> 0 ->
  SecondsInDay <= p_ts (getp b i) /\ 0 < p_clear (getp b i).

Definition posb (b : book) : bool :=
  forallb (fun i => (p_ts (getp b i) =? 0) || ((SecondsInDay <=? p_ts (getp b i)) && (0 <? p_clear (getp b i)))) (seq 0 MaxPromises).

Lemma posb_spec (b : book) : posb b = true -> Pos b.
Proof.
  unfold posb. rewrite forallb_forall. intros H i Hi Hne. specialize (H i ltac:(apply in_seq; lia)).
  apply orb_true_iff in H. destruct H as [H|H]; [apply Z.eqb_eq in H; contradiction|].
  apply andb_true_iff in H. destruct H as [H1 H2]. apply Z.leb_le in H1. apply Z.ltb_lt in H2. split; assumption.
Qed.

Definition Wf (b : book) : Prop := forall i, (i < MaxPromises)%nat -> wfp (getp b i).

Lemma Pos_empty : Pos empty_book.
Proof. intros i Hi H. rewrite getp_empty_book in H. cbn in H. contradiction. Qed.

Lemma Pos_step mx (b b1 : book) j (pr : predictor) :
  length b = MaxPromises -> pred_ok pr -> Pos b -> Wf b -> p_ts (getp b (j - 1)) <> 0 ->
  update_stack_entry b j pr mx = inl b1 -> Pos b1.
Proof.
  intros Hl Hpr HP Hwf Hne Eu.
  destruct (use_spec b b1 j pr mx Hl Eu) as (Hj & Hl1 & Hoth & Cj & Cn & Hclr & _).
  destruct (use_newer_clear b b1 j pr mx Hl Eu) as (c & Ec & Hc).
  assert (Hjm : (j - 1 < MaxPromises)%nat) by (unfold MaxPromises; lia).
  intros m Hm Hts.
  destruct (core_ts _ _ (use_core b b1 j pr mx Hl Eu m)) as [E1 E2]. rewrite E1 in *.
  destruct (Nat.eq_dec m j) as [->|H1].
  - split; [apply (HP j Hm Hts)|]. rewrite Hclr.
    destruct (HP (j - 1)%nat Hjm Hne) as [Hbig _]. destruct (Hwf (j - 1)%nat Hjm) as [[_ Hlt] _].
    apply (day_start_pos (p_ts (getp b (j - 1)))). lia.
  - destruct (Nat.eq_dec m (j - 1)) as [->|H2].
    + split; [apply (HP (j - 1)%nat Hm Hts)|]. rewrite Ec. apply days_to_time_pos.
      destruct Hc as [(d & s & Hp)| ->]; [exact (Hpr d s c Hp)|].
      apply fallback_day_ok. destruct (Hwf (j - 1)%nat Hjm) as [[W0 _] W]. specialize (W Hne). lia.
    + rewrite Hoth by assumption. apply (HP m Hm Hts).
Qed.

Lemma Wf_cores (b b1 : book) : (forall m, core (getp b1 m) = core (getp b m)) -> Wf b -> Wf b1.
Proof. intros Hc Hw i Hi. eapply wfp_core; [apply Hc|apply Hw, Hi]. Qed.

Lemma Pos_loop mx (pr : predictor) : pred_ok pr -> forall fuel (b b' : book) j,
  length b = MaxPromises -> Pos b -> Wf b -> (forall m, (m < j)%nat -> p_ts (getp b m) <> 0) ->
  restack_loop fuel b j pr mx = inl b' -> Pos b'.
Proof.
  intros Hpr. induction fuel as [|f IH]; intros b b' j Hl HP Hwf Hne; cbn [restack_loop].
  - intros E; injection E as <-. exact HP.
  - destruct (Nat.ltb_spec 0 j) as [Hpos|Hz]; cbn [andb]; [|intros E; injection E as <-; exact HP].
    destruct (p_ts (getp b (j - 1)) <=? p_clear (getp b j)); [|intros E; injection E as <-; exact HP].
    destruct (update_stack_entry b j pr mx) as [b1|er] eqn:Eu; [|discriminate].
    destruct (use_spec b b1 j pr mx Hl Eu) as (Hj & Hl1 & _).
    pose proof (use_core b b1 j pr mx Hl Eu) as Hc.
    intros E. apply (IH b1 b' (j - 1)%nat Hl1); [| | |exact E].
    + exact (Pos_step mx b b1 j pr Hl Hpr HP Hwf (Hne (j - 1)%nat ltac:(lia)) Eu).
    + eapply Wf_cores; eauto.
    + intros m Hm. destruct (core_ts _ _ (Hc m)) as [-> _]. apply Hne. lia.
Qed.

(** ---- the structure of an accepted proposal ---- *)
Lemma propose_unfold mx (b : book) ts te d tr now (pr : predictor) pp :
  Inv mx b -> propose b ts te d tr now pr mx = inl pp ->
  exists i clr b1,
    (i < MaxPromises)%nat /\ ts < te /\ now <= ts /\ ts <> 0 /\
    (p_ts (getp b (MaxPromises - 1)) <> 0 ->
       p_te (getp b (MaxPromises - 1)) < now /\ p_clear (getp b (MaxPromises - 1)) < now) /\
    (forall a, (a < i)%nat -> ts < p_ts (getp b a)) /\
    (forall c, (i <= c)%nat -> (c < MaxPromises)%nat -> p_ts (getp b c) <= ts) /\
    p_te (getp b i) < ts /\ ((0 < i)%nat -> te < p_ts (getp b (i - 1))) /\
    ((exists dd s, pr_predict pr dd s = Some clr) \/ clr = to_epoch_days te false + 1) /\
    let p := {| p_ts := ts; p_te := te; p_dist := d; p_trav := tr; p_clear := days_to_time clr;
                p_stack := 0; p_carried := k0 N; p_bf := false |} in
    let b0 := insert_at b i p in
    (b1 = b0 \/ ((i < MaxPromises - 1)%nat /\ update_stack_entry b0 (i + 1) pr mx = inl b1)) /\
    restack_loop (S MaxPromises) b1 i pr mx = inl (pp_entries pp).
Proof.
  intros [Hl Hwf Hsep Hadj Hst]. unfold propose.
  destruct (Z.leb_spec te ts) as [|Hte]; [discriminate|].
  destruct (kleb N d (k0 N)); [discriminate|].
  destruct (Z.ltb_spec ts now) as [|Hnow]; [discriminate|].
  destruct (Z.eqb_spec ts 0) as [|Hts0]; [discriminate|].
  destruct (((now <=? p_te (getp b (MaxPromises - 1))) || (now <=? p_clear (getp b (MaxPromises - 1)))) && (0 <? p_ts (getp b (MaxPromises - 1)))) eqn:Hroom; [discriminate|].
  set (clr := match pr_predict pr d _ with Some c => c | None => _ end).
  set (p := {| p_ts := ts; p_te := te; p_dist := d; p_trav := tr; p_clear := days_to_time clr; p_stack := 0; p_carried := k0 N; p_bf := false |}).
  set (f := fun i0 : nat => p_ts (getp b i0) <=? ts).
  assert (Hmono : monotone MaxPromises f).
  { intros a c Hac Hc Ha. unfold f in *. apply Z.leb_le in Ha. apply Z.leb_le.
    destruct (Nat.eq_dec a c) as [->|Hne]; [exact Ha|].
    destruct (Z.eq_dec (p_ts (getp b c)) 0) as [E|E]; [destruct (Hwf a ltac:(lia)) as [[W0 _] _]; lia|].
    pose proof (Hsep a c ltac:(lia) Hc E). destruct (Hwf c Hc) as [_ W]. specialize (W E). lia. }
  destruct (search_spec _ _ Hmono) as (_ & Slo & Shi).
  set (i := search MaxPromises f) in *.
  destruct (Nat.leb_spec MaxPromises i) as [|Hi]; [discriminate|].
  destruct (Z.leb_spec ts (p_te (getp b i))) as [|Hprev]; [discriminate|].
  destruct (Nat.ltb 0 i && (p_ts (getp b (i - 1)) <=? te)) eqn:Hnx; [discriminate|].
  fold (insert_at b i p). set (b0 := insert_at b i p).
  unfold restack.
  set (r1 := if Nat.ltb i (MaxPromises - 1) && (p_ts (getp b0 i) <=? p_clear (getp b0 (i + 1)))
             then update_stack_entry b0 (i + 1) pr mx else inl b0).
  destruct r1 as [b1|er] eqn:Er1; [|discriminate].
  destruct (restack_loop (S MaxPromises) b1 i pr mx) as [b2|er] eqn:Eloop; [|discriminate].
  intros E. injection E as <-. cbn [pp_entries].
  exists i, clr, b1.
  split; [exact Hi|]. split; [exact Hte|]. split; [exact Hnow|]. split; [exact Hts0|].
  split.
  { intros Hne. apply andb_false_iff in Hroom. destruct Hroom as [H|H];
      [apply orb_false_iff in H; destruct H as [Hr1 Hr2]; apply Z.leb_gt in Hr1; apply Z.leb_gt in Hr2; split; assumption|].
    apply Z.ltb_ge in H. destruct (Hwf (MaxPromises - 1)%nat ltac:(unfold MaxPromises; lia)) as [[W _] _]. lia. }
  split; [intros a Ha; specialize (Slo a Ha); unfold f in Slo; apply Z.leb_gt in Slo; exact Slo|].
  split; [intros c Hc1 Hc2; specialize (Shi c Hc1 Hc2); unfold f in Shi; apply Z.leb_le in Shi; exact Shi|].
  split; [exact Hprev|].
  split; [intros Hpos; destruct (Nat.ltb_spec 0 i) as [_|C]; [|lia]; cbn [andb] in Hnx; apply Z.leb_gt in Hnx; exact Hnx|].
  split.
  { unfold clr. destruct (pr_predict pr d (to_epoch_days te true)) as [c|] eqn:Ep; [left; eauto|right; reflexivity]. }
  split; [|exact Eloop].
  unfold r1 in Er1.
  destruct (Nat.ltb_spec i (MaxPromises - 1)) as [Hi9|Hi9]; cbn [andb] in Er1.
  - destruct (p_ts (getp b0 i) <=? p_clear (getp b0 (i + 1))); [right; split; [exact Hi9|exact Er1]|].
    left. injection Er1 as <-. reflexivity.
  - left. injection Er1 as <-. reflexivity.
Qed.

(** THE frame theorem: the new promise sits at index [i]; newer promises keep their place, older ones
    move up by one with their trip data; the entries older than the one next to the new promise are
    not touched at all, and that one either keeps its clearance date or has it brought forward to the
    start of the day of the new trip; the oldest promise is dropped only after its clearance date *)
Theorem propose_frame mx (b : book) ts te d tr now (pr : predictor) pp :
  Inv mx b -> propose b ts te d tr now pr mx = inl pp ->
  exists i, (i < MaxPromises)%nat /\ now <= ts /\ ts <> 0 /\
    core (getp (pp_entries pp) i) = (ts, te, d, tr) /\
    (forall m, (m < i)%nat -> core (getp (pp_entries pp) m) = core (getp b m) /\ ts < p_ts (getp b m)) /\
    (forall m, (i <= m)%nat -> (S m < MaxPromises)%nat -> core (getp (pp_entries pp) (S m)) = core (getp b m)) /\
    (forall m, (i < m)%nat -> (S m < MaxPromises)%nat -> getp (pp_entries pp) (S m) = getp b m) /\
    ((S i < MaxPromises)%nat ->
       p_clear (getp (pp_entries pp) (S i)) = p_clear (getp b i) \/
       p_clear (getp (pp_entries pp) (S i)) = day_start ts) /\
    (p_ts (getp b (MaxPromises - 1)) <> 0 -> p_clear (getp b (MaxPromises - 1)) < now).
Proof.
  intros HI Ep. pose proof HI as [Hl Hwf Hsep Hadj Hst].
  destruct (propose_unfold mx b ts te d tr now pr pp HI Ep)
    as (i & clr & b1 & Hi & Hte & Hnow & Hts0 & Hdrop & Hlo & Hhi & Hprev & Hnext & Hclr & Hb1 & Eloop).
  cbn zeta in Hb1.
  set (p := {| p_ts := ts; p_te := te; p_dist := d; p_trav := tr; p_clear := days_to_time clr; p_stack := 0; p_carried := k0 N; p_bf := false |}) in *.
  set (b0 := insert_at b i p) in *.
  assert (Hl0 : length b0 = MaxPromises) by (apply insert_at_length; assumption).
  assert (G : forall m, (m < MaxPromises)%nat ->
              getp b0 m = if (m <? i)%nat then getp b m else if (m =? i)%nat then p else getp b (m - 1)).
  { intros m Hm. apply getp_insert_at; assumption. }
  (* the first step *)
  assert (H1 : length b1 = MaxPromises /\ (forall m, core (getp b1 m) = core (getp b0 m)) /\
               (forall m, (i + 1 < m)%nat -> getp b1 m = getp b0 m) /\
               (p_clear (getp b1 (i + 1)) = p_clear (getp b0 (i + 1)) \/ p_clear (getp b1 (i + 1)) = day_start ts)).
  { destruct Hb1 as [->|[Hi9 Eu]]; [auto|].
    destruct (use_spec b0 b1 (i + 1)%nat pr mx Hl0 Eu) as (_ & Hl1 & Hoth & _ & _ & Hc & _).
    split; [exact Hl1|]. split; [exact (use_core b0 b1 (i + 1)%nat pr mx Hl0 Eu)|].
    split; [intros m Hm; apply Hoth; lia|]. right. rewrite Hc.
    replace (i + 1 - 1)%nat with i by lia. rewrite (G i Hi), Nat.ltb_irrefl, Nat.eqb_refl. reflexivity. }
  destruct H1 as (Hl1 & Hc1 & Hf1 & Hcl1).
  destruct (loop_frame pr mx (S MaxPromises) b1 (pp_entries pp) i Hl1 Eloop) as (Hl2 & Hc2 & Hf2).
  assert (Hcore : forall m, core (getp (pp_entries pp) m) = core (getp b0 m)) by (intros m; rewrite Hc2; apply Hc1).
  exists i. split; [exact Hi|]. split; [exact Hnow|]. split; [exact Hts0|].
  split; [rewrite Hcore, (G i Hi), Nat.ltb_irrefl, Nat.eqb_refl; reflexivity|].
  split.
  { intros m Hm. split; [|apply Hlo, Hm]. rewrite Hcore, (G m ltac:(lia)).
    destruct (Nat.ltb_spec m i); [reflexivity|lia]. }
  split.
  { intros m Hm1 Hm2. rewrite Hcore, (G (S m) Hm2).
    destruct (Nat.ltb_spec (S m) i); [lia|]. destruct (Nat.eqb_spec (S m) i); [lia|].
    replace (S m - 1)%nat with m by lia. reflexivity. }
  split.
  { intros m Hm1 Hm2. rewrite Hf2 by lia. rewrite Hf1 by lia. rewrite (G (S m) Hm2).
    destruct (Nat.ltb_spec (S m) i); [lia|]. destruct (Nat.eqb_spec (S m) i); [lia|].
    replace (S m - 1)%nat with m by lia. reflexivity. }
  split; [|intros Hne; apply (Hdrop Hne)].
  intros HSi. rewrite Hf2 by lia. replace (S i) with (i + 1)%nat by lia.
  destruct Hcl1 as [E|E]; [left|right; exact E].
  rewrite E, (G (i + 1)%nat ltac:(lia)).
  destruct (Nat.ltb_spec (i + 1) i); [lia|]. destruct (Nat.eqb_spec (i + 1) i); [lia|].
  replace (i + 1 - 1)%nat with i by lia. reflexivity.
Qed.

(** every clearance date in the book stays positive *)
Theorem propose_pos mx (b : book) ts te d tr now (pr : predictor) pp :
  SecondsInDay <= now -> te < tmax -> Inv mx b -> Pos b -> pred_ok pr ->
  propose b ts te d tr now pr mx = inl pp -> Pos (pp_entries pp).
Proof.
  intros Hday Htmax HI HP Hpr Ep. pose proof HI as [Hl Hwf Hsep Hadj Hst].
  destruct (propose_unfold mx b ts te d tr now pr pp HI Ep)
    as (i & clr & b1 & Hi & Hte & Hnow & Hts0 & Hdrop & Hlo & Hhi & Hprev & Hnext & Hclr & Hb1 & Eloop).
  cbn zeta in Hb1.
  set (p := {| p_ts := ts; p_te := te; p_dist := d; p_trav := tr; p_clear := days_to_time clr; p_stack := 0; p_carried := k0 N; p_bf := false |}) in *.
  set (b0 := insert_at b i p) in *.
  assert (Hl0 : length b0 = MaxPromises) by (apply insert_at_length; assumption).
  assert (G : forall m, (m < MaxPromises)%nat ->
              getp b0 m = if (m <? i)%nat then getp b m else if (m =? i)%nat then p else getp b (m - 1)).
  { intros m Hm. apply getp_insert_at; assumption. }
  assert (Hsd : SecondsInDay = 86400) by reflexivity.
  assert (Hwp : wfp p). { unfold wfp, p, tmax in *. cbn. split; [lia|intros _; lia]. }
  assert (Hclr_ok : day_ok clr).
  { destruct Hclr as [(dd & s & Hp)| ->]; [exact (Hpr dd s clr Hp)|]. apply fallback_day_ok. unfold tmax in *. lia. }
  assert (HP0 : Pos b0).
  { intros m Hm. rewrite (G m Hm). destruct (m <? i)%nat; [apply HP, Hm|]. destruct (m =? i)%nat.
    - intros _. cbn [p p_ts p_clear]. split; [lia|apply days_to_time_pos, Hclr_ok].
    - destruct m as [|m']; [apply HP, Hm|]. replace (S m' - 1)%nat with m' by lia. apply HP. lia. }
  assert (HW0 : Wf b0).
  { intros m Hm. rewrite (G m Hm). destruct (m <? i)%nat; [apply Hwf, Hm|]. destruct (m =? i)%nat; [exact Hwp|].
    destruct m as [|m']; [apply Hwf, Hm|]. replace (S m' - 1)%nat with m' by lia. apply Hwf. lia. }
  assert (Hne0 : forall m, (m <= i)%nat -> p_ts (getp b0 m) <> 0).
  { intros m Hm. rewrite (G m ltac:(lia)). destruct (Nat.ltb_spec m i) as [Hlt|Hge].
    - specialize (Hlo m Hlt). lia.
    - destruct (Nat.eqb_spec m i); [cbn [p p_ts]; exact Hts0|lia]. }
  assert (H1 : length b1 = MaxPromises /\ Pos b1 /\ (forall m, core (getp b1 m) = core (getp b0 m))).
  { destruct Hb1 as [->|[Hi9 Eu]]; [auto|].
    destruct (use_spec b0 b1 (i + 1)%nat pr mx Hl0 Eu) as (_ & Hl1 & _).
    split; [exact Hl1|]. split; [|exact (use_core b0 b1 (i + 1)%nat pr mx Hl0 Eu)].
    assert (Hnei : p_ts (getp b0 (i + 1 - 1)) <> 0) by (replace (i + 1 - 1)%nat with i by lia; apply Hne0; lia).
    exact (Pos_step mx b0 b1 (i + 1)%nat pr Hl0 Hpr HP0 HW0 Hnei Eu). }
  destruct H1 as (Hl1 & HP1 & Hc1).
  apply (Pos_loop mx pr Hpr (S MaxPromises) b1 (pp_entries pp) i Hl1 HP1); [| |exact Eloop].
  - eapply Wf_cores; eauto.
  - intros m Hm. destruct (core_ts _ _ (Hc1 m)) as [-> _]. apply Hne0. lia.
Qed.

End WithNum.
