(** Engine-level refusals of Propose and behaviour of Make (C10). *)
From Coq Require Import ZArith List Bool Lia.
From Flap Require Import Model.Num Model.TripHistory Model.Promises Model.Predictor Model.Engine.
Import ListNotations.
Open Scope Z_scope.

Section WithNum.
Context {N : NumOps}.

Lemma propose_disabled (e : engine N) k f fs te now :
  valid_predictor (a_pred (e_admin e)) = false ->
  engine_propose e k (f :: fs) te now = PrErr EPromisesNotEnabled.
Proof. intros H. unfold engine_propose. rewrite H. reflexivity. Qed.

Lemma propose_no_flights (e : engine N) k te now : engine_propose e k [] te now = PrErr EInvalidArg.
Proof. reflexivity. Qed.

Lemma propose_beyond_horizon (e : engine N) k f fs te now :
  valid_predictor (a_pred (e_admin e)) = true ->
  let ts := fold_left (fun m g => Z.min m (fstart g)) (f :: fs) max_epoch in
  pMaxDays (a_params (e_admin e)) < to_epoch_days ts true - to_epoch_days now false ->
  engine_propose e k (f :: fs) te now = PrErr ETripTooFarAhead.
Proof.
  intros Hv ts H. unfold engine_propose. rewrite Hv. cbn [negb]. fold ts.
  destruct (Z.ltb_spec (pMaxDays (a_params (e_admin e))) (to_epoch_days ts true - to_epoch_days now false)); [reflexivity|lia].
Qed.

Lemma failed_make_noop (e : engine N) k pp now :
  snd (engine_make e k pp now) <> None -> fst (engine_make e k pp now) = e.
Proof.
  unfold engine_make. destruct (negb _); [reflexivity|].
  destruct (make _ _ _); cbn [fst snd]; [intros C; contradiction|reflexivity].
Qed.

(** a successful Make installs exactly the proposed promises and touches nothing else of the record *)
Lemma make_installs_proposal (e : engine N) k pp now :
  snd (engine_make e k pp now) = None ->
  exists t, tget (e_table (fst (engine_make e k pp now))) k = Some t /\ t_book t = pp_entries pp /\
            t_hist t = t_hist (get_create e k now) /\ t_balance t = t_balance (get_create e k now) /\
            t_kept t = t_kept (get_create e k now) /\ t_txs t = t_txs (get_create e k now).
Proof.
  unfold engine_make. destruct (negb _); [discriminate|].
  unfold make. destruct (pr_version _ =? pp_version pp); cbn [fst snd]; [|discriminate]. intros _.
  exists (set_book (get_create e k now) (pp_entries pp)). split; [|repeat split].
  cbn [e_table]. clear. induction (e_table e) as [|[k' t'] r IH]; cbn [tput tget]; [rewrite Z.eqb_refl; reflexivity|].
  destruct (k =? k') eqn:E; [cbn [tget]; rewrite Z.eqb_refl; reflexivity|].
  destruct (k <? k'); cbn [tget]; [rewrite Z.eqb_refl; reflexivity|]. rewrite E. exact IH.
Qed.

End WithNum.
