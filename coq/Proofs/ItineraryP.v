(** C06: out-and-back itineraries.  The marker evaluation of Update (the fold of [step_mid] over the
    re-evaluated window followed by the step for the newest flight) is characterised on an itinerary
    of outbound legs, a stay of at least the flight interval, and return legs. *)
From Coq Require Import ZArith List Bool Arith Lia.
From Flap Require Import Model.Num Model.TripHistory Proofs.THBasics Proofs.THLimits.
Import ListNotations.
Open Scope Z_scope.

Section Itin.
Context {N : NumOps}.
Local Notation flight := (flight N).

(** a flight whose marker Update may rewrite: not a traveller's trip end, not a reopen marker *)
Definition plain (f : flight) : Prop := et f = Fl \/ et f = JEnd \/ et f = TEnd.

Lemma plain_set_et (f : flight) t : (t = Fl \/ t = JEnd \/ t = TEnd) -> plain (set_et f t).
Proof. intros H. exact H. Qed.

Lemma end_journey_plain s (f : flight) : plain f ->
  end_journey s f = ({| journeys := journeys s + 1; reopened := reopened s; flights := flights s;
                        tstart := tstart s; visited := None |}, set_et f JEnd).
Proof. intros [H|[H|H]]; unfold end_journey; rewrite H; reflexivity. Qed.

Lemma end_trip_plain s (f : flight) : plain f -> end_trip s f false = (ts0, set_et f TEnd).
Proof. intros [H|[H|H]]; unfold end_trip; cbn [andb]; rewrite H; reflexivity. Qed.

Lemma end_trip_respect_plain s (f : flight) : plain f -> reopened s = false -> end_trip s f true = (ts0, set_et f TEnd).
Proof. intros [H|[H|H]] Hr; unfold end_trip; rewrite Hr; cbn [andb]; rewrite H; reflexivity. Qed.

Lemma next_entry_plain s (f : flight) : plain f ->
  next_entry s f = {| journeys := journeys s; reopened := reopened s; flights := flights s + 1;
                      tstart := tstart s; visited := visited s |}.
Proof. intros [H|[H|H]]; unfold next_entry; rewrite H; cbn [ftype_eqb]; rewrite orb_false_r; reflexivity. Qed.

Definition vlist (v : option (list Z)) : list Z := match v with Some l => l | None => [] end.

(** [update_journey] for a flight that is not the newest: no revisit *)
Lemma update_journey_mid s (f : flight) nt p :
  mem (fto f) (vlist (visited s)) = false ->
  update_journey s f nt p false =
    let s' := set_visited s (Some (fto f :: ffrom f :: vlist (visited s))) in
    if FlightInterval p <=? days_between (fend f) nt then end_journey s' f else (s', f).
Proof.
  intros Hm. unfold update_journey. cbn [negb andb].
  destruct (visited s) as [v|] eqn:Ev; cbn [vlist] in *.
  - rewrite Ev. rewrite Hm. reflexivity.
  - cbn [set_visited visited]. cbn [mem existsb]. reflexivity.
Qed.

(** [update_journey] for the newest flight *)
Lemma update_journey_last s (f : flight) now p :
  mem (fto f) (vlist (visited s)) = false ->
  update_journey s f now p true =
    let s' := match visited s with Some v => set_visited s (Some (fto f :: ffrom f :: v)) | None => s end in
    if FlightInterval p <=? days_between (fend f) now then end_journey s' f else (s', f).
Proof.
  intros Hm. unfold update_journey. cbn [negb andb].
  destruct (visited s) as [v|] eqn:Ev; cbn [vlist] in *.
  - rewrite Hm. reflexivity.
  - reflexivity.
Qed.

(** [update_trip] when nothing fires *)
Lemma update_trip_quiet s (f : flight) nt p :
  tstart s <> 0 ->
  (journeys s =? 2) && (Algo p =? 0) = false ->
  days_between (tstart s) nt <= TripLength p ->
  flights s < FlightsInTrip p ->
  update_trip s f nt p = (s, f).
Proof.
  intros Ht Hj Hd Hf. unfold update_trip.
  destruct (Z.eqb_spec (tstart s) 0) as [C|_]; [contradiction|].
  rewrite Hj.
  destruct (Z.ltb_spec (TripLength p) (days_between (tstart s) nt)); [lia|].
  destruct (Z.leb_spec (FlightsInTrip p) (flights s)); [lia|]. reflexivity.
Qed.

(** first flight of a trip: the trip start is taken from it *)
Lemma update_trip_quiet0 s (f : flight) nt p :
  tstart s = 0 -> fstart f <> 0 ->
  (journeys s =? 2) && (Algo p =? 0) = false ->
  days_between (fstart f) nt <= TripLength p ->
  flights s < FlightsInTrip p ->
  update_trip s f nt p = ({| journeys := journeys s; reopened := reopened s; flights := flights s;
                             tstart := fstart f; visited := visited s |}, f).
Proof.
  intros Ht Hf0 Hj Hd Hf. unfold update_trip. rewrite Ht. change (0 =? 0) with true. cbv iota.
  cbn [journeys]. rewrite Hj. cbn [tstart flights].
  destruct (Z.ltb_spec (TripLength p) (days_between (fstart f) nt)); [lia|]. cbn [flights].
  destruct (Z.leb_spec (FlightsInTrip p) (flights s)); [lia|]. reflexivity.
Qed.

Definition tstart_for (s : tstate) (f : flight) : Z := if tstart s =? 0 then fstart f else tstart s.

Lemma update_trip_quiet' s (f : flight) nt p :
  tstart_for s f <> 0 ->
  (journeys s =? 2) && (Algo p =? 0) = false ->
  days_between (tstart_for s f) nt <= TripLength p ->
  flights s < FlightsInTrip p ->
  update_trip s f nt p = ({| journeys := journeys s; reopened := reopened s; flights := flights s;
                             tstart := tstart_for s f; visited := visited s |}, f).
Proof.
  unfold tstart_for. intros Ht Hj Hd Hf. destruct (Z.eqb_spec (tstart s) 0) as [E|E].
  - apply update_trip_quiet0; assumption.
  - rewrite update_trip_quiet by assumption. destruct s; reflexivity.
Qed.

(** the trip-length limit fires (journeys <> 2 or promises on, so the soft end does not fire first) *)
Lemma update_trip_over s (f : flight) nt p :
  plain f ->
  (journeys s =? 2) && (Algo p =? 0) = false ->
  TripLength p < days_between (tstart_for s f) nt ->
  update_trip s f nt p = (ts0, set_et f TEnd).
Proof.
  unfold tstart_for. intros Hp Hj Hd. unfold update_trip.
  destruct (Z.eqb_spec (tstart s) 0) as [E|E]; cbn [journeys]; rewrite Hj; cbn [tstart].
  - destruct (Z.ltb_spec (TripLength p) (days_between (fstart f) nt)); [|lia].
    rewrite end_trip_plain by exact Hp.
    destruct (FlightsInTrip p <=? flights ts0); [|reflexivity].
    rewrite end_trip_plain by (apply plain_set_et; auto). reflexivity.
  - destruct (Z.ltb_spec (TripLength p) (days_between (tstart s) nt)); [|lia].
    rewrite end_trip_plain by exact Hp.
    destruct (FlightsInTrip p <=? flights ts0); [|reflexivity].
    rewrite end_trip_plain by (apply plain_set_et; auto). reflexivity.
Qed.

(** the soft end: second journey ended, promises off, not reopened *)
Lemma update_trip_soft s (f : flight) nt p :
  plain f -> journeys s = 2 -> Algo p = 0 -> reopened s = false ->
  update_trip s f nt p = (ts0, set_et f TEnd).
Proof.
  intros Hp Hj Ha Hr. unfold update_trip.
  assert (E : forall s1 : tstate, journeys s1 = 2 -> reopened s1 = false ->
     (let '(s2, f2) := if (journeys s1 =? 2) && (Algo p =? 0) then end_trip s1 f true else (s1, f) in
      let '(s3, f3) := if TripLength p <? days_between (tstart s2) nt then end_trip s2 f2 false else (s2, f2) in
      if FlightsInTrip p <=? flights s3 then end_trip s3 f3 false else (s3, f3)) = (ts0, set_et f TEnd)).
  { intros s1 H1 H2. rewrite H1, Ha. cbn [Z.eqb Pos.eqb andb].
    rewrite end_trip_respect_plain by assumption.
    destruct (TripLength p <? days_between (tstart ts0) nt).
    - rewrite end_trip_plain by (apply plain_set_et; auto).
      destruct (FlightsInTrip p <=? flights ts0); [|reflexivity].
      rewrite end_trip_plain by (apply plain_set_et; auto). reflexivity.
    - destruct (FlightsInTrip p <=? flights ts0); [|reflexivity].
      rewrite end_trip_plain by (apply plain_set_et; auto). reflexivity. }
  destruct (tstart s =? 0); apply E; assumption.
Qed.

(** a leg inside a journey: nothing fires *)
Lemma step_mid_quiet p now s out dy fy (g : flight) nt :
  plain g ->
  mem (fto g) (vlist (visited s)) = false ->
  days_between (fend g) nt < FlightInterval p ->
  tstart_for s g <> 0 ->
  (journeys s =? 2) && (Algo p =? 0) = false ->
  days_between (tstart_for s g) nt <= TripLength p ->
  flights s + 1 < FlightsInTrip p ->
  exists dy' fy',
    step_mid p now (s, out, dy, fy) (g, nt) =
      ({| journeys := journeys s; reopened := reopened s; flights := flights s + 1;
          tstart := tstart_for s g; visited := Some (fto g :: ffrom g :: vlist (visited s)) |},
       g :: out, dy', fy').
Proof.
  intros Hp Hm Hgap Ht Hj Hd Hf. unfold step_mid.
  rewrite (next_entry_plain s g Hp).
  assert (Hne : et g <> TTEnd) by (destruct Hp as [H|[H|H]]; rewrite H; discriminate).
  set (s1 := {| journeys := journeys s; reopened := reopened s; flights := flights s + 1; tstart := tstart s; visited := visited s |}).
  assert (Euj : update_journey s1 g nt p false = (set_visited s1 (Some (fto g :: ffrom g :: vlist (visited s))), g)).
  { rewrite update_journey_mid by exact Hm. cbv zeta. cbn [visited s1].
    destruct (Z.leb_spec (FlightInterval p) (days_between (fend g) nt)); [lia|reflexivity]. }
  assert (Eut : update_trip (set_visited s1 (Some (fto g :: ffrom g :: vlist (visited s)))) g nt p =
                ({| journeys := journeys s; reopened := reopened s; flights := flights s + 1;
                    tstart := tstart_for s g; visited := Some (fto g :: ffrom g :: vlist (visited s)) |}, g)).
  { rewrite update_trip_quiet'; [reflexivity|exact Ht|exact Hj|exact Hd|cbn; lia]. }
  destruct (et g); try contradiction; rewrite Euj, Eut; destruct (add_stats g now dy fy) as [dy' fy']; exists dy', fy'; reflexivity.
Qed.

(** the last leg of a journey that is not the newest flight: the journey end fires, the trip goes on *)
Lemma step_mid_jend p now s out dy fy (g : flight) nt :
  plain g ->
  mem (fto g) (vlist (visited s)) = false ->
  FlightInterval p <= days_between (fend g) nt ->
  tstart_for s g <> 0 ->
  (journeys s + 1 =? 2) && (Algo p =? 0) = false ->
  days_between (tstart_for s g) nt <= TripLength p ->
  flights s + 1 < FlightsInTrip p ->
  exists dy' fy',
    step_mid p now (s, out, dy, fy) (g, nt) =
      ({| journeys := journeys s + 1; reopened := reopened s; flights := flights s + 1;
          tstart := tstart_for s g; visited := None |},
       set_et g JEnd :: out, dy', fy').
Proof.
  intros Hp Hm Hgap Ht Hj Hd Hf. unfold step_mid.
  rewrite (next_entry_plain s g Hp).
  assert (Hne : et g <> TTEnd) by (destruct Hp as [H|[H|H]]; rewrite H; discriminate).
  set (s1 := {| journeys := journeys s; reopened := reopened s; flights := flights s + 1; tstart := tstart s; visited := visited s |}).
  assert (Euj : update_journey s1 g nt p false =
                ({| journeys := journeys s + 1; reopened := reopened s; flights := flights s + 1; tstart := tstart s; visited := None |}, set_et g JEnd)).
  { rewrite update_journey_mid by exact Hm. cbv zeta. cbn [visited s1].
    destruct (Z.leb_spec (FlightInterval p) (days_between (fend g) nt)); [|lia].
    rewrite end_journey_plain by exact Hp. reflexivity. }
  assert (Eut : update_trip {| journeys := journeys s + 1; reopened := reopened s; flights := flights s + 1; tstart := tstart s; visited := None |} (set_et g JEnd) nt p =
                ({| journeys := journeys s + 1; reopened := reopened s; flights := flights s + 1;
                    tstart := tstart_for s g; visited := None |}, set_et g JEnd)).
  { rewrite update_trip_quiet'; [reflexivity|exact Ht|exact Hj|exact Hd|cbn; lia]. }
  destruct (et g); try contradiction; rewrite Euj, Eut; destruct (add_stats (set_et g JEnd) now dy fy) as [dy' fy']; exists dy', fy'; reflexivity.
Qed.

(** ---- runs of legs inside one journey ---- *)

(** legs paired with the departure of the following flight; the last leg of the run is followed by a
    flight departing at [z] *)
Fixpoint nexts (A : list flight) (z : Z) : list (flight * Z) :=
  match A with
  | [] => []
  | a :: r => (a, match r with [] => z | b :: _ => fstart b end) :: nexts r z
  end.

(** [quiet p v st c fns]: every leg is plain, revisits nothing of [v] or of the run so far, is followed
    within the interval, and the trip that started at [st] with [c] flights so far stays within limits *)
Fixpoint quiet (p : thparams) (v : list Z) (st c : Z) (fns : list (flight * Z)) : Prop :=
  match fns with
  | [] => True
  | (g, nt) :: r =>
      plain g /\ mem (fto g) v = false /\ days_between (fend g) nt < FlightInterval p /\
      days_between st nt <= TripLength p /\ c + 1 < FlightsInTrip p /\
      quiet p (fto g :: ffrom g :: v) st (c + 1) r
  end.

Fixpoint visited_after (v : list Z) (fns : list (flight * Z)) : list Z :=
  match fns with [] => v | (g, _) :: r => visited_after (fto g :: ffrom g :: v) r end.

Lemma quiet_run p now : forall fns s out dy fy st,
  fns <> [] ->
  quiet p (vlist (visited s)) st (flights s) fns ->
  st <> 0 ->
  (tstart s = st \/ (tstart s = 0 /\ exists g nt r, fns = (g, nt) :: r /\ fstart g = st)) ->
  (journeys s =? 2) && (Algo p =? 0) = false ->
  exists dy' fy',
    fold_left (step_mid p now) fns (s, out, dy, fy) =
      ({| journeys := journeys s; reopened := reopened s; flights := flights s + Z.of_nat (length fns);
          tstart := st; visited := Some (visited_after (vlist (visited s)) fns) |},
       rev (map fst fns) ++ out, dy', fy').
Proof.
  induction fns as [|[g nt] r IH]; intros s out dy fy st Hne Hq Hst Hts Hj; [contradiction|].
  cbn [quiet] in Hq. destruct Hq as (Hp & Hm & Hgap & Hd & Hf & Hq).
  assert (Etf : tstart_for s g = st).
  { unfold tstart_for. destruct Hts as [E|(E & g' & nt' & r' & Eq & Es)].
    - rewrite E. destruct (Z.eqb_spec st 0); [contradiction|reflexivity].
    - rewrite E. cbn [Z.eqb]. injection Eq as <- _ _. exact Es. }
  destruct (step_mid_quiet p now s out dy fy g nt Hp Hm Hgap) as (dy1 & fy1 & E1); try (rewrite Etf; assumption); try assumption.
  cbn [fold_left]. rewrite E1, Etf.
  destruct r as [|x r'].
  - cbn [fold_left length map rev app fst visited_after]. exists dy1, fy1.
    replace (flights s + Z.of_nat 1) with (flights s + 1) by lia. reflexivity.
  - set (s1 := {| journeys := journeys s; reopened := reopened s; flights := flights s + 1; tstart := st;
                  visited := Some (fto g :: ffrom g :: vlist (visited s)) |}).
    destruct (IH s1 (g :: out) dy1 fy1 st ltac:(discriminate) Hq Hst ltac:(left; reflexivity) Hj) as (dy2 & fy2 & E2).
    rewrite E2. exists dy2, fy2. cbn [journeys reopened flights visited vlist s1].
    cbn [length map rev fst visited_after]. rewrite <- !app_assoc. cbn [app].
    replace (flights s + 1 + Z.of_nat (S (length r'))) with (flights s + Z.of_nat (S (S (length r')))) by lia.
    reflexivity.
Qed.

(** ---- the newest flight ---- *)
Definition last_step (p : thparams) (now : Z) (s : tstate) (f0 : flight) : tstate * flight :=
  let s1 := next_entry s f0 in
  let '(s2, f2) := update_journey s1 f0 now p true in
  update_trip s2 f2 now p.

Lemma set_et_set_et (f : flight) a b : set_et (set_et f a) b = set_et f b.
Proof. reflexivity. Qed.

Definition visited_last (s : tstate) (f : flight) : option (list Z) :=
  match visited s with Some v => Some (fto f :: ffrom f :: v) | None => None end.

(** still travelling: the newest flight landed less than the interval ago *)
Lemma last_step_quiet p now s (f0 : flight) :
  plain f0 -> mem (fto f0) (vlist (visited s)) = false ->
  days_between (fend f0) now < FlightInterval p ->
  tstart_for s f0 <> 0 ->
  (journeys s =? 2) && (Algo p =? 0) = false ->
  days_between (tstart_for s f0) now <= TripLength p ->
  flights s + 1 < FlightsInTrip p ->
  last_step p now s f0 =
    ({| journeys := journeys s; reopened := reopened s; flights := flights s + 1;
        tstart := tstart_for s f0; visited := visited_last s f0 |}, f0).
Proof.
  intros Hp Hm Hgap Ht Hj Hd Hf. unfold last_step. rewrite (next_entry_plain s f0 Hp).
  rewrite update_journey_last by exact Hm. cbv zeta. cbn [visited].
  destruct (Z.leb_spec (FlightInterval p) (days_between (fend f0) now)); [lia|].
  unfold visited_last. destruct (visited s) as [v|]; cbn [set_visited journeys reopened flights tstart visited].
  - rewrite update_trip_quiet'; [reflexivity|exact Ht|exact Hj|exact Hd|cbn; lia].
  - rewrite update_trip_quiet'; [reflexivity|exact Ht|exact Hj|exact Hd|cbn; lia].
Qed.

(** the journey of the newest flight has ended; the trip goes on (first journey, or promises on) *)
Lemma last_step_jend p now s (f0 : flight) :
  plain f0 -> mem (fto f0) (vlist (visited s)) = false ->
  FlightInterval p <= days_between (fend f0) now ->
  tstart_for s f0 <> 0 ->
  (journeys s + 1 =? 2) && (Algo p =? 0) = false ->
  days_between (tstart_for s f0) now <= TripLength p ->
  flights s + 1 < FlightsInTrip p ->
  last_step p now s f0 =
    ({| journeys := journeys s + 1; reopened := reopened s; flights := flights s + 1;
        tstart := tstart_for s f0; visited := None |}, set_et f0 JEnd).
Proof.
  intros Hp Hm Hgap Ht Hj Hd Hf. unfold last_step. rewrite (next_entry_plain s f0 Hp).
  rewrite update_journey_last by exact Hm. cbv zeta. cbn [visited].
  destruct (Z.leb_spec (FlightInterval p) (days_between (fend f0) now)); [|lia].
  destruct (visited s) as [v|]; cbn [set_visited journeys reopened flights tstart visited];
    rewrite end_journey_plain by exact Hp; cbn [journeys reopened flights tstart];
    (rewrite update_trip_quiet'; [reflexivity|exact Ht|exact Hj|exact Hd|cbn; lia]).
Qed.

(** second journey ended, promises off: the trip ends at the newest flight *)
Lemma last_step_soft_end p now s (f0 : flight) :
  plain f0 -> mem (fto f0) (vlist (visited s)) = false ->
  FlightInterval p <= days_between (fend f0) now ->
  journeys s = 1 -> Algo p = 0 -> reopened s = false ->
  last_step p now s f0 = (ts0, set_et f0 TEnd).
Proof.
  intros Hp Hm Hgap Hj Ha Hr. unfold last_step. rewrite (next_entry_plain s f0 Hp).
  rewrite update_journey_last by exact Hm. cbv zeta. cbn [visited].
  destruct (Z.leb_spec (FlightInterval p) (days_between (fend f0) now)); [|lia].
  destruct (visited s) as [v|]; cbn [set_visited journeys reopened flights tstart visited];
    rewrite end_journey_plain by exact Hp; cbn [journeys reopened flights tstart];
    (rewrite update_trip_soft; [reflexivity|apply plain_set_et; auto|cbn; lia|exact Ha|exact Hr]).
Qed.

(** the trip-length limit is exceeded at [now] (soft end not applicable): the trip ends at the newest flight *)
Lemma last_step_over p now s (f0 : flight) :
  plain f0 -> mem (fto f0) (vlist (visited s)) = false ->
  tstart_for s f0 <> 0 ->
  (journeys s =? 2) && (Algo p =? 0) = false ->
  (journeys s + 1 =? 2) && (Algo p =? 0) = false ->
  TripLength p < days_between (tstart_for s f0) now ->
  last_step p now s f0 = (ts0, set_et f0 TEnd).
Proof.
  intros Hp Hm Ht Hj Hj1 Hd. unfold last_step. rewrite (next_entry_plain s f0 Hp).
  rewrite update_journey_last by exact Hm. cbv zeta. cbn [visited].
  destruct (FlightInterval p <=? days_between (fend f0) now).
  - destruct (visited s) as [v|]; cbn [set_visited journeys reopened flights tstart visited];
      rewrite end_journey_plain by exact Hp; cbn [journeys reopened flights tstart];
      (rewrite update_trip_over; [reflexivity|apply plain_set_et; auto|exact Hj1|exact Hd]).
  - destruct (visited s) as [v|]; cbn [set_visited journeys reopened flights tstart visited];
      (rewrite update_trip_over; [reflexivity|exact Hp|exact Hj|exact Hd]).
Qed.

(** ---- the evaluation core of Update on a window given oldest first ---- *)
Definition pairs (l : list flight) : list (flight * Z) := combine (removelast l) (map fstart (tl l)).

Definition eval_core (p : thparams) (now : Z) (olderfirst : list flight) : tstate * list flight :=
  let '(s, out, _, _) := fold_left (step_mid p now) (pairs olderfirst) (ts0, [], k0 N, 0) in
  let '(s3, f3) := last_step p now s (last olderfirst empty_flight) in
  (s3, f3 :: out).

Definition hd_start (B : list flight) (y : flight) : Z := match B with [] => fstart y | b :: _ => fstart b end.

Lemma nexts_cons a (r : list flight) z : nexts (a :: r) z = (a, hd_start r {| et := Fl; fstart := z; fend := 0; ffrom := 0; fto := 0; fdist := k0 N |}) :: nexts r z.
Proof. destruct r; reflexivity. Qed.

Lemma pairs_snoc : forall (A : list flight) x, pairs (A ++ [x]) = nexts A (fstart x).
Proof.
  induction A as [|a A IH]; intros x; [reflexivity|].
  unfold pairs in *. cbn [app tl].
  assert (Hne : A ++ [x] <> []) by (destruct A; discriminate).
  replace (removelast (a :: A ++ [x])) with (a :: removelast (A ++ [x])) by (cbn [removelast]; destruct (A ++ [x]); [contradiction|reflexivity]).
  specialize (IH x).
  destruct A as [|b A']; cbn [app map tl combine removelast nexts] in *; [reflexivity|].
  f_equal. exact IH.
Qed.

Lemma nexts_app : forall (A : list flight) x B z, nexts (A ++ x :: B) z = nexts A (fstart x) ++ nexts (x :: B) z.
Proof.
  induction A as [|a A IH]; intros x B z; [reflexivity|].
  cbn [app]. destruct A as [|b A']; cbn [app nexts] in *; [reflexivity|].
  f_equal. apply (IH x B z).
Qed.

Lemma map_fst_nexts : forall (A : list flight) z, map fst (nexts A z) = A.
Proof. induction A as [|a A IH]; intros z; [reflexivity|]. cbn [nexts map fst]. f_equal. apply IH. Qed.

Lemma length_nexts (A : list flight) z : length (nexts A z) = length A.
Proof. rewrite <- (map_fst_nexts A z) at 2. rewrite map_length. reflexivity. Qed.

Lemma last_snoc {T} (l : list T) x d : last (l ++ [x]) d = x.
Proof. induction l as [|a l IH]; [reflexivity|]. cbn [app]. destruct (l ++ [x]) eqn:E; [destruct l; discriminate|]. exact IH. Qed.

(** the state after a quiet run (none when the run is empty) *)
Definition run_state (s : tstate) (st : Z) (fns : list (flight * Z)) : tstate :=
  match fns with
  | [] => s
  | _ => {| journeys := journeys s; reopened := reopened s; flights := flights s + Z.of_nat (length fns);
            tstart := st; visited := Some (visited_after (vlist (visited s)) fns) |}
  end.

Lemma quiet_run' p now fns s out dy fy st :
  quiet p (vlist (visited s)) st (flights s) fns ->
  st <> 0 ->
  (fns <> [] -> tstart s = st \/ (tstart s = 0 /\ exists g nt r, fns = (g, nt) :: r /\ fstart g = st)) ->
  (journeys s =? 2) && (Algo p =? 0) = false ->
  exists dy' fy',
    fold_left (step_mid p now) fns (s, out, dy, fy) = (run_state s st fns, rev (map fst fns) ++ out, dy', fy').
Proof.
  intros Hq Hst Hts Hj. destruct fns as [|a r] eqn:E.
  - exists dy, fy. reflexivity.
  - rewrite <- E in *. destruct (quiet_run p now fns s out dy fy st ltac:(rewrite E; discriminate) Hq Hst (Hts ltac:(rewrite E; discriminate)) Hj) as (dy' & fy' & E').
    exists dy', fy'. rewrite E'. unfold run_state. rewrite E. reflexivity.
Qed.

Lemma run_state_facts s st fns :
  journeys (run_state s st fns) = journeys s /\ reopened (run_state s st fns) = reopened s /\
  flights (run_state s st fns) = flights s + Z.of_nat (length fns) /\
  vlist (visited (run_state s st fns)) = visited_after (vlist (visited s)) fns.
Proof. destruct fns; cbn [run_state journeys reopened flights visited vlist length visited_after]; repeat split; try reflexivity; lia. Qed.

Lemma run_state_tstart_for s st fns (f : flight) :
  st <> 0 -> (fns = [] -> tstart_for s f = st) -> tstart_for (run_state s st fns) f = st.
Proof.
  intros Hst H0. destruct fns; [apply H0; reflexivity|].
  unfold tstart_for. cbn [run_state tstart]. destruct (Z.eqb_spec st 0); [contradiction|reflexivity].
Qed.

Lemma last_step_over_notdue p now s (f0 : flight) :
  plain f0 -> mem (fto f0) (vlist (visited s)) = false ->
  days_between (fend f0) now < FlightInterval p ->
  (journeys s =? 2) && (Algo p =? 0) = false ->
  TripLength p < days_between (tstart_for s f0) now ->
  last_step p now s f0 = (ts0, set_et f0 TEnd).
Proof.
  intros Hp Hm Hgap Hj Hd. unfold last_step. rewrite (next_entry_plain s f0 Hp).
  rewrite update_journey_last by exact Hm. cbv zeta. cbn [visited].
  destruct (Z.leb_spec (FlightInterval p) (days_between (fend f0) now)); [lia|].
  destruct (visited s) as [v|]; cbn [set_visited journeys reopened flights tstart visited];
    (rewrite update_trip_over; [reflexivity|exact Hp|exact Hj|exact Hd]).
Qed.

(** ---- stage 1: only outbound legs reported so far (A ++ [x], x the newest) ---- *)
Definition first_start (A : list flight) (x : flight) : Z := fstart (hd x A).

Lemma nexts_head_start (A : list flight) (x : flight) z :
  nexts A z <> [] -> exists g nt r, nexts A z = (g, nt) :: r /\ fstart g = first_start A x.
Proof. destruct A as [|a A']; [intros C; contradiction|]. intros _. cbn [nexts]. eexists _, _, _. split; reflexivity. Qed.

Definition newest_mark (p : thparams) (now : Z) (x : flight) : flight :=
  if FlightInterval p <=? days_between (fend x) now then set_et x JEnd else x.

Theorem outbound_stage p now (A : list flight) (x : flight) :
  first_start A x <> 0 ->
  quiet p [] (first_start A x) 0 (nexts A (fstart x)) ->
  plain x -> mem (fto x) (visited_after [] (nexts A (fstart x))) = false ->
  days_between (first_start A x) now <= TripLength p -> Z.of_nat (length A) + 1 < FlightsInTrip p ->
  exists s', eval_core p now (A ++ [x]) = (s', newest_mark p now x :: rev A) /\ tstart s' = first_start A x.
Proof.
  intros Hst Hq Hpx Hmx Hd Hf. unfold eval_core. rewrite pairs_snoc, last_snoc.
  destruct (quiet_run' p now (nexts A (fstart x)) ts0 [] (k0 N) 0 (first_start A x) Hq Hst) as (dy' & fy' & E).
  { intros Hne. right. split; [reflexivity|]. apply nexts_head_start, Hne. }
  { reflexivity. }
  rewrite E, app_nil_r, map_fst_nexts.
  destruct (run_state_facts ts0 (first_start A x) (nexts A (fstart x))) as (Fj & Fr & Ff & Fv).
  cbn [journeys reopened flights visited vlist ts0] in Fj, Fr, Ff, Fv. rewrite length_nexts in Ff.
  set (sA := run_state ts0 (first_start A x) (nexts A (fstart x))) in *.
  assert (Et : tstart_for sA x = first_start A x).
  { apply run_state_tstart_for; [exact Hst|]. intros E0. destruct A; [reflexivity|discriminate]. }
  unfold newest_mark.
  destruct (Z.leb_spec (FlightInterval p) (days_between (fend x) now)) as [Hdue|Hnot].
  - rewrite last_step_jend; try rewrite Et; try rewrite Fv; try rewrite Fj; try rewrite Ff; try assumption; try reflexivity; try lia.
    eexists. split; [reflexivity|reflexivity].
  - rewrite last_step_quiet; try rewrite Et; try rewrite Fv; try rewrite Fj; try rewrite Ff; try assumption; try reflexivity; try lia.
    eexists. split; [reflexivity|reflexivity].
Qed.

(** ---- stage 2: the outbound journey A ++ [x] and the return legs B ++ [y] reported so far ---- *)

(** the marker the newest return leg gets at [now] *)
Definition final_mark (p : thparams) (now st : Z) (y : flight) : flight :=
  let due := FlightInterval p <=? days_between (fend y) now in
  let over := TripLength p <? days_between st now in
  if Algo p =? 0 then (if due || over then set_et y TEnd else y)
  else if over then set_et y TEnd else if due then set_et y JEnd else y.

Theorem return_stage p now (A : list flight) (x : flight) (B : list flight) (y : flight) :
  let st := first_start A x in
  let nA := Z.of_nat (length A) in let nB := Z.of_nat (length B) in
  st <> 0 ->
  quiet p [] st 0 (nexts A (fstart x)) ->
  plain x -> mem (fto x) (visited_after [] (nexts A (fstart x))) = false ->
  FlightInterval p <= days_between (fend x) (hd_start B y) ->          (* the stay *)
  days_between st (hd_start B y) <= TripLength p ->
  quiet p [] st (nA + 1) (nexts B (fstart y)) ->
  plain y -> mem (fto y) (visited_after [] (nexts B (fstart y))) = false ->
  nA + nB + 2 < FlightsInTrip p ->
  exists s', eval_core p now (A ++ x :: B ++ [y]) =
    (s', final_mark p now st y :: rev B ++ set_et x JEnd :: rev A).
Proof.
  intros st nA nB Hst HqA Hpx Hmx Hstay HdX HqB Hpy Hmy Hf. unfold eval_core.
  replace (A ++ x :: B ++ [y]) with ((A ++ x :: B) ++ [y]) by (rewrite <- app_assoc; reflexivity).
  rewrite pairs_snoc, last_snoc, nexts_app. cbn [nexts].
  rewrite fold_left_app. 
  destruct (quiet_run' p now (nexts A (fstart x)) ts0 [] (k0 N) 0 st HqA Hst) as (dy1 & fy1 & E1).
  { intros Hne. right. split; [reflexivity|]. apply nexts_head_start, Hne. }
  { reflexivity. }
  rewrite E1, app_nil_r, map_fst_nexts.
  destruct (run_state_facts ts0 st (nexts A (fstart x))) as (Fj & Fr & Ff & Fv).
  cbn [journeys reopened flights visited vlist ts0] in Fj, Fr, Ff, Fv. rewrite length_nexts in Ff.
  set (sA := run_state ts0 st (nexts A (fstart x))) in *.
  assert (Et : tstart_for sA x = st).
  { apply run_state_tstart_for; [exact Hst|]. intros E0. destruct A; [reflexivity|discriminate]. }
  (* x: the journey end fires *)
  cbn [fold_left].
  assert (Hnt : match B with [] => fstart y | b :: _ => fstart b end = hd_start B y) by reflexivity.
  rewrite Hnt.
  destruct (step_mid_jend p now sA (rev A) dy1 fy1 x (hd_start B y) Hpx) as (dy2 & fy2 & E2);
    try rewrite Et; try rewrite Fv; try rewrite Fj; try rewrite Ff; try assumption; try reflexivity; try lia.
  rewrite E2, Et, Fj, Fr, Ff.
  set (sX := {| journeys := 0 + 1; reopened := false; flights := 0 + Z.of_nat (length A) + 1; tstart := st; visited := None |}).
  destruct (quiet_run' p now (nexts B (fstart y)) sX (set_et x JEnd :: rev A) dy2 fy2 st) as (dy3 & fy3 & E3).
  { cbn [sX visited vlist flights]. replace (0 + Z.of_nat (length A) + 1) with (nA + 1) by (unfold nA; lia). exact HqB. }
  { exact Hst. }
  { intros _. left. reflexivity. }
  { reflexivity. }
  rewrite E3, map_fst_nexts.
  destruct (run_state_facts sX st (nexts B (fstart y))) as (Gj & Gr & Gf & Gv).
  cbn [journeys reopened flights visited vlist sX] in Gj, Gr, Gf, Gv. rewrite length_nexts in Gf.
  set (sB := run_state sX st (nexts B (fstart y))) in *.
  assert (Gt : tstart_for sB y = st).
  { apply run_state_tstart_for; [exact Hst|]. intros _. unfold tstart_for. cbn [sX tstart].
    destruct (Z.eqb_spec st 0); [contradiction|reflexivity]. }
  (* the newest flight *)
  unfold final_mark.
  destruct (Z.eqb_spec (Algo p) 0) as [Ha|Ha].
  - (* promises off *)
    destruct (Z.leb_spec (FlightInterval p) (days_between (fend y) now)) as [Hdue|Hnot]; cbn [orb].
    + rewrite last_step_soft_end; try rewrite Gv; try assumption; try lia. eexists; reflexivity.
    + destruct (Z.ltb_spec (TripLength p) (days_between st now)) as [Hover|Hin].
      * rewrite last_step_over_notdue; try rewrite Gt; try rewrite Gv; try rewrite Gj; try assumption; try reflexivity.
        eexists; reflexivity.
      * rewrite last_step_quiet; try rewrite Gt; try rewrite Gv; try rewrite Gj; try rewrite Gf; try assumption; try reflexivity; try lia.
        eexists; reflexivity.
  - (* promises on *)
    assert (Hc : forall j, (j =? 2) && (Algo p =? 0) = false).
    { intros j. destruct (Z.eqb_spec (Algo p) 0); [contradiction|apply andb_false_r]. }
    destruct (Z.ltb_spec (TripLength p) (days_between st now)) as [Hover|Hin].
    + rewrite last_step_over; try rewrite Gt; try rewrite Gv; try apply Hc; try assumption.
      eexists; reflexivity.
    + destruct (Z.leb_spec (FlightInterval p) (days_between (fend y) now)) as [Hdue|Hnot].
      * rewrite last_step_jend; try rewrite Gt; try rewrite Gv; try rewrite Gf; try apply Hc; try assumption; try lia.
        eexists; reflexivity.
      * rewrite last_step_quiet; try rewrite Gt; try rewrite Gv; try rewrite Gf; try apply Hc; try assumption; try lia.
        eexists; reflexivity.
Qed.

(** ---- Update on a history whose open trip is the itinerary ---- *)

Definition stop_at (rest : list flight) : Prop :=
  rest = [] \/ exists r0 rs, rest = r0 :: rs /\ (fstart r0 = 0 \/ is_end r0 = true).

Lemma window_start_exact (h : hist N) (W rest : list flight) :
  entries h = W ++ rest -> length (entries h) = MaxFlights -> W <> [] ->
  (forall f, In f W -> fstart f <> 0 /\ is_end f = false) ->
  stop_at rest -> (oc h <= length W)%nat ->
  window_start h = Z.of_nat (length W) - 1.
Proof.
  intros El Hlen Hne HW Hstop Hoc. set (n := length W).
  assert (Hn : (1 <= n <= MaxFlights)%nat).
  { unfold n. split; [destruct W; [contradiction|cbn; lia]|]. rewrite El, app_length in Hlen. lia. }
  assert (HgW : forall a, (a < n)%nat -> fstart (getf (entries h) a) <> 0 /\ is_end (getf (entries h) a) = false).
  { intros a Ha. unfold getf. rewrite El, app_nth1 by exact Ha. apply HW, nth_In, Ha. }
  assert (Hgn : (n < MaxFlights)%nat -> fstart (getf (entries h) n) = 0 \/ is_end (getf (entries h) n) = true).
  { intros Hlt. unfold getf. rewrite El, app_nth2 by (unfold n; lia). replace (n - length W)%nat with 0%nat by (unfold n; lia).
    destruct Hstop as [->|(r0 & rs & -> & Hs)].
    - rewrite El, app_nil_r in Hlen. unfold n in Hlt. lia.
    - exact Hs. }
  unfold window_start, start_of_trip.
  destruct (sot_scan_spec (entries h) (S MaxFlights) (oc h) ltac:(lia)) as (k & Hk & Ek & Hst & Hbefore).
  assert (Ekn : k = n).
  { destruct (Nat.lt_trichotomy k n) as [Hlt|[E|Hgt]]; [|exact E|].
    - exfalso. destruct (HgW k Hlt) as [H1 H2]. destruct Hst as [H|[H|H]]; [lia|contradiction|congruence].
    - exfalso. destruct (Hbefore n ltac:(lia)) as (Hlt & H1 & H2). destruct (Hgn Hlt) as [H|H]; [contradiction|congruence]. }
  rewrite Ek, Ekn. replace (Z.to_nat (Z.of_nat n - 1 + 1)) with n by lia.
  destruct (Nat.ltb 0 (oc h) && negb (Z.of_nat n - 1 =? Z.of_nat MaxFlights - 1) && negb (fstart (getf (entries h) n) =? 0)) eqn:Econd; [|reflexivity].
  apply andb_true_iff in Econd. destruct Econd as [Econd Hnz]. apply andb_true_iff in Econd. destruct Econd as [_ Hn99].
  apply negb_true_iff, Z.eqb_neq in Hnz. apply negb_true_iff, Z.eqb_neq in Hn99.
  assert (Hlt : (n < MaxFlights)%nat) by lia.
  destruct (Hgn Hlt) as [H|H]; [contradiction|].
  cbn [sot_scan]. destruct (Nat.ltb_spec n MaxFlights) as [_|C]; [|lia]. cbn [andb].
  destruct (Z.eqb_spec (fstart (getf (entries h) n)) 0) as [C|_]; [contradiction|]. cbn [negb].
  rewrite H. reflexivity.
Qed.

Lemma last_rev_hd (I : list flight) d : last I d = hd d (rev I).
Proof.
  destruct I as [|a I'] using rev_ind; [reflexivity|]. rewrite last_snoc, rev_app_distr. reflexivity.
Qed.

Theorem update_on_itinerary (h : hist N) p now (I rest : list flight) :
  entries h = rev I ++ rest -> length (entries h) = MaxFlights -> I <> [] ->
  (forall f, In f I -> fstart f <> 0 /\ is_end f = false) ->
  stop_at rest -> (oc h <= length I)%nat -> now mod SecondsInDay = 0 ->
  exists dy fy, update h p now = inl ({| entries := snd (eval_core p now I) ++ rest; oc := 0 |}, dy, fy).
Proof.
  intros El Hlen Hne HI Hstop Hoc Hnow.
  assert (HneW : rev I <> []) by (intros C; apply Hne; rewrite <- (rev_involutive I), C; reflexivity).
  assert (HW : forall f, In f (rev I) -> fstart f <> 0 /\ is_end f = false) by (intros f Hf; apply HI, in_rev, Hf).
  assert (Hhd : getf (entries h) 0 = last I empty_flight).
  { rewrite last_rev_hd. unfold getf. rewrite El. destruct (rev I); [contradiction|reflexivity]. }
  assert (Hin0 : In (last I empty_flight) I).
  { destruct I as [|a I'] using rev_ind; [contradiction|]. rewrite last_snoc. apply in_or_app. right. left. reflexivity. }
  destruct (HI _ Hin0) as [H0s H0e].
  unfold update. unfold hempty. rewrite Hhd.
  destruct (Z.eqb_spec (fstart (last I empty_flight)) 0) as [C|_]; [contradiction|].
  rewrite Hnow. cbn [Z.eqb negb]. rewrite H0e, andb_false_r.
  rewrite (window_start_exact h (rev I) rest El Hlen HneW HW Hstop ltac:(rewrite rev_length; exact Hoc)).
  rewrite rev_length. replace (S (Z.to_nat (Z.of_nat (length I) - 1))) with (length I) by (destruct I; [contradiction|cbn [length]; lia]).
  rewrite El.
  assert (Ef : firstn (length I) (rev I ++ rest) = rev I).
  { rewrite <- (rev_length I). rewrite firstn_app, Nat.sub_diag, firstn_all. cbn [firstn]. apply app_nil_r. }
  assert (Es : skipn (length I) (rev I ++ rest) = rest).
  { rewrite <- (rev_length I). rewrite skipn_app, Nat.sub_diag, skipn_all. reflexivity. }
  rewrite Ef, Es.
  rewrite rev_involutive.
  unfold eval_core, pairs, last_step.
  destruct (fold_left (step_mid p now) (combine (removelast I) (map fstart (tl I))) (ts0, [], k0 N, 0)) as [[[s out] dy] fy].
  destruct (update_journey (next_entry s (last I empty_flight)) (last I empty_flight) now p true) as [s2 f2].
  destruct (update_trip s2 f2 now p) as [s3 f3].
  destruct (add_stats f3 now dy fy) as [dy' fy'].
  exists dy', fy'. reflexivity.
Qed.

(** ---- the property in the terms of Update ---- *)

Definition itinerary (A : list flight) (x : flight) (B : list flight) (y : flight) : list flight := A ++ x :: B ++ [y].

(** static hypotheses of C06 on an out-and-back itinerary (A ++ [x] out, B ++ [y] back) *)
Definition out_and_back (p : thparams) (A : list flight) (x : flight) (B : list flight) (y : flight) : Prop :=
  let st := first_start A x in
  let nA := Z.of_nat (length A) in let nB := Z.of_nat (length B) in
  st <> 0 /\
  quiet p [] st 0 (nexts A (fstart x)) /\
  plain x /\ mem (fto x) (visited_after [] (nexts A (fstart x))) = false /\
  FlightInterval p <= days_between (fend x) (hd_start B y) /\
  days_between st (hd_start B y) <= TripLength p /\
  quiet p [] st (nA + 1) (nexts B (fstart y)) /\
  plain y /\ mem (fto y) (visited_after [] (nexts B (fstart y))) = false /\
  nA + nB + 2 < FlightsInTrip p.

Lemma quiet_flights p v st c fns : quiet p v st c fns -> forall g, In g (map fst fns) -> plain g.
Proof.
  revert v c. induction fns as [|[g nt] r IH]; intros v c Hq f Hf; [destruct Hf|].
  cbn [quiet] in Hq. destruct Hq as (Hp & _ & _ & _ & _ & Hq). destruct Hf as [<-|Hf]; [exact Hp|]. eapply IH; eassumption.
Qed.

Theorem update_out_and_back (h : hist N) p now A x B y rest :
  out_and_back p A x B y ->
  entries h = rev (itinerary A x B y) ++ rest -> length (entries h) = MaxFlights ->
  (forall f, In f (itinerary A x B y) -> fstart f <> 0 /\ et f <> TEnd) ->
  stop_at rest -> (oc h <= length (itinerary A x B y))%nat -> now mod SecondsInDay = 0 ->
  exists dy fy, update h p now =
    inl ({| entries := final_mark p now (first_start A x) y :: rev B ++ set_et x JEnd :: rev A ++ rest; oc := 0 |}, dy, fy).
Proof.
  intros (Hst & HqA & Hpx & Hmx & Hstay & HdX & HqB & Hpy & Hmy & Hf) El Hlen HI Hstop Hoc Hnow.
  assert (Hplain : forall f, In f (itinerary A x B y) -> plain f).
  { intros f Hf'. unfold itinerary in Hf'. apply in_app_or in Hf'. destruct Hf' as [Hf'|[<-|Hf']].
    - eapply quiet_flights; [exact HqA|]. rewrite map_fst_nexts. exact Hf'.
    - exact Hpx.
    - apply in_app_or in Hf'. destruct Hf' as [Hf'|[<-|[]]]; [|exact Hpy].
      eapply quiet_flights; [exact HqB|]. rewrite map_fst_nexts. exact Hf'. }
  destruct (update_on_itinerary h p now (itinerary A x B y) rest El Hlen) as (dy & fy & E); try assumption.
  { unfold itinerary. destruct A; discriminate. }
  { intros f Hf'. destruct (HI f Hf') as [H1 H2]. split; [exact H1|].
    destruct (Hplain f Hf') as [H|[H|H]]; unfold is_end; rewrite H; [reflexivity|reflexivity|contradiction]. }
  destruct (return_stage p now A x B y Hst HqA Hpx Hmx Hstay HdX HqB Hpy Hmy Hf) as (s' & E').
  exists dy, fy. rewrite E. unfold itinerary. rewrite E'. cbn [snd app]. rewrite <- app_assoc. reflexivity.
Qed.

(** when the trip is found closed after the update *)
Lemma final_mark_is_end p now st (y : flight) : et y = Fl \/ et y = JEnd ->
  is_end (final_mark p now st y) =
    if Algo p =? 0 then (FlightInterval p <=? days_between (fend y) now) || (TripLength p <? days_between st now)
    else TripLength p <? days_between st now.
Proof.
  intros Hy. unfold final_mark.
  assert (Hn : is_end y = false) by (unfold is_end; destruct Hy as [H|H]; rewrite H; reflexivity).
  destruct (Algo p =? 0).
  - destruct ((FlightInterval p <=? days_between (fend y) now) || (TripLength p <? days_between st now)); [reflexivity|exact Hn].
  - destruct (TripLength p <? days_between st now); [reflexivity|].
    destruct (FlightInterval p <=? days_between (fend y) now); [reflexivity|exact Hn].
Qed.

(** while only the outbound journey A ++ [x] has been reported *)
Definition outbound_only (p : thparams) (now : Z) (A : list flight) (x : flight) : Prop :=
  first_start A x <> 0 /\
  quiet p [] (first_start A x) 0 (nexts A (fstart x)) /\
  plain x /\ mem (fto x) (visited_after [] (nexts A (fstart x))) = false /\
  days_between (first_start A x) now <= TripLength p /\ Z.of_nat (length A) + 1 < FlightsInTrip p.

Theorem update_outbound (h : hist N) p now A x rest :
  outbound_only p now A x ->
  entries h = rev (A ++ [x]) ++ rest -> length (entries h) = MaxFlights ->
  (forall f, In f (A ++ [x]) -> fstart f <> 0 /\ et f <> TEnd) ->
  stop_at rest -> (oc h <= length (A ++ [x]))%nat -> now mod SecondsInDay = 0 ->
  exists dy fy, update h p now = inl ({| entries := newest_mark p now x :: rev A ++ rest; oc := 0 |}, dy, fy).
Proof.
  intros (Hst & HqA & Hpx & Hmx & Hd & Hf) El Hlen HI Hstop Hoc Hnow.
  assert (Hplain : forall f, In f (A ++ [x]) -> plain f).
  { intros f Hf'. apply in_app_or in Hf'. destruct Hf' as [Hf'|[<-|[]]]; [|exact Hpx].
    eapply quiet_flights; [exact HqA|]. rewrite map_fst_nexts. exact Hf'. }
  destruct (update_on_itinerary h p now (A ++ [x]) rest El Hlen) as (dy & fy & E); try assumption.
  { destruct A; discriminate. }
  { intros f Hf'. destruct (HI f Hf') as [H1 H2]. split; [exact H1|].
    destruct (Hplain f Hf') as [H|[H|H]]; unfold is_end; rewrite H; [reflexivity|reflexivity|contradiction]. }
  destruct (outbound_stage p now A x Hst HqA Hpx Hmx Hd Hf) as (s' & E' & _).
  exists dy, fy. rewrite E, E'. reflexivity.
Qed.

End Itin.
