(** C02: a check-in is refused as grounded exactly when the traveller is grounded. *)
From Coq Require Import ZArith List Bool Arith Lia.
From Flap Require Import Model.Num Model.Search Model.TripHistory Model.Promises Model.Predictor Model.Engine
  Proofs.SearchP Proofs.THBasics Proofs.THOrder.
Import ListNotations.
Open Scope Z_scope.

Section WithNum.
Context {N : NumOps}.
Local Notation K := (K N).
Local Notation traveller := (traveller N).
Local Notation engine := (engine N).
Local Notation flight := (flight N).

(** the clearance date of the kept promise after the refresh Cleared() performs (0 = no kept promise) *)
Definition refreshed_clearance (t : traveller) : Z :=
  if p_clear (t_kept t) =? 0 then 0
  else match match_promise (t_book t) (t_kept t) with Some c => c | None => p_clear (t_kept t) end.

(** "grounded at [now]": not mid-trip, balance not in credit, no kept promise whose clearance is reached *)
Definition grounded (t : traveller) (now : Z) : Prop :=
  mid_trip (t_hist t) = false /\
  kleb N (k0 N) (t_balance t) = false /\
  ((0 <? refreshed_clearance t) && (refreshed_clearance t <=? now)) = false.

Lemma cleared_kept_clear (t : traveller) now :
  p_clear (t_kept (snd (cleared t now))) = refreshed_clearance t /\
  t_hist (snd (cleared t now)) = t_hist t /\ t_balance (snd (cleared t now)) = t_balance t.
Proof.
  unfold cleared, refreshed_clearance. cbn [snd]. destruct (p_clear (t_kept t) =? 0) eqn:E.
  - apply Z.eqb_eq in E. auto.
  - destruct (match_promise _ _); auto.
Qed.

Theorem cleared_grounded_iff (t : traveller) now : fst (cleared t now) = CRGrounded <-> grounded t now.
Proof.
  destruct (cleared_kept_clear t now) as (Ec & Eh & Eb).
  unfold cleared in *. cbn [fst snd] in *. set (t1 := if p_clear (t_kept t) =? 0 then t else _) in *.
  unfold grounded. rewrite <- Ec, <- Eh, <- Eb.
  destruct (mid_trip (t_hist t1)); [split; [discriminate|intros (H & _); discriminate]|].
  destruct ((0 <? p_clear (t_kept t1)) && (p_clear (t_kept t1) <=? now)); [split; [discriminate|intros (_ & _ & H); discriminate]|].
  destruct (kleb N (k0 N) (t_balance t1)); [split; [discriminate|intros (_ & H & _); discriminate]|].
  split; auto.
Qed.

(** the single-flight decision *)
Theorem submit_flight_grounded_iff (t : traveller) f now taxi debit :
  submit_flight t f now taxi debit = inr EGrounded <-> grounded t now.
Proof.
  rewrite <- cleared_grounded_iff. unfold submit_flight.
  destruct (cleared t now) as [cr t1]. cbn [fst].
  destruct cr; try (split; [reflexivity|reflexivity]);
  (destruct (add_flight (t_hist t1) f); [|split; discriminate]);
  destruct debit; try destruct (kneb N taxi (k0 N)); split; discriminate.
Qed.

Corollary mid_trip_never_grounded (t : traveller) now : mid_trip (t_hist t) = true -> ~ grounded t now.
Proof. intros H (C & _). congruence. Qed.

Corollary never_flown_never_grounded now now' : ~ grounded (new_traveller (N:=N) now') now.
Proof. apply mid_trip_never_grounded. reflexivity. Qed.

Corollary in_credit_never_grounded (t : traveller) now : kleb N (k0 N) (t_balance t) = true -> ~ grounded t now.
Proof. intros H (_ & C & _). congruence. Qed.

Corollary kept_promise_due_never_grounded (t : traveller) now :
  0 < refreshed_clearance t <= now -> ~ grounded t now.
Proof.
  intros [H1 H2] (_ & _ & C). apply andb_false_iff in C. destruct C as [C|C]; [apply Z.ltb_ge in C|apply Z.leb_gt in C]; lia.
Qed.

(** engine level, one flight: refused as grounded iff the stored (or fresh) record is grounded *)
Theorem submit_one_grounded_iff (e : engine) k f now debit :
  snd (submit_flights e k [f] now debit) = Some EGrounded <-> grounded (get_create e k now) now.
Proof.
  rewrite <- submit_flight_grounded_iff with (f := f) (taxi := pTaxi (a_params (e_admin e))) (debit := debit).
  unfold submit_flights, submit_loop. cbn [submit_loop_from checkin_one].
  destruct (submit_flight (get_create e k now) f now (pTaxi (a_params (e_admin e))) debit) as [[[t1 bac] pd]|er] eqn:Es.
  - cbn [snd]. split; discriminate.
  - cbn [snd]. split; intros H; [injection H as ->; reflexivity|injection H as ->; reflexivity].
Qed.

(** all flights of one submission are accepted or refused together: an error stores nothing *)
Theorem submit_all_or_nothing (e : engine) k fs now debit :
  snd (submit_flights e k fs now debit) <> None ->
  e_table (fst (submit_flights e k fs now debit)) = e_table e.
Proof.
  unfold submit_flights. destruct fs as [|f r]; [reflexivity|].
  destruct (submit_loop _ _ _ _ _ _) as [[t' pc']|er]; cbn [fst snd e_table]; [intros C; contradiction|reflexivity].
Qed.

(** ---- multi-flight submissions: only the first flight can be refused as grounded when the flights
    are reported in order and are not older than the newest stored flight ---- *)
Lemma add_at_head (h : hist N) (f : flight) : ordered h ->
  fstart (getf (entries h) 0) <= fstart f -> 0 <= fstart f ->
  exists h', add_flight h f = inl h' /\ getf (entries h') 0 = f /\ ordered h'.
Proof.
  intros Ho Hle Hf. pose proof (add_flight_refines h f Ho) as Hr. pose proof Ho as (Hl & _ & _).
  destruct (entries h) as [|g t] eqn:El; [cbn in Hl; discriminate|].
  unfold getf in Hle. cbn [nth] in Hle.
  destruct (add_flight h f) as [h'|er] eqn:Ea.
  - exists h'. split; [reflexivity|]. split; [|eapply add_flight_ordered; eauto].
    destruct Hr as [E _]. rewrite E. cbn [insert_desc].
    destruct (Z.leb_spec (fstart g) (fstart f)); [reflexivity|lia].
  - destruct Hr as [_ Hall]. specialize (Hall g ltac:(left; reflexivity)). lia.
Qed.

Lemma submit_flight_hist (t : traveller) f now taxi debit t' bac pd :
  submit_flight t f now taxi debit = inl (t', bac, pd) -> add_flight (t_hist t) f = inl (t_hist t').
Proof.
  unfold submit_flight. destruct (cleared_kept_clear t now) as (_ & Eh & _).
  destruct (cleared t now) as [cr t1]. cbn [snd] in Eh. rewrite <- Eh.
  destruct cr; try discriminate;
  (destruct (add_flight (t_hist t1) f) as [h'|]; [|discriminate]);
  destruct debit; try destruct (kneb N taxi (k0 N)); intros E; injection E as <- _ _; reflexivity.
Qed.

(** flights in reporting order: plain flights with a positive start, none older than the one before *)
Fixpoint in_order (prev : Z) (fs : list flight) : Prop :=
  match fs with
  | [] => True
  | f :: r => et f = Fl /\ 0 < fstart f /\ prev <= fstart f /\ in_order (fstart f) r
  end.

(** with the repair the clearance of a check-in is decided once, at its first flight: the further
    flights of the submission are never refused as grounded *)
Lemma follow_on_never_grounded (t : traveller) f now taxi debit : follow_on_flight t f now taxi debit <> inr EGrounded.
Proof. unfold follow_on_flight. destruct (add_flight (t_hist t) f); discriminate. Qed.

Lemma rest_of_submission_never_grounded fs : forall (t : traveller) pc now p debit,
  submit_loop_from false t pc fs now p debit <> inr EGrounded.
Proof.
  induction fs as [|f r IH]; intros t pc now p debit; cbn [submit_loop_from checkin_one]; [discriminate|].
  destruct (follow_on_flight t f now (pTaxi p) debit) as [[[t1 bac] pd]|er] eqn:Es; [apply IH|].
  intros C. injection C as ->. exact (follow_on_never_grounded _ _ _ _ _ Es).
Qed.

(** THE multi-flight statement: a submission of any number of flights, in any order, is refused as
    grounded if and only if the traveller is grounded at the moment of the check-in *)
Theorem submission_grounded_iff (t : traveller) pc f r now p debit :
  submit_loop t pc (f :: r) now p debit = inr EGrounded <-> grounded t now.
Proof.
  rewrite <- (submit_flight_grounded_iff t f now (pTaxi p) debit).
  unfold submit_loop. cbn [submit_loop_from checkin_one].
  destruct (submit_flight t f now (pTaxi p) debit) as [[[t1 bac] pd]|er] eqn:Es.
  - split; [intros C; exfalso; exact (rest_of_submission_never_grounded _ _ _ _ _ _ C)|discriminate].
  - split; intros H; injection H as ->; reflexivity.
Qed.

Theorem in_order_submission_not_grounded fs : forall (t : traveller) pc now p debit,
  ~ grounded t now -> submit_loop t pc fs now p debit <> inr EGrounded.
Proof.
  intros t pc now p debit Hng. destruct fs as [|f r]; [discriminate|].
  intros C. apply Hng. apply (submission_grounded_iff t pc f r now p debit). exact C.
Qed.

(** engine level: any submission *)
Theorem submit_flights_grounded_iff (e : engine) k f r now debit :
  snd (submit_flights e k (f :: r) now debit) = Some EGrounded <-> grounded (get_create e k now) now.
Proof.
  rewrite <- (submission_grounded_iff (get_create e k now) (a_pc (e_admin e)) f r now (a_params (e_admin e)) debit).
  unfold submit_flights.
  destruct (submit_loop (get_create e k now) (a_pc (e_admin e)) (f :: r) now (a_params (e_admin e)) debit) as [[t' pc']|er];
    cbn [snd]; split; try discriminate; intros H; injection H as ->; reflexivity.
Qed.

End WithNum.
