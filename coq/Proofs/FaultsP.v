(** C14: for every fault schedule, an operation that reports success has handed every effect it
    claims to the store. *)
From Coq Require Import List Bool Arith Lia.
From Flap Require Import Model.Faults.
Import ListNotations.

Lemma puts_ok sch : forall n i, ok (puts_f sch i n) = true -> handed (puts_f sch i n) = n.
Proof.
  induction n as [|n IH]; intros i; cbn [puts_f]; [reflexivity|].
  destruct (sch i); cbn [ok handed]; [discriminate|]. intros H. rewrite IH by exact H. reflexivity.
Qed.

Theorem submit_ok_means_stored sch i : ok (submit_f sch i) = true -> handed (submit_f sch i) = 1.
Proof. unfold submit_f. destruct (sch i); [discriminate|]. cbn [ok handed]. destruct (sch (S i)); [discriminate|reflexivity]. Qed.

Theorem make_ok_means_stored sch i current : ok (make_f sch i current) = true -> handed (make_f sch i current) = 1.
Proof. unfold make_f. destruct (sch i); [discriminate|]. destruct current; cbn [ok handed]; [|discriminate]. destruct (sch (S i)); [discriminate|reflexivity]. Qed.

Theorem save_ok_means_all_stored sch i hp : ok (save_f sch i hp) = true ->
  handed (save_f sch i hp) = if hp then 4 else 3.
Proof. unfold save_f. apply puts_ok. Qed.

Lemma prefix_ok sch i c : ok (prefix_f sch i c) = true -> handed (prefix_f sch i c) = c.
Proof.
  unfold prefix_f. destruct (sch i); [discriminate|].
  destruct (ok (puts_f sch (S i) c)) eqn:E.
  - destruct (sch (next (puts_f sch (S i) c))); cbn [ok handed]; [discriminate|]. intros _. apply puts_ok, E.
  - rewrite E. discriminate.
Qed.

Lemma prefixes_ok sch : forall ps i, ok (prefixes_f sch i ps) = true ->
  handed (prefixes_f sch i ps) = fold_right Nat.add 0 ps.
Proof.
  induction ps as [|c r IH]; intros i; cbn [prefixes_f fold_right]; [reflexivity|].
  destruct (ok (prefix_f sch i c)) eqn:E; [|rewrite E; discriminate].
  cbn [ok handed]. intros H. rewrite (prefix_ok _ _ _ E), (IH _ H). reflexivity.
Qed.

Lemma worker_ok sch i ps : ok (worker_f sch i ps) = true -> handed (worker_f sch i ps) = fold_right Nat.add 0 ps.
Proof.
  unfold worker_f. destruct (sch i); [discriminate|]. cbn [ok handed]. intros H.
  apply andb_true_iff in H. destruct H as [H1 H2]. apply negb_true_iff in H2. rewrite H2. apply prefixes_ok, H1.
Qed.

Lemma workers_ok sch : forall ws i, ok (workers_f sch i ws) = true -> handed (workers_f sch i ws) = total_changed ws.
Proof.
  induction ws as [|w r IH]; intros i; cbn [workers_f total_changed fold_right]; [reflexivity|].
  cbn [ok handed]. intros H. apply andb_true_iff in H. destruct H as [H1 H2].
  rewrite (worker_ok _ _ _ H1), (IH _ H2). reflexivity.
Qed.

(** THE theorem for the daily update: whatever calls fail - snapshot, batch creation, iterator
    creation, iteration, any batch put, any flush, in any number and combination - success is
    reported only when every changed traveller record of every worker has been put and flushed *)
Theorem update_ok_means_everything_stored sch i ws :
  ok (update_f sch i ws) = true -> handed (update_f sch i ws) = total_changed ws.
Proof. unfold update_f. destruct (sch i); [discriminate|]. apply workers_ok. Qed.

(** conversely a fault at any write position is reported (contrapositive of the above, made explicit
    for the single-fault case the property lists) *)
Fixpoint positions_ok (sch : schedule) (i n : nat) : bool :=
  match n with O => true | S k => negb (sch i) && positions_ok sch (S i) k end.

Lemma puts_fault_reported sch : forall n i, ok (puts_f sch i n) = positions_ok sch i n.
Proof.
  induction n as [|n IH]; intros i; cbn [puts_f positions_ok]; [reflexivity|].
  destruct (sch i); cbn [ok negb andb]; [reflexivity|apply IH].
Qed.

(** the read side (with the repair): a failed read of the traveller record is reported by a check-in
    and by Make, and so is a failed write after a successful read *)
Theorem checkin_fault_reported sch i : sch i = true \/ sch (S i) = true -> ok (submit_f sch i) = false.
Proof. unfold submit_f. intros [H|H]; [rewrite H; reflexivity|]. destruct (sch i); [reflexivity|]. cbn [ok]. rewrite H. reflexivity. Qed.

Theorem make_fault_reported sch i current : sch i = true \/ sch (S i) = true -> ok (make_f sch i current) = false.
Proof.
  unfold make_f. intros [H|H]; [rewrite H; reflexivity|]. destruct (sch i); [reflexivity|].
  destruct current; [|reflexivity]. cbn [ok]. rewrite H. reflexivity.
Qed.
