(** C20, whole histories of one traveller-bot: planning (Propose + Make), check-ins and daily updates
    in any number and any interleaving.  For every history that follows the bot's discipline
    ([conforms], below) every check-in is accepted - in particular no check-in for a promised trip or
    its return is refused - whatever the balance, the shares, the predictors and the parameters.
    The proof is an invariant [J] kept by every step ([step_J]) and an induction over the history. *)
From Coq Require Import ZArith List Bool Arith Lia.
From Flap Require Import Model.Num Model.Search Model.TripHistory Model.Promises Model.Predictor Model.Engine
  Proofs.SearchP Proofs.THBasics Proofs.THOrder Proofs.PromisesP Proofs.PromisesFrameP Proofs.ClearedP
  Proofs.KeepP Proofs.ProtocolP.
Import ListNotations.
Open Scope Z_scope.

Section WithNum.
Context {N : NumOps}.
Local Notation K := (K N).
Local Notation flight := (flight N).
Local Notation hist := (hist N).
Local Notation traveller := (traveller N).
Local Notation book := (book N).
Local Notation promise := (promise N).
Local Notation predictor := (predictor N).

(** the maximum chain length (FlapParams.Promises.MaxStackSize) is fixed over the history *)
Variable mx : Z.
Hypothesis Hmx : 1 <= mx.

(** ---------- histories ---------- *)
Inductive ev :=
| EPlan (ts te : Z) (d tr : K) (now : Z) (pr : predictor)        (* Engine.Propose, then Engine.Make *)
| ECheckin (f : flight) (now : Z) (pc : pcstate N) (p : params N) (debit : bool)  (* Engine.SubmitFlights, one flight *)
| EUpdate (p : params N) (share : K) (now : Z).                   (* this traveller's part of the daily update *)

Definition ev_time (e : ev) : Z :=
  match e with EPlan _ _ _ _ now _ => now | ECheckin _ now _ _ _ => now | EUpdate _ _ now => now end.

Definition plan (t : traveller) ts te d tr now (pr : predictor) : traveller :=
  match propose (t_book t) ts te d tr now pr mx with
  | inl pp => match make (t_book t) pp pr with inl b => set_book t b | inr _ => t end
  | inr _ => t
  end.

Definition apply_ev (t : traveller) (e : ev) : traveller :=
  match e with
  | EPlan ts te d tr now pr => plan t ts te d tr now pr
  | ECheckin f now pc p debit =>
      match submit_loop t pc [f] now p debit with inl (t', _) => t' | inr _ => t end
  | EUpdate p share now =>
      match fst (update_traveller t p share now) with Some t' => t' | None => t end
  end.

(** a check-in is accepted: SubmitFlights returns no error of any kind *)
Definition accepted (t : traveller) (e : ev) : Prop :=
  match e with
  | ECheckin f now pc p debit => exists r, submit_loop t pc [f] now p debit = inl r
  | _ => True
  end.

(** ---------- the bot's discipline ---------- *)
(** a promised trip that starts after the trip of the promise last kept: not flown yet *)
Definition unflown (t : traveller) (i : nat) : Prop :=
  p_ts (getp (t_book t) i) <> 0 /\ p_ts (t_kept t) < p_ts (getp (t_book t) i).

Definition hist_after_update (t : traveller) (p : params N) (now : Z) : hist :=
  match update (t_hist t) (th_params p) now with inl (h', _, _) => h' | inr _ => t_hist t end.

Definition conforms (clk : Z) (t : traveller) (e : ev) : Prop :=
  clk <= ev_time e /\                                  (* time does not run backwards *)
  match e with
  | EPlan ts te d tr now pr =>
      SecondsInDay <= now /\ te < tmax /\ keqb N d d = true /\
      (* the predictor's answers are day numbers in range: every clearance date of an accepted proposal is positive *)
      (forall pp, propose (t_book t) ts te d tr now pr mx = inl pp -> Pos (pp_entries pp)) /\
      (* between trips: the new trip starts after the last one flown, and planning happens no later
         than the start of the day of any promised trip not flown yet (no promised trip is skipped) *)
      (mid_trip (t_hist t) = false ->
         p_ts (t_kept t) < ts /\
         forall i, (i < MaxPromises)%nat -> unflown t i -> now <= day_start (p_ts (getp (t_book t) i)))
  | ECheckin f now pc p debit =>
      (* flights are reported in time order ... *)
      is_end f = false /\ 0 < fstart f /\ fstart (getf (entries (t_hist t)) 0) <= fstart f /\
      (* ... and a departure is for a promised trip not flown yet, at or after its promised start *)
      (mid_trip (t_hist t) = false ->
         exists i, (i < MaxPromises)%nat /\ unflown t i /\ p_ts (getp (t_book t) i) <= now)
  | EUpdate p share now =>
      (* the trip rules do not close (or reopen) the trip by themselves - trips are closed by keeping
         their promise - and an open trip has started before the update *)
      let h1 := hist_after_update t p now in
      mid_trip h1 = mid_trip (t_hist t) /\
      (mid_trip h1 = true -> fst (fst (trip_start_end_length h1)) <= now)
  end.

Fixpoint conforming (clk : Z) (t : traveller) (evs : list ev) : Prop :=
  match evs with
  | [] => True
  | e :: r => conforms clk t e /\ conforming (ev_time e) (apply_ev t e) r
  end.

Fixpoint all_accepted (t : traveller) (evs : list ev) : Prop :=
  match evs with
  | [] => True
  | e :: r => accepted t e /\ all_accepted (apply_ev t e) r
  end.

(** ---------- the invariant ---------- *)
Definition DistOK (b : book) : Prop := forall i, (i < MaxPromises)%nat -> p_ts (getp b i) <> 0 ->
  keqb N (p_dist (getp b i)) (p_dist (getp b i)) = true.

(** between trips the traveller is covered by the kept promise: its entry is still in the book, where
    its clearance date is the stored one or has been brought forward to the start of the day of a
    trip not flown yet; or it has left the book and the stored clearance date has passed *)
Definition Cov (clk : Z) (b : book) (k : promise) : Prop :=
  p_ts k <> 0 /\ p_clear k <> 0 /\ p_ts k <= clk /\
  ((exists i, (i < MaxPromises)%nat /\ p_ts (getp b i) = p_ts k /\ p_te (getp b i) = p_te k /\
      keqb N (p_dist (getp b i)) (p_dist k) = true /\
      (p_clear (getp b i) = p_clear k \/
       exists j, (j < i)%nat /\ p_ts (getp b j) <> 0 /\ p_clear (getp b i) = day_start (p_ts (getp b j))))
   \/ ((forall m, (m < MaxPromises)%nat -> p_ts (getp b m) <> p_ts k) /\ 0 < p_clear k <= clk)).

Record J (clk : Z) (t : traveller) : Prop := mkJ {
  j_inv : Inv mx (t_book t);
  j_pos : Pos (t_book t);
  j_dist : DistOK (t_book t);
  j_ord : ordered (t_hist t);
  j_cov : mid_trip (t_hist t) = false -> Cov clk (t_book t) (t_kept t) }.

Lemma Cov_mono clk clk' b k : clk <= clk' -> Cov clk b k -> Cov clk' b k.
Proof.
  intros Hle (A & B & C & D). split; [exact A|]. split; [exact B|]. split; [lia|].
  destruct D as [D|[D1 D2]]; [left; exact D|right; split; [exact D1|lia]].
Qed.

Lemma J_mono clk clk' t : clk <= clk' -> J clk t -> J clk' t.
Proof. intros Hle [A B C D E]. constructor; auto. intros Hm. eapply Cov_mono; eauto. Qed.

(** ---------- small facts ---------- *)
Lemma core_fields (p q : promise) : core p = core q ->
  p_ts p = p_ts q /\ p_te p = p_te q /\ p_dist p = p_dist q.
Proof. unfold core. intros E. injection E as E1 E2 E3 _. auto. Qed.

Lemma core_new (p : promise) ts te (d tr : K) : core p = (ts, te, d, tr) -> p_ts p = ts /\ p_dist p = d.
Proof. unfold core. intros E. injection E as E1 _ E3 _. auto. Qed.

Lemma match_none_without_ts (b : book) (k : promise) :
  (forall m, (m < MaxPromises)%nat -> p_ts (getp b m) <> p_ts k) -> match_promise b k = None.
Proof.
  intros H. unfold match_promise. set (i := search MaxPromises _).
  destruct (Nat.ltb_spec i MaxPromises) as [Hi|Hi]; [|reflexivity].
  destruct (Z.eqb_spec (p_ts (getp b i)) (p_ts k)) as [E|_]; [exfalso; exact (H i Hi E)|reflexivity].
Qed.

(** older entries of a consistent book start earlier *)
Lemma older_starts_earlier (b : book) i k : Inv mx b -> (i < k)%nat -> (k < MaxPromises)%nat ->
  p_ts (getp b k) <> 0 -> p_ts (getp b k) < p_ts (getp b i).
Proof.
  intros [Hl Hwf Hsep Hadj Hst] Hik Hk Hne.
  pose proof (Hsep i k Hik Hk Hne). destruct (Hwf k Hk) as [_ W]. specialize (W Hne). lia.
Qed.

Lemma cleared_book (t : traveller) now : t_book (snd (cleared t now)) = t_book t.
Proof.
  unfold cleared. cbn [snd]. destruct (p_clear (t_kept t) =? 0); [reflexivity|].
  destruct (match_promise _ _); reflexivity.
Qed.

Lemma submit_flight_book (t : traveller) f now taxi debit t' bac pd :
  submit_flight t f now taxi debit = inl (t', bac, pd) -> t_book t' = t_book t.
Proof.
  unfold submit_flight. pose proof (cleared_book t now) as Eb.
  destruct (cleared t now) as [cr t1]. cbn [snd] in Eb. rewrite <- Eb.
  destruct cr; try discriminate;
  (destruct (add_flight (t_hist t1) f) as [h'|]; [|discriminate]);
  destruct debit; try destruct (kneb N taxi (k0 N)); intros E; injection E as <- _ _; reflexivity.
Qed.

(** a single-flight submission: what it leaves *)
Lemma submit_single_shape (t : traveller) pc f now p debit t' pc' :
  submit_loop t pc [f] now p debit = inl (t', pc') ->
  t_book t' = t_book t /\ add_flight (t_hist t) f = inl (t_hist t').
Proof.
  unfold submit_loop. cbn [submit_loop_from checkin_one].
  destruct (submit_flight t f now (pTaxi p) debit) as [[[t1 bac] pd]|er] eqn:Es; [|discriminate].
  pose proof (submit_flight_book _ _ _ _ _ _ _ _ Es) as Eb.
  pose proof (submit_flight_hist _ _ _ _ _ _ _ _ Es) as Eh.
  destruct (has_bit (pAlgo p) pamCorrectBalances && kltb N bac (k0 N));
    intros E; injection E as <- _; cbn [transact t_book t_hist]; auto.
Qed.

(** ---------- keeping a promise ---------- *)
Lemma keep_scan_some (b : book) st en (d : K) p : forall idx,
  keep_scan b idx st en d = Some p -> exists k, (k < idx)%nat /\ p = getp b k /\ p_ts p <= st.
Proof.
  induction idx as [|n IH]; cbn [keep_scan]; [discriminate|].
  destruct (Z.ltb_spec st (p_ts (getp b n))) as [Hlt|Hge].
  - intros E. destruct (IH E) as (k & Hk & Hp & Hs). exists k. split; [lia|auto].
  - destruct ((en <=? p_te (getp b n)) && keqb N (p_trav (getp b n)) d).
    + intros E. injection E as <-. exists n. split; [lia|]. split; [reflexivity|exact Hge].
    + intros E. destruct (IH E) as (k & Hk & Hp & Hs). exists k. split; [lia|auto].
Qed.

Lemma keep_promise_false (t : traveller) : snd (keep_promise t) = false -> fst (keep_promise t) = t.
Proof.
  unfold keep_promise. destruct (mid_trip (t_hist t)); [|reflexivity].
  destruct (trip_start_end_length (t_hist t)) as [[st en] d].
  destruct (keep (t_book t) st en d); [|reflexivity].
  destruct (end_trip_op (t_hist t)); [|reflexivity]. cbn [snd]. discriminate.
Qed.

Lemma mid_trip_after_end (h h' : hist) : end_trip_op h = inl h' -> mid_trip h' = false.
Proof.
  unfold end_trip_op. destruct (hempty h) eqn:Hne; [discriminate|]. intros E. injection E as <-.
  unfold mid_trip, hempty, set_head_et in *. destruct (entries h) as [|f r] eqn:El; [cbn in Hne; discriminate|].
  cbn [entries getf nth fstart set_et] in *. rewrite Hne. reflexivity.
Qed.

Lemma keep_promise_cases (t : traveller) : Inv mx (t_book t) ->
  fst (keep_promise t) = t \/
  (mid_trip (t_hist t) = true /\
   exists k, (k < MaxPromises)%nat /\ p_ts (getp (t_book t) k) <> 0 /\
     p_ts (getp (t_book t) k) <= fst (fst (trip_start_end_length (t_hist t))) /\
     t_kept (fst (keep_promise t)) = getp (t_book t) k /\
     t_book (fst (keep_promise t)) = t_book t /\
     mid_trip (t_hist (fst (keep_promise t))) = false /\
     end_trip_op (t_hist t) = inl (t_hist (fst (keep_promise t)))).
Proof.
  intros HI. unfold keep_promise. destruct (mid_trip (t_hist t)) eqn:Hm; [|left; reflexivity].
  destruct (trip_start_end_length (t_hist t)) as [[st en] d] eqn:Et.
  unfold keep. destruct (keqb N d (k0 N)); [left; reflexivity|].
  destruct (keep_scan (t_book t) (book_count (t_book t)) st en d) as [p|] eqn:Ek; [|left; reflexivity].
  destruct (end_trip_op (t_hist t)) as [h'|er] eqn:Ee; [|left; reflexivity].
  right. split; [reflexivity|].
  destruct (keep_scan_some _ _ _ _ _ _ Ek) as (k & Hk & Hp & Hs).
  destruct (book_count_spec mx (t_book t) HI) as (_ & Hc2 & Hc3).
  exists k. cbn [fst set_kept set_hist t_kept t_book t_hist].
  split; [lia|]. split; [apply Hc2, Hk|]. split; [rewrite <- Hp; exact Hs|].
  split; [exact Hp|]. split; [reflexivity|]. split; [exact (mid_trip_after_end _ _ Ee)|reflexivity].
Qed.

(** the traveller's part of the daily update: trip rules, (possibly) a share, then keep *)
Lemma update_traveller_shape (t : traveller) p share now :
  exists t2, t_book t2 = t_book t /\ t_kept t2 = t_kept t /\ t_hist t2 = hist_after_update t p now /\
    match fst (update_traveller t p share now) with Some x => x | None => t end = fst (keep_promise t2).
Proof.
  unfold update_traveller, hist_after_update.
  destruct (update (t_hist t) (th_params p) now) as [[[h' dy] fy]|er].
  - set (t1 := set_hist t h').
    set (g := negb (mid_trip (t_hist t1)) && kltb N (t_balance t1) (k0 N)).
    set (t2 := if g then transact t1 share now TTDailyShare else t1).
    exists t2. split; [unfold t2; destruct g; reflexivity|]. split; [unfold t2; destruct g; reflexivity|].
    split; [unfold t2; destruct g; reflexivity|].
    destruct (keep_promise t2) as [t3 kept]. cbn [fst orb]. reflexivity.
  - set (g := negb (mid_trip (t_hist t)) && kltb N (t_balance t) (k0 N)).
    set (t2 := if g then transact t share now TTDailyShare else t).
    exists t2. split; [unfold t2; destruct g; reflexivity|]. split; [unfold t2; destruct g; reflexivity|].
    split; [unfold t2; destruct g; reflexivity|].
    destruct (keep_promise t2) as [t3 kept] eqn:Ek. cbn [fst orb].
    destruct g eqn:Eg; cbn [orb fst]; [reflexivity|].
    destruct kept; cbn [fst]; [reflexivity|].
    pose proof (keep_promise_false t2) as Hf. rewrite Ek in Hf. cbn [fst snd] in Hf.
    rewrite (Hf eq_refl). unfold t2. reflexivity.
Qed.

(** ---------- a covered traveller is not grounded at a promised departure ---------- *)
Lemma covered_not_grounded clk (t : traveller) now : Inv mx (t_book t) -> Pos (t_book t) ->
  Cov clk (t_book t) (t_kept t) -> clk <= now ->
  (exists i, (i < MaxPromises)%nat /\ unflown t i /\ p_ts (getp (t_book t) i) <= now) ->
  ~ grounded t now.
Proof.
  intros HI HP (Hts & Hcl & Hclk & Hc) Hnow (i & Hi & [Hine Hilt] & Hinow).
  destruct Hc as [(k & Hk & Ets & Ete & Ed & _)|[Hno Hpass]].
  - assert (Hik : (i < k)%nat).
    { destruct (Nat.lt_trichotomy i k) as [H|[->|H]]; [exact H|lia|].
      pose proof (older_starts_earlier (t_book t) k i HI H Hi Hine). lia. }
    apply (later_promised_trip_not_grounded mx t k i now HI Hk Hik); auto.
    apply (HP k Hk). rewrite Ets. exact Hts.
  - apply departed_kept_promise_not_grounded; [apply match_none_without_ts, Hno|lia].
Qed.

(** ---------- the steps ---------- *)
Lemma checkin_J clk (t : traveller) f now pc p debit :
  J clk t -> conforms clk t (ECheckin f now pc p debit) ->
  accepted t (ECheckin f now pc p debit) /\ J now (apply_ev t (ECheckin f now pc p debit)).
Proof.
  intros [HI HP HD HO HC] (Hclk & Hend & Hpos & Hnew & Hdep). cbn [ev_time] in Hclk.
  cbn [accepted apply_ev].
  assert (Hng : ~ grounded t now).
  { destruct (mid_trip (t_hist t)) eqn:Hm; [apply mid_trip_not_grounded, Hm|].
    eapply covered_not_grounded; eauto. }
  destruct (add_at_head (t_hist t) f HO Hnew ltac:(lia)) as (h' & Ea & Hhead & Ho').
  destruct (submit_loop t pc [f] now p debit) as [[t' pc']|er] eqn:Es.
  - split; [eauto|]. destruct (submit_single_shape _ _ _ _ _ _ _ _ Es) as [Eb Eh].
    rewrite Ea in Eh. injection Eh as Eh.
    constructor; rewrite ?Eb; auto; rewrite <- Eh; [exact Ho'|].
    intros Hm. unfold mid_trip in Hm. rewrite Hhead, Hend in Hm. rewrite orb_true_r in Hm. discriminate.
  - exfalso. unfold submit_loop in Es. cbn [submit_loop_from checkin_one] in Es.
    destruct (submit_flight t f now (pTaxi p) debit) as [[[t1 bac] pd]|er1] eqn:Es1;
      [destruct (has_bit _ _ && _); discriminate|].
    unfold submit_flight in Es1. pose proof (cleared_grounded_iff t now) as Hg.
    destruct (cleared_kept_clear t now) as (_ & Eh & _).
    destruct (cleared t now) as [cr t1]. cbn [fst snd] in *. rewrite Eh, Ea in Es1.
    destruct cr; try discriminate. apply Hng, Hg. reflexivity.
Qed.

Lemma update_J clk (t : traveller) p share now :
  J clk t -> conforms clk t (EUpdate p share now) -> J now (apply_ev t (EUpdate p share now)).
Proof.
  intros [HI HP HD HO HC] (Hclk & Hmid & Hst). cbn [ev_time] in Hclk. cbn zeta in Hmid, Hst.
  cbn [apply_ev].
  destruct (update_traveller_shape t p share now) as (t2 & Eb & Ek & Eh & ->).
  assert (Ho2 : ordered (t_hist t2)).
  { rewrite Eh. unfold hist_after_update.
    destruct (update (t_hist t) (th_params p) now) as [[[h' dy] fy]|er] eqn:Eu; [|exact HO].
    eapply ordered_erase; [|exact HO]. eapply update_keeps_flight_data; [apply HO|exact Eu]. }
  rewrite <- Eh in Hmid, Hst.
  assert (HI2 : Inv mx (t_book t2)) by (rewrite Eb; exact HI).
  destruct (keep_promise_cases t2 HI2) as [->|(Hm2 & k & Hk & Hne & Hle & Ekept & Ebook & Hmid' & Eend)].
  - constructor; rewrite ?Eb; auto. rewrite Ek. intros Hm. rewrite Hmid in Hm.
    eapply Cov_mono; [exact Hclk|]. exact (HC Hm).
  - constructor; rewrite ?Ebook, ?Eb; auto.
    + eapply ordered_erase; [eapply end_trip_op_data; exact Eend|exact Ho2].
    + intros _. rewrite Ekept, Eb. specialize (Hst Hm2).
      destruct (HP k Hk ltac:(rewrite <- Eb; exact Hne)) as [_ Hcp]. rewrite Eb in Hne, Hle.
      split; [exact Hne|]. split; [lia|]. split; [lia|]. left. exists k.
      split; [exact Hk|]. split; [reflexivity|]. split; [reflexivity|]. split; [apply HD; assumption|].
      left. reflexivity.
Qed.

Lemma plan_J clk (t : traveller) ts te d tr now (pr : predictor) :
  J clk t -> conforms clk t (EPlan ts te d tr now pr) -> J now (apply_ev t (EPlan ts te d tr now pr)).
Proof.
  intros HJ (Hclk & Hday & Htmax & Hdd & Hpos & Hbetween). cbn [ev_time] in Hclk. cbn [apply_ev]. unfold plan.
  destruct (propose (t_book t) ts te d tr now pr mx) as [pp|er] eqn:Ep; [|apply (J_mono clk); assumption].
  unfold make. destruct (pr_version pr =? pp_version pp); [|apply (J_mono clk); assumption].
  destruct HJ as [HI HP HD HO HC].
  assert (Hsd : SecondsInDay = 86400) by reflexivity.
  destruct (propose_spec mx (t_book t) ts te d tr now pr pp Hmx ltac:(lia) Htmax HI Ep) as (HI' & _ & _).
  pose proof (Hpos pp eq_refl) as HP'.
  destruct (propose_frame mx (t_book t) ts te d tr now pr pp HI Ep)
    as (i & Hi & Hnow & Hts0 & Cnew & Clo & Chi & Fhi & Fadj & Fdrop).
  set (b := t_book t) in *. set (b' := pp_entries pp) in *.
  (* every entry of the new book is the new promise or an old one *)
  assert (Hcases : forall m, (m < MaxPromises)%nat ->
            ((m < i)%nat /\ core (getp b' m) = core (getp b m)) \/
            (m = i /\ core (getp b' m) = (ts, te, d, tr)) \/
            (exists m0, (i <= m0)%nat /\ (S m0 < MaxPromises)%nat /\ m = S m0 /\ core (getp b' m) = core (getp b m0))).
  { intros m Hm. destruct (Nat.lt_trichotomy m i) as [H|[->|H]].
    - left. split; [exact H|apply Clo, H].
    - right. left. split; [reflexivity|exact Cnew].
    - right. right. destruct m as [|m0]; [lia|]. exists m0. split; [lia|]. split; [exact Hm|]. split; [reflexivity|].
      apply Chi; [lia|exact Hm]. }
  constructor; cbn [set_book t_book t_hist t_kept]; auto.
  - (* distances *)
    intros m Hm Hne. destruct (Hcases m Hm) as [[Hlt Ec]|[[-> Ec]|(m0 & H0 & H1 & -> & Ec)]].
    + destruct (core_fields _ _ Ec) as (E1 & _ & E3). rewrite E3. apply HD; [lia|]. rewrite <- E1. exact Hne.
    + destruct (core_new _ _ _ _ _ Ec) as (_ & E3). rewrite E3. exact Hdd.
    + destruct (core_fields _ _ Ec) as (E1 & _ & E3). rewrite E3. apply HD; [unfold MaxPromises in *; lia|]. rewrite <- E1. exact Hne.
  - (* the kept promise *)
    intros Hm. specialize (HC Hm). destruct (Hbetween Hm) as [Hafter Hnoskip].
    destruct HC as (Hkts & Hkcl & Hkclk & Hc).
    split; [exact Hkts|]. split; [exact Hkcl|]. split; [lia|].
    set (kp := t_kept t) in *.
    (* no entry of the new book that comes from an old entry other than the kept one, and not the new
       promise either, starts when the kept trip started *)
    destruct Hc as [(k & Hk & Ets & Ete & Ed & Hclr)|[Hno Hpass]].
    + assert (Hki : (i <= k)%nat).
      { destruct (Nat.le_gt_cases i k) as [H|H]; [exact H|]. destruct (Clo k H) as [_ Hlt]. fold b in Hlt. lia. }
      assert (Hkne : p_ts (getp b k) <> 0) by (rewrite Ets; exact Hkts).
      destruct (Nat.lt_ge_cases (S k) MaxPromises) as [HSk|HSk].
      * (* it moves up by one *)
        left. exists (S k). split; [exact HSk|].
        destruct (core_fields _ _ (Chi k Hki HSk)) as (E1 & E2 & E3). fold b b' in E1, E2, E3.
        split; [rewrite E1; exact Ets|]. split; [rewrite E2; exact Ete|]. split; [rewrite E3; exact Ed|].
        assert (Hold : p_clear (getp b' (S k)) = p_clear (getp b k) ->
                       p_clear (getp b' (S k)) = p_clear kp \/
                       exists j, (j < S k)%nat /\ p_ts (getp b' j) <> 0 /\ p_clear (getp b' (S k)) = day_start (p_ts (getp b' j))).
        { intros Ecl. destruct Hclr as [E|(j & Hj & Hjne & Ej)]; [left; congruence|]. right.
          destruct (Nat.lt_ge_cases j i) as [Hji|Hji].
          - exists j. destruct (core_fields _ _ (proj1 (Clo j Hji))) as (F1 & _). fold b b' in F1.
            split; [lia|]. split; [rewrite F1; exact Hjne|]. rewrite F1. congruence.
          - exists (S j). destruct (core_fields _ _ (Chi j Hji ltac:(lia))) as (F1 & _). fold b b' in F1.
            split; [lia|]. split; [rewrite F1; exact Hjne|]. rewrite F1. congruence. }
        destruct (Nat.eq_dec k i) as [->|Hnki].
        -- destruct (Fadj HSk) as [E|E]; fold b b' in E; [exact (Hold E)|].
           right. exists i. split; [lia|]. destruct (core_new _ _ _ _ _ Cnew) as (F1' & _).
           split; [rewrite F1'; exact Hts0|]. rewrite F1'. exact E.
        -- apply Hold. pose proof (Fhi k ltac:(lia) HSk) as E. fold b b' in E. rewrite E. reflexivity.
      * (* it was the oldest entry and has been dropped: its clearance date has passed *)
        assert (Ek9 : k = (MaxPromises - 1)%nat) by lia.
        right. split.
        -- intros m Hm9. destruct (Hcases m Hm9) as [[Hlt Ec]|[[-> Ec]|(m0 & H0 & H1 & -> & Ec)]].
           ++ destruct (core_fields _ _ Ec) as (E1 & _). rewrite E1. destruct (Clo m Hlt) as [_ Hl2]. fold b in Hl2. lia.
           ++ destruct (core_new _ _ _ _ _ Ec) as (E1' & _). rewrite E1'. lia.
           ++ destruct (core_fields _ _ Ec) as (E1 & _). rewrite E1.
              pose proof (older_starts_earlier b m0 k HI ltac:(lia) Hk Hkne). lia.
        -- specialize (Fdrop ltac:(rewrite <- Ek9; exact Hkne)). rewrite <- Ek9 in Fdrop. fold b in Fdrop.
           destruct (HP k Hk Hkne) as [_ Hcpos]. fold b in Hcpos.
           destruct Hclr as [E|(j & Hj & Hjne & Ej)]; [lia|]. exfalso.
           assert (Hun : unflown t j).
           { split; [exact Hjne|]. change (p_ts kp < p_ts (getp b j)). pose proof (older_starts_earlier b j k HI Hj Hk Hkne). lia. }
           specialize (Hnoskip j ltac:(lia) Hun). fold b in Hnoskip. lia.
    + (* already gone *)
      right. split; [|lia].
      intros m Hm9. destruct (Hcases m Hm9) as [[Hlt Ec]|[[-> Ec]|(m0 & H0 & H1 & -> & Ec)]].
      * destruct (core_fields _ _ Ec) as (E1 & _). rewrite E1. apply Hno. lia.
      * destruct (core_new _ _ _ _ _ Ec) as (E1' & _). rewrite E1'. lia.
      * destruct (core_fields _ _ Ec) as (E1 & _). rewrite E1. apply Hno. unfold MaxPromises in *. lia.
Qed.

Lemma step_J clk (t : traveller) e : J clk t -> conforms clk t e -> accepted t e /\ J (ev_time e) (apply_ev t e).
Proof.
  intros HJ Hc. destruct e as [ts te d tr now pr|f now pc p debit|p share now]; cbn [ev_time].
  - split; [exact I|apply (plan_J clk); assumption].
  - apply (checkin_J clk); assumption.
  - split; [exact I|apply (update_J clk); assumption].
Qed.

(** THE theorem: every check-in of a history that follows the discipline is accepted *)
Theorem conforming_history_all_accepted evs : forall clk (t : traveller),
  J clk t -> conforming clk t evs -> all_accepted t evs.
Proof.
  induction evs as [|e r IH]; intros clk t HJ Hc; cbn [all_accepted conforming] in *; [exact I|].
  destruct Hc as [Hc Hr]. destruct (step_J clk t e HJ Hc) as [Ha HJ']. split; [exact Ha|]. exact (IH _ _ HJ' Hr).
Qed.

(** a traveller with no record yet satisfies the invariant *)
Lemma new_traveller_J clk now : J clk (new_traveller now).
Proof.
  constructor; cbn [new_traveller t_book t_hist t_kept].
  - apply Inv_empty. lia.
  - apply Pos_empty.
  - intros i Hi H. rewrite getp_empty_book in H. cbn in H. contradiction.
  - apply empty_hist_ordered.
  - intros H. discriminate H.
Qed.

Theorem bot_history_never_refused evs clk now :
  conforming clk (new_traveller now) evs -> all_accepted (new_traveller now) evs.
Proof. apply conforming_history_all_accepted, new_traveller_J. Qed.

(** ---------- a decision procedure for the discipline (everything but the predictor's sanity) ---------- *)
Definition unflownb (t : traveller) (i : nat) : bool :=
  negb (p_ts (getp (t_book t) i) =? 0) && (p_ts (t_kept t) <? p_ts (getp (t_book t) i)).

Definition conformsb (clk : Z) (t : traveller) (e : ev) : bool :=
  (clk <=? ev_time e) &&
  match e with
  | EPlan ts te d tr now pr =>
      (SecondsInDay <=? now) && (te <? tmax) && keqb N d d &&
      match propose (t_book t) ts te d tr now pr mx with inl pp => posb (pp_entries pp) | inr _ => true end &&
      (mid_trip (t_hist t) ||
       ((p_ts (t_kept t) <? ts) &&
        forallb (fun i => negb (unflownb t i) || (now <=? day_start (p_ts (getp (t_book t) i)))) (seq 0 MaxPromises)))
  | ECheckin f now pc p debit =>
      negb (is_end f) && (0 <? fstart f) && (fstart (getf (entries (t_hist t)) 0) <=? fstart f) &&
      (mid_trip (t_hist t) ||
       existsb (fun i => unflownb t i && (p_ts (getp (t_book t) i) <=? now)) (seq 0 MaxPromises))
  | EUpdate p share now =>
      let h1 := hist_after_update t p now in
      Bool.eqb (mid_trip h1) (mid_trip (t_hist t)) &&
      (negb (mid_trip h1) || (fst (fst (trip_start_end_length h1)) <=? now))
  end.

(** the clause about the predictor holds for every predictor whose answers are day numbers in range *)
Lemma sane_predictor_keeps_clearances_positive (t : traveller) ts te d tr now (pr : predictor) :
  Inv mx (t_book t) -> Pos (t_book t) -> SecondsInDay <= now -> te < tmax -> pred_ok pr ->
  forall pp, propose (t_book t) ts te d tr now pr mx = inl pp -> Pos (pp_entries pp).
Proof. intros HI HP Hday Htmax Hpr pp Ep. exact (propose_pos mx (t_book t) ts te d tr now pr pp Hday Htmax HI HP Hpr Ep). Qed.

Lemma unflownb_spec (t : traveller) i : unflownb t i = true <-> unflown t i.
Proof.
  unfold unflownb, unflown. rewrite andb_true_iff, negb_true_iff, Z.eqb_neq, Z.ltb_lt. reflexivity.
Qed.

Lemma conformsb_sound clk (t : traveller) e : conformsb clk t e = true -> conforms clk t e.
Proof.
  unfold conformsb, conforms. rewrite andb_true_iff, Z.leb_le. intros [Hclk H]. split; [exact Hclk|].
  destruct e as [ts te d tr now pr|f now pc p debit|p share now].
  - rewrite !andb_true_iff in H. destruct H as [[[[H1 H2] H3] Hp] H4].
    apply Z.leb_le in H1. apply Z.ltb_lt in H2.
    split; [exact H1|]. split; [exact H2|]. split; [exact H3|].
    split; [intros pp Ep; rewrite Ep in Hp; apply posb_spec, Hp|].
    intros Hm. rewrite Hm in H4. cbn [orb] in H4. apply andb_true_iff in H4. destruct H4 as [H5 H6].
    apply Z.ltb_lt in H5. split; [exact H5|]. intros i Hi Hu. rewrite forallb_forall in H6.
    specialize (H6 i ltac:(apply in_seq; lia)). apply orb_true_iff in H6. destruct H6 as [H6|H6].
    + apply negb_true_iff in H6. apply unflownb_spec in Hu. congruence.
    + apply Z.leb_le in H6. exact H6.
  - rewrite !andb_true_iff in H. destruct H as [[[H1 H2] H3] H4].
    apply negb_true_iff in H1. apply Z.ltb_lt in H2. apply Z.leb_le in H3.
    split; [exact H1|]. split; [exact H2|]. split; [exact H3|].
    intros Hm. rewrite Hm in H4. cbn [orb] in H4. apply existsb_exists in H4. destruct H4 as (i & Hin & H5).
    apply in_seq in Hin. apply andb_true_iff in H5. destruct H5 as [H5 H6]. apply Z.leb_le in H6.
    exists i. split; [lia|]. split; [apply unflownb_spec, H5|exact H6].
  - cbn zeta in *. apply andb_true_iff in H. destruct H as [H1 H2]. apply Bool.eqb_prop in H1.
    split; [exact H1|]. intros Hm. rewrite Hm in H2. cbn [negb orb] in H2. apply Z.leb_le in H2. exact H2.
Qed.

Fixpoint conformingb (clk : Z) (t : traveller) (evs : list ev) : bool :=
  match evs with
  | [] => true
  | e :: r => conformsb clk t e && conformingb (ev_time e) (apply_ev t e) r
  end.

Lemma conformingb_sound evs : forall clk (t : traveller),
  conformingb clk t evs = true -> conforming clk t evs.
Proof.
  induction evs as [|e r IH]; intros clk t; cbn [conformingb conforming]; [auto|].
  rewrite andb_true_iff. intros [H1 H2].
  split; [apply conformsb_sound; assumption|apply IH; assumption].
Qed.

(** acceptance, decided *)
Definition acceptedb (t : traveller) (e : ev) : bool :=
  match e with
  | ECheckin f now pc p debit => match submit_loop t pc [f] now p debit with inl _ => true | inr _ => false end
  | _ => true
  end.
Fixpoint all_acceptedb (t : traveller) (evs : list ev) : bool :=
  match evs with [] => true | e :: r => acceptedb t e && all_acceptedb (apply_ev t e) r end.

Lemma all_acceptedb_complete evs : forall (t : traveller), all_accepted t evs -> all_acceptedb t evs = true.
Proof.
  induction evs as [|e r IH]; intros t; cbn [all_accepted all_acceptedb]; [auto|].
  intros [Ha Hr]. rewrite (IH _ Hr), andb_true_r.
  destruct e as [ts te d tr now pr|f now pc p debit|p share now]; cbn [acceptedb accepted] in *; auto.
  destruct Ha as [r0 ->]. reflexivity.
Qed.

(** the runnable form of the theorem: a history that passes the discipline check has every check-in accepted *)
Corollary checked_history_all_accepted evs clk now :
  conformingb clk (new_traveller now) evs = true -> all_acceptedb (new_traveller now) evs = true.
Proof.
  intros Hc. apply all_acceptedb_complete, (bot_history_never_refused evs clk now), conformingb_sound; assumption.
Qed.

End WithNum.
