package main

import (
	"fmt"
	"path/filepath"
	"strings"
)

func init() {
	runners["C01"] = runC01
	runners["C02"] = runC02
	runners["C03"] = runC03
	runners["C17"] = runC17
	runners["C12"] = runC12
}

func opsDigest(s *engSession) string {
	var b []string
	for _, o := range s.ops {
		if o["op"] == "restart" {
			continue
		}
		b = append(b, fmt.Sprint(o["op"], o["res"], o["ok"], o["grounded"], o["share"], o["flights"], o["slot"]))
	}
	return strings.Join(b, "|")
}

func runC12(o *Out, rng *Rng, tier string, replay string) {
	n := engCounts(tier) * 2 / 3
	o.sum.Rule = "case = the same engine history run twice on the real code from the same random choices: once uninterrupted, once with the engine released, the database closed and reopened and a new engine created at about a quarter of the day boundaries (all promise algorithms and correction options, parameter changes during the run including switching promises off and on); every API result, the final tables and the final administrator state must be identical; the interrupted run is also compared step by step with the model, whose restart really encodes and decodes the administrator state (C12 projection = full hashes of every record, the administrator state and the table after every update); non-trivial = at least 2 restarts with a predictor holding data; distinct by script hash"
	wd := filepath.Join(o.dir, "dbs")
	for c := 0; c < n; c++ {
		r := rng.Fork()
		cfg := engCfg{nTrav: r.Range(1, 5), days: r.Range(8, 30), promises: -1, restarts: true, paramChanges: true}
		a := genEngine(r.Clone(), wd, "C12", cfg)
		cfg.restarts = false
		b := genEngine(r.Clone(), wd, "none", cfg)
		if opsDigest(a) != opsDigest(b) {
			a.fail("C12", "restart-changed-an-api-result", "the interrupted and the uninterrupted run of the same history return different results")
		}
		if a.tableDigest() != b.tableDigest() {
			a.fail("C12", "restart-changed-traveller-records", "the interrupted and the uninterrupted run end with different traveller tables")
		}
		if hashAdmin(a.eng.Administrator) != hashAdmin(b.eng.Administrator) {
			a.fail("C12", "restart-changed-administrator-state", fmt.Sprintf("the interrupted and the uninterrupted run end with different administrator state (predictor %+v vs %+v)", a.eng.Administrator.VerifPredictor(), b.eng.Administrator.VerifPredictor()))
		}
		keepFails(o, a, "C12")
		engNote(o, a)
		ps := a.eng.Administrator.VerifPredictor()
		o.AddCase(List(a.coq), a.stat["restarts"] >= 2 && len(ps.Ys) > 1, a.ops)
		a.close()
		b.close()
	}
	engFlush(o, "C12")
}

func runC17(o *Out, rng *Rng, tier string, replay string) {
	n := engCounts(tier)
	o.sum.Rule = "case = engine history under the C17 discipline (exactly one update at every day start, flights checked in on the UTC day they depart, in order): 1-8 travellers over 8-40 consecutive days, several flights per day, multi-flight check-ins, departures at exactly midnight and at 23:59:59 region, zero-distance flights, debit on/off, refusals, promised trips kept by updates, trips closed by limits; compared under the C17 projection (flights, travellers and distance bits of every update); Go monitor tallies accepted flights itself; non-trivial = at least 3 updates counted flights and one counted several travellers; distinct by script hash"
	wd := filepath.Join(o.dir, "dbs")
	for c := 0; c < n; c++ {
		r := rng.Fork()
		cfg := engCfg{nTrav: r.Range(1, 8), days: r.Range(8, 40), promises: -1, strictDaily: true}
		// every sixth history is cut into sessions, some ended cleanly and some killed (the counting must not
		// depend on administrator state that a kill loses); these are judged by the harness's own tally only
		cfg.kills = c%6 == 5
		s := genEngine(r, wd, "C17", cfg)
		keepFails(o, s, "C17")
		engNote(o, s)
		if cfg.kills {
			o.CountN("sessions_killed_without_saving", s.stat["kills"])
			o.CountN("sessions_ended_cleanly", s.stat["restarts"])
		} else {
			o.AddCase(List(s.coq), s.stat["c17_updates_with_flights"] >= 3 && s.stat["c17_updates_with_several_travellers"] > 0, s.ops)
		}
		s.close()
	}
	engFlush(o, "C17")
}

func engCounts(tier string) int {
	switch tier {
	case "thorough":
		return 1200
	case "search":
		return 300
	default:
		return 90
	}
}

func keepFails(o *Out, s *engSession, prop string) {
	for _, f := range s.fails {
		if f.Property == prop {
			o.Fail(f)
		}
	}
}

func runC01(o *Out, rng *Rng, tier string, replay string) {
	n := engCounts(tier)
	o.sum.Rule = "case = engine history (real Engine on a real LevelDB): population of 1-6 travellers over 8-40 days with daily updates, single and multi-flight check-ins (debit on/off, trial days, taxi overhead, refused/too-old/empty submissions), proposals, promise-making, kept promises with the correct-balances option, traveller close/reopen; compared under the C01 projection (result codes, balance bits and the stored 100-entry ledger after every operation); Go monitor keeps its own unbounded ledger; non-trivial = at least one refused and one accepted debiting check-in and one credited update; every fifth case drives a ledger beyond 100 entries; distinct by script hash"
	wd := filepath.Join(o.dir, "dbs")
	for c := 0; c < n; c++ {
		r := rng.Fork()
		cfg := engCfg{nTrav: r.Range(1, 6), days: r.Range(8, 40), promises: -1, trialDays: 0}
		if r.Chance(1, 5) {
			cfg.trialDays = r.Range(1, 5)
		}
		if c%5 == 4 {
			cfg = engCfg{nTrav: r.Range(1, 2), days: r.Range(45, 70), promises: 0, bigLedger: true}
		}
		if c%3 == 1 {
			cfg.faults = true // some check-ins meet a failing read or write of the travellers table
		}
		var s *engSession
		if c%15 == 7 {
			s = genC01Full(r, wd) // a full history and a through check-in whose later flight is too old
		} else {
			s = genEngine(r, wd, "C01", cfg)
		}
		keepFails(o, s, "C01")
		engNote(o, s)
		nt := s.stat["submits_accepted"] > 0 && s.stat["submits_refused_1"] > 0 && s.stat["updates_with_credit"] > 0
		o.CountN("checkins_with_storage_fault", s.stat["checkins_with_storage_fault"])
		o.CountN("submissions_with_a_later_flight_too_old_for_a_full_history", s.stat["submissions_with_a_later_flight_too_old_for_a_full_history"])
		o.AddCase(List(s.coq), nt, s.ops)
		s.close()
	}
	engFlush(o, "C01")
}

func runC02(o *Out, rng *Rng, tier string, replay string) {
	n := engCounts(tier)
	o.sum.Rule = "case = engine history as for C01 (every third: check-ins just before / at a kept promise's clearance second for flights departing after it, and trips promised to start before a kept promise's clearance date; every sixth: a kept promise whose entry has left the book), compared under the C02 projection (the result code of every check-in); Go monitor recomputes 'grounded' (not mid-trip, negative balance, no kept promise whose refreshed clearance has been reached) from the record read just before each call; non-trivial = the history contains a grounded refusal and an acceptance at the start of a new trip; distinct by script hash"
	wd := filepath.Join(o.dir, "dbs")
	for c := 0; c < n; c++ {
		r := rng.Fork()
		cfg := engCfg{nTrav: r.Range(1, 5), days: r.Range(10, 40), promises: -1}
		var s *engSession
		if c%6 == 5 {
			burstProj = "C02"
			s = genC08Burst(r, wd) // a kept promise whose entry leaves the book before it is used
			burstProj = "C08"
		} else if c%6 == 2 || c%6 == 4 {
			s = genC02Kept(r, wd, "C02") // check-ins around a kept promise's clearance second; trips stacked on a kept promise
		} else {
			cfg.faults = c%6 != 0 // check-ins of grounded travellers while the travellers table cannot be read (1-4 failing reads)
			s = genEngine(r, wd, "C02", cfg)
		}
		keepFails(o, s, "C02")
		engNote(o, s)
		nt := s.stat["c02_grounded_cases"] > 0 && s.stat["c02_cleared_at_trip_start"] > 0
		o.CountN("checkins_with_storage_fault", s.stat["checkins_with_storage_fault"])
		o.AddCase(List(s.coq), nt, s.ops)
		s.close()
	}
	engFlush(o, "C02")
}

func runC03(o *Out, rng *Rng, tier string, replay string) {
	n := engCounts(tier)
	o.sum.Rule = "case = engine history with 2-40 travellers in mixed states over consecutive days, any Daily Total / minimum-grounded / correction setting (zeros included), compared under the C03 projection (share bits, grounded count, every balance after every update); Go monitor recomputes the share formula and who must be credited; non-trivial = an update credited some but not all travellers and a later update used the carried count; distinct by script hash"
	wd := filepath.Join(o.dir, "dbs")
	for c := 0; c < n; c++ {
		r := rng.Fork()
		cfg := engCfg{nTrav: r.Range(2, 12), days: r.Range(6, 25), promises: -1}
		if r.Chance(1, 6) {
			cfg.nTrav = r.Range(20, 40)
			cfg.days = r.Range(5, 10)
		}
		var s *engSession
		if c%5 == 3 {
			// travellers flying on kept promises while in debt (the promise correction accumulates), under
			// every combination of the correction option bits
			bits := []int{0x40, 0x20, 0x50, 0x60, 0x10, 0x70, 0x00, 0x30}[(c/5)%8]
			s = genProtocol(r, wd, false, "C03", bits)
			o.Count(fmt.Sprintf("protocol_history_option_bits_%#x", bits))
		} else {
			s = genEngine(r, wd, "C03", cfg)
		}
		keepFails(o, s, "C03")
		engNote(o, s)
		nt := s.stat["updates_with_credit"] > 1
		o.AddCase(List(s.coq), nt, s.ops)
		s.close()
	}
	engFlush(o, "C03")
}
