package main

import (
	"bytes"
	"fmt"
	"math"
	"time"

	"github.com/richardmorrey/flap/pkg/flap"
)

func init() { runners["C11"] = runC11 }

type rpOp map[string]interface{}

func bitsList(xs []float64) string {
	var l []string
	for _, x := range xs {
		l = append(l, fmt.Sprint(fbits(x)))
	}
	return List(l)
}

// shareSeries: rising, falling, noisy, constant histories of positive daily shares
func shareSeries(r *Rng, n int) []float64 {
	base := 5 + 2000*r.F01()
	kind := r.Intn(5)
	ys := make([]float64, n)
	for i := range ys {
		switch kind {
		case 0: // constant
			ys[i] = base
		case 1: // rising
			ys[i] = base * (1 + 0.03*float64(i))
		case 2: // falling (stays positive)
			ys[i] = base * (1 + 0.02*float64(n-i))
		case 3: // noisy
			ys[i] = base * (0.5 + r.F01())
		default: // steps
			ys[i] = base * float64(1+(i/5)%3)
		}
	}
	return ys
}

func genC11(r *Rng) (coq []string, ops []rpOp, fails []MonitorFailure, stat map[string]int) {
	stat = map[string]int{}
	fail := func(sig, what string) {
		if len(fails) < 4 {
			cp := make([]rpOp, len(ops))
			copy(cp, ops)
			fails = append(fails, MonitorFailure{Property: "C11", Signature: sig, What: what, Replay: cp})
		}
	}
	maxPoints := r.Range(2, 14)
	window := r.Range(0, 6)
	poly := r.Bool()
	degree := r.Range(1, 3)
	cfg := flap.PromisesConfig{MaxPoints: uint32(maxPoints), SmoothWindow: flap.Days(window), Degree: uint32(degree)}
	var pr *flap.VerifPred
	var err error
	if poly {
		pr, err = flap.VerifNewPolyBestFit(cfg)
		coq = append(coq, fmt.Sprintf("RNewPoly %d %d %d %s", maxPoints, window, degree, Bool(err == nil)))
	} else {
		pr, err = flap.VerifNewBestFit(cfg)
		coq = append(coq, fmt.Sprintf("RNewLinear %d %d %s", maxPoints, window, Bool(err == nil)))
	}
	ops = append(ops, rpOp{"op": "new", "poly": poly, "maxPoints": maxPoints, "window": window, "degree": degree})
	if err != nil {
		return
	}
	n := r.Range(1, maxPoints+8) // also beyond the window
	ys := shareSeries(r, n)
	if !poly && n >= 3 && r.Chance(1, 6) {
		// linear predictor: a share that collapses - a steep fall whose fitted line reaches zero within days, and a
		// last share that is positive but minute (the fall-back "distance divided by the last share" then asks
		// for a day far beyond what a clearance date can hold)
		for i := range ys {
			ys[i] = ys[0] * float64(n-i) / float64(n)
		}
		ys[n-1] = []float64{1e-9, 1e-16, 1e-300, 4.9e-324}[r.Intn(4)]
		stat["collapsing_share_histories"]++
	}
	constant := true
	for _, y := range ys {
		if y != ys[0] {
			constant = false
		}
	}
	day := int64(r.Range(18000, 25000))
	for i, y := range ys {
		before := pr.State()
		pr.Add(day, flap.Kilometres(y))
		after := pr.State()
		coq = append(coq, fmt.Sprintf("RAdd %d %d %s", day, fbits(y), bitsList(after.Consts)))
		ops = append(ops, rpOp{"op": "add", "day": day, "y": y})
		// version changes when and only when the fitted curve changes
		fitChanged := fbits(before.M) != fbits(after.M) || fbits(before.C) != fbits(after.C) || bitsList(before.Consts) != bitsList(after.Consts)
		if fitChanged != (after.Pv != before.Pv) {
			fail("version-does-not-track-fit", fmt.Sprintf("add(%d, %v): fitted curve changed=%v but version went %d -> %d", day, y, fitChanged, before.Pv, after.Pv))
		}
		var consts []float64
		if poly {
			consts = after.Consts
		} else {
			consts = []float64{after.C, after.M}
		}
		coq = append(coq, fmt.Sprintf("RState %s %s %s %d", bitsList(after.Ys), bitsList(after.Window), bitsList(consts), after.Pv))
		// a restart now and then: the predictor is stored and loaded into a fresh one; neither its curve nor
		// its version may change, and every later answer must be that of the uninterrupted predictor (the
		// model simply carries on)
		if r.Chance(1, 4) {
			var buf bytes.Buffer
			var fresh *flap.VerifPred
			if poly {
				fresh, _ = flap.VerifNewPolyBestFit(cfg)
			} else {
				fresh, _ = flap.VerifNewBestFit(cfg)
			}
			if e1 := pr.To(&buf); e1 != nil {
				fail("predictor-cannot-be-stored", fmt.Sprintf("To: %v", e1))
			} else if e2 := fresh.From(&buf); e2 != nil {
				fail("predictor-cannot-be-loaded", fmt.Sprintf("From: %v", e2))
			} else {
				pr = fresh
				re := pr.State()
				if re.Pv != after.Pv || fbits(re.M) != fbits(after.M) || fbits(re.C) != fbits(after.C) || bitsList(re.Consts) != bitsList(after.Consts) {
					fail("reload-changed-curve-or-version", fmt.Sprintf("after storing and loading the predictor: version %d -> %d, line (%v,%v) -> (%v,%v), constants %v -> %v", after.Pv, re.Pv, after.M, after.C, re.M, re.C, after.Consts, re.Consts))
				}
				var rc []float64
				if poly {
					rc = re.Consts
				} else {
					rc = []float64{re.C, re.M}
				}
				coq = append(coq, fmt.Sprintf("RState %s %s %s %d", bitsList(re.Ys), bitsList(re.Window), bitsList(rc), re.Pv))
				ops = append(ops, rpOp{"op": "store-and-load"})
				stat["reloads"]++
			}
		}
		// queries at and after the last data point
		nq := 2
		if i == len(ys)-1 {
			nq = 8
		}
		for q := 0; q < nq; q++ {
			start := day + int64(r.Range(0, 40))
			d := []float64{0.5, 100, 2500.25, 20000, 1e6}[r.Intn(5)] * (0.5 + r.F01())
			type pout struct {
				z   int64
				err error
			}
			ch := make(chan pout, 1)
			go func() { z, e := pr.Predict(flap.Kilometres(d), start); ch <- pout{z, e} }()
			var res pout
			select {
			case res = <-ch:
			case <-time.After(5 * time.Second):
				fail("prediction-does-not-return", fmt.Sprintf("predict(%v, %d) did not return within 5 s", d, start))
				return
			}
			if res.err != nil {
				coq = append(coq, fmt.Sprintf("RPredict %d %d None", fbits(d), start))
			} else {
				coq = append(coq, fmt.Sprintf("RPredict %d %d (Some %s)", fbits(d), start, Z(res.z)))
				stat["predictions"]++
				if res.z < start {
					fail("prediction-before-start", fmt.Sprintf("shares %v...: predict(%v, start %d) = %d, earlier than the start day", ys[:minInt(3, len(ys))], d, start, res.z))
				}
				// flat share: t + ceil(d/s) within one day
				if constant && len(after.Ys) >= 2 && d/ys[0] <= 3650 {
					want := start + int64(math.Ceil(d/ys[0]))
					if res.z < want-1 || res.z > want+1 {
						sig := "flat-share-prediction-off"
						if poly && degree == 3 && d/ys[0] > 1000 {
							// known finding: the cubic fit in raw epoch-day coordinates, rounded to ten decimals, drifts on horizons beyond 1000 days
							sig = "flat-share-prediction-off-cubic-horizon-over-1000-days"
						}
						fail(sig, fmt.Sprintf("constant share %v: predict(%v, %d) = %d, expected %d within one day (poly=%v degree=%d points=%d)", ys[0], d, start, res.z, want, poly, degree, len(after.Ys)))
					}
					stat["flat_share_predictions"]++
				}
			}
			ops = append(ops, rpOp{"op": "predict", "d": d, "start": start, "res": res.z, "err": res.err != nil})
			s := start
			e := start + int64(r.Range(0, 60))
			bf, berr := pr.Backfilled(s, e)
			if berr != nil {
				coq = append(coq, fmt.Sprintf("RBackfilled %d %d None", s, e))
			} else {
				coq = append(coq, fmt.Sprintf("RBackfilled %d %d (Some %d)", s, e, fbits(float64(bf))))
				if float64(bf) < 0 {
					fail("negative-backfill-over-forward-interval", fmt.Sprintf("backfilled(%d, %d) = %v", s, e, float64(bf)))
				}
			}
		}
		day++
	}
	if len(ys) > maxPoints {
		stat["beyond_window"]++
	}
	if constant {
		stat["constant_series"]++
	}
	return
}

func minInt(a, b int) int {
	if a < b {
		return a
	}
	return b
}

func runC11(o *Out, rng *Rng, tier string, replay string) {
	n := 300
	if tier == "thorough" {
		n = 5000
	} else if tier == "search" {
		n = 1200
	}
	o.sum.Rule = "case = one predictor (linear or polynomial of degree 1-3, window 2-14 points, smoothing window 0-6) fed a history of positive daily shares (constant, rising, falling, noisy, stepped; 1 point to 8 beyond the window) at epoch days 18000-25000; after every point the whole state (smoothed points, window, fitted constants, version) and several predict / backfilled answers for distances 0.25-1.5e6 km and start days at and after the last point are compared bit for bit with the PrimFloat model (the polynomial fit constants enter the model as data); Go monitors: never before the start day, non-negative forward backfill, returns within 5 s, flat shares within one day of t+ceil(d/s), version changes iff the fit changes; non-trivial = history longer than the window or constant history with predictions; distinct by script hash"
	for c := 0; c < n; c++ {
		coq, ops, fails, stat := genC11(rng.Fork())
		for _, f := range fails {
			o.Fail(f)
		}
		for k, v := range stat {
			o.CountN(k, v)
		}
		o.AddCase(List(coq), stat["beyond_window"] > 0 || stat["flat_share_predictions"] > 0, ops)
	}
	o.FlushCases("C11", "From Coq Require Import ZArith List.\nFrom Flap Require Import Run.RunPred.\nImport ListNotations.\nOpen Scope Z_scope.",
		"list (list rpop)", "rp_mismatches 0%nat", 16)
}
