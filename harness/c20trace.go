package main

// C20: the order of a simulated day, observed on the REAL Engine.Run.  The simulation's database is seen
// through a recorder; from the writes to the travellers table the order of the engine calls of every
// Engine.modelDay is reconstructed and held against the phases of Model/Sim.v (sim_day): first the daily update
// (batch writes under a snapshot), then planning (Engine.Make: writes that change a promise book and no trip
// history), then the day's check-ins (Engine.SubmitFlights: writes that add flights, all departing on one UTC
// day, one day later than the day before) - never a planning write after a check-in of the same day, never an
// update write after either.

import (
	"bytes"
	"encoding/json"
	"fmt"
	"io/ioutil"
	"os"
	"os/exec"
	"path/filepath"
	"sync"
	"time"

	"github.com/richardmorrey/flap/pkg/db"
	"github.com/richardmorrey/flap/pkg/flap"
	"github.com/richardmorrey/flap/pkg/model"
)

type traceEv struct {
	kind string // snap, bput, put
	key  string
	val  []byte
}
type traceRec struct {
	mu  sync.Mutex
	evs []traceEv
}

func (r *traceRec) add(kind, key string, s db.Serialize) {
	var b bytes.Buffer
	if s != nil {
		s.To(&b)
	}
	r.mu.Lock()
	r.evs = append(r.evs, traceEv{kind, key, append([]byte(nil), b.Bytes()...)})
	r.mu.Unlock()
}

type traceDB struct {
	inner db.Database
	rec   *traceRec
}

func (d *traceDB) wrapT(n string, t db.Table, err error) (db.Table, error) {
	if err != nil || n != "travellers" {
		return t, err
	}
	return &traceTable{t, d.rec}, nil
}
func (d *traceDB) OpenTable(n string) (db.Table, error) {
	t, err := d.inner.OpenTable(n)
	return d.wrapT(n, t, err)
}
func (d *traceDB) CreateTable(n string) (db.Table, error) {
	t, err := d.inner.CreateTable(n)
	return d.wrapT(n, t, err)
}
func (d *traceDB) CloseTable(n string) error { return d.inner.CloseTable(n) }
func (d *traceDB) DropTable(n string) error  { return d.inner.DropTable(n) }
func (d *traceDB) Release() error            { return d.inner.Release() }

type traceTable struct {
	inner db.Table
	rec   *traceRec
}

func (t *traceTable) Get(k string, s db.Serialize) error { return t.inner.Get(k, s) }
func (t *traceTable) Put(k string, s db.Serialize) error {
	t.rec.add("put", k, s)
	return t.inner.Put(k, s)
}
func (t *traceTable) Delete(k string) error                     { return t.inner.Delete(k) }
func (t *traceTable) NewIterator(p string) (db.Iterator, error) { return t.inner.NewIterator(p) }
func (t *traceTable) TakeSnapshot() (db.Snapshot, error) {
	t.rec.add("snap", "", nil)
	return t.inner.TakeSnapshot()
}
func (t *traceTable) MakeBatch(n int) (db.BatchWrite, error) {
	b, err := t.inner.MakeBatch(n)
	if err != nil {
		return nil, err
	}
	return &traceBatch{b, t.rec}, nil
}

type traceBatch struct {
	inner db.BatchWrite
	rec   *traceRec
}

func (b *traceBatch) Put(k string, s db.Serialize) error {
	b.rec.add("bput", k, s)
	return b.inner.Put(k, s)
}
func (b *traceBatch) Delete(k string) error { return b.inner.Delete(k) }
func (b *traceBatch) Release() error        { return b.inner.Release() }

type traceReport struct {
	Days, UpdateWrites, PlanningWrites, CheckinWrites, OtherWrites int
	Violations                                                      []string
	Err                                                             string
}

func decodeTrav(b []byte) (*flap.Traveller, bool) {
	if len(b) == 0 {
		return nil, false
	}
	var t flap.Traveller
	if err := t.From(bytes.NewBuffer(append([]byte(nil), b...))); err != nil {
		return nil, false
	}
	return &t, true
}

func analyseTrace(evs []traceEv) traceReport {
	var rep traceReport
	last := map[string][]byte{}
	viol := func(s string) {
		if len(rep.Violations) < 8 {
			rep.Violations = append(rep.Violations, s)
		}
	}
	phase := 0 // 0 = update, 1 = planning, 2 = check-ins
	dayOfCheckins := int64(-1)
	prevDayOfCheckins := int64(-1)
	day := 0
	for _, e := range evs {
		switch e.kind {
		case "snap":
			day++
			rep.Days++
			phase = 0
			if dayOfCheckins >= 0 {
				prevDayOfCheckins = dayOfCheckins
			}
			dayOfCheckins = -1
		case "bput":
			rep.UpdateWrites++
			if phase != 0 {
				viol(fmt.Sprintf("simulated day %d: a write of the daily update after the day's planning or check-ins had begun", day))
			}
			last[e.key] = e.val
		case "put":
			if day == 0 {
				last[e.key] = e.val
				continue
			}
			oldT, hadOld := decodeTrav(last[e.key])
			newT, ok := decodeTrav(e.val)
			last[e.key] = e.val
			if !ok {
				rep.OtherWrites++
				continue
			}
			var oldF []flap.VerifFlight
			var oldP []flap.Promise
			if hadOld {
				oldF, oldP = oldT.VerifTripHistory().VerifEntries(), oldT.Promises.VerifEntries()
			}
			newF, newP := newT.VerifTripHistory().VerifEntries(), newT.Promises.VerifEntries()
			histChanged := len(oldF) != len(newF)
			for i := range newF {
				if !histChanged && (oldF[i].Start != newF[i].Start || oldF[i].End != newF[i].End) {
					histChanged = true
				}
			}
			if !hadOld {
				histChanged = len(newF) > 0 && newF[0].Start != 0
			}
			bookChanged := !hadOld || len(oldP) != len(newP)
			for i := range newP {
				if !bookChanged && oldP[i] != newP[i] {
					bookChanged = true
				}
			}
			switch {
			case histChanged:
				rep.CheckinWrites++
				phase = 2
				d := int64(newF[0].Start) / 86400
				if dayOfCheckins >= 0 && d != dayOfCheckins {
					viol(fmt.Sprintf("simulated day %d: check-ins for flights departing on epoch days %d and %d in one day", day, dayOfCheckins, d))
				}
				if dayOfCheckins < 0 && prevDayOfCheckins >= 0 && d <= prevDayOfCheckins {
					viol(fmt.Sprintf("simulated day %d: check-ins for epoch day %d after check-ins for epoch day %d", day, d, prevDayOfCheckins))
				}
				dayOfCheckins = d
			case bookChanged:
				rep.PlanningWrites++
				if phase == 2 {
					viol(fmt.Sprintf("simulated day %d: a promise was made (Engine.Make) after check-ins of the same day", day))
				}
				if phase == 0 {
					phase = 1
				}
			default:
				rep.OtherWrites++
			}
		}
	}
	return rep
}

// c20TraceChild: child process - Build and Run on the recorded database, report as JSON next to the configuration
func c20TraceChild(cfg string) {
	null, _ := os.OpenFile(os.DevNull, os.O_WRONLY, 0)
	os.Stdout = null
	rec := &traceRec{}
	var rep traceReport
	for _, ph := range []string{"build", "run"} {
		e, err := model.VerifNewEngineWithDB(cfg, func(d db.Database) db.Database { return &traceDB{d, rec} })
		if err != nil {
			rep.Err = "NewEngine: " + err.Error()
			break
		}
		if ph == "build" {
			err = e.Build()
		} else {
			err = e.Run(false, 0)
		}
		e.Release()
		if err != nil {
			rep.Err = ph + ": " + err.Error()
			break
		}
	}
	if rep.Err == "" {
		rep = analyseTrace(rec.evs)
	}
	js, _ := json.Marshal(rep)
	ioutil.WriteFile(filepath.Join(filepath.Dir(cfg), "trace.json"), js, 0o644)
	os.Exit(0)
}

func runTrace(o *Out, sp *simSpec, timeout time.Duration) {
	self, _ := os.Executable()
	cmd := exec.Command(self, "C20TRACE", sp.Cfg)
	cmd.Dir = sp.Dir
	done := make(chan error, 1)
	cmd.Start()
	go func() { done <- cmd.Wait() }()
	select {
	case <-done:
	case <-time.After(timeout):
		cmd.Process.Kill()
		<-done
		o.Count("traced_simulation_timed_out")
		return
	}
	b, err := ioutil.ReadFile(filepath.Join(sp.Dir, "trace.json"))
	if err != nil {
		o.Count("traced_simulation_without_report") // crashes and errors are the business of the simulation stream
		return
	}
	var rep traceReport
	json.Unmarshal(b, &rep)
	if rep.Err != "" {
		o.Count("traced_simulation_with_error")
		return
	}
	o.Count("traced_simulations")
	o.CountN("traced_simulated_days", rep.Days)
	o.CountN("traced_update_writes", rep.UpdateWrites)
	o.CountN("traced_planning_writes", rep.PlanningWrites)
	o.CountN("traced_checkin_writes", rep.CheckinWrites)
	for _, v := range rep.Violations {
		cfgText, _ := ioutil.ReadFile(sp.Cfg)
		o.Fail(MonitorFailure{Property: "C20", Signature: "correspondence:order-of-a-simulated-day-differs-from-the-model", What: "real Engine.Run, engine calls reconstructed from the writes to the travellers table: " + v, Replay: map[string]interface{}{"config": sp.Cfg, "config_text": string(cfgText)}})
	}
}
