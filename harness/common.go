package main

import (
	"crypto/sha1"
	"encoding/hex"
	"encoding/json"
	"fmt"
	"math"
	"os"
	"path/filepath"
	"sort"
	"strings"
)

// ---------- deterministic PRNG (splitmix64), the single source of every random choice ----------

type Rng struct{ s uint64 }

func NewRng(seed uint64) *Rng { return &Rng{s: seed*0x9E3779B97F4A7C15 + 0x1234567} }
func (r *Rng) U64() uint64 {
	r.s += 0x9E3779B97F4A7C15
	z := r.s
	z = (z ^ (z >> 30)) * 0xBF58476D1CE4E5B9
	z = (z ^ (z >> 27)) * 0x94D049BB133111EB
	return z ^ (z >> 31)
}
func (r *Rng) Intn(n int) int {
	if n <= 0 {
		return 0
	}
	return int(r.U64() % uint64(n))
}
func (r *Rng) I64n(n int64) int64 {
	if n <= 0 {
		return 0
	}
	return int64(r.U64() % uint64(n))
}
func (r *Rng) Range(lo, hi int) int { return lo + r.Intn(hi-lo+1) } // inclusive
func (r *Rng) Bool() bool           { return r.U64()&1 == 1 }
func (r *Rng) Chance(num, den int) bool {
	return r.Intn(den) < num
}
func (r *Rng) F01() float64 { return float64(r.U64()>>11) / float64(1<<53) }
func (r *Rng) Fork() *Rng   { return NewRng(r.U64()) }
func (r *Rng) Clone() *Rng  { return &Rng{s: r.s} }

// ---------- Coq term emission ----------

func Z(x int64) string {
	if x < 0 {
		return fmt.Sprintf("(%d)", x)
	}
	return fmt.Sprintf("%d", x)
}
func ZU(x uint64) string { return fmt.Sprintf("%d", x) }
func Nat(x int) string   { return fmt.Sprintf("%d%%nat", x) }
func OptZ(ok bool, x int64) string {
	if ok {
		return "(Some " + Z(x) + ")"
	}
	return "None"
}
func Bool(b bool) string {
	if b {
		return "true"
	}
	return "false"
}

// F emits a float64 as its 64 bits (a Z literal); the Coq side turns it into a PrimFloat.
func F(x float64) string { return fmt.Sprintf("%d", math.Float64bits(x)) }

func List(items []string) string { return "[" + strings.Join(items, "; ") + "]" }

// ---------- case files and summary ----------

type MonitorFailure struct {
	Property  string      `json:"property"`
	Signature string      `json:"signature"` // structural class of the failing input (matched by known_findings.json)
	What      string      `json:"what"`
	Replay    interface{} `json:"replay"`
}

type Summary struct {
	Property           string                 `json:"property"`
	Tier               string                 `json:"tier"`
	Seed               uint64                 `json:"seed"`
	Evaluations        int                    `json:"evaluations"`
	DistinctNontrivial int                    `json:"distinct_nontrivial"`
	Rule               string                 `json:"rule"`
	Samples            []interface{}          `json:"samples"`
	Distribution       map[string]interface{} `json:"distribution"`
	CaseFiles          []string               `json:"case_files"`
	Cases              map[string]interface{} `json:"cases"` // case id -> replayable description
	Failures           []MonitorFailure       `json:"monitor_failures"`
	Exhaustive         bool                   `json:"exhaustive,omitempty"`
	Notes              []string               `json:"notes,omitempty"`
}

type Out struct {
	dir     string
	sum     Summary
	hashes  map[string]bool
	counter map[string]int
	pending []pendingCase
}

func NewOut(dir, prop, tier string, seed uint64) *Out {
	os.MkdirAll(dir, 0o755)
	return &Out{dir: dir, sum: Summary{Property: prop, Tier: tier, Seed: seed,
		Distribution: map[string]interface{}{}, Cases: map[string]interface{}{}},
		hashes: map[string]bool{}, counter: map[string]int{}}
}

func (o *Out) Count(key string)        { o.counter[key]++ }
func (o *Out) CountN(key string, n int) { o.counter[key] += n }

// Case registers one evaluated case: its canonical text (for distinctness), whether it is
// non-trivial by the property's rule, and a replayable description.
func (o *Out) Case(id string, canon string, nontrivial bool, replay interface{}) {
	o.sum.Evaluations++
	h := sha1.Sum([]byte(canon))
	k := hex.EncodeToString(h[:8])
	if nontrivial && !o.hashes[k] {
		o.hashes[k] = true
		o.sum.DistinctNontrivial++
	}
	o.sum.Cases[id] = replay
	if len(o.sum.Samples) < 3 {
		o.sum.Samples = append(o.sum.Samples, replay)
	}
}

type pendingCase struct {
	coq        string
	nontrivial bool
	replay     interface{}
}

// AddCase queues one case; FlushCases later spreads the queued cases over balanced shards.
func (o *Out) AddCase(coq string, nontrivial bool, replay interface{}) {
	o.pending = append(o.pending, pendingCase{coq, nontrivial, replay})
}

// FlushCases writes the queued cases as `shards` files of roughly equal size (greedy by length)
// and registers each case under the id "<prefix>_<shard>/<index>".
func (o *Out) FlushCases(prefix, requires, casesType, mismatchFn string, shards int) {
	if len(o.pending) == 0 {
		return
	}
	if shards > len(o.pending) {
		shards = len(o.pending)
	}
	order := make([]int, len(o.pending))
	for i := range order {
		order[i] = i
	}
	sort.SliceStable(order, func(a, b int) bool { return len(o.pending[order[a]].coq) > len(o.pending[order[b]].coq) })
	bins := make([][]int, shards)
	sizes := make([]int, shards)
	for _, i := range order {
		best := 0
		for b := 1; b < shards; b++ {
			if sizes[b] < sizes[best] {
				best = b
			}
		}
		bins[best] = append(bins[best], i)
		sizes[best] += len(o.pending[i].coq) + 200
	}
	for b, bin := range bins {
		sort.Ints(bin)
		name := fmt.Sprintf("%s_%03d", prefix, b)
		var items []string
		for k, i := range bin {
			pc := o.pending[i]
			o.Case(fmt.Sprintf("%s/%d", name, k), pc.coq, pc.nontrivial, pc.replay)
			items = append(items, pc.coq)
		}
		o.WriteCases(name, requires, casesType, items, mismatchFn)
	}
	o.pending = nil
}

func (o *Out) Fail(f MonitorFailure) { o.sum.Failures = append(o.sum.Failures, f) }

// WriteCases writes a cases_<name>.v file: header, a definition of `cases`, and the evaluation
// command whose printed result the driver reads.
func (o *Out) WriteCases(name string, requires string, casesType string, items []string, mismatchFn string) {
	if o.sum.Tier == "search" {
		return // monitors only
	}
	fn := filepath.Join(o.dir, "cases_"+name+".v")
	var b strings.Builder
	b.WriteString(requires + "\n")
	b.WriteString("Definition cases : " + casesType + " :=\n [\n  ")
	b.WriteString(strings.Join(items, ";\n  "))
	b.WriteString("\n ].\n")
	b.WriteString("Definition M := Eval vm_compute in (" + mismatchFn + " cases).\nPrint M.\n")
	if err := os.WriteFile(fn, []byte(b.String()), 0o644); err != nil {
		panic(err)
	}
	o.sum.CaseFiles = append(o.sum.CaseFiles, fn)
}

func (o *Out) Finish() {
	keys := make([]string, 0, len(o.counter))
	for k := range o.counter {
		keys = append(keys, k)
	}
	sort.Strings(keys)
	for _, k := range keys {
		o.sum.Distribution[k] = o.counter[k]
	}
	if o.sum.Failures == nil {
		o.sum.Failures = []MonitorFailure{}
	}
	data, _ := json.MarshalIndent(o.sum, "", " ")
	if err := os.WriteFile(filepath.Join(o.dir, "summary.json"), data, 0o644); err != nil {
		panic(err)
	}
}
